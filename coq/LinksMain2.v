(* K2 / K3 with the guard G_once WITHOUT the payload clause: that the SIGNAL_DEF chunk of sid carries wm_signal_payload d is
   derived (LinksDef.lk_sigdef_chunk: the chunk appended by the accepted jls_wr_signal_def call is in the chunk view of the
   complete log with that payload; the guard says it is the only SIGNAL_DEF chunk of sid on the signal list).
   Every top-level name starts with lk_. *)
From Coq Require Import NArith ZArith List Bool Lia Arith.
From Coq Require Import ZifyBool ZifyN ZifyNat.
From JLS Require Import Generated CrcDefs Spec Format FormatProofs WriteOnce WriteOnceProofs
  WmRaw WmCore WmTs WmFsr WriterModel WmProofs WmWriteOnce WmWriteOnce2 WmWriteOnce3
  BitCopyModel FsrPackModel PyramidModel PyramidProofs RefineLog RefineFsr RefinePyr RefinePyr2 RefineBits2 RefineProg
  RepairRaw RepairModel ReaderModel ReaderProofs2 RawReadProofs ComposeFsr ComposeAlign ComposeTop
  E2eLog E2eNoTrunc E2eRead E2eModel E2eFsr E2eFsr2 E2eProg E2eDisk E2eTop E2eOpen E2eMain E2eCodec
  LinksCore LinksCore2 LinksFsr LinksApi LinksTop LinksRead LinksOpen LinksFold LinksMain LinksDef.
Import ListNotations.
Local Open Scope N_scope.
Ltac Zify.zify_post_hook ::= Z.div_mod_to_equations.
Local Opaque crc32c.

Theorem lk_open_R0_v2 : forall (summ1 : N -> list N -> wm_sentry) (summN : bool -> list wm_sentry -> wm_sentry)
    (d0 d : sigdef) (pos0 : Z) (p1 p2 : list wop) (stf : py_wr),
  (0 < pos0)%Z -> sg_id d <> 0 -> sg_type d = JLS_SIGNAL_TYPE_FSR -> sg_eps d * sg_sdf d < 4294967296 ->
  let sid := sg_id d in
  let w := dt_bits (sg_dtype d) in
  let pd := rf_pd d in
  let p := p1 ++ WSig d0 :: p2 in
  Forall (rp_ok sid) p ->
  Forall (fun o => match o with WSig d' => sg_id d' <> sid | _ => True end) p1 ->
  snd (wm_api_signal_def (fst (wm_steps summ1 summN wm_api_open p1 [])) d0) = 0 -> wm_sig_align d0 = Some d ->
  let ops := rp_proj sid p2 in
  py_srun pd (w <=? 8) (rf_t0 ops) pos0 (rf_script d rf_bs0 ops) = PyOk stf ->
  wm_fill_sample (sg_dtype d) = fill_value (sg_dtype d) ->
  let g := fold_left (fun g c => fsr_write g (fst c) (snd c)) (rf_calls ops) (new_sig d) in
  rd_length g <> 0 ->
  let stF := fst (wm_run_full summ1 summN p) in
  wmw_bounded (wm_st_log stF) ->
  let f := e2_file summ1 summN p in
  let cs := filter (rf_mine d) (rf_chunks (wm_st_log stF)) in
  e2t_adjb cs = true -> e2t_bigb cs = true ->
  rf_len f < rp_two63 -> sg_spd d < 4294967296 ->
  (- e2_tsb <= rf_t0 ops)%Z /\ (rf_t0 ops + Z.of_N (rd_length g) + Z.of_N (sg_spd d) <= e2_tsb)%Z ->
  (forall k, (1 <= k)%nat -> nth k (pw_heads stf) 0%Z <> 0%Z -> (py_step pd k < rdm_two63)%Z) ->
  let psi := rf_psi (map rc_off cs) pos0 in
  (* the guards of the definition lists *)
  let csA := rf_chunks (wm_st_log stF) in
  e2t_bigb (filter (fun c => negb (lk_key (rc_tag c) =? 0)) csA) = true ->
  forallb (fun c => (JLS_SOURCE_COUNT <=? rc_meta c) || (rp_source_parse (rc_pay c) =? 0))
          (filter (fun c => lk_key (rc_tag c) =? 1) csA) = true ->
  sg_dtype d < 4294967296 -> sg_rate d < 4294967296 -> sg_sdf d < 4294967296 -> sg_eps d < 4294967296 ->
  sg_sumdf d < 4294967296 -> sg_adf d < 4294967296 -> sg_udf d < 4294967296 ->
  let R2 := map (lk_rl1 f) (filter (fun c => lk_key (rc_tag c) =? 2) csA) in
  (exists A tdef B thead C, R2 = A ++ tdef :: B ++ thead :: C /\
     Forall (fun t => lk_hit sid t = false) A /\ Forall (fun t => lk_hit sid t = false) B /\ Forall (fun t => lk_touch sid t = false) C /\
     fm_tag (lk_ck_hdr tdef) = JLS_TAG_SIGNAL_DEF /\ fm_chunk_meta (lk_ck_hdr tdef) = sid /\
     fm_tag (lk_ck_hdr thead) = JLS_TAG_TRACK_FSR_HEAD /\ N.land (fm_chunk_meta (lk_ck_hdr thead)) CORE_SIGNAL_MASK = sid) ->
  Forall (fun t => lk_fsrhead_other sid t = true -> fm_dec_u64 (lk_ck_pay t) = 0) R2 ->
  exists st, rdm_open f = RdmOpened st /\ e2_R0 f d (pw_heads stf) psi (rf_t0 ops) st.
Proof.
  intros summ1 summN d0 d pos0 p1 p2 stf Hpos0 Hsid0 Hty Hprod sid w pd p Hok Hns Hrc Hal ops Hpy Hfillv g Hne stF Hbnd f cs
         Hadj Hbig Gflen Gspd Gts Gstep psi csA GbigD Gparse B1 B2 B4 B5 B6 B7 B8 R2 Gpat Goth.
  apply (lk_open_R0 summ1 summN d0 d pos0 p1 p2 stf Hpos0 Hsid0 Hty Hprod Hok Hns Hrc Hal Hpy Hfillv Hne Hbnd Hadj Hbig Gflen Gspd Gts Gstep
           GbigD Gparse B1 B2 B4 B5 B6 B7 B8); [|exact Goth].
  fold sid p stF f csA R2.
  pose proof (e2t_adjb_sound _ Hadj) as Gadj. pose proof (e2t_bigb_sound _ Hbig) as Gbig.
  destruct (e2t_env summ1 summN d0 d pos0 p1 p2 stf Hpos0 Hsid0 Hty Hprod Hok Hns Hrc Hal Hpy Hfillv Hne Hbnd Gadj Gbig Gflen Gspd Gts Gstep)
    as (Hflt & _).
  fold p stF in Hflt.
  destruct (cmp_top_guards summ1 summN d0 d p1 Hprod Hrc Hal) as (A1 & _). fold sid in A1.
  destruct (e2_model_file summ1 summN p Hflt Hbnd) as ((_ & _ & _ & _ & Hcok & _) & _ & _). fold p stF f csA in Hcok.
  destruct (lk_scan_file_det summ1 summN p Hflt Hbnd Gflen GbigD Gparse) as (c & _ & _ & _ & F2l & _ & _).
  fold p stF f csA R2 in F2l.
  destruct (lk_sigdef_chunk summ1 summN d0 d p1 p2 Hsid0 Hty Hok Hns Hrc Hal) as (cd & Hcdin & Tcd & Mcd & Pcd).
  fold p stF csA sid in Hcdin, Mcd.
  destruct Gpat as (A & tdef & B & thead & C & ER2 & HA & HB & HC & Td & Md & Th & Mh).
  exists A, tdef, B, thead, C. repeat (split; [assumption|]). split; [|split; assumption].
  assert (Hcd2 : In cd (filter (fun c => lk_key (rc_tag c) =? 2) csA)) by (apply filter_In; split; [exact Hcdin|rewrite Tcd; reflexivity]).
  pose proof (lk_rl_of_in f _ cd F2l Hcd2) as Hof. pose proof Hof as (_ & _ & Htag' & Hmeta').
  set (td' := lk_rl1 f cd) in *.
  assert (Hin' : In td' R2) by (unfold R2, td'; apply in_map; exact Hcd2).
  assert (Htouch' : lk_touch sid td' = true).
  { unfold lk_touch. cbv zeta. rewrite Htag', Tcd, Hmeta', Mcd. change (JLS_TAG_SIGNAL_DEF =? JLS_TAG_SIGNAL_DEF) with true. cbv iota. apply N.eqb_refl. }
  assert (Etd : td' = tdef).
  { rewrite ER2 in Hin'. apply in_app_or in Hin'. destruct Hin' as [Hi|[Hi|Hi]].
    - rewrite Forall_forall in HA. pose proof (HA _ Hi) as X. rewrite (lk_touch_hit _ _ Htouch') in X. discriminate.
    - symmetry. exact Hi.
    - apply in_app_or in Hi. destruct Hi as [Hi|[Hi|Hi]].
      + rewrite Forall_forall in HB. pose proof (HB _ Hi) as X. rewrite (lk_touch_hit _ _ Htouch') in X. discriminate.
      + exfalso. rewrite <- Hi in Htag'. rewrite Th, Tcd in Htag'. discriminate.
      + rewrite Forall_forall in HC. pose proof (HC _ Hi) as X. rewrite Htouch' in X. discriminate. }
  rewrite <- Etd. rewrite (lk_pay_of f csA cd td' Hcok Hcdin ltac:(rewrite Tcd; reflexivity) Hof). exact Pcd.
Qed.

Theorem lk_C01_byte_level_v2 : forall (summ1 : N -> list N -> wm_sentry) (summN : bool -> list wm_sentry -> wm_sentry)
    (d0 d : sigdef) (pos0 : Z) (p1 p2 : list wop) (stf : py_wr),
  (0 < pos0)%Z -> sg_id d <> 0 -> sg_type d = JLS_SIGNAL_TYPE_FSR -> sg_eps d * sg_sdf d < 4294967296 ->
  let sid := sg_id d in
  let w := dt_bits (sg_dtype d) in
  let pd := rf_pd d in
  let p := p1 ++ WSig d0 :: p2 in
  Forall (rp_ok sid) p ->
  Forall (fun o => match o with WSig d' => sg_id d' <> sid | _ => True end) p1 ->
  snd (wm_api_signal_def (fst (wm_steps summ1 summN wm_api_open p1 [])) d0) = 0 -> wm_sig_align d0 = Some d ->
  let ops := rp_proj sid p2 in
  py_srun pd (w <=? 8) (rf_t0 ops) pos0 (rf_script d rf_bs0 ops) = PyOk stf ->
  wm_fill_sample (sg_dtype d) = fill_value (sg_dtype d) ->
  8 < w -> cmp_no_omit ops ->
  let g := fold_left (fun g c => fsr_write g (fst c) (snd c)) (rf_calls ops) (new_sig d) in
  rd_length g <> 0 ->
  let stF := fst (wm_run_full summ1 summN p) in
  wmw_bounded (wm_st_log stF) ->
  let f := e2_file summ1 summN p in
  let cs := filter (rf_mine d) (rf_chunks (wm_st_log stF)) in
  e2t_adjb cs = true -> e2t_bigb cs = true ->
  rf_len f < rp_two63 -> sg_spd d < 4294967296 ->
  (- e2_tsb <= rf_t0 ops)%Z /\ (rf_t0 ops + Z.of_N (rd_length g) + Z.of_N (sg_spd d) <= e2_tsb)%Z ->
  (forall k, (1 <= k)%nat -> nth k (pw_heads stf) 0%Z <> 0%Z -> (py_step pd k < rdm_two63)%Z) ->
  let psi := rf_psi (map rc_off cs) pos0 in
  let csA := rf_chunks (wm_st_log stF) in
  e2t_bigb (filter (fun c => negb (lk_key (rc_tag c) =? 0)) csA) = true ->
  forallb (fun c => (JLS_SOURCE_COUNT <=? rc_meta c) || (rp_source_parse (rc_pay c) =? 0))
          (filter (fun c => lk_key (rc_tag c) =? 1) csA) = true ->
  sg_dtype d < 4294967296 -> sg_rate d < 4294967296 -> sg_sdf d < 4294967296 -> sg_eps d < 4294967296 ->
  sg_sumdf d < 4294967296 -> sg_adf d < 4294967296 -> sg_udf d < 4294967296 ->
  let R2 := map (lk_rl1 f) (filter (fun c => lk_key (rc_tag c) =? 2) csA) in
  (exists A tdef B thead C, R2 = A ++ tdef :: B ++ thead :: C /\
     Forall (fun t => lk_hit sid t = false) A /\ Forall (fun t => lk_hit sid t = false) B /\ Forall (fun t => lk_touch sid t = false) C /\
     fm_tag (lk_ck_hdr tdef) = JLS_TAG_SIGNAL_DEF /\ fm_chunk_meta (lk_ck_hdr tdef) = sid /\
     fm_tag (lk_ck_hdr thead) = JLS_TAG_TRACK_FSR_HEAD /\ N.land (fm_chunk_meta (lk_ck_hdr thead)) CORE_SIGNAL_MASK = sid) ->
  Forall (fun t => lk_fsrhead_other sid t = true -> fm_dec_u64 (lk_ck_pay t) = 0) R2 ->
  let P := e2_P f d (pw_disk stf) (pw_heads stf) psi (rf_t0 ops) (Z.of_N (rd_length g)) in
  wm_st_fault stF = false /\
  exists st0, rdm_open f = RdmOpened st0 /\ P st0 /\
  forall st, P st ->
    (exists st', rdm_fsr_length st sid = (st', 0, Z.of_N (rd_length g)) /\ P st' /\
                 rdm_stale st' = rdm_stale st /\ rdm_flt st' = rdm_flt st) /\
    forall recon f32_of_f64 start len dst,
      (0 <= start)%Z -> (0 < len)%Z -> (start + len <= Z.of_N (rd_length g))%Z -> Z.to_N len * w <= 8 * N.of_nat (length dst) ->
      exists st' pcs out,
        rdm_fsr recon f32_of_f64 st sid start len dst = (st', 0, out, pcs) /\ P st' /\
        rdm_stale st' = rdm_stale st /\ rdm_flt st' = rdm_flt st /\ length out = length dst /\
        firstn (N.to_nat (Z.to_N len * w)) (bc_bits out) =
          flat_map (bits_of (N.to_nat w)) (firstn (Z.to_nat len) (skipn (Z.to_nat start) (ss_samples g))) /\
        skipn (N.to_nat (Z.to_N len * w)) (bc_bits out) = skipn (N.to_nat (Z.to_N len * w)) (bc_bits dst) /\
        (dst = repeat 0 (N.to_nat ((Z.to_N len * w + 7) / 8)) -> rd_window g (Z.to_N start) (Z.to_N len) = Some out).
Proof.
  intros summ1 summN d0 d pos0 p1 p2 stf Hpos0 Hsid0 Hty Hprod sid w pd p Hok Hns Hrc Hal ops Hpy Hfillv Hw8 Hno g Hne stF Hbnd f cs
         Hadj Hbig Gflen Gspd Gts Gstep psi csA GbigD Gparse B1 B2 B4 B5 B6 B7 B8 R2 Gpat Goth P.
  destruct (lk_open_R0_v2 summ1 summN d0 d pos0 p1 p2 stf Hpos0 Hsid0 Hty Hprod Hok Hns Hrc Hal Hpy Hfillv Hne Hbnd Hadj Hbig Gflen Gspd Gts Gstep
              GbigD Gparse B1 B2 B4 B5 B6 B7 B8 Gpat Goth) as (st0 & Hopen & R0).
  destruct (e2m_fsr_read summ1 summN d0 d pos0 p1 p2 stf Hpos0 Hsid0 Hty Hprod Hok Hns Hrc Hal Hpy Hfillv Hw8 Hno Hne Hbnd Hadj Hbig Gflen Gspd Gts Gstep)
    as (Hflt & HP & Hall).
  split; [exact Hflt|]. exists st0. split; [exact Hopen|]. split; [exact (HP st0 Hopen R0)|exact Hall].
Qed.
