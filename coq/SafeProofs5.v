(* C10, part 5: the final forms used by Properties_C10.v.
     - the main theorem with its guards written on the program (no auxiliary predicate);
     - an example program satisfying the guards, and the level-16 fault outside them;
     - memory-safety corollaries of the component models: ring buffer, signal-definition normalisation, tmap,
       jls_bit_copy, definition decoders, index-pyramid seek.
   Every top-level name starts with sf_. *)
From Coq Require Import NArith ZArith QArith List Bool Lia Arith.
From Coq Require Import ZifyBool ZifyN ZifyNat.
From JLS Require Import Generated CrcDefs Spec Format WmRaw WmCore WmTs WmFsr WriterModel WmProofs
                        SafeProofs SafeProofs2 SafeProofs3 SafeProofs4.
From JLS Require MrbModel MrbProofs SigDef SigDefProofs TmapModel TmapProofs BitCopyModel BitCopyProofs DefsModel DefsProofs
                 PyramidModel PyramidProofs.
Import ListNotations.
Local Open Scope N_scope.

(* ================================================================ (a) the synchronous writer *)
Lemma sf_guard_of_In : forall (p : list wop) (lo : Z),
  (forall sig sid samples, In (WFsr sig sid samples) p ->
     (lo <= sid /\ sid + Z.of_nat (length samples) < lo + 1000000000000000)%Z) ->
  Forall (sf_op_guard lo) p.
Proof.
  intros p lo H. apply Forall_forall. intros o Ho. destruct o; cbn [sf_op_guard]; try exact I.
  apply (H sig sid samples Ho).
Qed.

Theorem sf_C10_writer : forall (summ1 : N -> list N -> wm_sentry) (summN : bool -> list wm_sentry -> wm_sentry)
                               (p : list wop) (lo : Z),
  N.of_nat (length p) < 1000000000000000 ->
  (forall sig sid samples, In (WFsr sig sid samples) p ->
     (lo <= sid /\ sid + Z.of_nat (length samples) < lo + 1000000000000000)%Z) ->
  wm_st_fault (fst (wm_run_full summ1 summN p)) = false /\
  wm_st_fault (fst (wm_steps summ1 summN wm_api_open p [])) = false.
Proof.
  intros summ1 summN p lo Hn Hg. pose proof (sf_guard_of_In p lo Hg) as HF.
  split; [apply (sf_writer_never_faults summ1 summN p lo Hn HF) | apply (sf_writer_steps_never_fault summ1 summN p lo Hn HF)].
Qed.

(* a program inside the guards that exercises the misuse classes: undefined / out-of-range / wrong-type ids,
   duplicate and invalid definitions (0, 1, 2^32-1, beyond uint32), zero-length and overlapping writes, gaps,
   negative sample ids, annotations of every storage type incl. invalid ones, user data, calls after rejections *)
Definition sf_ex_src (id : N) : wop :=
  WSrc {| so_id := id; so_name := SBytes [97]; so_vendor := SNull; so_model := SBytes []; so_version := SNull; so_serial := SNull |}.
Definition sf_ex_sig (id src ty dt rate v : N) : wop :=
  WSig {| sg_id := id; sg_src := src; sg_type := ty; sg_dtype := dt; sg_rate := rate; sg_spd := v; sg_sdf := v;
          sg_eps := v; sg_sumdf := v; sg_adf := v; sg_udf := v; sg_name := SBytes [120]; sg_units := SNull |}.
Definition sf_ex_an (ts : Z) (ty st : N) (d : list N) : anno :=
  {| an_ts := ts; an_y := 0; an_type := ty; an_group := 0; an_stype := st; an_data := d |}.
Definition sf_ex_prog : list wop :=
  [ WFsr 5 0%Z [1; 2; 3]; WFsr 65535 0%Z [1]; WFsr 100000 0%Z [1]; WFsr 0 0%Z [1; 2]; WOmit 7 1; WOmit 0 1;
    WUtc 0 0%Z 0%Z; WUtc 300 0%Z 0%Z; WAnno 9 (sf_ex_an 0%Z 0 1 [1]); WAnno 0 (sf_ex_an 0%Z 0 1 []);
    WAnno 0 (sf_ex_an 0%Z 0 2 []); WAnno 0 (sf_ex_an 0%Z 0 0 [1]); WAnno 0 (sf_ex_an 0%Z 300 1 [1]); WAnno 0 (sf_ex_an 0%Z 3 4 [1]);
    sf_ex_sig 3 1 0 JLS_DATATYPE_U8 1000 10; sf_ex_src 1; sf_ex_src 1; sf_ex_src 256; sf_ex_src 255;
    sf_ex_sig 7 255 1 JLS_DATATYPE_U8 0 10; sf_ex_sig 3 1 0 JLS_DATATYPE_U8 1000 0; sf_ex_sig 3 1 0 JLS_DATATYPE_U8 1000 4294967295;
    sf_ex_sig 4 1 0 JLS_DATATYPE_U1 1000 1; sf_ex_sig 4 1 0 JLS_DATATYPE_U1 1000 1; sf_ex_sig 5 1 0 JLS_DATATYPE_I24 1 (2 ^ 40 + 7);
    sf_ex_sig 256 1 0 JLS_DATATYPE_U8 1 0; sf_ex_sig 6 1 2 JLS_DATATYPE_U8 1 0; sf_ex_sig 6 1 0 0x0903 1 0; sf_ex_sig 6 1 0 0x12004 1 0;
    WFsr 3 (-5)%Z []; WFsr 3 (-5)%Z (repeat 7 300); WFsr 3 100%Z (repeat (2 ^ 70) 77); WFsr 3 1000%Z (repeat 3 55); WOmit 3 1;
    WFsr 3 990%Z (repeat 3 500); WFsr 4 7%Z (repeat 1 300); WFsr 4 5000%Z [1; 0; 1]; WFsr 7 0%Z [1];
    WUtc 3 0%Z 1%Z; WUtc 4 (-9)%Z 1%Z; WAnno 3 (sf_ex_an 5%Z 1 2 [104; 105; 0]); WAnno 4 (sf_ex_an 5%Z 255 3 [123; 125]);
    WUd {| ud_meta := 70000; ud_stype := 0; ud_data := [1; 2] |}; WUd {| ud_meta := 1; ud_stype := 1; ud_data := [] |};
    WUd {| ud_meta := 1; ud_stype := 3; ud_data := [0; 5] |}; WUd {| ud_meta := 1; ud_stype := 4; ud_data := [0; 5] |}; WFlush;
    WFsr 255 0%Z [1] ].

Example sf_ex_prog_in_guard :
  N.of_nat (length sf_ex_prog) < 1000000000000000 /\
  (forall sig sid samples, In (WFsr sig sid samples) sf_ex_prog ->
     ((-5) <= sid /\ sid + Z.of_nat (length samples) < (-5) + 1000000000000000)%Z) /\
  wm_st_fault (fst (wm_run_full wm_zero_summ1 wm_zero_summN sf_ex_prog)) = false /\
  snd (wm_run_full wm_zero_summ1 wm_zero_summN sf_ex_prog) =
    [16; 5; 5; 3; 16; 3; 3; 5; 16; 0; 0; 5; 5; 5; 16; 0; 17; 5; 0; 0; 0;
     17; 0; 17; 5; 5; 5; 5; 5; 0; 0; 0; 0; 0; 0; 0; 0; 3; 0; 0; 0; 0; 0;
     0; 0; 5; 0; 16].
Proof.
  split; [vm_compute; reflexivity|]. split.
  - intros sig sid samples Hin. unfold sf_ex_prog in Hin. cbn [In] in Hin.
    repeat (destruct Hin as [Hc|Hin]; [try discriminate Hc; inversion Hc; subst; cbn; lia|]). destruct Hin.
  - vm_compute. split; reflexivity.
Qed.

(* outside the guards: a summary entry at level 15 makes wr_summary(15) fault (the C evaluates self->level[16]) *)
Definition sf_ex_lv15 : wm_flevel :=
  {| wm_fl_its := 0%Z; wm_fl_nidx := 0; wm_fl_idx := []; wm_fl_sts := 0%Z; wm_fl_nsum := 1; wm_fl_sum := [(0, 0, 0, 0)] |}.
Definition sf_ex_fx15 : wm_fx :=
  {| wm_fx_base := wm_st_base wm_api_open; wm_fx_tk := wm_track0 JLS_TRACK_TYPE_FSR;
     wm_fx_fsr := wm_f_set_level wm_fsr_open 15 (Some sf_ex_lv15) |}.
Definition sf_ex_def : sigdef :=
  {| sg_id := 1; sg_src := 0; sg_type := 0; sg_dtype := JLS_DATATYPE_U8; sg_rate := 1; sg_spd := 32; sg_sdf := 32; sg_eps := 10;
     sg_sumdf := 10; sg_adf := 10; sg_udf := 10; sg_name := SNull; sg_units := SNull |}.
Example sf_level16_fault_outside_guard :
  sf_def_ok sf_ex_def /\
  wm_fault (wm_b_raw (wm_fx_base sf_ex_fx15)) = false /\
  wm_fault (wm_b_raw (wm_fx_base (wm_fsr_wr_summary wm_zero_summN wm_level_count sf_ex_def 15 sf_ex_fx15))) = true.
Proof.
  split; [unfold sf_def_ok, sf_wok; vm_compute; repeat split; try discriminate; right; reflexivity|].
  split; vm_compute; reflexivity.
Qed.

(* ================================================================ (b) component models *)
(* ---- ring buffer (msg_ring_buffer.c as it is in /repo = MrbModel.alloc_fixed) ---- *)
Theorem sf_C10_mrb_never_faults : forall (B : N) (ops : list MrbModel.op), B <= 2147483648 ->
  exists s outs, MrbModel.run MrbModel.alloc_fixed (MrbModel.init B) ops = MrbModel.Ok (s, outs).
Proof.
  intros B ops HB. destruct (MrbProofs.reachable_inv_fixed B ops HB) as (s & outs & H & _). exists s, outs. exact H.
Qed.

Theorem sf_C10_mrb_alloc_in_bounds : forall (s : MrbModel.mrb) (sz : N) (s' : MrbModel.mrb) (p : N),
  MrbModel.MInv s -> MrbModel.alloc_fixed s sz = MrbModel.Ok (s', Some p) ->
  4 <= p /\ p + sz <= MrbModel.size s /\ MrbModel.size s' = MrbModel.size s /\ MrbModel.disjoint_from_live s p sz.
Proof.
  intros s sz s' p Hi Ha.
  assert (Hl : MrbModel.len (repeat 0 (N.to_nat sz)) = sz) by (unfold MrbModel.len; rewrite repeat_length; lia).
  destruct (MrbProofs.alloc_fixed_refines s sz s' p (repeat 0 (N.to_nat sz)) Hi Ha Hl) as (_ & Hs & _ & H4 & Hp & Hd).
  repeat split; assumption.
Qed.

(* ---- signal-definition normalisation: no division by zero, no endless loop ---- *)
Theorem sf_C10_sigdef_never_faults : forall (w : N) (d : SigDef.sd_sigdef), In w [1; 4; 8; 16; 24; 32; 64] ->
  (SigDef.spd d < 2 ^ 32 /\ SigDef.sdf d < 2 ^ 32 /\ SigDef.eps d < 2 ^ 32 /\ SigDef.sumdf d < 2 ^ 32 /\
   SigDef.sd_anno d < 2 ^ 32 /\ SigDef.sd_utc d < 2 ^ 32) ->
  forall f, SigDef.sd_align w d <> SigDef.SdFault f.
Proof.
  intros w d Hw Hr f. destruct (SigDefProofs.align_total w d Hw Hr) as [(d' & H & _)|H]; rewrite H; discriminate.
Qed.

(* ---- jls_bit_copy on buffers of exactly the documented size ---- *)
Theorem sf_C10_bit_copy_in_bounds : forall (dst : list N) (dst_bit : N) (src : list N) (src_bit n : N),
  dst_bit + n <= 8 * N.of_nat (length dst) -> src_bit + n <= 8 * N.of_nat (length src) ->
  exists dst', BitCopyModel.bc_bit_copy dst dst_bit src src_bit n = BitCopyModel.BC_ok dst' /\ length dst' = length dst.
Proof.
  intros dst dst_bit src src_bit n Hd Hs.
  destruct (BitCopyProofs.bit_copy_spec dst dst_bit src src_bit n Hd Hs) as (dst' & H1 & _ & H2 & _). exists dst'. split; assumption.
Qed.

(* ---- definition decoders: the cursor only moves forward inside the payload; a decoded string fits a string block ---- *)
Lemma sf_df_skipn_suffix : forall n c r, DefsModel.df_skipn n c = Some r -> exists pre, c = pre ++ r /\ length pre = n.
Proof.
  induction n as [|n IH]; intros c r H; cbn [DefsModel.df_skipn] in H.
  - inversion H; subst. exists []. split; reflexivity.
  - destruct c as [|b c]; [discriminate|]. destruct (IH c r H) as (pre & Hp & Hl). exists (b :: pre). split; [cbn; congruence | cbn; lia].
Qed.

Lemma sf_df_after_nul_suffix : forall r, exists pre, r = pre ++ DefsModel.df_after_nul r.
Proof.
  intros [|x r]; [exists []; reflexivity|]. cbn [DefsModel.df_after_nul]. destruct (x =? 31); [exists [x] | exists []]; reflexivity.
Qed.

Lemma sf_df_rd_str_go_suffix : forall l room s r, DefsModel.df_rd_str_go room l = DefsModel.DfOk (s, r) ->
  (exists pre, l = pre ++ r /\ (length s < length pre)%nat) /\ N.of_nat (length s) < room.
Proof.
  induction l as [|b l IH]; intros room s r H; cbn [DefsModel.df_rd_str_go] in H; [discriminate|].
  destruct (room =? 0) eqn:E0; [discriminate|]. apply N.eqb_neq in E0.
  destruct (b =? 0).
  - inversion H; subst s r. destruct (sf_df_after_nul_suffix l) as (pre & Hp).
    split; [exists (b :: pre); split; [cbn; congruence | cbn; lia] | cbn; lia].
  - destruct (DefsModel.df_rd_str_go (room - 1) l) as [[s' r']|rc] eqn:E; [|discriminate]. inversion H; subst s r.
    destruct (IH _ _ _ E) as [(pre & Hp & Hl) Hr].
    split; [exists (b :: pre); split; [cbn; congruence | cbn; lia] | cbn [length]; lia].
Qed.

Theorem sf_C10_defs_decoders_in_bounds :
  (forall n c r, DefsModel.df_rd_skip n c = DefsModel.DfOk r -> exists pre, c = pre ++ r /\ length pre = n) /\
  (forall c v r, DefsModel.df_rd_u8 c = DefsModel.DfOk (v, r) -> exists pre, c = pre ++ r /\ length pre = 1%nat) /\
  (forall c v r, DefsModel.df_rd_u16 c = DefsModel.DfOk (v, r) -> exists pre, c = pre ++ r /\ length pre = 2%nat) /\
  (forall c v r, DefsModel.df_rd_u32 c = DefsModel.DfOk (v, r) -> exists pre, c = pre ++ r /\ length pre = 4%nat) /\
  (forall c s r, DefsModel.df_rd_str c = DefsModel.DfOk (s, r) ->
     (exists pre, c = pre ++ r /\ (length s < length pre)%nat) /\ N.of_nat (length s) + 1 <= JLS_BUF_STRING_SIZE - 1).
Proof.
  split; [|split; [|split; [|split]]].
  - intros n c r H. unfold DefsModel.df_rd_skip in H. destruct (DefsModel.df_skipn n c) eqn:E; [|discriminate].
    inversion H; subst. apply sf_df_skipn_suffix. exact E.
  - intros c v r H. destruct c as [|b0 c]; [discriminate|]. injection H as Hv Hr. subst r. exists [b0]. split; reflexivity.
  - intros c v r H. destruct c as [|b0 [|b1 c]]; try discriminate. injection H as Hv Hr. subst r. exists [b0; b1]. split; reflexivity.
  - intros c v r H. destruct c as [|b0 [|b1 [|b2 [|b3 c]]]]; try discriminate. injection H as Hv Hr. subst r. exists [b0; b1; b2; b3]. split; reflexivity.
  - intros c s r H. unfold DefsModel.df_rd_str in H. destruct (sf_df_rd_str_go_suffix _ _ _ _ H) as [H1 H2].
    split; [exact H1 | lia].
Qed.

(* ---- jls_core_fsr_seek on an ARBITRARY set of chunks: terminates (structural recursion on the level) and
        never divides by zero, for every consistent signal definition ---- *)
Lemma sf_py_seek_loop_no_fault : forall d disk lvl level off sid f, PyramidModel.py_consistent d ->
  PyramidModel.py_seek_loop d disk lvl level off sid <> PyramidModel.PyErr (PyramidModel.PE_Fault f).
Proof.
  intros d disk lvl. induction lvl as [|lvl IH]; intros level off sid f Hc; cbn [PyramidModel.py_seek_loop]; [discriminate|].
  destruct (S lvl <=? level)%nat; [discriminate|].
  destruct (PyramidModel.py_find disk off) as [[c o]|]; [|discriminate].
  pose proof (PyramidProofs.py_step_pos d (S lvl) Hc ltac:(lia)) as Hp.
  destruct (Z.eqb_spec (PyramidModel.py_step d (S lvl)) 0) as [E|E]; [lia|].
  match goal with |- context [if ?c then PyramidModel.PyErr PyramidModel.PE_IO else _] => destruct c end; [discriminate|].
  destruct (nth_error (PyramidModel.pc_entries c) _); [apply IH; exact Hc | discriminate].
Qed.

Theorem sf_C10_pyramid_seek_never_faults : forall d disk heads level sid f, PyramidModel.py_consistent d ->
  PyramidModel.py_fsr_seek d disk heads level sid <> PyramidModel.PyErr (PyramidModel.PE_Fault f).
Proof.
  intros d disk heads level sid f Hc. unfold PyramidModel.py_fsr_seek.
  assert (Hdiv : PyramidModel.py_div_ok d = true).
  { destruct (PyramidProofs.py_cons_facts d Hc) as (H1 & H2 & _ & _ & _ & H3 & _ & _ & _ & H4 & _). unfold PyramidModel.py_div_ok.
    repeat (apply andb_true_iff; split); apply negb_true_iff; apply Z.eqb_neq; lia. }
  rewrite Hdiv. cbn [negb]. destruct (PyramidModel.py_top heads 16) as [[l0 off]|]; [|discriminate].
  apply sf_py_seek_loop_no_fault. exact Hc.
Qed.
