(* Private extraction file of the ts slice (copy of Extract.v naming only the ts entry
   points).  At integration add to coq/Extract.v:
     TsModel.ts_kv_writes TsModel.ts_kv_close TsModel.ts_kv_annotations TsModel.ts_kv_utc
   and `TsModel` to the Require line. *)
From Coq Require Import Extraction ExtrOcamlBasic NArith ZArith List.
From JLS Require Import Generated TsModel.
Extraction Language OCaml.
Extraction "jlsmodel_ext"
  BinInt.Z.add BinInt.Z.opp BinInt.Z.of_N BinInt.Z.to_N BinNat.N.add BinNat.N.mul BinNat.N.of_nat BinNat.N.to_nat
  TsModel.ts_kv_writes TsModel.ts_kv_close TsModel.ts_kv_annotations TsModel.ts_kv_utc.
