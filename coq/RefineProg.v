(* Refinement glue, lifting to whole programs (partial): for programs of wm_run_full in which only ONE FSR signal
   receives sample data and no annotation / UTC call is made (any number of source / signal definitions, user data,
   flushes, omit calls, rejected calls), the FSR chunks of that signal in the complete backend log are PyramidModel's
   disk.  Built from the component-level simulation (RefinePyr2.v) by
     rp_FInv            the per-call invariant of the signal's FSR component (before / after the first samples)
     rp_FInv_step       one call on the signal
     rp_FInv_frame      a call that appends only chunks of other kinds
     rp_FInv_close      jls_fsr_close
   Definitions + proofs (glue file; nothing here changes a model). *)
From Coq Require Import NArith ZArith List Bool Lia Arith.
From Coq Require Import ZifyBool ZifyN ZifyNat.
From JLS Require Import Generated CrcDefs Spec Format FormatProofs WmRaw WmCore WmTs WmFsr WriterModel WmProofs
  PyramidModel PyramidProofs DefsModel RefineLog RefineFsr RefinePyr RefinePyr2 RefineDefs.
Import ListNotations.
Local Open Scope N_scope.

Lemma rp_meta_sid : forall s l, s < 4096 -> N.land (wm_meta s l) 4095 = s.
Proof.
  intros s l Hs. unfold wm_meta. apply N.bits_inj. intro k.
  change 4095 with (N.ones 12). change 65536 with (2 ^ 16).
  rewrite N.land_spec.
  destruct (N.ltb_spec k 12) as [Hk|Hk].
  - rewrite N.ones_spec_low by exact Hk. rewrite andb_true_r.
    rewrite N.mod_pow2_bits_low by lia. rewrite N.lor_spec, N.shiftl_spec_low by exact Hk. apply orb_false_r.
  - rewrite N.ones_spec_high by exact Hk. rewrite andb_false_r. symmetry.
    destruct (N.eq_dec s 0) as [->|Hne]; [apply N.bits_0|].
    apply N.bits_above_log2. apply N.lt_le_trans with 12; [|exact Hk]. apply N.log2_lt_pow2; [lia|exact Hs].
Qed.

Lemma rp_chunk_rel_mine : forall d pos0 t0 offs blks c pc, sg_id d < 4096 ->
  rf_chunk_rel d pos0 t0 offs blks c pc -> rf_mine d c = true.
Proof.
  intros d pos0 t0 offs blks c pc Hs (_ & _ & H). unfold rf_mine.
  destruct (pc_kind pc) as [|L|L].
  - destruct H as (Ht & Hm & _). rewrite Ht, Hm, rp_meta_sid by exact Hs. rewrite (N.eqb_refl (sg_id d)). reflexivity.
  - destruct H as (Ht & Hm & _). rewrite Ht, Hm, rp_meta_sid by exact Hs. rewrite (N.eqb_refl (sg_id d)). reflexivity.
  - destruct H as (Ht & Hm & _). rewrite Ht, Hm, rp_meta_sid by exact Hs. rewrite (N.eqb_refl (sg_id d)). reflexivity.
Qed.

Lemma rp_Forall2_mine : forall d pos0 t0 offs blks cs disk, sg_id d < 4096 ->
  Forall2 (rf_chunk_rel d pos0 t0 offs blks) cs disk -> Forall (fun c => rf_mine d c = true) cs.
Proof.
  intros d pos0 t0 offs blks cs disk Hs H. induction H as [|c pc cs disk Hc Hr IH]; constructor; [|exact IH].
  eapply rp_chunk_rel_mine; eauto.
Qed.

Lemma rp_filter_all : forall (P : rf_chunk -> bool) l, Forall (fun c => P c = true) l -> filter P l = l.
Proof. intros P l H. induction H as [|c l Hc Hl IH]; [reflexivity|]. cbn [filter]. rewrite Hc, IH. reflexivity. Qed.
Lemma rp_filter_none : forall (P : rf_chunk -> bool) l, Forall (fun c => P c = false) l -> filter P l = [].
Proof. intros P l H. induction H as [|c l Hc Hl IH]; [reflexivity|]. cbn [filter]. rewrite Hc, IH. reflexivity. Qed.

Section RP.
Variable summ1 : N -> list N -> wm_sentry.
Variable summN : bool -> list wm_sentry -> wm_sentry.
Variable d : sigdef.
Variable pos0 : Z.
Hypothesis Hpos0 : (0 < pos0)%Z.
Let pd := rf_pd d.
Let w := dt_bits (sg_dtype d).
Let small := w <=? 8.
Hypothesis Hsid : sg_id d < 256.
Hypothesis Hg_idx : forall L, (8 * py_cap pd L + 16 < 4294967296)%Z.
Hypothesis Hg_sum : (32 * py_eps pd + 16 < 4294967296)%Z.
Hypothesis Hspd : 0 < sg_spd d.
Hypothesis Hw : w < 8 \/ w mod 8 = 0.
Hypothesis Hg_data : 16 + (sg_spd d * w + 7) / 8 < 4294967296.
Hypothesis Hfill : 0 < wm_fill_buf_samples (sg_dtype d).

Lemma rp_I_rebase : forall xs n0 t0 pre cs blks x st s,
  rf_I d pos0 xs n0 t0 pre cs blks x st s -> rf_I d pos0 x (length cs) t0 pre cs blks x st s.
Proof.
  intros xs n0 t0 pre cs blks x st s ((HR & HF & Ho & _) & Rest).
  split; [|exact Rest]. split; [exact HR|]. split; [exact HF|]. split; [exact Ho|].
  split; [apply rf_ext_refl|]. split; [apply Nat.le_refl|]. rewrite skipn_all. reflexivity.
Qed.

(* the invariant of the signal's FSR component between calls; T0 = first sample id, BLKS = all blocks, stf =
   PyramidModel's final state for the whole call sequence; rem = the calls still to come *)
Definition rp_FInv (T0 : Z) (BLKS : list (list N)) (stf : py_wr) (x : wm_fx) (rem : list rf_op) : Prop :=
  (wm_f_alloc (wm_fx_fsr x) = false /\ rf_fresh x /\ wm_f_ts (wm_fx_fsr x) = 0%Z /\ wm_f_omit (wm_fx_fsr x) < 256 /\
   filter (rf_mine d) (rf_out x) = [] /\ rf_t0 rem = T0 /\ rf_blocks d rf_bs0 rem = BLKS /\
   exists stm, py_do_all pd (py_plan small (py_sdf pd) (Z.of_N (wm_f_omit (wm_fx_fsr x))) (rf_script d rf_bs0 rem)) (py_init T0 pos0) = PyOk stm /\
               py_close pd stm = PyOk stf)
  \/
  (exists cs blks st s stm,
     rf_I d pos0 x (length cs) T0 [] cs blks x st s /\ blks ++ rf_blocks d s rem = BLKS /\
     py_do_all pd (py_plan small (py_sdf pd) (Z.of_N (wm_f_omit (wm_fx_fsr x))) (rf_script d s rem)) st = PyOk stm /\
     py_close pd stm = PyOk stf).

Lemma rp_FInv_bok : forall T0 BLKS stf x rem, rp_FInv T0 BLKS stf x rem ->
  rf_bok (wm_fx_base x) /\ rf_tok (wm_b_raw (wm_fx_base x)) (wm_fx_tk x).
Proof.
  intros T0 BLKS stf x rem [(_ & (A & B & _) & _)|(cs & blks & st & s & stm & ((HR & _) & _) & _)].
  - split; assumption.
  - split; [exact (R_bok _ _ _ _ _ _ HR)|exact (R_tok _ _ _ _ _ _ HR)].
Qed.

Definition rp_delta (x x' : wm_fx) (new : list rf_chunk) : Prop :=
  rf_ext (wm_b_raw (wm_fx_base x)) (wm_b_raw (wm_fx_base x')) /\ rf_out x' = new ++ rf_out x /\
  Forall (fun c => rf_mine d c = true) new.

Lemma rp_app_inv_mine : forall (cs cs' : list rf_chunk), Forall (fun c => rf_mine d c = true) (cs ++ cs') -> Forall (fun c => rf_mine d c = true) (rev cs').
Proof. intros cs cs' H. apply Forall_app in H. destruct H as (_ & H). apply Forall_rev. exact H. Qed.

(* one call on the signal *)
Lemma rp_FInv_step : forall T0 BLKS stf x o rem,
  rp_FInv T0 BLKS stf x (o :: rem) ->
  exists new, rp_FInv T0 BLKS stf (rf_do summ1 summN d x o) rem /\ rp_delta x (rf_do summ1 summN d x o) new.
Proof.
  intros T0 BLKS stf x o rem [Hpre|Hpost].
  - (* before the first samples *)
    destruct Hpre as (Hal & Hfr & Hts & Hom & Hfil & Ht0 & Hbl & stm & Hpy & Hcl).
    destruct o as [sid samples|en].
    + destruct samples as [|s0 sm] eqn:Esm.
      * (* empty call *)
        exists []. split; [|split; [apply rf_ext_refl|split; [reflexivity|constructor]]].
        left. cbn [rf_do]. assert (Ex : wm_fsr_data summ1 summN d x sid [] = x) by reflexivity. rewrite Ex.
        cbn [rf_script rf_bs_data map app rf_t0 rf_blocks] in *.
        split; [exact Hal|]. split; [exact Hfr|]. split; [exact Hts|]. split; [exact Hom|]. split; [exact Hfil|].
        split; [exact Ht0|]. split; [exact Hbl|]. exists stm. split; assumption.
      * (* the first samples: the block buffer is allocated *)
        rewrite <- Esm in *. assert (Hsne : samples <> []) by (rewrite Esm; discriminate).
        assert (Et0 : T0 = sid) by (rewrite <- Ht0, Esm; reflexivity). clear Ht0. subst T0. clear Esm.
        set (x1 := rf_alloc x sid).
        set (s1 := {| bs_alloc := true; bs_ts := sid; bs_pend := [] |}).
        assert (Hx1f : wm_fx_fsr x1 = wm_f_set_sid0 (wm_f_set_block (wm_fx_fsr x) true sid 0 []) sid).
        { subst x1. unfold rf_alloc. rewrite Hal. reflexivity. }
        assert (Hx1b : wm_fx_base x1 = wm_fx_base x) by (subst x1; unfold rf_alloc; rewrite Hal; reflexivity).
        assert (Escr : rf_script d rf_bs0 (RfData sid samples :: rem) = rf_script d s1 (RfData sid samples :: rem)).
        { cbn [rf_script]. rewrite !(rf_bs_data_ne d _ sid samples Hsne). reflexivity. }
        assert (Eblk : rf_blocks d rf_bs0 (RfData sid samples :: rem) = rf_blocks d s1 (RfData sid samples :: rem)).
        { cbn [rf_blocks]. rewrite !(rf_bs_data_ne d _ sid samples Hsne). reflexivity. }
        assert (Edo : rf_do summ1 summN d x (RfData sid samples) = rf_do summ1 summN d x1 (RfData sid samples)).
        { cbn [rf_do].
          rewrite (rf_fsr_data_feed summ1 summN d x sid samples Hspd Hfill) by (try exact Hsne; intro X; congruence).
          rewrite (rf_fsr_data_feed summ1 summN d x1 sid samples Hspd Hfill); [| |exact Hsne].
          - assert (E2 : rf_alloc x1 sid = x1) by (unfold rf_alloc; rewrite Hx1f; reflexivity). rewrite E2. reflexivity.
          - intros _. rewrite Hx1f. unfold rf_binv. cbn. split; [reflexivity|exact Hspd]. }
        rewrite Escr in Hpy. rewrite Eblk in Hbl. rewrite Edo.
        assert (HI : rf_I d pos0 x1 0 sid [] [] [] x1 (py_init sid pos0) s1).
        { split; [|split; [|split]].
          - split; [|split; [cbn [py_init pw_disk]; constructor|split]].
            + pose proof (rf_R_init summ1 summN d pos0 0%nat Hsid Hg_idx Hspd Hw Hg_data Hfill x1 (rf_fresh_alloc x sid Hfr)) as HR.
              rewrite Hx1f in HR. exact HR.
            + unfold rf_out. rewrite Hx1b. exact Hfil.
            + split; [apply rf_ext_refl|split; [apply Nat.le_refl|reflexivity]].
          - unfold rf_bs_rel. rewrite Hx1f. cbn. split; [reflexivity|]. split; [exact Hom|]. split; [|intro X; discriminate X].
            intros _. split; [reflexivity|]. split; [reflexivity|]. split; [reflexivity|exact Hspd].
          - reflexivity.
          - cbn. lia. }
        assert (Hom1 : wm_f_omit (wm_fx_fsr x1) = wm_f_omit (wm_fx_fsr x)) by (rewrite Hx1f; reflexivity).
        rewrite <- Hom1 in Hpy.
        destruct (rf_sim_op summ1 summN d pos0 x1 0 Hpos0 Hsid Hg_idx Hg_sum Hspd Hw Hg_data Hfill sid (RfData sid samples) rem [] [] [] x1 _ s1 stm HI Hpy)
          as (cs' & blks' & st1 & s1' & HI1 & Hpy1 & Eb).
        cbn [app] in HI1.
        pose proof HI1 as ((HR1 & HF1 & Ho1 & (He1 & _ & Hd1)) & _). cbn [skipn] in Hd1.
        exists (rev cs'). split.
        -- right. exists cs', blks', st1, s1', stm. split; [eapply rp_I_rebase; exact HI1|]. split; [rewrite <- Hbl, Eb; reflexivity|]. split; assumption.
        -- split; [rewrite <- Hx1b; exact He1|]. split; [unfold rf_out in *; rewrite <- Hx1b; exact Hd1|].
           apply Forall_rev. eapply rp_Forall2_mine; [lia|exact HF1].
    + (* omit *)
      exists []. split; [|split; [apply rf_ext_refl|split; [reflexivity|constructor]]].
      left. cbn [rf_do rf_script py_plan rf_t0 rf_blocks] in *.
      assert (Hreg : Z.of_N (if en =? 0 then 0 else N.lor (wm_f_omit (wm_fx_fsr x)) 1) = py_reg_enable (Z.of_N (wm_f_omit (wm_fx_fsr x))) (negb (en =? 0))
                     /\ (if en =? 0 then 0 else N.lor (wm_f_omit (wm_fx_fsr x)) 1) < 256).
      { destruct (en =? 0); cbn [negb py_reg_enable]; [split; [reflexivity|lia]|]. apply rf_reg_enable. exact Hom. }
      destruct Hreg as (Hreg & Hlt).
      cbn [wm_fx_fsr wm_fx_set_fsr wm_f_set_omit wm_f_alloc wm_f_ts wm_f_omit].
      split; [exact Hal|]. split; [exact Hfr|]. split; [exact Hts|]. split; [exact Hlt|]. split; [exact Hfil|].
      split; [exact Ht0|]. split; [exact Hbl|]. exists stm. split; [rewrite Hreg; exact Hpy|exact Hcl].
  - (* after *)
    destruct Hpost as (cs & blks & st & s & stm & HI & Hbl & Hpy & Hcl).
    destruct (rf_sim_op summ1 summN d pos0 x (length cs) Hpos0 Hsid Hg_idx Hg_sum Hspd Hw Hg_data Hfill T0 o rem [] cs blks x st s stm HI Hpy)
      as (cs' & blks' & st1 & s1' & HI1 & Hpy1 & Eb).
    pose proof HI1 as ((HR1 & HF1 & Ho1 & (He1 & _ & Hd1)) & _).
    rewrite skipn_app, skipn_all, Nat.sub_diag in Hd1. cbn [skipn app] in Hd1.
    exists (rev cs'). split.
    + right. exists (cs ++ cs'), (blks ++ blks'), st1, s1', stm. split; [eapply rp_I_rebase; exact HI1|].
      split; [rewrite <- Hbl, Eb, app_assoc; reflexivity|]. split; assumption.
    + split; [exact He1|]. split; [exact Hd1|]. eapply rp_app_inv_mine. eapply rp_Forall2_mine; [lia|exact HF1].
Qed.


(* a call elsewhere: the base changes (more file, more headers, new chunks of other kinds), the signal's track and
   FSR state do not *)
Lemma rp_FInv_frame : forall T0 BLKS stf x rem b' new,
  rp_FInv T0 BLKS stf x rem -> rf_bok b' -> rf_ext (wm_b_raw (wm_fx_base x)) (wm_b_raw b') ->
  rp_out (rf_scan (wm_rlog (wm_b_raw b'))) = new ++ rf_out x -> Forall (fun c => rf_mine d c = false) new ->
  rp_FInv T0 BLKS stf {| wm_fx_base := b'; wm_fx_tk := wm_fx_tk x; wm_fx_fsr := wm_fx_fsr x |} rem.
Proof.
  intros T0 BLKS stf x rem b' new HF Hb' Hext Hout Hnew.
  assert (Hfilt : filter (rf_mine d) (rp_out (rf_scan (wm_rlog (wm_b_raw b')))) = filter (rf_mine d) (rf_out x)).
  { rewrite Hout, filter_app, (rp_filter_none _ _ Hnew). reflexivity. }
  destruct HF as [Hpre|Hpost].
  - left. destruct Hpre as (Hal & (Fb & Ft & Fty & Foffs & Fdh & Flv) & Hts & Hom & Hfil & Rest).
    cbn [wm_fx_fsr wm_fx_base wm_fx_tk].
    split; [exact Hal|]. split. { split; [exact Hb'|]. split; [eapply rf_tok_ext; eauto|]. repeat (split; [assumption|]). assumption. }
    split; [exact Hts|]. split; [exact Hom|]. split; [unfold rf_out; cbn [wm_fx_base]; rewrite Hfilt; exact Hfil|exact Rest].
  - right. destruct Hpost as (cs & blks & st & s & stm & ((HR & HF2 & Ho & _) & Hbs & Ha & Hdts) & Rest).
    exists cs, blks, st, s, stm. split; [|exact Rest].
    split; [|split; [exact Hbs|split; [exact Ha|exact Hdts]]].
    split. { destruct HR as [Rbok Rtok Rty Rlvlen Rpos Rnz Rheads Rdhead Rlvls Rdts].
             constructor; cbn [wm_fx_base wm_fx_tk wm_fx_fsr]; try assumption. eapply rf_tok_ext; eauto. }
    split; [exact HF2|]. split; [unfold rf_out; cbn [wm_fx_base]; rewrite Hfilt; exact Ho|].
    split; [apply rf_ext_refl|]. split; [apply Nat.le_refl|]. rewrite skipn_all. reflexivity.
Qed.

(* jls_fsr_close *)
Lemma rp_FInv_close : forall T0 BLKS stf x,
  rp_FInv T0 BLKS stf x [] ->
  let x' := wm_fsr_close summ1 summN d x in
  exists cs new,
    Forall2 (rf_chunk_rel d pos0 T0 (map rc_off cs) BLKS) cs (pw_disk stf) /\
    filter (rf_mine d) (rf_out x') = rev cs /\ rp_delta x x' new /\ rf_bok (wm_fx_base x') /\
    (forall L, (L < 16)%nat ->
       wm_get_off (wm_tk_offsets (wm_fx_tk x')) (N.of_nat L) = rf_psi (map rc_off cs) pos0 (py_head_get stf L)).
Proof.
  intros T0 BLKS stf x [Hpre|Hpost] x'.
  - destruct Hpre as (Hal & Hfr & Hts & Hom & Hfil & Ht0 & Hbl & stm & Hpy & Hcl).
    assert (Hdl0 : rf_dl x 0 [] x) by (split; [apply rf_ext_refl|split; [apply Nat.le_refl|reflexivity]]).
    cbn [rf_t0] in Ht0. subst T0.
    destruct (rf_sim_run summ1 summN d pos0 x 0 Hpos0 Hsid Hg_idx Hg_sum Hspd Hw Hg_data Hfill [] x stm stf Hfr Hal Hts Hom Hdl0 Hpy Hcl)
      as (cs & HR & HF & Ho & (He & _ & Hd)).
    cbn [fold_left] in HR, HF, Ho, He, Hd. cbn [skipn] in Hd. fold x' in HR, HF, Ho, He, Hd.
    exists cs, (rev cs). rewrite Hbl in HF. rewrite Hfil, app_nil_r in Ho.
    split; [exact HF|]. split; [exact Ho|].
    split; [split; [exact He|split; [exact Hd|apply Forall_rev; eapply rp_Forall2_mine; [lia|exact HF]]]|].
    split; [exact (R_bok _ _ _ _ _ _ HR)|]. intros L HL. apply (R_heads _ _ _ _ _ _ HR). exact HL.
  - destruct Hpost as (cs & blks & st & s & stm & HI & Hbl & Hpy & Hcl).
    destruct (rf_sim_fsr_close summ1 summN d pos0 x (length cs) Hpos0 Hsid Hg_idx Hg_sum Hspd Hw Hg_data Hfill T0 [] cs blks x st s stm stf HI Hpy Hcl)
      as (cs' & HR & HF & Ho & (He & _ & Hd)).
    fold x' in HR, HF, Ho, He, Hd. rewrite Hbl in HF.
    rewrite skipn_app, skipn_all, Nat.sub_diag in Hd. cbn [skipn app] in Hd. rewrite app_nil_r in Ho.
    exists (cs ++ cs'), (rev cs').
    split; [exact HF|]. split; [exact Ho|].
    split; [split; [exact He|split; [exact Hd|eapply rp_app_inv_mine; eapply rp_Forall2_mine; [lia|exact HF]]]|].
    split; [exact (R_bok _ _ _ _ _ _ HR)|]. intros L HL. apply (R_heads _ _ _ _ _ _ HR). exact HL.
Qed.

End RP.

(* ------------------------------------------------------------------ calls that do not touch any FSR data *)
(* a chunk that is not DATA / INDEX / SUMMARY of an FSR track *)
Definition rp_plain (c : rf_chunk) : bool :=
  negb ((rc_tag c =? JLS_TAG_TRACK_FSR_DATA) || (rc_tag c =? JLS_TAG_TRACK_FSR_INDEX) || (rc_tag c =? JLS_TAG_TRACK_FSR_SUMMARY)).
Lemma rp_plain_not_mine : forall d c, rp_plain c = true -> rf_mine d c = false.
Proof. intros d c H. unfold rf_mine, rp_plain in *. destruct (_ || _); [discriminate H|reflexivity]. Qed.
Lemma rp_plain_Forall : forall d l, Forall (fun c => rp_plain c = true) l -> Forall (fun c => rf_mine d c = false) l.
Proof. intros d l H. eapply Forall_impl; [|exact H]. intros c Hc. apply rp_plain_not_mine. exact Hc. Qed.

Definition rp_bout (b : wm_base) : list rf_chunk := rp_out (rf_scan (wm_rlog (wm_b_raw b))).

(* base b' extends base b by the chunks [new] (newest first), all plain *)
Definition rp_bstep (b b' : wm_base) : Prop :=
  rf_bok b' /\ rf_ext (wm_b_raw b) (wm_b_raw b') /\
  exists new, rp_bout b' = new ++ rp_bout b /\ Forall (fun c => rp_plain c = true) new.

Lemma rp_bstep_refl : forall b, rf_bok b -> rp_bstep b b.
Proof. intros b H. split; [exact H|]. split; [apply rf_ext_refl|]. exists []. split; [reflexivity|constructor]. Qed.
Lemma rp_bstep_trans : forall a b c, rp_bstep a b -> rp_bstep b c -> rp_bstep a c.
Proof.
  intros a b c (A1 & A2 & n1 & A3 & A4) (B1 & B2 & n2 & B3 & B4). split; [exact B1|]. split; [eapply rf_ext_trans; eauto|].
  exists (n2 ++ n1). split; [rewrite B3, A3, app_assoc; reflexivity|apply Forall_app; split; assumption].
Qed.

Lemma rp_str_len : forall s, wm_str_fits s = true -> N.of_nat (length (fm_encode_str (wm_strv s))) <= JLS_BUF_STRING_SIZE.
Proof.
  intros s H. unfold fm_encode_str, fm_str_term, wm_strv. rewrite app_length. cbn [length].
  destruct s as [|l]; cbn [str_read wm_str_fits] in *; [cbn; unfold JLS_BUF_STRING_SIZE; lia|].
  apply N.leb_le in H. unfold JLS_BUF_STRING_SIZE in *. lia.
Qed.

(* jls_wr_source_def *)
Lemma rp_source_def : forall st ds, rf_bok (wm_st_base st) ->
  let st' := fst (wm_api_source_def st ds) in
  rp_bstep (wm_st_base st) (wm_st_base st') /\ wm_st_sigs st' = wm_st_sigs st.
Proof.
  intros st ds Hb st'. subst st'. unfold wm_api_source_def.
  destruct (JLS_SOURCE_COUNT <=? so_id ds) eqn:E1; [split; [apply rp_bstep_refl; exact Hb|reflexivity]|].
  destruct (existsb (N.eqb (so_id ds)) (wm_st_srcs st)); [split; [apply rp_bstep_refl; exact Hb|reflexivity]|].
  destruct (wm_str_fits (so_name ds) && wm_str_fits (so_vendor ds) && wm_str_fits (so_model ds) && wm_str_fits (so_version ds) && wm_str_fits (so_serial ds)) eqn:Ef;
    cbn [negb]; [|split; [apply rp_bstep_refl; exact Hb|reflexivity]].
  apply andb_true_iff in Ef as [Ef F5]. apply andb_true_iff in Ef as [Ef F4]. apply andb_true_iff in Ef as [Ef F3]. apply andb_true_iff in Ef as [F1 F2].
  assert (Hlen : rf_len (wm_source_payload ds) < 4294967296).
  { unfold rf_len, wm_source_payload, fm_encode_source_payload. rewrite !app_length, repeat_length.
    pose proof (rp_str_len _ F1). pose proof (rp_str_len _ F2). pose proof (rp_str_len _ F3). pose proof (rp_str_len _ F4). pose proof (rp_str_len _ F5).
    unfold JLS_BUF_STRING_SIZE, fm_source_reserved in *. lia. }
  pose proof Hb as (Hr & H1 & H2 & H3).
  apply N.leb_gt in E1. unfold JLS_SOURCE_COUNT in E1.
  pose proof (rf_base_append (wm_st_base st) (wm_b_source_head (wm_st_base st)) (wm_ck_offset (wm_b_source_head (wm_st_base st)))
                JLS_TAG_SOURCE_DEF (so_id ds) (wm_source_payload ds) Hb H1 ltac:(discriminate) ltac:(reflexivity) ltac:(lia) Hlen) as X.
  cbv zeta in X. change (wm_len (wm_source_payload ds)) with (rf_len (wm_source_payload ds)).
  destruct (wm_raw_wr _ _ (wm_source_payload ds)) as [r1 h1]. cbn [fst snd] in X.
  destruct (wm_update_item_head r1 _ _) as [r2 sh]. cbn [fst snd] in X |- *.
  destruct X as (Hr2 & Hext & Hoff & Hout & Hrefc & _ & _ & _ & R1 & R2 & R3 & _).
  split; [|reflexivity]. cbn [wm_st_base].
  split. { unfold rf_bok. cbn [wm_b_raw wm_b_set_raw wm_b_set_source_head wm_b_source_head wm_b_signal_head wm_b_ud_head].
           split; [exact Hr2|]. split; [exact Hrefc|]. split; assumption. }
  cbn [wm_b_raw wm_b_set_raw wm_b_set_source_head]. split; [exact Hext|].
  eexists [_]. unfold rp_bout. cbn [wm_b_raw wm_b_set_raw wm_b_set_source_head]. split; [exact Hout|]. constructor; [reflexivity|constructor].
Qed.

(* jls_wr_user_data *)
Lemma rp_user_data : forall st u, rf_bok (wm_st_base st) -> N.of_nat (length (ud_data u)) + 1 < 4294967296 ->
  let st' := fst (wm_api_user_data st u) in
  rp_bstep (wm_st_base st) (wm_st_base st') /\ wm_st_sigs st' = wm_st_sigs st.
Proof.
  intros st u Hb Hu st'. subst st'. unfold wm_api_user_data.
  destruct (N.ltb_spec 3 (ud_stype u)) as [|Hs]; [split; [apply rp_bstep_refl; exact Hb|reflexivity]|].
  set (data := if ud_stype u =? JLS_STORAGE_TYPE_INVALID then [] else if ud_stype u =? JLS_STORAGE_TYPE_BINARY then ud_data u else wm_cstr (ud_data u) ++ [0]).
  assert (Hcl : forall l, (length (wm_cstr l) <= length l)%nat).
  { induction l as [|b r IH]; [cbn; lia|]. cbn [wm_cstr]. destruct (b =? 0); cbn [length]; lia. }
  assert (Hlen : rf_len data < 4294967296).
  { subst data. unfold rf_len. destruct (ud_stype u =? JLS_STORAGE_TYPE_INVALID); [cbn; lia|].
    destruct (ud_stype u =? JLS_STORAGE_TYPE_BINARY); [lia|]. rewrite app_length. cbn [length]. pose proof (Hcl (ud_data u)). lia. }
  pose proof Hb as (Hr & H1 & H2 & H3).
  set (meta := N.lor (N.land (ud_meta u) 4095) (N.shiftl (ud_stype u) 12)).
  assert (Hm : meta < 65536).
  { subst meta. rewrite rd_ud_meta. assert (N.land (ud_meta u) 4095 < 4096) by (change 4095 with (N.ones 12); rewrite N.land_ones; apply N.mod_lt; discriminate). lia. }
  pose proof (rf_base_append (wm_st_base st) (wm_b_ud_head (wm_st_base st)) (wm_ck_offset (wm_b_ud_head (wm_st_base st)))
                JLS_TAG_USER_DATA meta data Hb H3 ltac:(discriminate) ltac:(reflexivity) Hm Hlen) as X.
  cbv zeta in X. change (wm_len data) with (rf_len data).
  destruct (wm_raw_wr _ _ data) as [r1 h1]. cbn [fst snd] in X.
  destruct (wm_update_item_head r1 _ _) as [r2 uh]. cbn [fst snd] in X |- *.
  destruct X as (Hr2 & Hext & Hoff & Hout & Hrefc & _ & _ & _ & R1 & R2 & R3 & _).
  split; [|reflexivity]. cbn [wm_st_set_base wm_st_base].
  split. { unfold rf_bok. cbn [wm_b_raw wm_b_set_raw wm_b_set_ud_head wm_b_source_head wm_b_signal_head wm_b_ud_head].
           split; [exact Hr2|]. split; [exact R1|]. split; assumption. }
  cbn [wm_b_raw wm_b_set_raw wm_b_set_ud_head]. split; [exact Hext|].
  eexists [_]. unfold rp_bout. cbn [wm_b_raw wm_b_set_raw wm_b_set_ud_head]. split; [exact Hout|]. constructor; [reflexivity|constructor].
Qed.

(* jls_wr_flush *)
Lemma rp_flush : forall st, rf_bok (wm_st_base st) ->
  let st' := fst (wm_api_flush st) in
  rp_bstep (wm_st_base st) (wm_st_base st') /\ wm_st_sigs st' = wm_st_sigs st.
Proof.
  intros st (Hr & H1 & H2 & H3) st'. subst st'. unfold wm_api_flush. cbn [fst wm_st_set_base wm_st_base wm_st_sigs].
  split; [|reflexivity].
  destruct Hr as (Ha & H32 & Hend & Hpend & Hdisk).
  assert (Hrok : rf_rok (wm_raw_flush (wm_b_raw (wm_st_base st)))).
  { unfold wm_raw_flush, wm_bk_fflush, wm_log_add, rf_rok, wm_appending.
    cbn [wm_fpos wm_fend wm_offset wm_fault wm_rlog wm_disk rf_scan rf_step]. destruct Ha as (A1 & A2 & A3).
    split; [split; [exact A1|split; [exact A2|exact A3]]|]. split; [exact H32|]. split; [exact Hend|]. split; [exact Hpend|exact Hdisk]. }
  split. { unfold rf_bok. cbn [wm_b_raw wm_b_set_raw wm_b_source_head wm_b_signal_head wm_b_ud_head]. split; [exact Hrok|]. split; [exact H1|]. split; assumption. }
  cbn [wm_b_raw wm_b_set_raw]. split.
  - split; [cbn; lia|]. split; [apply incl_refl|]. exists []. reflexivity.
  - exists []. split; [reflexivity|constructor].
Qed.

(* a new track: jls_track_wr_def + jls_track_wr_head *)
Lemma rp_track_tags_plain : forall ty k, ty < 4 -> k <= 1 -> negb ((fm_track_tag ty k =? JLS_TAG_TRACK_FSR_DATA) || (fm_track_tag ty k =? JLS_TAG_TRACK_FSR_INDEX) || (fm_track_tag ty k =? JLS_TAG_TRACK_FSR_SUMMARY)) = true.
Proof.
  intros ty k Hty Hk. assert (Ety : ty = 0 \/ ty = 1 \/ ty = 2 \/ ty = 3) by lia. assert (Ek : k = 0 \/ k = 1) by lia.
  destruct Ety as [-> | [-> | [-> | ->]]]; destruct Ek as [-> | ->]; reflexivity.
Qed.

Lemma rp_def_track : forall b sid ty, rf_bok b -> sid < 65536 -> ty < 4 ->
  let b' := fst (wm_def_track b sid ty) in
  let t' := snd (wm_def_track b sid ty) in
  rp_bstep b b' /\ rf_tok (wm_b_raw b') t' /\ wm_tk_type t' = ty /\ wm_tk_offsets t' = repeat 0 16 /\ wm_tk_data_head t' = wm_chunk0.
Proof.
  intros b sid ty Hb Hsid Hty b' t'. subst b' t'. unfold wm_def_track.
  destruct (rf_track_wr_def b sid ty Hb Hsid Hty) as (Hb1 & He1 & Ho1 & _).
  set (b1 := wm_track_wr_def b sid ty) in *.
  destruct (rf_track_wr_head_first b1 sid ty Hb1 Hsid Hty) as (Hb2 & Ht2 & He2 & Ho2 & Hty2 & Hoffs2 & Hdh2 & _).
  split; [|split; [exact Ht2|split; [exact Hty2|split; [exact Hoffs2|exact Hdh2]]]].
  split; [exact Hb2|]. split; [eapply rf_ext_trans; eauto|].
  eexists [_; _]. unfold rp_bout. split; [rewrite Ho2, Ho1; reflexivity|].
  constructor; [unfold rp_plain; cbn [rc_tag]; apply rp_track_tags_plain; [exact Hty|unfold JLS_TRACK_CHUNK_HEAD; lia]|].
  constructor; [unfold rp_plain; cbn [rc_tag]; apply rp_track_tags_plain; [exact Hty|unfold JLS_TRACK_CHUNK_DEF; lia]|constructor].
Qed.

(* jls_wr_signal_def *)
Lemma rp_signal_def : forall st d0, rf_bok (wm_st_base st) ->
  let st' := fst (wm_api_signal_def st d0) in
  rp_bstep (wm_st_base st) (wm_st_base st') /\
  ((wm_st_sigs st' = wm_st_sigs st /\ snd (wm_api_signal_def st d0) <> 0) \/
   exists s, wm_st_sigs st' = wm_st_sigs st ++ [s] /\ wm_find_sig st (sg_id d0) = None /\
     wm_sig_align d0 = Some (wm_sg_def s) /\ sg_id d0 < 256 /\
     wm_sg_anno s = Some (wm_ts_open (sg_adf (wm_sg_def s))) /\
     (wm_sg_utc s = None \/ wm_sg_utc s = Some (wm_ts_open (sg_udf (wm_sg_def s)))) /\
     ((wm_sg_fsr s = None /\ sg_type (wm_sg_def s) <> JLS_SIGNAL_TYPE_FSR) \/
      (wm_sg_fsr s = Some wm_fsr_open /\ rf_tok (wm_b_raw (wm_st_base st')) (wm_sg_tk_fsr s) /\
       wm_tk_type (wm_sg_tk_fsr s) = JLS_TRACK_TYPE_FSR /\ wm_tk_offsets (wm_sg_tk_fsr s) = repeat 0 16 /\
       wm_tk_data_head (wm_sg_tk_fsr s) = wm_chunk0))).
Proof.
  intros st d0 Hb st'. subst st'. unfold wm_api_signal_def.
  assert (Hrefl : rp_bstep (wm_st_base st) (wm_st_base st)) by (apply rp_bstep_refl; exact Hb).
  destruct (N.leb_spec JLS_SIGNAL_COUNT (sg_id d0)) as [|Hid]; [split; [exact Hrefl|left; split; [reflexivity|discriminate]]|].
  destruct (JLS_SOURCE_COUNT <=? sg_src d0); [split; [exact Hrefl|left; split; [reflexivity|discriminate]]|].
  destruct (negb (existsb (N.eqb (sg_src d0)) (wm_st_srcs st))); [split; [exact Hrefl|left; split; [reflexivity|discriminate]]|].
  destruct (wm_find_sig st (sg_id d0)) as [sx|] eqn:Efind; [split; [exact Hrefl|left; split; [reflexivity|discriminate]]|].
  destruct (negb ((sg_type d0 =? JLS_SIGNAL_TYPE_FSR) || (sg_type d0 =? JLS_SIGNAL_TYPE_VSR))); [split; [exact Hrefl|left; split; [reflexivity|discriminate]]|].
  destruct (wm_str_fits (sg_name d0) && wm_str_fits (sg_units d0)) eqn:Efit; cbn [negb]; [|split; [exact Hrefl|left; split; [reflexivity|discriminate]]].
  destruct (negb (wm_dt_valid (sg_dtype d0))); [split; [exact Hrefl|left; split; [reflexivity|discriminate]]|].
  destruct (wm_sig_align d0) as [d|] eqn:Eal; [|split; [exact Hrefl|left; split; [reflexivity|discriminate]]].
  destruct ((sg_type d =? JLS_SIGNAL_TYPE_FSR) && (sg_rate d =? 0)); [split; [exact Hrefl|left; split; [reflexivity|discriminate]]|].
  (* accepted *)
  assert (Hnm : sg_id d = sg_id d0 /\ sg_name d = sg_name d0 /\ sg_units d = sg_units d0).
  { unfold wm_sig_align in Eal.
    destruct (wm_round_up _ _) as [a1|]; [|discriminate Eal]. destruct (wm_round_up _ _) as [a2|]; [|discriminate Eal].
    destruct (wm_round_up _ _) as [a3|]; [|discriminate Eal].
    destruct (_ <? _); [discriminate Eal|]. destruct (_ <? _); [discriminate Eal|]. injection Eal as <-. repeat split. }
  destruct Hnm as (Eid & Enm & Eun).
  apply andb_true_iff in Efit as [F1 F2].
  assert (Hlen : rf_len (wm_signal_payload d) < 4294967296).
  { unfold rf_len, wm_signal_payload. rewrite !app_length, repeat_length. unfold fm_enc_u16, fm_enc_u8, fm_enc_u32. rewrite !fm_enc_length.
    rewrite Enm, Eun. pose proof (rp_str_len _ F1). pose proof (rp_str_len _ F2). unfold JLS_BUF_STRING_SIZE, fm_signal_reserved in *. lia. }
  unfold JLS_SIGNAL_COUNT in Hid.
  pose proof Hb as (Hr & H1 & H2 & H3).
  pose proof (rf_base_append (wm_st_base st) (wm_b_signal_head (wm_st_base st)) (wm_ck_offset (wm_b_signal_head (wm_st_base st)))
                JLS_TAG_SIGNAL_DEF (sg_id d) (wm_signal_payload d) Hb H2 ltac:(discriminate) ltac:(reflexivity) ltac:(lia) Hlen) as X.
  cbv zeta in X. change (wm_len (wm_signal_payload d)) with (rf_len (wm_signal_payload d)).
  destruct (wm_raw_wr _ _ (wm_signal_payload d)) as [r1 h1]. cbn [fst snd] in X.
  destruct (wm_update_item_head r1 _ _) as [r2 sh]. cbn [fst snd] in X.
  destruct X as (Hr2 & Hext & Hoff & Hout & Hrefc & _ & _ & _ & R1 & R2 & R3 & _).
  set (b1 := wm_b_set_signal_head (wm_b_set_raw (wm_st_base st) r2) sh).
  assert (Hb1 : rf_bok b1).
  { subst b1. unfold rf_bok. cbn [wm_b_raw wm_b_set_raw wm_b_set_signal_head wm_b_source_head wm_b_signal_head wm_b_ud_head].
    split; [exact Hr2|]. split; [exact R1|]. split; [exact Hrefc|exact R3]. }
  assert (Hs1 : rp_bstep (wm_st_base st) b1).
  { split; [exact Hb1|]. split; [exact Hext|]. eexists [_]. unfold rp_bout. subst b1. cbn [wm_b_raw wm_b_set_raw wm_b_set_signal_head].
    split; [exact Hout|]. constructor; [reflexivity|constructor]. }
  assert (Hsid16 : sg_id d < 65536) by lia.
  destruct (N.eqb_spec (sg_type d) JLS_SIGNAL_TYPE_FSR) as [Etf|Etf].
  - destruct (rp_def_track b1 (sg_id d) JLS_TRACK_TYPE_FSR Hb1 Hsid16 ltac:(reflexivity)) as (S2 & T2 & Ty2 & Of2 & Dh2).
    destruct (wm_def_track b1 (sg_id d) JLS_TRACK_TYPE_FSR) as [b2 tf]. cbn [fst snd] in *.
    destruct (rp_def_track b2 (sg_id d) JLS_TRACK_TYPE_ANNOTATION (proj1 S2) Hsid16 ltac:(reflexivity)) as (S3 & _).
    destruct (wm_def_track b2 (sg_id d) JLS_TRACK_TYPE_ANNOTATION) as [b3 ta]. cbn [fst snd] in *.
    destruct (rp_def_track b3 (sg_id d) JLS_TRACK_TYPE_UTC (proj1 S3) Hsid16 ltac:(reflexivity)) as (S4 & _).
    destruct (wm_def_track b3 (sg_id d) JLS_TRACK_TYPE_UTC) as [b4 tu]. cbn [fst snd wm_st_base wm_st_sigs] in *.
    split; [eapply rp_bstep_trans; [exact Hs1|]; eapply rp_bstep_trans; [exact S2|]; eapply rp_bstep_trans; [exact S3|exact S4]|].
    right. eexists. split; [reflexivity|]. cbn [wm_sg_def wm_sg_anno wm_sg_utc wm_sg_fsr wm_sg_tk_fsr].
    split; [reflexivity|]. split; [reflexivity|]. split; [lia|]. split; [reflexivity|]. split; [right; reflexivity|].
    right. split; [reflexivity|]. split; [|split; [exact Ty2|split; [exact Of2|exact Dh2]]].
    eapply rf_tok_ext; [|exact T2]. eapply rf_ext_trans; [exact (proj1 (proj2 S3))|exact (proj1 (proj2 S4))].
  - destruct (rp_def_track b1 (sg_id d) JLS_TRACK_TYPE_VSR Hb1 Hsid16 ltac:(reflexivity)) as (S2 & _).
    destruct (wm_def_track b1 (sg_id d) JLS_TRACK_TYPE_VSR) as [b2 tv]. cbn [fst snd] in *.
    destruct (rp_def_track b2 (sg_id d) JLS_TRACK_TYPE_ANNOTATION (proj1 S2) Hsid16 ltac:(reflexivity)) as (S3 & _).
    destruct (wm_def_track b2 (sg_id d) JLS_TRACK_TYPE_ANNOTATION) as [b3 ta]. cbn [fst snd wm_st_base wm_st_sigs] in *.
    split; [eapply rp_bstep_trans; [exact Hs1|]; eapply rp_bstep_trans; [exact S2|exact S3]|].
    right. eexists. split; [reflexivity|]. cbn [wm_sg_def wm_sg_anno wm_sg_utc wm_sg_fsr wm_sg_tk_fsr].
    split; [reflexivity|]. split; [reflexivity|]. split; [lia|]. split; [reflexivity|]. split; [left; reflexivity|]. left. split; [reflexivity|exact Etf].
Qed.

(* ------------------------------------------------------------------ whole programs (partial class) *)
(* signals other than the target never receive data: their close writes nothing *)
Definition rp_idle (s : wm_signal) : Prop :=
  (match wm_sg_fsr s with None => True | Some f => wm_f_alloc f = false /\ wm_f_levels f = repeat None 16 end) /\
  (match wm_sg_anno s with None => True | Some ts => wm_ts_levels ts = repeat None 16 end) /\
  (match wm_sg_utc s with None => True | Some ts => wm_ts_levels ts = repeat None 16 end).
(* before jls_wr_close, an FSR signal has its FSR state *)
Definition rp_live (s : wm_signal) : Prop := sg_type (wm_sg_def s) = JLS_SIGNAL_TYPE_FSR -> exists f, wm_sg_fsr s = Some f.

(* the calls of the program on signal sid *)
Fixpoint rp_proj (sid : N) (p : list wop) : list rf_op :=
  match p with
  | [] => []
  | WFsr s sample_id samples :: r => if s =? sid then RfData sample_id samples :: rp_proj sid r else rp_proj sid r
  | WOmit s en :: r => if s =? sid then RfOmit en :: rp_proj sid r else rp_proj sid r
  | _ :: r => rp_proj sid r
  end.

(* the class of programs: sample data for signal sid only, no annotation / UTC call, user data that fits its uint32 size *)
Definition rp_ok (sid : N) (o : wop) : Prop :=
  match o with
  | WFsr s _ _ => s = sid
  | WAnno _ _ => False
  | WUtc _ _ _ => False
  | WUd u => N.of_nat (length (ud_data u)) + 1 < 4294967296
  | _ => True
  end.

Lemma rp_find_put_same : forall st b s', (exists s, wm_find_sig st (wm_sig_id s') = Some s) ->
  wm_find_sig (wm_put_sig st b s') (wm_sig_id s') = Some s'.
Proof.
  intros st b s' (s & H). unfold wm_find_sig, wm_put_sig in *. cbn [wm_st_sigs].
  induction (wm_st_sigs st) as [|x l IH]; [discriminate H|]. cbn [map find] in *.
  destruct (N.eqb_spec (wm_sig_id x) (wm_sig_id s')) as [E|E]; [rewrite N.eqb_refl; reflexivity|].
  destruct (N.eqb_spec (wm_sig_id x) (wm_sig_id s')); [contradiction|]. apply IH. exact H.
Qed.
Lemma rp_find_put_other : forall st b s' id, wm_sig_id s' <> id -> wm_find_sig (wm_put_sig st b s') id = wm_find_sig st id.
Proof. intros st b s' id H. unfold wm_find_sig, wm_put_sig. cbn [wm_st_sigs]. apply rd_find_put_other. exact H. Qed.

Lemma rp_validate_found : forall st id s, wm_find_sig st id = Some s -> id < 256 -> wm_signal_validate st id = (0, Some s).
Proof. intros st id s H Hid. unfold wm_signal_validate. destruct (N.leb_spec JLS_SIGNAL_COUNT id) as [Hb|_]; [unfold JLS_SIGNAL_COUNT in Hb; lia|]. rewrite H. reflexivity. Qed.
Lemma rp_validate_none : forall st id, wm_find_sig st id = None -> snd (wm_signal_validate st id) = None /\ fst (wm_signal_validate st id) <> 0.
Proof. intros st id H. unfold wm_signal_validate. destruct (JLS_SIGNAL_COUNT <=? id); [split; [reflexivity|discriminate]|]. rewrite H. split; [reflexivity|discriminate]. Qed.

Lemma rp_find_id : forall st id s, wm_find_sig st id = Some s -> wm_sig_id s = id /\ In s (wm_st_sigs st).
Proof. intros st id s H. unfold wm_find_sig in H. apply find_some in H. destruct H as (A & B). apply N.eqb_eq in B. split; assumption. Qed.

(* calls that leave the target's component alone: effect on the state *)
Definition rp_others (sid : N) (st : wm_state) : Prop :=
  Forall (fun s => wm_sig_id s = sid \/ (rp_idle s /\ rp_live s)) (wm_st_sigs st).
Definition rp_other_step (sid : N) (st st' : wm_state) : Prop :=
  rp_bstep (wm_st_base st) (wm_st_base st') /\ wm_find_sig st' sid = wm_find_sig st sid /\ rp_others sid st'.

Lemma rp_sig_align_id : forall d0 d, wm_sig_align d0 = Some d -> sg_id d = sg_id d0.
Proof.
  intros d0 d Hal. unfold wm_sig_align in Hal.
  destruct (wm_round_up _ _) as [a1|]; [|discriminate Hal]. destruct (wm_round_up _ _) as [a2|]; [|discriminate Hal].
  destruct (wm_round_up _ _) as [a3|]; [|discriminate Hal].
  destruct (_ <? _); [discriminate Hal|]. destruct (_ <? _); [discriminate Hal|]. injection Hal as <-. reflexivity.
Qed.

Section RPS.
Variable summ1 : N -> list N -> wm_sentry.
Variable summN : bool -> list wm_sentry -> wm_sentry.

(* every call of the class other than jls_wr_fsr / jls_wr_fsr_omit_data on the target and the target's definition *)
Lemma rp_other : forall sid st o, rf_bok (wm_st_base st) -> rp_others sid st -> rp_ok sid o ->
  match o with
  | WFsr _ _ _ => False
  | WOmit s _ => s <> sid
  | WSig d0 => sg_id d0 <> sid \/ wm_find_sig st sid <> None
  | _ => True
  end ->
  rp_other_step sid st (fst (wm_step_rc summ1 summN st o)).
Proof.
  intros sid st o Hb HF Hok Hcase. destruct o as [ds|d0|sg smp_id smp|sg en|sg a|sg smp_id utc|u|]; cbn [wm_step_rc rp_ok] in *; try contradiction.
  - destruct (rp_source_def st ds Hb) as (Hs & Hsig). split; [exact Hs|]. unfold wm_find_sig, rp_others. rewrite Hsig. split; [reflexivity|exact HF].
  - destruct (rp_signal_def st d0 Hb) as (Hs & [(Hsig & _)|(s & Hsig & Hnone & Hal & Hid & Han & Hut & Hfs)]).
    + split; [exact Hs|]. unfold wm_find_sig, rp_others. rewrite Hsig. split; [reflexivity|exact HF].
    + split; [exact Hs|]. split.
      * unfold wm_find_sig. rewrite Hsig, rd_find_app. fold (wm_find_sig st sid).
        destruct (wm_find_sig st sid) as [sx|] eqn:Ef; [reflexivity|].
        destruct Hcase as [Hne|Hne]; [|congruence]. cbn [find].
        unfold wm_sig_id. rewrite (rp_sig_align_id _ _ Hal). destruct (N.eqb_spec (sg_id d0) sid); [contradiction|reflexivity].
      * unfold rp_others. rewrite Hsig. apply Forall_app. split; [exact HF|]. constructor; [|constructor]. right. split.
        -- unfold rp_idle. rewrite Han. split; [|split; [reflexivity|destruct Hut as [->| ->]; [exact I|reflexivity]]].
           destruct Hfs as [(-> & _)|(-> & _)]; [exact I|split; reflexivity].
        -- intro Hty. destruct Hfs as [(_ & Hn)|(-> & _)]; [contradiction|eexists; reflexivity].
  - (* omit on another signal *)
    unfold wm_api_fsr_omit_data.
    destruct (wm_signal_validate_typed st sg JLS_SIGNAL_TYPE_FSR) as [rc os] eqn:Ev.
    assert (Hrefl : rp_other_step sid st st).
    { split; [apply rp_bstep_refl; exact Hb|]. split; [reflexivity|exact HF]. }
    destruct rc as [|p]; [|exact Hrefl]. destruct os as [s2|]; [|exact Hrefl].
    assert (Hf2 : wm_find_sig st sg = Some s2 /\ sg_type (wm_sg_def s2) = JLS_SIGNAL_TYPE_FSR).
    { unfold wm_signal_validate_typed, wm_signal_validate in Ev. destruct (JLS_SIGNAL_COUNT <=? sg); [discriminate Ev|].
      destruct (wm_find_sig st sg) as [sx|]; [|discriminate Ev]. destruct (N.eqb_spec (sg_type (wm_sg_def sx)) JLS_SIGNAL_TYPE_FSR); [|discriminate Ev].
      injection Ev as <-. split; [reflexivity|assumption]. }
    destruct Hf2 as (Hf2 & Hty2).
    destruct (rp_find_id st sg s2 Hf2) as (Eid2 & Hin2).
    assert (Hs2 : rp_idle s2 /\ rp_live s2).
    { unfold rp_others in HF. rewrite Forall_forall in HF. destruct (HF s2 Hin2) as [E|H]; [congruence|exact H]. }
    destruct Hs2 as ((I1 & I2 & I3) & Hl2). destruct (Hl2 Hty2) as (f2 & Efs). rewrite Efs in *. cbn [fst].
    set (s2' := wm_sg_set_fsr s2 (wm_sg_tk_fsr s2) (Some (wm_f_set_omit f2 (if en =? 0 then 0 else N.lor (wm_f_omit f2) 1)))).
    assert (Eid2' : wm_sig_id s2' = sg) by exact Eid2.
    split; [apply rp_bstep_refl; exact Hb|]. split; [apply rp_find_put_other; rewrite Eid2'; exact Hcase|].
    unfold rp_others, wm_put_sig. cbn [wm_st_sigs]. apply Forall_forall. intros y Hy. apply in_map_iff in Hy. destruct Hy as (y0 & <- & Hy0).
    unfold rp_others in HF. rewrite Forall_forall in HF. specialize (HF y0 Hy0).
    destruct (N.eqb_spec (wm_sig_id y0) (wm_sig_id s2')) as [E|E]; [|exact HF].
    right. split.
    + unfold rp_idle, s2'. cbn [wm_sg_set_fsr wm_sg_fsr wm_sg_anno wm_sg_utc wm_f_set_omit wm_f_alloc wm_f_levels]. split; [exact I1|split; assumption].
    + intros _. eexists. reflexivity.
  - destruct (rp_user_data st u Hb Hok) as (Hs & Hsig). split; [exact Hs|]. unfold wm_find_sig, rp_others. rewrite Hsig. split; [reflexivity|exact HF].
  - destruct (rp_flush st Hb) as (Hs & Hsig). split; [exact Hs|]. unfold wm_find_sig, rp_others. rewrite Hsig. split; [reflexivity|exact HF].
Qed.

End RPS.

Section RPG.
Variable summ1 : N -> list N -> wm_sentry.
Variable summN : bool -> list wm_sentry -> wm_sentry.
Variable d : sigdef.          (* the target's stored (aligned) definition *)
Variable pos0 : Z.
Hypothesis Hpos0 : (0 < pos0)%Z.
Let pd := rf_pd d.
Let w := dt_bits (sg_dtype d).
Let sid := sg_id d.
Hypothesis Hsid : sg_id d < 256.
Hypothesis Hty : sg_type d = JLS_SIGNAL_TYPE_FSR.
Hypothesis Hg_idx : forall L, (8 * py_cap pd L + 16 < 4294967296)%Z.
Hypothesis Hg_sum : (32 * py_eps pd + 16 < 4294967296)%Z.
Hypothesis Hspd : 0 < sg_spd d.
Hypothesis Hw : w < 8 \/ w mod 8 = 0.
Hypothesis Hg_data : 16 + (sg_spd d * w + 7) / 8 < 4294967296.
Hypothesis Hfill : 0 < wm_fill_buf_samples (sg_dtype d).

Definition rp_fx (st : wm_state) (s : wm_signal) (f : wm_fsr) : wm_fx :=
  {| wm_fx_base := wm_st_base st; wm_fx_tk := wm_sg_tk_fsr s; wm_fx_fsr := f |}.
Definition rp_idle_ts (s : wm_signal) : Prop :=
  (match wm_sg_anno s with None => True | Some ts => wm_ts_levels ts = repeat None 16 end) /\
  (match wm_sg_utc s with None => True | Some ts => wm_ts_levels ts = repeat None 16 end).

(* the target is defined and open *)
Definition rp_G1 (T0 : Z) (BLKS : list (list N)) (stf : py_wr) (st : wm_state) (rem : list rf_op) : Prop :=
  rp_others sid st /\
  exists s f, wm_find_sig st sid = Some s /\ wm_sg_def s = d /\ wm_sg_fsr s = Some f /\ rp_idle_ts s /\
              rp_FInv d pos0 T0 BLKS stf (rp_fx st s f) rem.

Lemma rp_G1_step : forall T0 BLKS stf st o p,
  rp_G1 T0 BLKS stf st (rp_proj sid (o :: p)) -> rp_ok sid o ->
  rp_G1 T0 BLKS stf (fst (wm_step_rc summ1 summN st o)) (rp_proj sid p).
Proof.
  intros T0 BLKS stf st o p (Hoth & s & f & Hfind & Hdef & Hfsr & Hits & HF) Hok.
  destruct (rp_FInv_bok d pos0 _ _ _ _ _ HF) as (Hb & _). cbn [rp_fx wm_fx_base] in Hb.
  destruct (rp_find_id st sid s Hfind) as (Eids & Hins).
  (* calls handled by rp_other *)
  assert (Hoth_case : forall (Hc : match o with WFsr _ _ _ => False | WOmit s0 _ => s0 <> sid | WSig d0 => sg_id d0 <> sid \/ wm_find_sig st sid <> None | _ => True end),
            rp_proj sid (o :: p) = rp_proj sid p -> rp_G1 T0 BLKS stf (fst (wm_step_rc summ1 summN st o)) (rp_proj sid p)).
  { intros Hc Eproj. rewrite Eproj in HF.
    destruct (rp_other summ1 summN sid st o Hb Hoth Hok Hc) as ((Hb' & Hext & new & Hout & Hnew) & Hf' & Hoth').
    split; [exact Hoth'|]. exists s, f. rewrite Hf'. split; [exact Hfind|]. split; [exact Hdef|]. split; [exact Hfsr|]. split; [exact Hits|].
    apply (rp_FInv_frame d pos0 T0 BLKS stf (rp_fx st s f) (rp_proj sid p) _ new HF Hb' Hext Hout). apply rp_plain_Forall. exact Hnew. }
  (* calls on the target *)
  assert (Htgt : forall ro, rp_proj sid (o :: p) = ro :: rp_proj sid p ->
            fst (wm_step_rc summ1 summN st o) =
              wm_put_sig st (wm_fx_base (rf_do summ1 summN d (rp_fx st s f) ro))
                (wm_sg_set_fsr s (wm_fx_tk (rf_do summ1 summN d (rp_fx st s f) ro)) (Some (wm_fx_fsr (rf_do summ1 summN d (rp_fx st s f) ro)))) ->
            rp_G1 T0 BLKS stf (fst (wm_step_rc summ1 summN st o)) (rp_proj sid p)).
  { intros ro Eproj Est. rewrite Eproj in HF.
    destruct (rp_FInv_step summ1 summN d pos0 Hpos0 Hsid Hg_idx Hg_sum Hspd Hw Hg_data Hfill T0 BLKS stf _ ro _ HF) as (new & HF' & Hdelta).
    set (x' := rf_do summ1 summN d (rp_fx st s f) ro) in *.
    set (s' := wm_sg_set_fsr s (wm_fx_tk x') (Some (wm_fx_fsr x'))) in *.
    assert (Eids' : wm_sig_id s' = sid) by exact Eids.
    rewrite Est. split.
    - unfold rp_others, wm_put_sig. cbn [wm_st_sigs]. apply Forall_forall. intros y Hy. apply in_map_iff in Hy. destruct Hy as (y0 & <- & Hy0).
      unfold rp_others in Hoth. rewrite Forall_forall in Hoth. specialize (Hoth y0 Hy0).
      destruct (N.eqb_spec (wm_sig_id y0) (wm_sig_id s')) as [E|E]; [left; exact Eids'|exact Hoth].
    - exists s', (wm_fx_fsr x'). split; [rewrite <- Eids'; apply rp_find_put_same; exists s; rewrite Eids'; exact Hfind|].
      split; [exact Hdef|]. split; [reflexivity|]. split; [exact Hits|].
      replace (rp_fx (wm_put_sig st (wm_fx_base x') s') s' (wm_fx_fsr x')) with x' by (destruct x'; reflexivity). exact HF'. }
  destruct o as [ds|d0|sg smp_id smp|sg en|sg a|sg smp_id utc|u|]; cbn [rp_ok] in Hok; try contradiction.
  - apply Hoth_case; [exact I|reflexivity].
  - apply Hoth_case; [right; rewrite Hfind; discriminate|reflexivity].
  - subst sg. apply (Htgt (RfData smp_id smp)); [cbn [rp_proj]; rewrite N.eqb_refl; reflexivity|].
    cbn [wm_step_rc]. rewrite (rf_api_fsr summ1 summN st sid smp_id smp s f); [rewrite Hdef; reflexivity| |exact Hfsr].
    unfold wm_signal_validate_typed. rewrite (rp_validate_found st sid s Hfind Hsid), Hdef, Hty, N.eqb_refl. reflexivity.
  - destruct (N.eqb_spec sg sid) as [->|Hne].
    + apply (Htgt (RfOmit en)); [cbn [rp_proj]; rewrite N.eqb_refl; reflexivity|].
      cbn [wm_step_rc]. rewrite (rf_api_omit summ1 summN st sid en s f); [rewrite Hdef; reflexivity| |exact Hfsr].
      unfold wm_signal_validate_typed. rewrite (rp_validate_found st sid s Hfind Hsid), Hdef, Hty, N.eqb_refl. reflexivity.
    + apply Hoth_case; [exact Hne|]. cbn [rp_proj]. destruct (N.eqb_spec sg sid); [contradiction|reflexivity].
  - apply Hoth_case; [exact I|reflexivity].
  - apply Hoth_case; [exact I|reflexivity].
Qed.


(* ---- before the target is defined ---- *)
Definition rp_G0 (st : wm_state) : Prop :=
  rf_bok (wm_st_base st) /\ wm_find_sig st sid = None /\ rp_others sid st /\
  Forall (fun c => rp_plain c = true) (rp_bout (wm_st_base st)).

Lemma rp_G0_step : forall st o, rp_G0 st -> rp_ok sid o ->
  match o with WSig d' => sg_id d' <> sid | _ => True end ->
  rp_G0 (fst (wm_step_rc summ1 summN st o)).
Proof.
  intros st o (Hb & Hnone & Hoth & Hpl) Hok Hns.
  assert (Hrej : forall sg, sg = sid -> wm_signal_validate_typed st sg JLS_SIGNAL_TYPE_FSR = (fst (wm_signal_validate st sg), None) /\ fst (wm_signal_validate st sg) <> 0).
  { intros sg ->. destruct (rp_validate_none st sid Hnone) as (E1 & E2). unfold wm_signal_validate_typed.
    destruct (wm_signal_validate st sid) as [rc os]. cbn [fst snd] in *. subst os. destruct rc; [congruence|]. split; [reflexivity|discriminate]. }
  assert (Hoth_case : forall (Hc : match o with WFsr _ _ _ => False | WOmit s0 _ => s0 <> sid | WSig d0 => sg_id d0 <> sid \/ wm_find_sig st sid <> None | _ => True end),
            rp_G0 (fst (wm_step_rc summ1 summN st o))).
  { intros Hc. destruct (rp_other summ1 summN sid st o Hb Hoth Hok Hc) as ((Hb' & Hext & new & Hout & Hnew) & Hf' & Hoth').
    split; [exact Hb'|]. split; [rewrite Hf'; exact Hnone|]. split; [exact Hoth'|]. rewrite Hout. apply Forall_app. split; assumption. }
  destruct o as [ds|d0|sg smp_id smp|sg en|sg a|sg smp_id utc|u|]; cbn [rp_ok] in Hok; try contradiction.
  - apply Hoth_case. exact I.
  - apply Hoth_case. left. exact Hns.
  - (* samples for a signal that does not exist yet: rejected *)
    cbn [wm_step_rc]. unfold wm_api_fsr. destruct (Hrej sg Hok) as (-> & Hnz).
    destruct (fst (wm_signal_validate st sg)); [congruence|]. cbn [fst]. split; [exact Hb|]. split; [exact Hnone|]. split; assumption.
  - destruct (N.eqb_spec sg sid) as [E|Hne].
    + cbn [wm_step_rc]. unfold wm_api_fsr_omit_data. destruct (Hrej sg E) as (-> & Hnz).
      destruct (fst (wm_signal_validate st sg)); [congruence|]. cbn [fst]. split; [exact Hb|]. split; [exact Hnone|]. split; assumption.
    + apply Hoth_case. exact Hne.
  - apply Hoth_case. exact I.
  - apply Hoth_case. exact I.
Qed.

(* the target's definition *)
Lemma rp_G0_define : forall st d0 rem stm stf,
  rp_G0 st -> snd (wm_api_signal_def st d0) = 0 -> wm_sig_align d0 = Some d ->
  py_do_all pd (py_plan (w <=? 8) (py_sdf pd) 0 (rf_script d rf_bs0 rem)) (py_init (rf_t0 rem) pos0) = PyOk stm ->
  py_close pd stm = PyOk stf ->
  rp_G1 (rf_t0 rem) (rf_blocks d rf_bs0 rem) stf (fst (wm_api_signal_def st d0)) rem.
Proof.
  intros st d0 rem stm stf (Hb & Hnone & Hoth & Hpl) Hrc Hal Hpy Hcl.
  destruct (rp_signal_def st d0 Hb) as ((Hb' & Hext & new & Hout & Hnew) & [(_ & Hnz)|(s & Hsig & _ & Hal' & Hid & Han & Hut & Hfs)]); [congruence|].
  rewrite Hal in Hal'. injection Hal' as Ed.
  assert (Eids : wm_sig_id s = sid) by (unfold wm_sig_id; rewrite <- Ed; reflexivity).
  destruct Hfs as [(_ & Hn)|(Hfsr & Htok & Htyk & Hoffs & Hdh)]; [rewrite <- Ed in Hn; contradiction|].
  split.
  - unfold rp_others. rewrite Hsig. apply Forall_app. split; [exact Hoth|]. constructor; [left; exact Eids|constructor].
  - exists s, wm_fsr_open. split.
    { unfold wm_find_sig. rewrite Hsig, rd_find_app. fold (wm_find_sig st sid). rewrite Hnone. cbn [find]. rewrite Eids, N.eqb_refl. reflexivity. }
    split; [symmetry; exact Ed|]. split; [exact Hfsr|].
    split. { unfold rp_idle_ts. rewrite Han. split; [reflexivity|]. destruct Hut as [-> | ->]; [exact I|reflexivity]. }
    left. cbn [rp_fx wm_fx_fsr wm_fx_base wm_fx_tk].
    split; [reflexivity|]. split. { unfold rf_fresh. cbn [rp_fx wm_fx_fsr wm_fx_base wm_fx_tk]. split; [exact Hb'|]. split; [exact Htok|]. split; [exact Htyk|]. split; [exact Hoffs|]. split; [rewrite Hdh; reflexivity|reflexivity]. }
    split; [reflexivity|]. split; [cbv; reflexivity|].
    split. { unfold rf_out. cbn [rp_fx wm_fx_base]. unfold rp_bout in Hout, Hpl, Hnew. rewrite Hout, filter_app.
             rewrite (rp_filter_none _ _ (rp_plain_Forall d _ Hnew)), (rp_filter_none _ _ (rp_plain_Forall d _ Hpl)). reflexivity. }
    split; [reflexivity|]. split; [reflexivity|]. exists stm. split; [exact Hpy|exact Hcl].
Qed.


(* ---- jls_wr_close ---- *)
Lemma rp_get_level_none : forall f level, wm_f_levels f = repeat None 16 -> wm_f_get_level f level = None.
Proof.
  intros f level H. unfold wm_f_get_level. rewrite H.
  destruct (nth_in_or_default (N.to_nat level) (repeat (@None wm_flevel) 16) None) as [Hin|E0]; [apply repeat_spec in Hin; exact Hin|exact E0].
Qed.
Lemma rp_ts_get_none : forall ts level, wm_ts_levels ts = repeat None 16 -> wm_ts_get ts level = None.
Proof.
  intros ts level H. unfold wm_ts_get. rewrite H.
  destruct (nth_in_or_default (N.to_nat level) (repeat (@None wm_ts_level) 16) None) as [Hin|E0]; [apply repeat_spec in Hin; exact Hin|exact E0].
Qed.

Lemma rp_fsr_close_idle : forall d' x, wm_f_alloc (wm_fx_fsr x) = false -> wm_f_levels (wm_fx_fsr x) = repeat None 16 ->
  wm_fsr_close summ1 summN d' x = x.
Proof.
  intros d' x Ha Hl. unfold wm_fsr_close. rewrite Ha.
  assert (H : forall l, fold_left (wm_fsr_summary_close summN d') l x = x).
  { induction l as [|lv l IH]; [reflexivity|]. cbn [fold_left]. unfold wm_fsr_summary_close at 2. rewrite (rp_get_level_none _ lv Hl). exact IH. }
  apply H.
Qed.
Lemma rp_commit_none : forall fuel id close level x, wm_ts_get (wm_tx_ts x) level = None -> wm_ts_commit (S fuel) id close level x = x.
Proof. intros fuel id close level x H. cbn [wm_ts_commit]. rewrite H. reflexivity. Qed.
Lemma rp_ts_close_gen : forall n id x l, wm_ts_levels (wm_tx_ts x) = repeat None 16 ->
  fold_left (fun x level => wm_ts_commit (S n) id true level x) l x = x.
Proof.
  intros n id x l Hl. induction l as [|lv l IH]; [reflexivity|]. cbn [fold_left].
  rewrite rp_commit_none by (apply rp_ts_get_none; exact Hl). exact IH.
Qed.
Lemma rp_ts_close_idle : forall id x, wm_ts_levels (wm_tx_ts x) = repeat None 16 -> wm_ts_close id x = x.
Proof. intros id x Hl. exact (rp_ts_close_gen 15 id x wm_close_levels Hl). Qed.

(* closing a signal that never received data changes nothing in the file *)
Lemma rp_close_signal_idle : forall st id s, wm_find_sig st id = Some s -> rp_idle s ->
  exists s3, wm_close_signal summ1 summN st id = wm_put_sig st (wm_st_base st) s3 /\ wm_sig_id s3 = wm_sig_id s /\ rp_idle s3.
Proof.
  intros st id s Hf (I1 & I2 & I3). unfold wm_close_signal. rewrite Hf.
  set (r1 := match wm_sg_fsr s with
             | None => (wm_st_base st, s)
             | Some f => let x := wm_fsr_close summ1 summN (wm_sg_def s) {| wm_fx_base := wm_st_base st; wm_fx_tk := wm_sg_tk_fsr s; wm_fx_fsr := f |} in
                         (wm_fx_base x, wm_sg_set_fsr s (wm_fx_tk x) None) end).
  assert (E1 : exists s1, r1 = (wm_st_base st, s1) /\ wm_sig_id s1 = wm_sig_id s /\ wm_sg_anno s1 = wm_sg_anno s /\ wm_sg_utc s1 = wm_sg_utc s /\
                          (match wm_sg_fsr s1 with None => True | Some f => wm_f_alloc f = false /\ wm_f_levels f = repeat None 16 end)).
  { subst r1. destruct (wm_sg_fsr s) as [f|] eqn:Ef.
    - destruct I1 as (Ia & Il). rewrite rp_fsr_close_idle by assumption. cbn [wm_fx_base wm_fx_tk]. eexists. split; [reflexivity|]. repeat split.
    - exists s. rewrite Ef. repeat split. }
  destruct E1 as (s1 & -> & Eid1 & Ean1 & Eut1 & If1).
  set (r2 := match wm_sg_anno s1 with
             | None => (wm_st_base st, s1)
             | Some ts => let x := wm_ts_close id {| wm_tx_base := wm_st_base st; wm_tx_tk := wm_sg_tk_anno s1; wm_tx_ts := ts |} in
                          (wm_tx_base x, wm_sg_set_anno s1 (wm_tx_tk x) None) end).
  assert (E2 : exists s2, r2 = (wm_st_base st, s2) /\ wm_sig_id s2 = wm_sig_id s /\ wm_sg_utc s2 = wm_sg_utc s /\ wm_sg_fsr s2 = wm_sg_fsr s1 /\
                          (match wm_sg_anno s2 with None => True | Some ts => wm_ts_levels ts = repeat None 16 end)).
  { subst r2. rewrite Ean1. destruct (wm_sg_anno s) as [ts|] eqn:Ea.
    - rewrite rp_ts_close_idle by exact I2. cbn [wm_tx_base wm_tx_tk]. eexists. split; [reflexivity|]. repeat split; assumption.
    - exists s1. rewrite Ean1. repeat split; assumption. }
  destruct E2 as (s2 & -> & Eid2 & Eut2 & Efs2 & Ia2).
  set (r3 := match wm_sg_utc s2 with
             | None => (wm_st_base st, s2)
             | Some ts => let x := wm_ts_close id {| wm_tx_base := wm_st_base st; wm_tx_tk := wm_sg_tk_utc s2; wm_tx_ts := ts |} in
                          (wm_tx_base x, wm_sg_set_utc s2 (wm_tx_tk x) None) end).
  assert (E3 : exists s3, r3 = (wm_st_base st, s3) /\ wm_sig_id s3 = wm_sig_id s /\ rp_idle s3).
  { subst r3. rewrite Eut2. destruct (wm_sg_utc s) as [ts|] eqn:Eu.
    - rewrite rp_ts_close_idle by exact I3. cbn [wm_tx_base wm_tx_tk]. eexists. split; [reflexivity|]. split; [exact Eid2|].
      unfold rp_idle. cbn [wm_sg_set_utc wm_sg_fsr wm_sg_anno wm_sg_utc]. rewrite Efs2. split; [exact If1|]. split; [exact Ia2|exact I].
    - exists s2. split; [reflexivity|]. split; [exact Eid2|]. unfold rp_idle. rewrite Efs2, Eut2. split; [exact If1|]. split; [exact Ia2|exact I]. }
  destruct E3 as (s3 & -> & Eid3 & Hi3). exists s3. split; [reflexivity|]. split; assumption.
Qed.


(* the close phase: the target still open (no call left), or closed *)
Definition rp_G1c (T0 : Z) (BLKS : list (list N)) (stf : py_wr) (st : wm_state) : Prop :=
  Forall (fun s => wm_sig_id s = sid \/ rp_idle s) (wm_st_sigs st) /\
  exists s f, wm_find_sig st sid = Some s /\ wm_sg_def s = d /\ wm_sg_fsr s = Some f /\ rp_idle_ts s /\
              rp_FInv d pos0 T0 BLKS stf (rp_fx st s f) [].
Definition rp_done (T0 : Z) (BLKS : list (list N)) (stf : py_wr) (st : wm_state) : Prop :=
  rf_bok (wm_st_base st) /\ Forall rp_idle (wm_st_sigs st) /\
  exists cs, Forall2 (rf_chunk_rel d pos0 T0 (map rc_off cs) BLKS) cs (pw_disk stf) /\
             filter (rf_mine d) (rp_bout (wm_st_base st)) = rev cs.

Lemma rp_G1_G1c : forall T0 BLKS stf st, rp_G1 T0 BLKS stf st [] -> rp_G1c T0 BLKS stf st.
Proof.
  intros T0 BLKS stf st (Hoth & Rest). split; [|exact Rest].
  eapply Forall_impl; [|exact Hoth]. intros s [H|(H & _)]; [left; exact H|right; exact H].
Qed.

(* closing the target: jls_fsr_close, then nothing for its annotation / UTC tracks *)
Lemma rp_close_target_eq : forall st s f x', wm_find_sig st sid = Some s -> wm_sg_fsr s = Some f -> wm_sg_def s = d -> rp_idle_ts s ->
  wm_fsr_close summ1 summN d (rp_fx st s f) = x' ->
  exists s3, wm_close_signal summ1 summN st sid = wm_put_sig st (wm_fx_base x') s3 /\ wm_sig_id s3 = sid /\ rp_idle s3.
Proof.
  intros st s f x' Hfind Hfsr Hdef (Ia & Iu) Hx'. unfold wm_close_signal. rewrite Hfind, Hfsr, Hdef.
  change {| wm_fx_base := wm_st_base st; wm_fx_tk := wm_sg_tk_fsr s; wm_fx_fsr := f |} with (rp_fx st s f). rewrite Hx'. clear Hx'.
  set (s1 := wm_sg_set_fsr s (wm_fx_tk x') None).
  assert (Ean : wm_sg_anno s1 = wm_sg_anno s) by reflexivity. assert (Eut : wm_sg_utc s1 = wm_sg_utc s) by reflexivity.
  assert (Eid1 : wm_sig_id s1 = sid) by exact (proj1 (rp_find_id st sid s Hfind)).
  assert (E2 : exists s2, (match wm_sg_anno s1 with
                           | None => (wm_fx_base x', s1)
                           | Some ts => let x := wm_ts_close sid {| wm_tx_base := wm_fx_base x'; wm_tx_tk := wm_sg_tk_anno s1; wm_tx_ts := ts |} in
                                        (wm_tx_base x, wm_sg_set_anno s1 (wm_tx_tk x) None) end) = (wm_fx_base x', s2) /\
                          wm_sig_id s2 = sid /\ wm_sg_utc s2 = wm_sg_utc s /\ wm_sg_fsr s2 = None /\
                          (match wm_sg_anno s2 with None => True | Some ts => wm_ts_levels ts = repeat None 16 end)).
  { rewrite Ean. destruct (wm_sg_anno s) as [ts|] eqn:Ea.
    - rewrite rp_ts_close_idle by exact Ia. cbn [wm_tx_base wm_tx_tk]. eexists. split; [reflexivity|]. split; [exact Eid1|]. repeat split.
    - exists s1. split; [reflexivity|]. split; [exact Eid1|]. split; [reflexivity|]. split; [reflexivity|]. rewrite Ean. exact I. }
  cbv zeta in E2. destruct E2 as (s2 & -> & Eid2 & Eut2 & Efs2 & Ia2).
  assert (E3 : exists s3, (match wm_sg_utc s2 with
                           | None => (wm_fx_base x', s2)
                           | Some ts => let x := wm_ts_close sid {| wm_tx_base := wm_fx_base x'; wm_tx_tk := wm_sg_tk_utc s2; wm_tx_ts := ts |} in
                                        (wm_tx_base x, wm_sg_set_utc s2 (wm_tx_tk x) None) end) = (wm_fx_base x', s3) /\
                          wm_sig_id s3 = sid /\ rp_idle s3).
  { rewrite Eut2. destruct (wm_sg_utc s) as [ts|] eqn:Eu.
    - rewrite rp_ts_close_idle by exact Iu. cbn [wm_tx_base wm_tx_tk]. eexists. split; [reflexivity|]. split; [exact Eid2|].
      unfold rp_idle. cbn [wm_sg_set_utc wm_sg_fsr wm_sg_anno wm_sg_utc]. rewrite Efs2. split; [exact I|]. split; [exact Ia2|exact I].
    - exists s2. split; [reflexivity|]. split; [exact Eid2|]. unfold rp_idle. rewrite Efs2, Eut2. split; [exact I|]. split; [exact Ia2|exact I]. }
  cbv zeta in E3. destruct E3 as (s3 & -> & Eid3 & Hi3).
  exists s3. split; [reflexivity|]. split; assumption.
Qed.

Lemma rp_close_none : forall st id, wm_find_sig st id = None -> wm_close_signal summ1 summN st id = st.
Proof. intros st id H. unfold wm_close_signal. rewrite H. reflexivity. Qed.

Lemma rp_close_done : forall T0 BLKS stf st id, rp_done T0 BLKS stf st -> rp_done T0 BLKS stf (wm_close_signal summ1 summN st id).
Proof.
  intros T0 BLKS stf st id (Hb & Hidle & cs & HF & Hfil).
  destruct (wm_find_sig st id) as [s|] eqn:Ef.
  - destruct (rp_find_id st id s Ef) as (Eid & Hin). rewrite Forall_forall in Hidle.
    destruct (rp_close_signal_idle st id s Ef (Hidle s Hin)) as (s3 & -> & Eid3 & Hi3).
    split; [exact Hb|]. split; [|exists cs; split; assumption].
    unfold wm_put_sig. cbn [wm_st_sigs]. apply Forall_forall. intros y Hy. apply in_map_iff in Hy. destruct Hy as (y0 & <- & Hy0).
    destruct (wm_sig_id y0 =? wm_sig_id s3); [exact Hi3|apply Hidle; exact Hy0].
  - rewrite (rp_close_none st id Ef). split; [exact Hb|]. split; [exact Hidle|exists cs; split; assumption].
Qed.

Lemma rp_close_other : forall T0 BLKS stf st id, rp_G1c T0 BLKS stf st -> id <> sid -> rp_G1c T0 BLKS stf (wm_close_signal summ1 summN st id).
Proof.
  intros T0 BLKS stf st id (Hoth & s & f & Hfind & Hdef & Hfsr & Hits & HF) Hne.
  destruct (wm_find_sig st id) as [s'|] eqn:Ef.
  - destruct (rp_find_id st id s' Ef) as (Eid & Hin). rewrite Forall_forall in Hoth.
    destruct (Hoth s' Hin) as [E|Hi]; [congruence|].
    destruct (rp_close_signal_idle st id s' Ef Hi) as (s3 & -> & Eid3 & Hi3).
    split.
    + unfold wm_put_sig. cbn [wm_st_sigs]. apply Forall_forall. intros y Hy. apply in_map_iff in Hy. destruct Hy as (y0 & <- & Hy0).
      destruct (wm_sig_id y0 =? wm_sig_id s3); [right; exact Hi3|apply Hoth; exact Hy0].
    + exists s, f. split; [rewrite rp_find_put_other by congruence; exact Hfind|]. split; [exact Hdef|]. split; [exact Hfsr|]. split; [exact Hits|exact HF].
  - rewrite (rp_close_none st id Ef). split; [exact Hoth|]. exists s, f. split; [exact Hfind|]. split; [exact Hdef|]. split; [exact Hfsr|]. split; [exact Hits|exact HF].
Qed.

Lemma rp_close_target : forall T0 BLKS stf st, rp_G1c T0 BLKS stf st -> rp_done T0 BLKS stf (wm_close_signal summ1 summN st sid).
Proof.
  intros T0 BLKS stf st (Hoth & s & f & Hfind & Hdef & Hfsr & Hits & HF).
  destruct (rp_close_target_eq st s f _ Hfind Hfsr Hdef Hits eq_refl) as (s3 & Est & Eid3 & Hi3).
  rewrite Est. clear Est.
  pose proof (rp_FInv_close summ1 summN d pos0 Hpos0 Hsid Hg_idx Hg_sum Hspd Hw Hg_data Hfill T0 BLKS stf (rp_fx st s f) HF) as P.
  revert P. generalize (wm_fsr_close summ1 summN d (rp_fx st s f)). intros X P. cbv zeta in P.
  destruct P as (cs & new & HF2 & Hfil & _ & Hbok & _).
  split; [exact Hbok|]. split.
  - unfold wm_put_sig. cbn [wm_st_sigs]. apply Forall_forall. intros y Hy. apply in_map_iff in Hy. destruct Hy as (y0 & <- & Hy0).
    rewrite Forall_forall in Hoth. destruct (N.eqb_spec (wm_sig_id y0) (wm_sig_id s3)) as [E|E]; [exact Hi3|].
    destruct (Hoth y0 Hy0) as [E'|Hi]; [rewrite Eid3 in E; contradiction|exact Hi].
  - exists cs. split; [exact HF2|]. exact Hfil.
Qed.

(* the loop of jls_wr_close over the signal ids *)
Lemma rp_close_fold : forall T0 BLKS stf l st,
  (rp_G1c T0 BLKS stf st \/ rp_done T0 BLKS stf st) ->
  let st' := fold_left (wm_close_signal summ1 summN) l st in
  (rp_G1c T0 BLKS stf st' \/ rp_done T0 BLKS stf st') /\ (In sid l -> rp_done T0 BLKS stf st').
Proof.
  intros T0 BLKS stf l. induction l as [|id l IH]; intros st H st'; [split; [exact H|intros []]|].
  subst st'. cbn [fold_left].
  assert (H1 : rp_G1c T0 BLKS stf (wm_close_signal summ1 summN st id) \/ rp_done T0 BLKS stf (wm_close_signal summ1 summN st id)).
  { destruct H as [HG|HD]; [|right; apply rp_close_done; exact HD].
    destruct (N.eq_dec id sid) as [->|Hne]; [right; apply rp_close_target; exact HG|left; apply rp_close_other; assumption]. }
  destruct (IH _ H1) as (A & B). split; [exact A|].
  intros [E|Hin]; [|apply B; exact Hin]. subst id.
  assert (Hd : rp_done T0 BLKS stf (wm_close_signal summ1 summN st sid)).
  { destruct H as [HG|HD]; [apply rp_close_target; exact HG|apply rp_close_done; exact HD]. }
  clear - Hd. revert Hd. generalize (wm_close_signal summ1 summN st sid). induction l as [|i l IHl]; intros s0 Hd; [exact Hd|].
  cbn [fold_left]. apply IHl. apply rp_close_done. exact Hd.
Qed.


(* the END chunk and the final file header *)
Lemma rp_finish : forall b, rf_bok b ->
  let b1 := wm_core_wr_end b in
  let r2 := wm_raw_close (wm_b_raw b1) in
  wm_fault r2 = false /\
  exists c, rp_out (rf_scan (wm_rlog r2)) = c :: rp_bout b /\ rc_tag c = JLS_TAG_END.
Proof.
  intros b (Hr & _) b1 r2. subst b1 r2. unfold wm_core_wr_end.
  pose proof (rf_raw_wr_chunk (wm_b_raw b) (wm_mk_hdr 0 JLS_TAG_END 0 0) [] Hr ltac:(discriminate) ltac:(reflexivity) ltac:(reflexivity) ltac:(reflexivity) ltac:(reflexivity)) as X.
  cbv zeta in X. destruct (wm_raw_wr (wm_b_raw b) (wm_mk_hdr 0 JLS_TAG_END 0 0) []) as [r1 h1]. cbn [fst snd] in X.
  destruct X as (Hr1 & Hfe1 & Hout1 & _).
  cbn [wm_b_raw wm_b_set_raw].
  destruct Hr1 as ((Ho1 & Hf1 & Hflt1) & H321 & Hend1 & Hpend1 & _).
  unfold wm_raw_close, wm_wr_file_header.
  set (hb := wm_file_header_bytes (wm_fend r1)).
  assert (Hlog : forall r', wm_rlog r' = WmWrite 0 hb :: wm_rlog r1 -> rp_out (rf_scan (wm_rlog r')) = rp_out (rf_scan (wm_rlog r1))).
  { intros r' E. rewrite E, rf_scan_cons. rewrite rf_step_skip; [reflexivity|exact Hpend1|left; rewrite Hend1; lia]. }
  destruct (N.eqb_spec (wm_fpos r1) 0) as [E0|_]; [lia|].
  split; [exact Hflt1|].
  exists {| rc_off := wm_fend (wm_b_raw b); rc_tag := JLS_TAG_END; rc_meta := 0; rc_pay := [] |}. split; [|reflexivity].
  match goal with |- rp_out (rf_scan (wm_rlog ?r)) = _ => rewrite (Hlog r) by reflexivity end. exact Hout1.
Qed.

(* ---- the whole program ---- *)
Lemma rp_steps_fold : forall p st acc,
  fst (wm_steps summ1 summN st p acc) = fold_left (fun st o => fst (wm_step_rc summ1 summN st o)) p st.
Proof.
  induction p as [|o p IH]; intros st acc; [reflexivity|]. cbn [wm_steps fold_left].
  destruct (wm_step_rc summ1 summN st o) as [st1 rc] eqn:E. cbn [fst]. apply IH.
Qed.

Lemma rp_G0_steps : forall p st, rp_G0 st -> Forall (rp_ok sid) p ->
  Forall (fun o => match o with WSig d' => sg_id d' <> sid | _ => True end) p ->
  rp_G0 (fold_left (fun st o => fst (wm_step_rc summ1 summN st o)) p st).
Proof.
  induction p as [|o p IH]; intros st HG Hok Hns; [exact HG|]. cbn [fold_left].
  inversion Hok; subst. inversion Hns; subst. apply IH; [apply rp_G0_step; assumption|assumption|assumption].
Qed.

Lemma rp_G1_steps : forall p T0 BLKS stf st, rp_G1 T0 BLKS stf st (rp_proj sid p) -> Forall (rp_ok sid) p ->
  rp_G1 T0 BLKS stf (fold_left (fun st o => fst (wm_step_rc summ1 summN st o)) p st) [].
Proof.
  induction p as [|o p IH]; intros T0 BLKS stf st HG Hok; [exact HG|]. cbn [fold_left].
  inversion Hok; subst. apply IH; [apply rp_G1_step; assumption|assumption].
Qed.

Lemma rp_G0_open : sid <> 0 -> rp_G0 wm_api_open.
Proof.
  intro Hne. split; [apply rf_bokb_ok; vm_compute; reflexivity|].
  split. { unfold wm_find_sig.
           assert (E : map wm_sig_id (wm_st_sigs wm_api_open) = [0]) by (vm_compute; reflexivity).
           destruct (wm_st_sigs wm_api_open) as [|s0 [|s1 l]]; try discriminate E. cbn [map] in E. injection E as E.
           cbn [find]. rewrite E. destruct (N.eqb_spec 0 sid); [congruence|reflexivity]. }
  split.
  { unfold rp_others. assert (E : forallb (fun s => match wm_sg_fsr s with None => true | Some _ => false end
                                                   && match wm_sg_anno s with None => true | Some ts => forallb (fun o => match o with None => true | Some _ => false end) (wm_ts_levels ts) && Nat.eqb (length (wm_ts_levels ts)) 16 end
                                                   && match wm_sg_utc s with None => true | Some _ => false end
                                                   && negb (sg_type (wm_sg_def s) =? JLS_SIGNAL_TYPE_FSR)) (wm_st_sigs wm_api_open) = true) by (vm_compute; reflexivity).
    rewrite forallb_forall in E. apply Forall_forall. intros s Hs. specialize (E s Hs). right.
    apply andb_true_iff in E as [E E4]. apply andb_true_iff in E as [E E3]. apply andb_true_iff in E as [E1 E2].
    split.
    - unfold rp_idle. destruct (wm_sg_fsr s); [discriminate E1|]. destruct (wm_sg_utc s); [discriminate E3|].
      split; [exact I|]. split; [|exact I]. destruct (wm_sg_anno s) as [ts|]; [|exact I].
      apply andb_true_iff in E2 as [Ea Eb]. apply Nat.eqb_eq in Eb. rewrite forallb_forall in Ea.
      clear - Ea Eb. revert Eb Ea. generalize (wm_ts_levels ts). intros l Hl Hn.
      do 16 (destruct l as [|? l]; [discriminate Hl|]). destruct l; [|discriminate Hl].
      repeat match goal with o : option wm_ts_level |- _ => let H := fresh in assert (H : o = None) by (destruct o; [specialize (Hn (Some w) ltac:(cbn; tauto)); discriminate Hn|reflexivity]); subst o end.
      reflexivity.
    - intro Ht. rewrite Ht in E4. discriminate E4. }
  assert (E : forallb rp_plain (rp_bout (wm_st_base wm_api_open)) = true) by (vm_compute; reflexivity).
  rewrite forallb_forall in E. apply Forall_forall. exact E.
Qed.

End RPG.

Lemma rp_filter_rev : forall (A : Type) (f : A -> bool) l, filter f (rev l) = rev (filter f l).
Proof.
  intros A f l. induction l as [|x l IH]; [reflexivity|]. cbn [rev filter]. rewrite filter_app, IH. cbn [filter].
  destruct (f x); [reflexivity|apply app_nil_r].
Qed.

(* ------------------------------------------------------------------ the program-level theorem (partial class) *)
Lemma rp_in_signal_ids : forall sid, sid < 256 -> In sid wm_signal_ids.
Proof.
  intros sid H. unfold wm_signal_ids. apply in_map_iff. exists (N.to_nat sid). split; [apply N2Nat.id|].
  apply in_seq. change (N.to_nat JLS_SIGNAL_COUNT) with 256%nat. lia.
Qed.

Lemma rp_prog_core : forall summ1 summN d0 d pos0 p2 stf st1,
  (0 < pos0)%Z -> sg_id d < 256 -> sg_type d = JLS_SIGNAL_TYPE_FSR -> 0 < sg_spd d ->
  (dt_bits (sg_dtype d) < 8 \/ dt_bits (sg_dtype d) mod 8 = 0) ->
  0 < wm_fill_buf_samples (sg_dtype d) ->
  32 * sg_eps d + 16 < 4294967296 -> 8 * sg_sumdf d + 16 < 4294967296 ->
  16 + (sg_spd d * dt_bits (sg_dtype d) + 7) / 8 < 4294967296 ->
  rp_G0 d st1 -> Forall (rp_ok (sg_id d)) p2 ->
  snd (wm_api_signal_def st1 d0) = 0 -> wm_sig_align d0 = Some d ->
  py_srun (rf_pd d) (dt_bits (sg_dtype d) <=? 8) (rf_t0 (rp_proj (sg_id d) p2)) pos0 (rf_script d rf_bs0 (rp_proj (sg_id d) p2)) = PyOk stf ->
  forall stF, stF = wm_api_close summ1 summN (fold_left (fun st o => fst (wm_step_rc summ1 summN st o)) p2 (fst (wm_api_signal_def st1 d0))) ->
  wm_st_fault stF = false /\
  exists cs, filter (rf_mine d) (rf_chunks (wm_st_log stF)) = cs /\
    Forall2 (rf_chunk_rel d pos0 (rf_t0 (rp_proj (sg_id d) p2)) (map rc_off cs) (rf_blocks d rf_bs0 (rp_proj (sg_id d) p2))) cs (pw_disk stf).
Proof.
  intros summ1 summN d0 d pos0 p2 stf st1 Hpos0 Hsid Hty Hspd Hw Hfill Hg1 Hg2 Hg3 HG0 Hok2 Hrc Hal Hpy stF EF.
  assert (Hg_idx := rf_guard_idx d ltac:(lia) Hg2).
  assert (Hg_sum : (32 * py_eps (rf_pd d) + 16 < 4294967296)%Z) by (unfold rf_pd; cbn [py_eps]; lia).
  unfold py_srun, py_run in Hpy. destruct (py_div_ok (rf_pd d)); [|discriminate]. unfold py_bind in Hpy.
  destruct (py_do_all (rf_pd d) (py_plan (dt_bits (sg_dtype d) <=? 8) (py_sdf (rf_pd d)) 0 (rf_script d rf_bs0 (rp_proj (sg_id d) p2))) (py_init (rf_t0 (rp_proj (sg_id d) p2)) pos0)) as [stm|e] eqn:Edo; [|discriminate].
  pose proof (rp_G0_define d pos0 Hty st1 d0 _ stm stf HG0 Hrc Hal Edo Hpy) as HG1.
  pose proof (rp_G1_steps summ1 summN d pos0 Hpos0 Hsid Hty Hg_idx Hg_sum Hspd Hw Hg3 Hfill p2 _ _ _ _ HG1 Hok2) as HG1e.
  pose proof (rp_G1_G1c d pos0 _ _ _ _ HG1e) as HGc.
  destruct (rp_close_fold summ1 summN d pos0 Hpos0 Hsid Hg_idx Hg_sum Hspd Hw Hg3 Hfill _ _ _ wm_signal_ids _ (or_introl HGc)) as (_ & Hd).
  specialize (Hd (rp_in_signal_ids _ Hsid)). destruct Hd as (Hb & _ & cs & HF & Hfil).
  destruct (rp_finish summ1 d Hsid Hty Hspd Hw Hg3 Hfill _ Hb) as (Hflt & c & Hout & Htag).
  revert Hflt Hout Hfil. rewrite EF. unfold wm_api_close.
  generalize (fold_left (wm_close_signal summ1 summN) wm_signal_ids (fold_left (fun st o => fst (wm_step_rc summ1 summN st o)) p2 (fst (wm_api_signal_def st1 d0)))).
  intros stc Hflt Hout Hfil.
  unfold wm_st_fault, wm_st_log. cbn [wm_st_set_base wm_st_base wm_b_set_raw wm_b_raw].
  split; [exact Hflt|].
  exists cs. split; [|exact HF].
  unfold rf_chunks. rewrite rp_filter_rev, Hout. cbn [filter].
  assert (Hc : rf_mine d c = false) by (unfold rf_mine; rewrite Htag; reflexivity).
  rewrite Hc, Hfil. apply rev_involutive.
Qed.

Lemma rp_run_full_eq : forall summ1 summN p1 o p2,
  fst (wm_run_full summ1 summN (p1 ++ o :: p2)) =
  wm_api_close summ1 summN (fold_left (fun st o => fst (wm_step_rc summ1 summN st o)) p2
    (fst (wm_step_rc summ1 summN (fst (wm_steps summ1 summN wm_api_open p1 [])) o))).
Proof.
  intros summ1 summN p1 o p2. unfold wm_run_full.
  pose proof (rp_steps_fold summ1 summN (p1 ++ o :: p2) wm_api_open []) as E.
  destruct (wm_steps summ1 summN wm_api_open (p1 ++ o :: p2) []) as [stx rcs]. cbn [fst] in *. rewrite E.
  rewrite fold_left_app. cbn [fold_left]. rewrite rp_steps_fold. reflexivity.
Qed.

Theorem rp_prog_fsr_partial : forall summ1 summN d0 d pos0 p1 p2 stf,
  (0 < pos0)%Z -> sg_id d < 256 -> sg_id d <> 0 -> sg_type d = JLS_SIGNAL_TYPE_FSR -> 0 < sg_spd d ->
  (dt_bits (sg_dtype d) < 8 \/ dt_bits (sg_dtype d) mod 8 = 0) ->
  0 < wm_fill_buf_samples (sg_dtype d) ->
  32 * sg_eps d + 16 < 4294967296 -> 8 * sg_sumdf d + 16 < 4294967296 ->
  16 + (sg_spd d * dt_bits (sg_dtype d) + 7) / 8 < 4294967296 ->
  let sid := sg_id d in
  let p := p1 ++ WSig d0 :: p2 in
  Forall (rp_ok sid) p ->
  Forall (fun o => match o with WSig d' => sg_id d' <> sid | _ => True end) p1 ->
  let st1 := fst (wm_steps summ1 summN wm_api_open p1 []) in
  snd (wm_api_signal_def st1 d0) = 0 -> wm_sig_align d0 = Some d ->
  let ops := rp_proj sid p2 in
  py_srun (rf_pd d) (dt_bits (sg_dtype d) <=? 8) (rf_t0 ops) pos0 (rf_script d rf_bs0 ops) = PyOk stf ->
  let stF := fst (wm_run_full summ1 summN p) in
  wm_st_fault stF = false /\
  exists cs, filter (rf_mine d) (rf_chunks (wm_st_log stF)) = cs /\
    Forall2 (rf_chunk_rel d pos0 (rf_t0 ops) (map rc_off cs) (rf_blocks d rf_bs0 ops)) cs (pw_disk stf).
Proof.
  intros summ1 summN d0 d pos0 p1 p2 stf Hpos0 Hsid Hne Hty Hspd Hw Hfill Hg1 Hg2 Hg3.
  cbv zeta. intros Hok Hns Hrc Hal Hpy.
  apply Forall_app in Hok. destruct Hok as (Hok1 & Hok2). inversion Hok2 as [|? ? Hokd Hok2']; subst.
  pose proof (rp_G0_steps summ1 summN d p1 wm_api_open (rp_G0_open d Hne) Hok1 Hns) as HG0.
  rewrite <- (rp_steps_fold summ1 summN p1 wm_api_open []) in HG0.
  apply (rp_prog_core summ1 summN d0 d pos0 p2 stf _ Hpos0 Hsid Hty Hspd Hw Hfill Hg1 Hg2 Hg3 HG0 Hok2' Hrc Hal Hpy).
  apply rp_run_full_eq.
Qed.

(* ------------------------------------------------------------------ the hypotheses are satisfiable *)
Definition rpx_src : srcdef :=
  {| so_id := 3; so_name := SBytes [97; 98]; so_vendor := SNull; so_model := SBytes []; so_version := SNull; so_serial := SNull |}.
Definition rpx_sig : sigdef :=
  {| sg_id := 5; sg_src := 3; sg_type := JLS_SIGNAL_TYPE_FSR; sg_dtype := JLS_DATATYPE_U8; sg_rate := 1000; sg_spd := 32; sg_sdf := 32;
     sg_eps := 10; sg_sumdf := 10; sg_adf := 10; sg_udf := 10; sg_name := SBytes [120]; sg_units := SNull |}.
Definition rpx_vsr : sigdef :=
  {| sg_id := 7; sg_src := 3; sg_type := JLS_SIGNAL_TYPE_VSR; sg_dtype := JLS_DATATYPE_U8; sg_rate := 0; sg_spd := 0; sg_sdf := 0;
     sg_eps := 0; sg_sumdf := 0; sg_adf := 0; sg_udf := 0; sg_name := SBytes [121]; sg_units := SNull |}.
Definition rpx_ud : udata := {| ud_meta := 9; ud_stype := 1; ud_data := [1; 2; 3] |}.
Definition rpx_d : sigdef := match wm_sig_align rpx_sig with Some d => d | None => rpx_sig end.
Definition rpx_p1 : list wop := [WUd rpx_ud; WSrc rpx_src; WSig rpx_vsr; WFsr 5 0%Z [1; 2]].
Definition rpx_p2 : list wop :=
  [WFsr 5 100%Z (map N.of_nat (seq 0 70)); WUd rpx_ud; WOmit 5 1; WOmit 7 1; WFlush; WSig rpx_sig;
   WFsr 5 175%Z (repeat 7 400); WSrc rpx_src].

Lemma rp_prog_example :
  (0 < 1)%Z /\ sg_id rpx_d < 256 /\ sg_id rpx_d <> 0 /\ sg_type rpx_d = JLS_SIGNAL_TYPE_FSR /\ 0 < sg_spd rpx_d /\
  (dt_bits (sg_dtype rpx_d) < 8 \/ dt_bits (sg_dtype rpx_d) mod 8 = 0) /\
  0 < wm_fill_buf_samples (sg_dtype rpx_d) /\ 32 * sg_eps rpx_d + 16 < 4294967296 /\ 8 * sg_sumdf rpx_d + 16 < 4294967296 /\
  16 + (sg_spd rpx_d * dt_bits (sg_dtype rpx_d) + 7) / 8 < 4294967296 /\
  Forall (rp_ok (sg_id rpx_d)) (rpx_p1 ++ WSig rpx_sig :: rpx_p2) /\
  Forall (fun o => match o with WSig d' => sg_id d' <> sg_id rpx_d | _ => True end) rpx_p1 /\
  snd (wm_api_signal_def (fst (wm_steps wm_zero_summ1 wm_zero_summN wm_api_open rpx_p1 [])) rpx_sig) = 0 /\
  wm_sig_align rpx_sig = Some rpx_d /\
  exists stf, py_srun (rf_pd rpx_d) (dt_bits (sg_dtype rpx_d) <=? 8) (rf_t0 (rp_proj (sg_id rpx_d) rpx_p2)) 1
                (rf_script rpx_d rf_bs0 (rp_proj (sg_id rpx_d) rpx_p2)) = PyOk stf /\
    length (pw_disk stf) = 10%nat /\
    snd (wm_run_full wm_zero_summ1 wm_zero_summN (rpx_p1 ++ WSig rpx_sig :: rpx_p2)) = [0; 0; 0; 16; 0; 0; 0; 0; 3; 0; 17; 0; 17] /\
    map (fun c => (rc_tag c, fm_meta_level (rc_meta c)))
        (filter (rf_mine rpx_d) (rf_chunks (wm_st_log (fst (wm_run_full wm_zero_summ1 wm_zero_summN (rpx_p1 ++ WSig rpx_sig :: rpx_p2)))))) =
    [(34, 0); (34, 0); (34, 0); (35, 1); (36, 1); (34, 0); (35, 1); (36, 1); (35, 2); (36, 2)] /\
    length (rf_chunks (wm_st_log (fst (wm_run_full wm_zero_summ1 wm_zero_summN (rpx_p1 ++ WSig rpx_sig :: rpx_p2))))) = 33%nat.
Proof.
  split; [reflexivity|]. split; [vm_compute; reflexivity|]. split; [vm_compute; discriminate|]. split; [vm_compute; reflexivity|].
  split; [vm_compute; reflexivity|]. split; [right; vm_compute; reflexivity|].
  split; [vm_compute; reflexivity|]. split; [vm_compute; reflexivity|]. split; [vm_compute; reflexivity|]. split; [vm_compute; reflexivity|].
  split. { repeat constructor. }
  split. { repeat constructor. vm_compute. discriminate. }
  split; [vm_compute; reflexivity|]. split; [vm_compute; reflexivity|].
  eexists. split; [vm_compute; reflexivity|]. split; [vm_compute; reflexivity|]. split; [vm_compute; reflexivity|].
  split; vm_compute; reflexivity.
Qed.

(* the vocabulary of the program-level theorem, for Properties_refine.v *)
Lemma rp_vocab_prog :
  (forall sid o, rp_ok sid o =
     match o with
     | WFsr s _ _ => s = sid
     | WAnno _ _ => False
     | WUtc _ _ _ => False
     | WUd u => N.of_nat (length (ud_data u)) + 1 < 4294967296
     | _ => True
     end) /\
  (forall sid, rp_proj sid [] = []) /\
  (forall sid o r, rp_proj sid (o :: r) =
     match o with
     | WFsr s sample_id samples => if s =? sid then RfData sample_id samples :: rp_proj sid r else rp_proj sid r
     | WOmit s en => if s =? sid then RfOmit en :: rp_proj sid r else rp_proj sid r
     | _ => rp_proj sid r
     end).
Proof. split; [reflexivity|]. split; [reflexivity|]. intros sid o r. destruct o; reflexivity. Qed.
