(* Equivalence of the GENERATED payload_size_on_disk of /repo/src/raw.c (GenRaw.v, written by
   tools/c2gallina.py from the current source) and the hand-written framing arithmetic of Format.v
   (fm_pad_len, fm_disk_len, fm_chunk_size).  The C computes in uint32_t: the result is
   fm_disk_len modulo 2^32, and exactly fm_disk_len whenever that fits (payload + 11 < 2^32). *)
From Coq Require Import NArith ZArith List Bool Lia.
From Coq Require Import ZifyBool ZifyN ZifyNat.
From JLS Require Import Generated GenLib GenRaw Format.
Local Open Scope N_scope.
Ltac Zify.zify_post_hook ::= Z.div_mod_to_equations.

Lemma land7 : forall x, N.land x 7 = x mod 8.
Proof. intros x. change 7 with (N.ones 3). now rewrite N.land_ones. Qed.

Theorem gen_payload_size_on_disk_eq : forall pl, pl < 4294967296 ->
  payload_size_on_disk pl = Ok (u32 (fm_disk_len pl)).
Proof.
  intros pl Hpl. unfold payload_size_on_disk, fm_disk_len, fm_pad_len.
  change RAW_HEADER_ALIGN with 8. change RAW_CRC_SIZE with 4.
  rewrite negb_involutive. destruct (pl =? 0) eqn:E0; [reflexivity|].
  change (sint 32 (8 - 1)) with (Ok (A := Z) 7%Z). cbn [bind]. change (cast_u 32 7) with 7. cbv zeta.
  rewrite land7.
  set (pad := u8 (u32 (pl + 4) mod 8)).
  assert (Hpad : pad = (pl + 4) mod 8) by (unfold pad, u8, u32; lia).
  assert (Hlt : pad < 8) by lia.
  destruct (Z.of_N pad =? 0)%Z eqn:E1; cbn [negb bind].
  - f_equal. unfold u32. lia.
  - assert (S1 : sint 32 (8 - Z.of_N pad) = Ok (8 - Z.of_N pad)%Z).
    { unfold sint, in_sint. change (2 ^ (32 - 1))%Z with 2147483648%Z.
      destruct ((- (2147483648) <=? 8 - Z.of_N pad) && (8 - Z.of_N pad <? 2147483648))%Z eqn:E2; [reflexivity | lia]. }
    rewrite S1. cbn [bind].
    assert (C : cast_u 8 (8 - Z.of_N pad) = 8 - pad).
    { unfold cast_u. change (2 ^ 8)%Z with 256%Z. lia. }
    rewrite C. f_equal. unfold u32. lia.
Qed.

Corollary gen_payload_size_on_disk_exact : forall pl, pl + 11 < 4294967296 ->
  payload_size_on_disk pl = Ok (fm_disk_len pl) /\
  (pl <> 0 -> Ok (SIZEOF_chunk_header + fm_disk_len pl) = Ok (A := N) (fm_chunk_size pl)).
Proof.
  intros pl H. rewrite gen_payload_size_on_disk_eq by lia. split; [|reflexivity].
  f_equal. unfold u32, fm_disk_len, fm_pad_len. change RAW_HEADER_ALIGN with 8. change RAW_CRC_SIZE with 4.
  destruct (pl =? 0); lia.
Qed.
