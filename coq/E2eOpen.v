(* END TO END, layer 3 (what is proved of it): the state jls_rd_open hands out (ReaderModel.rdm_open) satisfies the reader
   invariant e2_P of E2eFsr2 / E2eTop as soon as its tables for the signal are those of the writer (e2_R0: the stored
   definition, the FSR head offsets = the image of the abstract head table, sample_id_offset = the first sample id,
   the file is open).  The level-1 cache is empty, every signal length unknown.
   NOT proved here: that the scans of jls_rd_open (scan_initial, scan_sources, scan_signals following item_next,
   scan_fsr_sample_id) on the writer model's file produce these tables for EVERY program of the class; no theorem of the
   development gives the item_next chains of the writer model.  The tables are checked by computation for the example
   of Properties_e2e.v. *)
From Coq Require Import NArith ZArith List Bool Lia Arith.
From Coq Require Import ZifyBool ZifyN ZifyNat.
From JLS Require Import Generated CrcDefs Spec Format WmRaw WmCore WmFsr RepairRaw RepairModel ReaderModel ReaderProofs ReaderProofs2
  PyramidModel RefinePyr E2eLog E2eRead E2eFsr E2eFsr2.
Import ListNotations.
Local Open Scope N_scope.
Ltac Zify.zify_post_hook ::= Z.div_mod_to_equations.

Lemma e2o_nth_repeat : forall (A : Type) (x dflt : A) n k, (k < n)%nat -> nth k (repeat x n) dflt = x.
Proof. intros A x dflt n. induction n as [|n IH]; intros k Hk; [lia|]. destruct k as [|k]; cbn; [reflexivity|apply IH; lia]. Qed.

Theorem e2o_opened_P : forall f d disk heads psi T0 total st,
  rdm_open f = RdmOpened st -> e2_R0 f d heads psi T0 st -> psi 0%Z = 0 -> sg_id d < 256 ->
  e2_P f d disk heads psi T0 total st.
Proof.
  intros f d disk heads psi T0 total st Hopen R Hpsi0 Hsid.
  destruct (rdm_open_opened f st Hopen) as (c & c1 & _ & _ & Est). subst st.
  exists py_cache0. split; [exact R|]. split; [|split].
  - constructor.
    + reflexivity.
    + cbn. symmetry. exact Hpsi0.
    + left. reflexivity.
    + intros (_ & Hnz). exfalso. apply Hnz. reflexivity.
  - exists py_cache0, []. split; [right; reflexivity|reflexivity].
  - split.
    + cbn. rewrite repeat_length. reflexivity.
    + left. unfold rdm_get_len. cbn [rdm_st0 rdm_len]. apply e2o_nth_repeat. change (N.to_nat JLS_SIGNAL_COUNT) with 256%nat. lia.
Qed.
