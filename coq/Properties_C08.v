(* C08: the message ring buffer (/repo/src/msg_ring_buffer.c, model MrbModel.v) is a faithful
   bounded FIFO that never leaves its buffer.  All theorems are for ALL capacities up to 2^31
   bytes, all sizes, all states satisfying the invariant MInv / all operation sequences from
   jls_mrb_init.  Proofs are in MrbProofs.v.

   The function as it is in /repo (`alloc`) is wrong for message sizes in
   (capacity-8, capacity]: the C08_refuted_* theorems are concrete runs of the faithful
   model, C08_guard_tight shows that EVERY size of that class misbehaves (capacities 16..64),
   and the refinement theorems hold for `alloc` exactly under the guard that excludes the
   class (`usable (size s) sz`, i.e. sz + 8 <= capacity; in programs `op_guard`).
   `alloc_fixed` (first test of jls_mrb_alloc replaced by
   `(buf_size < 8) || (size > buf_size - 8)`) satisfies them without any guard. *)
From Coq Require Import NArith List.
From JLS Require Import MrbModel MrbProofs.
Import ListNotations.
Local Open Scope N_scope.

(* ---------- alloc refines "append to the FIFO" ---------- *)
Theorem C08_alloc_refines :
  forall (s : mrb) (sz : N) (s' : mrb) (p : N) (d : list N),
  MInv s -> usable (size s) sz -> alloc s sz = Ok (s', Some p) -> len d = sz ->
  MInv s' /\ size s' = size s /\
  (exists s'', fill s' p d = Ok s'' /\ MInv s'' /\ size s'' = size s /\ mrb_abs s'' = mrb_abs s ++ [d]) /\
  4 <= p /\ p + sz <= size s /\ disjoint_from_live s p sz.
Proof. exact alloc_refines_guarded. Qed.
Print Assumptions C08_alloc_refines.

Theorem C08_alloc_fixed_refines :
  forall (s : mrb) (sz : N) (s' : mrb) (p : N) (d : list N),
  MInv s -> alloc_fixed s sz = Ok (s', Some p) -> len d = sz ->
  MInv s' /\ size s' = size s /\
  (exists s'', fill s' p d = Ok s'' /\ MInv s'' /\ size s'' = size s /\ mrb_abs s'' = mrb_abs s ++ [d]) /\
  4 <= p /\ p + sz <= size s /\ disjoint_from_live s p sz.
Proof. exact alloc_fixed_refines. Qed.
Print Assumptions C08_alloc_fixed_refines.

(* a wrapped queue of capacity 48 with three messages: both functions place a 1-byte message
   at offset 10 and refuse a 3-byte message although 3 + 8 <= 48 *)
Example C08_alloc_refines_ex :
  exists s, MInv s /\ size s = 48 /\ head s = 6 /\ tail s = 14 /\
  mrb_abs s = [repeat 2 10; repeat 3 10; repeat 4 2] /\
  (exists s', alloc s 1 = Ok (s', Some 10)) /\ (exists s', alloc_fixed s 1 = Ok (s', Some 10)) /\
  alloc s 3 = Ok (s, None) /\ alloc_fixed s 3 = Ok (s, None) /\ usable (size s) 3.
Proof. exact ex_state. Qed.
Print Assumptions C08_alloc_refines_ex.

(* ---------- alloc fails only when the message does not fit (MrbModel.fits) ---------- *)
Theorem C08_alloc_fail_sound :
  forall (s : mrb) (sz : N) (s' : mrb),
  MInv s -> alloc s sz = Ok (s', None) -> s' = s /\ ~ fits s sz.
Proof. exact alloc_fail_sound. Qed.
Print Assumptions C08_alloc_fail_sound.

Theorem C08_alloc_fixed_fail_sound :
  forall (s : mrb) (sz : N) (s' : mrb),
  MInv s -> alloc_fixed s sz = Ok (s', None) -> s' = s /\ ~ fits s sz.
Proof. exact alloc_fixed_fail_sound. Qed.
Print Assumptions C08_alloc_fixed_fail_sound.

(* the same in terms of the free runs: a usable size is refused only if the queue is not empty
   and no free run can take the 4-byte prefix, the message and 6 bytes of slack *)
Theorem C08_alloc_fail_no_room :
  forall (s : mrb) (sz : N) (s' : mrb),
  MInv s -> usable (size s) sz ->
  (alloc s sz = Ok (s', None) \/ alloc_fixed s sz = Ok (s', None)) ->
  mrb_abs s <> [] /\ Forall (fun run => run < 4 + sz + 6) (free_runs s).
Proof. exact alloc_fail_no_room. Qed.
Print Assumptions C08_alloc_fail_no_room.

(* ---------- once emptied, every usable size can be allocated ---------- *)
Theorem C08_empty_then_any :
  forall (s : mrb) (sz : N),
  MInv s -> mrb_abs s = [] -> usable (size s) sz ->
  (exists s' p, alloc s sz = Ok (s', Some p)) /\ (exists s' p, alloc_fixed s sz = Ok (s', Some p)).
Proof. exact empty_then_any. Qed.
Print Assumptions C08_empty_then_any.

Example C08_empty_then_any_ex :
  exists s, MInv s /\ mrb_abs s = [] /\ head s = 42 /\ usable (size s) 40.
Proof. exact ex_empty. Qed.
Print Assumptions C08_empty_then_any_ex.

(* ---------- peek / pop return the head of the FIFO with its size and bytes ---------- *)
Theorem C08_peek_refines :
  forall s : mrb, MInv s ->
  match mrb_abs s with
  | [] => peek s = Ok (s, None)
  | m :: _ => exists s' p, peek s = Ok (s', Some (p, len m)) /\ read_msg s' p (len m) = Ok m /\
                           MInv s' /\ size s' = size s /\ mrb_abs s' = mrb_abs s
  end.
Proof. exact peek_refines. Qed.
Print Assumptions C08_peek_refines.

Theorem C08_pop_refines :
  forall s : mrb, MInv s ->
  match mrb_abs s with
  | [] => pop s = Ok (s, None)
  | m :: q => exists s' p, pop s = Ok (s', Some (p, len m)) /\ read_msg s' p (len m) = Ok m /\
                           MInv s' /\ size s' = size s /\ mrb_abs s' = q
  end.
Proof. exact pop_refines. Qed.
Print Assumptions C08_pop_refines.

(* ---------- every operation sequence from jls_mrb_init: no fault, invariant, FIFO outputs ---------- *)
Theorem C08_reachable_inv :
  forall (B : N) (ops : list op), B <= 2147483648 -> Forall (op_guard B) ops ->
  exists s outs, run alloc (init B) ops = Ok (s, outs) /\ MInv s /\ size s = B /\
                 fifo [] ops outs = Some (mrb_abs s).
Proof. exact reachable_inv_guarded. Qed.
Print Assumptions C08_reachable_inv.

Theorem C08_reachable_inv_fixed :
  forall (B : N) (ops : list op), B <= 2147483648 ->
  exists s outs, run alloc_fixed (init B) ops = Ok (s, outs) /\ MInv s /\ size s = B /\
                 fifo [] ops outs = Some (mrb_abs s).
Proof. exact reachable_inv_fixed. Qed.
Print Assumptions C08_reachable_inv_fixed.

Example C08_reachable_inv_ex :
  Forall (op_guard 48) [OAlloc (repeat 1 40); OPop; OAlloc (repeat 2 49); OAlloc (repeat 3 17); OPeek].
Proof. exact ex_guard. Qed.
Print Assumptions C08_reachable_inv_ex.

(* ---------- the abstraction is determined by the invariant; the driver's block copy is fill ---------- *)
Theorem C08_extents_unique :
  forall (s : mrb) (es : list (N * N)), Rep s es -> extents s = es.
Proof. exact Rep_extents. Qed.
Print Assumptions C08_extents_unique.

Theorem C08_fill_fast_eq :
  forall (s : mrb) (p : N) (d : list N), len (buf s) = size s -> fill_fast s p d = fill s p d.
Proof. exact fill_fast_eq. Qed.
Print Assumptions C08_fill_fast_eq.

(* ---------- the function as it is in /repo, outside the guard ---------- *)
(* capacity 100, alloc 98 on the empty queue: the region handed out is [4,102) *)
Theorem C08_refuted_oob :
  MInv (init 100) /\
  (exists s', alloc (init 100) 98 = Ok (s', Some 4) /\ ~ (4 + 98 <= size s')) /\
  run alloc (init 100) [OAlloc (repeat 7 98)] = Fault (OOB_write 100).
Proof. exact refuted_oob. Qed.
Print Assumptions C08_refuted_oob.

(* capacity 100, alloc 96: head = tail = 0 afterwards, the accepted message is never delivered *)
Theorem C08_refuted_lost :
  exists s, run alloc (init 100) [OAlloc (repeat 7 96); OPop] = Ok (s, [RAlloc (Some 4); RMsg None]) /\
            head s = 0 /\ tail s = 0 /\ count s = 1 /\
            fifo [] [OAlloc (repeat 7 96); OPop] [RAlloc (Some 4); RMsg None] = None.
Proof. exact refuted_lost. Qed.
Print Assumptions C08_refuted_lost.

(* capacity 100, alloc 94; pop; alloc 10: the wrap marker is written at 98..101 *)
Theorem C08_refuted_marker :
  (exists s, run alloc (init 100) [OAlloc (repeat 7 94); OPop]
             = Ok (s, [RAlloc (Some 4); RMsg (Some (4, repeat 7 94))]) /\
             head s = 98 /\ tail s = 98) /\
  run alloc (init 100) [OAlloc (repeat 7 94); OPop; OAlloc (repeat 1 10)] = Fault (OOB_write 100).
Proof. exact refuted_marker. Qed.
Print Assumptions C08_refuted_marker.

(* an in-bounds alloc of capacity-6 bytes breaks the invariant *)
Theorem C08_refuted_inv :
  MInv (init 100) /\
  exists s', alloc (init 100) 94 = Ok (s', Some 4) /\ 4 + 94 <= size s' /\ ~ MInv s'.
Proof. exact refuted_inv. Qed.
Print Assumptions C08_refuted_inv.

(* the guard is tight: every size in (capacity-8, capacity], capacities 16..64 (vm_compute sweep) *)
Theorem C08_guard_tight :
  forall B sz : N, 16 <= B <= 64 -> B < sz + 8 -> sz <= B ->
  misbehaves alloc B sz = true /\ misbehaves alloc_fixed B sz = false.
Proof. exact guard_tight. Qed.
Print Assumptions C08_guard_tight.
