(* Private extraction file of the `summ` slice (C02 / C09 gap clause / C15 numeric part); same
   conventions as Extract.v (ExtrOcamlBasic only).  At integration add to coq/Extract.v:
     SummQ.sq_levels SummQ.sq_level1 SummQ.sq_level_next SummQ.sq_summary1 SummQ.sq_summaryN
     SummQ.sq_rd_statistics SummQ.sq_wr_blocks SummQ.sq_reconstruct
   (Qreduction.Qred is already listed) and `SummQ` to the Require line. *)
From Coq Require Import Extraction ExtrOcamlBasic NArith ZArith QArith Qreduction List.
From JLS Require Import StatsQ SummQ.
Extraction Language OCaml.
Extraction "jlsmodel_ext"
  BinInt.Z.add BinInt.Z.opp BinInt.Z.of_N BinInt.Z.to_N BinNat.N.add BinNat.N.mul BinNat.N.of_nat BinNat.N.to_nat
  Qreduction.Qred
  SummQ.sq_levels SummQ.sq_level1 SummQ.sq_level_next SummQ.sq_summary1 SummQ.sq_summaryN
  SummQ.sq_rd_statistics SummQ.sq_wr_blocks SummQ.sq_reconstruct.
