(* C14: write-once.  wo_check_log (WriteOnce.v) replays a backend write log and accepts a write
   iff it is an append continuing the chunk structure, a link rewrite of a completed chunk's
   header (only item_next and the header CRC change), a head-table update (entries 0 -> offset
   of a completed chunk) with its pad + CRC, or the file header.  Theorem: every accepted log
   has the semantic write-once property, stated on the byte contents of the file after each
   prefix of the log: for each write, the file does not shrink, every completed chunk (found
   in the bytes from offset 32 by CRC-valid headers and payload lengths: wo_completed) keeps a
   CRC-valid header with the same item_prev, tag, rsv0, chunk_meta, payload_length and
   payload_prev_length, and, unless it is a TRACK_*_HEAD chunk, every byte of its payload, pad
   and payload CRC is unchanged.  Proofs are in WriteOnceProofs.v (induction over the log).
   The extracted checker is run on the write log of every generated program (tools/props/C05_walk.py).
   Checked at run time without theorem: the monotonicity of head-table entries, the CRC of appended payloads. *)
From Coq Require Import NArith ZArith List.
From JLS Require Import Generated CrcDefs Format WriteOnce WriteOnceProofs.
Import ListNotations.
Local Open Scope N_scope.

Theorem C14_check_log_sound : forall l, wo_check_log l = true ->
  forall l1 w l2, l = l1 ++ w :: l2 ->
    let f := wo_file_after l1 in
    let f' := wo_file_after (l1 ++ [w]) in
    (length f <= length f')%nat /\
    forall o h, wo_completed f o h ->
      (exists h', fm_decode_chunk_header (skipn (N.to_nat o) f') = Some h' /\
         fm_item_prev h' = fm_item_prev h /\ fm_tag h' = fm_tag h /\ fm_rsv0 h' = fm_rsv0 h /\
         fm_chunk_meta h' = fm_chunk_meta h /\ fm_payload_length h' = fm_payload_length h /\
         fm_payload_prev_length h' = fm_payload_prev_length h) /\
      (fm_is_head_tag (fm_tag h) = false ->
         forall i, o + 32 <= i -> i < o + fm_chunk_size (fm_payload_length h) -> nth (N.to_nat i) f' 0 = nth (N.to_nat i) f 0).
Proof. exact wo_check_log_sound_explicit. Qed.
Print Assumptions C14_check_log_sound.

(* the variant that tolerates a change of payload_prev_length in a header rewrite (known defect class of C05) *)
Theorem C14_check_log_lenient_sound : forall l, wo_check_log_lenient l = true ->
  forall l1 w l2, l = l1 ++ w :: l2 ->
    let f := wo_file_after l1 in
    let f' := wo_file_after (l1 ++ [w]) in
    (length f <= length f')%nat /\
    forall o h, wo_completed f o h ->
      (exists h', fm_decode_chunk_header (skipn (N.to_nat o) f') = Some h' /\
         fm_item_prev h' = fm_item_prev h /\ fm_tag h' = fm_tag h /\ fm_rsv0 h' = fm_rsv0 h /\
         fm_chunk_meta h' = fm_chunk_meta h /\ fm_payload_length h' = fm_payload_length h) /\
      (fm_is_head_tag (fm_tag h) = false ->
         forall i, o + 32 <= i -> i < o + fm_chunk_size (fm_payload_length h) -> nth (N.to_nat i) f' 0 = nth (N.to_nat i) f 0).
Proof. exact wo_check_log_lenient_sound_explicit. Qed.
Print Assumptions C14_check_log_lenient_sound.

(* after an accepted log the checker's extents are exactly the chain of chunks of the file (wo_inv: lengths agree,
   the tracked (offset, header) pairs form the chain wo_chunks of the file's bytes up to wo_end) *)
Theorem C14_tracked_chunks_genuine : forall lenient l s', wo_run lenient wo_st0 0 l = inl s' -> wo_inv s' (wo_file_after l).
Proof. exact wo_run_tracks_chunks. Qed.
Print Assumptions C14_tracked_chunks_genuine.

(* examples: a log that passes (open, three chunks, a head-table update, a link, close) ... *)
Example C14_example_pass : wo_check_log (wo_ex_prefix ++ wo_ex_rest) = true.
Proof. exact wo_example_pass. Qed.
Print Assumptions C14_example_pass.

Example C14_example_nonvacuous :
  exists h, wo_completed (wo_file_after (wo_ex_prefix ++ wo_ex_rest)) 232 h /\ fm_tag h = JLS_TAG_TRACK_FSR_DATA.
Proof. exact wo_example_nonvacuous. Qed.
Print Assumptions C14_example_nonvacuous.

(* ... and three that fail: a stored payload byte rewritten; a header rewrite changing the tag; a head entry changed from non-zero *)
Example C14_example_fail_payload :
  wo_run false wo_st0 0 (wo_ex_prefix ++ [WoWrite 281 [9]]) = inr (9, WoR_rewrite_elsewhere).
Proof. exact wo_example_fail_payload. Qed.
Print Assumptions C14_example_fail_payload.

Example C14_example_fail_tag :
  wo_run false wo_st0 0 (wo_ex_prefix ++ [WoWrite 32 (fm_encode_chunk_header (wo_ex_hdr 288 0 JLS_TAG_SOURCE_DEF 0 0 0))])
  = inr (9, WoR_hdr_rewrite_changes 2 JLS_TAG_USER_DATA).
Proof. exact wo_example_fail_tag. Qed.
Print Assumptions C14_example_fail_tag.

Example C14_example_fail_head_entry :
  wo_run false wo_st0 0 (wo_ex_prefix ++ [WoWrite 96 (wo_ex_table 232); WoWrite 224 (wo_ex_footer (wo_ex_table 232)); WoWrite 96 (wo_ex_table 64)])
  = inr (11, WoR_tbl_entry 0).
Proof. exact wo_example_fail_head_entry. Qed.
Print Assumptions C14_example_fail_head_entry.
