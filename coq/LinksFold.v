(* THE SIGNAL TABLE jls_core_scan_signals BUILDS (fold of LinksRead.lk_sigs_step over the signal list), at ONE signal id:
   chunks that do not concern the id leave its entry alone; the SIGNAL_DEF chunk of the id stores the fields of its payload;
   the TRACK_FSR_HEAD chunk of the id stores its table.  Reader side only.  Every top-level name starts with lk_. *)
From Coq Require Import NArith ZArith List Bool Lia Arith.
From Coq Require Import ZifyBool ZifyN ZifyNat.
From JLS Require Import Generated CrcDefs Spec Format FormatProofs WmRaw WmCore WmFsr WriterModel WmProofs
                        RefineLog RepairRaw RawReadProofs E2eLog E2eRead E2eCodec LinksRead.
Import ListNotations.
Local Open Scope N_scope.
Ltac Zify.zify_post_hook ::= Z.div_mod_to_equations.
Local Opaque crc32c.

(* the chunk is a SIGNAL_DEF of sid, or a TRACK_*_HEAD-kind chunk whose chunk_meta names sid *)
Definition lk_hit (sid : N) (t : lk_ck) : bool :=
  let h := lk_ck_hdr t in
  if fm_tag h =? JLS_TAG_SIGNAL_DEF then fm_chunk_meta h =? sid
  else (N.land (fm_tag h) 7 =? JLS_TRACK_CHUNK_HEAD) && (N.land (fm_chunk_meta h) CORE_SIGNAL_MASK =? sid).
(* ... and, for a HEAD-kind chunk, of track type 0 (FSR) *)
Definition lk_touch (sid : N) (t : lk_ck) : bool :=
  let h := lk_ck_hdr t in
  if fm_tag h =? JLS_TAG_SIGNAL_DEF then fm_chunk_meta h =? sid
  else (N.land (fm_tag h) 7 =? JLS_TRACK_CHUNK_HEAD) && (N.land (fm_chunk_meta h) CORE_SIGNAL_MASK =? sid) &&
       (fm_tag_track_type (fm_tag h) =? JLS_TRACK_TYPE_FSR).

Definition lk_ent (S : list rp_sig) (id : N) : rp_sig := nth (N.to_nat id) S (rp_sig0 id).

Lemma lk_step_unfold : forall S t, lk_sigs_step S t =
  let c := {| rp_io_ := lk_view t; rp_src_head := wm_chunk0; rp_sig_head := wm_chunk0; rp_ud_head := wm_chunk0; rp_sigs := S |} in
  if fm_tag (lk_ck_hdr t) =? JLS_TAG_SIGNAL_DEF then rp_sigs (rp_handle_signal_def c)
  else if N.land (fm_tag (lk_ck_hdr t)) 7 =? JLS_TRACK_CHUNK_DEF then S
  else if N.land (fm_tag (lk_ck_hdr t)) 7 =? JLS_TRACK_CHUNK_HEAD then rp_sigs (rp_handle_track_head c) else S.
Proof.
  intros S t. unfold lk_sigs_step, lk_sig_handle. cbn [rp_io_ lk_view rp_cur wm_ck_hdr].
  destruct (fm_tag (lk_ck_hdr t) =? JLS_TAG_SIGNAL_DEF); [reflexivity|].
  destruct (N.land (fm_tag (lk_ck_hdr t)) 7 =? JLS_TRACK_CHUNK_DEF); [reflexivity|].
  destruct (N.land (fm_tag (lk_ck_hdr t)) 7 =? JLS_TRACK_CHUNK_HEAD); reflexivity.
Qed.

Lemma lk_step_length : forall S t, length (lk_sigs_step S t) = length S.
Proof.
  intros S t. rewrite lk_step_unfold. cbv zeta.
  destruct (fm_tag (lk_ck_hdr t) =? JLS_TAG_SIGNAL_DEF).
  - unfold rp_handle_signal_def. cbn [rp_io_]. destruct (JLS_SIGNAL_COUNT <=? _); [reflexivity|].
    unfold rp_put_sig. cbn [rp_sigs rp_rd_set_sigs]. apply rf_upd_length.
  - destruct (N.land (fm_tag (lk_ck_hdr t)) 7 =? JLS_TRACK_CHUNK_DEF); [reflexivity|].
    destruct (N.land (fm_tag (lk_ck_hdr t)) 7 =? JLS_TRACK_CHUNK_HEAD); [|reflexivity].
    unfold rp_handle_track_head. cbn [rp_io_]. destruct (negb _); [reflexivity|]. destruct (negb _); [reflexivity|].
    destruct (rp_sg_track _ _) as [hp tk]. unfold rp_put_sig. cbn [rp_sigs rp_rd_set_sigs]. apply rf_upd_length.
Qed.

Lemma lk_ent_upd_neq : forall S id id' g, id' <> id -> lk_ent (wm_upd (N.to_nat id') g S) id = lk_ent S id.
Proof. intros S id id' g H. unfold lk_ent. apply rf_nth_upd_neq. lia. Qed.
Lemma lk_ent_upd_eq : forall S id g, (N.to_nat id < length S)%nat -> lk_ent (wm_upd (N.to_nat id) g S) id = g.
Proof. intros S id g H. unfold lk_ent. apply rf_nth_upd_eq. exact H. Qed.

(* a chunk that does not name sid *)
Lemma lk_step_nohit : forall sid S t, lk_hit sid t = false -> lk_ent (lk_sigs_step S t) sid = lk_ent S sid.
Proof.
  intros sid S t Hh. rewrite lk_step_unfold. cbv zeta. unfold lk_hit in Hh. cbv zeta in Hh.
  destruct (fm_tag (lk_ck_hdr t) =? JLS_TAG_SIGNAL_DEF).
  - unfold rp_handle_signal_def. cbn [rp_io_ lk_view rp_cur wm_ck_hdr]. destruct (JLS_SIGNAL_COUNT <=? _); [reflexivity|].
    unfold rp_put_sig. cbn [rp_sigs rp_rd_set_sigs]. apply lk_ent_upd_neq. apply N.eqb_neq. exact Hh.
  - destruct (N.land (fm_tag (lk_ck_hdr t)) 7 =? JLS_TRACK_CHUNK_DEF); [reflexivity|].
    destruct (N.land (fm_tag (lk_ck_hdr t)) 7 =? JLS_TRACK_CHUNK_HEAD); [|reflexivity]. cbn [andb] in Hh.
    unfold rp_handle_track_head. cbn [rp_io_ lk_view rp_cur wm_ck_hdr]. destruct (negb _); [reflexivity|]. destruct (negb _); [reflexivity|].
    destruct (rp_sg_track _ _) as [hp tk]. unfold rp_put_sig. cbn [rp_sigs rp_rd_set_sigs]. apply lk_ent_upd_neq. apply N.eqb_neq. exact Hh.
Qed.

(* what the FSR read path looks at in an entry *)
Definition lk_Q (g : rp_sig) (sigid off : N) (d : sigdef) (z : Z) (e : bool * wm_track) : Prop :=
  rp_sg_sigid g = sigid /\ rp_sg_def_off g = off /\ rp_sg_d g = d /\ rp_sg_sid0 g = z /\
  nth 0 (rp_sg_tk g) (false, wm_track0 0) = e /\ length (rp_sg_tk g) = 4%nat.

(* a chunk that names sid but is neither its SIGNAL_DEF nor a HEAD-kind chunk of track type 0 *)
Lemma lk_step_keep : forall sid S t sigid off d z e, lk_touch sid t = false -> (N.to_nat sid < length S)%nat ->
  lk_Q (lk_ent S sid) sigid off d z e -> lk_Q (lk_ent (lk_sigs_step S t) sid) sigid off d z e.
Proof.
  intros sid S t sigid off d z e Ht Hlen HQ.
  destruct (lk_hit sid t) eqn:Hh; [|rewrite (lk_step_nohit sid S t Hh); exact HQ].
  rewrite lk_step_unfold. cbv zeta. unfold lk_hit in Hh. unfold lk_touch in Ht. cbv zeta in Hh, Ht.
  destruct (fm_tag (lk_ck_hdr t) =? JLS_TAG_SIGNAL_DEF); [congruence|].
  destruct (N.land (fm_tag (lk_ck_hdr t)) 7 =? JLS_TRACK_CHUNK_DEF) eqn:E0; [exact HQ|].
  destruct (N.land (fm_tag (lk_ck_hdr t)) 7 =? JLS_TRACK_CHUNK_HEAD); [|discriminate Hh]. cbn [andb] in Hh, Ht. rewrite Hh in Ht. cbn [andb] in Ht.
  apply N.eqb_eq in Hh. apply N.eqb_neq in Ht.
  unfold rp_handle_track_head. cbn [rp_io_ lk_view rp_cur wm_ck_hdr]. rewrite Hh.
  destruct (negb _); [exact HQ|]. destruct (negb _); [exact HQ|].
  destruct (rp_sg_track _ _) as [hp tk]. unfold rp_put_sig, rp_get_sig. cbn [rp_sigs rp_rd_set_sigs].
  rewrite lk_ent_upd_eq by exact Hlen. fold (lk_ent S sid).
  destruct HQ as (Q1 & Q2 & Q3 & Q4 & Q5 & Q6). unfold lk_Q, rp_sg_set_tk. cbn [rp_sg_sigid rp_sg_def_off rp_sg_d rp_sg_sid0 rp_sg_tk].
  repeat (split; [assumption|]). split.
  - rewrite rf_nth_upd_neq; [exact Q5|]. unfold JLS_TRACK_TYPE_FSR in Ht. lia.
  - rewrite rf_upd_length. exact Q6.
Qed.

(* ================================================================ strings *)
Lemma lk_rd_str_go : forall s n r, Forall (fun b => b =? 0 = false) s ->
  rp_rd_str_go (s ++ fm_str_term ++ r) n = (Some r, n + rf_len s).
Proof.
  induction s as [|b s IH]; intros n r H.
  - cbn. f_equal. unfold rf_len. cbn. lia.
  - inversion H as [|? ? Hb Hs]; subst. cbn [app rp_rd_str_go]. rewrite Hb. rewrite (IH (n + 1) r Hs).
    f_equal. unfold rf_len. cbn [length]. lia.
Qed.
Lemma lk_rd_str_enc : forall s r, Forall (fun b => b =? 0 = false) s -> rf_len s + 1 <= JLS_BUF_STRING_SIZE - 1 ->
  rp_rd_str (fm_encode_str s ++ r) = (0, r).
Proof.
  intros s r Hz Hl. unfold rp_rd_str, fm_encode_str. rewrite <- app_assoc, (lk_rd_str_go s 0 r Hz).
  destruct (N.ltb_spec (JLS_BUF_STRING_SIZE - 1) (0 + rf_len s + 1)); [lia|reflexivity].
Qed.
Lemma lk_cstr_nz : forall l, Forall (fun b => b =? 0 = false) (wm_cstr l).
Proof. induction l as [|b l IH]; cbn [wm_cstr]; [constructor|]. destruct (b =? 0) eqn:E; [constructor|constructor; assumption]. Qed.
Lemma lk_fits_len : forall s, wm_str_fits s = true -> rf_len (wm_strv s) + 1 <= JLS_BUF_STRING_SIZE - 1.
Proof.
  intros [|l] H; unfold wm_strv; cbn [str_read]; [cbn; unfold JLS_BUF_STRING_SIZE; lia|].
  unfold wm_str_fits in H. apply N.leb_le in H. exact H.
Qed.

(* ================================================================ the SIGNAL_DEF chunk of sid *)
Definition lk_rd_def (id : N) (d : sigdef) : sigdef :=
  {| sg_id := id; sg_src := sg_src d; sg_type := sg_type d; sg_dtype := sg_dtype d; sg_rate := sg_rate d;
     sg_spd := sg_spd d; sg_sdf := sg_sdf d; sg_eps := sg_eps d; sg_sumdf := sg_sumdf d; sg_adf := sg_adf d; sg_udf := sg_udf d;
     sg_name := SNull; sg_units := SNull |}.

Lemma lk_skip_app : forall (a b : list N) n, rp_len a = n -> rp_skip n (a ++ b) = b.
Proof. intros a b n H. rewrite rr_skip_eq. subst n. unfold rp_len. rewrite Nat2N.id. apply skipn_app_exact. reflexivity. Qed.

Lemma lk_signal_payload_strs : forall d, wm_str_fits (sg_name d) = true -> wm_str_fits (sg_units d) = true ->
  fst (rp_rd_strs 2 (rp_skip (fm_signal_fixed + fm_signal_reserved) (wm_signal_payload d))) = 0.
Proof.
  intros d F1 F2. unfold wm_signal_payload.
  replace (fm_enc_u16 (sg_src d) ++ fm_enc_u8 (sg_type d) ++ fm_enc_u8 0 ++ fm_enc_u32 (sg_dtype d) ++ fm_enc_u32 (sg_rate d)
           ++ fm_enc_u32 (sg_spd d) ++ fm_enc_u32 (sg_sdf d) ++ fm_enc_u32 (sg_eps d) ++ fm_enc_u32 (sg_sumdf d)
           ++ fm_enc_u32 (sg_adf d) ++ fm_enc_u32 (sg_udf d) ++ repeat 0 (N.to_nat fm_signal_reserved)
           ++ fm_encode_str (wm_strv (sg_name d)) ++ fm_encode_str (wm_strv (sg_units d)))
    with ((fm_enc_u16 (sg_src d) ++ fm_enc_u8 (sg_type d) ++ fm_enc_u8 0 ++ fm_enc_u32 (sg_dtype d) ++ fm_enc_u32 (sg_rate d)
           ++ fm_enc_u32 (sg_spd d) ++ fm_enc_u32 (sg_sdf d) ++ fm_enc_u32 (sg_eps d) ++ fm_enc_u32 (sg_sumdf d)
           ++ fm_enc_u32 (sg_adf d) ++ fm_enc_u32 (sg_udf d) ++ repeat 0 (N.to_nat fm_signal_reserved))
          ++ fm_encode_str (wm_strv (sg_name d)) ++ fm_encode_str (wm_strv (sg_units d)))
    by (rewrite <- !app_assoc; reflexivity).
  rewrite lk_skip_app.
  - cbn [rp_rd_strs]. unfold wm_strv at 1. rewrite lk_rd_str_enc; [|apply lk_cstr_nz|apply (lk_fits_len _ F1)]. cbn [N.eqb].
    rewrite <- (app_nil_r (fm_encode_str (wm_strv (sg_units d)))). unfold wm_strv. rewrite lk_rd_str_enc; [reflexivity|apply lk_cstr_nz|apply (lk_fits_len _ F2)].
  - unfold rp_len, fm_enc_u16, fm_enc_u8, fm_enc_u32. rewrite !app_length, !fm_enc_length, repeat_length. reflexivity.
Qed.

Lemma lk_step_def : forall sid S t d,
  fm_tag (lk_ck_hdr t) = JLS_TAG_SIGNAL_DEF -> fm_chunk_meta (lk_ck_hdr t) = sid -> sid < 256 -> (N.to_nat sid < length S)%nat ->
  lk_ent S sid = rp_sig0 sid -> lk_ck_pay t = wm_signal_payload d ->
  sg_src d < 256 -> (sg_type d = JLS_SIGNAL_TYPE_FSR \/ sg_type d = JLS_SIGNAL_TYPE_VSR) -> wm_dt_valid (sg_dtype d) = true ->
  sg_dtype d < 4294967296 -> sg_rate d < 4294967296 -> sg_spd d < 4294967296 -> sg_sdf d < 4294967296 -> sg_eps d < 4294967296 ->
  sg_sumdf d < 4294967296 -> sg_adf d < 4294967296 -> sg_udf d < 4294967296 ->
  wm_str_fits (sg_name d) = true -> wm_str_fits (sg_units d) = true ->
  lk_Q (lk_ent (lk_sigs_step S t) sid) sid (lk_ck_off t) (lk_rd_def sid d) 0%Z (false, wm_track0 0).
Proof.
  intros sid S t d Htag Hmeta Hsid Hlen Hent Hpay Hsrc Hty Hdt B1 B2 B3 B4 B5 B6 B7 B8 F1 F2.
  rewrite lk_step_unfold. cbv zeta. rewrite Htag. change (JLS_TAG_SIGNAL_DEF =? JLS_TAG_SIGNAL_DEF) with true. cbv iota.
  unfold rp_handle_signal_def. cbn [rp_io_]. rewrite lk_view_payload.
  change (rp_cur (lk_view t)) with {| wm_ck_offset := lk_ck_off t; wm_ck_hdr := lk_ck_hdr t |}.
  change (rp_buf_len (lk_view t)) with (rf_len (lk_ck_pay t)). cbn [wm_ck_hdr wm_ck_offset]. rewrite Hmeta.
  destruct (N.leb_spec JLS_SIGNAL_COUNT sid) as [E|_]; [unfold JLS_SIGNAL_COUNT in E; lia|].
  unfold rp_put_sig, rp_get_sig. cbn [rp_sigs rp_rd_set_sigs]. rewrite lk_ent_upd_eq by exact Hlen.
  fold (lk_ent S sid). rewrite Hent, Hpay.
  assert (T16 : sg_type d < 256) by (destruct Hty as [-> | ->]; reflexivity).
  pose proof (fun old => E2eCodec.e2c_signal_fields d old ltac:(lia) T16 B1 B2 B3 B4 B5 B6 B7 B8) as HF. cbv zeta in HF.
  destruct (HF 0) as (Hl & G1 & G2 & G3 & G4 & G5 & G6 & G7 & G8 & G9 & G10).
  cbn [rp_sig0 rp_sg_d rp_sigdef0 rp_sg_sigid rp_sg_sid0 rp_sg_tk rp_sg_fsr rp_sg_def_off
       sg_src sg_type sg_dtype sg_rate sg_spd sg_sdf sg_eps sg_sumdf sg_adf sg_udf].
  change (rf_len (wm_signal_payload d)) with (rp_len (wm_signal_payload d)).
  rewrite G1, G2, G3, G4, G5, G6, G7, G8, G9, G10.
  rewrite (proj2 (N.leb_le _ _) Hl), (lk_signal_payload_strs d F1 F2), (proj2 (N.ltb_lt (sg_src d) JLS_SOURCE_COUNT) Hsrc), Hdt.
  assert (Hty' : (sg_type d =? JLS_SIGNAL_TYPE_FSR) || (sg_type d =? JLS_SIGNAL_TYPE_VSR) = true)
    by (destruct Hty as [-> | ->]; reflexivity).
  rewrite Hty'. cbn [N.eqb andb]. change (0 <? JLS_SIGNAL_COUNT) with true. cbn [andb].
  unfold lk_Q, lk_rd_def. cbn [rp_sg_sigid rp_sg_def_off rp_sg_d rp_sg_sid0 rp_sg_tk rp_tracks0 nth length].
  repeat split.
Qed.

(* ================================================================ the TRACK_FSR_HEAD chunk of sid *)
Definition lk_head_entry (t : lk_ck) (old : wm_track) : bool * wm_track :=
  (true, {| wm_tk_type := JLS_TRACK_TYPE_FSR; wm_tk_head := {| wm_ck_offset := lk_ck_off t; wm_ck_hdr := lk_ck_hdr t |};
            wm_tk_offsets := rp_dec_u64s wm_level_count (lk_ck_pay t);
            wm_tk_data_head := wm_tk_data_head old; wm_tk_index_head := wm_tk_index_head old;
            wm_tk_summary_head := wm_tk_summary_head old |}).

Lemma lk_step_head : forall sid S t off d z e,
  fm_tag (lk_ck_hdr t) = JLS_TAG_TRACK_FSR_HEAD -> N.land (fm_chunk_meta (lk_ck_hdr t)) CORE_SIGNAL_MASK = sid -> sid < 256 ->
  (N.to_nat sid < length S)%nat -> rf_len (lk_ck_pay t) = SIZEOF_track_head ->
  lk_Q (lk_ent S sid) sid off d z e -> off <> 0 -> sg_type d = JLS_SIGNAL_TYPE_FSR ->
  lk_Q (lk_ent (lk_sigs_step S t) sid) sid off d z (lk_head_entry t (snd e)).
Proof.
  intros sid S t off d z e Htag Hm Hsid Hlen Hpl (Q1 & Q2 & Q3 & Q4 & Q5 & Q6) Hoff Hty.
  rewrite lk_step_unfold. cbv zeta. rewrite Htag.
  change (JLS_TAG_TRACK_FSR_HEAD =? JLS_TAG_SIGNAL_DEF) with false.
  change (N.land JLS_TAG_TRACK_FSR_HEAD 7 =? JLS_TRACK_CHUNK_DEF) with false.
  change (N.land JLS_TAG_TRACK_FSR_HEAD 7 =? JLS_TRACK_CHUNK_HEAD) with true. cbv iota.
  unfold rp_handle_track_head. cbn [rp_io_]. rewrite lk_view_payload.
  change (rp_cur (lk_view t)) with {| wm_ck_offset := lk_ck_off t; wm_ck_hdr := lk_ck_hdr t |}.
  change (rp_buf_len (lk_view t)) with (rf_len (lk_ck_pay t)). cbn [wm_ck_hdr wm_ck_offset]. rewrite Htag, Hm, Hpl.
  unfold rp_validate_track_tag, rp_signal_validate, rp_get_sig. cbn [rp_sigs]. fold (lk_ent S sid).
  destruct (N.leb_spec JLS_SIGNAL_COUNT sid) as [E|_]; [unfold JLS_SIGNAL_COUNT in E; lia|].
  rewrite Q1, N.eqb_refl, Q2. cbn [negb]. destruct (N.eqb_spec off 0) as [E|_]; [contradiction|]. cbn [N.eqb negb].
  rewrite Q3, Hty. change (fm_tag_track_type JLS_TAG_TRACK_FSR_HEAD) with 0.
  change (JLS_SIGNAL_TYPE_FSR =? JLS_SIGNAL_TYPE_FSR) with true. cbv iota.
  change ((0 =? JLS_TRACK_TYPE_FSR) || (0 =? JLS_TRACK_TYPE_ANNOTATION) || (0 =? JLS_TRACK_TYPE_UTC)) with true. cbv iota.
  cbn [N.eqb negb]. change (SIZEOF_track_head =? SIZEOF_track_head) with true. cbn [negb].
  unfold rp_sg_track. change (N.to_nat 0) with 0%nat. rewrite Q5. destruct e as [hp tk0]. cbn [snd].
  unfold rp_put_sig. cbn [rp_sigs rp_rd_set_sigs]. rewrite lk_ent_upd_eq by exact Hlen.
  unfold lk_Q, rp_sg_set_tk. cbn [rp_sg_sigid rp_sg_def_off rp_sg_d rp_sg_sid0 rp_sg_tk].
  repeat (split; [assumption|]). split.
  - rewrite rf_nth_upd_eq by (rewrite Q6; lia). reflexivity.
  - rewrite rf_upd_length. exact Q6.
Qed.

(* ================================================================ the fold over a signal list of the shape A ++ def :: B ++ head :: C *)
Lemma lk_fold_length : forall l S, length (fold_left lk_sigs_step l S) = length S.
Proof. induction l as [|t l IH]; intro S; cbn [fold_left]; [reflexivity|]. rewrite IH. apply lk_step_length. Qed.

Lemma lk_fold_nohit : forall sid l S, Forall (fun t => lk_hit sid t = false) l ->
  lk_ent (fold_left lk_sigs_step l S) sid = lk_ent S sid.
Proof.
  intros sid l. induction l as [|t l IH]; intros S H; cbn [fold_left]; [reflexivity|].
  inversion H as [|? ? H1 H2]; subst. rewrite (IH _ H2). apply lk_step_nohit. exact H1.
Qed.

Lemma lk_fold_keep : forall sid l S sigid off d z e, Forall (fun t => lk_touch sid t = false) l -> (N.to_nat sid < length S)%nat ->
  lk_Q (lk_ent S sid) sigid off d z e -> lk_Q (lk_ent (fold_left lk_sigs_step l S) sid) sigid off d z e.
Proof.
  intros sid l. induction l as [|t l IH]; intros S sigid off d z e H Hlen HQ; cbn [fold_left]; [exact HQ|].
  inversion H as [|? ? H1 H2]; subst. apply (IH _ _ _ _ _ _ H2); [rewrite lk_step_length; exact Hlen|].
  apply lk_step_keep; assumption.
Qed.

Theorem lk_fold_pattern : forall sid d A tdef B thead C,
  sid < 256 ->
  Forall (fun t => lk_hit sid t = false) A -> Forall (fun t => lk_hit sid t = false) B -> Forall (fun t => lk_touch sid t = false) C ->
  fm_tag (lk_ck_hdr tdef) = JLS_TAG_SIGNAL_DEF -> fm_chunk_meta (lk_ck_hdr tdef) = sid -> lk_ck_pay tdef = wm_signal_payload d ->
  lk_ck_off tdef <> 0 ->
  fm_tag (lk_ck_hdr thead) = JLS_TAG_TRACK_FSR_HEAD -> N.land (fm_chunk_meta (lk_ck_hdr thead)) CORE_SIGNAL_MASK = sid ->
  rf_len (lk_ck_pay thead) = SIZEOF_track_head ->
  sg_src d < 256 -> sg_type d = JLS_SIGNAL_TYPE_FSR -> wm_dt_valid (sg_dtype d) = true ->
  sg_dtype d < 4294967296 -> sg_rate d < 4294967296 -> sg_spd d < 4294967296 -> sg_sdf d < 4294967296 -> sg_eps d < 4294967296 ->
  sg_sumdf d < 4294967296 -> sg_adf d < 4294967296 -> sg_udf d < 4294967296 ->
  wm_str_fits (sg_name d) = true -> wm_str_fits (sg_units d) = true ->
  lk_Q (lk_ent (fold_left lk_sigs_step (A ++ tdef :: B ++ thead :: C) (map rp_sig0 rp_signal_ids)) sid)
       sid (lk_ck_off tdef) (lk_rd_def sid d) 0%Z (lk_head_entry thead (wm_track0 0)).
Proof.
  intros sid d A tdef B thead C Hsid HA HB HC Td Md Pd Od Th Mh Ph Hsrc Hty Hdt B1 B2 B3 B4 B5 B6 B7 B8 F1 F2.
  set (S0 := map rp_sig0 rp_signal_ids).
  assert (L0 : length S0 = 256%nat) by reflexivity.
  assert (E0 : lk_ent S0 sid = rp_sig0 sid).
  { unfold lk_ent, S0, rp_signal_ids, wm_signal_ids. rewrite map_map.
    rewrite (nth_indep _ (rp_sig0 sid) (rp_sig0 (N.of_nat 0))) by (rewrite map_length, seq_length; change (N.to_nat JLS_SIGNAL_COUNT) with 256%nat; lia).
    change (rp_sig0 (N.of_nat 0)) with ((fun x => rp_sig0 (N.of_nat x)) 0%nat).
    rewrite map_nth, seq_nth by (change (N.to_nat JLS_SIGNAL_COUNT) with 256%nat; lia). cbn [plus]. rewrite N2Nat.id. reflexivity. }
  rewrite fold_left_app. cbn [fold_left]. rewrite fold_left_app. cbn [fold_left].
  set (S1 := fold_left lk_sigs_step A S0).
  assert (L1 : length S1 = 256%nat) by (unfold S1; rewrite lk_fold_length; exact L0).
  assert (E1 : lk_ent S1 sid = rp_sig0 sid) by (unfold S1; rewrite lk_fold_nohit by exact HA; exact E0).
  pose proof (lk_step_def sid S1 tdef d Td Md Hsid ltac:(lia) E1 Pd Hsrc (or_introl Hty) Hdt B1 B2 B3 B4 B5 B6 B7 B8 F1 F2) as Q2.
  set (S2 := lk_sigs_step S1 tdef) in *.
  assert (L2 : length S2 = 256%nat) by (unfold S2; rewrite lk_step_length; exact L1).
  set (S3 := fold_left lk_sigs_step B S2).
  assert (L3 : length S3 = 256%nat) by (unfold S3; rewrite lk_fold_length; exact L2).
  assert (Q3 : lk_Q (lk_ent S3 sid) sid (lk_ck_off tdef) (lk_rd_def sid d) 0%Z (false, wm_track0 0))
    by (unfold S3; rewrite lk_fold_nohit by exact HB; exact Q2).
  pose proof (lk_step_head sid S3 thead _ _ _ _ Th Mh Hsid ltac:(lia) Ph Q3 Od Hty) as Q4. cbn [snd] in Q4.
  apply lk_fold_keep; [exact HC|rewrite lk_step_length; lia|exact Q4].
Qed.

(* ================================================================ the other signals: first entry of their FSR table *)
Definition lk_off0 (g : rp_sig) : N := wm_get_off (wm_tk_offsets (snd (rp_sg_track g JLS_TRACK_TYPE_FSR))) 0.
(* a HEAD-kind chunk of track type 0 that names another signal *)
Definition lk_fsrhead_other (sid : N) (t : lk_ck) : bool :=
  let h := lk_ck_hdr t in
  negb (fm_tag h =? JLS_TAG_SIGNAL_DEF) && (N.land (fm_tag h) 7 =? JLS_TRACK_CHUNK_HEAD) &&
  (fm_tag_track_type (fm_tag h) =? JLS_TRACK_TYPE_FSR) && negb (N.land (fm_chunk_meta h) CORE_SIGNAL_MASK =? sid).

Lemma lk_off0_track0 : forall g tk, rp_sg_tk g = tk -> nth 0 tk (false, wm_track0 0) = (false, wm_track0 0) -> lk_off0 g = 0.
Proof. intros g tk E H. unfold lk_off0, rp_sg_track. change (N.to_nat JLS_TRACK_TYPE_FSR) with 0%nat. rewrite E, H. reflexivity. Qed.

Lemma lk_step_off0 : forall sid S t id, id <> sid ->
  (lk_fsrhead_other sid t = true -> fm_dec_u64 (lk_ck_pay t) = 0) -> (N.to_nat id < length S)%nat ->
  lk_off0 (lk_ent S id) = 0 -> lk_off0 (lk_ent (lk_sigs_step S t) id) = 0.
Proof.
  intros sid S t id Hne Hg Hlen H0. rewrite lk_step_unfold. cbv zeta. unfold lk_fsrhead_other in Hg. cbv zeta in Hg.
  destruct (fm_tag (lk_ck_hdr t) =? JLS_TAG_SIGNAL_DEF).
  - unfold rp_handle_signal_def. cbn [rp_io_ lk_view rp_cur wm_ck_hdr]. destruct (JLS_SIGNAL_COUNT <=? _); [exact H0|].
    unfold rp_put_sig, rp_get_sig. cbn [rp_sigs rp_rd_set_sigs].
    destruct (N.eq_dec (fm_chunk_meta (lk_ck_hdr t)) id) as [E|E].
    + rewrite E, lk_ent_upd_eq by exact Hlen. fold (lk_ent S id). unfold lk_off0, rp_sg_track in *. cbn [rp_sg_tk]. exact H0.
    + rewrite lk_ent_upd_neq by exact E. exact H0.
  - destruct (N.land (fm_tag (lk_ck_hdr t)) 7 =? JLS_TRACK_CHUNK_DEF); [exact H0|].
    destruct (N.land (fm_tag (lk_ck_hdr t)) 7 =? JLS_TRACK_CHUNK_HEAD); [|exact H0]. cbn [negb andb] in Hg.
    unfold rp_handle_track_head. cbn [rp_io_]. rewrite lk_view_payload.
    change (rp_cur (lk_view t)) with {| wm_ck_offset := lk_ck_off t; wm_ck_hdr := lk_ck_hdr t |}. cbn [wm_ck_hdr wm_ck_offset].
    destruct (negb (rp_validate_track_tag _ _ _ =? 0)); [exact H0|]. destruct (negb (rp_buf_len _ =? _)); [exact H0|].
    unfold rp_get_sig. cbn [rp_sigs].
    destruct (rp_sg_track _ _) as [hp tk]. unfold rp_put_sig. cbn [rp_sigs rp_rd_set_sigs].
    destruct (N.eq_dec (N.land (fm_chunk_meta (lk_ck_hdr t)) CORE_SIGNAL_MASK) id) as [E|E]; [|rewrite lk_ent_upd_neq by exact E; exact H0].
    rewrite E, lk_ent_upd_eq by exact Hlen. fold (lk_ent S id).
    unfold lk_off0, rp_sg_track, rp_sg_set_tk in *. cbn [rp_sg_tk]. change (N.to_nat JLS_TRACK_TYPE_FSR) with 0%nat in *.
    destruct (N.eq_dec (fm_tag_track_type (fm_tag (lk_ck_hdr t))) 0) as [Et|Et].
    + rewrite Et. change (N.to_nat 0) with 0%nat.
      assert (Hd : fm_dec_u64 (lk_ck_pay t) = 0).
      { apply Hg. rewrite Et, E. cbn [N.eqb andb]. apply negb_true_iff. apply N.eqb_neq. exact Hne. }
      destruct (rp_sg_tk (lk_ent S id)) as [|x r]; cbn [wm_upd nth snd]; [reflexivity|].
      cbn [wm_tk_offsets]. unfold wm_get_off. change (N.to_nat 0) with 0%nat. change wm_level_count with 16%nat. cbn [rp_dec_u64s nth]. exact Hd.
    + rewrite rf_nth_upd_neq by lia. exact H0.
Qed.

Lemma lk_fold_off0 : forall sid l S id, id <> sid ->
  Forall (fun t => lk_fsrhead_other sid t = true -> fm_dec_u64 (lk_ck_pay t) = 0) l -> (N.to_nat id < length S)%nat ->
  lk_off0 (lk_ent S id) = 0 -> lk_off0 (lk_ent (fold_left lk_sigs_step l S) id) = 0.
Proof.
  intros sid l. induction l as [|t l IH]; intros S id Hne H Hlen H0; cbn [fold_left]; [exact H0|].
  inversion H as [|? ? H1 H2]; subst. apply IH; auto; [rewrite lk_step_length; exact Hlen|].
  apply (lk_step_off0 sid); assumption.
Qed.

(* ================================================================ jls_core_scan_fsr_sample_id *)
Definition lk_skip (g : rp_sig) (id : N) : Prop :=
  rp_sg_sigid g <> id \/ sg_type (rp_sg_d g) <> JLS_SIGNAL_TYPE_FSR \/ lk_off0 g = 0.

Lemma lk_sid_skip : forall id rest c, lk_skip (lk_ent (rp_sigs c) id) id ->
  rp_scan_sid_loop (id :: rest) c = rp_scan_sid_loop rest c.
Proof.
  intros id rest c Hs. cbn [rp_scan_sid_loop]. unfold rp_get_sig. fold (lk_ent (rp_sigs c) id).
  destruct (N.eqb_spec (rp_sg_sigid (lk_ent (rp_sigs c) id)) id) as [E1|E1]; cbn [negb orb]; [|reflexivity].
  destruct (N.eqb_spec (sg_type (rp_sg_d (lk_ent (rp_sigs c) id))) JLS_SIGNAL_TYPE_FSR) as [E2|E2]; cbn [negb]; [|reflexivity].
  destruct Hs as [H|[H|H]]; [contradiction|contradiction|].
  unfold lk_off0 in H. rewrite H. reflexivity.
Qed.

Lemma lk_set_sid0_same : forall g z, rp_sg_sid0 g = z -> rp_sg_set_sid0 g z = g.
Proof. intros [a b c d e f] z H. cbn in H. subst. reflexivity. Qed.

Lemma lk_scan_sid_loop : forall f sid g T0 ids c,
  e2_rdr (rp_io_ c) f -> length (rp_sigs c) = 256%nat -> sid < 256 ->
  (forall id, In id ids -> id <> sid -> lk_skip (lk_ent (rp_sigs c) id) id) ->
  (lk_ent (rp_sigs c) sid = g \/ lk_ent (rp_sigs c) sid = rp_sg_set_sid0 g T0) ->
  rp_sg_sigid g = sid -> sg_type (rp_sg_d g) = JLS_SIGNAL_TYPE_FSR ->
  ((lk_off0 g = 0 /\ rp_sg_sid0 g = T0) \/
   exists t, lk_ck_ok f t /\ lk_ck_off t = lk_off0 g /\ fm_tag (lk_ck_hdr t) = JLS_TAG_TRACK_FSR_DATA /\
             fm_dec_i64 (rp_take 8 (lk_ck_pay t)) = T0 /\ 8 <= rf_len (lk_ck_pay t)) ->
  exists c', rp_scan_sid_loop ids c = (c', 0) /\ e2_rdr (rp_io_ c') f /\ length (rp_sigs c') = 256%nat /\
    (forall id, id <> sid -> lk_ent (rp_sigs c') id = lk_ent (rp_sigs c) id) /\
    (lk_ent (rp_sigs c') sid = lk_ent (rp_sigs c) sid \/ lk_ent (rp_sigs c') sid = rp_sg_set_sid0 g T0) /\
    (In sid ids -> lk_ent (rp_sigs c') sid = rp_sg_set_sid0 g T0).
Proof.
  intros f sid g T0 ids. induction ids as [|id rest IH]; intros c Hr Hlen Hsid Hoth Hent Hg1 Hg2 Hcase.
  - exists c. cbn [rp_scan_sid_loop]. split; [reflexivity|]. split; [exact Hr|]. split; [exact Hlen|]. split; [auto|]. split; [left; reflexivity|]. intros [].
  - destruct (N.eq_dec id sid) as [E|E].
    + subst id. set (ge := lk_ent (rp_sigs c) sid) in *.
      assert (Hge : rp_sg_sigid ge = sid /\ sg_type (rp_sg_d ge) = JLS_SIGNAL_TYPE_FSR /\ lk_off0 ge = lk_off0 g /\
                    rp_sg_set_sid0 ge T0 = rp_sg_set_sid0 g T0).
      { destruct Hent as [-> | ->]; [auto|]. destruct g; cbn in *. auto. }
      destruct Hge as (A1 & A2 & A3 & A4).
      destruct Hcase as [(Z0 & ZT)|(t & Kt & Ot & Tt & Dt & Lt)].
      * rewrite lk_sid_skip by (right; right; fold ge; congruence).
        destruct (IH c Hr Hlen Hsid (fun id Hi => Hoth id (or_intror Hi)) Hent Hg1 Hg2 (or_introl (conj Z0 ZT)))
          as (c' & E' & R' & L' & O' & P' & _).
        exists c'. split; [exact E'|]. split; [exact R'|]. split; [exact L'|]. split; [exact O'|]. split; [exact P'|].
        intros _. rewrite (lk_set_sid0_same g T0 ZT) in *. fold ge in P'. destruct P' as [P'|P']; [|exact P']. rewrite P'. destruct Hent; assumption.
      * cbn [rp_scan_sid_loop]. unfold rp_get_sig. change (nth (N.to_nat sid) (rp_sigs c) (rp_sig0 sid)) with ge.
        rewrite A1, N.eqb_refl, A2. cbn [N.eqb negb orb].
        change (wm_get_off (wm_tk_offsets (snd (rp_sg_track ge JLS_TRACK_TYPE_FSR))) 0) with (lk_off0 ge). rewrite A3, <- Ot.
        pose proof (lk_ck_off_pos f t Kt) as Hnz. destruct (N.eqb_spec (lk_ck_off t) 0) as [Z|_]; [contradiction|].
        destruct (e2_seek (rp_io_ c) f (lk_ck_off t) Hr Hnz ltac:(apply Kt)) as (s1 & Esk & Hpos1 & _).
        rewrite Esk. cbn [N.eqb negb].
        destruct (lk_rd f t s1 Kt Hpos1) as (s2 & Erd & Hpos2 & Hcur & Hbl & Hpay & _).
        rewrite Erd. cbn [N.eqb negb]. rewrite Hcur. cbn [wm_ck_hdr]. rewrite Tt.
        change (JLS_TAG_TRACK_FSR_DATA =? JLS_TAG_TRACK_FSR_DATA) with true. cbn [negb].
        (* the first 8 bytes of the buffer *)
        assert (Hb8 : snd (rp_buf_sub s2 0 8) = rp_take 8 (lk_ck_pay t)).
        { unfold rp_buf_sub. cbn [snd]. change (rp_skip 0 (rp_buf s2)) with (rp_buf s2).
          assert (Et : rp_take 8 (rp_buf s2) = rp_take 8 (lk_ck_pay t)).
          { rewrite <- Hpay. unfold rp_payload, rp_take. rewrite firstn_firstn. f_equal. rewrite Hbl. lia. }
          rewrite Et. assert (Hl8 : length (rp_take 8 (lk_ck_pay t)) = 8%nat).
          { unfold rp_take. rewrite firstn_length. unfold rf_len in Lt. lia. }
          rewrite Hl8. change (N.to_nat 8 - 8)%nat with 0%nat. apply app_nil_r. }
        destruct (rp_buf_sub s2 0 8) as [s3 b] eqn:Eb. cbn [snd] in Hb8. subst b.
        assert (Hr3 : e2_rdr s3 f).
        { unfold rp_buf_sub in Eb. injection Eb as Es3 _. subst s3. pose proof (e2_pos_rdr _ _ _ Hpos2) as Hr2.
          destruct (JLS_BUF_DEFAULT_SIZE <? 0 + 8); [|exact Hr2]. destruct Hr2 as (R1 & R2 & R3).
          unfold e2_rdr, rp_io_fault. cbn [rp_file rp_flen rp_r]. auto. }
        rewrite Dt, A4.
        set (c2 := rp_put_sig (rp_rd_set_io c s3) sid (rp_sg_set_sid0 g T0)).
        assert (Hent2 : lk_ent (rp_sigs c2) sid = rp_sg_set_sid0 g T0).
        { unfold c2, rp_put_sig. cbn [rp_sigs rp_rd_set_sigs rp_rd_set_io]. apply lk_ent_upd_eq. lia. }
        destruct (IH c2) as (c' & E' & R' & L' & O' & P' & _).
        { exact Hr3. }
        { unfold c2, rp_put_sig. cbn [rp_sigs rp_rd_set_sigs rp_rd_set_io]. rewrite rf_upd_length. exact Hlen. }
        { exact Hsid. }
        { intros id Hi Hn. unfold c2, rp_put_sig. cbn [rp_sigs rp_rd_set_sigs rp_rd_set_io]. rewrite lk_ent_upd_neq by congruence.
          apply Hoth; [right; exact Hi|exact Hn]. }
        { right. exact Hent2. }
        { exact Hg1. } { exact Hg2. }
        { right. exists t. auto 10. }
        exists c'. split; [exact E'|]. split; [exact R'|]. split; [exact L'|]. split.
        { intros id Hn. rewrite (O' id Hn). unfold c2, rp_put_sig. cbn [rp_sigs rp_rd_set_sigs rp_rd_set_io]. apply lk_ent_upd_neq. congruence. }
        assert (Pf : lk_ent (rp_sigs c') sid = rp_sg_set_sid0 g T0) by (destruct P' as [P'|P']; [rewrite P'; exact Hent2|exact P']).
        split; [right; exact Pf|]. intros _. exact Pf.
    + rewrite lk_sid_skip by (apply Hoth; [left; reflexivity|exact E]).
      destruct (IH c Hr Hlen Hsid (fun id Hi => Hoth id (or_intror Hi)) Hent Hg1 Hg2 Hcase) as (c' & E' & R' & L' & O' & P' & I').
      exists c'. split; [exact E'|]. split; [exact R'|]. split; [exact L'|]. split; [exact O'|]. split; [exact P'|].
      intros [Hi|Hi]; [contradiction|exact (I' Hi)].
Qed.
