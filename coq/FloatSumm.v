(* C02, "up to the precision of the stored summaries": what storing a binary64 summary value in a
   binary32 field does, and the resulting distance between the level-1 mean that
   /repo/src/wr_fsr.c writes and the exact mean of the entry's samples (SummQ / Properties_C02).

     summary_entry_add:  data[MEAN] = (float) v_mean;  (entry size 32 bits: every sample type of
                         at most 32 bits)              f32_store = RN32
                         data[MEAN] = v_mean;           (64-bit sample types: stored unchanged)
     jls_core_fsr_summary1: v_mean = sum of the entry's samples (binary64, in order) / count
                                                        FloatStats.fp_mean2

   RN32 = rounding to nearest even into binary32 (24 bits, emin = -149): the value of the C cast
   (float) x for |x| <= FLT_MAX (no overflow to infinity; guard stated).
   Closed theorems; axioms = the classical real numbers of the standard library (Flocq). *)
From Coq Require Import ZArith Reals QArith Qreals List Lia Lra Psatz.
From Flocq Require Import Core Relative.
From JLS Require Import StatsQ StatsQProofs SummQ SummQProofs FloatTmap FloatStats.
Import ListNotations.
Local Open Scope R_scope.

Definition RN32 (x : R) : R := round radix2 (FLT_exp (-149) 24) ZnearestE x.
Definition u32 : R := bpow radix2 (-24).
Definition eta32 : R := bpow radix2 (-150).
(* FLT_MAX = (2^24 - 1) * 2^104 *)
Definition flt_max_R : R := IZR ((2 ^ 24 - 1) * 2 ^ 104).

Lemma u32_pos : 0 < u32. Proof. apply bpow_gt_0. Qed.
Lemma eta32_pos : 0 < eta32. Proof. apply bpow_gt_0. Qed.

(* normal range: pure relative perturbation 2^-24 *)
Theorem f32_store_rel : forall x : R, bpow radix2 (-126) <= Rabs x ->
  Rabs (RN32 x - x) <= u32 * Rabs x.
Proof.
  intros x Hx. unfold RN32.
  pose proof (relative_error_N_FLT radix2 (-149) 24 eq_refl (fun t => negb (Z.even t)) x Hx) as H.
  replace u32 with (/ 2 * bpow radix2 (-24 + 1)); [exact H|].
  unfold u32. change (-24)%Z with (-1 + (-24 + 1))%Z at 2. rewrite (bpow_plus radix2 (-1)). reflexivity.
Qed.

(* any magnitude (subnormal floats included): relative 2^-24 plus absolute 2^-150 *)
Theorem f32_store_gen : forall x : R, Rabs (RN32 x - x) <= u32 * Rabs x + eta32.
Proof.
  intros x. unfold RN32.
  destruct (error_N_FLT radix2 (-149) 24 eq_refl (fun t => negb (Z.even t)) x) as [eps [eta [H1 [H2 [_ H3]]]]].
  rewrite H3.
  replace (x * (1 + eps) + eta - x) with (x * eps + eta) by ring.
  eapply Rle_trans; [apply Rabs_triang|]. rewrite Rabs_mult.
  assert (H1' : Rabs eps <= u32).
  { replace u32 with (/ 2 * bpow radix2 (-24 + 1)); [exact H1|].
    unfold u32. change (-24)%Z with (-1 + (-24 + 1))%Z at 2. rewrite (bpow_plus radix2 (-1)). reflexivity. }
  assert (H2' : Rabs eta <= eta32).
  { replace eta32 with (/ 2 * bpow radix2 (-149)); [exact H2|].
    unfold eta32. change (-150)%Z with (-1 + -149)%Z. rewrite (bpow_plus radix2 (-1)). reflexivity. }
  pose proof (Rabs_pos x). pose proof (Rabs_pos eps). nra.
Qed.

(* no overflow: |x| <= FLT_MAX gives a finite float, |RN32 x| <= FLT_MAX *)
Theorem f32_store_no_overflow : forall x : R, Rabs x <= flt_max_R -> Rabs (RN32 x) <= flt_max_R.
Proof.
  intros x Hx. unfold RN32.
  apply abs_round_le_generic; [apply FLT_exp_valid; reflexivity|apply valid_rnd_N| |exact Hx].
  apply generic_format_FLT. exists (Float radix2 (2 ^ 24 - 1) 104).
  - unfold flt_max_R, F2R. cbn [Fnum Fexp]. rewrite mult_IZR. rewrite (bpow_IZR 104) by lia. reflexivity.
  - cbn [Fnum]. change (Z.abs (2 ^ 24 - 1) < 2 ^ 24)%Z. lia.
  - cbn [Fexp]. lia.
Qed.

(* storing preserves order: stored min <= stored mean <= stored max *)
Theorem f32_store_monotone : forall x y : R, x <= y -> RN32 x <= RN32 y.
Proof. intros x y H. unfold RN32. apply round_le; [apply FLT_exp_valid; reflexivity|apply valid_rnd_N|exact H]. Qed.

(* ---- the level-1 mean the C writes into a 32-bit summary entry ---- *)
Definition fp_summary1_mean_f32 (w : list R) : R := RN32 (fp_mean2 w).
Definition fp_summary1_mean_f64 (w : list R) : R := fp_mean2 w.

(* w = the entry's samples (doubles), |x| <= M; n = sample_decimate_factor = length w *)
Theorem fp_summary1_mean_f32_error : forall (M : R) (w : list R), bpow radix2 (-1022) <= M -> w <> [] ->
  Forall (fun x => fmt x /\ Rabs x <= M) w -> (Z.of_nat (length w) + 1 <= 2 ^ 26)%Z ->
  Rabs (fp_summary1_mean_f32 w - rmean w) <=
    u32 * Rabs (rmean w) + (1 + u32) * ((INR (length w) + 3) * u64 * M) + eta32.
Proof.
  intros M w HM Hne Hall Hlen. unfold fp_summary1_mean_f32.
  pose proof (fp_mean2_error_simple M w HM Hne Hall Hlen) as H2.
  pose proof (f32_store_gen (fp_mean2 w)) as H1.
  set (mh := fp_mean2 w) in *. set (m := rmean w) in *. set (B := (INR (length w) + 3) * u64 * M) in *.
  replace (RN32 mh - m) with ((RN32 mh - mh) + (mh - m)) by ring.
  eapply Rle_trans; [apply Rabs_triang|].
  assert (Hmh : Rabs mh <= Rabs m + B).
  { replace mh with (m + (mh - m)) at 1 by ring. eapply Rle_trans; [apply Rabs_triang|]. lra. }
  pose proof u32_pos. nra.
Qed.

(* ---- against the exact model: entry k of level 1 of SummQ.sq_levels ---- *)
Theorem fp_level1_mean_f32 : forall (d sumdf : nat) (xs : list Q) (k : nat) (e : sq_ent) (M : R),
  (1 <= d)%nat -> (1 <= sumdf)%nat -> (Z.of_nat d + 1 <= 2 ^ 26)%Z ->
  stats_in_range dbl_max xs ->
  bpow radix2 (-1022) <= M -> Forall (fun x => fmt (Q2R x) /\ Rabs (Q2R x) <= M) xs ->
  nth_error (sq_levels d sumdf (map Some xs) 1) k = Some e ->
  let w := firstn d (skipn (k * d) xs) in
  exists m : Q, se_mean e = Some m /\ (m == mean_of w)%Q /\
    Rabs (fp_summary1_mean_f32 (map Q2R w) - Q2R m) <=
      u32 * Rabs (Q2R m) + (1 + u32) * ((INR d + 3) * u64 * M) + eta32 /\
    Rabs (fp_summary1_mean_f64 (map Q2R w) - Q2R m) <= (INR d + 3) * u64 * M.
Proof.
  intros d sumdf xs k e M Hd Hs Hd26 Hr HM Hall Hnth w.
  destruct (sq_C02_summary_exact d sumdf xs 1 k e Hd Hs ltac:(lia) Hr Hnth) as [Hlen [m [v [lo [hi [He [Hm _]]]]]]].
  replace (d * sumdf ^ (1 - 1))%nat with d in Hlen by (cbn; lia).
  replace (d * sumdf ^ (1 - 1))%nat with d in Hm by (cbn; lia).
  fold w in Hlen, Hm.
  exists m. split; [rewrite He; reflexivity|]. split; [exact Hm|].
  assert (Hw : Forall (fun x => fmt (Q2R x) /\ Rabs (Q2R x) <= M) w).
  { apply Forall_forall. intros x Hx. rewrite Forall_forall in Hall. apply Hall.
    unfold w in Hx. rewrite <- (firstn_skipn (k * d) xs). apply in_or_app. right.
    rewrite <- (firstn_skipn d (skipn (k * d) xs)). apply in_or_app. left. exact Hx. }
  assert (Hne : w <> []) by (intro E; rewrite E in Hlen; cbn in Hlen; lia).
  assert (Hne' : map Q2R w <> []) by (destruct w; [contradiction|discriminate]).
  assert (HallR : Forall (fun x => fmt x /\ Rabs x <= M) (map Q2R w)) by (apply Forall_map; exact Hw).
  assert (HlenR : (Z.of_nat (length (map Q2R w)) + 1 <= 2 ^ 26)%Z) by (rewrite map_length, Hlen; exact Hd26).
  rewrite (Qeq_eqR _ _ Hm). rewrite Q2R_mean_of by exact Hne.
  split.
  - pose proof (fp_summary1_mean_f32_error M (map Q2R w) HM Hne' HallR HlenR) as H.
    rewrite map_length, Hlen in H. exact H.
  - pose proof (fp_mean2_error_simple M (map Q2R w) HM Hne' HallR HlenR) as H.
    rewrite map_length, Hlen in H. exact H.
Qed.

(* non-vacuity of fp_level1_mean_f32: d = 4, sumdf = 2, the ramp 0..11 *)
Lemma fp_level1_example :
  let xs := map (fun i => inject_Z (Z.of_nat i)) (seq 0 12) in
  nth_error (sq_levels 4 2 (map Some xs) 1) 1 = Some (mkSqEnt (Some (11 # 2)%Q) (Some (5 # 4)%Q) (Some 4%Q) (Some 7%Q)) /\
  stats_in_range dbl_max xs /\ bpow radix2 (-1022) <= 11 /\
  Forall (fun x => fmt (Q2R x) /\ Rabs (Q2R x) <= 11) xs.
Proof.
  cbv zeta. split; [vm_compute; reflexivity|]. split; [|split].
  - apply Forall_forall. intros x Hx. apply in_map_iff in Hx. destruct Hx as [i [<- Hi]].
    apply in_seq in Hi. unfold dbl_max. split.
    + apply Qle_trans with (inject_Z 0); [|rewrite <- Zle_Qle; lia].
      change (- inject_Z ((2 ^ 53 - 1) * 2 ^ 971))%Q with (inject_Z (- ((2 ^ 53 - 1) * 2 ^ 971))).
      rewrite <- Zle_Qle. lia.
    + rewrite <- Zle_Qle. lia.
  - apply Rle_trans with (bpow radix2 0); [apply bpow_le; lia|cbn; lra].
  - apply Forall_forall. intros x Hx. apply in_map_iff in Hx. destruct Hx as [i [<- Hi]].
    apply in_seq in Hi. rewrite Q2R_inject_Z. split.
    + apply format_IZR. lia.
    + rewrite <- abs_IZR. apply IZR_le. lia.
Qed.

(* ---- the variance of a level-1 entry (before sqrt and the cast) and its min / max ---- *)
(* count == 1: the C writes v_var = 0.0; the model fp_var1 gives the same value *)
Lemma fp_var1_single : forall x : R, fmt x -> fp_var1 [x] = 0.
Proof.
  intros x Fx. unfold fp_var1, fp_ssq2, fp_ssq_about, fp_mean2, fp_sum. cbn [fold_left length].
  assert (E1 : RN (INR 1) = 1) by (rewrite RN_INR by lia; reflexivity).
  rewrite E1. replace (0 + x) with x by ring. rewrite (RN_id x Fx).
  replace (x / 1) with x by field. rewrite (RN_id x Fx).
  replace (x - x) with 0 by ring. rewrite RN_0, Rmult_0_l, RN_0, Rplus_0_l, RN_0.
  replace (0 / 1) with 0 by field. apply RN_0.
Qed.

Theorem fp_level1_var : forall (d sumdf : nat) (xs : list Q) (k : nat) (e : sq_ent) (M : R),
  (1 <= d)%nat -> (1 <= sumdf)%nat -> (Z.of_nat d + 4 <= 2 ^ 26)%Z ->
  stats_in_range dbl_max xs ->
  bpow radix2 (-1022) <= M -> Forall (fun x => fmt (Q2R x) /\ Rabs (Q2R x) <= M) xs ->
  nth_error (sq_levels d sumdf (map Some xs) 1) k = Some e ->
  let w := firstn d (skipn (k * d) xs) in
  exists v : Q, se_var e = Some v /\ (v == ssq_of w / qlen w)%Q /\
    Rabs (fp_var1 (map Q2R w) - Q2R v) <=
      (INR d + 6) * u64 * Q2R v + 3 * (((INR d + 3) * u64 * M) * ((INR d + 3) * u64 * M)) + 4 * eta64.
Proof.
  intros d sumdf xs k e M Hd Hs Hd26 Hr HM Hall Hnth w.
  destruct (sq_C02_summary_exact d sumdf xs 1 k e Hd Hs ltac:(lia) Hr Hnth) as [Hlen [m [v [lo [hi [He [_ [Hv _]]]]]]]].
  replace (d * sumdf ^ (1 - 1))%nat with d in Hlen by (cbn; lia).
  replace (d * sumdf ^ (1 - 1))%nat with d in Hv by (cbn; lia).
  fold w in Hlen, Hv.
  exists v. split; [rewrite He; reflexivity|]. split; [exact Hv|].
  assert (Hw : Forall (fun x => fmt (Q2R x) /\ Rabs (Q2R x) <= M) w).
  { apply Forall_forall. intros x Hx. rewrite Forall_forall in Hall. apply Hall.
    unfold w in Hx. rewrite <- (firstn_skipn (k * d) xs). apply in_or_app. right.
    rewrite <- (firstn_skipn d (skipn (k * d) xs)). apply in_or_app. left. exact Hx. }
  assert (Hne : w <> []) by (intro E; rewrite E in Hlen; cbn in Hlen; lia).
  rewrite (Qeq_eqR _ _ Hv).
  pose proof (fp_var1_error_Q M w HM Hne Hw ltac:(rewrite Hlen; exact Hd26)) as H.
  cbv zeta in H. rewrite Hlen in H. exact H.
Qed.

(* min and max are samples: the binary64 values are exact, the (float) cast perturbs them *)
Theorem fp_level1_minmax_f32 : forall (d sumdf : nat) (xs : list Q) (k : nat) (e : sq_ent),
  (1 <= d)%nat -> (1 <= sumdf)%nat -> stats_in_range dbl_max xs ->
  nth_error (sq_levels d sumdf (map Some xs) 1) k = Some e ->
  let w := firstn d (skipn (k * d) xs) in
  exists lo hi : Q, se_min e = Some lo /\ se_max e = Some hi /\ (lo == min_of w)%Q /\ (hi == max_of w)%Q /\
    Rabs (RN32 (Q2R lo) - Q2R lo) <= u32 * Rabs (Q2R lo) + eta32 /\
    Rabs (RN32 (Q2R hi) - Q2R hi) <= u32 * Rabs (Q2R hi) + eta32 /\
    RN32 (Q2R lo) <= RN32 (Q2R hi).
Proof.
  intros d sumdf xs k e Hd Hs Hr Hnth w.
  destruct (sq_C02_summary_exact d sumdf xs 1 k e Hd Hs ltac:(lia) Hr Hnth) as [Hlen [m [v [lo [hi [He [_ [_ [Hlo Hhi]]]]]]]]].
  replace (d * sumdf ^ (1 - 1))%nat with d in Hlen, Hlo, Hhi by (cbn; lia).
  fold w in Hlen, Hlo, Hhi.
  exists lo, hi. split; [rewrite He; reflexivity|]. split; [rewrite He; reflexivity|].
  split; [exact Hlo|]. split; [exact Hhi|].
  split; [apply f32_store_gen|]. split; [apply f32_store_gen|].
  apply f32_store_monotone. apply Qle_Rle.
  assert (Hne : w <> []) by (intro E; rewrite E in Hlen; cbn in Hlen; lia).
  destruct (min_le_mean_le_max w Hne) as [A B].
  rewrite Hlo, Hhi. eapply Qle_trans; eassumption.
Qed.

(* a value that already is a binary32 number (float samples) is stored unchanged *)
Theorem f32_store_exact : forall x : R, generic_format radix2 (FLT_exp (-149) 24) x -> RN32 x = x.
Proof. intros x H. unfold RN32. apply round_generic; [apply valid_rnd_N|exact H]. Qed.
