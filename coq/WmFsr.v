(* Byte-faithful model of the synchronous writer, layer 3b: /repo/src/wr_fsr.c (fixed-sample-rate track).

     struct jls_core_fsr_s           wm_fsr     (data block buffer as a list of raw w-bit samples, newest
                                                 FIRST, with its count; write_omit_data; level[16])
     struct jls_core_fsr_level_s     wm_flevel  (index: timestamp + offsets; summary: timestamp + entries;
                                                 both newest first with explicit counts)
     jls_core_fsr_sample_buffer_alloc   inside wm_fsr_data (first call)
     jls_core_fsr_summary_level_alloc   wm_fsr_level_alloc
     wr_data                            wm_fsr_wr_data
     wr_index + wr_summary + the flush test of jls_core_fsr_summaryN    wm_fsr_wr_summary (fuel 16)
     jls_core_fsr_summaryN (before the flush test)                      wm_fsr_summaryN_add
     jls_core_fsr_summary1              wm_fsr_summary1
     summary_close / jls_fsr_close      wm_fsr_summary_close / wm_fsr_close
     wr_data_inner                      wm_fsr_wr_inner   (fuel: one more than the number of samples)
     jls_wr_fsr_data                    wm_fsr_data + wm_fsr_gap_loop

   Samples, not bytes: jls_bit_copy of the caller's packed buffer into the block buffer is the identity on
   the sample sequence (proved for the bit-copy model in BitCopyProofs.v); the payload is [wm_pack] of the
   block (LSB first, unused bits of the last byte zero, as wr_data masks them).
   Summary VALUES come from the oracles: [summ1 dtype samples_of_one_entry] and [summN is_f64 entries] give
   the four stored bit patterns in file order mean, std, min, max.
   Faults: level 16 (array bound of level[]), wr_summary on an unallocated level, fuel.
   Definitions only. *)
From Coq Require Import NArith ZArith List Bool.
From JLS Require Import Generated CrcDefs Spec Format WmRaw WmCore.
Import ListNotations.
Local Open Scope N_scope.

Definition wm_sentry : Type := (N * N * N * N)%type.

Record wm_flevel := {
  wm_fl_its : Z; wm_fl_nidx : N; wm_fl_idx : list N;
  wm_fl_sts : Z; wm_fl_nsum : N; wm_fl_sum : list wm_sentry }.

Record wm_fsr := {
  wm_f_alloc : bool;          (* self->data != NULL *)
  wm_f_sid0 : Z;              (* sample_id_offset *)
  wm_f_ts : Z;                (* data->header.timestamp *)
  wm_f_count : N;             (* data->header.entry_count *)
  wm_f_buf : list N;          (* the block's samples, newest first *)
  wm_f_omit : N;              (* write_omit_data (uint8_t) *)
  wm_f_levels : list (option wm_flevel) }.

(* jls_fsr_open *)
Definition wm_fsr_open : wm_fsr :=
  {| wm_f_alloc := false; wm_f_sid0 := 0%Z; wm_f_ts := 0%Z; wm_f_count := 0; wm_f_buf := []; wm_f_omit := 0;
     wm_f_levels := repeat None wm_level_count |}.

Definition wm_f_set_block (f : wm_fsr) (alloc : bool) (ts : Z) (count : N) (buf : list N) : wm_fsr :=
  {| wm_f_alloc := alloc; wm_f_sid0 := wm_f_sid0 f; wm_f_ts := ts; wm_f_count := count; wm_f_buf := buf;
     wm_f_omit := wm_f_omit f; wm_f_levels := wm_f_levels f |}.
Definition wm_f_set_sid0 (f : wm_fsr) (s : Z) : wm_fsr :=
  {| wm_f_alloc := wm_f_alloc f; wm_f_sid0 := s; wm_f_ts := wm_f_ts f; wm_f_count := wm_f_count f; wm_f_buf := wm_f_buf f;
     wm_f_omit := wm_f_omit f; wm_f_levels := wm_f_levels f |}.
Definition wm_f_set_omit (f : wm_fsr) (r : N) : wm_fsr :=
  {| wm_f_alloc := wm_f_alloc f; wm_f_sid0 := wm_f_sid0 f; wm_f_ts := wm_f_ts f; wm_f_count := wm_f_count f; wm_f_buf := wm_f_buf f;
     wm_f_omit := r; wm_f_levels := wm_f_levels f |}.
Definition wm_f_get_level (f : wm_fsr) (level : N) : option wm_flevel := nth (N.to_nat level) (wm_f_levels f) None.
Definition wm_f_set_level (f : wm_fsr) (level : N) (v : option wm_flevel) : wm_fsr :=
  {| wm_f_alloc := wm_f_alloc f; wm_f_sid0 := wm_f_sid0 f; wm_f_ts := wm_f_ts f; wm_f_count := wm_f_count f; wm_f_buf := wm_f_buf f;
     wm_f_omit := wm_f_omit f; wm_f_levels := wm_upd (N.to_nat level) v (wm_f_levels f) |}.

Record wm_fx := { wm_fx_base : wm_base; wm_fx_tk : wm_track; wm_fx_fsr : wm_fsr }.
Definition wm_fx_fault (x : wm_fx) : wm_fx :=
  {| wm_fx_base := wm_b_fault (wm_fx_base x); wm_fx_tk := wm_fx_tk x; wm_fx_fsr := wm_fx_fsr x |}.
Definition wm_fx_set_fsr (x : wm_fx) (f : wm_fsr) : wm_fx :=
  {| wm_fx_base := wm_fx_base x; wm_fx_tk := wm_fx_tk x; wm_fx_fsr := f |}.

(* summary_entry_size: 64 for i32 i64 u32 u64 f64, else 32 *)
Definition wm_summary_is64 (dt : N) : bool :=
  let k := N.land dt 65535 in
  (k =? JLS_DATATYPE_I32) || (k =? JLS_DATATYPE_I64) || (k =? JLS_DATATYPE_U32) || (k =? JLS_DATATYPE_U64) || (k =? JLS_DATATYPE_F64).
Definition wm_summary_entry_bits (dt : N) : N := JLS_SUMMARY_FSR_COUNT * (if wm_summary_is64 dt then 64 else 32).
Definition wm_sentry_bytes (is64 : bool) (e : wm_sentry) : list N :=
  let '(m, s, mn, mx) := e in
  let k := if is64 then 8%nat else 4%nat in
  fm_enc k m ++ fm_enc k s ++ fm_enc k mn ++ fm_enc k mx.

(* ---- packing samples into payload bytes, LSB first ---- *)
Fixpoint wm_pack_sub (w : N) (l : list N) (acc nbits : N) : list N :=
  match l with
  | [] => if nbits =? 0 then [] else [acc]
  | s :: r =>
    let acc' := acc + (s mod 2 ^ w) * 2 ^ nbits in
    let nb := nbits + w in
    if 8 <=? nb then (acc' mod 256) :: wm_pack_sub w r (acc' / 256) (nb - 8) else wm_pack_sub w r acc' nb
  end.
(* w in {1,4} (any w < 8 dividing 8) or a multiple of 8 *)
Definition wm_pack (w : N) (l : list N) : list N :=
  if w <? 8 then wm_pack_sub w l 0 0 else flat_map (fm_enc (N.to_nat (w / 8))) l.

(* n groups of k consecutive elements *)
Fixpoint wm_groups {A} (n k : nat) (l : list A) : list (list A) :=
  match n with O => [] | S n' => firstn k l :: wm_groups n' k (skipn k l) end.

(* DATA payload: struct jls_fsr_data_s *)
Definition wm_fsr_data_payload (ts : Z) (count w : N) (data : list N) : list N := wm_payload_header ts count w ++ data.
(* INDEX payload: struct jls_fsr_index_s *)
Definition wm_fsr_index_payload (ts : Z) (n : N) (offsets : list N) : list N :=
  wm_payload_header ts n 64 ++ flat_map fm_enc_u64 offsets.
(* SUMMARY payload: struct jls_fsr_f32_summary_s / jls_fsr_f64_summary_s *)
Definition wm_fsr_summary_payload (dt : N) (ts : Z) (n : N) (entries : list wm_sentry) : list N :=
  wm_payload_header ts n (wm_summary_entry_bits dt) ++ flat_map (wm_sentry_bytes (wm_summary_is64 dt)) entries.

(* is_mem_const with the constant wr_data derives from the first data byte *)
Definition wm_data_const (w first : N) : N :=
  if w =? 1 then (if N.odd first then 255 else 0)
  else if w =? 4 then (let k := N.land first 15 in N.lor k (N.shiftl k 4))
  else first.
Definition wm_is_mem_const (data : list N) (c : N) : bool := forallb (N.eqb c) data.

Section WM_FSR.
Variable summ1 : N -> list N -> wm_sentry.
Variable summN : bool -> list wm_sentry -> wm_sentry.

(* jls_core_fsr_summary_level_alloc: both header timestamps start as sample_id_offset, counts 0 *)
Definition wm_fsr_level_alloc (f : wm_fsr) (level : N) : wm_fsr :=
  match wm_f_get_level f level with
  | Some _ => f
  | None => wm_f_set_level f level (Some {| wm_fl_its := wm_f_sid0 f; wm_fl_nidx := 0; wm_fl_idx := [];
                                             wm_fl_sts := wm_f_sid0 f; wm_fl_nsum := 0; wm_fl_sum := [] |})
  end.

(* the part of a summary1/summaryN call that fills level [level]: timestamps taken over when the index is
   empty, one index entry, the new summary entries *)
Definition wm_fl_feed (lv : wm_flevel) (its sts : Z) (pos : N) (new : list wm_sentry) : wm_flevel :=
  let its1 := if wm_fl_nidx lv =? 0 then its else wm_fl_its lv in
  let sts1 := if wm_fl_nidx lv =? 0 then sts else wm_fl_sts lv in
  {| wm_fl_its := its1; wm_fl_nidx := wm_fl_nidx lv + 1; wm_fl_idx := pos :: wm_fl_idx lv;
     wm_fl_sts := sts1; wm_fl_nsum := wm_fl_nsum lv + N.of_nat (length new); wm_fl_sum := rev_append new (wm_fl_sum lv) |}.
Definition wm_fl_reset (lv : wm_flevel) : wm_flevel :=
  {| wm_fl_its := wm_fl_its lv; wm_fl_nidx := 0; wm_fl_idx := []; wm_fl_sts := wm_fl_sts lv; wm_fl_nsum := 0; wm_fl_sum := [] |}.

(* jls_core_fsr_summaryN up to (not including) its flush test: src = the level below, as it is while
   wr_summary(level-1) runs; src_entries = its summary entries, oldest first *)
Definition wm_fsr_summaryN_add (d : sigdef) (level pos : N) (src : wm_flevel) (src_entries : list wm_sentry) (f : wm_fsr) : wm_fsr :=
  let f1 := wm_fsr_level_alloc f level in
  match wm_f_get_level f1 level with
  | None => f1
  | Some dst =>
    let k := sg_sumdf d in
    let n := wm_fl_nsum src / k in
    let new := map (summN (wm_summary_is64 (sg_dtype d))) (wm_groups (N.to_nat n) (N.to_nat k) src_entries) in
    wm_f_set_level f1 level (Some (wm_fl_feed dst (wm_fl_its src) (wm_fl_sts src) pos new))
  end.

(* wr_summary(level): INDEX chunk, SUMMARY chunk, feed level+1 (and flush it when full), reset counts *)
Fixpoint wm_fsr_wr_summary (fuel : nat) (d : sigdef) (level : N) (x : wm_fx) : wm_fx :=
  match fuel with
  | O => wm_fx_fault x
  | S fu =>
    match wm_f_get_level (wm_fx_fsr x) level with
    | None => wm_fx_fault x                                   (* dst = NULL dereferenced *)
    | Some lv =>
      if (wm_fl_nsum lv =? 0)
         && ((wm_fl_nidx lv =? 0) || ((1 <? level) && (wm_get_off (wm_tk_offsets (wm_fx_tk x)) level =? 0)))
      then x
      else
        let sid := sg_id d in
        let pos_next := wm_raw_chunk_tell (wm_b_raw (wm_fx_base x)) in
        (* wr_index: nothing when the index has no entries *)
        let '(b1, t1) :=
          if wm_fl_nidx lv =? 0 then (wm_fx_base x, wm_fx_tk x)
          else wm_core_wr_index (wm_fx_base x) sid (wm_fx_tk x) level
                 (wm_fsr_index_payload (wm_fl_its lv) (wm_fl_nidx lv) (wm_rev (wm_fl_idx lv)))
                 (SIZEOF_payload_header + 8 * wm_fl_nidx lv) in
        let entries := wm_rev (wm_fl_sum lv) in
        let payload_len := SIZEOF_payload_header + (wm_fl_nsum lv * wm_summary_entry_bits (sg_dtype d)) / 8 in
        let '(b2, t2) := wm_core_wr_summary b1 sid t1 level
                           (wm_fsr_summary_payload (sg_dtype d) (wm_fl_sts lv) (wm_fl_nsum lv) entries) payload_len in
        if JLS_SUMMARY_LEVEL_COUNT <=? level + 1
        then wm_fx_fault {| wm_fx_base := b2; wm_fx_tk := t2; wm_fx_fsr := wm_fx_fsr x |}      (* self->level[16] *)
        else
          (* jls_core_fsr_summaryN(level + 1, pos_next) *)
          let f3 := wm_fsr_summaryN_add d (level + 1) pos_next lv entries (wm_fx_fsr x) in
          let x3 := {| wm_fx_base := b2; wm_fx_tk := t2; wm_fx_fsr := f3 |} in
          let x4 := match wm_f_get_level f3 (level + 1) with
                    | Some up => if sg_eps d <=? wm_fl_nsum up then wm_fsr_wr_summary fu d (level + 1) x3 else x3
                    | None => x3
                    end in
          (* dst->index->header.entry_count = 0; dst->summary->header.entry_count = 0 *)
          match wm_f_get_level (wm_fx_fsr x4) level with
          | Some lv4 => wm_fx_set_fsr x4 (wm_f_set_level (wm_fx_fsr x4) level (Some (wm_fl_reset lv4)))
          | None => x4
          end
    end
  end.

(* jls_core_fsr_summary1(pos): samples = the block, oldest first *)
Definition wm_fsr_summary1 (d : sigdef) (pos : N) (samples : list N) (x : wm_fx) : wm_fx :=
  let f := wm_fx_fsr x in
  let f1 := wm_fsr_level_alloc f 1 in
  match wm_f_get_level f1 1 with
  | None => wm_fx_fault x
  | Some dst =>
    let k := sg_sdf d in
    let n := wm_f_count f / k in
    let new := map (summ1 (sg_dtype d)) (wm_groups (N.to_nat n) (N.to_nat k) samples) in
    let dst1 := wm_fl_feed dst (wm_f_ts f) (wm_f_ts f) pos new in
    let x1 := wm_fx_set_fsr x (wm_f_set_level f1 1 (Some dst1)) in
    if sg_eps d <=? wm_fl_nsum dst1 then wm_fsr_wr_summary wm_level_count d 1 x1 else x1
  end.

(* wr_data: flush the block (nothing when it is empty) *)
Definition wm_fsr_wr_data (d : sigdef) (x : wm_fx) : wm_fx :=
  let f := wm_fx_fsr x in
  if wm_f_count f =? 0 then x
  else
    let w := dt_bits (sg_dtype d) in
    let samples := wm_rev (wm_f_buf f) in
    let data_length := (wm_f_count f * w + 7) / 8 in
    let data := wm_pack w samples in
    let payload_length := SIZEOF_payload_header + data_length in
    let omit0 := 1 <? wm_f_omit f in
    let omit1 := if w <=? 8
                 then wm_is_mem_const data (wm_data_const w (hd 0 data)) && (wm_f_count f mod sg_sdf d =? 0)
                 else omit0 in
    (* cannot omit the first chunk *)
    let omit := omit1 && negb (wm_ck_offset (wm_tk_data_head (wm_fx_tk x)) =? 0) in
    let pos := wm_raw_chunk_tell (wm_b_raw (wm_fx_base x)) in
    let '(x1, pos1) :=
      if omit then (x, 0)
      else let '(b1, t1) := wm_core_wr_data (wm_fx_base x) (sg_id d) (wm_fx_tk x)
                              (wm_fsr_data_payload (wm_f_ts f) (wm_f_count f) w data) payload_length in
           ({| wm_fx_base := b1; wm_fx_tk := t1; wm_fx_fsr := f |}, pos) in
    let x2 := wm_fsr_summary1 d pos1 samples x1 in
    let f2 := wm_fx_fsr x2 in
    let f3 := wm_f_set_block f2 (wm_f_alloc f2) (wm_f_ts f2 + Z.of_N (sg_spd d))%Z 0 [] in
    wm_fx_set_fsr x2 (wm_f_set_omit f3 (N.lor (N.shiftl (wm_f_omit f3) 1) (N.land (wm_f_omit f3) 1) mod 256)).

(* summary_close *)
Definition wm_fsr_summary_close (d : sigdef) (x : wm_fx) (level : N) : wm_fx :=
  match wm_f_get_level (wm_fx_fsr x) level with
  | None => x
  | Some _ =>
    let x1 := wm_fsr_wr_summary wm_level_count d level x in
    wm_fx_set_fsr x1 (wm_f_set_level (wm_fx_fsr x1) level None)
  end.

(* jls_fsr_close: the partial block, then levels 1..15 in order (a level flushed here feeds the next) *)
Definition wm_fsr_close_levels : list N := [1; 2; 3; 4; 5; 6; 7; 8; 9; 10; 11; 12; 13; 14; 15].
Definition wm_fsr_close (d : sigdef) (x : wm_fx) : wm_fx :=
  let x1 := if wm_f_alloc (wm_fx_fsr x)
            then (let y := wm_fsr_wr_data d x in
                  let f := wm_fx_fsr y in
                  wm_fx_set_fsr y (wm_f_set_block f false (wm_f_ts f) (wm_f_count f) (wm_f_buf f)))
            else x in
  fold_left (wm_fsr_summary_close d) wm_fsr_close_levels x1.

(* wr_data_inner: fill the block, flush when full, repeat *)
Fixpoint wm_fsr_wr_inner (fuel : nat) (d : sigdef) (x : wm_fx) (data : list N) (data_length : N) : wm_fx :=
  match fuel with
  | O => if data_length =? 0 then x else wm_fx_fault x
  | S fu =>
    if data_length =? 0 then x
    else
      let f := wm_fx_fsr x in
      let room := sg_spd d - wm_f_count f in
      let length := if data_length <? room then data_length else room in
      let take := firstn (N.to_nat length) data in
      let f1 := wm_f_set_block f (wm_f_alloc f) (wm_f_ts f) (wm_f_count f + length) (rev_append take (wm_f_buf f)) in
      let x1 := wm_fx_set_fsr x f1 in
      let x2 := if sg_spd d <=? wm_f_count f1 then wm_fsr_wr_data d x1 else x1 in
      wm_fsr_wr_inner fu d x2 (skipn (N.to_nat length) data) (data_length - length)
  end.

(* the gap-fill loop of jls_wr_fsr_data: the fill buffer holds buf_sz samples *)
Definition wm_fill_buf_samples (dt : N) : N :=
  let bytes := 8 * 4096 in                                  (* sizeof(self->buffer_u64) *)
  if dt =? JLS_DATATYPE_F32 then bytes / 4
  else if dt =? JLS_DATATYPE_F64 then bytes / 8
  else (bytes * 8) / dt_bits dt.
Definition wm_fill_sample (dt : N) : N :=
  if dt =? JLS_DATATYPE_F32 then 0x7FC00000 else if dt =? JLS_DATATYPE_F64 then 0x7FF8000000000000 else 0.
Fixpoint wm_fsr_gap_loop (fuel : nat) (d : sigdef) (x : wm_fx) (skip buf_sz : N) : wm_fx :=
  match fuel with
  | O => if skip =? 0 then x else wm_fx_fault x
  | S fu =>
    if skip =? 0 then x
    else
      let n := if skip <? buf_sz then skip else buf_sz in
      let fill := repeat (wm_fill_sample (sg_dtype d)) (N.to_nat n) in
      let x1 := wm_fsr_wr_inner (S (N.to_nat n)) d x fill n in
      wm_fsr_gap_loop fu d x1 (skip - n) n
  end.

(* jls_wr_fsr_data *)
Definition wm_fsr_data (d : sigdef) (x : wm_fx) (sample_id : Z) (samples : list N) : wm_fx :=
  let data_length := N.of_nat (length samples) in
  if data_length =? 0 then x
  else
    let f := wm_fx_fsr x in
    let f1 := if wm_f_alloc f then f
              else wm_f_set_sid0 (wm_f_set_block f true sample_id 0 []) sample_id in
    let x1 := wm_fx_set_fsr x f1 in
    let sample_id_next := (wm_f_ts f1 + Z.of_N (wm_f_count f1))%Z in
    let fuel := S (length samples) in
    if (sample_id =? sample_id_next)%Z then wm_fsr_wr_inner fuel d x1 samples data_length
    else if (sample_id <? sample_id_next)%Z then
      if (sample_id + Z.of_N data_length <=? sample_id_next)%Z then x1
      else
        let ffwd := Z.to_N (sample_id_next - sample_id) in
        wm_fsr_wr_inner fuel d x1 (skipn (N.to_nat ffwd) samples) (data_length - ffwd)
    else
      let skip := Z.to_N (sample_id - sample_id_next) in
      let buf_sz := wm_fill_buf_samples (sg_dtype d) in
      let x2 := wm_fsr_gap_loop (S (N.to_nat (skip / buf_sz))) d x1 skip buf_sz in
      wm_fsr_wr_inner fuel d x2 samples data_length.

End WM_FSR.
