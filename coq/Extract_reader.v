(* private extraction file of the slice `reader` (development only; see SLICE_GUIDE.md).
   At integration: coq/Extract.v gets  `From JLS Require Import ... RepairRaw RepairModel BitCopyModel ReaderModel.`  and the names
     RepairRaw.rp_signal_validate
     ReaderModel.rdm_open ReaderModel.rdm_fsr_length ReaderModel.rdm_fsr ReaderModel.rdm_annotations
     ReaderModel.rdm_user_data ReaderModel.rdm_utc ReaderModel.rdm_set_tr ReaderModel.rdm_flt ReaderModel.rdm_def ReaderModel.rdm_sig
   (ocaml/drv_reader.ml uses these, the records rdm_st rdm_anno rdm_ud rdm_piece sigdef and the type rdm_open_res);
   `drv_reader.ml` goes into ocaml/DRIVERS; no new C kind: harness/KINDS keeps jlsrun_k_prog.h. *)
From Coq Require Import Extraction ExtrOcamlBasic NArith ZArith QArith Qreduction List.
From JLS Require Import Generated CrcDefs Spec Format WmRaw WmCore WmTs WmFsr WriterModel RepairRaw RepairModel BitCopyModel ReaderModel.
Extraction Language OCaml.
Extraction "jlsmodel_ext"
  BinInt.Z.add BinInt.Z.opp BinInt.Z.of_N BinInt.Z.to_N BinNat.N.add BinNat.N.mul BinNat.N.of_nat BinNat.N.to_nat
  CrcDefs.crc_spec CrcDefs.crc32c
  Spec.str_read
  RepairRaw.rp_signal_validate
  ReaderModel.rdm_open ReaderModel.rdm_fsr_length ReaderModel.rdm_fsr ReaderModel.rdm_annotations
  ReaderModel.rdm_user_data ReaderModel.rdm_utc ReaderModel.rdm_set_tr ReaderModel.rdm_flt ReaderModel.rdm_def
  ReaderModel.rdm_sig.
