(* private extraction file of the writer-model slice `wmodel` (development only; see SLICE_GUIDE.md).
   At integration: coq/Extract.v gets  `From JLS Require Import ... Format WmRaw WmCore WmTs WmFsr WriterModel.`  and the names
     WriterModel.wm_run WriterModel.wm_run_full WriterModel.wm_step WriterModel.wm_step_rc
     WriterModel.wm_api_open WriterModel.wm_api_close WriterModel.wm_st_log WriterModel.wm_st_fault WriterModel.wm_find_sig
   (ocaml/drv_wmodel.ml uses wm_api_open, wm_step_rc, wm_api_close, wm_st_log, wm_st_fault and the types wop, wm_entry);
   ocaml/DRIVERS gets drv_wmodel.ml. *)
From Coq Require Import Extraction ExtrOcamlBasic NArith ZArith QArith Qreduction List.
From JLS Require Import Generated CrcDefs Spec Format WmRaw WmCore WmTs WmFsr WriterModel.
Extraction Language OCaml.
Extraction "jlsmodel_ext"
  BinInt.Z.add BinInt.Z.opp BinInt.Z.of_N BinInt.Z.to_N BinNat.N.add BinNat.N.mul BinNat.N.of_nat BinNat.N.to_nat
  CrcDefs.crc_spec CrcDefs.crc32c CrcDefs.crc_slice8 CrcDefs.crc_hw CrcDefs.crc_hdr_hw CrcDefs.crc_hdr_slice8
  Spec.str_read
  WriterModel.wm_run WriterModel.wm_run_full WriterModel.wm_step WriterModel.wm_step_rc
  WriterModel.wm_api_open WriterModel.wm_api_close WriterModel.wm_st_log WriterModel.wm_st_fault WriterModel.wm_find_sig.
