(* Refinement glue, annotation / UTC tracks: WmTs (byte-exact writer model, wr_ts.c) + the DATA chunk part of
   jls_wr_annotation / jls_wr_utc (WriterModel) against TsModel (chunks and entries, ordinals as offsets).

   TsModel's offsets are ordinals: the k-th chunk of the track (0-based) has offset k + 1.  They are related
   to real file offsets by the list [offs] of the offsets of the track's chunks in write order:
     rt_psi offs k = 0 if k = 0, else the offset of chunk number k - 1.
   Definitions + proofs (glue file; nothing here changes a model). *)
From Coq Require Import NArith ZArith List Bool Lia Arith.
From Coq Require Import ZifyBool ZifyN ZifyNat.
From JLS Require Import Generated CrcDefs Spec Format FormatProofs WmRaw WmCore WmTs WmFsr WriterModel WmProofs TsModel RefineLog.
Import ListNotations.
Local Open Scope N_scope.

Definition rt_psi (offs : list N) (k : nat) : N := match k with O => 0 | S j => nth j offs 0 end.

(* jls_wr_annotation / jls_wr_utc after the argument checks: DATA chunk, link, head table (first chunk), then
   jls_wr_ts_anno / jls_wr_ts_utc *)
Definition rt_write (sid tag : N) (x : wm_tx) (payload : list N) (plen : N) (key : Z) (sentry : list N) : wm_tx :=
  let b := wm_tx_base x in
  let r := wm_b_raw b in
  let t := wm_tx_tk x in
  let offset := wm_raw_chunk_tell r in
  let h := wm_mk_hdr (wm_ck_offset (wm_tk_data_head t)) tag sid plen in
  let '(r1, h1) := wm_raw_wr r h payload in
  let '(r2, dh) := wm_update_item_head r1 (wm_tk_data_head t) {| wm_ck_offset := offset; wm_ck_hdr := h1 |} in
  let '(b1, t1) := wm_track_update (wm_b_set_raw b r2) sid (wm_tk_set_data_head t dh) 0 offset in
  wm_ts_add sid {| wm_tx_base := b1; wm_tx_tk := t1; wm_tx_ts := wm_tx_ts x |} key offset sentry.

(* ------------------------------------------------------------------ small facts *)
Lemma rt_psi_app : forall offs more k, (k <= length offs)%nat -> rt_psi (offs ++ more) k = rt_psi offs k.
Proof. intros offs more [|j] H; [reflexivity|]. cbn [rt_psi]. apply app_nth1. lia. Qed.
Lemma rt_psi_new : forall offs more j, (j < length more)%nat -> rt_psi (offs ++ more) (S (length offs + j)) = nth j more 0.
Proof. intros offs more j H. cbn [rt_psi]. rewrite app_nth2 by lia. f_equal. lia. Qed.
Lemma rt_psi_zero : forall offs k, Forall (fun o => o <> 0) offs -> (k <= length offs)%nat -> (rt_psi offs k = 0 <-> k = 0%nat).
Proof.
  intros offs [|j] Hnz Hk; [tauto|]. cbn [rt_psi]. split; [|discriminate]. intro E. exfalso.
  rewrite Forall_forall in Hnz. apply (Hnz 0); [|reflexivity]. rewrite <- E. apply nth_In. lia.
Qed.

Lemma rt_ts_get_set_eq : forall s l v, (N.to_nat l < length (wm_ts_levels s))%nat -> wm_ts_get (wm_ts_set s l v) l = v.
Proof. intros. unfold wm_ts_get, wm_ts_set. cbn [wm_ts_levels]. apply rf_nth_upd_eq. assumption. Qed.
Lemma rt_ts_get_set_neq : forall s l l' v, l <> l' -> wm_ts_get (wm_ts_set s l v) l' = wm_ts_get s l'.
Proof. intros. unfold wm_ts_get, wm_ts_set. cbn [wm_ts_levels]. apply rf_nth_upd_neq. lia. Qed.
Lemma rt_ts_set_len : forall s l v, length (wm_ts_levels (wm_ts_set s l v)) = length (wm_ts_levels s).
Proof. intros. unfold wm_ts_set. cbn [wm_ts_levels]. apply rf_upd_length. Qed.
Lemma rt_ts_set_dec : forall s l v, wm_ts_dec (wm_ts_set s l v) = wm_ts_dec s.
Proof. reflexivity. Qed.

Lemma rf_ofnat_succ_t : forall L, N.of_nat L + 1 = N.of_nat (S L).
Proof. intros. lia. Qed.

Lemma rt_payload_header_len : forall ts n b, length (wm_payload_header ts n b) = 16%nat.
Proof.
  intros. unfold wm_payload_header, fm_encode_payload_header. cbn [fm_ph_timestamp fm_ph_entry_count fm_ph_entry_size_bits fm_ph_rsv16].
  rewrite !app_length, fm_enc_i64_length. unfold fm_enc_u32, fm_enc_u16. rewrite !fm_enc_length. reflexivity.
Qed.
Lemma rt_flat_map_len : forall (A : Type) (f : A -> list N) k l, (forall a, length (f a) = k) -> length (flat_map f l) = (k * length l)%nat.
Proof. intros A f k l H. induction l as [|a l IH]; cbn [flat_map length]; [lia|]. rewrite app_length, IH, H. lia. Qed.
Lemma rt_index_payload_len : forall ts n es, rf_len (wm_ts_index_payload ts n es) = 16 + 16 * N.of_nat (length es).
Proof.
  intros. unfold rf_len, wm_ts_index_payload. rewrite app_length, rt_payload_header_len.
  rewrite (rt_flat_map_len _ wm_index_entry_bytes 16).
  - lia.
  - intros [t o]. unfold wm_index_entry_bytes. rewrite app_length, fm_enc_i64_length. unfold fm_enc_u64. rewrite fm_enc_length. reflexivity.
Qed.
Lemma rt_summary_payload_len : forall ts n (ss : list (list N)), Forall (fun e => length e = 16%nat) ss ->
  rf_len (wm_ts_summary_payload ts n ss) = 16 + 16 * N.of_nat (length ss).
Proof.
  intros ts n ss H. unfold rf_len, wm_ts_summary_payload. rewrite app_length, rt_payload_header_len.
  assert (E : length (concat ss) = (16 * length ss)%nat).
  { induction H as [|e l He Hl IH]; [reflexivity|]. cbn [concat length]. rewrite app_length, IH, He. lia. }
  rewrite E. lia.
Qed.

(* ------------------------------------------------------------------ the simulation *)
Section RT.
Variables A SE : Type.
Variable key : A -> Z.
Variable summ : A -> SE.
Variable encA : A -> list N.        (* DATA payload of a record *)
Variable encS : SE -> list N.       (* the 16 bytes of a summary entry *)
Variable sid : N.
Variable ty : N.                    (* JLS_TRACK_TYPE_ANNOTATION or JLS_TRACK_TYPE_UTC *)
Variable d : nat.                   (* decimate factor *)
Hypothesis Hsid : sid < 256.
Hypothesis Hty : ty < 4.
Hypothesis HencS : forall s, length (encS s) = 16%nat.
Hypothesis Hd2 : (2 <= d)%nat.
Hypothesis Hdb : 16 + 16 * N.of_nat d < 4294967296.
Variable xs : wm_tx.               (* a reference state (the start of the current call) and the number of chunks then *)
Variable n0 : nat.

Definition rt_ent (offs : list N) (e : Z * nat) : Z * N := (fst e, rt_psi offs (snd e)).

Definition rt_lvl_rel (offs : list N) (lv : wm_ts_level) (l : ts_level SE) : Prop :=
  wm_tl_nidx lv = N.of_nat (length (wm_tl_idx lv)) /\ wm_tl_nsum lv = N.of_nat (length (wm_tl_sum lv)) /\
  rev (wm_tl_idx lv) = map (rt_ent offs) (tl_idx l) /\ Forall (fun e => (snd e <= length offs)%nat) (tl_idx l) /\
  rev (wm_tl_sum lv) = map encS (tl_sum l) /\
  (length (tl_idx l) <= d)%nat /\ (length (tl_sum l) <= d)%nat.

(* wm levels L, L+1, ... against TsModel's list of levels *)
Fixpoint rt_lvls (offs : list N) (s : wm_ts) (L : nat) (lvs : list (ts_level SE)) : Prop :=
  match lvs with
  | [] => forall M, (L <= M < 16)%nat -> wm_ts_get s (N.of_nat M) = None
  | l :: r => (exists lv, wm_ts_get s (N.of_nat L) = Some lv /\ rt_lvl_rel offs lv l) /\ rt_lvls offs s (S L) r
  end.

Lemma rt_lvl_rel_app : forall offs more lv l, rt_lvl_rel offs lv l -> rt_lvl_rel (offs ++ more) lv l.
Proof.
  intros offs more lv l (A1 & A2 & A3 & A4 & A5 & A6 & A7). split; [exact A1|]. split; [exact A2|].
  split. { rewrite A3. apply map_ext_in. intros e He. rewrite Forall_forall in A4. unfold rt_ent. rewrite rt_psi_app by (apply A4; exact He). reflexivity. }
  split. { rewrite app_length. eapply Forall_impl; [|exact A4]. cbv beta. intros; lia. }
  split; [exact A5|]. split; assumption.
Qed.
Lemma rt_lvls_app : forall offs more s lvs L, rt_lvls offs s L lvs -> rt_lvls (offs ++ more) s L lvs.
Proof.
  intros offs more s lvs. induction lvs as [|l r IH]; intros L H; cbn [rt_lvls] in *; [exact H|].
  destruct H as ((lv & Hg & Hr) & Hrest). split; [exists lv; split; [exact Hg|apply rt_lvl_rel_app; exact Hr]|apply IH; exact Hrest].
Qed.
(* levels depend on the wm_ts only through the levels >= L *)
Lemma rt_lvls_ext : forall offs s s' lvs L, (forall M, (L <= M)%nat -> wm_ts_get s' (N.of_nat M) = wm_ts_get s (N.of_nat M)) ->
  rt_lvls offs s L lvs -> rt_lvls offs s' L lvs.
Proof.
  intros offs s s' lvs. induction lvs as [|l r IH]; intros L He H; cbn [rt_lvls] in *.
  - intros M HM. rewrite He by lia. apply H. exact HM.
  - destruct H as ((lv & Hg & Hr) & Hrest). split; [exists lv; split; [rewrite He by lia; exact Hg|exact Hr]|].
    apply IH; [intros M HM; apply He; lia|exact Hrest].
Qed.

Definition rt_tag (kind : N) : N := fm_track_tag ty kind.

Definition rt_chunk_rel (offs : list N) (c : rf_chunk) (tc : ts_chunk A SE) : Prop :=
  match tc with
  | TsData r => rc_tag c = rt_tag JLS_TRACK_CHUNK_DATA /\ rc_meta c = sid /\ rc_pay c = encA r
  | TsIndex L es =>
    rc_tag c = rt_tag JLS_TRACK_CHUNK_INDEX /\ rc_meta c = wm_meta sid (N.of_nat L) /\
    rc_pay c = wm_ts_index_payload (fst (hd (0%Z, 0%nat) es)) (N.of_nat (length es)) (map (rt_ent offs) es) /\
    Forall (fun e => (snd e <= length offs)%nat) es
  | TsSummary L ss =>
    rc_tag c = rt_tag JLS_TRACK_CHUNK_SUMMARY /\ rc_meta c = wm_meta sid (N.of_nat L) /\
    exists ts0, rc_pay c = wm_ts_summary_payload ts0 (N.of_nat (length ss)) (map encS ss)
  end.

Lemma rt_chunk_rel_app : forall offs more c tc, rt_chunk_rel offs c tc -> rt_chunk_rel (offs ++ more) c tc.
Proof.
  intros offs more c [r|L es|L ss] H; cbn [rt_chunk_rel] in *; [exact H| |exact H].
  destruct H as (A1 & A2 & A3 & A4). split; [exact A1|]. split; [exact A2|]. split.
  - rewrite A3. f_equal. apply map_ext_in. intros e He. rewrite Forall_forall in A4. unfold rt_ent. rewrite rt_psi_app by (apply A4; exact He). reflexivity.
  - rewrite app_length. eapply Forall_impl; [|exact A4]. cbv beta. intros; lia.
Qed.

Definition rt_mine (c : rf_chunk) : bool :=
  ((rc_tag c =? rt_tag JLS_TRACK_CHUNK_DATA) || (rc_tag c =? rt_tag JLS_TRACK_CHUNK_INDEX) || (rc_tag c =? rt_tag JLS_TRACK_CHUNK_SUMMARY))
  && (N.land (rc_meta c) 4095 =? sid).

Definition rt_out (x : wm_tx) : list rf_chunk := rp_out (rf_scan (wm_rlog (wm_b_raw (wm_tx_base x)))).

(* state relation: cs = the track's chunks so far; lvs = TsModel's levels from level L on *)
Record rt_R (cs : list rf_chunk) (x : wm_tx) (disk : list (ts_chunk A SE)) (h : nat -> nat) : Prop := {
  T_bok : rf_bok (wm_tx_base x);
  T_tok : rf_tok (wm_b_raw (wm_tx_base x)) (wm_tx_tk x);
  T_ty : wm_tk_type (wm_tx_tk x) = ty;
  T_len : length (wm_ts_levels (wm_tx_ts x)) = 16%nat;
  T_dec : wm_ts_dec (wm_tx_ts x) = N.of_nat d;
  T_nz : Forall (fun o => o <> 0) (map rc_off cs);
  T_disk : Forall2 (rt_chunk_rel (map rc_off cs)) cs disk;
  T_heads : forall L, (L < 16)%nat ->
      wm_get_off (wm_tk_offsets (wm_tx_tk x)) (N.of_nat L) = rt_psi (map rc_off cs) (h L) /\ (h L <= length cs)%nat
}.

(* since the reference state xs: the raw state only extended and ALL chunks appended are the last (length cs - n0) of cs *)
Definition rt_dl (cs : list rf_chunk) (x : wm_tx) : Prop :=
  rf_ext (wm_b_raw (wm_tx_base xs)) (wm_b_raw (wm_tx_base x)) /\ (n0 <= length cs)%nat /\
  rt_out x = rev (skipn n0 cs) ++ rt_out xs.

Lemma rt_dl_cons : forall cs c x x1, rt_dl cs x -> rf_ext (wm_b_raw (wm_tx_base x)) (wm_b_raw (wm_tx_base x1)) ->
  rt_out x1 = c :: rt_out x -> rt_dl (cs ++ [c]) x1.
Proof.
  intros cs c x x1 (D1 & D2 & D3) He Ho. split; [eapply rf_ext_trans; eauto|]. split; [rewrite app_length; lia|].
  rewrite Ho, D3. rewrite skipn_app. replace (n0 - length cs)%nat with 0%nat by lia. cbn [skipn]. rewrite rev_app_distr. reflexivity.
Qed.
Lemma rt_dl_same : forall cs x x', rt_dl cs x -> wm_tx_base x' = wm_tx_base x -> rt_dl cs x'.
Proof. intros cs x x' (D1 & D2 & D3) E. unfold rt_dl, rt_out in *. rewrite E. split; [exact D1|]. split; assumption. Qed.

Definition rt_S (pre cs : list rf_chunk) (x : wm_tx) (disk : list (ts_chunk A SE)) (h : nat -> nat) : Prop :=
  rt_R cs x disk h /\ filter rt_mine (rt_out x) = rev cs ++ pre /\ rt_dl cs x.


Lemma rt_meta_sid : forall level, level < 16 -> N.land (wm_meta sid level) 4095 = sid.
Proof.
  intros level Hl.
  assert (H : forallb (fun s => forallb (fun l => N.land (wm_meta (N.of_nat s) (N.of_nat l)) 4095 =? N.of_nat s) (seq 0 16)) (seq 0 256) = true)
    by (vm_compute; reflexivity).
  rewrite forallb_forall in H. specialize (H (N.to_nat sid) ltac:(apply in_seq; lia)).
  rewrite forallb_forall in H. specialize (H (N.to_nat level) ltac:(apply in_seq; lia)).
  rewrite !N2Nat.id in H. apply N.eqb_eq. exact H.
Qed.
Lemma rt_sid_land : N.land sid 4095 = sid.
Proof. change 4095 with (N.ones 12). rewrite N.land_ones. apply N.mod_small. change (2 ^ 12) with 4096. lia. Qed.

Lemma rt_tag_ok : forall k, k <= JLS_TRACK_CHUNK_SUMMARY -> rt_tag k <> JLS_TAG_INVALID /\ rt_tag k < 256.
Proof. intros k Hk. apply rf_track_tag_ok; assumption. Qed.

Lemma rt_mine_tag : forall c k, (k = JLS_TRACK_CHUNK_DATA \/ k = JLS_TRACK_CHUNK_INDEX \/ k = JLS_TRACK_CHUNK_SUMMARY) ->
  rc_tag c = rt_tag k -> N.land (rc_meta c) 4095 = sid -> rt_mine c = true.
Proof.
  intros c k Hk Ht Hm. unfold rt_mine. rewrite Hm, N.eqb_refl, andb_true_r, Ht.
  destruct Hk as [-> | [-> | ->]]; rewrite N.eqb_refl; rewrite ?orb_true_r; reflexivity.
Qed.

Lemma rt_filter_cons_mine : forall c out cs pre, rt_mine c = true -> filter rt_mine out = rev cs ++ pre ->
  filter rt_mine (c :: out) = rev (cs ++ [c]) ++ pre.
Proof. intros c out cs pre Hm H. cbn [filter]. rewrite Hm, H, rev_app_distr. reflexivity. Qed.

Lemma rt_Forall2_impl : forall (X Y : Type) (P Q : X -> Y -> Prop) l1 l2, (forall a b, P a b -> Q a b) -> Forall2 P l1 l2 -> Forall2 Q l1 l2.
Proof. intros X Y P Q l1 l2 H F. induction F; constructor; auto. Qed.
Lemma rt_Forall2_len : forall (X Y : Type) (P : X -> Y -> Prop) l1 l2, Forall2 P l1 l2 -> length l1 = length l2.
Proof. intros X Y P l1 l2 F. induction F; cbn [length]; congruence. Qed.

Lemma rt_get_off_upd_eq : forall l L v, (L < length l)%nat -> wm_get_off (wm_upd L v l) (N.of_nat L) = v.
Proof. intros. unfold wm_get_off. rewrite Nat2N.id. apply rf_nth_upd_eq. assumption. Qed.
Lemma rt_get_off_upd_neq : forall l L M v, L <> M -> wm_get_off (wm_upd L v l) (N.of_nat M) = wm_get_off l (N.of_nat M).
Proof. intros. unfold wm_get_off. rewrite Nat2N.id. apply rf_nth_upd_neq. assumption. Qed.

(* head_offsets[] after a chunk of level L was written as chunk number (length offs) *)
Lemma rt_heads_step : forall offs offsets (h : nat -> nat) L off,
  Forall (fun o => o <> 0) offs -> length offsets = 16%nat -> (L < 16)%nat -> off <> 0 ->
  (forall M, (M < 16)%nat -> wm_get_off offsets (N.of_nat M) = rt_psi offs (h M) /\ (h M <= length offs)%nat) ->
  let offsets' := if wm_get_off offsets (N.of_nat L) =? 0 then wm_upd L off offsets else offsets in
  forall M, (M < 16)%nat ->
    wm_get_off offsets' (N.of_nat M) = rt_psi (offs ++ [off]) (ts_head_upd h L (S (length offs)) M) /\
    (ts_head_upd h L (S (length offs)) M <= length (offs ++ [off]))%nat.
Proof.
  intros offs offsets h L off Hnz Hlen HL Hoff Hh offsets' M HM.
  destruct (Hh L HL) as (EL & VL). destruct (Hh M HM) as (EM & VM).
  assert (Hz : (wm_get_off offsets (N.of_nat L) =? 0) = Nat.eqb (h L) 0).
  { rewrite EL. destruct (rt_psi_zero offs (h L) Hnz VL) as [Z1 Z2].
    destruct (Nat.eqb_spec (h L) 0) as [E|E]; [rewrite (Z2 E); reflexivity|].
    destruct (N.eqb_spec (rt_psi offs (h L)) 0) as [E'|]; [exfalso; apply E, Z1, E'|reflexivity]. }
  subst offsets'. rewrite Hz. unfold ts_head_upd. rewrite app_length. cbn [length].
  destruct (Nat.eqb_spec M L) as [->|Hne].
  - destruct (Nat.eqb_spec (h L) 0) as [E|E].
    + rewrite rt_get_off_upd_eq by lia. split; [|lia].
      replace (S (length offs)) with (S (length offs + 0)) by lia. rewrite rt_psi_new by (cbn [length]; lia). reflexivity.
    + split; [rewrite rt_psi_app by exact VL; exact EL|lia].
  - destruct (Nat.eqb (h L) 0).
    + rewrite rt_get_off_upd_neq by congruence. split; [rewrite rt_psi_app by exact VM; exact EM|lia].
    + split; [rewrite rt_psi_app by exact VM; exact EM|lia].
Qed.

(* ---- one chunk appended by jls_core_wr_index / jls_core_wr_summary ---- *)
Lemma rt_sim_index : forall pre cs x disk h L es payload,
  rt_S pre cs x disk h -> (1 <= L < 16)%nat -> rf_len payload < 4294967296 ->
  payload = wm_ts_index_payload (fst (hd (0%Z, 0%nat) es)) (N.of_nat (length es)) (map (rt_ent (map rc_off cs)) es) ->
  Forall (fun e => (snd e <= length cs)%nat) es ->
  let bt := wm_core_wr_index (wm_tx_base x) sid (wm_tx_tk x) (N.of_nat L) payload (rf_len payload) in
  let x1 := {| wm_tx_base := fst bt; wm_tx_tk := snd bt; wm_tx_ts := wm_tx_ts x |} in
  exists c, rt_S pre (cs ++ [c]) x1 (disk ++ [TsIndex L es]) (ts_head_upd h L (S (length cs))) /\
            rc_off c = wm_raw_chunk_tell (wm_b_raw (wm_tx_base x)).
Proof.
  intros pre cs x disk h L es payload ([Tbok Ttok Tty Tlen Tdec Tnz Tdisk Theads] & Hout & Hdl) HL Hplt Hpay Hes bt x1.
  pose proof (rf_core_wr_index (wm_tx_base x) sid (wm_tx_tk x) (N.of_nat L) payload Tbok Ttok Hplt) as X.
  cbv zeta in X. fold bt in X.
  destruct X as (Hbok' & Htok' & Hext & Htell & Hfe' & Hout' & Hoffs' & Hdh' & Hsh' & Hhd' & Hty' & _).
  set (off := wm_fend (wm_b_raw (wm_tx_base x))) in *.
  assert (Hoffnz : off <> 0) by (subst off; destruct Tbok as ((_ & H32 & _) & _); lia).
  set (c := {| rc_off := off; rc_tag := fm_track_tag (wm_tk_type (wm_tx_tk x)) JLS_TRACK_CHUNK_INDEX;
               rc_meta := wm_meta sid (N.of_nat L); rc_pay := payload |}) in *.
  exists c. split; [|symmetry; exact Htell].
  assert (Hmapoff : map rc_off (cs ++ [c]) = map rc_off cs ++ [off]) by (rewrite map_app; reflexivity).
  split.
  - constructor; cbn [wm_tx_base wm_tx_tk wm_tx_ts x1].
    + exact Hbok'.
    + exact Htok'.
    + rewrite Hty'. exact Tty.
    + exact Tlen.
    + exact Tdec.
    + rewrite Hmapoff. apply Forall_app. split; [exact Tnz|constructor; [exact Hoffnz|constructor]].
    + rewrite Hmapoff. apply Forall2_app.
      * eapply rt_Forall2_impl; [|exact Tdisk]. intros a b Hab. apply rt_chunk_rel_app. exact Hab.
      * constructor; [|constructor]. cbn [rt_chunk_rel rc_tag rc_meta rc_pay c].
        split; [rewrite Tty; reflexivity|]. split; [reflexivity|]. split.
        -- rewrite Hpay. f_equal. apply map_ext_in. intros e He. rewrite Forall_forall in Hes. unfold rt_ent.
           rewrite rt_psi_app by (rewrite map_length; apply Hes; exact He). reflexivity.
        -- rewrite app_length, map_length. eapply Forall_impl; [|exact Hes]. cbv beta. intros; lia.
    + intros M HM. rewrite Hoffs', Hmapoff, Nat2N.id. destruct Ttok as (_ & _ & _ & Hl16 & _).
      pose proof (rt_heads_step (map rc_off cs) (wm_tk_offsets (wm_tx_tk x)) h L off Tnz Hl16 ltac:(lia) Hoffnz) as Y.
      rewrite map_length in Y.
      specialize (Y ltac:(intros M' HM'; destruct (Theads M' HM') as (E1 & E2); split; [exact E1|exact E2]) M HM).
      cbv zeta in Y. destruct Y as (Y1 & Y2). split; [exact Y1|]. rewrite !app_length, map_length in *. cbn [length] in *. lia.
  - split; [|apply (rt_dl_cons cs c x x1 Hdl); [exact Hext|exact Hout']].
    unfold rt_out. cbn [wm_tx_base x1]. rewrite Hout'. apply rt_filter_cons_mine; [|exact Hout].
    apply (rt_mine_tag c JLS_TRACK_CHUNK_INDEX); [tauto|cbn [rc_tag c]; rewrite Tty; reflexivity|cbn [rc_meta c]; apply rt_meta_sid; lia].
Qed.

Lemma rt_sim_summary : forall pre cs x disk h L (ss : list SE) ts0,
  rt_S pre cs x disk h -> (1 <= L < 16)%nat -> (length ss <= d)%nat ->
  let payload := wm_ts_summary_payload ts0 (N.of_nat (length ss)) (map encS ss) in
  let bt := wm_core_wr_summary (wm_tx_base x) sid (wm_tx_tk x) (N.of_nat L) payload (rf_len payload) in
  let x1 := {| wm_tx_base := fst bt; wm_tx_tk := snd bt; wm_tx_ts := wm_tx_ts x |} in
  exists c, rt_S pre (cs ++ [c]) x1 (disk ++ [TsSummary L ss]) h.
Proof.
  intros pre cs x disk h L ss ts0 ([Tbok Ttok Tty Tlen Tdec Tnz Tdisk Theads] & Hout & Hdl) HL Hss payload bt x1.
  assert (Hpl : rf_len payload = 16 + 16 * N.of_nat (length ss)).
  { subst payload. rewrite rt_summary_payload_len; [rewrite map_length; reflexivity|].
    apply Forall_forall. intros e He. apply in_map_iff in He. destruct He as (s0 & <- & _). apply HencS. }
  assert (Hplt : rf_len payload < 4294967296) by (rewrite Hpl; lia).
  pose proof (rf_core_wr_summary (wm_tx_base x) sid (wm_tx_tk x) (N.of_nat L) payload Tbok Ttok Hplt) as X.
  cbv zeta in X. fold bt in X.
  destruct X as (Hbok' & Htok' & Hext & Htell & Hfe' & Hout' & Hoffs' & Hdh' & Hih' & Hhd' & Hty' & _).
  set (off := wm_fend (wm_b_raw (wm_tx_base x))) in *.
  assert (Hoffnz : off <> 0) by (subst off; destruct Tbok as ((_ & H32 & _) & _); lia).
  set (c := {| rc_off := off; rc_tag := fm_track_tag (wm_tk_type (wm_tx_tk x)) JLS_TRACK_CHUNK_SUMMARY;
               rc_meta := wm_meta sid (N.of_nat L); rc_pay := payload |}) in *.
  exists c.
  assert (Hmapoff : map rc_off (cs ++ [c]) = map rc_off cs ++ [off]) by (rewrite map_app; reflexivity).
  split.
  - constructor; cbn [wm_tx_base wm_tx_tk wm_tx_ts x1].
    + exact Hbok'.
    + exact Htok'.
    + rewrite Hty'. exact Tty.
    + exact Tlen.
    + exact Tdec.
    + rewrite Hmapoff. apply Forall_app. split; [exact Tnz|constructor; [exact Hoffnz|constructor]].
    + rewrite Hmapoff. apply Forall2_app.
      * eapply rt_Forall2_impl; [|exact Tdisk]. intros a b Hab. apply rt_chunk_rel_app. exact Hab.
      * constructor; [|constructor]. cbn [rt_chunk_rel rc_tag rc_meta rc_pay c].
        split; [rewrite Tty; reflexivity|]. split; [reflexivity|]. exists ts0. reflexivity.
    + intros M HM. rewrite Hoffs', Hmapoff. destruct (Theads M HM) as (E1 & E2).
      split; [rewrite rt_psi_app by (rewrite map_length; exact E2); exact E1|rewrite app_length; lia].
  - split; [|apply (rt_dl_cons cs c x x1 Hdl); [exact Hext|exact Hout']].
    unfold rt_out. cbn [wm_tx_base x1]. rewrite Hout'. apply rt_filter_cons_mine; [|exact Hout].
    apply (rt_mine_tag c JLS_TRACK_CHUNK_SUMMARY); [tauto|cbn [rc_tag c]; rewrite Tty; reflexivity|cbn [rc_meta c]; apply rt_meta_sid; lia].
Qed.


Lemma rt_S_set_ts : forall pre cs x disk h s',
  rt_S pre cs x disk h -> length (wm_ts_levels s') = 16%nat -> wm_ts_dec s' = N.of_nat d ->
  rt_S pre cs (wm_tx_set_ts x s') disk h.
Proof.
  intros pre cs x disk h s' ([Tbok Ttok Tty Tlen Tdec Tnz Tdisk Theads] & Hout & Hdl) Hl Hd.
  split; [|split; [exact Hout|eapply rt_dl_same; [exact Hdl|reflexivity]]]. constructor; cbn [wm_tx_set_ts wm_tx_base wm_tx_tk wm_tx_ts]; assumption.
Qed.

Lemma rt_alloc_len : forall s l, length (wm_ts_levels (wm_ts_alloc s l)) = length (wm_ts_levels s).
Proof. intros s l. unfold wm_ts_alloc. destruct (wm_ts_get s l); [reflexivity|apply rt_ts_set_len]. Qed.
Lemma rt_alloc_dec : forall s l, wm_ts_dec (wm_ts_alloc s l) = wm_ts_dec s.
Proof. intros s l. unfold wm_ts_alloc. destruct (wm_ts_get s l); reflexivity. Qed.
Lemma rt_alloc_other : forall s l l', l <> l' -> wm_ts_get (wm_ts_alloc s l) l' = wm_ts_get s l'.
Proof. intros s l l' H. unfold wm_ts_alloc. destruct (wm_ts_get s l); [reflexivity|apply rt_ts_get_set_neq; exact H]. Qed.

Lemma rt_level0_rel : forall offs, rt_lvl_rel offs wm_ts_level0 ts_level0.
Proof.
  intros offs. unfold rt_lvl_rel, wm_ts_level0, ts_level0. cbn.
  split; [reflexivity|]. split; [reflexivity|]. split; [reflexivity|]. split; [constructor|]. split; [reflexivity|]. split; lia.
Qed.

Lemma rt_get_16 : forall s, length (wm_ts_levels s) = 16%nat -> forall M, (16 <= M)%nat -> wm_ts_get s (N.of_nat M) = None.
Proof. intros s Hl M HM. unfold wm_ts_get. rewrite Nat2N.id. apply nth_overflow. lia. Qed.

Lemma rt_lvls_cons : forall offs s L l r lv,
  wm_ts_get s (N.of_nat L) = Some lv -> rt_lvl_rel offs lv l -> rt_lvls offs s (S L) r -> rt_lvls offs s L (l :: r).
Proof. intros offs s L l r lv H1 H2 H3. cbn [rt_lvls]. split; [exists lv; split; assumption|exact H3]. Qed.

(* ---- commit(level, mode) ---- *)
Lemma rt_sim_commit : forall fuel L wfuel close pre cs x disk h l ups l' ups' ch h',
  rt_S pre cs x disk h -> rt_lvls (map rc_off cs) (wm_tx_ts x) L (l :: ups) -> (1 <= L < 16)%nat -> (fuel <= wfuel)%nat ->
  ts_commit A SE fuel d close L l ups (length cs) h = TsCRes A SE true l' ups' ch h' ->
  let x' := wm_ts_commit wfuel sid close (N.of_nat L) x in
  exists cs', rt_S pre (cs ++ cs') x' (disk ++ ch) h' /\
              rt_lvls (map rc_off (cs ++ cs')) (wm_tx_ts x') L (l' :: ups').
Proof.
  induction fuel as [|f IH]; intros L wfuel close pre cs x disk h l ups l' ups' ch h' HS Hlv HL Hwf Hc x'; [discriminate Hc|].
  destruct wfuel as [|wf]; [lia|]. subst x'. cbn [wm_ts_commit ts_commit] in *.
  pose proof HS as (HR & Hout & Hdl). pose proof HR as [Tbok Ttok Tty Tlen Tdec Tnz Tdisk Theads].
  cbn [rt_lvls] in Hlv. destruct Hlv as ((lv & Hget & Hrel) & Hups).
  rewrite Hget. destruct Hrel as (A1 & A2 & A3 & A4 & A5 & A6 & A7).
  assert (Hlenidx : length (wm_tl_idx lv) = length (tl_idx l)) by (rewrite <- (rev_length (wm_tl_idx lv)), A3, map_length; reflexivity).
  assert (Hlensum : length (wm_tl_sum lv) = length (tl_sum l)) by (rewrite <- (rev_length (wm_tl_sum lv)), A5, map_length; reflexivity).
  destruct (tl_idx l) as [|e0 es0] eqn:Eidx.
  - (* nothing pending *)
    injection Hc as <- <- <- <-. rewrite A1, Hlenidx. cbn [length N.of_nat N.eqb].
    exists []. rewrite !app_nil_r. split; [exact HS|]. cbn [rt_lvls]. split; [|exact Hups].
    exists lv. split; [exact Hget|]. unfold rt_lvl_rel. rewrite Eidx. repeat split; assumption.
  - assert (Hnz : (wm_tl_nidx lv =? 0) = false) by (rewrite A1, Hlenidx; reflexivity). rewrite Hnz.
    assert (Hcl : (negb close && (JLS_SUMMARY_LEVEL_COUNT <=? N.of_nat L + 1)) = (negb close && (ts_LEVEL_COUNT <=? S L)%nat)).
    { f_equal. unfold JLS_SUMMARY_LEVEL_COUNT, ts_LEVEL_COUNT.
      destruct (N.leb_spec 16 (N.of_nat L + 1)); destruct (Nat.leb_spec 16 (S L)); try reflexivity; lia. }
    rewrite Hcl. destruct (negb close && (ts_LEVEL_COUNT <=? S L)%nat) eqn:Ecl; [discriminate Hc|].
    (* the INDEX chunk *)
    set (idx := wm_rev (wm_tl_idx lv)) in *. set (sums := wm_rev (wm_tl_sum lv)) in *.
    assert (Eidxw : idx = map (rt_ent (map rc_off cs)) (e0 :: es0)) by (subst idx; rewrite wm_rev_eq; exact A3).
    assert (Esums : sums = map encS (tl_sum l)) by (subst sums; rewrite wm_rev_eq; exact A5).
    assert (Ets0 : fst (hd (0%Z, 0) idx) = fst e0) by (rewrite Eidxw; reflexivity).
    rewrite Ets0.
    set (ipay := wm_ts_index_payload (fst e0) (wm_tl_nidx lv) idx).
    assert (Eipay : ipay = wm_ts_index_payload (fst (hd (0%Z, 0%nat) (e0 :: es0))) (N.of_nat (length (e0 :: es0))) (map (rt_ent (map rc_off cs)) (e0 :: es0))).
    { subst ipay. rewrite Eidxw, A1, Hlenidx. reflexivity. }
    assert (Eiplen : rf_len ipay = SIZEOF_payload_header + SIZEOF_index_entry * wm_tl_nidx lv).
    { rewrite Eipay, rt_index_payload_len, map_length, A1, Hlenidx. reflexivity. }
    assert (Hiplt : rf_len ipay < 4294967296).
    { rewrite Eiplen, A1, Hlenidx. unfold SIZEOF_payload_header, SIZEOF_index_entry. lia. }
    rewrite <- Eiplen.
    assert (Hes : Forall (fun e => (snd e <= length cs)%nat) (e0 :: es0)) by (rewrite map_length in A4; exact A4).
    destruct (rt_sim_index pre cs x disk h L (e0 :: es0) ipay HS HL Hiplt Eipay Hes) as (ci & HS1 & Hoffi).
    cbv zeta in HS1.
    destruct (wm_core_wr_index (wm_tx_base x) sid (wm_tx_tk x) (N.of_nat L) ipay (rf_len ipay)) as [b1 t1] eqn:Ewi. cbn [fst snd] in HS1.
    (* the SUMMARY chunk *)
    set (s1 := if close then wm_tx_ts x else wm_ts_alloc (wm_tx_ts x) (N.of_nat L + 1)) in *.
    set (spay := wm_ts_summary_payload (fst e0) (wm_tl_nsum lv) sums).
    assert (Espay : spay = wm_ts_summary_payload (fst e0) (N.of_nat (length (tl_sum l))) (map encS (tl_sum l))).
    { subst spay. rewrite Esums, A2, Hlensum. reflexivity. }
    assert (Esplen : rf_len spay = SIZEOF_payload_header + 16 * wm_tl_nsum lv).
    { rewrite Espay, rt_summary_payload_len; [rewrite map_length, A2, Hlensum; reflexivity|].
      apply Forall_forall. intros e He. apply in_map_iff in He. destruct He as (s0 & <- & _). apply HencS. }
    rewrite <- Esplen.
    set (s2 := match wm_ts_get s1 (N.of_nat L + 1) with
               | Some up => wm_ts_set s1 (N.of_nat L + 1)
                   (Some (if close then wm_tl_push_idx up (fst e0, wm_raw_chunk_tell (wm_b_raw (wm_tx_base x)))
                          else wm_tl_push_sum (wm_tl_push_idx up (fst e0, wm_raw_chunk_tell (wm_b_raw (wm_tx_base x)))) (hd wm_zero16 sums)))
               | None => s1 end).
    set (x1 := {| wm_tx_base := b1; wm_tx_tk := t1; wm_tx_ts := wm_tx_ts x |}) in *.
    destruct (rt_sim_summary pre (cs ++ [ci]) x1 (disk ++ [TsIndex L (e0 :: es0)]) _ L (tl_sum l) (fst e0) HS1 HL A7) as (cs0 & HS2).
    cbv zeta in HS2. rewrite <- Espay in HS2. cbn [wm_tx_base wm_tx_tk wm_tx_ts x1] in HS2.
    destruct (wm_core_wr_summary b1 sid t1 (N.of_nat L) spay (rf_len spay)) as [b2 t2] eqn:Ews. cbn [fst snd] in HS2.
    set (h1 := ts_head_upd h L (S (length cs))) in *.
    set (cs2 := (cs ++ [ci]) ++ [cs0]) in *.
    set (disk2 := (disk ++ [TsIndex L (e0 :: es0)]) ++ [TsSummary L (tl_sum l)]) in *.
    assert (Hlen2 : length cs2 = (length cs + 2)%nat) by (subst cs2; rewrite !app_length; cbn [length]; lia).
    assert (Hoffs2 : map rc_off cs2 = map rc_off cs ++ [rc_off ci; rc_off cs0]).
    { subst cs2. rewrite !map_app. cbn [map]. rewrite <- app_assoc. reflexivity. }
    assert (Hs1len : length (wm_ts_levels s1) = 16%nat) by (subst s1; destruct close; [exact Tlen|rewrite rt_alloc_len; exact Tlen]).
    assert (Hs1dec : wm_ts_dec s1 = N.of_nat d) by (subst s1; destruct close; [exact Tdec|rewrite rt_alloc_dec; exact Tdec]).
    assert (Hs1L : wm_ts_get s1 (N.of_nat L) = Some lv).
    { subst s1. destruct close; [exact Hget|]. rewrite rt_alloc_other by lia. exact Hget. }
    assert (Hpsi : rt_psi (map rc_off cs2) (S (length cs)) = wm_raw_chunk_tell (wm_b_raw (wm_tx_base x))).
    { rewrite Hoffs2. replace (S (length cs)) with (S (length (map rc_off cs) + 0)) by (rewrite map_length; lia).
      rewrite rt_psi_new by (cbn [length]; lia). cbn [nth]. exact Hoffi. }
    (* TsModel's view of the upper level *)
    set (ups1 := if close then ups else match ups with [] => [ts_level0] | _ => ups end) in *.
    (* wm levels S L .. against ups1 *)
    assert (Hups1 : rt_lvls (map rc_off cs) s1 (S L) ups1).
    { subst s1 ups1. destruct close; [exact Hups|].
      cbn [negb andb] in Ecl. apply Nat.leb_gt in Ecl. unfold ts_LEVEL_COUNT in Ecl.
      destruct ups as [|u0 ur].
      - cbn [rt_lvls] in *. split.
        + exists wm_ts_level0. split; [|apply rt_level0_rel].
          unfold wm_ts_alloc. rewrite rf_ofnat_succ_t. rewrite (Hups (S L)) by lia. apply rt_ts_get_set_eq. rewrite Tlen. lia.
        + intros M HM. rewrite rt_alloc_other by lia. apply Hups. lia.
      - cbn [rt_lvls] in Hups. destruct Hups as ((lvu & Hgu & Hru) & Hrest).
        eapply rt_lvls_ext; [|cbn [rt_lvls]; split; [exists lvu; split; [exact Hgu|exact Hru]|exact Hrest]].
        intros M HM. unfold wm_ts_alloc. rewrite rf_ofnat_succ_t, Hgu. reflexivity. }
    destruct ups1 as [|u ups2] eqn:Eups1.
    + (* no upper level (CLOSE mode) *)
      injection Hc as <- <- <- <-.
      assert (Hnone : wm_ts_get s1 (N.of_nat L + 1) = None).
      { rewrite rf_ofnat_succ_t. destruct (Nat.lt_ge_cases (S L) 16) as [Hlt|Hge]; [apply Hups1; lia|apply rt_get_16; [exact Hs1len|exact Hge]]. }
      subst s2. rewrite Hnone. cbv beta iota. rewrite Hnone.
      set (x2 := {| wm_tx_base := b2; wm_tx_tk := t2; wm_tx_ts := s1 |}).
      exists [ci; cs0].
      replace (cs ++ [ci; cs0]) with cs2 by (subst cs2; rewrite <- app_assoc; reflexivity).
      replace (disk ++ [TsIndex L (e0 :: es0); TsSummary L (tl_sum l)]) with disk2 by (subst disk2; rewrite <- app_assoc; reflexivity).
      split.
      * apply rt_S_set_ts; [|rewrite rt_ts_set_len; exact Hs1len|rewrite rt_ts_set_dec; exact Hs1dec].
        apply (rt_S_set_ts pre cs2 {| wm_tx_base := b2; wm_tx_tk := t2; wm_tx_ts := wm_tx_ts x |} disk2 h1 s1 HS2 Hs1len Hs1dec).
      * subst x2. cbn [wm_tx_set_ts wm_tx_ts]. apply (rt_lvls_cons _ _ _ _ _ wm_ts_level0).
        -- apply rt_ts_get_set_eq; rewrite Hs1len; lia.
        -- apply rt_level0_rel.
        -- cbn [rt_lvls]. intros M HM. rewrite rt_ts_get_set_neq by lia. apply Hups1. lia.
    + (* an upper level exists: one index entry (and, NORMAL mode, one summary entry) goes up *)
      cbn [rt_lvls] in Hups1. destruct Hups1 as ((up & Hgup & Hrup) & Hups2).
      destruct (Nat.leb_spec d (length (tl_idx u))) as [Hov|Hfit]; [discriminate Hc|].
      rewrite <- rf_ofnat_succ_t in Hgup. subst s2. rewrite Hgup.
      destruct Hrup as (U1 & U2 & U3 & U4 & U5 & U6 & U7).
      set (uidx := tl_idx u ++ [(fst e0, S (length cs))]) in *.
      (* the summary part *)
      assert (Husum : exists us up2,
                (if close then Some (tl_sum u)
                 else match tl_sum l with [] => None | s0 :: _ => if (d <=? length (tl_sum u))%nat then None else Some (tl_sum u ++ [s0]) end) = Some us /\
                (if close then wm_tl_push_idx up (fst e0, wm_raw_chunk_tell (wm_b_raw (wm_tx_base x)))
                 else wm_tl_push_sum (wm_tl_push_idx up (fst e0, wm_raw_chunk_tell (wm_b_raw (wm_tx_base x)))) (hd wm_zero16 sums)) = up2 /\
                rt_lvl_rel (map rc_off cs2) up2 {| tl_idx := uidx; tl_sum := us |}).
      { assert (Hidxrel : rev ((fst e0, wm_raw_chunk_tell (wm_b_raw (wm_tx_base x))) :: wm_tl_idx up) = map (rt_ent (map rc_off cs2)) uidx).
        { cbn [rev]. rewrite U3. subst uidx. rewrite map_app. cbn [map]. unfold rt_ent at 3. cbn [fst snd]. rewrite Hpsi. f_equal.
          apply map_ext_in. intros e He. rewrite Forall_forall in U4. unfold rt_ent. rewrite Hoffs2, rt_psi_app by (apply U4; exact He). reflexivity. }
        assert (Hidxv : Forall (fun e => (snd e <= length (map rc_off cs2))%nat) uidx).
        { subst uidx. apply Forall_app. split.
          - eapply Forall_impl; [|exact U4]. cbv beta. intros a Ha. rewrite !map_length in *. lia.
          - constructor; [cbn [snd]; rewrite map_length; lia|constructor]. }
        assert (Hidxl : (length uidx <= d)%nat) by (subst uidx; rewrite app_length; cbn [length]; lia).
        destruct close.
        - eexists. eexists. split; [reflexivity|]. split; [reflexivity|].
          unfold rt_lvl_rel, wm_tl_push_idx. cbn [wm_tl_nidx wm_tl_idx wm_tl_nsum wm_tl_sum tl_idx tl_sum].
          split; [rewrite U1; cbn [length]; lia|]. split; [exact U2|]. split; [exact Hidxrel|]. split; [exact Hidxv|].
          split; [exact U5|]. split; assumption.
        - destruct (tl_sum l) as [|s0 sr] eqn:Esl; [discriminate Hc|].
          destruct (Nat.leb_spec d (length (tl_sum u))) as [Hov2|Hfit2]; [discriminate Hc|].
          eexists. eexists. split; [reflexivity|]. split; [reflexivity|].
          unfold rt_lvl_rel, wm_tl_push_idx, wm_tl_push_sum. cbn [wm_tl_nidx wm_tl_idx wm_tl_nsum wm_tl_sum tl_idx tl_sum].
          split; [rewrite U1; cbn [length]; lia|]. split; [rewrite U2; cbn [length]; lia|]. split; [exact Hidxrel|]. split; [exact Hidxv|].
          split; [cbn [rev]; rewrite U5, Esums, map_app; reflexivity|]. split; [exact Hidxl|rewrite app_length; cbn [length]; lia]. }
      destruct Husum as (us & up2 & Eus & Eup2 & Hrel2). rewrite Eus in Hc. rewrite Eup2.
      set (s2 := wm_ts_set s1 (N.of_nat L + 1) (Some up2)).
      set (x2 := {| wm_tx_base := b2; wm_tx_tk := t2; wm_tx_ts := s2 |}).
      assert (Hs2len : length (wm_ts_levels s2) = 16%nat) by (subst s2; rewrite rt_ts_set_len; exact Hs1len).
      assert (Hs2dec : wm_ts_dec s2 = N.of_nat d) by (subst s2; rewrite rt_ts_set_dec; exact Hs1dec).
      assert (HSL : (S L < 16)%nat).
      { destruct (Nat.lt_ge_cases (S L) 16) as [Hlt|Hge]; [exact Hlt|].
        rewrite rf_ofnat_succ_t, (rt_get_16 s1 Hs1len (S L) Hge) in Hgup. discriminate Hgup. }
      assert (Hget2 : wm_ts_get s2 (N.of_nat L + 1) = Some up2) by (subst s2; apply rt_ts_get_set_eq; rewrite Hs1len; lia).
      rewrite Hget2. rewrite Hs2dec.
      assert (HSx2 : rt_S pre cs2 x2 disk2 h1).
      { apply (rt_S_set_ts pre cs2 {| wm_tx_base := b2; wm_tx_tk := t2; wm_tx_ts := wm_tx_ts x |} disk2 h1 s2 HS2 Hs2len Hs2dec). }
      assert (Hlv2 : rt_lvls (map rc_off cs2) s2 (S L) ({| tl_idx := uidx; tl_sum := us |} :: ups2)).
      { cbn [rt_lvls]. split; [exists up2; split; [rewrite <- rf_ofnat_succ_t; exact Hget2|exact Hrel2]|].
        eapply rt_lvls_ext; [|rewrite Hoffs2; apply rt_lvls_app; exact Hups2].
        intros M HM. subst s2. apply rt_ts_get_set_neq. lia. }
      assert (Htest : (N.of_nat d <=? wm_tl_nidx up2) = (d <=? length uidx)%nat).
      { destruct Hrel2 as (V1 & _ & V3 & _). cbn [tl_idx] in V3. rewrite V1.
        assert (length (wm_tl_idx up2) = length uidx) by (rewrite <- (rev_length (wm_tl_idx up2)), V3, map_length; reflexivity).
        destruct (N.leb_spec (N.of_nat d) (N.of_nat (length (wm_tl_idx up2)))); destruct (Nat.leb_spec d (length uidx)); try reflexivity; lia. }
      rewrite Htest.
      destruct (Nat.leb_spec d (length uidx)) as [Hfull|Hnot].
      * (* the upper level is full: commit it *)
        replace (length cs + 2)%nat with (length cs2) in Hc by lia.
        destruct (ts_commit A SE f d close (S L) {| tl_idx := uidx; tl_sum := us |} ups2 (length cs2) h1) as [|ok u2 ups3 ch3 h3] eqn:Erec; [discriminate Hc|].
        destruct ok; [|discriminate Hc]. injection Hc as <- <- <- <-.
        destruct (IH (S L) wf close pre cs2 x2 disk2 h1 _ ups2 u2 ups3 ch3 h3 HSx2 Hlv2 ltac:(lia) ltac:(lia) Erec) as (cs3 & HS3 & Hlv3).
        rewrite <- rf_ofnat_succ_t in HS3, Hlv3.
        set (x3 := wm_ts_commit wf sid close (N.of_nat L + 1) x2) in *. clearbody x3.
        exists ([ci; cs0] ++ cs3).
        replace (cs ++ [ci; cs0] ++ cs3) with (cs2 ++ cs3) by (subst cs2; rewrite <- !app_assoc; reflexivity).
        replace (disk ++ TsIndex L (e0 :: es0) :: TsSummary L (tl_sum l) :: ch3) with (disk2 ++ ch3) by (subst disk2; rewrite <- !app_assoc; reflexivity).
        pose proof HS3 as ([T3bok T3tok T3ty T3len T3dec _ _ _] & _).
        split.
        -- apply rt_S_set_ts; [exact HS3|rewrite rt_ts_set_len; exact T3len|rewrite rt_ts_set_dec; exact T3dec].
        -- cbn [wm_tx_set_ts wm_tx_ts]. apply (rt_lvls_cons _ _ _ _ _ wm_ts_level0).
           ++ apply rt_ts_get_set_eq; rewrite T3len; lia.
           ++ apply rt_level0_rel.
           ++ eapply rt_lvls_ext; [|exact Hlv3]. intros M HM. apply rt_ts_get_set_neq. lia.
      * injection Hc as <- <- <- <-.
        exists [ci; cs0].
        replace (cs ++ [ci; cs0]) with cs2 by (subst cs2; rewrite <- app_assoc; reflexivity).
        replace (disk ++ [TsIndex L (e0 :: es0); TsSummary L (tl_sum l)]) with disk2 by (subst disk2; rewrite <- app_assoc; reflexivity).
        split.
        -- apply rt_S_set_ts; [exact HSx2|rewrite rt_ts_set_len; exact Hs2len|rewrite rt_ts_set_dec; exact Hs2dec].
        -- subst x2. cbn [wm_tx_set_ts wm_tx_ts]. apply (rt_lvls_cons _ _ _ _ _ wm_ts_level0).
           ++ apply rt_ts_get_set_eq; rewrite Hs2len; lia.
           ++ apply rt_level0_rel.
           ++ eapply rt_lvls_ext; [|exact Hlv2]. intros M HM. apply rt_ts_get_set_neq. lia.
Qed.


(* ---- the DATA chunk of jls_wr_annotation / jls_wr_utc ---- *)
Hypothesis HencA : forall r, rf_len (encA r) < 4294967296.

Lemma rt_sim_data : forall pre cs x disk h r,
  rt_S pre cs x disk h ->
  let b := wm_tx_base x in
  let t := wm_tx_tk x in
  let offset := wm_raw_chunk_tell (wm_b_raw b) in
  let hd0 := wm_mk_hdr (wm_ck_offset (wm_tk_data_head t)) (rt_tag JLS_TRACK_CHUNK_DATA) sid (rf_len (encA r)) in
  let r1 := fst (wm_raw_wr (wm_b_raw b) hd0 (encA r)) in
  let h1 := snd (wm_raw_wr (wm_b_raw b) hd0 (encA r)) in
  let r2 := fst (wm_update_item_head r1 (wm_tk_data_head t) {| wm_ck_offset := offset; wm_ck_hdr := h1 |}) in
  let dh := snd (wm_update_item_head r1 (wm_tk_data_head t) {| wm_ck_offset := offset; wm_ck_hdr := h1 |}) in
  let bt := wm_track_update (wm_b_set_raw b r2) sid (wm_tk_set_data_head t dh) 0 offset in
  let x1 := {| wm_tx_base := fst bt; wm_tx_tk := snd bt; wm_tx_ts := wm_tx_ts x |} in
  exists c, rt_S pre (cs ++ [c]) x1 (disk ++ [TsData r]) (ts_head_upd h 0 (S (length cs))) /\ rc_off c = offset.
Proof.
  intros pre cs x disk h r ([Tbok Ttok Tty Tlen Tdec Tnz Tdisk Theads] & Hout & Hdl) b t offset hd0 r1 h1 r2 dh bt x1.
  pose proof Tbok as (Hr & B1 & B2 & B3). pose proof Ttok as (Kd & Ki & Ks & Kl & Kt & Kh1 & Kh2 & Kh3).
  destruct (rt_tag_ok JLS_TRACK_CHUNK_DATA ltac:(unfold JLS_TRACK_CHUNK_DATA, JLS_TRACK_CHUNK_SUMMARY; lia)) as (Htag0 & Htag).
  pose proof (rf_append_link (wm_b_raw b) (wm_tk_data_head t) (wm_ck_offset (wm_tk_data_head t))
                (rt_tag JLS_TRACK_CHUNK_DATA) sid (encA r) Hr Kd Htag0 Htag ltac:(lia) (HencA r)) as X.
  cbv zeta in X. fold offset hd0 r1 h1 r2 dh in X.
  destruct X as (Hr2 & Hoff & Hfe2 & Hout2 & Hnh & Hin2 & Hpl2 & Hi2).
  assert (Hext1 : rf_ext (wm_b_raw b) r2).
  { eapply rf_ext_of with (new := [_]); [pose proof (rf_chunk_size_pos (rf_len (encA r))); lia | exact Hi2 | exact Hout2]. }
  assert (Hb1 : rf_bok (wm_b_set_raw b r2)).
  { unfold rf_bok. cbn [wm_b_raw wm_b_set_raw wm_b_source_head wm_b_signal_head wm_b_ud_head].
    split; [exact Hr2|]. split; [eapply rf_ref_ext; eauto|]. split; eapply rf_ref_ext; eauto. }
  assert (Ht1 : rf_tok r2 (wm_tk_set_data_head t dh)).
  { pose proof (rf_tok_ext _ _ _ Hext1 Ttok) as (A' & B' & C' & D' & E' & F' & G' & H').
    unfold rf_tok. cbn [wm_tk_set_data_head wm_tk_data_head wm_tk_index_head wm_tk_summary_head wm_tk_offsets wm_tk_type wm_tk_head].
    split; [rewrite Hnh; right; exact Hin2|]. repeat (split; [assumption|]). assumption. }
  pose proof (rf_track_update (wm_b_set_raw b r2) sid (wm_tk_set_data_head t dh) 0 offset Hb1 Ht1) as Y.
  cbv zeta in Y. fold bt in Y. cbn [wm_b_raw wm_b_set_raw] in Y.
  destruct Y as (Hbok' & Htok' & Hfe' & Hout' & Hd' & Hoffs' & _ & _ & _ & _ & Hty' & _).
  assert (Hoffnz : offset <> 0).
  { rewrite Hoff. destruct Hr as (_ & H32 & _). intro E0. change (wm_b_raw (wm_tx_base x)) with (wm_b_raw b) in H32. rewrite E0 in H32. lia. }
  set (c := {| rc_off := offset; rc_tag := rt_tag JLS_TRACK_CHUNK_DATA; rc_meta := sid; rc_pay := encA r |}) in *.
  exists c. split; [|reflexivity].
  assert (Hmapoff : map rc_off (cs ++ [c]) = map rc_off cs ++ [offset]) by (rewrite map_app; reflexivity).
  split.
  - constructor; cbn [wm_tx_base wm_tx_tk wm_tx_ts x1].
    + exact Hbok'.
    + exact Htok'.
    + rewrite Hty'. exact Tty.
    + exact Tlen.
    + exact Tdec.
    + rewrite Hmapoff. apply Forall_app. split; [exact Tnz|constructor; [exact Hoffnz|constructor]].
    + rewrite Hmapoff. apply Forall2_app.
      * eapply rt_Forall2_impl; [|exact Tdisk]. intros a0 b0 Hab. apply rt_chunk_rel_app. exact Hab.
      * constructor; [|constructor]. cbn [rt_chunk_rel rc_tag rc_meta rc_pay c]. repeat split.
    + intros M HM. rewrite Hoffs', Hmapoff. cbn [wm_tk_set_data_head wm_tk_offsets]. change (N.to_nat 0) with 0%nat.
      pose proof (rt_heads_step (map rc_off cs) (wm_tk_offsets t) h 0 offset Tnz Kl ltac:(lia) Hoffnz) as Z.
      rewrite map_length in Z.
      specialize (Z ltac:(intros M' HM'; destruct (Theads M' HM') as (E1 & E2); split; [exact E1|exact E2]) M HM).
      cbv zeta in Z. destruct Z as (Z1 & Z2). split; [exact Z1|]. rewrite !app_length, map_length in *. cbn [length] in *. lia.
  - split.
    2:{ apply (rt_dl_cons cs c x x1 Hdl).
        - cbn [wm_tx_base x1]. eapply rf_ext_trans; [exact Hext1|]. eapply rf_ext_of with (new := []); [lia|rewrite Hd'; apply incl_refl|exact Hout'].
        - unfold rt_out. cbn [wm_tx_base x1]. rewrite Hout', Hout2. reflexivity. }
    unfold rt_out. cbn [wm_tx_base x1]. rewrite Hout', Hout2. apply rt_filter_cons_mine; [|exact Hout].
    apply (rt_mine_tag c JLS_TRACK_CHUNK_DATA); [tauto|reflexivity|cbn [rc_meta c]; apply rt_sid_land].
Qed.

(* ---- one record: jls_wr_annotation / jls_wr_utc ---- *)
Definition rt_W (pre cs : list rf_chunk) (x : wm_tx) (w : ts_wr A SE) : Prop :=
  rt_S pre cs x (tw_disk w) (tw_head w) /\ rt_lvls (map rc_off cs) (wm_tx_ts x) 1 (tw_lv w) /\ tw_st w = TsOk.

Definition rt_rec (x : wm_tx) (r : A) : wm_tx :=
  rt_write sid (rt_tag JLS_TRACK_CHUNK_DATA) x (encA r) (rf_len (encA r)) (key r) (encS (summ r)).

Lemma rt_sim_write : forall wfuel pre cs x w r, (16 <= wfuel)%nat ->
  rt_W pre cs x w -> tw_st (ts_write A SE key summ d w r) = TsOk ->
  let x' := (* rt_rec with the fuel of commit generalised *)
    let b := wm_tx_base x in let t := wm_tx_tk x in
    let offset := wm_raw_chunk_tell (wm_b_raw b) in
    let hd0 := wm_mk_hdr (wm_ck_offset (wm_tk_data_head t)) (rt_tag JLS_TRACK_CHUNK_DATA) sid (rf_len (encA r)) in
    let '(r1, h1) := wm_raw_wr (wm_b_raw b) hd0 (encA r) in
    let '(r2, dh) := wm_update_item_head r1 (wm_tk_data_head t) {| wm_ck_offset := offset; wm_ck_hdr := h1 |} in
    let '(b1, t1) := wm_track_update (wm_b_set_raw b r2) sid (wm_tk_set_data_head t dh) 0 offset in
    let y := {| wm_tx_base := b1; wm_tx_tk := t1; wm_tx_ts := wm_tx_ts x |} in
    let s := wm_tx_ts y in
    if wm_ts_dec s <=? 1 then wm_tx_fault y
    else let s1 := wm_ts_alloc s 1 in
         match wm_ts_get s1 1 with
         | None => wm_tx_fault y
         | Some lv =>
           let lv1 := wm_tl_push_sum (wm_tl_push_idx lv (key r, offset)) (encS (summ r)) in
           let y1 := wm_tx_set_ts y (wm_ts_set s1 1 (Some lv1)) in
           if wm_ts_dec s <=? wm_tl_nidx lv1 then wm_ts_commit wfuel sid false 1 y1 else y1
         end in
  exists cs', rt_W pre (cs ++ cs') x' (ts_write A SE key summ d w r).
Proof.
  intros wfuel pre cs x w r Hwf (HS & Hlv & Hst) Hst' x'. subst x'. cbv zeta.
  destruct (rt_sim_data pre cs x (tw_disk w) (tw_head w) r HS) as (c & HS1 & Hoffc). cbv zeta in HS1.
  destruct (wm_raw_wr _ _ (encA r)) as [r1 h1]. cbn [fst snd] in HS1.
  destruct (wm_update_item_head r1 _ _) as [r2 dh]. cbn [fst snd] in HS1.
  destruct (wm_track_update _ sid _ 0 _) as [b1 t1]. cbn [fst snd] in HS1.
  cbv zeta. cbn [wm_tx_ts].
  pose proof HS1 as ([Tbok Ttok Tty Tlen Tdec Tnz Tdisk Theads] & Hout & Hdl1). cbn [wm_tx_ts] in Tlen, Tdec.
  rewrite Tdec. destruct (N.leb_spec (N.of_nat d) 1) as [Hbad|_]; [lia|].
  set (offset := wm_raw_chunk_tell (wm_b_raw (wm_tx_base x))) in *.
  set (y := {| wm_tx_base := b1; wm_tx_tk := t1; wm_tx_ts := wm_tx_ts x |}) in *.
  set (cs1 := cs ++ [c]) in *.
  assert (Hlen1 : length cs1 = S (length cs)) by (subst cs1; rewrite app_length; cbn [length]; lia).
  assert (Hoffs1 : map rc_off cs1 = map rc_off cs ++ [offset]) by (subst cs1; rewrite map_app; cbn [map]; rewrite Hoffc; reflexivity).
  assert (Hpsi : rt_psi (map rc_off cs1) (S (length cs)) = offset).
  { rewrite Hoffs1. replace (S (length cs)) with (S (length (map rc_off cs) + 0)) by (rewrite map_length; lia).
    rewrite rt_psi_new by (cbn [length]; lia). reflexivity. }
  (* TsModel side *)
  unfold ts_write in Hst' |- *. rewrite Hst in *.
  set (lvs1 := match tw_lv w with [] => [ts_level0] | _ => tw_lv w end) in *.
  set (s1 := wm_ts_alloc (wm_tx_ts x) 1).
  assert (Hs1len : length (wm_ts_levels s1) = 16%nat) by (subst s1; rewrite rt_alloc_len; exact Tlen).
  assert (Hs1dec : wm_ts_dec s1 = N.of_nat d) by (subst s1; rewrite rt_alloc_dec; exact Tdec).
  assert (Hlvs1 : rt_lvls (map rc_off cs) s1 1 lvs1).
  { subst s1 lvs1. destruct (tw_lv w) as [|l0 lr].
    - cbn [rt_lvls] in *. split.
      + exists wm_ts_level0. split; [|apply rt_level0_rel].
        unfold wm_ts_alloc. change 1 with (N.of_nat 1) at 1 2. rewrite (Hlv 1%nat) by lia. apply rt_ts_get_set_eq. rewrite Tlen. cbv. lia.
      + intros M HM. change 1 with (N.of_nat 1). rewrite rt_alloc_other by lia. apply Hlv. lia.
    - cbn [rt_lvls] in Hlv. destruct Hlv as ((lvu & Hgu & Hru) & Hrest).
      eapply rt_lvls_ext; [|cbn [rt_lvls]; split; [exists lvu; split; [exact Hgu|exact Hru]|exact Hrest]].
      intros M HM. unfold wm_ts_alloc. change 1 with (N.of_nat 1). rewrite Hgu. reflexivity. }
  destruct lvs1 as [|l ups] eqn:El1; [cbn [tw_st] in Hst'; discriminate Hst'|].
  cbn [rt_lvls] in Hlvs1. destruct Hlvs1 as ((lv & Hget & Hrel) & Hups). change (N.of_nat 1) with 1 in Hget. rewrite Hget.
  destruct ((d <=? length (tl_idx l))%nat || (d <=? length (tl_sum l))%nat) eqn:Eov; [cbn [tw_st] in Hst'; discriminate Hst'|].
  apply orb_false_iff in Eov. destruct Eov as (Eo1 & Eo2). apply Nat.leb_gt in Eo1, Eo2.
  destruct Hrel as (U1 & U2 & U3 & U4 & U5 & U6 & U7).
  set (l1 := {| tl_idx := tl_idx l ++ [(key r, S (length (tw_disk w)))]; tl_sum := tl_sum l ++ [summ r] |}) in *.
  set (lv1 := wm_tl_push_sum (wm_tl_push_idx lv (key r, offset)) (encS (summ r))).
  assert (Hdlen : length (tw_disk w) = length cs).
  { destruct HS as ([_ _ _ _ _ _ Td _] & _). symmetry. apply (rt_Forall2_len _ _ _ _ _ Td). }
  assert (Hrel1 : rt_lvl_rel (map rc_off cs1) lv1 l1).
  { subst lv1 l1. unfold rt_lvl_rel, wm_tl_push_idx, wm_tl_push_sum. cbn [wm_tl_nidx wm_tl_idx wm_tl_nsum wm_tl_sum tl_idx tl_sum].
    split; [rewrite U1; cbn [length]; lia|]. split; [rewrite U2; cbn [length]; lia|].
    split. { cbn [rev]. rewrite U3, map_app. cbn [map]. unfold rt_ent at 3. cbn [fst snd]. rewrite Hdlen, Hpsi. f_equal.
             apply map_ext_in. intros e He. rewrite Forall_forall in U4. unfold rt_ent. rewrite Hoffs1, rt_psi_app by (apply U4; exact He). reflexivity. }
    split. { apply Forall_app. split; [eapply Forall_impl; [|exact U4]; cbv beta; intros a0 Ha; rewrite !map_length in *; lia|].
             constructor; [cbn [snd]; rewrite map_length; lia|constructor]. }
    split; [cbn [rev]; rewrite U5, map_app; reflexivity|]. rewrite !app_length. cbn [length]. split; lia. }
  set (s2 := wm_ts_set s1 1 (Some lv1)).
  assert (Hs2len : length (wm_ts_levels s2) = 16%nat) by (subst s2; rewrite rt_ts_set_len; exact Hs1len).
  assert (Hs2dec : wm_ts_dec s2 = N.of_nat d) by (subst s2; rewrite rt_ts_set_dec; exact Hs1dec).
  assert (HSy1 : rt_S pre cs1 (wm_tx_set_ts y s2) (tw_disk w ++ [TsData r]) (ts_head_upd (tw_head w) 0 (S (length cs)))).
  { apply rt_S_set_ts; [exact HS1|exact Hs2len|exact Hs2dec]. }
  assert (Hlvy1 : rt_lvls (map rc_off cs1) s2 1 (l1 :: ups)).
  { apply (rt_lvls_cons _ _ _ _ _ lv1); [subst s2; change (N.of_nat 1) with 1; apply rt_ts_get_set_eq; rewrite Hs1len; cbv; lia|exact Hrel1|].
    eapply rt_lvls_ext; [|rewrite Hoffs1; apply rt_lvls_app; exact Hups].
    intros M HM. subst s2. apply rt_ts_get_set_neq. lia. }
  assert (Htest : (N.of_nat d <=? wm_tl_nidx lv1) = (d <=? length (tl_idx l1))%nat).
  { destruct Hrel1 as (V1 & _ & V3 & _). rewrite V1.
    assert (length (wm_tl_idx lv1) = length (tl_idx l1)) by (rewrite <- (rev_length (wm_tl_idx lv1)), V3, map_length; reflexivity).
    destruct (N.leb_spec (N.of_nat d) (N.of_nat (length (wm_tl_idx lv1)))); destruct (Nat.leb_spec d (length (tl_idx l1))); try reflexivity; lia. }
  fold s1. fold lv1. fold s2. rewrite Htest.
  destruct (d <=? length (tl_idx l1))%nat eqn:Efull.
  - rewrite Hdlen in Hst' |- *. rewrite <- Hlen1 in Hst' |- *.
    destruct (ts_commit A SE ts_LEVEL_COUNT d false 1 l1 ups (length cs1) (ts_head_upd (tw_head w) 0 (length cs1))) as [|ok l2 ups2 ch h2] eqn:Ec;
      [cbn [tw_st] in Hst'; discriminate Hst'|].
    cbn [tw_st] in Hst'. destruct ok; [|discriminate Hst'].
    rewrite Hlen1 in Ec.
    destruct (rt_sim_commit ts_LEVEL_COUNT 1 wfuel false pre cs1 (wm_tx_set_ts y s2) _ _ l1 ups l2 ups2 ch h2 HSy1 Hlvy1 ltac:(lia)
                ltac:(unfold ts_LEVEL_COUNT; lia) ltac:(rewrite Hlen1; exact Ec)) as (cs3 & HS3 & Hlv3).
    change (N.of_nat 1) with 1 in HS3, Hlv3.
    exists ([c] ++ cs3). rewrite app_assoc. fold cs1.
    split; [cbn [tw_disk tw_head]; exact HS3|]. split; [cbn [tw_lv]; exact Hlv3|reflexivity].
  - exists [c]. fold cs1. split; [cbn [tw_disk tw_head]; rewrite Hdlen; exact HSy1|]. split; [cbn [tw_lv]; exact Hlvy1|reflexivity].
Qed.


Lemma rt_sim_rec : forall pre cs x w r,
  rt_W pre cs x w -> tw_st (ts_write A SE key summ d w r) = TsOk ->
  exists cs', rt_W pre (cs ++ cs') (rt_rec x r) (ts_write A SE key summ d w r).
Proof.
  intros pre cs x w r HW Hst.
  destruct (rt_sim_write wm_level_count pre cs x w r ltac:(change wm_level_count with 16%nat; lia) HW Hst) as (cs' & HW').
  exists cs'. cbv zeta in HW'. unfold rt_rec, rt_write, wm_ts_add.
  destruct (wm_raw_wr _ _ (encA r)) as [r1 h1]. destruct (wm_update_item_head r1 _ _) as [r2 dh].
  destruct (wm_track_update _ sid _ 0 _) as [b1 t1]. exact HW'.
Qed.

(* status: an error or a fault never goes away *)
Lemma rt_status_write : forall w r, tw_st (ts_write A SE key summ d w r) = TsOk -> tw_st w = TsOk.
Proof.
  intros w r H. unfold ts_write in H. destruct (tw_st w) eqn:E; [reflexivity| |congruence].
  destruct (match tw_lv w with [] => [ts_level0] | _ => tw_lv w end) as [|l ups]; [cbn [tw_st] in H; discriminate H|].
  destruct ((d <=? length (tl_idx l))%nat || (d <=? length (tl_sum l))%nat); [cbn [tw_st] in H; discriminate H|].
  cbn [tl_idx] in H.
  destruct (d <=? length (tl_idx l ++ [(key r, S (length (tw_disk w)))]))%nat; [|cbn [tw_st] in H; discriminate H].
  destruct (ts_commit _ _ _ _ _ _ _ _ _ _); [cbn [tw_st] in H; discriminate H|]. cbn [tw_st] in H. destruct ok; discriminate H.
Qed.
Lemma rt_status_fold : forall recs w, tw_st (fold_left (ts_write A SE key summ d) recs w) = TsOk -> tw_st w = TsOk.
Proof.
  induction recs as [|r recs IH]; intros w H; [exact H|]. cbn [fold_left] in H. apply IH in H. eapply rt_status_write; eauto.
Qed.

Lemma rt_sim_recs : forall recs pre cs x w,
  rt_W pre cs x w -> tw_st (fold_left (ts_write A SE key summ d) recs w) = TsOk ->
  exists cs', rt_W pre (cs ++ cs') (fold_left rt_rec recs x) (fold_left (ts_write A SE key summ d) recs w).
Proof.
  induction recs as [|r recs IH]; intros pre cs x w HW Hst.
  - exists []. rewrite app_nil_r. exact HW.
  - cbn [fold_left] in *.
    destruct (rt_sim_rec pre cs x w r HW (rt_status_fold recs _ Hst)) as (cs1 & HW1).
    destruct (IH pre (cs ++ cs1) _ _ HW1 Hst) as (cs2 & HW2). exists (cs1 ++ cs2). rewrite app_assoc. exact HW2.
Qed.

(* ---- jls_wr_ts_close ---- *)
Lemma rt_commit_close_ok : forall f L l ups b h ok l' ups' ch h',
  ts_commit A SE f d true L l ups b h = TsCRes A SE ok l' ups' ch h' -> ok = true.
Proof.
  induction f as [|f IH]; intros L l ups b h ok l' ups' ch h' H; [discriminate H|]. cbn [ts_commit] in H.
  destruct (tl_idx l) as [|e0 es0]; [injection H as <- _ _ _ _; reflexivity|]. cbn [negb andb] in H.
  destruct ups as [|u ups2]; [injection H as <- _ _ _ _; reflexivity|].
  destruct (d <=? length (tl_idx u))%nat; [discriminate H|].
  destruct (d <=? length (tl_idx u ++ [(fst e0, S b)]))%nat; [|injection H as <- _ _ _ _; reflexivity].
  destruct (ts_commit A SE f d true (S L) _ ups2 (b + 2) _) as [|ok2 u2 ups3 ch3 h3] eqn:E; [discriminate H|].
  pose proof (IH _ _ _ _ _ _ _ _ _ _ E) as ->. injection H as <- _ _ _ _. reflexivity.
Qed.

Lemma rt_commit_none : forall wfuel x level close, wm_ts_get (wm_tx_ts x) level = None -> wm_ts_commit (S wfuel) sid close level x = x.
Proof. intros wfuel x level close H. cbn [wm_ts_commit]. rewrite H. reflexivity. Qed.

Lemma rt_close_rest : forall wfuel n L x, (forall M, (L <= M < 16)%nat -> wm_ts_get (wm_tx_ts x) (N.of_nat M) = None) -> (L + n = 16)%nat ->
  fold_left (fun x level => wm_ts_commit (S wfuel) sid true level x) (map N.of_nat (seq L n)) x = x.
Proof.
  intros wfuel n. induction n as [|n IH]; intros L x H Hn; [reflexivity|].
  cbn [seq map fold_left]. rewrite rt_commit_none by (apply H; lia). apply IH; [intros M HM; apply H; lia|lia].
Qed.

Lemma rt_sim_close_loop : forall wfuel n L lvs pre cs x disk h lvs' ch h', (16 <= S wfuel)%nat ->
  rt_S pre cs x disk h -> rt_lvls (map rc_off cs) (wm_tx_ts x) L lvs -> (1 <= L)%nat -> (L + n = 16)%nat ->
  ts_close_loop A SE n d L lvs (length cs) h = Some (lvs', ch, h') ->
  exists cs', rt_S pre (cs ++ cs') (fold_left (fun x level => wm_ts_commit (S wfuel) sid true level x) (map N.of_nat (seq L n)) x) (disk ++ ch) h'.
Proof.
  intros wfuel n. induction n as [|n IH]; intros L lvs pre cs x disk h lvs' ch h' Hwf HS Hlv HL Hn Hc.
  - cbn [ts_close_loop] in Hc. injection Hc as <- <- <-. exists []. rewrite !app_nil_r. exact HS.
  - cbn [ts_close_loop] in Hc. destruct lvs as [|l ups].
    + injection Hc as <- <- <-. exists []. rewrite !app_nil_r. rewrite rt_close_rest; [exact HS|exact Hlv|exact Hn].
    + destruct (ts_commit A SE ts_LEVEL_COUNT d true L l ups (length cs) h) as [|ok l1 ups1 ch1 h1] eqn:Ec; [discriminate Hc|].
      pose proof (rt_commit_close_ok _ _ _ _ _ _ _ _ _ _ _ Ec) as ->.
      destruct (rt_sim_commit ts_LEVEL_COUNT L (S wfuel) true pre cs x disk h l ups l1 ups1 ch1 h1 HS Hlv ltac:(lia) ltac:(unfold ts_LEVEL_COUNT; lia) Ec)
        as (cs1 & HS1 & Hlv1).
      cbn [rt_lvls] in Hlv1. destruct Hlv1 as (_ & Hlv1).
      assert (Hlen1 : length (cs ++ cs1) = (length cs + length ch1)%nat).
      { destruct HS as ([_ _ _ _ _ _ Td _] & _). destruct HS1 as ([_ _ _ _ _ _ Td1 _] & _).
        pose proof (rt_Forall2_len _ _ _ _ _ Td). pose proof (rt_Forall2_len _ _ _ _ _ Td1). rewrite !app_length in *. lia. }
      destruct (ts_close_loop A SE n d (S L) ups1 (length cs + length ch1) h1) as [[[ups2 ch2] h2]|] eqn:Er; [|discriminate Hc].
      injection Hc as <- <- <-. rewrite <- Hlen1 in Er.
      destruct (IH (S L) ups1 pre (cs ++ cs1) _ (disk ++ ch1) h1 ups2 ch2 h2 Hwf HS1 Hlv1 ltac:(lia) ltac:(lia) Er) as (cs2 & HS2).
      exists (cs1 ++ cs2). rewrite !app_assoc. cbn [seq map fold_left]. exact HS2.
Qed.

(* ---- C: the whole track ---- *)
Definition rt_fresh (x : wm_tx) : Prop :=
  rf_bok (wm_tx_base x) /\ rf_tok (wm_b_raw (wm_tx_base x)) (wm_tx_tk x) /\ wm_tk_type (wm_tx_tk x) = ty /\
  wm_tk_offsets (wm_tx_tk x) = repeat 0 16 /\ wm_tx_ts x = wm_ts_open (N.of_nat d).

Theorem rt_ts_refines_gen : forall recs x0,
  rt_fresh x0 -> rt_dl [] x0 ->
  let w := ts_file A SE key summ d recs in
  tw_st w = TsOk ->
  let x := wm_ts_close sid (fold_left rt_rec recs x0) in
  exists cs,
    rt_dl cs x /\
    filter rt_mine (rt_out x) = rev cs ++ filter rt_mine (rt_out x0) /\
    Forall2 (rt_chunk_rel (map rc_off cs)) cs (tw_disk w) /\
    wm_fault (wm_b_raw (wm_tx_base x)) = false /\ rf_bok (wm_tx_base x) /\
    (forall L, (L < 16)%nat -> wm_get_off (wm_tk_offsets (wm_tx_tk x)) (N.of_nat L) = rt_psi (map rc_off cs) (tw_head w L)).
Proof.
  intros recs x0 (Fb & Ft & Fty & Foffs & Fts) Hdl0 w Hst x.
  assert (HW0 : rt_W (filter rt_mine (rt_out x0)) [] x0 ts_wr0).
  { split; [|split; [|reflexivity]].
    - split; [|split; [reflexivity|exact Hdl0]]. constructor; cbn [ts_wr0 tw_disk tw_head map length]; try assumption.
      + rewrite Fts. cbn. reflexivity.
      + rewrite Fts. reflexivity.
      + constructor.
      + constructor.
      + intros L HL. rewrite Foffs. split; [|lia]. unfold wm_get_off. rewrite Nat2N.id. cbn [rt_psi].
        destruct (nth_in_or_default L (repeat 0 16) 0) as [Hin|E0]; [apply repeat_spec in Hin; exact Hin|exact E0].
    - cbn [ts_wr0 tw_lv rt_lvls map]. intros M HM. rewrite Fts. unfold wm_ts_get, wm_ts_open. cbn [wm_ts_levels]. rewrite Nat2N.id.
      destruct (nth_in_or_default M (repeat (@None wm_ts_level) wm_level_count) None) as [Hin|E0]; [apply repeat_spec in Hin; exact Hin|exact E0]. }
  subst w. unfold ts_file, ts_close in Hst |- *.
  set (w1 := fold_left (ts_write A SE key summ d) recs ts_wr0) in *.
  assert (Hst1 : tw_st w1 = TsOk).
  { destruct (tw_st w1) eqn:E; [reflexivity| |congruence].
    destruct (ts_close_loop A SE (ts_LEVEL_COUNT - 1) d 1 (tw_lv w1) (length (tw_disk w1)) (tw_head w1)) as [[[a b] c]|]; cbn [tw_st] in Hst; discriminate Hst. }
  destruct (rt_sim_recs recs _ [] x0 ts_wr0 HW0 Hst1) as (cs1 & (HS1 & Hlv1 & _)). cbn [app] in HS1, Hlv1. fold w1 in HS1, Hlv1.
  rewrite Hst1 in Hst |- *.
  assert (Hdl : length (tw_disk w1) = length cs1).
  { destruct HS1 as ([_ _ _ _ _ _ Td _] & _). symmetry. apply (rt_Forall2_len _ _ _ _ _ Td). }
  rewrite Hdl in Hst |- *.
  destruct (ts_close_loop A SE (ts_LEVEL_COUNT - 1) d 1 (tw_lv w1) (length cs1) (tw_head w1)) as [[[lvs2 ch2] h2]|] eqn:Ecl; [|cbn [tw_st] in Hst; discriminate Hst].
  change (ts_LEVEL_COUNT - 1)%nat with 15%nat in Ecl.
  destruct (rt_sim_close_loop 15 15 1 (tw_lv w1) _ cs1 _ _ _ lvs2 ch2 h2 ltac:(lia) HS1 Hlv1 ltac:(lia) ltac:(lia) Ecl) as (cs2 & HS2).
  exists (cs1 ++ cs2). cbn [tw_disk tw_head].
  assert (Ex : x = fold_left (fun x level => wm_ts_commit 16 sid true level x) (map N.of_nat (seq 1 15)) (fold_left rt_rec recs x0)) by reflexivity.
  rewrite Ex. destruct HS2 as ([Tbok Ttok Tty Tlen Tdec Tnz Tdisk Theads] & Hout & Hdlx).
  split; [exact Hdlx|]. split; [exact Hout|]. split; [exact Tdisk|]. split; [destruct Tbok as (((_ & _ & Hf) & _) & _); exact Hf|]. split; [exact Tbok|].
  intros L HL. apply Theads. exact HL.
Qed.

End RT.

Theorem rt_ts_refines : forall (A SE : Type) (key : A -> Z) (summ : A -> SE) (encA : A -> list N) (encS : SE -> list N) (sid ty : N) (d : nat),
  sid < 256 -> ty < 4 -> (forall s, length (encS s) = 16%nat) -> (2 <= d)%nat -> 16 + 16 * N.of_nat d < 4294967296 ->
  (forall r, rf_len (encA r) < 4294967296) ->
  forall (recs : list A) (x0 : wm_tx),
  rt_fresh ty d x0 ->
  let w := ts_file A SE key summ d recs in
  tw_st w = TsOk ->
  let x := wm_ts_close sid (fold_left (rt_rec A SE key summ encA encS sid ty) recs x0) in
  exists cs,
    rt_out x = rev cs ++ rt_out x0 /\
    filter (rt_mine sid ty) (rt_out x) = rev cs ++ filter (rt_mine sid ty) (rt_out x0) /\
    Forall2 (rt_chunk_rel A SE encA encS sid ty (map rc_off cs)) cs (tw_disk w) /\
    wm_fault (wm_b_raw (wm_tx_base x)) = false /\ rf_bok (wm_tx_base x) /\
    (forall L, (L < 16)%nat -> wm_get_off (wm_tk_offsets (wm_tx_tk x)) (N.of_nat L) = rt_psi (map rc_off cs) (tw_head w L)).
Proof.
  intros A SE key summ encA encS sid ty d H1 H2 H3 H4 H5 H6 recs x0 Hfr w Hst x.
  assert (Hdl0 : rt_dl x0 0 [] x0) by (split; [apply rf_ext_refl|split; [apply Nat.le_refl|reflexivity]]).
  destruct (rt_ts_refines_gen A SE key summ encA encS sid ty d H1 H2 H3 H4 H5 x0 0 H6 recs x0 Hfr Hdl0 Hst) as (cs & (_ & _ & Hall) & Rest).
  exists cs. cbn [skipn] in Hall. split; [exact Hall|exact Rest].
Qed.

(* ------------------------------------------------------------------ the two instances of the API *)
Definition rt_anno_encS (s : ts_anno_sum) : list N := let '(t, ty, g, y) := s in wm_anno_summary_entry t ty g y.
Definition rt_utc_encA (p : Z * Z) : list N := wm_utc_payload (fst p) (snd p).
Definition rt_utc_encS (p : Z * Z) : list N := wm_utc_summary_entry (fst p) (snd p).

Lemma rt_anno_encS_len : forall s, length (rt_anno_encS s) = 16%nat.
Proof.
  intros [[[t ty] g] y]. unfold rt_anno_encS, wm_anno_summary_entry. rewrite !app_length, fm_enc_i64_length.
  unfold fm_enc_u8, fm_enc_u32. rewrite !fm_enc_length. reflexivity.
Qed.
Lemma rt_utc_encS_len : forall s, length (rt_utc_encS s) = 16%nat.
Proof. intros [a b]. unfold rt_utc_encS, wm_utc_summary_entry. rewrite app_length, !fm_enc_i64_length. reflexivity. Qed.
Lemma rt_utc_encA_len : forall p, rf_len (rt_utc_encA p) = SIZEOF_utc_data.
Proof.
  intros [a b]. unfold rf_len, rt_utc_encA, wm_utc_payload. rewrite app_length, rt_payload_header_len, fm_enc_i64_length. reflexivity.
Qed.

(* jls_wr_annotation, once the arguments are accepted, is rt_rec on the annotation track of the signal *)
Lemma rt_api_annotation : forall st sig a s ts,
  wm_signal_validate st sig = (0, Some s) -> (256 <=? an_type a) = false -> (256 <=? an_stype a) = false ->
  ((1 <=? an_stype a) && (an_stype a <=? 3)) = true -> wm_sg_anno s = Some ts ->
  let x' := rt_rec anno ts_anno_sum an_ts ts_anno_summ wm_anno_payload rt_anno_encS sig JLS_TRACK_TYPE_ANNOTATION
                   {| wm_tx_base := wm_st_base st; wm_tx_tk := wm_sg_tk_anno s; wm_tx_ts := ts |} a in
  wm_api_annotation st sig a = (wm_put_sig st (wm_tx_base x') (wm_sg_set_anno s (wm_tx_tk x') (Some (wm_tx_ts x'))), 0).
Proof.
  intros st sig a s ts Hv H1 H2 H3 Ha x'. unfold wm_api_annotation. rewrite Hv, H1, H2, H3, Ha. cbn [negb].
  subst x'. unfold rt_rec, rt_write, rt_tag. cbn [wm_tx_base wm_tx_tk wm_tx_ts].
  change (fm_track_tag JLS_TRACK_TYPE_ANNOTATION JLS_TRACK_CHUNK_DATA) with JLS_TAG_TRACK_ANNOTATION_DATA.
  change (wm_len (wm_anno_payload a)) with (rf_len (wm_anno_payload a)).
  destruct (wm_raw_wr _ _ (wm_anno_payload a)) as [r1 h1]. destruct (wm_update_item_head r1 _ _) as [r2 dh].
  destruct (wm_track_update _ sig _ 0 _) as [b1 t1]. reflexivity.
Qed.

Lemma rt_api_utc : forall st sig sample_id utc s ts,
  wm_signal_validate_typed st sig JLS_SIGNAL_TYPE_FSR = (0, Some s) -> wm_sg_utc s = Some ts ->
  let x' := rt_rec (Z * Z) (Z * Z) fst (fun p => p) rt_utc_encA rt_utc_encS sig JLS_TRACK_TYPE_UTC
                   {| wm_tx_base := wm_st_base st; wm_tx_tk := wm_sg_tk_utc s; wm_tx_ts := ts |} (sample_id, utc) in
  wm_api_utc st sig sample_id utc = (wm_put_sig st (wm_tx_base x') (wm_sg_set_utc s (wm_tx_tk x') (Some (wm_tx_ts x'))), 0).
Proof.
  intros st sig sample_id utc s ts Hv Ha x'. unfold wm_api_utc. rewrite Hv, Ha.
  subst x'. unfold rt_rec, rt_write, rt_tag. cbn [wm_tx_base wm_tx_tk wm_tx_ts fst snd].
  change (fm_track_tag JLS_TRACK_TYPE_UTC JLS_TRACK_CHUNK_DATA) with JLS_TAG_TRACK_UTC_DATA.
  rewrite (rt_utc_encA_len (sample_id, utc)). unfold rt_utc_encA, rt_utc_encS. cbn [fst snd].
  destruct (wm_raw_wr _ _ (wm_utc_payload sample_id utc)) as [r1 h1]. destruct (wm_update_item_head r1 _ _) as [r2 dh].
  destruct (wm_track_update _ sig _ 0 _) as [b1 t1]. reflexivity.
Qed.
