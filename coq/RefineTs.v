(* Refinement glue, annotation / UTC tracks: WmTs (byte-exact writer model, wr_ts.c) + the DATA chunk part of
   jls_wr_annotation / jls_wr_utc (WriterModel) against TsModel (chunks and entries, ordinals as offsets).

   TsModel's offsets are ordinals: the k-th chunk of the track (0-based) has offset k + 1.  They are related
   to real file offsets by the list [offs] of the offsets of the track's chunks in write order:
     rt_psi offs k = 0 if k = 0, else the offset of chunk number k - 1.
   Definitions + proofs (glue file; nothing here changes a model). *)
From Coq Require Import NArith ZArith List Bool Lia Arith.
From Coq Require Import ZifyBool ZifyN ZifyNat.
From JLS Require Import Generated CrcDefs Spec Format FormatProofs WmRaw WmCore WmTs WmProofs TsModel RefineLog.
Import ListNotations.
Local Open Scope N_scope.

Definition rt_psi (offs : list N) (k : nat) : N := match k with O => 0 | S j => nth j offs 0 end.

(* jls_wr_annotation / jls_wr_utc after the argument checks: DATA chunk, link, head table (first chunk), then
   jls_wr_ts_anno / jls_wr_ts_utc *)
Definition rt_write (sid tag : N) (x : wm_tx) (payload : list N) (plen : N) (key : Z) (sentry : list N) : wm_tx :=
  let b := wm_tx_base x in
  let r := wm_b_raw b in
  let t := wm_tx_tk x in
  let offset := wm_raw_chunk_tell r in
  let h := wm_mk_hdr (wm_ck_offset (wm_tk_data_head t)) tag sid plen in
  let '(r1, h1) := wm_raw_wr r h payload in
  let '(r2, dh) := wm_update_item_head r1 (wm_tk_data_head t) {| wm_ck_offset := offset; wm_ck_hdr := h1 |} in
  let '(b1, t1) := wm_track_update (wm_b_set_raw b r2) sid (wm_tk_set_data_head t dh) 0 offset in
  wm_ts_add sid {| wm_tx_base := b1; wm_tx_tk := t1; wm_tx_ts := wm_tx_ts x |} key offset sentry.
