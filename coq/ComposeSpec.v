(* COMPOSITION, part 4: the Spec side of the C01 chain.  The refinement theorems speak of
     g = fold_left Spec.fsr_write (the jls_wr_fsr calls of the program on the signal) (new_sig d)
   (RefineBits2.rb_blocks_stream, FsrPackProofs.pack_roundtrip_lemma).  Here: for the program class of
   refine_prog_fsr_partial and under C13's guard df_prog_ok (needed by refine_run_accept: Spec.wstep does not model the
   refusal of jls_core_signal_def_align), that state IS the state of the signal in Spec.spec_of of the whole program:
   same definition, same first sample id, same stream - hence the same rd_length / rd_window answers.
   Uses RefineDefs.rd_run_accept (return code 0 <-> Spec accepts) and RefineDefs.rd_sig_align (wm_sig_align = sp_align). *)
From Coq Require Import NArith ZArith List Bool Lia.
From JLS Require Import Generated Spec Format WmRaw WmCore WmTs WmFsr WriterModel WmProofs DefsModel DefsProofs
  RefineDefs RefinePyr2 RefineBits2 RefineProg.
Import ListNotations.
Local Open Scope N_scope.

(* ---- Spec.find_sig / upd_sig ---- *)
Lemma cmp_find_upd_other : forall c s id, sg_id (ss_def s) <> id -> find_sig (upd_sig c s) id = find_sig c id.
Proof.
  intros c s id Hne. unfold find_sig, upd_sig. cbn [c_signals].
  induction (c_signals c) as [|x l IH]; [reflexivity|]. cbn [map find].
  destruct (N.eqb_spec (sg_id (ss_def x)) (sg_id (ss_def s))) as [E|E].
  - destruct (N.eqb_spec (sg_id (ss_def s)) id) as [E2|_]; [contradiction|].
    destruct (N.eqb_spec (sg_id (ss_def x)) id) as [E3|_]; [congruence|exact IH].
  - destruct (sg_id (ss_def x) =? id); [reflexivity|exact IH].
Qed.

Lemma cmp_find_upd_same : forall c s s0 id, find_sig c id = Some s0 -> sg_id (ss_def s) = id -> find_sig (upd_sig c s) id = Some s.
Proof.
  intros c s s0 id Hf Hid. subst id. unfold find_sig, upd_sig in *. cbn [c_signals].
  induction (c_signals c) as [|x l IH]; [discriminate Hf|]. cbn [map find] in *.
  destruct (N.eqb_spec (sg_id (ss_def x)) (sg_id (ss_def s))) as [E|E].
  - rewrite N.eqb_refl. reflexivity.
  - destruct (N.eqb_spec (sg_id (ss_def x)) (sg_id (ss_def s))) as [X|_]; [contradiction|]. apply IH. exact Hf.
Qed.

Lemma cmp_find_some_id : forall c id s, find_sig c id = Some s -> sg_id (ss_def s) = id.
Proof. intros c id s H. unfold find_sig in H. apply find_some in H. destruct H as (_ & H). apply N.eqb_eq in H. exact H. Qed.

Lemma cmp_find_app : forall srcs l1 l2 ud id,
  find_sig {| c_sources := srcs; c_signals := l1 ++ l2; c_udata := ud |} id =
  match find_sig {| c_sources := srcs; c_signals := l1; c_udata := ud |} id with
  | Some s => Some s
  | None => find (fun s => sg_id (ss_def s) =? id) l2
  end.
Proof.
  intros srcs l1 l2 ud id. unfold find_sig. cbn [c_signals]. induction l1 as [|x l1 IH]; [reflexivity|].
  cbn [app find]. destruct (sg_id (ss_def x) =? id); [reflexivity|exact IH].
Qed.

Lemma cmp_sp_align_id : forall d, sg_id (sp_align d) = sg_id d.
Proof. reflexivity. Qed.

(* ---- the stream view of one signal (definition, first id, samples), insensitive to annotations / UTC ---- *)
Definition cmp_same_stream (s g : sigstate) : Prop :=
  ss_def s = ss_def g /\ ss_first s = ss_first g /\ ss_samples s = ss_samples g.

Lemma cmp_fsr_write_same : forall s g sid samples, cmp_same_stream s g -> cmp_same_stream (fsr_write s sid samples) (fsr_write g sid samples).
Proof.
  intros s g sid samples (A & B & C). unfold fsr_write. destruct samples as [|s0 sm]; [split; [exact A|split; assumption]|].
  rewrite B. destruct (ss_first g) as [f|]; cbn [ss_def ss_first ss_samples]; [|split; [exact A|split; reflexivity]].
  split; [exact A|]. split; [reflexivity|]. rewrite A, C. reflexivity.
Qed.

(* one call of the program after the definition: the signal's stream follows the fold over its jls_wr_fsr calls *)
Lemma cmp_spec_step : forall c o sid s g, find_sig c sid = Some s -> cmp_same_stream s g ->
  sg_type (ss_def s) = JLS_SIGNAL_TYPE_FSR ->
  exists s', find_sig (fst (wstep c o)) sid = Some s' /\
    cmp_same_stream s' (fold_left (fun g c => fsr_write g (fst c) (snd c)) (rf_calls (rp_proj sid [o])) g).
Proof.
  intros c o sid s g Hf Hs Hty. pose proof (cmp_find_some_id c sid s Hf) as Hid.
  destruct o as [ds|d'|sg smp_id smp|sg en|sg a|sg smp_id utc|u|]; cbn [wstep rp_proj rf_calls fold_left].
  - destruct (_ && _); cbn [fst]; exists s; (split; [exact Hf|exact Hs]).
  - match goal with |- context [if ?b then _ else _] => destruct b end; cbn [fst]; [|exists s; split; [exact Hf|exact Hs]].
    exists s. split; [|exact Hs]. destruct c as [srcs sigs ud]. cbn [c_sources c_signals c_udata]. rewrite cmp_find_app, Hf. reflexivity.
  - destruct (N.eqb_spec sg sid) as [->|Hne].
    + rewrite Hf, Hty, N.eqb_refl. cbn [fst rf_calls fold_left snd].
      exists (fsr_write s smp_id smp). split.
      * eapply cmp_find_upd_same; [exact Hf|]. unfold fsr_write. destruct smp; [exact Hid|]. destruct (ss_first s); exact Hid.
      * apply cmp_fsr_write_same. exact Hs.
    + cbn [rf_calls fold_left]. destruct (find_sig c sg) as [sx|] eqn:Ex; [|cbn [fst]; exists s; split; [exact Hf|exact Hs]].
      destruct (sg_type (ss_def sx) =? JLS_SIGNAL_TYPE_FSR); cbn [fst]; [|exists s; split; [exact Hf|exact Hs]].
      exists s. split; [|exact Hs]. rewrite cmp_find_upd_other; [exact Hf|].
      pose proof (cmp_find_some_id c sg sx Ex) as Hidx. unfold fsr_write. destruct smp; [congruence|]. destruct (ss_first sx); cbn [ss_def]; congruence.
  - assert (E : fst (match find_sig c sg with
                     | Some s0 => if sg_type (ss_def s0) =? JLS_SIGNAL_TYPE_FSR then (c, true) else (c, false)
                     | None => (c, false) end) = c).
    { destruct (find_sig c sg) as [s0|]; [destruct (sg_type (ss_def s0) =? JLS_SIGNAL_TYPE_FSR)|]; reflexivity. }
    rewrite E. exists s. split; [exact Hf|]. destruct (sg =? sid); exact Hs.
  - destruct (find_sig c sg) as [sx|] eqn:Ex; [|cbn [fst]; exists s; split; [exact Hf|exact Hs]].
    destruct (stype_ok_anno (an_stype a) && (an_type a <? 256)); cbn [fst]; [|exists s; split; [exact Hf|exact Hs]].
    pose proof (cmp_find_some_id c sg sx Ex) as Hidx.
    destruct (N.eq_dec sg sid) as [->|Hne].
    + rewrite Hf in Ex. injection Ex as <-. eexists. split; [eapply cmp_find_upd_same; [exact Hf|exact Hid]|].
      destruct Hs as (A & B & C). split; [exact A|split; [exact B|exact C]].
    + exists s. split; [|exact Hs]. rewrite cmp_find_upd_other; [exact Hf|]. cbn [ss_def]. congruence.
  - destruct (find_sig c sg) as [sx|] eqn:Ex; [|cbn [fst]; exists s; split; [exact Hf|exact Hs]].
    destruct (sg_type (ss_def sx) =? JLS_SIGNAL_TYPE_FSR); cbn [fst]; [|exists s; split; [exact Hf|exact Hs]].
    pose proof (cmp_find_some_id c sg sx Ex) as Hidx.
    destruct (N.eq_dec sg sid) as [->|Hne].
    + rewrite Hf in Ex. injection Ex as <-. eexists. split; [eapply cmp_find_upd_same; [exact Hf|exact Hid]|].
      destruct Hs as (A & B & C). split; [exact A|split; [exact B|exact C]].
    + exists s. split; [|exact Hs]. rewrite cmp_find_upd_other; [exact Hf|]. cbn [ss_def]. congruence.
  - destruct (stype_ok_ud (ud_stype u)); [destruct (ud_stype u =? 0)|]; cbn [fst]; exists s; (split; [exact Hf|exact Hs]).
  - cbn [fst]. exists s. split; [exact Hf|exact Hs].
Qed.

Lemma cmp_run_spec_fst : forall p c, fst (run_spec c p) = fold_left (fun c o => fst (wstep c o)) p c.
Proof.
  induction p as [|o p IH]; intros c; [reflexivity|]. cbn [run_spec fold_left].
  destruct (wstep c o) as [c1 a] eqn:E. specialize (IH c1). destruct (run_spec c1 p) as [c2 l]. cbn [fst] in *. exact IH.
Qed.

Lemma cmp_proj_app : forall sid a b, rp_proj sid (a ++ b) = rp_proj sid a ++ rp_proj sid b.
Proof.
  intros sid a b. induction a as [|o a IH]; [reflexivity|]. cbn [app rp_proj].
  destruct o; try exact IH; destruct (_ =? sid); cbn [app]; rewrite IH; reflexivity.
Qed.
Lemma cmp_calls_app : forall a b, rf_calls (a ++ b) = rf_calls a ++ rf_calls b.
Proof. intros a b. induction a as [|o a IH]; [reflexivity|]. destruct o; cbn [app rf_calls]; rewrite IH; reflexivity. Qed.

Lemma cmp_spec_steps : forall p c sid s g, find_sig c sid = Some s -> cmp_same_stream s g ->
  sg_type (ss_def g) = JLS_SIGNAL_TYPE_FSR ->
  exists s', find_sig (fold_left (fun c o => fst (wstep c o)) p c) sid = Some s' /\
    cmp_same_stream s' (fold_left (fun g c => fsr_write g (fst c) (snd c)) (rf_calls (rp_proj sid p)) g).
Proof.
  induction p as [|o p IH]; intros c sid s g Hf Hs Hty; [exists s; split; [exact Hf|exact Hs]|].
  cbn [fold_left].
  destruct (cmp_spec_step c o sid s g Hf Hs ltac:(rewrite (proj1 Hs); exact Hty)) as (s1 & Hf1 & Hs1).
  change (o :: p) with ([o] ++ p). rewrite cmp_proj_app, cmp_calls_app, fold_left_app.
  apply (IH _ sid s1 _ Hf1 Hs1).
  clear - Hty. revert g Hty. generalize (rf_calls (rp_proj sid [o])). induction l as [|[a b] l IHl]; intros g Hty; [exact Hty|].
  cbn [fold_left fst snd]. apply IHl. unfold fsr_write. destruct b; [exact Hty|]. destruct (ss_first g); exact Hty.
Qed.

(* a call of p1 (which does not define sid) keeps sid undefined *)
Lemma cmp_spec_undef_step : forall c o sid, find_sig c sid = None ->
  match o with WSig d' => sg_id d' <> sid | _ => True end -> find_sig (fst (wstep c o)) sid = None.
Proof.
  intros c o sid Hf Ho.
  assert (Hupd : forall s, find_sig (upd_sig c s) sid = None).
  { intros s. destruct (N.eq_dec (sg_id (ss_def s)) sid) as [E|E]; [|rewrite cmp_find_upd_other by exact E; exact Hf].
    unfold find_sig, upd_sig in *. cbn [c_signals]. induction (c_signals c) as [|x l IH]; [reflexivity|]. cbn [map find] in *.
    destruct (N.eqb_spec (sg_id (ss_def x)) sid) as [X|X]; [discriminate Hf|].
    destruct (N.eqb_spec (sg_id (ss_def x)) (sg_id (ss_def s))) as [Y|Y]; [congruence|].
    destruct (N.eqb_spec (sg_id (ss_def x)) sid); [contradiction|]. apply IH. exact Hf. }
  destruct o as [ds|d'|sg smp_id smp|sg en|sg a|sg smp_id utc|u|]; cbn [wstep].
  - destruct (_ && _); cbn [fst]; exact Hf.
  - match goal with |- context [if ?b then _ else _] => destruct b end; cbn [fst]; [|exact Hf].
    destruct c as [srcs sigs ud]. cbn [c_sources c_signals c_udata]. rewrite cmp_find_app, Hf. cbn [find new_sig ss_def].
    rewrite cmp_sp_align_id. destruct (N.eqb_spec (sg_id d') sid); [contradiction|reflexivity].
  - destruct (find_sig c sg) as [sx|]; [destruct (sg_type (ss_def sx) =? JLS_SIGNAL_TYPE_FSR)|]; cbn [fst]; try exact Hf. apply Hupd.
  - destruct (find_sig c sg) as [sx|]; [destruct (sg_type (ss_def sx) =? JLS_SIGNAL_TYPE_FSR)|]; cbn [fst]; exact Hf.
  - destruct (find_sig c sg) as [sx|]; [destruct (stype_ok_anno (an_stype a) && (an_type a <? 256))|]; cbn [fst]; try exact Hf. apply Hupd.
  - destruct (find_sig c sg) as [sx|]; [destruct (sg_type (ss_def sx) =? JLS_SIGNAL_TYPE_FSR)|]; cbn [fst]; try exact Hf. apply Hupd.
  - destruct (stype_ok_ud (ud_stype u)); [destruct (ud_stype u =? 0)|]; cbn [fst]; exact Hf.
  - exact Hf.
Qed.

Lemma cmp_spec_undef_steps : forall p c sid, find_sig c sid = None ->
  Forall (fun o => match o with WSig d' => sg_id d' <> sid | _ => True end) p ->
  find_sig (fold_left (fun c o => fst (wstep c o)) p c) sid = None.
Proof.
  induction p as [|o p IH]; intros c sid Hf Hp; [exact Hf|]. inversion Hp as [|? ? Ho Hr]; subst. cbn [fold_left].
  apply IH; [apply cmp_spec_undef_step; assumption|exact Hr].
Qed.

(* ---- return codes of wm_steps / acceptance flags of run_spec, position by position ---- *)
Lemma cmp_run_spec_snd_app : forall p1 o p2 c,
  exists l1 l2, snd (run_spec c (p1 ++ o :: p2)) = l1 ++ snd (wstep (fold_left (fun c o => fst (wstep c o)) p1 c) o) :: l2 /\ length l1 = length p1.
Proof.
  induction p1 as [|x p1 IH]; intros o p2 c.
  - cbn [app run_spec fold_left]. destruct (wstep c o) as [c1 a]. destruct (run_spec c1 p2) as [c2 l]. exists [], l. split; reflexivity.
  - cbn [app run_spec fold_left]. destruct (wstep c x) as [c1 a] eqn:E. cbn [fst].
    destruct (IH o p2 c1) as (l1 & l2 & H & Hl). destruct (run_spec c1 (p1 ++ o :: p2)) as [c2 l]. cbn [snd] in *.
    exists (a :: l1), l2. split; [rewrite H; reflexivity|cbn [length]; rewrite Hl; reflexivity].
Qed.

Lemma cmp_app_inj_len : forall (A : Type) (a b c d : list A), length a = length c -> a ++ b = c ++ d -> a = c /\ b = d.
Proof.
  intros A a. induction a as [|x a IH]; intros b c d Hl H; destruct c as [|y c]; try discriminate Hl; [split; [reflexivity|exact H]|].
  cbn [app] in H. injection H as -> H. cbn [length] in Hl. destruct (IH b c d ltac:(lia) H) as (-> & ->). split; reflexivity.
Qed.

Section CMP_RC.
Variable summ1 : N -> list N -> wm_sentry.
Variable summN : bool -> list wm_sentry -> wm_sentry.

Lemma cmp_steps_acc : forall p st acc, snd (wm_steps summ1 summN st p acc) = rev acc ++ snd (wm_steps summ1 summN st p []).
Proof.
  induction p as [|o p IH]; intros st acc.
  - cbn [wm_steps snd]. unfold wm_rev. rewrite <- !rev_alt. cbn. rewrite app_nil_r. reflexivity.
  - cbn [wm_steps]. destruct (wm_step_rc summ1 summN st o) as [st1 rc]. rewrite (IH st1 (rc :: acc)), (IH st1 [rc]).
    cbn [rev app]. rewrite <- app_assoc. reflexivity.
Qed.

Lemma cmp_steps_snd_app : forall p1 o p2 st,
  exists l1 l2, snd (wm_steps summ1 summN st (p1 ++ o :: p2) []) =
    l1 ++ snd (wm_step_rc summ1 summN (fst (wm_steps summ1 summN st p1 [])) o) :: l2 /\ length l1 = length p1.
Proof.
  induction p1 as [|x p1 IH]; intros o p2 st.
  - cbn [app wm_steps fst]. destruct (wm_step_rc summ1 summN st o) as [st1 rc]. rewrite cmp_steps_acc. cbn [rev app snd].
    exists [], (snd (wm_steps summ1 summN st1 p2 [])). split; reflexivity.
  - cbn [app wm_steps]. destruct (wm_step_rc summ1 summN st x) as [st1 rc] eqn:E.
    rewrite cmp_steps_acc. cbn [rev app].
    destruct (IH o p2 st1) as (l1 & l2 & H & Hl). rewrite H.
    assert (Ef : fst (wm_steps summ1 summN st1 p1 [rc]) = fst (wm_steps summ1 summN st1 p1 [])).
    { rewrite !rp_steps_fold. reflexivity. }
    rewrite Ef. exists (rc :: l1), l2. split; [reflexivity|cbn [length]; rewrite Hl; reflexivity].
Qed.

(* the composition: the state of the signal in Spec.spec_of p *)
Theorem cmp_spec_signal_lemma : forall d0 d p1 p2,
  let sid := sg_id d in
  let p := p1 ++ WSig d0 :: p2 in
  df_prog_ok p -> sid <> 0 -> sg_type d = JLS_SIGNAL_TYPE_FSR ->
  Forall (fun o => match o with WSig d' => sg_id d' <> sid | _ => True end) p1 ->
  snd (wm_api_signal_def (fst (wm_steps summ1 summN wm_api_open p1 [])) d0) = 0 -> wm_sig_align d0 = Some d ->
  let g := fold_left (fun g c => fsr_write g (fst c) (snd c)) (rf_calls (rp_proj sid p2)) (new_sig d) in
  d = sp_align d0 /\
  exists s, find_sig (spec_of p) sid = Some s /\
    ss_def s = d /\ ss_first s = ss_first g /\ ss_samples s = ss_samples g /\
    rd_length s = rd_length g /\ rd_offset s = rd_offset g /\
    forall start count, rd_window s start count = rd_window g start count.
Proof.
  intros d0 d p1 p2 sid p Hok Hsid0 Hty Hns Hrc Hal g. subst p.
  (* Spec accepts the definition *)
  pose proof (rd_run_accept summ1 summN _ Hok) as Hacc. unfold wm_run_full in Hacc.
  destruct (cmp_steps_snd_app p1 (WSig d0) p2 wm_api_open) as (l1 & l2 & Hrcs & Hl1).
  destruct (wm_steps summ1 summN wm_api_open (p1 ++ WSig d0 :: p2) []) as [stx rcs] eqn:Est. cbn [snd] in Hacc, Hrcs.
  destruct (cmp_run_spec_snd_app p1 (WSig d0) p2 content0) as (m1 & m2 & Hsp & Hm1).
  rewrite Hsp, Hrcs, map_app in Hacc. cbn [map wm_step_rc] in Hacc. rewrite Hrc in Hacc.
  assert (Haccd : snd (wstep (fold_left (fun c o => fst (wstep c o)) p1 content0) (WSig d0)) = true).
  { assert (HL : length (map (fun rc : N => rc =? 0) l1) = length m1) by (rewrite map_length; lia).
    destruct (cmp_app_inj_len _ _ _ _ _ HL Hacc) as (_ & Hacc2).
    injection Hacc2 as Hacc2 _. symmetry. exact Hacc2. }
  set (c1 := fold_left (fun c o => fst (wstep c o)) p1 content0) in *.
  assert (Hc1 : find_sig c1 sid = None).
  { apply cmp_spec_undef_steps; [|exact Hns]. unfold find_sig, content0. cbn [c_signals find new_sig ss_def].
    change (sg_id signal0) with 0. destruct (N.eqb_spec 0 sid); [congruence|reflexivity]. }
  (* d = sp_align d0 *)
  assert (Hd : d = sp_align d0).
  { apply Forall_app in Hok. destruct Hok as (_ & Hok). inversion Hok as [|? ? Hd0 _]; subst. cbn [df_wop_ok] in Hd0.
    destruct Hd0 as (_ & _ & Halok).
    assert (Hdv : dt_valid (sg_dtype d0) = true).
    { cbn [wstep] in Haccd. destruct (dt_valid (sg_dtype d0)); [reflexivity|]. rewrite !andb_false_r in Haccd. cbn in Haccd.
      repeat (rewrite ?andb_false_r in Haccd; cbn [andb] in Haccd). discriminate Haccd. }
    pose proof (rd_sig_align d0 (rd_valid_has_defaults _ Hdv)) as E. rewrite Halok, Hal in E. injection E as E. exact E. }
  split; [exact Hd|].
  (* after the definition *)
  assert (Hc2 : find_sig (fst (wstep c1 (WSig d0))) sid = Some (new_sig d)).
  { cbn [wstep] in Haccd |- *. match goal with |- context [if ?b then _ else _] => destruct b end; [|discriminate Haccd].
    cbn [fst]. destruct c1 as [srcs sigs ud]. cbn [c_sources c_signals c_udata]. rewrite cmp_find_app, Hc1. cbn [find new_sig ss_def].
    rewrite cmp_sp_align_id. replace (sg_id d0) with sid by (unfold sid; rewrite Hd; reflexivity). rewrite N.eqb_refl, <- Hd. reflexivity. }
  destruct (cmp_spec_steps p2 _ sid (new_sig d) (new_sig d) Hc2 ltac:(split; [reflexivity|split; reflexivity]) Hty) as (s & Hfs & (A & B & C)).
  fold g in A, B, C.
  exists s. split.
  { unfold spec_of. rewrite cmp_run_spec_fst. rewrite fold_left_app. cbn [fold_left]. fold c1. exact Hfs. }
  assert (Hgd : ss_def g = d).
  { assert (Hfd : forall l g0, ss_def (fold_left (fun g c => fsr_write g (fst c) (snd c)) l g0) = ss_def g0).
    { induction l as [|[a b] l IH]; intros g0; [reflexivity|]. cbn [fold_left fst snd]. rewrite IH.
      unfold fsr_write. destruct b; [reflexivity|]. destruct (ss_first g0); reflexivity. }
    unfold g. rewrite Hfd. reflexivity. }
  split; [rewrite A; exact Hgd|]. split; [exact B|]. split; [exact C|].
  split; [unfold rd_length; rewrite C; reflexivity|]. split; [unfold rd_offset; rewrite B; reflexivity|].
  intros start count. unfold rd_window, rd_length. rewrite A, C. reflexivity.
Qed.

End CMP_RC.
