(* Byte-level executable model of the READER's data paths on a closed file (/repo/src/core.c read side,
   /repo/src/reader.c), built on the raw layer of RepairRaw.v: every byte of the file reaches these functions
   through rp_rd_chunk (= jls_core_rd_chunk) or rp_raw_rd_header (jls_raw_rd_header, used by jls_core_utc for
   the tag only).  Nothing here writes: rp_io has no log, and no function changes rp_file (ReaderProofs.v).

     jls_rd_open on a closed file (no repair)        rdm_open     (rp_scan, the END test, rp_scan_fsr_sample_id)
     jls_core_fsr_length incl. its cache             rdm_fsr_length
     jls_core_fsr_seek                               rdm_fsr_seek
     jls_core_rd_fsr_level1 (rd_index / rd_summary)  rdm_rd_fsr_level1
     reconstruct_omitted_chunk                       rdm_reconstruct    (u8 u4 u1 i8 i4 and "set to zero" exactly; f32 / f64
                                                     blocks through the oracle rdm_recon: the C uses logf cosf sinf sqrtf)
     jls_core_rd_fsr_data0                           rdm_rd_fsr_data0
     jls_core_fsr = jls_rd_fsr                       rdm_fsr            (copy loop with BitCopyModel.bc_bit_copy = jls_bit_copy)
     jls_core_ts_seek                                rdm_ts_seek
     jls_core_annotations = jls_rd_annotations       rdm_annotations
     jls_core_user_data = jls_rd_user_data           rdm_user_data
     jls_core_utc = jls_rd_utc                       rdm_utc            (jls_raw_chunk_next = rdm_chunk_next)
   NOT modelled: jls_rd_fsr_statistics (double arithmetic), jls_rd_sources / signals (strings), tmap.

   State: the reader's jls_core_s as RepairRaw.rp_rd (file bytes, raw state, core->buf CONTENT incl. what earlier reads
   left behind, chunk_cur, head chunks, signal_info with head_offsets and sample_id_offset) + track_fsr->signal_length
   of every signal + rd_index / rd_summary (chunk and buffer content) + two ghost fields: rdm_tr = every successful
   rp_rd_chunk so far (offset, header, payload; newest first) and rdm_stale = "some read of a buffer went beyond the
   bytes of the current payload" (the C does not check header.entry_count / data_size against the payload length:
   it then returns whatever earlier reads left in the buffer).
   Return codes are the C's.  Faults (sticky in rp_flt, as in RepairRaw): RpF_fuel (non-termination), RpF_buf (access
   outside the 1 MiB allocation / before a buffer), RpF_big (buffer growth, not modelled), RpF_param, and the RdmF_
   codes below.  int64_t arithmetic is done in Z: a result outside int64 sets RdmF_ovf (undefined behaviour in C) and
   the model goes on with the wrapped value; uint32_t products wrap silently as in C.
   Callbacks: the user callback is modelled by stopf : N -> bool, asked with the number of items delivered so far
   (true = the callback returned non-zero).  Definitions only.  Every top-level name starts with rdm_ / Rdm. *)
From Coq Require Import NArith ZArith List Bool.
From JLS Require Import Generated CrcDefs Spec Format WmRaw WmCore WmFsr WriterModel RepairRaw RepairModel BitCopyModel.
Import ListNotations.
Local Open Scope N_scope.

(* ---- fault codes (RepairRaw uses 0..9) ---- *)
Definition RdmF_div : N := 20.       (* integer division by zero: SIGFPE *)
Definition RdmF_ovf : N := 21.       (* signed 64-bit overflow: undefined behaviour; the model continues with the wrapped value *)
Definition RdmF_cast : N := 22.      (* float -> 8-bit integer conversion of a value out of range / NaN: undefined behaviour *)
Definition RdmF_dst : N := 23.       (* the caller's buffer is smaller than documented / the C writes outside it *)

(* ---- int64_t ---- *)
Definition rdm_two63 : Z := 9223372036854775808%Z.
Definition rdm_two64 : Z := 18446744073709551616%Z.
Definition rdm_wrap (z : Z) : Z := ((z + rdm_two63) mod rdm_two64 - rdm_two63)%Z.
Definition rdm_inr (z : Z) : bool := ((- rdm_two63 <=? z) && (z <? rdm_two63))%Z.
Definition rdm_two32 : N := 4294967296.
Definition rdm_i64_max : Z := (rdm_two63 - 1)%Z.
Definition rdm_i64_min : Z := (- rdm_two63)%Z.
(* i64_add_saturate of reader.c *)
Definition rdm_add_saturate (a b : Z) : Z :=
  if ((0 <? b) && (rdm_i64_max - b <? a))%Z then rdm_i64_max
  else if ((b <? 0) && (a <? rdm_i64_min - b))%Z then rdm_i64_min
  else (a + b)%Z.

(* ---- memory: a calloc'ed 1 MiB buffer whose written prefix is the list b ---- *)
Definition rdm_sub (b : list N) (off n : N) : list N :=
  let t := rp_take n (rp_skip off b) in t ++ repeat 0 (N.to_nat n - length t).
(* read n bytes at the (signed) byte offset off; len = the bytes that belong to the current content.
   (bytes, outside the allocation, beyond the content); outside the allocation the C reads foreign memory or
   crashes: no bytes are returned *)
Definition rdm_mem_rd (b : list N) (len : N) (off : Z) (n : N) : list N * bool * bool :=
  if (off <? 0)%Z then ([], true, true)
  else let o := Z.to_N off in
       if JLS_BUF_DEFAULT_SIZE <? o + n then ([], true, true)
       else (rdm_sub b o n, false, len <? o + n).
(* write bytes at a byte offset (inside the allocation) *)
Definition rdm_mem_wr (b : list N) (off : N) (d : list N) : list N :=
  let pre := rdm_sub b 0 off in pre ++ d ++ rp_skip (off + rp_len d) b.

(* ---- state ---- *)
Record rdm_ev := { rdm_ev_off : N; rdm_ev_hdr : fm_chunk_header; rdm_ev_pay : list N }.
Record rdm_st := {
  rdm_c : rp_rd;
  rdm_len : list Z;                                   (* track_fsr->signal_length, -1 = not known yet *)
  rdm_ick : wm_chunk; rdm_ibuf : list N; rdm_ilen : N;    (* rd_index_chunk, rd_index *)
  rdm_sck : wm_chunk; rdm_sbuf : list N; rdm_slen : N;    (* rd_summary_chunk, rd_summary *)
  rdm_stale : bool;                                   (* ghost *)
  rdm_tr : list rdm_ev }.                             (* ghost *)
Definition rdm_io (st : rdm_st) : rp_io := rp_io_ (rdm_c st).
Definition rdm_set_c (st : rdm_st) (c : rp_rd) : rdm_st :=
  {| rdm_c := c; rdm_len := rdm_len st; rdm_ick := rdm_ick st; rdm_ibuf := rdm_ibuf st; rdm_ilen := rdm_ilen st;
     rdm_sck := rdm_sck st; rdm_sbuf := rdm_sbuf st; rdm_slen := rdm_slen st; rdm_stale := rdm_stale st; rdm_tr := rdm_tr st |}.
Definition rdm_set_io (st : rdm_st) (s : rp_io) : rdm_st := rdm_set_c st (rp_rd_set_io (rdm_c st) s).
Definition rdm_set_len (st : rdm_st) (l : list Z) : rdm_st :=
  {| rdm_c := rdm_c st; rdm_len := l; rdm_ick := rdm_ick st; rdm_ibuf := rdm_ibuf st; rdm_ilen := rdm_ilen st;
     rdm_sck := rdm_sck st; rdm_sbuf := rdm_sbuf st; rdm_slen := rdm_slen st; rdm_stale := rdm_stale st; rdm_tr := rdm_tr st |}.
Definition rdm_set_index (st : rdm_st) (ck : wm_chunk) (b : list N) (n : N) : rdm_st :=
  {| rdm_c := rdm_c st; rdm_len := rdm_len st; rdm_ick := ck; rdm_ibuf := b; rdm_ilen := n;
     rdm_sck := rdm_sck st; rdm_sbuf := rdm_sbuf st; rdm_slen := rdm_slen st; rdm_stale := rdm_stale st; rdm_tr := rdm_tr st |}.
Definition rdm_set_summary (st : rdm_st) (ck : wm_chunk) (b : list N) (n : N) : rdm_st :=
  {| rdm_c := rdm_c st; rdm_len := rdm_len st; rdm_ick := rdm_ick st; rdm_ibuf := rdm_ibuf st; rdm_ilen := rdm_ilen st;
     rdm_sck := ck; rdm_sbuf := b; rdm_slen := n; rdm_stale := rdm_stale st; rdm_tr := rdm_tr st |}.
Definition rdm_set_stale (st : rdm_st) (b : bool) : rdm_st :=
  {| rdm_c := rdm_c st; rdm_len := rdm_len st; rdm_ick := rdm_ick st; rdm_ibuf := rdm_ibuf st; rdm_ilen := rdm_ilen st;
     rdm_sck := rdm_sck st; rdm_sbuf := rdm_sbuf st; rdm_slen := rdm_slen st; rdm_stale := rdm_stale st || b; rdm_tr := rdm_tr st |}.
Definition rdm_set_tr (st : rdm_st) (l : list rdm_ev) : rdm_st :=
  {| rdm_c := rdm_c st; rdm_len := rdm_len st; rdm_ick := rdm_ick st; rdm_ibuf := rdm_ibuf st; rdm_ilen := rdm_ilen st;
     rdm_sck := rdm_sck st; rdm_sbuf := rdm_sbuf st; rdm_slen := rdm_slen st; rdm_stale := rdm_stale st; rdm_tr := l |}.
Definition rdm_fault (st : rdm_st) (code : N) : rdm_st := rdm_set_io st (rp_io_fault (rdm_io st) code).
Definition rdm_fault_if (st : rdm_st) (b : bool) (code : N) : rdm_st := if b then rdm_fault st code else st.
Definition rdm_flt (st : rdm_st) : N := rp_flt (rdm_io st).
(* a computed int64 value: RdmF_ovf when the exact value does not fit *)
Definition rdm_i64 (st : rdm_st) (z : Z) : rdm_st * Z := (rdm_fault_if st (negb (rdm_inr z)) RdmF_ovf, rdm_wrap z).

Definition rdm_st0 (c : rp_rd) : rdm_st :=
  {| rdm_c := c; rdm_len := repeat (-1)%Z (N.to_nat JLS_SIGNAL_COUNT);
     rdm_ick := wm_chunk0; rdm_ibuf := []; rdm_ilen := 0; rdm_sck := wm_chunk0; rdm_sbuf := []; rdm_slen := 0;
     rdm_stale := false; rdm_tr := [] |}.

(* ---- jls_rd_open on a file that needs no repair ---- *)
Inductive rdm_open_res := RdmOpened (st : rdm_st) | RdmOpenErr (rc flt : N) | RdmNeedsRepair.
Definition rdm_open (f : list N) : rdm_open_res :=
  match rp_scan f with
  | inl (c, rc) => RdmOpenErr rc (rp_flt (rp_io_ c))
  | inr c =>
    if fm_tag (wm_ck_hdr (rp_cur (rp_io_ c))) =? JLS_TAG_END then
      let '(c1, rc) := rp_scan_fsr_sample_id c in
      if rc =? 0 then RdmOpened (rdm_st0 c1) else RdmOpenErr rc (rp_flt (rp_io_ c1))
    else RdmNeedsRepair
  end.

(* ---- the only accesses to the file ---- *)
Definition rdm_seek (st : rdm_st) (o : N) : rdm_st * N :=
  let '(s1, rc) := rp_chunk_seek (rdm_io st) o in (rdm_set_io st s1, rc).
Definition rdm_rd_chunk (st : rdm_st) : rdm_st * N :=
  let '(s1, rc) := rp_rd_chunk (rdm_io st) in
  let st1 := rdm_set_io st s1 in
  if rc =? 0
  then (rdm_set_tr st1 ({| rdm_ev_off := wm_ck_offset (rp_cur s1); rdm_ev_hdr := wm_ck_hdr (rp_cur s1);
                           rdm_ev_pay := rp_payload s1 |} :: rdm_tr st1), 0)
  else (st1, rc).
Definition rdm_rd_header (st : rdm_st) : rdm_st * N :=
  let '(s1, rc) := rp_raw_rd_header (rdm_io st) in (rdm_set_io st s1, rc).
(* payload_size_on_disk: uint32_t arithmetic *)
Definition rdm_disk_u32 (pl : N) : N := if pl =? 0 then 0 else (pl + fm_pad_len pl + RAW_CRC_SIZE) mod rdm_two32.
(* jls_raw_chunk_next *)
Definition rdm_chunk_next (st : rdm_st) : rdm_st * N :=
  let '(st1, rc) := rdm_rd_header st in
  if negb (rc =? 0) then (st1, rc)
  else
    let s1 := rdm_io st1 in
    let h := rp_hdr (rp_r s1) in
    let r1 := rp_r_invalidate (rp_r s1) in
    let pos := rp_offset r1 + SIZEOF_chunk_header + rdm_disk_u32 (fm_payload_length h) in
    if rp_fend r1 <? pos then (rdm_set_io st1 (rp_io_set_r s1 r1), JLS_ERROR_EMPTY)
    else if pos =? rp_fpos r1 then (rdm_set_io st1 (rp_io_set_r s1 (rp_r_set_offset r1 (rp_fpos r1))), 0)
    else
      let '(s2, ok) := rp_bk_fseek (rp_io_set_r s1 r1) pos in
      if ok then (rdm_set_io st1 (rp_io_set_r s2 (rp_r_set_offset (rp_r s2) (rp_fpos (rp_r s2)))), 0)
      else (rdm_set_io st1 s2, JLS_ERROR_EMPTY).

(* ---- reads of core->buf->start (not checked against buf->length by the C) ---- *)
Definition rdm_buf_rd (st : rdm_st) (off : Z) (n : N) : rdm_st * list N :=
  let s := rdm_io st in
  let '(b, oob, stale) := rdm_mem_rd (rp_buf s) (rp_buf_len s) off n in
  (rdm_set_stale (rdm_fault_if st oob RpF_buf) stale, b).
(* the same for a block that reconstruct_omitted_chunk has just written (buf->length is not updated by it) *)
Definition rdm_buf_rd_fresh (st : rdm_st) (off : Z) (n : N) : rdm_st * list N :=
  let s := rdm_io st in
  let '(b, oob, _) := rdm_mem_rd (rp_buf s) (rp_buf_len s) off n in
  (rdm_fault_if st oob RpF_buf, b).
Definition rdm_buf_u (st : rdm_st) (off : Z) (n : N) : rdm_st * N := let '(st1, b) := rdm_buf_rd st off n in (st1, fm_dec b).
Definition rdm_buf_i64 (st : rdm_st) (off : Z) : rdm_st * Z := let '(st1, b) := rdm_buf_rd st off 8 in (st1, fm_i64_of_u64 (fm_dec b)).
(* reads of rd_index->start / rd_summary->start *)
Definition rdm_idx_rd (st : rdm_st) (off : Z) (n : N) : rdm_st * list N :=
  let '(b, oob, stale) := rdm_mem_rd (rdm_ibuf st) (rdm_ilen st) off n in
  (rdm_set_stale (rdm_fault_if st oob RpF_buf) stale, b).
Definition rdm_sum_rd (st : rdm_st) (off : Z) (n : N) : rdm_st * list N :=
  let '(b, oob, stale) := rdm_mem_rd (rdm_sbuf st) (rdm_slen st) off n in
  (rdm_set_stale (rdm_fault_if st oob RpF_buf) stale, b).
(* writes into core->buf->start *)
Definition rdm_buf_wr (st : rdm_st) (off : N) (d : list N) : rdm_st :=
  let s := rdm_io st in
  if JLS_BUF_DEFAULT_SIZE <? off + rp_len d then rdm_fault st RpF_buf
  else rdm_set_io st (rp_io_set_buf s (rdm_mem_wr (rp_buf s) off d) (rp_buf_len s)).

(* ---- signals ---- *)
Definition rdm_sig (st : rdm_st) (id : N) : rp_sig := rp_get_sig (rdm_c st) id.
Definition rdm_def (st : rdm_st) (id : N) : sigdef := rp_sg_d (rdm_sig st id).
Definition rdm_sid0 (st : rdm_st) (id : N) : Z := rp_sg_sid0 (rdm_sig st id).
Definition rdm_offsets (st : rdm_st) (id ty : N) : list N := wm_tk_offsets (snd (rp_sg_track (rdm_sig st id) ty)).
Definition rdm_set_offsets (st : rdm_st) (id ty : N) (l : list N) : rdm_st :=
  let g := rdm_sig st id in
  let '(has, t) := rp_sg_track g ty in
  rdm_set_c st (rp_put_sig (rdm_c st) id (rp_sg_set_tk g (wm_upd (N.to_nat ty) (has, wm_tk_set_offsets t l) (rp_sg_tk g)))).
Definition rdm_get_len (st : rdm_st) (id : N) : Z := nth (N.to_nat id) (rdm_len st) (-1)%Z.
Definition rdm_put_len (st : rdm_st) (id : N) (v : Z) : rdm_st := rdm_set_len st (wm_upd (N.to_nat id) v (rdm_len st)).
Definition rdm_levels : nat := N.to_nat JLS_SUMMARY_LEVEL_COUNT.

(* ================= jls_core_fsr_length ================= *)
(* "for (level = 15; level >= 0; --level)": the highest level whose offset is non-zero and can be sought; offsets that
   can not be sought are zeroed.  (state, offsets, level, offset); offset 0 = none *)
Fixpoint rdm_len_first (k : nat) (st : rdm_st) (offs : list N) : rdm_st * list N * N * N :=
  match k with
  | O => (st, offs, 0, 0)
  | S k' =>
    let o := wm_get_off offs (N.of_nat k') in
    if o =? 0 then rdm_len_first k' st offs
    else
      let '(st1, rc) := rdm_seek st o in
      if rc =? 0 then (st1, offs, N.of_nat k', o) else rdm_len_first k' st1 (wm_upd k' 0 offs)
  end.
(* "for (lvl = level; lvl > 0; --lvl)": k = lvl.  (state, rc, offset) *)
Fixpoint rdm_len_levels (k : nat) (st : rdm_st) (id : N) (offset : N) : rdm_st * N * N :=
  match k with
  | O => (st, 0, offset)
  | S k' =>
    let '(st1, rc1) := rdm_seek st offset in
    if negb (rc1 =? 0) then (st1, rc1, offset)
    else
      let '(st2, rc2) := rdm_rd_chunk st1 in
      if negb (rc2 =? 0) then (st2, rc2, offset)
      else
        let '(st3, esb) := rdm_buf_u st2 (Z.of_N OFFSETOF_payload_entry_size_bits) 2 in
        if negb (esb =? 64) then (st3, JLS_ERROR_PARAMETER_INVALID, offset)
        else
          let '(st4, ec) := rdm_buf_u st3 (Z.of_N OFFSETOF_payload_entry_count) 4 in
          if rp_buf_len (rdm_io st4) <? SIZEOF_payload_header + ec * 8 then (st4, JLS_ERROR_PARAMETER_INVALID, offset)
          else
            let '(st5, offset1) := if 0 <? ec then rdm_buf_u st4 (Z.of_N (SIZEOF_payload_header + 8 * (ec - 1))) 8 else (st4, offset) in
            match k' with
            | O =>      (* lvl == 1: the summary that follows *)
              let '(st6, rc6) := rdm_rd_chunk st5 in
              if negb (rc6 =? 0) then (st6, rc6, offset1)
              else
                let '(st7, ts) := rdm_buf_i64 st6 0 in
                let '(st8, ec2) := rdm_buf_u st7 (Z.of_N OFFSETOF_payload_entry_count) 4 in
                let '(st9, v1) := rdm_i64 st8 (ts + Z.of_N ((ec2 * sg_sdf (rdm_def st8 id)) mod rdm_two32))%Z in
                let '(st10, v2) := rdm_i64 st9 (v1 - rdm_sid0 st9 id)%Z in
                (rdm_put_len st10 id v2, 0, offset1)
            | S _ => rdm_len_levels k' st5 id offset1
            end
  end.
(* (state, rc, samples) *)
Definition rdm_fsr_length (st : rdm_st) (id : N) : rdm_st * N * Z :=
  let rc0 := rp_signal_validate_typed (rdm_c st) id JLS_SIGNAL_TYPE_FSR in
  if negb (rc0 =? 0) then (st, rc0, 0%Z)
  else if (0 <=? rdm_get_len st id)%Z then (st, 0, rdm_get_len st id)
  else
    let '(st1, offs, level, offset) := rdm_len_first rdm_levels st (rdm_offsets st id JLS_TRACK_TYPE_FSR) in
    let st2 := rdm_set_offsets st1 id JLS_TRACK_TYPE_FSR offs in
    if offset =? 0 then (st2, 0, 0%Z)
    else
      let '(st3, rc3, offset3) := rdm_len_levels (N.to_nat level) st2 id offset in
      if negb (rc3 =? 0) then (st3, rc3, 0%Z)
      else if offset3 =? 0 then (st3, 0, rdm_get_len st3 id)
      else
        let '(st4, rc4) := rdm_seek st3 offset3 in
        if negb (rc4 =? 0) then (st4, rc4, 0%Z)
        else
          let '(st5, rc5) := rdm_rd_chunk st4 in
          if negb (rc5 =? 0) then (st5, rc5, 0%Z)
          else
            let '(st6, ts) := rdm_buf_i64 st5 0 in
            let '(st7, ec) := rdm_buf_u st6 (Z.of_N OFFSETOF_payload_entry_count) 4 in
            let '(st8, v1) := rdm_i64 st7 (ts + Z.of_N ec)%Z in
            let '(st9, v2) := rdm_i64 st8 (v1 - rdm_sid0 st8 id)%Z in
            (rdm_put_len st9 id v2, 0, v2).

(* ================= jls_core_fsr_seek ================= *)
(* the highest non-zero head offset among the levels k-1 .. 0: (level, offset) *)
Fixpoint rdm_top_level (k : nat) (offs : list N) : N * N :=
  match k with
  | O => (0, 0)
  | S k' => let o := wm_get_off offs (N.of_nat k') in if o =? 0 then rdm_top_level k' offs else (N.of_nat k', o)
  end.
(* x * m^n in int64: (value, no overflow) *)
Fixpoint rdm_mul_n (n : nat) (x m : Z) : Z * bool :=
  match n with
  | O => (x, true)
  | S n' => let y := (x * m)%Z in let '(r, ok) := rdm_mul_n n' (rdm_wrap y) m in (r, rdm_inr y && ok)
  end.
(* the step size of level lvl: (step, division by zero, no overflow) *)
Definition rdm_step_size (d : sigdef) (lvl : N) : Z * bool * bool :=
  if lvl <=? 1 then (Z.of_N (sg_spd d), false, true)
  else if (sg_sdf d =? 0) || (sg_spd d / sg_sdf d =? 0) then (0%Z, true, true)
  else
    let s1 := (Z.of_N (sg_spd d) * Z.of_N (sg_eps d / (sg_spd d / sg_sdf d)))%Z in
    let '(s2, ok) := rdm_mul_n (N.to_nat (lvl - 2)) (rdm_wrap s1) (Z.of_N (sg_sumdf d)) in
    (s2, false, rdm_inr s1 && ok).
(* "for (lvl = initial_level; lvl > level; --lvl)": k = lvl.  (state, rc, offset) *)
Fixpoint rdm_seek_levels (k : nat) (st : rdm_st) (d : sigdef) (level : N) (sample_id : Z) (offset : N) : rdm_st * N * N :=
  match k with
  | O => (st, 0, offset)
  | S k' =>
    if N.of_nat k <=? level then (st, 0, offset)
    else
      let '(step, div0, ok) := rdm_step_size d (N.of_nat k) in
      if div0 then (rdm_fault st RdmF_div, JLS_ERROR_IO, offset)
      else
        let st0 := rdm_fault_if st (negb ok) RdmF_ovf in
        let '(st1, rc1) := rdm_seek st0 offset in
        if negb (rc1 =? 0) then (st1, rc1, offset)
        else
          let '(st2, rc2) := rdm_rd_chunk st1 in
          if negb (rc2 =? 0) then (st2, rc2, offset)
          else
            let '(st3, ts) := rdm_buf_i64 st2 0 in
            let '(st4, ec) := rdm_buf_u st3 (Z.of_N OFFSETOF_payload_entry_count) 4 in
            if rp_buf_len (rdm_io st4) <? SIZEOF_payload_header + 8 * ec then (st4, JLS_ERROR_PARAMETER_INVALID, offset)
            else if (step =? 0)%Z then (rdm_fault st4 RdmF_div, JLS_ERROR_IO, offset)
            else
              let '(st5, diff) := rdm_i64 st4 (sample_id - ts)%Z in
              let idx := Z.quot diff step in
              if ((idx <? 0) || (Z.of_N ec <=? idx))%Z then (st5, JLS_ERROR_IO, offset)
              else
                let '(st6, offset1) := rdm_buf_u st5 (Z.of_N SIZEOF_payload_header + 8 * idx)%Z 8 in
                rdm_seek_levels k' st6 d level sample_id offset1
  end.
Definition rdm_fsr_seek (st : rdm_st) (id level : N) (sample_id : Z) : rdm_st * N :=
  let rc0 := rp_signal_validate (rdm_c st) id in
  if negb (rc0 =? 0) then (st, rc0)
  else if negb (sg_type (rdm_def st id) =? JLS_SIGNAL_TYPE_FSR) then (st, JLS_ERROR_NOT_SUPPORTED)
  else
    let '(top, offset) := rdm_top_level rdm_levels (rdm_offsets st id JLS_TRACK_TYPE_FSR) in
    if offset =? 0 then (st, JLS_ERROR_NOT_FOUND)
    else
      let '(st1, rc1, offset1) := rdm_seek_levels (N.to_nat top) st (rdm_def st id) level sample_id offset in
      if negb (rc1 =? 0) then (st1, rc1) else rdm_seek st1 offset1.

(* ================= jls_core_rd_fsr_level1 ================= *)
(* jls_buf_copy(dst, core->buf): the first buf->length bytes are overwritten *)
Definition rdm_copy_index (st : rdm_st) : rdm_st :=
  let s := rdm_io st in rdm_set_index st (rp_cur s) (rp_buf_put (rdm_ibuf st) (rp_payload s)) (rp_buf_len s).
Definition rdm_copy_summary (st : rdm_st) : rdm_st :=
  let s := rdm_io st in rdm_set_summary st (rp_cur s) (rp_buf_put (rdm_sbuf st) (rp_payload s)) (rp_buf_len s).
Definition rdm_ick_clear (st : rdm_st) : rdm_st :=
  rdm_set_index st {| wm_ck_offset := 0; wm_ck_hdr := wm_ck_hdr (rdm_ick st) |} (rdm_ibuf st) (rdm_ilen st).
Definition rdm_level1_load (st : rdm_st) (id : N) (start : Z) : rdm_st * N :=
  let '(st1, rc1) := if wm_ck_offset (rdm_ick st) =? 0 then rdm_fsr_seek st id 1 start else (st, 0) in
  if negb (rc1 =? 0) then (st1, rc1)
  else
    let '(st2, rc2) := rdm_rd_chunk st1 in
    if negb (rc2 =? 0) then (st2, rc2)
    else
      let st3 := rdm_copy_index st2 in
      let '(st4, rc4) := rdm_rd_chunk st3 in
      if negb (rc4 =? 0) then (st4, rc4) else (rdm_copy_summary st4, 0).
Definition rdm_rd_fsr_level1 (st : rdm_st) (id : N) (start : Z) : rdm_st * N :=
  if negb (fm_chunk_meta (wm_ck_hdr (rdm_ick st)) =? N.lor 4096 (N.land id 255)) then rdm_level1_load (rdm_ick_clear st) id start
  else if negb (wm_ck_offset (rdm_ick st) =? 0) then
    let '(st1, b1) := rdm_idx_rd st 0 8 in
    let ts := fm_i64_of_u64 (fm_dec b1) in
    let '(st2, b2) := rdm_idx_rd st1 (Z.of_N OFFSETOF_payload_entry_count) 4 in
    let '(st3, e) := rdm_i64 st2 (ts + Z.of_N ((fm_dec b2 * sg_spd (rdm_def st2 id)) mod rdm_two32))%Z in
    if ((ts <=? start) && (start <? e))%Z then (st3, 0)
    else rdm_level1_load (rdm_ick_clear st3) id start
  else rdm_level1_load st id start.

(* ================= reconstruct_omitted_chunk ================= *)
(* roundf on a binary32 bit pattern; None = infinity / NaN *)
Definition rdm_roundf (b : N) : option Z :=
  let e := N.land (N.shiftr b 23) 255 in
  let m := N.land b 8388607 in
  if e =? 255 then None
  else
    let mag := if e =? 0 then 0
               else if 150 <=? e then N.shiftl (8388608 + m) (e - 150)
               else N.shiftr (8388608 + m + N.shiftl 1 (150 - e - 1)) (150 - e) in
    Some (if N.testbit b 31 then (- Z.of_N mag)%Z else Z.of_N mag).
(* (uint8_t) roundf(x) and (uint8_t) (int8_t) roundf(x) as gcc/x86-64 computes them (cvttss2si, low byte);
   defined by the C standard only for lo <= value <= hi: (byte, defined) *)
Definition rdm_cast8 (lo hi : Z) (b : N) : N * bool :=
  match rdm_roundf b with
  | None => (0, false)
  | Some r => (if ((-2147483648 <? r) && (r <? 2147483648))%Z then Z.to_N (r mod 256) else 0, ((lo <=? r) && (r <=? hi))%Z)
  end.
(* the memset value of one summary entry for the integer types; (byte, defined) *)
Definition rdm_fill_byte (dt : N) (mu32 : N) : N * bool :=
  if dt =? JLS_DATATYPE_U8 then rdm_cast8 0 255 mu32
  else if dt =? JLS_DATATYPE_U4 then let '(v, ok) := rdm_cast8 0 255 mu32 in (N.lor (N.land v 15) (N.shiftl (N.land v 15) 4), ok)
  else if dt =? JLS_DATATYPE_U1 then let '(v, ok) := rdm_cast8 0 255 mu32 in (if N.land v 1 =? 0 then 0 else 255, ok)
  else if dt =? JLS_DATATYPE_I8 then rdm_cast8 (-128) 127 mu32
  else if dt =? JLS_DATATYPE_I4 then let '(v, ok) := rdm_cast8 (-128) 127 mu32 in (N.lor (N.land v 15) (N.shiftl (N.land v 15) 4), ok)
  else (0, true).
Definition rdm_fit (n : N) (l : list N) : list N := rdm_sub l 0 n.

Section RDM.
(* construct_f32 / construct_f64 (Box-Muller with logf cosf sinf sqrtf): is the data type f64, is the summary
   64-bit, first sample id, count, the stored bit patterns of mean and std  ->  the bytes of count samples *)
Variable rdm_recon : bool -> bool -> Z -> N -> N -> N -> list N.
(* (float) of a double, on bit patterns *)
Variable rdm_f32_of_f64 : N -> N.

(* the loop over the summary entries of one block: k counts what is left; (state, data bytes so far (reversed pieces), entry_count) *)
Fixpoint rdm_recon_loop (k : nat) (st : rdm_st) (dt : N) (is64 : bool) (sdf sz_bytes : N) (sample_id : Z) (s_index : Z) (s_ec : N)
                        (acc : list (list N)) (count : N) : rdm_st * list (list N) * N :=
  match k with
  | O => (st, acc, count)
  | S k' =>
    if (Z.of_N s_ec <=? s_index)%Z then (st, acc, count)
    else
      let esz := if is64 then 32 else 16 in
      let fsz := if is64 then 8 else 4 in
      let '(st1, bm) := rdm_sum_rd st (Z.of_N SIZEOF_payload_header + s_index * Z.of_N esz)%Z fsz in
      let '(st2, bs) := rdm_sum_rd st1 (Z.of_N SIZEOF_payload_header + s_index * Z.of_N esz + Z.of_N fsz)%Z fsz in
      let mean := fm_dec bm in
      let std := fm_dec bs in
      let '(st3, piece) :=
        if dt =? JLS_DATATYPE_F32 then (st2, rdm_fit sz_bytes (rdm_recon false is64 sample_id sdf mean std))
        else if dt =? JLS_DATATYPE_F64 then (st2, rdm_fit sz_bytes (rdm_recon true is64 sample_id sdf mean std))
        else
          let '(v, ok) := rdm_fill_byte dt (if is64 then rdm_f32_of_f64 mean else mean) in
          (rdm_fault_if st2 (negb ok) RdmF_cast, repeat v (N.to_nat sz_bytes)) in
      rdm_recon_loop k' st3 dt is64 sdf sz_bytes (rdm_wrap (sample_id + Z.of_N sdf)) (s_index + 1)%Z s_ec
                     (piece :: acc) ((count + sdf) mod rdm_two32)
  end.

Definition rdm_reconstruct (st : rdm_st) (id : N) (start : Z) : rdm_st * N :=
  let d := rdm_def st id in
  let bits := dt_bits (sg_dtype d) in
  if (sg_spd d =? 0) || (sg_sdf d =? 0) then (rdm_fault st RdmF_div, JLS_ERROR_IO)
  else
    let '(st1, b1) := rdm_idx_rd st 0 8 in
    let r_ts := fm_i64_of_u64 (fm_dec b1) in
    let '(st2, d1) := rdm_i64 st1 (start - r_ts)%Z in
    let t_index := Z.quot d1 (Z.of_N (sg_spd d)) in
    let '(st3, m1) := rdm_i64 st2 (t_index * Z.of_N (sg_spd d))%Z in
    let '(st4, sample_id) := rdm_i64 st3 (m1 + r_ts)%Z in
    let '(st5, b2) := rdm_sum_rd st4 0 8 in
    let s_ts := fm_i64_of_u64 (fm_dec b2) in
    let '(st6, b3) := rdm_sum_rd st5 (Z.of_N OFFSETOF_payload_entry_size_bits) 2 in
    let '(st7, b4) := rdm_sum_rd st6 (Z.of_N OFFSETOF_payload_entry_count) 4 in
    let s_esb := fm_dec b3 in
    let s_ec := fm_dec b4 in
    let '(st8, d2) := rdm_i64 st7 (sample_id - s_ts)%Z in
    let s_index := Z.quot d2 (Z.of_N (sg_sdf d)) in
    if negb (s_esb =? 128) && negb (s_esb =? 256) then (st8, JLS_ERROR_NOT_SUPPORTED)
    else
      let is64 := s_esb =? 256 in
      let sz := (sg_spd d * bits) / 8 + SIZEOF_payload_header in
      if (JLS_BUF_DEFAULT_SIZE <? sz) || (JLS_BUF_DEFAULT_SIZE <? sg_spd d / sg_sdf d) then (rdm_fault st8 RpF_big, JLS_ERROR_NOT_ENOUGH_MEMORY)
      else
        let sz_bytes := (sg_sdf d * bits) / 8 in
        let '(st9, acc, count) := rdm_recon_loop (N.to_nat (sg_spd d / sg_sdf d)) st8 (sg_dtype d) is64 (sg_sdf d) sz_bytes
                                                 sample_id s_index s_ec [] 0 in
        let hdr := fm_enc_i64 sample_id ++ fm_enc_u32 count ++ fm_enc_u16 bits ++ fm_enc_u16 0 in
        (rdm_buf_wr st9 0 (hdr ++ concat (wm_rev acc)), 0).

(* ================= jls_core_rd_fsr_data0 ================= *)
(* the end of jls_core_rd_fsr_data0, once chunk_sample_id is known: (state, rc, the block was reconstructed) *)
Definition rdm_data0_finish (st : rdm_st) (id : N) (start chunk_sample_id : Z) : rdm_st * N * bool :=
  let '(st6, rc6, omitted) := if (start <? chunk_sample_id)%Z then let '(s, r) := rdm_reconstruct st id start in (s, r, true)
                              else (st, 0, false) in
  if negb (rc6 =? 0) then (st6, rc6, omitted)
  else
    let '(st7, esb) := rdm_buf_u st6 (Z.of_N OFFSETOF_payload_entry_size_bits) 2 in
    if negb (esb =? dt_bits (sg_dtype (rdm_def st id))) then (st7, JLS_ERROR_PARAMETER_INVALID, omitted) else (st7, 0, omitted).
Definition rdm_rd_fsr_data0 (st : rdm_st) (id : N) (start : Z) : rdm_st * N * bool :=
  let '(st1, rc1) := rdm_rd_fsr_level1 st id start in
  if negb (rc1 =? 0) then (st1, rc1, false)
  else
    let d := rdm_def st1 id in
    if sg_spd d =? 0 then (rdm_fault st1 RdmF_div, JLS_ERROR_IO, false)
    else
      let '(st2, b1) := rdm_idx_rd st1 0 8 in
      let '(st3, d1) := rdm_i64 st2 (start - fm_i64_of_u64 (fm_dec b1))%Z in
      let idx_entry := Z.quot d1 (Z.of_N (sg_spd d)) in
      let '(st4, b2) := rdm_idx_rd st3 (Z.of_N SIZEOF_payload_header + 8 * idx_entry)%Z 8 in
      let offset := fm_dec b2 in
      if offset =? 0 then
        (* omitted: "assume full chunk".  For start >= INT64_MAX - INT32_MAX nothing is reconstructed and the C goes on with what
           the buffer holds (ghost: stale) *)
        rdm_data0_finish (rdm_set_stale st4 (negb (start <? rdm_i64_max - 2147483647)%Z)) id start (rdm_i64_max - 2147483647)%Z
      else
        let '(st5, rc5) := rdm_seek st4 offset in
        if negb (rc5 =? 0) then (st5, JLS_ERROR_NOT_FOUND, false)
        else
          let '(st6, rc6) := rdm_rd_chunk st5 in
          if rc6 =? JLS_ERROR_EMPTY then (st6, JLS_ERROR_NOT_FOUND, false)
          else if negb (rc6 =? 0) then (st6, rc6, false)
          else let '(st7, ts) := rdm_buf_i64 st6 0 in rdm_data0_finish st7 id start ts.

(* ================= jls_core_fsr ================= *)
(* one call of jls_bit_copy of the copy loop (ghost): source bytes, source bit, destination bit, bit count, from a
   reconstructed block *)
Record rdm_piece := { rdm_pc_src : list N; rdm_pc_sbit : N; rdm_pc_dbit : N; rdm_pc_cnt : N; rdm_pc_omit : bool }.
Definition rdm_apply_piece (dst : list N) (p : rdm_piece) : bc_res :=
  bc_bit_copy dst (rdm_pc_dbit p) (rdm_pc_src p) (rdm_pc_sbit p) (rdm_pc_cnt p).

(* the caller's buffer after the pieces (oldest first); None = a piece does not fit *)
Fixpoint rdm_apply_pieces (dst : list N) (pcs : list rdm_piece) : option (list N) :=
  match pcs with
  | [] => Some dst
  | p :: r => match rdm_apply_piece dst p with BC_ok d => rdm_apply_pieces d r | _ => None end
  end.

(* "while (data_length > 0)".  (state, rc, caller's buffer, pieces newest first) *)
Fixpoint rdm_fsr_loop (fuel : nat) (st : rdm_st) (id : N) (esb : N) (start : Z) (data_length : Z) (dst : list N) (dst_bit : N)
                      (pcs : list rdm_piece) : rdm_st * N * list N * list rdm_piece :=
  if (data_length <=? 0)%Z then (st, 0, dst, pcs)
  else
    match fuel with
    | O => (rdm_fault st RpF_fuel, 0, dst, pcs)
    | S fu =>
      let '(st1, rc1, omitted) := rdm_rd_fsr_data0 st id start in
      if negb (rc1 =? 0) then (st1, rc1, dst, pcs)
      else
        let '(st2, chunk_sample_id) := rdm_buf_i64 st1 0 in
        let '(st3, count) := rdm_buf_u st2 (Z.of_N OFFSETOF_payload_entry_count) 4 in
        let '(st4, esb1) := rdm_buf_u st3 (Z.of_N OFFSETOF_payload_entry_size_bits) 2 in
        if negb (esb1 =? esb) then (st4, JLS_ERROR_UNSPECIFIED, dst, pcs)
        else
          let '(st5, idx_start) := if (chunk_sample_id <? start)%Z then rdm_i64 st4 (start - chunk_sample_id)%Z else (st4, 0%Z) in
          let sz0 := (Z.of_N count - idx_start)%Z in
          let sz := if (data_length <? sz0)%Z then data_length else sz0 in
          if (sz <=? 0)%Z then (st5, JLS_ERROR_NOT_FOUND, dst, pcs)
          else
            let sbit := Z.to_N idx_start * esb in
            let cnt := Z.to_N sz * esb in
            let nbytes := (sbit mod 8 + cnt + 7) / 8 in
            let '(st6, src) := (if omitted then rdm_buf_rd_fresh else rdm_buf_rd) st5 (Z.of_N (SIZEOF_payload_header + sbit / 8)) nbytes in
            let pc := {| rdm_pc_src := src; rdm_pc_sbit := sbit mod 8; rdm_pc_dbit := dst_bit; rdm_pc_cnt := cnt; rdm_pc_omit := omitted |} in
            match rdm_apply_piece dst pc with
            | BC_ok dst1 =>
              let '(st7, start1) := rdm_i64 st6 (start + sz)%Z in
              rdm_fsr_loop fu st7 id esb start1 (data_length - sz)%Z dst1 (dst_bit + cnt) (pc :: pcs)
            | BC_oob => (rdm_fault st6 RdmF_dst, 0, dst, pcs)
            | BC_nonterm => (rdm_fault st6 RpF_fuel, 0, dst, pcs)
            end
    end.

(* jls_rd_fsr(signal_id, start_sample_id, data, data_length); dst = the caller's buffer (documented size:
   ceil(data_length * entry_size_bits / 8) bytes).  (state, rc, buffer afterwards, pieces oldest first) *)
Definition rdm_fsr (st : rdm_st) (id : N) (start data_length : Z) (dst : list N) : rdm_st * N * list N * list rdm_piece :=
  let rc0 := rp_signal_validate_typed (rdm_c st) id JLS_SIGNAL_TYPE_FSR in
  if negb (rc0 =? 0) then (st, rc0, dst, [])
  else
    let '(st1, rc1, samples) := rdm_fsr_length st id in
    if negb (rc1 =? 0) then (st1, rc1, dst, [])
    else if (data_length <=? 0)%Z then (st1, 0, dst, [])
    else if (start <? 0)%Z then (st1, JLS_ERROR_PARAMETER_INVALID, dst, [])
    else
      let esb := dt_bits (sg_dtype (rdm_def st1 id)) in
      if ((samples <? data_length) || (samples - data_length <? start))%Z then (st1, JLS_ERROR_PARAMETER_INVALID, dst, [])
      else if esb =? 0 then (rdm_fault st1 RpF_param, 0, dst, [])
      else if (Z.of_N (8 * rp_len dst) <? data_length * Z.of_N esb)%Z then (rdm_fault st1 RdmF_dst, 0, dst, [])
      else
        let '(st2, start1) := rdm_i64 st1 (start + rdm_sid0 st1 id)%Z in
        let '(st3, rc3, dst3, pcs) := rdm_fsr_loop (S (8 * length dst)) st2 id esb start1 data_length dst 0 [] in
        (st3, rc3, dst3, wm_rev pcs).
End RDM.

(* ================= jls_core_ts_seek ================= *)
(* the index search of one level: entries' timestamps in order, i = the current index.  Result: idx (may be -1) *)
Fixpoint rdm_ts_find (upper : bool) (t : Z) (tss : list Z) (i : Z) : Z :=
  match tss with
  | [] => (i - 1)%Z                                      (* idx >= entry_count: the last one *)
  | ts :: r =>
    if (t <? ts)%Z then (i - 1)%Z
    else if (ts =? t)%Z then (if upper && (0 <? i)%Z then (i - 1)%Z else i)
    else rdm_ts_find upper t r (i + 1)%Z
  end.
Fixpoint rdm_dec_index_ts (n : nat) (l : list N) : list Z :=
  match n with O => [] | S n' => fm_i64_of_u64 (fm_dec_u64 l) :: rdm_dec_index_ts n' (rp_skip SIZEOF_index_entry l) end.
(* "for (lvl = initial_level; lvl > level; --lvl)": k = lvl *)
Fixpoint rdm_ts_levels (k : nat) (st : rdm_st) (level : N) (t : Z) (offset : N) : rdm_st * N * N :=
  match k with
  | O => (st, 0, offset)
  | S k' =>
    if N.of_nat k <=? level then (st, 0, offset)
    else
      let '(st1, rc1) := rdm_seek st offset in
      if negb (rc1 =? 0) then (st1, rc1, offset)
      else
        let '(st2, rc2) := rdm_rd_chunk st1 in
        if negb (rc2 =? 0) then (st2, rc2, offset)
        else
          let '(st3, ec) := rdm_buf_u st2 (Z.of_N OFFSETOF_payload_entry_count) 4 in
          if rp_buf_len (rdm_io st3) <? SIZEOF_payload_header + SIZEOF_index_entry * ec then (st3, JLS_ERROR_PARAMETER_INVALID, offset)
          else if (ec =? 0) || (2147483648 <=? ec) then (st3, JLS_ERROR_PARAMETER_INVALID, offset)
          else
            let '(st4, ents) := rdm_buf_rd st3 (Z.of_N SIZEOF_payload_header) (SIZEOF_index_entry * ec) in
            let idx0 := rdm_ts_find (1 <? N.of_nat k) t (rdm_dec_index_ts (N.to_nat ec) ents) 0 in
            let idx := if (idx0 <? 0)%Z then 0%Z else idx0 in
            let '(st5, offset1) := rdm_buf_u st4 (Z.of_N SIZEOF_payload_header + Z.of_N SIZEOF_index_entry * idx + 8)%Z 8 in
            rdm_ts_levels k' st5 level t offset1
  end.
Definition rdm_ts_seek (st : rdm_st) (id level track_type : N) (t : Z) : rdm_st * N :=
  let rc0 := rp_signal_validate (rdm_c st) id in
  if negb (rc0 =? 0) then (st, rc0)
  else if negb ((track_type =? JLS_TRACK_TYPE_VSR) || (track_type =? JLS_TRACK_TYPE_ANNOTATION) || (track_type =? JLS_TRACK_TYPE_UTC))
  then (st, JLS_ERROR_PARAMETER_INVALID)
  else
    let '(top, offset) := rdm_top_level rdm_levels (rdm_offsets st id track_type) in
    if offset =? 0 then (st, JLS_ERROR_NOT_FOUND)
    else
      let '(st1, rc1, offset1) := rdm_ts_levels (N.to_nat top) st level t offset in
      if negb (rc1 =? 0) then (st1, rc1) else rdm_seek st1 offset1.

(* ================= jls_core_annotations ================= *)
Definition rdm_anno_data_off : N := OFFSETOF_annotation_data_size + 4.     (* offsetof(struct jls_annotation_s, data) *)
Record rdm_anno := { rdm_an_ts : Z; rdm_an_type : N; rdm_an_stype : N; rdm_an_group : N; rdm_an_y : N; rdm_an_size : N; rdm_an_data : list N }.
(* an annotation as the callback sees it: fx = the bytes [OFFSETOF_annotation_type, rdm_anno_data_off) of the buffer (annotation_type,
   storage_type, group_id, rsv, y, data_size), ts = the timestamp after "annotation->timestamp -= sample_id_offset" *)
Definition rdm_anno_size (fx : list N) : N := fm_u32_at (OFFSETOF_annotation_data_size - OFFSETOF_annotation_type) fx.
Definition rdm_anno_of (ts : Z) (fx data : list N) : rdm_anno :=
  {| rdm_an_ts := ts; rdm_an_type := fm_u8_at 0 fx; rdm_an_stype := fm_u8_at 1 fx; rdm_an_group := fm_u8_at 2 fx;
     rdm_an_y := fm_u32_at (OFFSETOF_annotation_y - OFFSETOF_annotation_type) fx; rdm_an_size := rdm_anno_size fx; rdm_an_data := data |}.
(* "while (pos)".  items newest first *)
Fixpoint rdm_anno_loop (fuel : nat) (st : rdm_st) (sid0 : Z) (stopf : N -> bool) (pos : N) (items : list rdm_anno) (n : N)
  : rdm_st * N * list rdm_anno :=
  if pos =? 0 then (st, 0, items)
  else
    match fuel with
    | O => (rdm_fault st RpF_fuel, 0, items)
    | S fu =>
      let '(st1, rc1) := rdm_seek st pos in
      if negb (rc1 =? 0) then (st1, rc1, items)
      else
        let '(st2, rc2) := rdm_rd_chunk st1 in
        if negb (rc2 =? 0) then (st2, rc2, items)
        else
          let h := wm_ck_hdr (rp_cur (rdm_io st2)) in
          if negb (fm_tag h =? JLS_TAG_TRACK_ANNOTATION_DATA) then (st2, JLS_ERROR_NOT_FOUND, items)
          else
            (* the callback reads the fields and the data after the in-place update of the timestamp; they do not overlap it *)
            let '(st3, ts0) := rdm_buf_i64 st2 0 in
            let '(st4, ts) := rdm_i64 st3 (ts0 - sid0)%Z in
            let '(st5, fx) := rdm_buf_rd st4 (Z.of_N OFFSETOF_annotation_type) (rdm_anno_data_off - OFFSETOF_annotation_type) in
            let '(st6, data) := rdm_buf_rd st5 (Z.of_N rdm_anno_data_off) (rdm_anno_size fx) in
            let st7 := rdm_buf_wr st6 0 (fm_enc_i64 ts) in
            let items1 := rdm_anno_of ts fx data :: items in
            if stopf (n + 1) then (st7, 0, items1)
            else rdm_anno_loop fu st7 sid0 stopf (fm_item_next h) items1 (n + 1)
    end.
(* fuel: one iteration per chunk read; a file of n bytes has fewer than n chunk offsets *)
Definition rdm_chain_fuel (st : rdm_st) : nat := rp_chain_fuel (rdm_io st).
(* jls_rd_annotations(signal_id, timestamp, cbk).  (state, rc, items in delivery order) *)
Definition rdm_annotations (st : rdm_st) (id : N) (timestamp : Z) (stopf : N -> bool) : rdm_st * N * list rdm_anno :=
  let rc0 := rp_signal_validate (rdm_c st) id in
  if negb (rc0 =? 0) then (st, rc0, [])
  else
    let sid0 := rdm_sid0 st id in
    let t := rdm_add_saturate timestamp sid0 in
    let '(st1, rv) := rdm_ts_seek st id 0 JLS_TRACK_TYPE_ANNOTATION t in
    if rv =? JLS_ERROR_NOT_FOUND then (st1, 0, [])
    else if negb (rv =? 0) then (st1, rv, [])
    else
      let '(st2, rc2, items) := rdm_anno_loop (rdm_chain_fuel st1) st1 sid0 stopf (rp_offset (rp_r (rdm_io st1))) [] 0 in
      (st2, rc2, wm_rev items).

(* ================= jls_core_user_data ================= *)
Record rdm_ud := { rdm_ud_meta : N; rdm_ud_stype : N; rdm_ud_data : list N }.
Fixpoint rdm_ud_loop (fuel : nat) (st : rdm_st) (stopf : N -> bool) (pos : N) (items : list rdm_ud) (n : N) : rdm_st * N * list rdm_ud :=
  if pos =? 0 then (st, 0, items)
  else
    match fuel with
    | O => (rdm_fault st RpF_fuel, 0, items)
    | S fu =>
      let '(st1, rc1) := rdm_seek st pos in
      if negb (rc1 =? 0) then (st1, rc1, items)
      else
        let '(st2, rc2) := rdm_rd_chunk st1 in
        if negb (rc2 =? 0) then (st2, rc2, items)
        else
          let h := wm_ck_hdr (rp_cur (rdm_io st2)) in
          if negb (fm_tag h =? JLS_TAG_USER_DATA) then (st2, JLS_ERROR_NOT_FOUND, items)
          else
            let stype := N.land (N.shiftr (fm_chunk_meta h) 12) 15 in
            if stype =? JLS_STORAGE_TYPE_INVALID then rdm_ud_loop fu st2 stopf (fm_item_next h) items n
            else if negb ((stype =? JLS_STORAGE_TYPE_BINARY) || (stype =? JLS_STORAGE_TYPE_STRING) || (stype =? JLS_STORAGE_TYPE_JSON))
            then (st2, JLS_ERROR_PARAMETER_INVALID, items)
            else
              let items1 := {| rdm_ud_meta := N.land (fm_chunk_meta h) 4095; rdm_ud_stype := stype; rdm_ud_data := rp_payload (rdm_io st2) |} :: items in
              if stopf (n + 1) then (st2, 0, items1)
              else rdm_ud_loop fu st2 stopf (fm_item_next h) items1 (n + 1)
    end.
Definition rdm_user_data (st : rdm_st) (stopf : N -> bool) : rdm_st * N * list rdm_ud :=
  let '(st1, rc, items) := rdm_ud_loop (rdm_chain_fuel st) st stopf (fm_item_next (wm_ck_hdr (rp_ud_head (rdm_c st)))) [] 0 in
  (st1, rc, wm_rev items).

(* ================= jls_core_utc ================= *)
(* entries of a UTC summary: (sample_id, timestamp) pairs *)
Fixpoint rdm_dec_utc (n : nat) (l : list N) : list (Z * Z) :=
  match n with
  | O => []
  | S n' => (fm_i64_of_u64 (fm_dec_u64 l), fm_i64_of_u64 (fm_dec_u64 (rp_skip 8 l))) :: rdm_dec_utc n' (rp_skip SIZEOF_utc_summary_entry l)
  end.
(* "for (; (idx < entry_count) && (sample_id > entries[idx].sample_id); ++idx)": the entries from idx on *)
Fixpoint rdm_utc_skip (sample_id : Z) (l : list (Z * Z)) : list (Z * Z) :=
  match l with
  | [] => []
  | e :: r => if (fst e <? sample_id)%Z then rdm_utc_skip sample_id r else l
  end.
(* "entries[entry_idx].sample_id -= sample_id_offset": (entries, no overflow) *)
Definition rdm_utc_shift (sid0 : Z) (l : list (Z * Z)) : list (Z * Z) * bool :=
  (map (fun e => (rdm_wrap (fst e - sid0), snd e)) l, forallb (fun e => rdm_inr (fst e - sid0)) l).
Definition rdm_enc_utc (l : list (Z * Z)) : list N := flat_map (fun e => fm_enc_i64 (fst e) ++ fm_enc_i64 (snd e)) l.
(* "while (hdr.item_next)".  entries newest first; n = entries delivered so far *)
Fixpoint rdm_utc_loop (fuel : nat) (st : rdm_st) (sid0 sample_id : Z) (stopf : N -> bool) (pos : N) (items : list (Z * Z)) (n : N)
  : rdm_st * N * list (Z * Z) :=
  if pos =? 0 then (st, 0, items)
  else
    match fuel with
    | O => (rdm_fault st RpF_fuel, 0, items)
    | S fu =>
      let '(st1, rc1) := rdm_seek st pos in
      if negb (rc1 =? 0) then (st1, rc1, items)
      else
        let '(st2, rc2) := rdm_rd_header st1 in
        if negb (rc2 =? 0) then (st2, rc2, items)
        else
          let h := rp_hdr (rp_r (rdm_io st2)) in
          if fm_tag h =? JLS_TAG_TRACK_UTC_DATA then
            let '(st3, rc3) := rdm_rd_chunk st2 in
            if negb (rc3 =? 0) then (st3, rc3, items)
            else
              let '(st4, ts0) := rdm_buf_i64 st3 0 in
              let '(st5, utc) := rdm_buf_i64 st4 (Z.of_N SIZEOF_payload_header) in
              let '(st6, sid) := rdm_i64 st5 (ts0 - sid0)%Z in
              let items1 := (sid, utc) :: items in
              if stopf (n + 1) then (st6, 0, items1)
              else rdm_utc_loop fu st6 sid0 sample_id stopf (fm_item_next h) items1 (n + 1)
          else if fm_tag h =? JLS_TAG_TRACK_UTC_INDEX then
            let '(st3, rc3) := rdm_chunk_next st2 in
            if negb (rc3 =? 0) then (st3, rc3, items)
            else
              let '(st4, rc4) := rdm_rd_chunk st3 in
              if negb (rc4 =? 0) then (st4, rc4, items)
              else if negb (fm_tag (wm_ck_hdr (rp_cur (rdm_io st4))) =? JLS_TAG_TRACK_UTC_SUMMARY) then (st4, JLS_ERROR_NOT_FOUND, items)
              else
                let '(st5, ec) := rdm_buf_u st4 (Z.of_N OFFSETOF_payload_entry_count) 4 in
                if JLS_BUF_DEFAULT_SIZE <? SIZEOF_payload_header + SIZEOF_utc_summary_entry * ec then (rdm_fault st5 RpF_buf, 0, items)
                else
                  let '(st6, raw) := rdm_buf_rd st5 (Z.of_N SIZEOF_payload_header) (SIZEOF_utc_summary_entry * ec) in
                  let all := rdm_dec_utc (N.to_nat ec) raw in
                  let rest := rdm_utc_skip sample_id all in
                  let idx := ec - N.of_nat (length rest) in
                  let '(shifted, ok) := rdm_utc_shift sid0 rest in
                  let st7 := rdm_buf_wr (rdm_fault_if st6 (negb ok) RdmF_ovf) (SIZEOF_payload_header + SIZEOF_utc_summary_entry * idx) (rdm_enc_utc shifted) in
                  match rest with
                  | [] => rdm_utc_loop fu st7 sid0 sample_id stopf (fm_item_next h) items n
                  | _ =>
                    let n1 := n + N.of_nat (length rest) in
                    let items1 := rev_append shifted items in
                    if stopf n1 then (st7, 0, items1)
                    else rdm_utc_loop fu st7 sid0 sample_id stopf (fm_item_next h) items1 n1
                  end
          else (st2, JLS_ERROR_NOT_FOUND, items)
    end.
Definition rdm_utc (st : rdm_st) (id : N) (sample_id : Z) (stopf : N -> bool) : rdm_st * N * list (Z * Z) :=
  let rc0 := rp_signal_validate (rdm_c st) id in
  if negb (rc0 =? 0) then (st, rc0, [])
  else
    let sid0 := rdm_sid0 st id in
    let t := rdm_add_saturate sample_id sid0 in
    let '(st1, rv) := rdm_ts_seek st id 1 JLS_TRACK_TYPE_UTC t in
    if rv =? JLS_ERROR_NOT_FOUND then (st1, 0, [])
    else if negb (rv =? 0) then (st1, rv, [])
    else
      let '(st2, rc2, items) := rdm_utc_loop (rdm_chain_fuel st1) st1 sid0 t stopf (rp_offset (rp_r (rdm_io st1))) [] 0 in
      (st2, rc2, wm_rev items).

(* ================= what a payload decodes to (used to state where delivered items come from) ================= *)
(* the annotation a DATA payload p decodes to, for a signal whose first sample id is sid0 *)
Definition rdm_anno_of_payload (sid0 : Z) (p : list N) : rdm_anno :=
  let fx := fm_sub OFFSETOF_annotation_type (rdm_anno_data_off - OFFSETOF_annotation_type) p in
  rdm_anno_of (rdm_wrap (fm_i64_of_u64 (fm_dec (fm_sub 0 8 p)) - sid0)) fx (fm_sub rdm_anno_data_off (rdm_anno_size fx) p).
(* what one chunk contributes: a UTC DATA chunk gives one entry, a UTC SUMMARY chunk gives its entries from the first
   one whose sample id is not below t on *)
Definition rdm_utc_data_of (sid0 : Z) (p : list N) : Z * Z :=
  (rdm_wrap (fm_i64_of_u64 (fm_dec (fm_sub 0 8 p)) - sid0), fm_i64_of_u64 (fm_dec (fm_sub SIZEOF_payload_header 8 p))).
Definition rdm_utc_summary_of (sid0 t : Z) (p : list N) : list (Z * Z) :=
  let ec := fm_dec (fm_sub OFFSETOF_payload_entry_count 4 p) in
  fst (rdm_utc_shift sid0 (rdm_utc_skip t (rdm_dec_utc (N.to_nat ec) (fm_sub SIZEOF_payload_header (SIZEOF_utc_summary_entry * ec) p)))).
