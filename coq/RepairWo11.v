(* WHAT THE REPAIR-ON-OPEN WRITES, part 11: what the classification implies for the bytes of a chunk (event level, no
   model involved).  If the events of an open are classified (strictly) and no write of the open straddles the
   extent of a chunk c = (o, h) of the file that lies below the last chunk, nor starts inside it - every write ends
   at or before o, starts at or behind o + size, or is a 32-byte write exactly at o - then in the file afterwards
     - every byte of c's payload, pad and payload CRC is the byte of the file given to the open,
     - c's header is still a CRC-valid header and its bytes 8..27 (item_prev, tag, rsv0, chunk_meta, payload_length,
       payload_prev_length) are unchanged: only item_next and crc32 may differ.
   The condition on the writes is decidable on (file, events) (rs_clear); it holds for every chunk that is not a
   TRACK_*_HEAD chunk when no chunk of the file is embedded in another one and the links of the file point to chunk
   starts - which this development does not derive from the bytes (see Properties_C03_repair.v).
   Every top-level name starts with rs_. *)
From Coq Require Import NArith ZArith List Bool Lia Arith.
From Coq Require Import ZifyBool ZifyN ZifyNat.
From JLS Require Import Generated CrcDefs Spec Format FormatProofs WriteOnce WriteOnceProofs WmRaw WmCore WmFsr WriterModel WmProofs
  RepairRaw RawReadProofs RepairModel RepairProofs RepairWo RepairWo2.
Import ListNotations.
Local Open Scope N_scope.
Ltac Zify.zify_post_hook ::= Z.div_mod_to_equations.

Local Opaque crc32c.

(* ================================================================ bytes after an event *)
Lemma rs_nth_beyond : forall (l : list N) i, (length l <= i)%nat -> nth i l 0 = 0.
Proof. intros. now apply nth_overflow. Qed.
Lemma rs_nth_repeat0 : forall k i, nth i (repeat 0 k) 0 = 0.
Proof. induction k as [| k IH]; intros i; destruct i; cbn; auto. Qed.

Lemma rs_write_nth_out : forall g off b i, i < off \/ off + rp_len b <= i ->
  nth (N.to_nat i) (fst (rp_apply (g, rp_len g) (WmWrite off b))) 0 = nth (N.to_nat i) g 0.
Proof.
  intros g off b i Hi. cbn [rp_apply fst snd]. unfold rp_apply_write. cbv zeta. unfold rp_len in *.
  destruct (N.of_nat (length g) <=? off) eqn:E; cbn [fst].
  - apply N.leb_le in E. destruct Hi as [Hi | Hi].
    + destruct (Nat.lt_ge_cases (N.to_nat i) (length g)) as [H1 | H1].
      * apply app_nth1. exact H1.
      * rewrite app_nth2 by exact H1. rewrite app_nth1 by (rewrite repeat_length; lia).
        rewrite rs_nth_repeat0. symmetry. apply rs_nth_beyond. exact H1.
    + rewrite rs_nth_beyond by (rewrite !app_length, repeat_length; lia). symmetry. apply rs_nth_beyond. lia.
  - apply N.leb_gt in E. rewrite rr_take_eq, rr_skip_eq.
    assert (Hl : length (firstn (N.to_nat off) g) = N.to_nat off) by (rewrite firstn_length; lia).
    destruct Hi as [Hi | Hi].
    + rewrite app_nth1 by lia. apply wo_nth_firstn. lia.
    + rewrite app_nth2 by lia. rewrite app_nth2 by lia. rewrite wo_nth_skipn. f_equal. lia.
Qed.
Lemma rs_write_len : forall g off b, rp_len g <= snd (rp_apply (g, rp_len g) (WmWrite off b)).
Proof.
  intros g off b. cbn [rp_apply fst snd]. unfold rp_apply_write. cbv zeta.
  destruct (rp_len g <=? off) eqn:E; cbn [snd]; [apply N.leb_le in E |]; lia.
Qed.
Lemma rs_trunc_nth : forall g len i, len <= rp_len g -> i < len ->
  nth (N.to_nat i) (fst (rp_apply (g, rp_len g) (WmTrunc len))) 0 = nth (N.to_nat i) g 0.
Proof.
  intros g len i Hl Hi. cbn [rp_apply fst snd]. destruct (len <? rp_len g) eqn:E; cbn [fst].
  - rewrite rr_take_eq. apply wo_nth_firstn. lia.
  - apply N.ltb_ge in E. replace (len - rp_len g) with 0 by lia. cbn [N.to_nat repeat]. rewrite app_nil_r. reflexivity.
Qed.

Lemma rs_len_inplace : forall (g b : list N) off, off + rp_len b <= rp_len g ->
  rp_len (firstn (N.to_nat off) g ++ b ++ skipn (N.to_nat off + length b) g) = rp_len g.
Proof. intros g b off H. unfold rp_len in *. rewrite !app_length, firstn_length, skipn_length. lia. Qed.
Lemma rs_apply_trunc_n : forall g n len, snd (rp_apply (g, n) (WmTrunc len)) = len.
Proof. intros g n len. cbn [rp_apply fst snd]. destruct (len <? n); reflexivity. Qed.

(* a header that no byte of which changed *)
Lemma rs_hdr_same : forall g g' o, o + 32 <= rp_len g -> o + 32 <= rp_len g' ->
  (forall i, o <= i -> i < o + 32 -> nth (N.to_nat i) g' 0 = nth (N.to_nat i) g 0) -> rw_hdr_at g' o = rw_hdr_at g o.
Proof.
  intros g g' o H1 H2 H. unfold rw_hdr_at. unfold rp_len in *. apply wo_decode_unchanged; try lia.
  intros i Hi. replace i with (N.to_nat (N.of_nat i)) by lia. apply H; lia.
Qed.

(* ================================================================ the condition on the writes *)
Definition rs_clear_e (o size : N) (e : wm_entry) : bool :=
  match e with
  | WmWrite off b => (off + rp_len b <=? o) || (o + size <=? off) || ((off =? o) && (rp_len b =? 32))
  | _ => true
  end.
Definition rs_clear (o size : N) (evs : list wm_entry) : bool := forallb (rs_clear_e o size) evs.

Section RS.
Variable f : list N.
Variable pos : N.
Variable o : N.
Variable h : fm_chunk_header.
Let size := fm_chunk_size (fm_payload_length h).
Hypothesis Hh : rw_hdr_at f o = Some h.
Hypothesis Ho : 32 <= o.
Hypothesis Hpos : o + size <= pos.

Definition rs_inv (st : rw_st) : Prop :=
  rw_n st = rp_len (rw_g st) /\ o + size <= rw_n st /\
  (forall i, o + 32 <= i -> i < o + size -> nth (N.to_nat i) (rw_g st) 0 = nth (N.to_nat i) f 0) /\
  (forall g, In g (rw_hist st) -> o + 32 <= rp_len g /\ exists h', rw_hdr_at g o = Some h' /\ rw_rest h' = rw_rest h) /\
  In (rw_g st) (rw_hist st).

Lemma rs_size_ge : 32 <= size.
Proof. unfold size. apply fm_chunk_size_ge. Qed.

Lemma rs_after_inv : forall st e s, rs_inv st ->
  let fl := rp_apply (rw_g st, rp_len (rw_g st)) e in
  (rp_len (rw_g st) <= snd fl \/ o + size <= snd fl) ->
  (forall i, o + 32 <= i -> i < o + size -> nth (N.to_nat i) (fst fl) 0 = nth (N.to_nat i) (rw_g st) 0) ->
  (o + 32 <= rp_len (fst fl) /\ exists h', rw_hdr_at (fst fl) o = Some h' /\ rw_rest h' = rw_rest h) ->
  rs_inv (rw_after st e s).
Proof.
  intros st e s (I1 & I2 & I3 & I4 & I5) fl Hn Hb Hhd. unfold rs_inv, rw_after. rewrite I1. fold fl. cbn [rw_g rw_n rw_hist].
  split; [unfold fl; apply rpp_apply_len; reflexivity |].
  split; [rewrite I1 in I2; destruct Hn as [Hn | Hn]; lia |].
  split; [intros i A B; rewrite Hb by assumption; apply I3; assumption |].
  split; [| now left].
  intros g [Hg | Hg]; [subst g; exact Hhd | apply I4; exact Hg].
Qed.

Lemma rs_step : forall st e s, rs_inv st -> In s (rw_next true f pos st e) -> rs_clear_e o size e = true -> rs_inv (rw_after st e s).
Proof.
  intros st e s Inv Hin Hc. pose proof Inv as (I1 & I2 & I3 & I4 & I5). pose proof rs_size_ge as Hsz.
  destruct (I4 _ I5) as (Hlen & hcur & Hcur & Rcur).
  assert (I2' : o + size <= rp_len (rw_g st)) by (rewrite <- I1; exact I2).
  destruct e as [off b | len |]; [| | destruct Hin].
  - (* a write *)
    cbn [rs_clear_e] in Hc.
    assert (OUT : off + rp_len b <= o \/ o + size <= off -> rs_inv (rw_after st (WmWrite off b) s)).
    { intros Hout. apply rs_after_inv; [exact Inv | left; apply rs_write_len | |].
      - intros i A B. apply rs_write_nth_out. lia.
      - pose proof (rs_write_len (rw_g st) off b) as L. cbn [rp_apply fst snd] in L |- *. rewrite rpp_apply_write_len in L.
        split; [lia |].
        exists hcur. split; [| exact Rcur]. rewrite <- Hcur. apply rs_hdr_same; [exact Hlen | lia |].
        intros i A B. apply (rs_write_nth_out (rw_g st) off b i). lia. }
    apply orb_true_iff in Hc. destruct Hc as [Hc | Hc].
    { apply orb_true_iff in Hc. destruct Hc as [Hc | Hc]; [apply N.leb_le in Hc | apply N.leb_le in Hc]; apply OUT; lia. }
    apply andb_true_iff in Hc. destruct Hc as [Eo El]. apply N.eqb_eq in Eo. apply N.eqb_eq in El. subst off.
    (* a 32-byte write exactly at o: only a link can be classified so *)
    cbn [rw_next] in Hin.
    assert (LINK : rw_is_link true (rw_hist st) (rw_n st) o b = true -> rs_inv (rw_after st (WmWrite o b) s)).
    { intros Hl. unfold rw_is_link in Hl. cbv zeta in Hl.
      apply andb_true_iff in Hl. destruct Hl as [Hl Hs]. apply andb_true_iff in Hl. destruct Hl as [Hl Hb].
      apply fm_list_eqb_eq in Hb. rewrite orb_false_r in Hs. apply existsb_exists in Hs. destruct Hs as (g0 & Hg0 & Hs).
      destruct (I4 _ Hg0) as (_ & h0 & Hh0 & Rh0). rewrite Hh0 in Hs. apply fm_list_eqb_eq in Hs.
      assert (Hnx : length (firstn 8 b) = 8%nat) by (rewrite firstn_length; unfold rp_len in El; lia).
      rewrite <- Hs, Rh0 in Hb.
      apply rs_after_inv; [exact Inv | left; apply rs_write_len | |].
      - intros i A B. apply rs_write_nth_out. lia.
      - rewrite rw_apply_write_inplace by lia. cbn [fst].
        split; [rewrite rs_len_inplace by lia; exact Hlen |].
        unfold rw_hdr_at. rewrite skipn_app_exact by (rewrite firstn_length; unfold rp_len in Hlen; lia).
        destruct (rw_decode_bytes (firstn 8 b) h (skipn (N.to_nat o + length b) (rw_g st)) Hnx) as (h' & D & R & _).
        rewrite <- Hb in D. exists h'. split; [exact D | exact R]. }
    destruct (rw_stg st) eqn:Es.
    + unfold rw_opt in Hin. destruct ((o =? 0) && _) eqn:E; [| destruct Hin]. apply andb_true_iff in E. destruct E as [E _]. apply N.eqb_eq in E. lia.
    + destruct (rw_hdr_at f pos); [| destruct Hin]. unfold rw_opt in Hin. destruct ((o =? pos) && _) eqn:E; [| destruct Hin].
      apply andb_true_iff in E. destruct E as [E _]. apply N.eqb_eq in E. lia.
    + destruct (rw_hdr_at f pos); [| destruct Hin]. unfold rw_opt in Hin. destruct ((o =? pos + 32) && _) eqn:E; [| destruct Hin].
      apply andb_true_iff in E. destruct E as [E _]. apply N.eqb_eq in E. lia.
    + destruct (rw_hdr_at f pos) as [hp |]; [| destruct Hin]. unfold rw_opt in Hin. destruct ((o =? pos + 32 + fm_payload_length hp) && _) eqn:E; [| destruct Hin].
      apply andb_true_iff in E. destruct E as [E _]. apply N.eqb_eq in E. lia.
    + (* idle *)
      apply in_app_or in Hin. destruct Hin as [Hin | Hin].
      { unfold rw_opt in Hin. destruct ((o =? 0) && _) eqn:E; [| destruct Hin]. apply andb_true_iff in E. destruct E as [E _]. apply N.eqb_eq in E. lia. }
      apply in_app_or in Hin. destruct Hin as [Hin | Hin].
      { destruct (o =? rw_n st) eqn:E; [| destruct Hin]. apply N.eqb_eq in E. lia. }
      apply in_app_or in Hin. destruct Hin as [Hin | Hin].
      { unfold rw_opt in Hin. destruct (rw_is_link true (rw_hist st) (rw_n st) o b) eqn:E; [| destruct Hin].
        destruct Hin as [<- | []]. apply LINK. reflexivity. }
      unfold rw_opt in Hin. destruct (rw_is_tbl true (rw_hist st) (rw_n st) o b) eqn:E; [| destruct Hin].
      exfalso. unfold rw_is_tbl in E. apply andb_true_iff in E. destruct E as [E _]. apply andb_true_iff in E. destruct E as [E _].
      apply andb_true_iff in E. destruct E as [_ E]. apply N.eqb_eq in E. rewrite El in E. discriminate E.
    + unfold rw_opt in Hin. destruct ((o =? rw_n st) && _ && _) eqn:E; [| destruct Hin].
      apply andb_true_iff in E. destruct E as [E _]. apply andb_true_iff in E. destruct E as [E _]. apply N.eqb_eq in E. lia.
    + unfold rw_opt in Hin. destruct ((o =? rw_n st) && _) eqn:E; [| destruct Hin].
      apply andb_true_iff in E. destruct E as [E _]. apply N.eqb_eq in E. lia.
    + unfold rw_opt in Hin. destruct ((o =? o0 + 32 + rp_len p) && _) eqn:E; [| destruct Hin].
      apply andb_true_iff in E. destruct E as [_ E]. apply fm_list_eqb_eq in E.
      exfalso. assert (X : rp_len b = fm_pad_len (rp_len p) + 4) by (rewrite E; unfold rp_len; apply wm_footer_length).
      pose proof (fm_pad_len_lt (rp_len p)). lia.
    + destruct Hin.
  - (* the truncation *)
    cbn [rw_next] in Hin. destruct (rw_stg st); try (destruct Hin; fail).
    destruct (rw_hdr_at f pos) as [hp |]; [| destruct Hin]. unfold rw_opt in Hin.
    match type of Hin with In _ (if ?c then _ else _) => destruct c eqn:E end; [| destruct Hin].
    apply andb_true_iff in E. destruct E as [E1 E2]. apply N.eqb_eq in E1. apply N.leb_le in E2. rewrite I1 in E2.
    assert (Hlt : o + size <= len) by lia.
    apply rs_after_inv; [exact Inv | right; rewrite rs_apply_trunc_n; exact Hlt | |].
    + intros i A B. apply rs_trunc_nth; lia.
    + assert (L : rp_len (fst (rp_apply (rw_g st, rp_len (rw_g st)) (WmTrunc len))) = len).
      { rewrite <- rpp_apply_len by reflexivity. apply rs_apply_trunc_n. }
      split; [rewrite L; lia |]. exists hcur. split; [| exact Rcur]. rewrite <- Hcur. apply rs_hdr_same; [exact Hlen | rewrite L; lia |].
      intros i A B. apply rs_trunc_nth; lia.
Qed.

Lemma rs_runs : forall evs st st', rs_inv st -> In st' (rw_runs true f pos st evs) -> rs_clear o size evs = true -> rs_inv st'.
Proof.
  induction evs as [| e evs IH]; intros st st' Inv Hin Hc; cbn [rw_runs] in Hin.
  - destruct Hin as [<- | []]. exact Inv.
  - apply in_flat_map in Hin. destruct Hin as (s & Hs & Hin). cbn [rs_clear forallb] in Hc. apply andb_true_iff in Hc. destruct Hc as [Hc1 Hc2].
    apply (IH (rw_after st e s) st'); [apply rs_step; assumption | exact Hin | exact Hc2].
Qed.

Theorem rs_sound : forall evs st', o + size <= rp_len f ->
  In st' (rw_runs true f pos (rw_st0 f) evs) -> rs_clear o size evs = true ->
  (forall i, o + 32 <= i -> i < o + size -> nth (N.to_nat i) (rw_g st') 0 = nth (N.to_nat i) f 0) /\
  (exists h', rw_hdr_at (rw_g st') o = Some h' /\ rw_rest h' = rw_rest h).
Proof.
  intros evs st' Hlen Hin Hc.
  assert (I0 : rs_inv (rw_st0 f)).
  { unfold rs_inv. cbn [rw_st0 rw_g rw_n rw_hist]. split; [reflexivity |]. split; [exact Hlen |]. split; [auto |]. split; [| now left].
    intros g [<- | []]. split; [apply (rw_hdr_at_bound _ _ _ Hh) |]. exists h. split; [exact Hh | reflexivity]. }
  destruct (rs_runs evs _ _ I0 Hin Hc) as (_ & _ & J3 & J4 & J5). split; [exact J3 |]. exact (proj2 (J4 _ J5)).
Qed.

End RS.
