(* An independent decoder/validator for JLS files, written from /repo/include/jls/format.h and
   README.md only.  [dw_walk f] takes the bytes of a file and either returns the chunks it
   found together with the content rebuilt from them, or the check that failed and the offset
   of the chunk where it failed.  Definitions only (proofs in DecodeProofs.v); every top-level
   name starts with dw_ / Dw.  *)
From Coq Require Import NArith ZArith List Bool FMapPositive.
From JLS Require Import Generated CrcDefs Spec Format.
Import ListNotations.
Local Open Scope N_scope.

(* ---------------------------------------------------------------- results *)
Inductive dw_check :=
| DwE_file_too_short | DwE_identification | DwE_file_header_crc | DwE_version | DwE_file_length
| DwE_fuel
| DwE_no_end_chunk | DwE_truncated_header | DwE_header_crc | DwE_alignment | DwE_rsv0
| DwE_truncated_payload | DwE_pad_not_zero | DwE_payload_crc | DwE_data_after_end
| DwE_payload_prev_length
| DwE_unknown_tag | DwE_meta_reserved | DwE_meta_level | DwE_end_links
| DwE_item_next_not_chunk | DwE_item_next_order | DwE_item_next_kind | DwE_item_next_back
| DwE_item_prev_not_chunk | DwE_item_prev_order | DwE_item_prev_kind | DwE_item_prev_forward
| DwE_second_list_head
| DwE_source_payload | DwE_source_id
| DwE_signal_payload | DwE_signal_id | DwE_signal_duplicate | DwE_signal_undefined
| DwE_track_def_payload | DwE_track_head_length | DwE_track_head_entry (level : N)
| DwE_payload_header | DwE_payload_length_formula | DwE_entry_size
| DwE_annotation | DwE_utc_data
| DwE_index_not_followed_by_summary | DwE_summary_not_after_index
| DwE_fsr_index_params | DwE_fsr_index_entry_zero | DwE_index_entry_not_chunk | DwE_index_entry_kind
| DwE_index_entry_timestamp | DwE_index_first_timestamp.

Inductive dw_res (A : Type) :=
| DwOk (a : A)
| DwErr (c : dw_check) (off : N).
Arguments DwOk {A} a.
Arguments DwErr {A} c off.

(* ---------------------------------------------------------------- pass 1: forward scan *)
Record dw_chunk := { dw_off : N; dw_hdr : fm_chunk_header; dw_payload : list N }.

(* rest = the bytes of the file from offset off on.  Each step consumes at least 32 bytes. *)
Fixpoint dw_scan (fuel : nat) (off : N) (rest : list N) : dw_res (list dw_chunk) :=
  match fuel with
  | O => DwErr DwE_fuel off
  | S fuel' =>
    match rest with
    | [] => DwErr DwE_no_end_chunk off
    | _ =>
      if negb (fm_ch_complete rest) then DwErr DwE_truncated_header off else
      match fm_decode_chunk_header rest with
      | None => DwErr DwE_header_crc off
      | Some h =>
        if negb (N.land off 7 =? 0) then DwErr DwE_alignment off else
        if negb (fm_rsv0 h =? 0) then DwErr DwE_rsv0 off else
        match fm_unframe_r (fm_payload_length h) (skipn (N.to_nat SIZEOF_chunk_header) rest) with
        | FmShort => DwErr DwE_truncated_payload off
        | FmPadNonzero => DwErr DwE_pad_not_zero off
        | FmCrcBad => DwErr DwE_payload_crc off
        | FmPayload p rest' =>
          let c := {| dw_off := off; dw_hdr := h; dw_payload := p |} in
          let off' := off + fm_chunk_size (fm_payload_length h) in
          if fm_tag h =? JLS_TAG_END then
            match rest' with
            | [] => DwOk [c]
            | _ => DwErr DwE_data_after_end off'
            end
          else
            match dw_scan fuel' off' rest' with
            | DwOk l => DwOk (c :: l)
            | DwErr e o => DwErr e o
            end
        end
      end
    end
  end.

(* payload_prev_length must equal the payload_length of the chunk before (0 for the first chunk).
   Mismatches: (offset, tag, stored value, expected value, the previous chunk has an empty payload) *)
Definition dw_pplm := (N * N * N * N * bool)%type.
Fixpoint dw_ppl_mismatches (prev_pl : N) (first : bool) (l : list dw_chunk) : list dw_pplm :=
  match l with
  | [] => []
  | c :: r =>
    let h := dw_hdr c in
    let rest := dw_ppl_mismatches (fm_payload_length h) false r in
    if fm_payload_prev_length h =? prev_pl then rest
    else (dw_off c, fm_tag h, fm_payload_prev_length h, prev_pl, negb first && (prev_pl =? 0)) :: rest
  end.

(* ---------------------------------------------------------------- list identities *)
(* which doubly-linked list a chunk belongs to *)
Inductive dw_key :=
| DwK_src                          (* SOURCE_DEF: own list *)
| DwK_sig                          (* SIGNAL_DEF, TRACK_*_DEF, TRACK_*_HEAD: one list *)
| DwK_ud                           (* USER_DATA: own list *)
| DwK_data (tt sid : N)            (* DATA of one track of one signal *)
| DwK_index (tt sid lvl : N)       (* INDEX of one track, signal, level *)
| DwK_summary (tt sid lvl : N)
| DwK_end.                         (* END: on no list *)

Definition dw_key_eqb (a b : dw_key) : bool :=
  match a, b with
  | DwK_src, DwK_src | DwK_sig, DwK_sig | DwK_ud, DwK_ud | DwK_end, DwK_end => true
  | DwK_data t s, DwK_data t' s' => (t =? t') && (s =? s')
  | DwK_index t s l, DwK_index t' s' l' => (t =? t') && (s =? s') && (l =? l')
  | DwK_summary t s l, DwK_summary t' s' l' => (t =? t') && (s =? s') && (l =? l')
  | _, _ => false
  end.

Definition dw_key_of (h : fm_chunk_header) : dw_check + dw_key :=
  let t := fm_tag h in
  let m := fm_chunk_meta h in
  if t =? JLS_TAG_SOURCE_DEF then inr DwK_src else
  if t =? JLS_TAG_SIGNAL_DEF then inr DwK_sig else
  if t =? JLS_TAG_USER_DATA then inr DwK_ud else
  if t =? JLS_TAG_END then inr DwK_end else
  if fm_is_track_tag t then
    let tt := fm_tag_track_type t in
    let ck := fm_tag_chunk_kind t in
    if negb (fm_meta_rsv m =? 0) then inl DwE_meta_reserved else
    if ck <=? JLS_TRACK_CHUNK_HEAD then
      (if fm_meta_level m =? 0 then inr DwK_sig else inl DwE_meta_level)
    else if ck =? JLS_TRACK_CHUNK_DATA then
      (if fm_meta_level m =? 0 then inr (DwK_data tt (fm_meta_signal m)) else inl DwE_meta_level)
    else
      (if (fm_meta_level m =? 0) || negb (fm_meta_level m <? JLS_SUMMARY_LEVEL_COUNT) then inl DwE_meta_level
       else if ck =? JLS_TRACK_CHUNK_INDEX then inr (DwK_index tt (fm_meta_signal m) (fm_meta_level m))
       else inr (DwK_summary tt (fm_meta_signal m) (fm_meta_level m)))
  else inl DwE_unknown_tag.

Definition dw_has_key (c : dw_chunk) (k : dw_key) : bool :=
  match dw_key_of (dw_hdr c) with inr k' => dw_key_eqb k' k | inl _ => false end.

(* ---------------------------------------------------------------- offset -> chunk *)
Definition dw_map := PositiveMap.t dw_chunk.
Definition dw_map_of (l : list dw_chunk) : dw_map :=
  fold_left (fun m c => PositiveMap.add (N.succ_pos (dw_off c)) c m) l (PositiveMap.empty dw_chunk).
Definition dw_lookup (m : dw_map) (o : N) : option dw_chunk := PositiveMap.find (N.succ_pos o) m.

Fixpoint dw_first_err (f : dw_chunk -> option dw_check) (l : list dw_chunk) : option (dw_check * N) :=
  match l with
  | [] => None
  | c :: r => match f c with Some e => Some (e, dw_off c) | None => dw_first_err f r end
  end.

(* ---------------------------------------------------------------- pass 2: item_next / item_prev *)
Definition dw_next_check (m : dw_map) (k : dw_key) (c : dw_chunk) : option dw_check :=
  let nx := fm_item_next (dw_hdr c) in
  if nx =? 0 then None else
  match dw_lookup m nx with
  | None => Some DwE_item_next_not_chunk
  | Some d =>
    if negb (dw_off c <? nx) then Some DwE_item_next_order else
    if negb (dw_has_key d k) then Some DwE_item_next_kind else
    if negb (fm_item_prev (dw_hdr d) =? dw_off c) then Some DwE_item_next_back else None
  end.
Definition dw_prev_check (m : dw_map) (k : dw_key) (c : dw_chunk) : option dw_check :=
  let pv := fm_item_prev (dw_hdr c) in
  if pv =? 0 then None else
  match dw_lookup m pv with
  | None => Some DwE_item_prev_not_chunk
  | Some d =>
    if negb (pv <? dw_off c) then Some DwE_item_prev_order else
    if negb (dw_has_key d k) then Some DwE_item_prev_kind else
    if negb (fm_item_next (dw_hdr d) =? dw_off c) then Some DwE_item_prev_forward else None
  end.
Definition dw_link_check (m : dw_map) (c : dw_chunk) : option dw_check :=
  match dw_key_of (dw_hdr c) with
  | inl e => Some e
  | inr DwK_end =>
    if (fm_item_next (dw_hdr c) =? 0) && (fm_item_prev (dw_hdr c) =? 0) then None else Some DwE_end_links
  | inr k =>
    match dw_next_check m k c with
    | Some e => Some e
    | None => dw_prev_check m k c
    end
  end.

(* the first chunk of every list: item_prev = 0 *)
Definition dw_is_head_of_list (c : dw_chunk) : bool := fm_item_prev (dw_hdr c) =? 0.
Fixpoint dw_heads (l : list dw_chunk) : list (dw_key * N) :=
  match l with
  | [] => []
  | c :: r =>
    match dw_key_of (dw_hdr c) with
    | inr DwK_end => dw_heads r
    | inr k => if dw_is_head_of_list c then (k, dw_off c) :: dw_heads r else dw_heads r
    | inl _ => dw_heads r
    end
  end.
(* offset of the first chunk of list k, 0 if the list is empty (chunk offsets are >= 32) *)
Fixpoint dw_find_head (k : dw_key) (hs : list (dw_key * N)) : N :=
  match hs with
  | [] => 0
  | (k', o) :: r => if dw_key_eqb k k' then o else dw_find_head k r
  end.
(* a list with two first chunks: the offset of the later one *)
Fixpoint dw_heads_dup (hs : list (dw_key * N)) : option N :=
  match hs with
  | [] => None
  | (k, o) :: r => if negb (dw_find_head k r =? 0) then Some (dw_find_head k r) else dw_heads_dup r
  end.

(* ---------------------------------------------------------------- definitions *)
Fixpoint dw_strings (n : nat) (l : list N) : option (list (list N)) :=
  match n with
  | O => match l with [] => Some [] | _ => None end       (* nothing may follow the last string *)
  | S n' =>
    match fm_decode_str l with
    | Some (s, r) => match dw_strings n' r with Some ss => Some (s :: ss) | None => None end
    | None => None
    end
  end.

Definition dw_parse_source (c : dw_chunk) : option srcdef :=
  let p := dw_payload c in
  let nres := N.to_nat fm_source_reserved in
  if negb (Nat.eqb (length (firstn nres p)) nres && fm_all_zero (firstn nres p)) then None else
  match dw_strings 5 (skipn nres p) with
  | Some [a; b; c'; d; e] =>
    Some {| so_id := fm_chunk_meta (dw_hdr c); so_name := SBytes a; so_vendor := SBytes b; so_model := SBytes c';
            so_version := SBytes d; so_serial := SBytes e |}
  | _ => None
  end.

Definition dw_parse_signal (c : dw_chunk) : option sigdef :=
  let p := dw_payload c in
  let nfix := N.to_nat fm_signal_fixed in
  let nres := N.to_nat fm_signal_reserved in
  let res := firstn nres (skipn nfix p) in
  if negb (Nat.eqb (length res) nres && fm_all_zero res) then None else
  if negb (fm_u8_at 3 p =? 0) then None else
  match dw_strings 2 (skipn (nfix + nres) p) with
  | Some [a; b] =>
    Some {| sg_id := fm_chunk_meta (dw_hdr c); sg_src := fm_u16_at 0 p; sg_type := fm_u8_at 2 p; sg_dtype := fm_u32_at 4 p;
            sg_rate := fm_u32_at 8 p; sg_spd := fm_u32_at 12 p; sg_sdf := fm_u32_at 16 p; sg_eps := fm_u32_at 20 p;
            sg_sumdf := fm_u32_at 24 p; sg_adf := fm_u32_at 28 p; sg_udf := fm_u32_at 32 p;
            sg_name := SBytes a; sg_units := SBytes b |}
  | _ => None
  end.

(* (signal id, (offset of the SIGNAL_DEF chunk, definition)) in file order *)
Definition dw_sigtab := list (N * (N * sigdef)).
Fixpoint dw_sig_find (id : N) (t : dw_sigtab) : option (N * sigdef) :=
  match t with [] => None | (i, v) :: r => if i =? id then Some v else dw_sig_find id r end.

Fixpoint dw_collect_sources (l : list dw_chunk) : dw_res (list srcdef) :=
  match l with
  | [] => DwOk []
  | c :: r =>
    if fm_tag (dw_hdr c) =? JLS_TAG_SOURCE_DEF then
      if negb (fm_chunk_meta (dw_hdr c) <? JLS_SOURCE_COUNT) then DwErr DwE_source_id (dw_off c) else
      match dw_parse_source c with
      | None => DwErr DwE_source_payload (dw_off c)
      | Some s => match dw_collect_sources r with DwOk ss => DwOk (s :: ss) | DwErr e o => DwErr e o end
      end
    else dw_collect_sources r
  end.

Fixpoint dw_collect_signals (l : list dw_chunk) (acc : dw_sigtab) : dw_res dw_sigtab :=
  match l with
  | [] => DwOk (rev acc)
  | c :: r =>
    if fm_tag (dw_hdr c) =? JLS_TAG_SIGNAL_DEF then
      let id := fm_chunk_meta (dw_hdr c) in
      if negb (id <? JLS_SIGNAL_COUNT) then DwErr DwE_signal_id (dw_off c) else
      match dw_sig_find id acc with
      | Some _ => DwErr DwE_signal_duplicate (dw_off c)
      | None =>
        match dw_parse_signal c with
        | None => DwErr DwE_signal_payload (dw_off c)
        | Some d => dw_collect_signals r ((id, (dw_off c, d)) :: acc)
        end
      end
    else dw_collect_signals r acc
  end.

(* ---------------------------------------------------------------- pass 3: track chunks *)
Fixpoint dw_u64s (n : nat) (l : list N) : list N :=
  match n with O => [] | S n' => fm_dec_u64 l :: dw_u64s n' (skipn 8 l) end.
(* (timestamp, offset) pairs of jls_index_entry_s *)
Fixpoint dw_ts_entries (n : nat) (l : list N) : list (Z * N) :=
  match n with O => [] | S n' => (fm_dec_i64 l, fm_dec_u64 (skipn 8 l)) :: dw_ts_entries n' (skipn 16 l) end.

(* samples between consecutive entries of an FSR index of level lvl *)
Definition dw_fsr_step (d : sigdef) (lvl : N) : option N :=
  if (sg_sdf d =? 0) || (sg_spd d / sg_sdf d =? 0) || (lvl =? 0) then None else
  if lvl =? 1 then Some (sg_spd d) else
  let step2 := sg_spd d * (sg_eps d / (sg_spd d / sg_sdf d)) in
  Some (N.iter (lvl - 2) (fun s => s * sg_sumdf d) step2).

Definition dw_chunk_ts (c : dw_chunk) : option Z :=
  match fm_decode_payload_header (dw_payload c) with Some ph => Some (fm_ph_timestamp ph) | None => None end.

(* the target of an index entry of level lvl: a DATA chunk (lvl 1) or the INDEX chunk one level down *)
Definition dw_index_target (tt sid lvl : N) : dw_key :=
  if lvl =? 1 then DwK_data tt sid else DwK_index tt sid (lvl - 1).

Definition dw_entry_check (m : dw_map) (want : dw_key) (ts : Z) (e : N) : option dw_check :=
  match dw_lookup m e with
  | None => Some DwE_index_entry_not_chunk
  | Some d =>
    if negb (dw_has_key d want) then Some DwE_index_entry_kind else
    match dw_chunk_ts d with
    | Some t => if (t =? ts)%Z then None else Some DwE_index_entry_timestamp
    | None => Some DwE_index_entry_timestamp
    end
  end.

Fixpoint dw_fsr_entries_check (m : dw_map) (want : dw_key) (lvl : N) (ts : Z) (step : Z) (es : list N) : option dw_check :=
  match es with
  | [] => None
  | e :: r =>
    match (if e =? 0 then (if lvl =? 1 then None else Some DwE_fsr_index_entry_zero)   (* level 1: 0 = data omitted *)
           else dw_entry_check m want ts e) with
    | Some err => Some err
    | None => dw_fsr_entries_check m want lvl (ts + step)%Z step r
    end
  end.

Fixpoint dw_ts_entries_check (m : dw_map) (want : dw_key) (es : list (Z * N)) : option dw_check :=
  match es with
  | [] => None
  | (t, e) :: r =>
    match dw_entry_check m want t e with
    | Some err => Some err
    | None => dw_ts_entries_check m want r
    end
  end.

Fixpoint dw_head_entries_check (hs : list (dw_key * N)) (tt sid : N) (lvl : N) (es : list N) : option dw_check :=
  match es with
  | [] => None
  | e :: r =>
    let k := if lvl =? 0 then DwK_data tt sid else DwK_index tt sid lvl in
    if dw_find_head k hs =? e then dw_head_entries_check hs tt sid (lvl + 1) r
    else Some (DwE_track_head_entry lvl)
  end.

Definition dw_anno_fixed : N := OFFSETOF_annotation_data_size + 4.     (* data[] starts after data_size *)

Definition dw_track_check (m : dw_map) (hs : list (dw_key * N)) (sigs : dw_sigtab) (c : dw_chunk) : option dw_check :=
  let h := dw_hdr c in
  let t := fm_tag h in
  if negb (fm_is_track_tag t) then None else
  let tt := fm_tag_track_type t in
  let ck := fm_tag_chunk_kind t in
  let sid := fm_meta_signal (fm_chunk_meta h) in
  let lvl := fm_meta_level (fm_chunk_meta h) in
  let p := dw_payload c in
  match dw_sig_find sid sigs with
  | None => Some DwE_signal_undefined
  | Some (soff, d) =>
    if negb (soff <? dw_off c) then Some DwE_signal_undefined else
    if ck =? JLS_TRACK_CHUNK_DEF then
      (if fm_payload_length h =? 0 then None else Some DwE_track_def_payload)
    else if ck =? JLS_TRACK_CHUNK_HEAD then
      (if negb (fm_payload_length h =? SIZEOF_track_head) then Some DwE_track_head_length
       else dw_head_entries_check hs tt sid 0 (dw_u64s (N.to_nat JLS_SUMMARY_LEVEL_COUNT) p))
    else
      match fm_decode_payload_header p with
      | None => Some DwE_payload_header
      | Some ph =>
        if (tt =? JLS_TRACK_TYPE_ANNOTATION) && (ck =? JLS_TRACK_CHUNK_DATA) then
          (* jls_annotation_s: timestamp, rsv64_1, annotation_type, storage_type, group_id, rsv8_1, y, data_size, data[] *)
          (if negb (fm_has (N.to_nat dw_anno_fixed) p) then Some DwE_annotation else
           if negb (fm_u8_at (OFFSETOF_annotation_type + 3) p =? 0) then Some DwE_annotation else
           if negb (dw_anno_fixed + fm_u32_at OFFSETOF_annotation_data_size p <=? fm_payload_length h) then Some DwE_annotation
           else None)
        else
        if negb (fm_ph_rsv16 ph =? 0) then Some DwE_payload_header else
        if negb (fm_payload_length h =? fm_entries_length ph) then Some DwE_payload_length_formula else
        let n := N.to_nat (fm_ph_entry_count ph) in
        let body := skipn (N.to_nat SIZEOF_payload_header) p in
        if ck =? JLS_TRACK_CHUNK_DATA then
          (if tt =? JLS_TRACK_TYPE_FSR then
             (if fm_ph_entry_size_bits ph =? dt_bits (sg_dtype d) then None else Some DwE_entry_size)
           else if tt =? JLS_TRACK_TYPE_UTC then
             (if (fm_ph_entry_size_bits ph =? 64) && (fm_ph_entry_count ph =? 1) then None else Some DwE_utc_data)
           else None)
        else if ck =? JLS_TRACK_CHUNK_INDEX then
          (if tt =? JLS_TRACK_TYPE_FSR then
             (if negb (fm_ph_entry_size_bits ph =? 64) then Some DwE_entry_size else
              match dw_fsr_step d lvl with
              | None => Some DwE_fsr_index_params
              | Some step =>
                dw_fsr_entries_check m (dw_index_target tt sid lvl) lvl (fm_ph_timestamp ph) (Z.of_N step) (dw_u64s n body)
              end)
           else
             (if negb (fm_ph_entry_size_bits ph =? 8 * SIZEOF_index_entry) then Some DwE_entry_size else
              let es := dw_ts_entries n body in
              match es with
              | (t0, _) :: _ => if negb (t0 =? fm_ph_timestamp ph)%Z then Some DwE_index_first_timestamp
                                else dw_ts_entries_check m (dw_index_target tt sid lvl) es
              | [] => None
              end))
        else
          (* SUMMARY: FSR entries are 4 x f32 or 4 x f64; annotation and UTC entries are 16 bytes *)
          (if tt =? JLS_TRACK_TYPE_FSR then
             (if (fm_ph_entry_size_bits ph =? 32 * JLS_SUMMARY_FSR_COUNT) || (fm_ph_entry_size_bits ph =? 64 * JLS_SUMMARY_FSR_COUNT)
              then None else Some DwE_entry_size)
           else if tt =? JLS_TRACK_TYPE_ANNOTATION then
             (if fm_ph_entry_size_bits ph =? 8 * SIZEOF_annotation_summary_entry then None else Some DwE_entry_size)
           else if tt =? JLS_TRACK_TYPE_UTC then
             (if fm_ph_entry_size_bits ph =? 8 * SIZEOF_utc_summary_entry then None else Some DwE_entry_size)
           else None)
      end
  end.

(* every INDEX chunk is immediately followed by its SUMMARY chunk, and every SUMMARY follows its INDEX *)
Definition dw_is_kind (c : dw_chunk) (ck : N) : bool :=
  fm_is_track_tag (fm_tag (dw_hdr c)) && (fm_tag_chunk_kind (fm_tag (dw_hdr c)) =? ck).
Definition dw_index_summary_pair (a b : dw_chunk) : bool :=
  dw_is_kind a JLS_TRACK_CHUNK_INDEX && dw_is_kind b JLS_TRACK_CHUNK_SUMMARY &&
  (fm_tag_track_type (fm_tag (dw_hdr a)) =? fm_tag_track_type (fm_tag (dw_hdr b))) &&
  (fm_chunk_meta (dw_hdr a) =? fm_chunk_meta (dw_hdr b)).
Fixpoint dw_adjacent_check (prev : option dw_chunk) (l : list dw_chunk) : option (dw_check * N) :=
  match l with
  | [] => None
  | c :: r =>
    let e1 := if dw_is_kind c JLS_TRACK_CHUNK_INDEX then
                match r with
                | n :: _ => if dw_index_summary_pair c n then None else Some DwE_index_not_followed_by_summary
                | [] => Some DwE_index_not_followed_by_summary
                end else None in
    let e2 := if dw_is_kind c JLS_TRACK_CHUNK_SUMMARY then
                match prev with
                | Some p => if dw_index_summary_pair p c then None else Some DwE_summary_not_after_index
                | None => Some DwE_summary_not_after_index
                end else None in
    match e1, e2 with
    | Some e, _ => Some (e, dw_off c)
    | None, Some e => Some (e, dw_off c)
    | None, None => dw_adjacent_check (Some c) r
    end
  end.

(* ---------------------------------------------------------------- rebuilt content *)
Record dw_block := { dw_b_ts : Z; dw_b_count : N; dw_b_bytes : list N }.
Record dw_sig := {
  dw_s_def : sigdef;
  dw_s_blocks : list dw_block;        (* FSR DATA chunks in list (= file) order *)
  dw_s_omitted : list Z;              (* first sample ids of the blocks present only as 0 entries of level-1 indices *)
  dw_s_annos : list anno;
  dw_s_anno_slack : N;                (* bytes after data[data_size] in annotation payloads (not described by format.h) *)
  dw_s_utcs : list (Z * Z) }.
Record dw_content := { dw_c_sources : list srcdef; dw_c_signals : list dw_sig; dw_c_udata : list udata }.

Definition dw_is (c : dw_chunk) (tt ck sid : N) : bool :=
  (fm_tag (dw_hdr c) =? fm_track_tag tt ck) && (fm_meta_signal (fm_chunk_meta (dw_hdr c)) =? sid).

Definition dw_block_of (c : dw_chunk) : dw_block :=
  let p := dw_payload c in
  {| dw_b_ts := fm_i64_at 0 p; dw_b_count := fm_u32_at OFFSETOF_payload_entry_count p;
     dw_b_bytes := skipn (N.to_nat SIZEOF_payload_header) p |}.

Definition dw_anno_of (c : dw_chunk) : anno :=
  let p := dw_payload c in
  {| an_ts := fm_i64_at 0 p; an_y := fm_u32_at OFFSETOF_annotation_y p; an_type := fm_u8_at OFFSETOF_annotation_type p;
     an_group := fm_u8_at (OFFSETOF_annotation_type + 2) p; an_stype := fm_u8_at (OFFSETOF_annotation_type + 1) p;
     an_data := fm_sub dw_anno_fixed (fm_u32_at OFFSETOF_annotation_data_size p) p |}.
Definition dw_anno_slack_of (c : dw_chunk) : N :=
  fm_payload_length (dw_hdr c) - (dw_anno_fixed + fm_u32_at OFFSETOF_annotation_data_size (dw_payload c)).

Definition dw_utc_of (c : dw_chunk) : Z * Z :=
  (fm_i64_at 0 (dw_payload c), fm_i64_at SIZEOF_payload_header (dw_payload c)).

(* the omitted blocks named by one level-1 FSR index chunk *)
Fixpoint dw_omitted_in (ts step : Z) (es : list N) : list Z :=
  match es with
  | [] => []
  | e :: r => if e =? 0 then ts :: dw_omitted_in (ts + step)%Z step r else dw_omitted_in (ts + step)%Z step r
  end.
Definition dw_omitted_of (d : sigdef) (c : dw_chunk) : list Z :=
  let p := dw_payload c in
  if fm_meta_level (fm_chunk_meta (dw_hdr c)) =? 1 then
    dw_omitted_in (fm_i64_at 0 p) (Z.of_N (sg_spd d))
      (dw_u64s (N.to_nat (fm_u32_at OFFSETOF_payload_entry_count p)) (skipn (N.to_nat SIZEOF_payload_header) p))
  else [].

Definition dw_sig_of (l : list dw_chunk) (d : sigdef) : dw_sig :=
  let sid := sg_id d in
  let annos := filter (fun c => dw_is c JLS_TRACK_TYPE_ANNOTATION JLS_TRACK_CHUNK_DATA sid) l in
  {| dw_s_def := d;
     dw_s_blocks := map dw_block_of (filter (fun c => dw_is c JLS_TRACK_TYPE_FSR JLS_TRACK_CHUNK_DATA sid) l);
     dw_s_omitted := flat_map (dw_omitted_of d) (filter (fun c => dw_is c JLS_TRACK_TYPE_FSR JLS_TRACK_CHUNK_INDEX sid) l);
     dw_s_annos := map dw_anno_of annos;
     dw_s_anno_slack := fold_left (fun a c => a + dw_anno_slack_of c) annos 0;
     dw_s_utcs := map dw_utc_of (filter (fun c => dw_is c JLS_TRACK_TYPE_UTC JLS_TRACK_CHUNK_DATA sid) l) |}.

(* user data: every USER_DATA chunk except the first of the list (the required placeholder, README) *)
Definition dw_udata_of (l : list dw_chunk) : list udata :=
  map (fun c => {| ud_meta := fm_meta_user_tag (fm_chunk_meta (dw_hdr c)); ud_stype := fm_meta_storage (fm_chunk_meta (dw_hdr c));
                   ud_data := dw_payload c |})
      (filter (fun c => (fm_tag (dw_hdr c) =? JLS_TAG_USER_DATA) && negb (dw_is_head_of_list c)) l).

(* ---------------------------------------------------------------- the walk *)
Record dw_walked := { dw_w_chunks : list dw_chunk; dw_w_content : dw_content; dw_w_ppl : list dw_pplm }.

Definition dw_of_first_err {A} (e : option (dw_check * N)) (k : dw_res A) : dw_res A :=
  match e with Some (c, o) => DwErr c o | None => k end.

Definition dw_structure (strict : bool) (chunks : list dw_chunk) : dw_res dw_walked :=
  let ppl := dw_ppl_mismatches 0 true chunks in
  match (if strict then ppl else []) with
  | (o, _, _, _, _) :: _ => DwErr DwE_payload_prev_length o
  | [] =>
    let m := dw_map_of chunks in
    dw_of_first_err (dw_first_err (dw_link_check m) chunks) (
    let hs := dw_heads chunks in
    match dw_heads_dup hs with
    | Some o => DwErr DwE_second_list_head o
    | None =>
      match dw_collect_sources chunks with
      | DwErr e o => DwErr e o
      | DwOk sources =>
        match dw_collect_signals chunks [] with
        | DwErr e o => DwErr e o
        | DwOk sigs =>
          dw_of_first_err (dw_adjacent_check None chunks) (
          dw_of_first_err (dw_first_err (dw_track_check m hs sigs) chunks) (
          DwOk {| dw_w_chunks := chunks;
                  dw_w_content := {| dw_c_sources := sources;
                                     dw_c_signals := map (fun e => dw_sig_of chunks (snd (snd e))) sigs;
                                     dw_c_udata := dw_udata_of chunks |};
                  dw_w_ppl := ppl |}))
        end
      end
    end)
  end.

(* length of the file without deep recursion (the extracted code runs on files of hundreds of KB) *)
Fixpoint dw_len_acc (l : list N) (acc : nat) : nat := match l with [] => acc | _ :: r => dw_len_acc r (S acc) end.
Definition dw_len (l : list N) : nat := dw_len_acc l O.
Definition dw_len_N (l : list N) : N := fold_left (fun a _ => N.succ a) l 0.

Definition dw_walk_gen (strict : bool) (f : list N) : dw_res dw_walked :=
  if negb (fm_fh_complete f) then DwErr DwE_file_too_short 0 else
  if negb (fm_fh_ident_ok f) then DwErr DwE_identification 0 else
  match fm_decode_file_header f with
  | None => DwErr DwE_file_header_crc 0
  | Some fh =>
    if negb (fm_version_major (fm_fh_version fh) =? fm_version_major JLS_FORMAT_VERSION_U32) then DwErr DwE_version 0 else
    if negb (fm_fh_length fh =? dw_len_N f) then DwErr DwE_file_length 0 else
    match dw_scan (dw_len f) SIZEOF_file_header (skipn (N.to_nat SIZEOF_file_header) f) with
    | DwErr e o => DwErr e o
    | DwOk chunks => dw_structure strict chunks
    end
  end.

(* strict: exactly as the format says *)
Definition dw_walk (f : list N) : dw_res dw_walked := dw_walk_gen true f.
(* payload_prev_length mismatches are only reported (dw_w_ppl); everything else is checked *)
Definition dw_walk_report (f : list N) : dw_res dw_walked := dw_walk_gen false f.

(* ---------------------------------------------------------------- towards Spec.content *)
(* w-bit samples of a packed block, LSB first (the inverse of Spec.pack) *)
Fixpoint dw_bits_of_bytes (l : list N) : list bool :=
  match l with [] => [] | b :: r => bits_of 8 b ++ dw_bits_of_bytes r end.
Fixpoint dw_n_of_bits (l : list bool) : N :=
  match l with [] => 0 | b :: r => (if b then 1 else 0) + 2 * dw_n_of_bits r end.
Fixpoint dw_samples_of_bits (n : nat) (w : nat) (bits : list bool) : list N :=
  match n with O => [] | S n' => dw_n_of_bits (firstn w bits) :: dw_samples_of_bits n' w (skipn w bits) end.
Definition dw_unpack (w : N) (count : N) (bytes : list N) : list N :=
  dw_samples_of_bits (N.to_nat count) (N.to_nat w) (dw_bits_of_bytes bytes).

(* the sample stream of a signal when no block is omitted *)
Definition dw_stream (s : dw_sig) : list N :=
  flat_map (fun b => dw_unpack (dt_bits (sg_dtype (dw_s_def s))) (dw_b_count b) (dw_b_bytes b)) (dw_s_blocks s).
Definition dw_sigstate_of (s : dw_sig) : sigstate :=
  {| ss_def := dw_s_def s;
     ss_first := match dw_s_blocks s with b :: _ => Some (dw_b_ts b) | [] => None end;
     ss_samples := dw_stream s; ss_annos := dw_s_annos s; ss_utcs := dw_s_utcs s |}.
Definition dw_content_of (c : dw_content) : content :=
  {| c_sources := dw_c_sources c; c_signals := map dw_sigstate_of (dw_c_signals c); c_udata := dw_c_udata c |}.
