(* Property C12, id/time conversion half (slice tmap): "Converting sample id to time
   reproduces every stored pair exactly, is non-decreasing, interpolates linearly between
   neighbouring pairs and extrapolates from the nearest segment (or from the sample tm_rate when
   only one pair exists) to within one time tick of the exact value, and converting that
   time back returns the original sample id to within one sample."

   All theorems are about coq/TmapModel.v, the model of the CURRENT /repo/src/tmap.c
   (jls_tmap_alloc, jls_tmap_add, interp_i64, jls_tmap_sample_id_to_timestamp,
   jls_tmap_timestamp_to_sample_id), for every number of tm_entries >= 1, every strictly
   increasing id sequence with non-decreasing times and every query.  Statements are written
   out with the model's functions only; `ids t` = sample ids, `times t` = UTC ticks (2^30 per
   second).  Arithmetic is exact (Q); the distance between binary64 and exact evaluation is the
   PARTIAL part: C12_tmap_binary64_within_one_partial.

   The last section documents the two defects repaired in /repo (commits 4ae268d, 768bbbf) on
   the model of the code before the repairs (TmapModel.*_old): the refutation witnesses and
   the proof that the repairs did not change any defined result. *)
From Coq Require Import ZArith QArith Qabs List Bool Arith.
From JLS Require Import Generated TmapModel TmapProofs.
Import ListNotations.
Local Open Scope Z_scope.

(* ---- memory safety and totality, unconditional: whatever the map (sorted or not, equal
   times or not, at capacity or not) and the query, the bisection reads only valid indices and
   terminates, and a conversion never yields Tm_OOB_read, Tm_FP_invalid or Tm_Nonterm; the only
   remaining tm_fault is int64 overflow (C undefined behaviour for astronomically distant queries) ---- *)
Theorem C12_tmap_search_total : forall (xs : list Z) (x0 : Z), (1 <= length xs)%nat ->
  exists c, search xs x0 = TmOk c /\ (c < length xs)%nat /\ (2 <= length xs -> c + 2 <= length xs)%nat.
Proof. exact search_total. Qed.
Print Assumptions C12_tmap_search_total.

Theorem C12_tmap_total : forall (t : tmap) (q : Z) (f : tm_fault),
  tmap_sample_id_to_timestamp t q = QFault f \/ tmap_timestamp_to_sample_id t q = QFault f -> f = Tm_Int_overflow.
Proof. exact tmap_total. Qed.
Print Assumptions C12_tmap_total.

(* every map produced by jls_tmap_alloc and any sequence of jls_tmap_add (valid, duplicate or
   rejected adds): ids strictly increasing; length <= physical cells *)
Theorem C12_tmap_reachable : forall (r : Q) (l : list (Z * Z)),
  let t := tmap_add_all (tmap_alloc r) l in
  (forall i k, (i < k < length (ids t))%nat -> nth i (ids t) 0 < nth k (ids t) 0) /\
  (length (tm_entries t) <= tm_phys t)%nat /\
  (length (tm_entries t) = tm_phys t <->
   length (tm_entries t) = N.to_nat TMAP_ENTRIES_ALLOC_INIT /\ tm_alloc t = N.to_nat TMAP_ENTRIES_ALLOC_INIT).
Proof. exact tmap_reachable. Qed.
Print Assumptions C12_tmap_reachable.

(* ---- every stored pair is reproduced exactly, both directions ---- *)
Theorem C12_tmap_anchor_exact : forall (t : tmap) (s u : Z),
  (forall i k, (i < k < length (ids t))%nat -> nth i (ids t) 0 < nth k (ids t) 0) ->
  (forall i k, (i <= k < length (times t))%nat -> nth i (times t) 0 <= nth k (times t) 0) ->
  Forall (fun v => - (2 ^ 62 - 1) <= v <= 2 ^ 62 - 1) (ids t) ->
  Forall (fun v => - (2 ^ 62 - 1) <= v <= 2 ^ 62 - 1) (times t) ->
  (0 < tm_rate t)%Q ->
  In (s, u) (tm_entries t) ->
  tmap_sample_id_to_timestamp t s = QVal u /\
  ((forall i k, (i < k < length (times t))%nat -> nth i (times t) 0 < nth k (times t) 0) ->
   tmap_timestamp_to_sample_id t u = QVal s).
Proof. exact tmap_anchor_exact. Qed.
Print Assumptions C12_tmap_anchor_exact.

(* ---- non-decreasing in the query ---- *)
Theorem C12_tmap_monotone : forall (t : tmap) (q1 q2 v1 v2 : Z),
  (forall i k, (i < k < length (ids t))%nat -> nth i (ids t) 0 < nth k (ids t) 0) ->
  (forall i k, (i <= k < length (times t))%nat -> nth i (times t) 0 <= nth k (times t) 0) ->
  tmap_sample_id_to_timestamp t q1 = QVal v1 -> tmap_sample_id_to_timestamp t q2 = QVal v2 ->
  q1 <= q2 -> v1 <= v2.
Proof. exact tmap_monotone. Qed.
Print Assumptions C12_tmap_monotone.

Theorem C12_tmap_monotone_time_to_id : forall (t : tmap) (q1 q2 v1 v2 : Z),
  (forall i k, (i < k < length (ids t))%nat -> nth i (ids t) 0 < nth k (ids t) 0) ->
  (forall i k, (i < k < length (times t))%nat -> nth i (times t) 0 < nth k (times t) 0) ->
  tmap_timestamp_to_sample_id t q1 = QVal v1 -> tmap_timestamp_to_sample_id t q2 = QVal v2 ->
  q1 <= q2 -> v1 <= v2.
Proof. exact tmap_monotone_rev. Qed.
Print Assumptions C12_tmap_monotone_time_to_id.

(* ---- between neighbouring pairs: the rounded linear interpolation, within 1/2 tick of the
   exact rational value, never outside the two anchor times; no tm_fault ---- *)
Theorem C12_tmap_interp_linear : forall (t : tmap) (i : nat) (q : Z),
  (forall i k, (i < k < length (ids t))%nat -> nth i (ids t) 0 < nth k (ids t) 0) ->
  (forall i k, (i <= k < length (times t))%nat -> nth i (times t) 0 <= nth k (times t) 0) ->
  Forall (fun v => - (2 ^ 62 - 1) <= v <= 2 ^ 62 - 1) (ids t) ->
  Forall (fun v => - (2 ^ 62 - 1) <= v <= 2 ^ 62 - 1) (times t) ->
  (i + 1 < length (tm_entries t))%nat -> nth i (ids t) 0 <= q <= nth (S i) (ids t) 0 ->
  exists v, tmap_sample_id_to_timestamp t q = QVal v /\
    v = nth i (times t) 0 + Qround_haz (inject_Z (q - nth i (ids t) 0%Z) * (inject_Z (nth (S i) (times t) 0%Z - nth i (times t) 0%Z) / inject_Z (nth (S i) (ids t) 0%Z - nth i (ids t) 0%Z)))%Q /\
    (Qabs (inject_Z v - (inject_Z (nth i (times t) 0%Z) + inject_Z (q - nth i (ids t) 0%Z) * (inject_Z (nth (S i) (times t) 0%Z - nth i (times t) 0%Z) / inject_Z (nth (S i) (ids t) 0%Z - nth i (ids t) 0%Z)))) <= 1 # 2)%Q /\
    nth i (times t) 0 <= v <= nth (S i) (times t) 0.
Proof. exact tmap_interp_linear. Qed.
Print Assumptions C12_tmap_interp_linear.

(* ---- before the first / at or after the last anchor: the first / last segment is used ---- *)
Theorem C12_tmap_extrap_nearest_segment : forall (t : tmap) (q v : Z),
  (forall i k, (i < k < length (ids t))%nat -> nth i (ids t) 0 < nth k (ids t) 0) ->
  (2 <= length (tm_entries t))%nat ->
  tmap_sample_id_to_timestamp t q = QVal v ->
  (q < nth 0 (ids t) 0 ->
     v = nth 0 (times t) 0 + Qround_haz (inject_Z (q - nth 0 (ids t) 0%Z) * (inject_Z (nth 1 (times t) 0%Z - nth 0 (times t) 0%Z) / inject_Z (nth 1 (ids t) 0%Z - nth 0 (ids t) 0%Z)))%Q) /\
  (nth (length (tm_entries t) - 1) (ids t) 0 <= q ->
     let c := (length (tm_entries t) - 2)%nat in
     v = nth c (times t) 0 + Qround_haz (inject_Z (q - nth c (ids t) 0%Z) * (inject_Z (nth (S c) (times t) 0%Z - nth c (times t) 0%Z) / inject_Z (nth (S c) (ids t) 0%Z - nth c (ids t) 0%Z)))%Q).
Proof. exact tmap_extrap_nearest_segment. Qed.
Print Assumptions C12_tmap_extrap_nearest_segment.

(* ---- every query, every map: either the single-entry rule (sample tm_rate, truncation, less
   than one tick from the exact value) or the segment c the bisection selects
   (x[c] <= q unless c is the first segment, q < x[c+1] unless c is the last) and at most
   1/2 tick from the exact value on that segment ---- *)
Theorem C12_tmap_within_one_tick : forall (t : tmap) (q v : Z),
  (forall i k, (i < k < length (ids t))%nat -> nth i (ids t) 0 < nth k (ids t) 0) ->
  tmap_sample_id_to_timestamp t q = QVal v ->
  (exists s0 u0, tm_entries t = [(s0, u0)] /\ (0 < tm_rate t)%Q /\
     v = u0 + Qtrunc ((inject_Z (q - s0) / tm_rate t) * inject_Z (2 ^ 30))%Q /\
     (Qabs (inject_Z v - (inject_Z u0 + (inject_Z (q - s0) / tm_rate t) * inject_Z (2 ^ 30))) < 1)%Q) \/
  (exists c,
     ((c + 2 <= length (ids t))%nat /\
      (forall i, (0 < i <= c)%nat -> nth i (ids t) 0 <= q) /\
      (forall i, (c < i)%nat -> (i + 1 < length (ids t))%nat -> q < nth i (ids t) 0)) /\
     v = nth c (times t) 0 + Qround_haz (inject_Z (q - nth c (ids t) 0%Z) * (inject_Z (nth (S c) (times t) 0%Z - nth c (times t) 0%Z) / inject_Z (nth (S c) (ids t) 0%Z - nth c (ids t) 0%Z)))%Q /\
     (Qabs (inject_Z v - (inject_Z (nth c (times t) 0%Z) + inject_Z (q - nth c (ids t) 0%Z) * (inject_Z (nth (S c) (times t) 0%Z - nth c (times t) 0%Z) / inject_Z (nth (S c) (ids t) 0%Z - nth c (ids t) 0%Z)))) <= 1 # 2)%Q).
Proof. exact tmap_within_one_tick. Qed.
Print Assumptions C12_tmap_within_one_tick.

(* ---- time -> id of (id -> time) is within one sample, when every segment has at least one
   tick per sample and the sample tm_rate is at most 2^30 Hz (used by the single-entry rule) ---- *)
Theorem C12_tmap_inverse_within_one_sample : forall (t : tmap) (q tm q' : Z),
  (forall i k, (i < k < length (ids t))%nat -> nth i (ids t) 0 < nth k (ids t) 0) ->
  (forall i, (i + 1 < length (tm_entries t))%nat ->
     nth (S i) (ids t) 0 - nth i (ids t) 0 <= nth (S i) (times t) 0 - nth i (times t) 0) ->
  (tm_rate t <= inject_Z (2 ^ 30))%Q ->
  tmap_sample_id_to_timestamp t q = QVal tm ->
  tmap_timestamp_to_sample_id t tm = QVal q' ->
  -1 <= q' - q <= 1.
Proof. exact tmap_inverse_within_one_sample. Qed.
Print Assumptions C12_tmap_inverse_within_one_sample.

(* ---- PARTIAL: binary64 evaluation of dk * (dt / ds).  For any rounding function fl with
   relative error 2^-53 (the standard model of round-to-nearest binary64), the computed value
   is less than 1 away from the exact one while |exact| < 2^51, so round() of it is within 1
   of the model's.  Not proved: that the machine's double arithmetic is such an fl and that
   the int64 -> double casts are exact (|dk|, |ds|, |dt| <= 2^53); measured by the
   correspondence check instead. ---- *)
Theorem C12_tmap_binary64_within_one_partial : forall (fl : Q -> Q),
  (forall x : Q, (Qabs (fl x - x) <= Qabs x * (1 # 2 ^ 53))%Q) ->
  forall dk ds dt : Z,
  let exact := (inject_Z dk * (inject_Z dt / inject_Z ds))%Q in
  let computed := fl (inject_Z dk * fl (inject_Z dt / inject_Z ds))%Q in
  (Qabs exact < inject_Z (2 ^ 51))%Q ->
  (Qabs (computed - exact) < 1)%Q /\ -1 <= Qround_haz computed - Qround_haz exact <= 1.
Proof. exact c_binary64_within_one_partial. Qed.
Print Assumptions C12_tmap_binary64_within_one_partial.

(* ---- the hypotheses are satisfiable: a 3-entry 1 kHz map with irregular spacing and drift ---- *)
Example C12_tmap_example_hypotheses :
  let t := tmap_add_all (tmap_alloc (1000 # 1)) [(0, 2 ^ 58); (1000, 2 ^ 58 + 2 ^ 30); (2500, 2 ^ 58 + 5 * 2 ^ 29 + 7)] in
  (forall i k, (i < k < length (ids t))%nat -> nth i (ids t) 0 < nth k (ids t) 0) /\
  (forall i k, (i < k < length (times t))%nat -> nth i (times t) 0 < nth k (times t) 0) /\
  (forall i k, (i <= k < length (times t))%nat -> nth i (times t) 0 <= nth k (times t) 0) /\
  (length (tm_entries t) < tm_phys t)%nat /\
  Forall (fun v => - (2 ^ 62 - 1) <= v <= 2 ^ 62 - 1) (ids t) /\
  Forall (fun v => - (2 ^ 62 - 1) <= v <= 2 ^ 62 - 1) (times t) /\
  (0 < tm_rate t)%Q /\ (tm_rate t <= inject_Z (2 ^ 30))%Q /\
  (forall i, (i + 1 < length (tm_entries t))%nat ->
     nth (S i) (ids t) 0 - nth i (ids t) 0 <= nth (S i) (times t) 0 - nth i (times t) 0).
Proof. exact ex_map_ok. Qed.
Print Assumptions C12_tmap_example_hypotheses.

(* concrete values of the current code: the example map; a single entry; two anchors with the
   same UTC time (the first anchor's id, no tm_fault) *)
Example C12_tmap_example_values :
  let t := tmap_add_all (tmap_alloc (1000 # 1)) [(0, 2 ^ 58); (1000, 2 ^ 58 + 2 ^ 30); (2500, 2 ^ 58 + 5 * 2 ^ 29 + 7)] in
  let t1 := tmap_add_all (tmap_alloc (1000 # 1)) [(5000, 2 ^ 58)] in
  let eqt := tmap_add_all (tmap_alloc (1000 # 1)) [(0, 2 ^ 40); (1000, 2 ^ 40)] in
  tmap_sample_id_to_timestamp t 500 = QVal (2 ^ 58 + 2 ^ 29) /\
  tmap_sample_id_to_timestamp t 1000 = QVal (2 ^ 58 + 2 ^ 30) /\
  tmap_sample_id_to_timestamp t 3000 = QVal (2 ^ 58 + 5 * 2 ^ 29 + 7 + 536870914) /\
  tmap_timestamp_to_sample_id t (2 ^ 58 + 2 ^ 29) = QVal 500 /\
  tmap_sample_id_to_timestamp t1 6000 = QVal (2 ^ 58 + 2 ^ 30) /\
  tmap_timestamp_to_sample_id eqt (2 ^ 40) = QVal 0 /\
  tmap_timestamp_to_sample_id eqt (2 ^ 40 + 5) = QVal 0.
Proof. exact ex_map_values. Qed.
Print Assumptions C12_tmap_example_values.

(* the map holding exactly ENTRIES_ALLOC_INIT = 1000 tm_entries, queried beyond its last anchor in
   both directions: a value, no tm_fault (the old code read outside the heap object here) *)
Example C12_tmap_example_at_capacity :
  exists t : tmap,
    t = tmap_add_all (tmap_alloc (1000 # 1))
          (map (fun i => (Z.of_nat i * 1000, 2 ^ 58 + Z.of_nat i * 2 ^ 30)) (seq 0 (N.to_nat TMAP_ENTRIES_ALLOC_INIT))) /\
    tmap_sample_id_to_timestamp t 999001 = QVal (2 ^ 58 + 999 * 2 ^ 30 + 1073742) /\
    tmap_timestamp_to_sample_id t (2 ^ 58 + 1000 * 2 ^ 30) = QVal 1000000.
Proof. exact full_map_values. Qed.
Print Assumptions C12_tmap_example_at_capacity.

Example C12_tmap_binary64_hypothesis_satisfiable :
  forall x : Q, (Qabs ((fun y => y) x - x) <= Qabs x * (1 # 2 ^ 53))%Q.
Proof. exact c_binary64_hypothesis_satisfiable. Qed.
Print Assumptions C12_tmap_binary64_hypothesis_satisfiable.

(* ====================================================================================== *)
(* Documentation of the two defects repaired in /repo, on the model of the code BEFORE the
   repairs (TmapModel.*_old; `junk` = content of the uninitialised cell x[length],
   `tm_phys t` = 8-byte cells of the heap object).                                            *)
(* ====================================================================================== *)

(* old defect 1 (fixed by 4ae268d): with length = allocated cells the bisection read x[length]
   outside the heap object for every query beyond the last anchor, and only then *)
Theorem C12_tmap_old_oob_refuted :
  exists (t : tmap) (q : Z),
    t = tmap_add_all (tmap_alloc (1000 # 1))
          (map (fun i => (Z.of_nat i * 1000, 2 ^ 58 + Z.of_nat i * 2 ^ 30)) (seq 0 (N.to_nat TMAP_ENTRIES_ALLOC_INIT))) /\
    (forall i k, (i < k < length (ids t))%nat -> nth i (ids t) 0 < nth k (ids t) 0) /\
    (forall i k, (i < k < length (times t))%nat -> nth i (times t) 0 < nth k (times t) 0) /\
    length (tm_entries t) = N.to_nat TMAP_ENTRIES_ALLOC_INIT /\
    forall junk, tmap_sample_id_to_timestamp_old junk t q = QFault Tm_OOB_read /\
                 tmap_timestamp_to_sample_id_old junk t (2 ^ 58 + 1000 * 2 ^ 30) = QFault Tm_OOB_read.
Proof. exact tmap_old_oob_refuted. Qed.
Print Assumptions C12_tmap_old_oob_refuted.

Theorem C12_tmap_old_oob_iff : forall (junk : Z) (t : tmap) (q : Z),
  (forall i k, (i < k < length (ids t))%nat -> nth i (ids t) 0 < nth k (ids t) 0) ->
  (2 <= length (tm_entries t))%nat -> (tm_phys t <= length (tm_entries t))%nat ->
  (tmap_sample_id_to_timestamp_old junk t q = QFault Tm_OOB_read <-> nth (length (tm_entries t) - 1) (ids t) 0 < q).
Proof. exact tmap_old_oob_iff. Qed.
Print Assumptions C12_tmap_old_oob_iff.

(* below capacity the old result did not depend on the uninitialised cell it read *)
Theorem C12_tmap_old_junk_independent : forall (junk junk' : Z) (t : tmap) (q : Z),
  (length (tm_entries t) < tm_phys t)%nat ->
  tmap_sample_id_to_timestamp_old junk t q = tmap_sample_id_to_timestamp_old junk' t q /\
  tmap_timestamp_to_sample_id_old junk t q = tmap_timestamp_to_sample_id_old junk' t q.
Proof. exact tmap_old_junk_independent. Qed.
Print Assumptions C12_tmap_old_junk_independent.

(* old defect 2 (fixed by 768bbbf): non-decreasing but equal consecutive times made time -> id
   divide by zero in double and cast NaN to int64 (undefined behaviour), even at a stored anchor *)
Theorem C12_tmap_old_equal_times_refuted :
  exists (t : tmap) (s u : Z),
    (forall i k, (i < k < length (ids t))%nat -> nth i (ids t) 0 < nth k (ids t) 0) /\
    (forall i k, (i <= k < length (times t))%nat -> nth i (times t) 0 <= nth k (times t) 0) /\
    (length (tm_entries t) < tm_phys t)%nat /\
    In (s, u) (tm_entries t) /\
    tmap_sample_id_to_timestamp_old 0 t s = QVal u /\
    tmap_timestamp_to_sample_id_old 0 t u = QFault Tm_FP_invalid.
Proof. exact tmap_old_equal_times_refuted. Qed.
Print Assumptions C12_tmap_old_equal_times_refuted.

(* the repairs changed no defined result: the current code returns what the old code returned
   whenever the old code could not read outside its heap object (strictly increasing search keys) *)
Theorem C12_tmap_eq_old : forall (junk : Z) (t : tmap) (q : Z),
  (length (tm_entries t) < tm_phys t)%nat ->
  ((forall i k, (i < k < length (ids t))%nat -> nth i (ids t) 0 < nth k (ids t) 0) ->
   tmap_sample_id_to_timestamp t q = tmap_sample_id_to_timestamp_old junk t q) /\
  ((forall i k, (i < k < length (times t))%nat -> nth i (times t) 0 < nth k (times t) 0) ->
   tmap_timestamp_to_sample_id t q = tmap_timestamp_to_sample_id_old junk t q).
Proof. exact tmap_eq_old. Qed.
Print Assumptions C12_tmap_eq_old.
