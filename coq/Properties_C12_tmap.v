From Coq Require Import ZArith QArith List Bool Arith Lia.
From JLS Require Import Generated TmapModel TmapProofs.
