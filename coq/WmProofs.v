(* A few cheap facts about the writer model (WmRaw / WriterModel); the real proofs about it (write-once,
   format conformance, crash shape) are other slices' work.  What is here:
     wm_rev_eq                 wm_rev = List.rev
     wm_*_log_ext              every raw-layer operation only ADDS entries to the log
     wm_raw_wr_append_nonempty / _empty
                               a chunk append = the three (one) write entries header / payload / pad+CRC whose
                               bytes are exactly Format.fm_encode_chunk of the stamped header and the payload,
                               at consecutive offsets starting at the old end of file; position bookkeeping after it
     wm_raw_wr_append_aligned  an append at an 8-aligned end of file leaves the end of file 8-aligned
     examples (vm_compute)     jls_wr_open; jls_wr_close = 23 backend calls, no fault; file length 832 *)
From Coq Require Import NArith ZArith List Bool Lia.
From JLS Require Import Generated CrcDefs Spec Format FormatProofs WmRaw WmCore WmTs WmFsr WriterModel.
Import ListNotations.
Local Open Scope N_scope.

Lemma wm_rev_eq : forall (A : Type) (l : list A), wm_rev l = rev l.
Proof. intros A l. unfold wm_rev. symmetry. apply rev_alt. Qed.

(* ---- the log only grows ---- *)
Definition wm_log_ext (r r' : wm_raw) : Prop := exists l, wm_rlog r' = l ++ wm_rlog r.

Lemma wm_log_ext_refl : forall r, wm_log_ext r r.
Proof. intro r. exists []. reflexivity. Qed.
Lemma wm_log_ext_trans : forall a b c, wm_log_ext a b -> wm_log_ext b c -> wm_log_ext a c.
Proof. intros a b c [l1 H1] [l2 H2]. exists (l2 ++ l1). rewrite H2, H1. apply app_assoc. Qed.
Lemma wm_log_ext_same : forall r r', wm_rlog r' = wm_rlog r -> wm_log_ext r r'.
Proof. intros r r' H. exists []. exact H. Qed.

Lemma wm_bk_fwrite_log : forall r b, wm_rlog (wm_bk_fwrite r b) = WmWrite (wm_fpos r) b :: wm_rlog r.
Proof. reflexivity. Qed.
Lemma wm_bk_fwrite_log_ext : forall r b, wm_log_ext r (wm_bk_fwrite r b).
Proof. intros r b. exists [WmWrite (wm_fpos r) b]. reflexivity. Qed.

Lemma wm_raw_chunk_seek_log : forall r o, wm_rlog (wm_raw_chunk_seek r o) = wm_rlog r.
Proof. intros r o. unfold wm_raw_chunk_seek. destruct (o =? 0); reflexivity. Qed.

Lemma wm_raw_wr_header_log_ext : forall r h, wm_log_ext r (fst (wm_raw_wr_header r h)).
Proof.
  intros r h. unfold wm_raw_wr_header. cbn [fst].
  destruct (wm_offset r =? wm_fpos r); eexists [_]; reflexivity.
Qed.

Lemma wm_raw_rd_header_log : forall r, wm_rlog (wm_raw_rd_header r) = wm_rlog r.
Proof.
  intro r. unfold wm_raw_rd_header.
  destruct (wm_hdr_valid r); [reflexivity|].
  destruct (wm_fend r <=? wm_fpos r); [reflexivity|].
  destruct (wm_offset r =? wm_fpos r); cbn;
    match goal with |- context [wm_disk_get ?d ?o] => destruct (wm_disk_get d o) end; reflexivity.
Qed.

Lemma wm_raw_wr_payload_log_ext : forall r n p, wm_log_ext r (wm_raw_wr_payload r n p).
Proof.
  intros r n p. unfold wm_raw_wr_payload.
  pose proof (wm_raw_rd_header_log r) as Hrd.
  set (r1 := wm_raw_rd_header r) in *.
  destruct (wm_fault r1); [apply wm_log_ext_same; exact Hrd|].
  destruct (n =? 0).
  - apply wm_log_ext_same. destruct (wm_fend r1 <=? wm_fpos r1); exact Hrd.
  - match goal with |- wm_log_ext r (if ?c then _ else _) => destruct c end;
      (destruct (N.of_nat (length p) <? fm_payload_length (wm_hdr r1));
       eexists [_; _]; cbn; rewrite Hrd; reflexivity).
Qed.

Lemma wm_raw_wr_log_ext : forall r h p, wm_log_ext r (fst (wm_raw_wr r h p)).
Proof.
  intros r h p. unfold wm_raw_wr.
  pose proof (wm_raw_wr_header_log_ext r h) as H1.
  destruct (wm_raw_wr_header r h) as [r1 h1]. cbn [fst] in *.
  eapply wm_log_ext_trans; [exact H1|].
  eapply wm_log_ext_trans; [apply wm_raw_wr_payload_log_ext|].
  apply wm_log_ext_same. reflexivity.
Qed.

(* ---- a chunk append ---- *)
Definition wm_appending (r : wm_raw) : Prop :=
  wm_offset r = wm_fpos r /\ wm_fend r = wm_fpos r /\ wm_fault r = false.

Definition wm_mk_raw (fpos fend off : N) (hdr : fm_chunk_header) (lpl : N) (disk : list (N * fm_chunk_header)) (log : wm_log) (flt : bool) : wm_raw :=
  {| wm_fpos := fpos; wm_fend := fend; wm_offset := off; wm_hdr := hdr; wm_last_pl := lpl; wm_disk := disk; wm_rlog := log; wm_fault := flt |}.

Lemma wm_appending_inv : forall r, wm_appending r ->
  r = wm_mk_raw (wm_fpos r) (wm_fpos r) (wm_fpos r) (wm_hdr r) (wm_last_pl r) (wm_disk r) (wm_rlog r) false.
Proof.
  intros r [Ho [He Hf]]. destruct r as [fpos fend off hdr lpl disk log flt].
  cbv [wm_offset wm_fpos wm_fend wm_fault] in Ho, He, Hf. subst off fend flt. reflexivity.
Qed.

(* step 1: the header write of an append *)
Lemma wm_raw_wr_header_append : forall fpos hdr lpl disk log h,
  wm_raw_wr_header (wm_mk_raw fpos fpos fpos hdr lpl disk log false) h =
  (let h1 := wm_hdr_set_ppl h lpl in
   let hb := fm_encode_chunk_header h1 in
   (wm_mk_raw (fpos + N.of_nat (length hb)) (N.max fpos (fpos + N.of_nat (length hb))) fpos h1 lpl ((fpos, h1) :: disk)
              (WmWrite fpos hb :: log) false, h1)).
Proof.
  intros. unfold wm_raw_wr_header, wm_mk_raw.
  cbv [wm_fend wm_fpos wm_offset wm_last_pl].
  rewrite N.leb_refl, N.eqb_refl. reflexivity.
Qed.

(* step 2: the payload + footer writes when a valid header with the same payload length is cached *)
Lemma wm_raw_wr_payload_append : forall fpos h1 lpl disk log p,
  (fm_tag h1 =? JLS_TAG_INVALID) = false -> fm_payload_length h1 = N.of_nat (length p) -> N.of_nat (length p) <> 0 ->
  wm_raw_wr_payload (wm_mk_raw fpos fpos (fpos - 32) h1 lpl disk log false) (N.of_nat (length p)) p =
  (let ft := wm_footer (N.of_nat (length p)) (crc32c p) in
   let e1 := fpos + N.of_nat (length p) in
   let e2 := e1 + N.of_nat (length ft) in
   wm_mk_raw e2 (N.max (N.max fpos e1) e2) (fpos - 32) h1
             (if N.max (N.max fpos e1) e2 <=? e2 then N.of_nat (length p) else lpl) disk
             (WmWrite e1 ft :: WmWrite fpos p :: log) false).
Proof.
  intros fpos h1 lpl disk log p Htag Hpl Hne.
  unfold wm_raw_wr_payload, wm_raw_rd_header, wm_hdr_valid, wm_mk_raw.
  cbv [wm_hdr wm_fault]. rewrite Htag. cbv [negb wm_fault].
  destruct (N.of_nat (length p) =? 0) eqn:E0; [apply N.eqb_eq in E0; congruence|].
  cbv [wm_hdr]. rewrite Hpl, N.ltb_irrefl, Nat2N.id, firstn_all.
  unfold wm_bk_fwrite. cbv [wm_fpos wm_fend wm_offset wm_hdr wm_last_pl wm_disk wm_rlog wm_fault].
  match goal with |- (if ?c then _ else _) = _ => destruct c end; reflexivity.
Qed.

Lemma wm_footer_length : forall n c, N.of_nat (length (wm_footer n c)) = fm_pad_len n + 4.
Proof.
  intros n c. unfold wm_footer. rewrite app_length, repeat_length, Nat2N.inj_add, N2Nat.id.
  unfold fm_enc_u32. rewrite fm_enc_length. reflexivity.
Qed.
Lemma wm_hdr_bytes_length : forall h, N.of_nat (length (fm_encode_chunk_header h)) = 32.
Proof. intro h. rewrite fm_encode_chunk_header_length. reflexivity. Qed.

Lemma wm_raw_wr_append_nonempty : forall r h p,
  wm_appending r -> fm_payload_length h = N.of_nat (length p) -> p <> [] -> fm_tag h <> JLS_TAG_INVALID ->
  let h1 := wm_hdr_set_ppl h (wm_last_pl r) in
  let hb := fm_encode_chunk_header h1 in
  let ft := wm_footer (N.of_nat (length p)) (crc32c p) in
  wm_raw_wr r h p =
  (wm_mk_raw (wm_fpos r + fm_chunk_size (N.of_nat (length p))) (wm_fpos r + fm_chunk_size (N.of_nat (length p)))
             (wm_fpos r + fm_chunk_size (N.of_nat (length p))) (wm_hdr_set_tag h1 JLS_TAG_INVALID) (N.of_nat (length p))
             ((wm_fpos r, h1) :: wm_disk r)
             (WmWrite (wm_fpos r + 32 + N.of_nat (length p)) ft :: WmWrite (wm_fpos r + 32) p :: WmWrite (wm_fpos r) hb :: wm_rlog r)
             false, h1)
  /\ hb ++ p ++ ft = fm_encode_chunk h1 p.
Proof.
  intros r h p Ha Hpl Hne Htag h1 hb ft.
  assert (Hlen0 : N.of_nat (length p) <> 0) by (destruct p; [congruence | cbn [length]; lia]).
  assert (Hpl1 : fm_payload_length h1 = N.of_nat (length p)) by (subst h1; cbv [fm_payload_length wm_hdr_set_ppl]; exact Hpl).
  assert (Htag1 : (fm_tag h1 =? JLS_TAG_INVALID) = false) by (subst h1; cbv [fm_tag wm_hdr_set_ppl]; apply N.eqb_neq; exact Htag).
  split.
  - rewrite (wm_appending_inv r Ha) at 1. unfold wm_raw_wr.
    rewrite wm_raw_wr_header_append. cbv beta iota zeta. fold h1. fold hb.
    rewrite Hpl1.
    replace (wm_fpos r + N.of_nat (length hb)) with (wm_fpos r + 32) by (subst hb; rewrite wm_hdr_bytes_length; reflexivity).
    rewrite (N.max_r (wm_fpos r) (wm_fpos r + 32)) by lia.
    replace (wm_mk_raw (wm_fpos r + 32) (wm_fpos r + 32) (wm_fpos r) h1 (wm_last_pl r) ((wm_fpos r, h1) :: wm_disk r) (WmWrite (wm_fpos r) hb :: wm_rlog r) false)
      with (wm_mk_raw (wm_fpos r + 32) (wm_fpos r + 32) (wm_fpos r + 32 - 32) h1 (wm_last_pl r) ((wm_fpos r, h1) :: wm_disk r) (WmWrite (wm_fpos r) hb :: wm_rlog r) false)
      by (f_equal; lia).
    rewrite (wm_raw_wr_payload_append (wm_fpos r + 32) h1 (wm_last_pl r) ((wm_fpos r, h1) :: wm_disk r) (WmWrite (wm_fpos r) hb :: wm_rlog r) p Htag1 Hpl1 Hlen0).
    cbv zeta. rewrite (wm_footer_length (N.of_nat (length p)) (crc32c p)). fold ft.
    assert (Hsz : fm_chunk_size (N.of_nat (length p)) = 32 + N.of_nat (length p) + (fm_pad_len (N.of_nat (length p)) + 4)).
    { unfold fm_chunk_size, fm_disk_len. destruct (N.of_nat (length p) =? 0) eqn:E0; [apply N.eqb_eq in E0; congruence|].
      unfold SIZEOF_chunk_header, RAW_CRC_SIZE. lia. }
    rewrite Hsz.
    set (a := wm_fpos r). set (n := N.of_nat (length p)). set (q := fm_pad_len n).
    replace (N.max (N.max (a + 32) (a + 32 + n)) (a + 32 + n + (q + 4))) with (a + 32 + n + (q + 4)) by lia.
    rewrite N.leb_refl.
    unfold wm_mk_raw, wm_invalidate, wm_set_hdr, wm_set_offset.
    cbv [wm_fpos wm_fend wm_offset wm_hdr wm_last_pl wm_disk wm_rlog wm_fault].
    f_equal. f_equal; lia.
  - subst hb ft. unfold fm_encode_chunk, fm_frame, wm_footer. destruct p; [congruence|]. reflexivity.
Qed.

Lemma wm_raw_wr_append_empty : forall r h,
  wm_appending r -> fm_payload_length h = 0 -> fm_tag h <> JLS_TAG_INVALID ->
  let h1 := wm_hdr_set_ppl h (wm_last_pl r) in
  wm_raw_wr r h [] =
  (wm_mk_raw (wm_fpos r + 32) (wm_fpos r + 32) (wm_fpos r + 32) (wm_hdr_set_tag h1 JLS_TAG_INVALID) 0
             ((wm_fpos r, h1) :: wm_disk r) (WmWrite (wm_fpos r) (fm_encode_chunk h1 []) :: wm_rlog r) false, h1).
Proof.
  intros r h Ha Hpl Htag h1.
  assert (Hpl1 : fm_payload_length h1 = 0) by (subst h1; cbv [fm_payload_length wm_hdr_set_ppl]; exact Hpl).
  assert (Htag1 : (fm_tag h1 =? JLS_TAG_INVALID) = false) by (subst h1; cbv [fm_tag wm_hdr_set_ppl]; apply N.eqb_neq; exact Htag).
  rewrite (wm_appending_inv r Ha) at 1. unfold wm_raw_wr.
  rewrite wm_raw_wr_header_append. cbv beta iota zeta. fold h1.
  rewrite wm_hdr_bytes_length, Hpl1.
  rewrite (N.max_r (wm_fpos r) (wm_fpos r + 32)) by lia.
  unfold wm_raw_wr_payload, wm_raw_rd_header, wm_hdr_valid, wm_mk_raw.
  cbv [wm_hdr wm_fault]. rewrite Htag1. cbv [negb wm_fault N.eqb wm_fend wm_fpos].
  rewrite N.leb_refl.
  unfold wm_invalidate, wm_set_hdr, wm_set_offset, wm_set_last_pl.
  cbv [wm_fpos wm_fend wm_offset wm_hdr wm_last_pl wm_disk wm_rlog wm_fault].
  unfold fm_encode_chunk. cbn [fm_frame]. rewrite app_nil_r. reflexivity.
Qed.

Lemma wm_mk_raw_appending : forall a hdr lpl disk log, wm_appending (wm_mk_raw a a a hdr lpl disk log false).
Proof. intros. repeat split. Qed.
Lemma wm_mk_raw_fpos : forall a b c hdr lpl disk log f, wm_fpos (wm_mk_raw a b c hdr lpl disk log f) = a.
Proof. reflexivity. Qed.

Lemma wm_raw_wr_append_aligned : forall r h p,
  wm_appending r -> fm_payload_length h = N.of_nat (length p) -> fm_tag h <> JLS_TAG_INVALID ->
  wm_fpos r mod 8 = 0 -> wm_fpos (fst (wm_raw_wr r h p)) mod 8 = 0 /\ wm_appending (fst (wm_raw_wr r h p)).
Proof.
  intros r h p Ha Hpl Htag Hal.
  destruct p as [|b p'].
  - rewrite (wm_raw_wr_append_empty r h Ha Hpl Htag). cbv [fst]. rewrite wm_mk_raw_fpos.
    split; [|apply wm_mk_raw_appending]. rewrite N.add_mod by discriminate. rewrite Hal. reflexivity.
  - assert (Hne : b :: p' <> []) by discriminate.
    destruct (wm_raw_wr_append_nonempty r h (b :: p') Ha Hpl Hne Htag) as [Hw _]. rewrite Hw.
    cbv [fst]. rewrite wm_mk_raw_fpos.
    split; [|apply wm_mk_raw_appending]. rewrite N.add_mod by discriminate. rewrite Hal, fm_chunk_size_mod8. reflexivity.
Qed.

(* ---- sanity by computation: wopen; wclose ---- *)
Definition wm_zero_summ1 (_ : N) (_ : list N) : wm_sentry := (0, 0, 0, 0).
Definition wm_zero_summN (_ : bool) (_ : list wm_sentry) : wm_sentry := (0, 0, 0, 0).

Example wm_open_close_log_length : length (wm_run wm_zero_summ1 wm_zero_summN []) = 23%nat.
Proof. vm_compute. reflexivity. Qed.
Example wm_open_close_no_fault : wm_st_fault (fst (wm_run_full wm_zero_summ1 wm_zero_summN [])) = false.
Proof. vm_compute. reflexivity. Qed.
Example wm_open_close_file_length : wm_fend (wm_b_raw (wm_st_base (fst (wm_run_full wm_zero_summ1 wm_zero_summN [])))) = 832.
Proof. vm_compute. reflexivity. Qed.
Example wm_open_is_appending : wm_appending (wm_b_raw (wm_st_base wm_api_open)).
Proof. vm_compute. repeat split. Qed.

(* ---- wm_step (entries of one call) agrees with the accumulated log, on a program touching every op ---- *)
Fixpoint wm_steps_logs (summ1 : N -> list N -> wm_sentry) (summN : bool -> list wm_sentry -> wm_sentry)
         (st : wm_state) (p : list wop) : wm_state * list wm_entry :=
  match p with
  | [] => (st, [])
  | o :: r => let '(st1, l) := wm_step summ1 summN st o in
              let '(st2, ls) := wm_steps_logs summ1 summN st1 r in (st2, l ++ ls)
  end.
Definition wm_example_prog : list wop :=
  [ WSrc {| so_id := 3; so_name := SBytes [97; 98]; so_vendor := SNull; so_model := SBytes []; so_version := SNull; so_serial := SNull |};
    WSig {| sg_id := 5; sg_src := 3; sg_type := 0; sg_dtype := JLS_DATATYPE_U8; sg_rate := 1000; sg_spd := 32; sg_sdf := 32;
            sg_eps := 10; sg_sumdf := 10; sg_adf := 10; sg_udf := 10; sg_name := SBytes [120]; sg_units := SNull |};
    WSig {| sg_id := 5; sg_src := 3; sg_type := 0; sg_dtype := JLS_DATATYPE_U8; sg_rate := 1000; sg_spd := 32; sg_sdf := 32;
            sg_eps := 10; sg_sumdf := 10; sg_adf := 10; sg_udf := 10; sg_name := SBytes [120]; sg_units := SNull |};
    WFsr 5 100%Z (map N.of_nat (seq 0 70));
    WOmit 5 1;
    WFsr 5 175%Z (repeat 7 400);
    WAnno 5 (({| an_ts := 3%Z; an_y := 0x3f800000; an_type := 1; an_group := 2; an_stype := 2; an_data := [104; 105; 0] |}));
    WAnno 0 (({| an_ts := (-3)%Z; an_y := 0; an_type := 0; an_group := 0; an_stype := 1; an_data := [1; 2; 3; 4; 5] |}));
    WUtc 5 100%Z 123456789%Z;
    WUtc 9 100%Z 0%Z;
    WUd {| ud_meta := 0xf123; ud_stype := 3; ud_data := [123; 125; 0] |};
    WFlush ].
Example wm_step_agrees_with_run :
  let s1 := wm_zero_summ1 in let sN := wm_zero_summN in
  let '(st, l) := wm_steps_logs s1 sN (wm_st_clear_log wm_api_open) wm_example_prog in
  wm_run s1 sN wm_example_prog = wm_rev (wm_st_log wm_api_open) ++ l ++ wm_rev (wm_st_log (wm_api_close s1 sN st))
  /\ snd (wm_run_full s1 sN wm_example_prog) = [0; 0; JLS_ERROR_ALREADY_EXISTS; 0; 0; 0; 0; 0; 0; JLS_ERROR_NOT_FOUND; 0; 0]
  /\ wm_st_fault (fst (wm_run_full s1 sN wm_example_prog)) = false.
Proof. vm_compute. repeat split. Qed.
