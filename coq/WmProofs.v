(* A few cheap facts about the writer model (WmRaw / WriterModel); the real proofs about it (write-once,
   format conformance, crash shape) are other slices' work.  What is here:
     wm_rev_eq                 wm_rev = List.rev
     wm_*_log_ext              every raw-layer operation only ADDS entries to the log
     wm_raw_wr_append_nonempty / _empty
                               a chunk append = the three (one) write entries header / payload / pad+CRC whose
                               bytes are exactly Format.fm_encode_chunk of the stamped header and the payload,
                               at consecutive offsets starting at the old end of file; position bookkeeping after it
     wm_raw_wr_append_aligned  an append at an 8-aligned end of file leaves the end of file 8-aligned
     examples (vm_compute)     jls_wr_open; jls_wr_close = 23 backend calls, no fault; file length 832 *)
From Coq Require Import NArith ZArith List Bool Lia.
From JLS Require Import Generated CrcDefs Spec Format FormatProofs WmRaw WmCore WmTs WmFsr WriterModel.
Import ListNotations.
Local Open Scope N_scope.

Lemma wm_rev_eq : forall (A : Type) (l : list A), wm_rev l = rev l.
Proof. intros A l. unfold wm_rev. symmetry. apply rev_alt. Qed.

(* ---- the log only grows ---- *)
Definition wm_log_ext (r r' : wm_raw) : Prop := exists l, wm_rlog r' = l ++ wm_rlog r.

Lemma wm_log_ext_refl : forall r, wm_log_ext r r.
Proof. intro r. exists []. reflexivity. Qed.
Lemma wm_log_ext_trans : forall a b c, wm_log_ext a b -> wm_log_ext b c -> wm_log_ext a c.
Proof. intros a b c [l1 H1] [l2 H2]. exists (l2 ++ l1). rewrite H2, H1. apply app_assoc. Qed.
Lemma wm_log_ext_same : forall r r', wm_rlog r' = wm_rlog r -> wm_log_ext r r'.
Proof. intros r r' H. exists []. exact H. Qed.

Lemma wm_bk_fwrite_log : forall r b, wm_rlog (wm_bk_fwrite r b) = WmWrite (wm_fpos r) b :: wm_rlog r.
Proof. reflexivity. Qed.
Lemma wm_bk_fwrite_log_ext : forall r b, wm_log_ext r (wm_bk_fwrite r b).
Proof. intros r b. exists [WmWrite (wm_fpos r) b]. reflexivity. Qed.

Lemma wm_raw_chunk_seek_log : forall r o, wm_rlog (wm_raw_chunk_seek r o) = wm_rlog r.
Proof. intros r o. unfold wm_raw_chunk_seek. destruct (o =? 0); reflexivity. Qed.

Lemma wm_raw_wr_header_log_ext : forall r h, wm_log_ext r (fst (wm_raw_wr_header r h)).
Proof.
  intros r h. unfold wm_raw_wr_header. cbn [fst].
  destruct (wm_offset r =? wm_fpos r); eexists [_]; reflexivity.
Qed.

Lemma wm_raw_rd_header_log : forall r, wm_rlog (wm_raw_rd_header r) = wm_rlog r.
Proof.
  intro r. unfold wm_raw_rd_header.
  destruct (wm_hdr_valid r); [reflexivity|].
  destruct (wm_fend r <=? wm_fpos r); [reflexivity|].
  destruct (wm_offset r =? wm_fpos r); cbn;
    match goal with |- context [wm_disk_get ?d ?o] => destruct (wm_disk_get d o) end; reflexivity.
Qed.

Lemma wm_raw_wr_payload_log_ext : forall r n p, wm_log_ext r (wm_raw_wr_payload r n p).
Proof.
  intros r n p. unfold wm_raw_wr_payload.
  pose proof (wm_raw_rd_header_log r) as Hrd.
  set (r1 := wm_raw_rd_header r) in *.
  destruct (wm_fault r1); [apply wm_log_ext_same; exact Hrd|].
  destruct (n =? 0).
  - apply wm_log_ext_same. destruct (wm_fend r1 <=? wm_fpos r1); exact Hrd.
  - match goal with |- wm_log_ext r (if ?c then _ else _) => destruct c end;
      (destruct (N.of_nat (length p) <? fm_payload_length (wm_hdr r1));
       eexists [_; _]; cbn; rewrite Hrd; reflexivity).
Qed.

Lemma wm_raw_wr_log_ext : forall r h p, wm_log_ext r (fst (wm_raw_wr r h p)).
Proof.
  intros r h p. unfold wm_raw_wr.
  pose proof (wm_raw_wr_header_log_ext r h) as H1.
  destruct (wm_raw_wr_header r h) as [r1 h1]. cbn [fst] in *.
  eapply wm_log_ext_trans; [exact H1|].
  eapply wm_log_ext_trans; [apply wm_raw_wr_payload_log_ext|].
  apply wm_log_ext_same. reflexivity.
Qed.

(* ---- a chunk append ---- *)
Definition wm_appending (r : wm_raw) : Prop :=
  wm_offset r = wm_fpos r /\ wm_fend r = wm_fpos r /\ wm_fault r = false.

Ltac wm_proj :=
  unfold wm_bk_fwrite, wm_disk_put, wm_set_hdr, wm_set_offset, wm_invalidate, wm_set_last_pl, wm_set_fpos, wm_bk_fseek, wm_hdr_set_tag;
  cbn [wm_fend wm_fpos wm_offset wm_last_pl wm_hdr wm_fault wm_rlog wm_disk fst snd fm_tag wm_hdr_set_ppl fm_payload_length].

Lemma wm_raw_wr_append_empty : forall r h,
  wm_appending r -> fm_payload_length h = 0 -> fm_tag h <> JLS_TAG_INVALID ->
  let h1 := wm_hdr_set_ppl h (wm_last_pl r) in
  let r' := fst (wm_raw_wr r h []) in
  snd (wm_raw_wr r h []) = h1 /\
  wm_rlog r' = WmWrite (wm_fpos r) (fm_encode_chunk h1 []) :: wm_rlog r /\
  wm_fpos r' = wm_fpos r + fm_chunk_size 0 /\ wm_appending r' /\ wm_last_pl r' = 0.
Proof.
  intros r h [Ho [He Hf]] Hpl Htag h1 r'.
  destruct r as [fpos fend off hdr lpl disk log flt].
  cbn [wm_offset wm_fpos wm_fend wm_fault] in Ho, He, Hf. subst off fend flt.
  subst h1 r'. unfold wm_raw_wr, wm_raw_wr_header.
  cbn [wm_fend wm_fpos wm_offset wm_last_pl].
  rewrite N.leb_refl, N.eqb_refl.
  assert (Hl : N.of_nat (length (fm_encode_chunk_header (wm_hdr_set_ppl h lpl))) = 32).
  { rewrite fm_encode_chunk_header_length. reflexivity. }
  unfold wm_raw_wr_payload, wm_raw_rd_header, wm_hdr_valid.
  wm_proj. rewrite Hl.
  destruct (fm_tag h =? JLS_TAG_INVALID) eqn:Et; [apply N.eqb_eq in Et; congruence|].
  cbn [negb]. rewrite Hpl. cbn [N.eqb].
  rewrite N.max_r by lia. rewrite N.leb_refl.
  wm_proj. unfold wm_appending. wm_proj.
  unfold fm_encode_chunk. cbn [fm_frame]. rewrite app_nil_r.
  unfold fm_chunk_size, fm_disk_len, SIZEOF_chunk_header. cbn [N.eqb].
  repeat split; try reflexivity. lia.
Qed.

Lemma wm_raw_wr_append_nonempty : forall r h p,
  wm_appending r -> fm_payload_length h = N.of_nat (length p) -> p <> [] -> fm_tag h <> JLS_TAG_INVALID ->
  let h1 := wm_hdr_set_ppl h (wm_last_pl r) in
  let r' := fst (wm_raw_wr r h p) in
  let hb := fm_encode_chunk_header h1 in
  let ft := wm_footer (N.of_nat (length p)) (crc32c p) in
  snd (wm_raw_wr r h p) = h1 /\
  wm_rlog r' = WmWrite (wm_fpos r + 32 + N.of_nat (length p)) ft :: WmWrite (wm_fpos r + 32) p :: WmWrite (wm_fpos r) hb :: wm_rlog r /\
  hb ++ p ++ ft = fm_encode_chunk h1 p /\
  wm_fpos r' = wm_fpos r + fm_chunk_size (N.of_nat (length p)) /\ wm_appending r' /\ wm_last_pl r' = N.of_nat (length p).
Proof.
  intros r h p [Ho [He Hf]] Hpl Hne Htag h1 r' hb ft.
  assert (Hlen0 : N.of_nat (length p) <> 0) by (destruct p; [congruence | cbn [length]; lia]).
  destruct r as [fpos fend off hdr lpl disk log flt].
  cbn [wm_offset wm_fpos wm_fend wm_fault] in Ho, He, Hf. subst off fend flt.
  subst h1 r' hb ft. unfold wm_raw_wr, wm_raw_wr_header.
  cbn [wm_fend wm_fpos wm_offset wm_last_pl].
  rewrite N.leb_refl, N.eqb_refl.
  set (h1 := wm_hdr_set_ppl h lpl).
  assert (Hl : N.of_nat (length (fm_encode_chunk_header h1)) = 32).
  { rewrite fm_encode_chunk_header_length. reflexivity. }
  assert (Hft : N.of_nat (length (wm_footer (N.of_nat (length p)) (crc32c p))) = fm_pad_len (N.of_nat (length p)) + 4).
  { unfold wm_footer. rewrite app_length, repeat_length, Nat2N.inj_add, N2Nat.id. unfold fm_enc_u32. rewrite fm_enc_length. reflexivity. }
  assert (Hpl1 : fm_payload_length h1 = N.of_nat (length p)) by (subst h1; cbn [fm_payload_length wm_hdr_set_ppl]; exact Hpl).
  assert (Htag1 : (fm_tag h1 =? JLS_TAG_INVALID) = false) by (subst h1; cbn [fm_tag wm_hdr_set_ppl]; apply N.eqb_neq; exact Htag).
  unfold wm_raw_wr_payload, wm_raw_rd_header, wm_hdr_valid.
  wm_proj. rewrite Hl, Htag1. cbn [negb]. rewrite Hpl1.
  destruct (N.of_nat (length p) =? 0) eqn:E0; [apply N.eqb_eq in E0; congruence|].
  rewrite N.ltb_irrefl. rewrite Nat2N.id, firstn_all.
  wm_proj. rewrite Hft.
  rewrite !N.max_r by lia. rewrite N.leb_refl.
  wm_proj. unfold wm_appending. wm_proj.
  assert (Hsz : fm_chunk_size (N.of_nat (length p)) = 32 + N.of_nat (length p) + (fm_pad_len (N.of_nat (length p)) + 4)).
  { unfold fm_chunk_size, fm_disk_len. rewrite E0. unfold SIZEOF_chunk_header, RAW_CRC_SIZE. lia. }
  rewrite Hsz.
  repeat split; try reflexivity; try lia.
  unfold fm_encode_chunk, fm_frame, wm_footer. destruct p; [congruence|]. reflexivity.
Qed.

Lemma wm_raw_wr_append_aligned : forall r h p,
  wm_appending r -> fm_payload_length h = N.of_nat (length p) -> fm_tag h <> JLS_TAG_INVALID ->
  wm_fpos r mod 8 = 0 -> wm_fpos (fst (wm_raw_wr r h p)) mod 8 = 0.
Proof.
  intros r h p Ha Hpl Htag Hal.
  assert (Hsz : forall n, (wm_fpos r + fm_chunk_size n) mod 8 = 0).
  { intro n. rewrite N.add_mod by discriminate. rewrite Hal, fm_chunk_size_mod8. reflexivity. }
  destruct p as [|b p'].
  - destruct (wm_raw_wr_append_empty r h Ha Hpl Htag) as [_ [_ [Hp _]]]. rewrite Hp. apply Hsz.
  - assert (Hne : b :: p' <> []) by discriminate.
    destruct (wm_raw_wr_append_nonempty r h (b :: p') Ha Hpl Hne Htag) as [_ [_ [_ [Hp _]]]]. rewrite Hp. apply Hsz.
Qed.

(* ---- sanity by computation: wopen; wclose ---- *)
Definition wm_zero_summ1 (_ : N) (_ : list N) : wm_sentry := (0, 0, 0, 0).
Definition wm_zero_summN (_ : bool) (_ : list wm_sentry) : wm_sentry := (0, 0, 0, 0).

Example wm_open_close_log_length : length (wm_run wm_zero_summ1 wm_zero_summN []) = 23%nat.
Proof. vm_compute. reflexivity. Qed.
Example wm_open_close_no_fault : wm_st_fault (fst (wm_run_full wm_zero_summ1 wm_zero_summN [])) = false.
Proof. vm_compute. reflexivity. Qed.
Example wm_open_close_file_length : wm_fend (wm_b_raw (wm_st_base (fst (wm_run_full wm_zero_summ1 wm_zero_summN [])))) = 832.
Proof. vm_compute. reflexivity. Qed.
Example wm_open_is_appending : wm_appending (wm_b_raw (wm_st_base wm_api_open)).
Proof. vm_compute. repeat split. Qed.
