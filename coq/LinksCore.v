(* ITEM_NEXT LINK INVARIANT of the byte-exact writer model, part 1 (core.c / track.c level).

   The simulation of WmWriteOnce.v (the writer model is accepted by the write-once checker) forgets item_next: its
   frame [wmw_fr] keeps every header "up to item_next".  This file strengthens the two invariants of that simulation,
   WITHOUT changing it:
     lk_binv b s   = wmw_binv b s  +  lk_dl: in the checker's extents (offset, CURRENT header) the chunks of each of the
                     three DEFINITION LISTS (key 1: SOURCE_DEF; key 2: SIGNAL_DEF, TRACK_*_DEF, TRACK_*_HEAD; key 3:
                     USER_DATA) are linked by item_next in append order, the newest has item_next 0 and is the chunk the
                     writer's list head (source_head / signal_head / user_data_head) points to;
     lk_track      = wmw_track  +  lk_tki: the cached list heads of a track (data_head, index_head[], summary_head[])
                     carry a tag that is on none of the three definition lists.
   The step relations lk_bstep / lk_tstep have the shape of wmw_bstep / wmw_tstep with these invariants.  New ingredients:
   the EXACT effect of jls_core_update_item_head and of the head-table rewrite on the checker's extents (the existing
   lemmas only give the frame), and determinism of the checker (the state is a function of the log).
   Every top-level name starts with lk_. *)
From Coq Require Import NArith ZArith List Bool Lia Arith.
From Coq Require Import ZifyBool ZifyN ZifyNat.
From JLS Require Import Generated CrcDefs Spec Format FormatProofs WriteOnce WriteOnceProofs
                        WmRaw WmCore WmTs WmFsr WriterModel WmProofs WmWriteOnce.
Import ListNotations.
Local Open Scope N_scope.
Ltac Zify.zify_post_hook ::= Z.div_mod_to_equations.

Local Opaque crc32c.

(* ================================================================ lists of (offset, header) *)
(* which definition list a tag is on: 1 source, 2 signal, 3 user data, 0 none *)
Definition lk_key (tag : N) : N :=
  if tag =? JLS_TAG_SOURCE_DEF then 1
  else if tag =? JLS_TAG_USER_DATA then 3
  else if (tag =? JLS_TAG_SIGNAL_DEF) || (fm_is_track_tag tag && (fm_tag_chunk_kind tag <=? JLS_TRACK_CHUNK_HEAD)) then 2
  else 0.

Definition lk_hp : Type := (N * fm_chunk_header)%type.
Definition lk_on (k : N) (p : lk_hp) : bool := lk_key (fm_tag (snd p)) =? k.
(* newest first: the newest points to nxt, every older one to its successor *)
Fixpoint lk_linked (nxt : N) (L : list lk_hp) : Prop :=
  match L with [] => True | p :: r => fm_item_next (snd p) = nxt /\ lk_linked (fst p) r end.
Fixpoint lk_pfind (o : N) (L : list lk_hp) : option fm_chunk_header :=
  match L with [] => None | p :: r => if fst p =? o then Some (snd p) else lk_pfind o r end.
Fixpoint lk_pupd (o : N) (h : fm_chunk_header) (L : list lk_hp) : list lk_hp :=
  match L with [] => [] | p :: r => if fst p =? o then (o, h) :: r else p :: lk_pupd o h r end.

Definition lk_list (k : N) (P : list lk_hp) (c : wm_chunk) : Prop :=
  lk_linked 0 (filter (lk_on k) P) /\
  match filter (lk_on k) P with
  | [] => wm_ck_offset c = 0
  | p :: _ => wm_ck_offset c = fst p /\ fst p <> 0 /\ lk_pfind (fst p) P = Some (snd p)
  end.
Definition lk_dl (b : wm_base) (P : list lk_hp) : Prop :=
  lk_list 1 P (wm_b_source_head b) /\ lk_list 2 P (wm_b_signal_head b) /\ lk_list 3 P (wm_b_ud_head b).

Lemma lk_pairs_update : forall y E, wo_pairs (wo_update y E) = lk_pupd (wo_e_off y) (wo_e_hdr y) (wo_pairs E).
Proof.
  intros y E. unfold wo_pairs. induction E as [|x E IH]; cbn [wo_update map lk_pupd fst]; [reflexivity|].
  destruct (wo_e_off x =? wo_e_off y); cbn [map]; [reflexivity|]. rewrite IH. reflexivity.
Qed.
Lemma lk_pairs_find : forall o E, lk_pfind o (wo_pairs E) = option_map wo_e_hdr (wo_find o E).
Proof.
  intros o E. unfold wo_pairs. induction E as [|x E IH]; cbn [map lk_pfind wo_find fst snd option_map]; [reflexivity|].
  destruct (wo_e_off x =? o); [reflexivity|exact IH].
Qed.

Lemma lk_filter_hd : forall k P p rest, filter (lk_on k) P = p :: rest -> lk_on k p = true.
Proof.
  intros k P p rest H. assert (Hin : In p (filter (lk_on k) P)) by (rewrite H; now left).
  apply filter_In in Hin. apply Hin.
Qed.

Lemma lk_pupd_other : forall k o h h0 P, lk_pfind o P = Some h0 -> lk_on k (o, h0) = false -> lk_on k (o, h) = false ->
  filter (lk_on k) (lk_pupd o h P) = filter (lk_on k) P.
Proof.
  intros k o h h0 P. induction P as [|q r IH]; intros Hf H0 H1; cbn [lk_pfind lk_pupd] in *; [discriminate|].
  destruct (N.eqb_spec (fst q) o) as [E|E].
  - inversion Hf as [Hq]. cbn [filter]. rewrite H1.
    replace q with (o, h0) by (destruct q; cbn [fst snd] in *; congruence). rewrite H0. reflexivity.
  - cbn [filter]. rewrite (IH Hf H0 H1). reflexivity.
Qed.

Lemma lk_pupd_same : forall k o h h0 P rest, lk_pfind o P = Some h0 -> filter (lk_on k) P = (o, h0) :: rest -> lk_on k (o, h) = true ->
  filter (lk_on k) (lk_pupd o h P) = (o, h) :: rest.
Proof.
  intros k o h h0 P. induction P as [|q r IH]; intros rest Hf HF H1; cbn [lk_pfind lk_pupd] in *; [discriminate|].
  destruct (N.eqb_spec (fst q) o) as [E|E].
  - inversion Hf as [Hq]. assert (Eq : q = (o, h0)) by (destruct q; cbn [fst snd] in *; congruence).
    cbn [filter] in *. rewrite H1. destruct (lk_on k q) eqn:Eo.
    + inversion HF. reflexivity.
    + exfalso. pose proof (lk_filter_hd _ _ _ _ HF) as X. rewrite <- Eq in X. congruence.
  - cbn [filter] in *. destruct (lk_on k q) eqn:Eo.
    + inversion HF as [[Hq Hr]]. subst q. cbn [fst] in E. congruence.
    + apply IH; assumption.
Qed.

Lemma lk_pfind_pupd : forall o h o' P,
  lk_pfind o' (lk_pupd o h P) = if o =? o' then (match lk_pfind o P with Some _ => Some h | None => None end) else lk_pfind o' P.
Proof.
  intros o h o' P. induction P as [|q r IH]; cbn [lk_pfind lk_pupd]; [destruct (o =? o'); reflexivity|].
  destruct (N.eqb_spec (fst q) o) as [E|E]; cbn [lk_pfind fst snd].
  - destruct (N.eqb_spec o o') as [E2|E2]; [reflexivity|].
    destruct (N.eqb_spec (fst q) o') as [E3|E3]; [exfalso; congruence|reflexivity].
  - destruct (N.eqb_spec (fst q) o') as [E3|E3].
    + destruct (N.eqb_spec o o') as [E4|E4]; [exfalso; congruence|reflexivity].
    + exact IH.
Qed.

Lemma lk_pupd_id : forall o h P, lk_pfind o P = Some h -> lk_pupd o h P = P.
Proof.
  intros o h P. induction P as [|q r IH]; intro Hf; cbn [lk_pfind lk_pupd] in *; [reflexivity|].
  destruct (N.eqb_spec (fst q) o) as [E|E].
  - destruct q as [qa qb]. cbn [fst snd] in *. subst qa. inversion Hf. reflexivity.
  - rewrite (IH Hf). reflexivity.
Qed.

(* the new pairs after "append (a, h1), then (maybe) rewrite the header at o" *)
Definition lk_after (P : list lk_hp) (a : N) (h1 : fm_chunk_header) (upd : option lk_hp) : list lk_hp :=
  match upd with None => (a, h1) :: P | Some (o, h') => lk_pupd o h' ((a, h1) :: P) end.

(* a list the new chunk is not on, and whose chunks are not rewritten *)
Lemma lk_list_other : forall k P c a h1 upd,
  lk_list k P c -> lk_key (fm_tag h1) <> k -> lk_pfind a P = None ->
  (forall o h', upd = Some (o, h') -> exists h0, lk_pfind o P = Some h0 /\ fm_tag h' = fm_tag h0 /\ lk_key (fm_tag h0) <> k) ->
  lk_list k (lk_after P a h1 upd) c.
Proof.
  intros k P c a h1 upd [HL HC] Hk Ha Hu.
  assert (Hon1 : lk_on k (a, h1) = false) by (unfold lk_on; cbn [snd]; apply N.eqb_neq; exact Hk).
  assert (Hfil : filter (lk_on k) (lk_after P a h1 upd) = filter (lk_on k) P /\
                 forall o', o' <> a -> (forall h0, lk_pfind o' P = Some h0 -> lk_key (fm_tag h0) = k) ->
                   lk_pfind o' (lk_after P a h1 upd) = lk_pfind o' P).
  { destruct upd as [[o h']|]; cbn [lk_after].
    - destruct (Hu o h' eq_refl) as (h0 & Hf0 & Ht & Hk0).
      assert (Eao : a =? o = false) by (apply N.eqb_neq; intro; subst; congruence).
      cbn [lk_pupd fst]. rewrite Eao. cbn [filter]. rewrite Hon1. split.
      + apply (lk_pupd_other k o h' h0 P Hf0); unfold lk_on; cbn [snd]; apply N.eqb_neq; congruence.
      + intros o' Hne Hall. cbn [lk_pfind fst]. destruct (N.eqb_spec a o'); [congruence|].
        rewrite lk_pfind_pupd. destruct (N.eqb_spec o o') as [E|E]; [|reflexivity].
        subst o'. exfalso. apply Hk0. apply Hall. exact Hf0.
    - cbn [filter]. rewrite Hon1. split; [reflexivity|].
      intros o' Hne _. cbn [lk_pfind fst]. destruct (N.eqb_spec a o'); [congruence|reflexivity]. }
  destruct Hfil as [Hfil Hpf]. unfold lk_list. rewrite Hfil. split; [exact HL|].
  destruct (filter (lk_on k) P) as [|p rest] eqn:EF; [exact HC|].
  destruct HC as (C1 & C2 & C3). split; [exact C1|]. split; [exact C2|].
  rewrite Hpf; [exact C3|intro; subst; congruence|].
  intros h0 Hh0. rewrite C3 in Hh0. inversion Hh0; subst h0.
  pose proof (lk_filter_hd _ _ _ _ EF) as X. unfold lk_on in X. apply N.eqb_eq in X. exact X.
Qed.

(* the list the new chunk goes to: its previous newest chunk (the writer's head) gets item_next = a *)
Lemma lk_list_same : forall k P c a h1 upd hc,
  lk_list k P c -> lk_key (fm_tag h1) = k -> fm_item_next h1 = 0 -> a <> 0 -> lk_pfind a P = None ->
  (wm_ck_offset c = 0 -> upd = None) ->
  (wm_ck_offset c <> 0 -> exists h' h0, upd = Some (wm_ck_offset c, h') /\ lk_pfind (wm_ck_offset c) P = Some h0 /\
                                        fm_tag h' = fm_tag h0 /\ fm_item_next h' = a) ->
  lk_list k (lk_after P a h1 upd) {| wm_ck_offset := a; wm_ck_hdr := hc |}.
Proof.
  intros k P c a h1 upd hc [HL HC] Hk Hn Ha0 Ha H0 H1.
  assert (Hon1 : lk_on k (a, h1) = true) by (unfold lk_on; cbn [snd]; apply N.eqb_eq; exact Hk).
  unfold lk_list. cbn [wm_ck_offset].
  destruct (filter (lk_on k) P) as [|p rest] eqn:EF.
  - rewrite (H0 HC). cbn [lk_after filter]. rewrite Hon1, EF. cbn [lk_linked fst snd lk_pfind].
    rewrite N.eqb_refl. auto.
  - destruct HC as (C1 & C2 & C3). assert (Hc0 : wm_ck_offset c <> 0) by congruence.
    destruct (H1 Hc0) as (h' & h0 & Hu & Hf0 & Ht & Hnx). rewrite Hu. rewrite C1 in *.
    rewrite C3 in Hf0. inversion Hf0; subst h0. clear Hf0.
    assert (Eao : a =? fst p = false) by (apply N.eqb_neq; intro; subst; congruence).
    cbn [lk_after lk_pupd fst]. rewrite Eao. cbn [filter]. rewrite Hon1.
    assert (Ep : p = (fst p, snd p)) by (destruct p; reflexivity).
    assert (Hon' : lk_on k (fst p, h') = true).
    { pose proof (lk_filter_hd _ _ _ _ EF) as X. unfold lk_on in *. cbn [snd]. rewrite Ht. exact X. }
    rewrite (lk_pupd_same k (fst p) h' (snd p) P rest C3 ltac:(rewrite <- Ep; exact EF) Hon').
    cbn [lk_linked fst snd lk_pfind]. rewrite N.eqb_refl.
    cbn [lk_linked] in HL. destruct HL as [_ HL].
    repeat split; auto.
Qed.

(* ================================================================ the checker state is a function of the log *)
Lemma lk_sim_det : forall r s s', wmw_sim r s -> wmw_sim r s' -> s = s'.
Proof. intros r s s' (H & _) (H' & _). rewrite H in H'. inversion H'. reflexivity. Qed.

(* ================================================================ exact effect of jls_core_update_item_head *)
Lemma lk_sim_link_exact : forall r s head next r2 c,
  wmw_sim r s -> wmw_ref (wo_exts s) head -> wm_ck_offset next < fm_two64 ->
  wm_update_item_head r head next = (r2, c) -> wmw_good r2 ->
  exists s2, wmw_sim r2 s2 /\ c = next /\
    ((wm_ck_offset head = 0 /\ wo_exts s2 = wo_exts s) \/
     (wm_ck_offset head <> 0 /\ exists x, wo_find (wm_ck_offset head) (wo_exts s) = Some x /\ wmw_nn (wo_e_hdr x) (wm_ck_hdr head) /\
        wo_exts s2 = wo_update {| wo_e_off := wm_ck_offset head;
                                  wo_e_hdr := wm_hdr_set_next (wm_ck_hdr head) (wm_ck_offset next);
                                  wo_e_table := wo_e_table x |} (wo_exts s))).
Proof.
  intros r s head next r2 c Hsim Href Hnx Heq Hgood.
  pose proof (wmw_le_update_item_head r head next) as Hle. rewrite Heq in Hle. cbn [fst] in Hle.
  assert (Hflt : wm_fault r = false) by (apply (wmw_le_nofault _ _ Hle), Hgood).
  destruct Href as [H0|(Hlt & Hwf & x & Hf & Hn)].
  - unfold wm_update_item_head in Heq. rewrite H0 in Heq. cbn [N.eqb] in Heq. inversion Heq; subst.
    exists s. split; [exact Hsim|]. split; [reflexivity|]. left. split; [exact H0|reflexivity].
  - pose proof (wmw_sim_geom _ _ Hsim) as [Hgeo _].
    destruct (Hgeo _ _ Hf) as [G1 G2]. pose proof (wo_size_ge (wo_e_hdr x)) as G3.
    pose proof Hsim as (Hrun & _ & _ & Hlen & Hend & Hpend & H32 & H64 & Hlpl & Hdisk).
    rewrite (wmw_sim_mk _ _ Hsim), Hflt in Heq.
    rewrite wmw_update_item_head_eq in Heq by lia. cbv zeta in Heq.
    set (a := wm_fend r) in *. set (o := wm_ck_offset head) in *.
    set (h' := wm_hdr_set_next (wm_ck_hdr head) (wm_ck_offset next)) in *.
    inversion Heq; subst r2 c. clear Heq.
    assert (Hwf' : fm_chunk_header_wf h').
    { destruct Hwf as (W1 & W2 & W3 & W4 & W5 & W6 & W7). subst h'. unfold fm_chunk_header_wf, wm_hdr_set_next.
      cbn [fm_item_next fm_item_prev fm_tag fm_rsv0 fm_chunk_meta fm_payload_length fm_payload_prev_length]. repeat split; auto. }
    assert (Hn' : wmw_nn (wo_e_hdr x) h') by (eapply wmw_nn_trans; [exact Hn|apply wmw_nn_set_next]).
    pose proof (wmw_step_link s a o x h' Hlen ltac:(lia) ltac:(lia) Hpend Hf Hwf' Hn') as Hst.
    set (y := {| wo_e_off := o; wo_e_hdr := h'; wo_e_table := wo_e_table x |}) in *.
    eexists. split; [|split; [reflexivity|]].
    + unfold wmw_sim, wm_mk_raw. cbv [wm_rlog wm_offset wm_fpos wm_fend wm_last_pl wm_disk].
      split; [rewrite wmw_evs_cons; eapply wmw_run_snoc; [exact Hrun|exact Hst]|].
      cbn [wo_set wo_len wo_end wo_pending wo_exts].
      repeat (split; [reflexivity || lia || assumption|]).
      intros o' x' Hf'. rewrite (wmw_find_update y (wo_exts s) x o' Hf) in Hf'. cbn [wo_e_off y] in Hf'. cbn [wm_disk_get].
      destruct (o =? o') eqn:Eo.
      * inversion Hf'; subst x'. eexists; split; reflexivity.
      * apply Hdisk. exact Hf'.
    + right. split; [lia|]. exists x. split; [exact Hf|]. split; [exact Hn|]. cbn [wo_set wo_exts]. reflexivity.
Qed.

(* ================================================================ exact effect of the head-table rewrite *)
Lemma lk_sim_tbl_exact : forall r s o x olds news,
  wmw_sim r s -> wo_find o (wo_exts s) = Some x ->
  fm_is_head_tag (fm_tag (wo_e_hdr x)) = true -> fm_payload_length (wo_e_hdr x) = SIZEOF_track_head ->
  wo_e_table x = wm_head_payload olds -> length olds = 16%nat -> length news = 16%nat ->
  Forall2 (fun a b => b = a \/ (a = 0 /\ b < fm_two64 /\ wo_is_start b (wo_exts s) = true)) olds news ->
  wmw_good (wmw_tbl_rewrite r o (wm_head_payload news)) ->
  exists s', wmw_sim (wmw_tbl_rewrite r o (wm_head_payload news)) s' /\
    wo_exts s' = wo_update {| wo_e_off := o; wo_e_hdr := wo_e_hdr x; wo_e_table := wm_head_payload news |} (wo_exts s).
Proof.
  intros r s o x olds news Hsim Hf Hhead Hpl Htbl Lo Ln HF Hgood.
  pose proof (wmw_le_tbl_rewrite r o (wm_head_payload news)) as Hle.
  assert (Hflt : wm_fault r = false) by (apply (wmw_le_nofault _ _ Hle), Hgood).
  pose proof (wmw_sim_geom _ _ Hsim) as [Hgeo Hdis].
  destruct (Hgeo _ _ Hf) as [G1 G2].
  assert (Hsz : wo_size (wo_e_hdr x) = 168) by (unfold wo_size; rewrite Hpl; reflexivity).
  rewrite Hsz in G2.
  assert (Hnone : wo_find (o + 32) (wo_exts s) = None).
  { destruct (wo_find (o + 32) (wo_exts s)) as [x2|] eqn:E2; [|reflexivity].
    pose proof (wo_size_ge (wo_e_hdr x2)).
    destruct (Hdis _ _ _ _ Hf E2) as [A|[A|A]]; rewrite ?Hsz in A; lia. }
  pose proof Hsim as (Hrun & _ & _ & Hlen & Hend & Hpend & H32 & H64 & Hlpl & Hdisk).
  destruct (Hdisk _ _ Hf) as (hd & Hdg & Hdpl). rewrite Hpl in Hdpl.
  pose proof (wmw_head_payload_length news Ln) as Hplen.
  unfold wmw_tbl_rewrite in *. unfold wm_raw_chunk_tell in *.
  rewrite (wmw_sim_mk _ _ Hsim), Hflt in Hgood |- *.
  change (wm_offset (wm_mk_raw (wm_fend r) (wm_fend r) (wm_fend r) (wm_hdr r) (wm_last_pl r) (wm_disk r) (wm_rlog r) false)) with (wm_fend r) in *.
  rewrite (wmw_tbl_rewrite_eq (wm_fend r) (wm_hdr r) (wm_last_pl r) (wm_disk r) (wm_rlog r) o hd (wm_head_payload news)) in Hgood |- * by (auto; lia).
  set (a := wm_fend r) in *.
  pose proof (wmw_step_tbl s a o x news olds Hlen ltac:(lia) ltac:(lia) Hpend Hnone Hf Hhead Hpl Htbl Lo Ln HF) as Hst1.
  set (y := {| wo_e_off := o; wo_e_hdr := wo_e_hdr x; wo_e_table := wm_head_payload news |}) in *.
  set (sA := wo_set s a (WoTbl o (wo_e_hdr x) (wm_head_payload news)) 0 0 0 0 (wo_update y (wo_exts s))) in *.
  assert (Hst2 : wo_step false sA (WoWrite (o + 32 + SIZEOF_track_head) (wm_footer SIZEOF_track_head (crc32c (wm_head_payload news)))) =
                 inl (wo_set sA a WoIdle 0 0 1 0 (wo_exts sA))).
  { rewrite <- Hpl. apply (wmw_step_tbl_ft sA a o (wo_e_hdr x) (wm_head_payload news)); [reflexivity|lia|reflexivity]. }
  eexists. split.
  - unfold wmw_sim, wm_mk_raw. cbv [wm_rlog wm_offset wm_fpos wm_fend wm_last_pl wm_disk].
    split; [rewrite !wmw_evs_cons; eapply wmw_run_snoc; [eapply wmw_run_snoc; [exact Hrun|exact Hst1]|exact Hst2]|].
    cbn [wo_set wo_len wo_end wo_pending wo_exts sA].
    repeat (split; [reflexivity || lia || assumption|]).
    split; [destruct (a <=? o + 168); [reflexivity|exact Hlpl]|].
    intros o' x' Hf'. rewrite (wmw_find_update y (wo_exts s) x o' Hf) in Hf'. cbn [wo_e_off y] in Hf'.
    destruct (o =? o') eqn:Eo.
    + apply N.eqb_eq in Eo. subst o'. inversion Hf'; subst x'. exists hd. split; [exact Hdg|]. cbn [y wo_e_hdr]. congruence.
    + apply Hdisk. exact Hf'.
  - cbn [wo_set wo_exts sA]. reflexivity.
Qed.

(* the pairs do not see a table rewrite *)
Lemma lk_pairs_tbl : forall E o x tbl, wo_find o E = Some x ->
  wo_pairs (wo_update {| wo_e_off := o; wo_e_hdr := wo_e_hdr x; wo_e_table := tbl |} E) = wo_pairs E.
Proof.
  intros E o x tbl Hf. rewrite lk_pairs_update. cbn [wo_e_off wo_e_hdr].
  apply lk_pupd_id. rewrite lk_pairs_find, Hf. reflexivity.
Qed.

(* ================================================================ append + link, exactly *)
Lemma lk_append_exact : forall r head tag meta plen payload r1 h1 r2 c s s',
  wm_raw_wr r (wm_mk_hdr (wm_ck_offset head) tag meta plen) payload = (r1, h1) ->
  wm_update_item_head r1 head {| wm_ck_offset := wm_raw_chunk_tell r; wm_ck_hdr := h1 |} = (r2, c) ->
  wmw_sim r s -> wmw_ref (wo_exts s) head -> tag <> 0 -> tag < 256 -> meta < 65536 -> wmw_good r2 -> wmw_sim r2 s' ->
  exists upd, wo_pairs (wo_exts s') = lk_after (wo_pairs (wo_exts s)) (wm_fend r) h1 upd /\
    fm_tag h1 = tag /\ fm_item_next h1 = 0 /\ wm_fend r <> 0 /\ lk_pfind (wm_fend r) (wo_pairs (wo_exts s)) = None /\
    c = {| wm_ck_offset := wm_fend r; wm_ck_hdr := h1 |} /\
    (wm_ck_offset head = 0 -> upd = None) /\
    (wm_ck_offset head <> 0 -> exists h' h0, upd = Some (wm_ck_offset head, h') /\
        lk_pfind (wm_ck_offset head) (wo_pairs (wo_exts s)) = Some h0 /\ fm_tag h' = fm_tag h0 /\
        fm_tag h0 = fm_tag (wm_ck_hdr head) /\ fm_item_next h' = wm_fend r).
Proof.
  intros r head tag meta plen payload r1 h1 r2 c s s' E1 E2 Hsim Href T0 T1 M Hgood Hsim'.
  assert (Hpre : wmw_hdr_pre (wm_mk_hdr (wm_ck_offset head) tag meta plen)) by (eapply wmw_mk_hdr_pre; eauto).
  pose proof (wmw_le_update_item_head r1 head {| wm_ck_offset := wm_raw_chunk_tell r; wm_ck_hdr := h1 |}) as L2.
  rewrite E2 in L2. cbn [fst] in L2.
  pose proof (wmw_good_le _ _ L2 Hgood) as Hgood1.
  destruct (wmw_sim_append r s _ payload r1 h1 Hsim Hpre E1 Hgood1) as (s1 & Hsim1 & Hh1 & Hwf1 & Hex1 & Hnone).
  pose proof Hsim as (_ & Hoff & _ & _ & _ & _ & H32 & H64 & _).
  unfold wm_raw_chunk_tell in E2. rewrite Hoff in E2.
  set (a := wm_fend r) in *.
  assert (Hfr1 : wmw_fr None (wo_exts s) (wo_exts s1)) by (rewrite Hex1; apply wmw_fr_cons; exact Hnone).
  assert (Href1 : wmw_ref (wo_exts s1) head) by (eapply wmw_ref_fr; eauto).
  destruct (lk_sim_link_exact r1 s1 head {| wm_ck_offset := a; wm_ck_hdr := h1 |} r2 c Hsim1 Href1 H64 E2 Hgood)
    as (s2 & Hsim2 & Hc & Hcase).
  assert (Es : s' = s2) by (eapply lk_sim_det; eauto). subst s'.
  assert (Hp1 : wo_pairs (wo_exts s1) = (a, h1) :: wo_pairs (wo_exts s)) by (rewrite Hex1; reflexivity).
  assert (Hna : lk_pfind a (wo_pairs (wo_exts s)) = None) by (rewrite lk_pairs_find, Hnone; reflexivity).
  assert (Hh1f : fm_tag h1 = tag /\ fm_item_next h1 = 0) by (rewrite Hh1; split; reflexivity).
  destruct Hcase as [(H0 & Hex2)|(Hn0 & x & Hfx & Hnn & Hex2)].
  - exists None. cbn [lk_after]. rewrite Hex2, Hp1.
    split; [reflexivity|]. split; [apply Hh1f|]. split; [apply Hh1f|]. split; [lia|]. split; [exact Hna|]. split; [exact Hc|].
    split; [reflexivity|]. intro X. contradiction.
  - exists (Some (wm_ck_offset head, wm_hdr_set_next (wm_ck_hdr head) a)). cbn [lk_after].
    rewrite Hex2, lk_pairs_update, Hp1. cbn [wo_e_off wo_e_hdr wm_ck_offset].
    split; [reflexivity|]. split; [apply Hh1f|]. split; [apply Hh1f|]. split; [lia|]. split; [exact Hna|]. split; [exact Hc|].
    split; [intro X; contradiction|]. intros _.
    (* the extent at the head's offset, in s (not the new one) *)
    assert (Hao : a <> wm_ck_offset head).
    { intro Ea. rewrite Hex1 in Hfx. cbn [wo_find wo_e_off] in Hfx. rewrite Ea, N.eqb_refl in Hfx. inversion Hfx; subst x.
      destruct Href as [Z|(_ & _ & x0 & Hf0 & _)]; [contradiction|]. rewrite <- Ea, Hnone in Hf0. discriminate. }
    assert (Hfx0 : wo_find (wm_ck_offset head) (wo_exts s) = Some x).
    { rewrite Hex1 in Hfx. cbn [wo_find wo_e_off] in Hfx. destruct (N.eqb_spec a (wm_ck_offset head)); [contradiction|exact Hfx]. }
    exists (wm_hdr_set_next (wm_ck_hdr head) a), (wo_e_hdr x).
    split; [reflexivity|]. split; [rewrite lk_pairs_find, Hfx0; reflexivity|].
    destruct Hnn as (_ & N2 & _). cbn [wm_hdr_set_next fm_tag fm_item_next].
    split; [exact N2|]. split; [symmetry; exact N2|reflexivity].
Qed.

(* ================================================================ the invariants *)
Definition lk_binv (b : wm_base) (s : wo_st) : Prop := wmw_binv b s /\ lk_dl b (wo_pairs (wo_exts s)).

Definition lk_slot (c : wm_chunk) : Prop := wm_ck_offset c = 0 \/ lk_key (fm_tag (wm_ck_hdr c)) = 0.
Definition lk_tki (t : wm_track) : Prop :=
  lk_slot (wm_tk_data_head t) /\ Forall lk_slot (wm_tk_index_head t) /\ Forall lk_slot (wm_tk_summary_head t).
Definition lk_track (E : list wo_ext) (id ty : N) (t : wm_track) : Prop := wmw_track E id ty t /\ lk_tki t.

Lemma lk_slot0 : lk_slot wm_chunk0.
Proof. left. reflexivity. Qed.
Lemma lk_Forall_get : forall l level, Forall lk_slot l -> lk_slot (wm_get_chunk l level).
Proof.
  intros l level H. unfold wm_get_chunk.
  destruct (nth_in_or_default (N.to_nat level) l wm_chunk0) as [Hin|Hd].
  - rewrite Forall_forall in H. now apply H.
  - rewrite Hd. apply lk_slot0.
Qed.

Lemma lk_dl_set_raw : forall b r P, lk_dl (wm_b_set_raw b r) P <-> lk_dl b P.
Proof. intros. reflexivity. Qed.

(* the key of the chunk a definition-list head points to *)
Lemma lk_list_head_key : forall k P c h0, lk_list k P c -> wm_ck_offset c <> 0 -> lk_pfind (wm_ck_offset c) P = Some h0 ->
  lk_key (fm_tag h0) = k.
Proof.
  intros k P c h0 [_ HC] Hc Hf. destruct (filter (lk_on k) P) as [|p rest] eqn:EF; [contradiction|].
  destruct HC as (C1 & _ & C3). rewrite C1, C3 in Hf. inversion Hf; subst h0.
  pose proof (lk_filter_hd _ _ _ _ EF) as X. unfold lk_on in X. apply N.eqb_eq in X. exact X.
Qed.

(* a chunk that is on no definition list, linked from a head that is on none either *)
Lemma lk_dl_append_nd : forall b P a h1 upd head,
  lk_dl b P -> lk_key (fm_tag h1) = 0 -> lk_pfind a P = None -> lk_slot head ->
  (wm_ck_offset head = 0 -> upd = None) ->
  (wm_ck_offset head <> 0 -> exists h' h0, upd = Some (wm_ck_offset head, h') /\ lk_pfind (wm_ck_offset head) P = Some h0 /\
       fm_tag h' = fm_tag h0 /\ fm_tag h0 = fm_tag (wm_ck_hdr head) /\ fm_item_next h' = a) ->
  lk_dl b (lk_after P a h1 upd).
Proof.
  intros b P a h1 upd head (D1 & D2 & D3) Hk Ha Hs H0 H1.
  assert (Hu : forall k, k <> 0 -> forall o h', upd = Some (o, h') ->
            exists h0, lk_pfind o P = Some h0 /\ fm_tag h' = fm_tag h0 /\ lk_key (fm_tag h0) <> k).
  { intros k Hk0 o h' Hup. destruct (N.eq_dec (wm_ck_offset head) 0) as [Z|Z]; [rewrite (H0 Z) in Hup; discriminate|].
    destruct (H1 Z) as (h'' & h0 & Hu' & Hf0 & Ht & Ht0 & _). rewrite Hu' in Hup. inversion Hup; subst o h''.
    exists h0. split; [exact Hf0|]. split; [exact Ht|]. destruct Hs as [Z'|Hs]; [contradiction|]. rewrite Ht0, Hs. auto. }
  split; [|split]; apply lk_list_other; auto; try (rewrite Hk; discriminate); apply Hu; discriminate.
Qed.

(* ================================================================ step relations (shape of wmw_bstep / wmw_tstep) *)
Definition lk_bstep (b b' : wm_base) : Prop :=
  wmw_ble b b' /\
  forall s, lk_binv b s -> wmw_bgood b' -> exists s', lk_binv b' s' /\ wmw_fr None (wo_exts s) (wo_exts s').

Definition lk_tstep (id ty : N) (b : wm_base) (t : wm_track) (b' : wm_base) (t' : wm_track) : Prop :=
  wmw_ble b b' /\
  forall s, lk_binv b s -> lk_track (wo_exts s) id ty t -> wmw_bgood b' ->
    exists s', lk_binv b' s' /\ lk_track (wo_exts s') id ty t' /\
               wmw_fr (wmw_headopt t') (wo_exts s) (wo_exts s') /\
               (wmw_head_off t <> 0 -> wmw_head_off t' = wmw_head_off t).

Lemma lk_tstep_refl : forall id ty b t, lk_tstep id ty b t b t.
Proof.
  intros. split; [apply wmw_le_refl|]. intros s Hb Ht _. exists s. split; [exact Hb|]. split; [exact Ht|]. split; [apply wmw_fr_refl|auto].
Qed.

Lemma lk_tstep_trans : forall id ty b t b1 t1 b2 t2,
  lk_tstep id ty b t b1 t1 -> lk_tstep id ty b1 t1 b2 t2 -> lk_tstep id ty b t b2 t2.
Proof.
  intros id ty b t b1 t1 b2 t2 [L1 S1] [L2 S2]. split; [eapply wmw_le_trans; eauto|].
  intros s Hb Ht Hg.
  assert (Hg1 : wmw_bgood b1) by (eapply wmw_good_le; eauto).
  destruct (S1 s Hb Ht Hg1) as (s1 & Hb1 & Ht1 & F1 & St1).
  destruct (S2 s1 Hb1 Ht1 Hg) as (s2 & Hb2 & Ht2 & F2 & St2).
  exists s2. split; [exact Hb2|]. split; [exact Ht2|]. split.
  - eapply wmw_fr_chain; eauto.
  - intro H0. rewrite St2; [apply St1; exact H0|]. rewrite St1; auto.
Qed.

Lemma lk_tstep_fault : forall id ty b t t', lk_tstep id ty b t (wm_b_fault b) t'.
Proof.
  intros. split; [apply wmw_le_fault; reflexivity|].
  intros s _ _ [Hf _]. cbn in Hf. discriminate.
Qed.

Lemma lk_track_fr : forall o E E' id ty t, wmw_fr o E E' -> lk_track E id ty t ->
  (wmw_head_off t <> 0 -> o <> Some (wmw_head_off t)) -> lk_track E' id ty t.
Proof. intros o E E' id ty t Hfr [Ht Hk] Hne. split; [eapply wmw_track_fr; eauto|exact Hk]. Qed.
Lemma lk_track_fr_none : forall E E' id ty t, wmw_fr None E E' -> lk_track E id ty t -> lk_track E' id ty t.
Proof. intros. eapply lk_track_fr; eauto. intros _. discriminate. Qed.
Lemma lk_track_fr_other : forall o E E' id ty t id2 ty2 t2,
  wmw_fr o E E' -> lk_track E' id ty t -> (o <> None -> o = wmw_headopt t) ->
  lk_track E id2 ty2 t2 -> (id2 <> id \/ ty2 <> ty) -> lk_track E' id2 ty2 t2.
Proof.
  intros o E E' id ty t id2 ty2 t2 Hfr [Ht _] Ho [Ht2 Hk2] Hd. split; [eapply wmw_track_fr_other; eauto|exact Hk2].
Qed.

(* ================================================================ a chunk on no definition list *)
Lemma lk_base_append_nd : forall b head tag meta plen payload r1 h1 r2 c,
  wm_raw_wr (wm_b_raw b) (wm_mk_hdr (wm_ck_offset head) tag meta plen) payload = (r1, h1) ->
  wm_update_item_head r1 head {| wm_ck_offset := wm_raw_chunk_tell (wm_b_raw b); wm_ck_hdr := h1 |} = (r2, c) ->
  wmw_ble b (wm_b_set_raw b r2) /\
  forall s, lk_binv b s -> wmw_ref (wo_exts s) head -> lk_slot head -> lk_key tag = 0 ->
    tag <> 0 -> tag < 256 -> meta < 65536 -> wmw_good r2 ->
    exists s', lk_binv (wm_b_set_raw b r2) s' /\ wmw_fr None (wo_exts s) (wo_exts s') /\ wmw_ref (wo_exts s') c /\ lk_slot c /\
      wm_ck_offset c = wm_raw_chunk_tell (wm_b_raw b) /\ wm_ck_offset c < fm_two64 /\
      wo_is_start (wm_ck_offset c) (wo_exts s') = true.
Proof.
  intros b head tag meta plen payload r1 h1 r2 c E1 E2.
  destruct (wmw_base_append _ _ _ _ _ _ _ _ _ _ E1 E2) as [L S]. split; [exact L|].
  intros s [Hb Hdl] Href Hsl Hk T0 T1 M Hg.
  destruct (S s Hb Href T0 T1 M Hg) as (s' & Hb' & Hfr & Hrc & Hoc & H64 & _ & Hst & _).
  pose proof (proj1 Hb) as Hsim. pose proof (proj1 Hb') as Hsim'. cbn [wm_b_raw wm_b_set_raw] in Hsim'.
  destruct (lk_append_exact _ _ _ _ _ _ _ _ _ _ s s' E1 E2 Hsim Href T0 T1 M Hg Hsim')
    as (upd & Hp & Ht1 & Hn1 & Ha0 & Hna & Hc & U0 & U1).
  exists s'. split; [|split; [exact Hfr|split; [exact Hrc|split; [|split; [exact Hoc|split; [exact H64|exact Hst]]]]]].
  - split; [exact Hb'|]. rewrite Hp. apply lk_dl_set_raw.
    apply (lk_dl_append_nd b _ _ h1 upd head); auto. rewrite Ht1. exact Hk.
  - rewrite Hc. right. cbn [wm_ck_hdr]. rewrite Ht1. exact Hk.
Qed.

(* ================================================================ a chunk on the signal list (TRACK_*_DEF, TRACK_*_HEAD, SIGNAL_DEF) *)
Lemma lk_dl_append_sig : forall b P a h1 upd hc,
  lk_dl b P -> lk_key (fm_tag h1) = 2 -> fm_item_next h1 = 0 -> a <> 0 -> lk_pfind a P = None ->
  (wm_ck_offset (wm_b_signal_head b) = 0 -> upd = None) ->
  (wm_ck_offset (wm_b_signal_head b) <> 0 -> exists h' h0, upd = Some (wm_ck_offset (wm_b_signal_head b), h') /\
       lk_pfind (wm_ck_offset (wm_b_signal_head b)) P = Some h0 /\ fm_tag h' = fm_tag h0 /\
       fm_tag h0 = fm_tag (wm_ck_hdr (wm_b_signal_head b)) /\ fm_item_next h' = a) ->
  forall r, lk_dl (wm_b_set_signal_head (wm_b_set_raw b r) {| wm_ck_offset := a; wm_ck_hdr := hc |}) (lk_after P a h1 upd).
Proof.
  intros b P a h1 upd hc (D1 & D2 & D3) Hk Hn Ha0 Ha H0 H1 r.
  assert (Hu : forall k, k <> 2 -> forall o h', upd = Some (o, h') ->
            exists h0, lk_pfind o P = Some h0 /\ fm_tag h' = fm_tag h0 /\ lk_key (fm_tag h0) <> k).
  { intros k Hk0 o h' Hup. destruct (N.eq_dec (wm_ck_offset (wm_b_signal_head b)) 0) as [Z|Z]; [rewrite (H0 Z) in Hup; discriminate|].
    destruct (H1 Z) as (h'' & h0 & Hu' & Hf0 & Ht & Ht0 & _). rewrite Hu' in Hup. inversion Hup; subst o h''.
    exists h0. split; [exact Hf0|]. split; [exact Ht|]. rewrite (lk_list_head_key 2 P _ h0 D2 Z Hf0). auto. }
  unfold lk_dl. cbn [wm_b_source_head wm_b_signal_head wm_b_ud_head wm_b_set_signal_head wm_b_set_raw].
  split; [|split].
  - apply lk_list_other; auto; [rewrite Hk; discriminate|apply Hu; discriminate].
  - apply (lk_list_same 2 P (wm_b_signal_head b)); auto.
    intro Z. destruct (H1 Z) as (h' & h0 & A & B & C & _ & D). exists h', h0. auto.
  - apply lk_list_other; auto; [rewrite Hk; discriminate|apply Hu; discriminate].
Qed.

Lemma lk_dl_append_src : forall b P a h1 upd hc,
  lk_dl b P -> lk_key (fm_tag h1) = 1 -> fm_item_next h1 = 0 -> a <> 0 -> lk_pfind a P = None ->
  (wm_ck_offset (wm_b_source_head b) = 0 -> upd = None) ->
  (wm_ck_offset (wm_b_source_head b) <> 0 -> exists h' h0, upd = Some (wm_ck_offset (wm_b_source_head b), h') /\
       lk_pfind (wm_ck_offset (wm_b_source_head b)) P = Some h0 /\ fm_tag h' = fm_tag h0 /\
       fm_tag h0 = fm_tag (wm_ck_hdr (wm_b_source_head b)) /\ fm_item_next h' = a) ->
  forall r, lk_dl (wm_b_set_source_head (wm_b_set_raw b r) {| wm_ck_offset := a; wm_ck_hdr := hc |}) (lk_after P a h1 upd).
Proof.
  intros b P a h1 upd hc (D1 & D2 & D3) Hk Hn Ha0 Ha H0 H1 r.
  assert (Hu : forall k, k <> 1 -> forall o h', upd = Some (o, h') ->
            exists h0, lk_pfind o P = Some h0 /\ fm_tag h' = fm_tag h0 /\ lk_key (fm_tag h0) <> k).
  { intros k Hk0 o h' Hup. destruct (N.eq_dec (wm_ck_offset (wm_b_source_head b)) 0) as [Z|Z]; [rewrite (H0 Z) in Hup; discriminate|].
    destruct (H1 Z) as (h'' & h0 & Hu' & Hf0 & Ht & Ht0 & _). rewrite Hu' in Hup. inversion Hup; subst o h''.
    exists h0. split; [exact Hf0|]. split; [exact Ht|]. rewrite (lk_list_head_key 1 P _ h0 D1 Z Hf0). auto. }
  unfold lk_dl. cbn [wm_b_source_head wm_b_signal_head wm_b_ud_head wm_b_set_source_head wm_b_set_raw].
  split; [|split].
  - apply (lk_list_same 1 P (wm_b_source_head b)); auto.
    intro Z. destruct (H1 Z) as (h' & h0 & A & B & C & _ & D). exists h', h0. auto.
  - apply lk_list_other; auto; [rewrite Hk; discriminate|apply Hu; discriminate].
  - apply lk_list_other; auto; [rewrite Hk; discriminate|apply Hu; discriminate].
Qed.

Lemma lk_dl_append_ud : forall b P a h1 upd hc,
  lk_dl b P -> lk_key (fm_tag h1) = 3 -> fm_item_next h1 = 0 -> a <> 0 -> lk_pfind a P = None ->
  (wm_ck_offset (wm_b_ud_head b) = 0 -> upd = None) ->
  (wm_ck_offset (wm_b_ud_head b) <> 0 -> exists h' h0, upd = Some (wm_ck_offset (wm_b_ud_head b), h') /\
       lk_pfind (wm_ck_offset (wm_b_ud_head b)) P = Some h0 /\ fm_tag h' = fm_tag h0 /\
       fm_tag h0 = fm_tag (wm_ck_hdr (wm_b_ud_head b)) /\ fm_item_next h' = a) ->
  forall r, lk_dl (wm_b_set_ud_head (wm_b_set_raw b r) {| wm_ck_offset := a; wm_ck_hdr := hc |}) (lk_after P a h1 upd).
Proof.
  intros b P a h1 upd hc (D1 & D2 & D3) Hk Hn Ha0 Ha H0 H1 r.
  assert (Hu : forall k, k <> 3 -> forall o h', upd = Some (o, h') ->
            exists h0, lk_pfind o P = Some h0 /\ fm_tag h' = fm_tag h0 /\ lk_key (fm_tag h0) <> k).
  { intros k Hk0 o h' Hup. destruct (N.eq_dec (wm_ck_offset (wm_b_ud_head b)) 0) as [Z|Z]; [rewrite (H0 Z) in Hup; discriminate|].
    destruct (H1 Z) as (h'' & h0 & Hu' & Hf0 & Ht & Ht0 & _). rewrite Hu' in Hup. inversion Hup; subst o h''.
    exists h0. split; [exact Hf0|]. split; [exact Ht|]. rewrite (lk_list_head_key 3 P _ h0 D3 Z Hf0). auto. }
  unfold lk_dl. cbn [wm_b_source_head wm_b_signal_head wm_b_ud_head wm_b_set_ud_head wm_b_set_raw].
  split; [|split].
  - apply lk_list_other; auto; [rewrite Hk; discriminate|apply Hu; discriminate].
  - apply lk_list_other; auto; [rewrite Hk; discriminate|apply Hu; discriminate].
  - apply (lk_list_same 3 P (wm_b_ud_head b)); auto.
    intro Z. destruct (H1 Z) as (h' & h0 & A & B & C & _ & D). exists h', h0. auto.
Qed.
