(* private extraction file of the threaded-writer message-format slice (see SLICE_GUIDE.md); at integration the
   TwrMsg names below are merged into coq/Extract.v (all prefixed tm_ / Tm, no clash) *)
From Coq Require Import Extraction ExtrOcamlBasic NArith ZArith List.
From JLS Require Import MrbModel TwrModel TwrMsg.
Extraction Language OCaml.
Extraction "jlsmodel_ext"
  BinInt.Z.add BinInt.Z.opp BinInt.Z.of_N BinInt.Z.to_N BinNat.N.add BinNat.N.mul BinNat.N.of_nat BinNat.N.to_nat
  TwrMsg.tm_encode TwrMsg.tm_decode TwrMsg.tm_norm.
