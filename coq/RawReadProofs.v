(* C04, structural half: the reader's raw layer (RepairRaw.v: rp_read_verify, rp_raw_rd_header,
   rp_raw_rd_payload, rp_rd_chunk = jls_core_rd_chunk) only hands out bytes that passed their CRC checks,
   and - composed with the algebra of CrcAlg.v - never accepts a protected region that was hit by an error
   of the guaranteed class (at most three flipped bits, or one burst of at most 32 bits).

   Protected regions of a JLS file:
     file header     bytes [0, 32)                         CRC-32C of bytes [0, 28) stored in [28, 32)
     chunk header    bytes [off, off + 32)                 CRC-32C of [off, off + 28) stored in [off + 28, off + 32)
     payload         bytes [off + 32, off + 32 + pl) and the 4 CRC bytes at off + 32 + pl + pad
   The pad bytes (0..7 zero bytes between payload and CRC) are outside every CRC: rr_pad_irrelevant shows
   that nothing the reader returns depends on them.

   "In bounds" for the model: every read goes through rp_file_read, which returns the bytes of the file
   that exist in [off, off + n) - never anything else (rr_file_read_sub).

   Every top-level name starts with rr_.  Proofs only (plus the statement-level helper rr_inv). *)
From Coq Require Import NArith ZArith List Bool Lia Arith.
From Coq Require Import ZifyBool ZifyN ZifyNat.
From JLS Require Import Generated CrcDefs CrcProofs CrcAlg Spec Format FormatProofs WmRaw WmCore RepairRaw.
Import ListNotations.
Local Open Scope N_scope.
Ltac Zify.zify_post_hook ::= Z.div_mod_to_equations.

Local Opaque crc32c.

(* ================================================================ lists *)
Lemma rr_skip_pos_eq : forall p l, rp_skip_pos p l = skipn (Pos.to_nat p) l.
Proof.
  induction p as [q IH|q IH|]; intros [|a t].
  - cbn [rp_skip_pos]. now rewrite skipn_nil.
  - cbn [rp_skip_pos]. rewrite !IH. rewrite Pos2Nat.inj_xI. cbn [skipn].
    replace (2 * Pos.to_nat q)%nat with (Pos.to_nat q + Pos.to_nat q)%nat by lia.
    rewrite <- skipn_add. reflexivity.
  - cbn [rp_skip_pos]. now rewrite skipn_nil.
  - cbn [rp_skip_pos]. rewrite !IH. rewrite Pos2Nat.inj_xO.
    replace (2 * Pos.to_nat q)%nat with (Pos.to_nat q + Pos.to_nat q)%nat by lia.
    rewrite <- skipn_add. reflexivity.
  - reflexivity.
  - reflexivity.
Qed.

Lemma rr_skip_eq : forall n l, rp_skip n l = skipn (N.to_nat n) l.
Proof. intros [|p] l; [reflexivity|]. cbn [rp_skip N.to_nat]. apply rr_skip_pos_eq. Qed.

Lemma rr_take_eq : forall n l, rp_take n l = firstn (N.to_nat n) l.
Proof. reflexivity. Qed.

(* every read of the model = the sub-list [off, off+n) of the file: nothing outside the file is ever seen *)
Lemma rr_file_read_sub : forall f off n, rp_file_read f (rp_len f) off n = fm_sub off n f.
Proof.
  intros f off n. unfold rp_file_read, fm_sub, rp_len. rewrite rr_take_eq, rr_skip_eq.
  destruct (N.of_nat (length f) <=? off) eqn:E; [|reflexivity].
  apply N.leb_le in E. rewrite skipn_all2 by lia. now rewrite firstn_nil.
Qed.

Lemma rr_sub_length : forall off n f, off + n <= N.of_nat (length f) -> length (fm_sub off n f) = N.to_nat n.
Proof. intros off n f H. unfold fm_sub. rewrite firstn_length, skipn_length. lia. Qed.

Lemma rr_sub_length_le : forall off n f, (length (fm_sub off n f) <= N.to_nat n)%nat.
Proof. intros. unfold fm_sub. rewrite firstn_length. lia. Qed.

Lemma rr_sub_full : forall off n f, length (fm_sub off n f) = N.to_nat n -> n <> 0 -> off + n <= N.of_nat (length f).
Proof. intros off n f H Hn. unfold fm_sub in H. rewrite firstn_length, skipn_length in H. lia. Qed.

Lemma rr_bytes_ok_sub : forall off n f, bytes_ok f -> bytes_ok (fm_sub off n f).
Proof. intros. unfold fm_sub. now apply bytes_ok_firstn, bytes_ok_skipn. Qed.

(* a file whose bytes [a, a + length new) are replaced *)
Definition rr_splice (f : list N) (a : N) (new : list N) : list N :=
  firstn (N.to_nat a) f ++ new ++ skipn (N.to_nat a + length new) f.

Lemma rr_splice_length : forall f a new, a + N.of_nat (length new) <= N.of_nat (length f) ->
  length (rr_splice f a new) = length f.
Proof. intros f a new H. unfold rr_splice. rewrite !app_length, firstn_length, skipn_length. lia. Qed.

Lemma rr_splice_sub : forall f a new, a + N.of_nat (length new) <= N.of_nat (length f) ->
  fm_sub a (N.of_nat (length new)) (rr_splice f a new) = new.
Proof.
  intros f a new H. unfold fm_sub, rr_splice.
  rewrite skipn_app, firstn_length, Nat.min_l by lia.
  rewrite skipn_all2 by (rewrite firstn_length; lia). cbn [app].
  replace (N.to_nat a - N.to_nat a)%nat with 0%nat by lia. cbn [skipn].
  rewrite Nat2N.id. apply firstn_app_exact. reflexivity.
Qed.

(* bytes before the replaced range are untouched *)
Lemma rr_splice_sub_before : forall f a new off n, off + n <= a -> a <= N.of_nat (length f) ->
  fm_sub off n (rr_splice f a new) = fm_sub off n f.
Proof.
  intros f a new off n H Ha. unfold fm_sub, rr_splice.
  rewrite skipn_app, firstn_app.
  rewrite skipn_length, firstn_length, Nat.min_l by lia.
  replace (N.to_nat n - (N.to_nat a - N.to_nat off))%nat with 0%nat by lia.
  cbn [firstn]. rewrite app_nil_r.
  rewrite <- (firstn_skipn (N.to_nat a) f) at 2.
  rewrite skipn_app, firstn_app, skipn_length, firstn_length, Nat.min_l by lia.
  replace (N.to_nat n - (N.to_nat a - N.to_nat off))%nat with 0%nat by lia.
  cbn [firstn]. now rewrite app_nil_r.
Qed.

(* ================================================================ the invariant of the cached header *)
(* rp_flen is the length of the file, and a cached ("valid") chunk header is the decoding of the 32 bytes
   at rp_offset, whose CRC matched when it was read *)
Definition rr_hdr_at (f : list N) (off : N) (h : fm_chunk_header) : Prop :=
  let hb := fm_sub off 32 f in
  length hb = 32%nat /\ fm_ch_crc_ok hb = true /\ h = fm_ch_fields hb.

Definition rr_inv (s : rp_io) : Prop :=
  rp_flen s = rp_len (rp_file s) /\
  (rp_r_valid (rp_r s) = true -> rr_hdr_at (rp_file s) (rp_offset (rp_r s)) (rp_hdr (rp_r s))).

Lemma rr_inv_io0 : forall f, rr_inv (rp_io0 f).
Proof. intro f. split; [reflexivity|]. cbn. discriminate. Qed.

Lemma rr_bk_fread_eq : forall s n, rp_flen s = rp_len (rp_file s) ->
  rp_bk_fread s n =
  (rp_io_set_r s (rp_r_set_fpos (rp_r s) (rp_fpos (rp_r s) + rp_len (fm_sub (rp_fpos (rp_r s)) n (rp_file s)))),
   fm_sub (rp_fpos (rp_r s)) n (rp_file s)).
Proof. intros s n H. unfold rp_bk_fread. rewrite H, rr_file_read_sub. reflexivity. Qed.

Lemma rr_ch_complete_sub : forall off f, fm_ch_complete (fm_sub off 32 f) = true -> length (fm_sub off 32 f) = 32%nat.
Proof.
  intros off f H. unfold fm_ch_complete in H. apply fm_has_true in H.
  pose proof (rr_sub_length_le off 32 f) as H1. change (N.to_nat SIZEOF_chunk_header) with 32%nat in H.
  change (N.to_nat 32) with 32%nat in H1. lia.
Qed.

(* jls_raw_rd_header: the file, the buffer and chunk_cur are untouched, the chunk offset is kept, and rc = 0
   means: the 32 bytes at the chunk offset exist, their CRC-32C (over the first 28) equals the stored field,
   and the header handed out is their decoding *)
Lemma rr_rd_header_spec : forall s s' rc, rr_inv s -> rp_raw_rd_header s = (s', rc) ->
  rr_inv s' /\ rp_file s' = rp_file s /\ rp_buf s' = rp_buf s /\ rp_buf_len s' = rp_buf_len s /\ rp_cur s' = rp_cur s /\
  rp_flt s' = rp_flt s /\ rp_fend (rp_r s') = rp_fend (rp_r s) /\
  (rc = 0 -> rp_offset (rp_r s') = rp_offset (rp_r s) /\
             rr_hdr_at (rp_file s) (rp_offset (rp_r s)) (rp_hdr (rp_r s'))).
Proof.
  intros s s' rc [Hlen Hv] H. unfold rp_raw_rd_header in H.
  destruct (rp_r_valid (rp_r s)) eqn:Eval.
  - pose proof (Hv eq_refl) as Hat. inversion H; subst s' rc.
    split; [split; [exact Hlen | intros _; exact Hat]|].
    do 6 (split; [reflexivity|]). intros _. split; [reflexivity | exact Hat].
  - destruct (rp_fend (rp_r s) <=? rp_fpos (rp_r s)) eqn:Ee.
    + inversion H; subst s' rc.
      split; [split; [exact Hlen | rewrite Eval; discriminate]|].
      do 6 (split; [reflexivity|]). discriminate.
    + set (s1 := if rp_offset (rp_r s) =? rp_fpos (rp_r s) then s else rp_io_set_r s (rp_r_set_fpos (rp_r s) (rp_offset (rp_r s)))) in H.
      assert (H1 : rp_fpos (rp_r s1) = rp_offset (rp_r s) /\ rp_file s1 = rp_file s /\ rp_flen s1 = rp_flen s /\
                   rp_buf s1 = rp_buf s /\ rp_buf_len s1 = rp_buf_len s /\ rp_cur s1 = rp_cur s /\ rp_flt s1 = rp_flt s /\
                   rp_fend (rp_r s1) = rp_fend (rp_r s) /\ rp_hdr (rp_r s1) = rp_hdr (rp_r s)).
      { subst s1. destruct (rp_offset (rp_r s) =? rp_fpos (rp_r s)) eqn:E.
        - apply N.eqb_eq in E. do 8 (split; [auto|]). reflexivity.
        - do 8 (split; [reflexivity|]). reflexivity. }
      destruct H1 as (Hp & Hf & Hl & Hb & Hbl & Hc & Hfl & Hfe & Hh).
      set (s2 := rp_io_set_r s1 (rp_r_set_offset (rp_r s1) (rp_fpos (rp_r s1)))) in H.
      rewrite (rr_bk_fread_eq s2 SIZEOF_chunk_header) in H by (subst s2; cbn; congruence).
      assert (Hp2 : rp_fpos (rp_r s2) = rp_offset (rp_r s)) by (subst s2; cbn; exact Hp).
      assert (Hf2 : rp_file s2 = rp_file s) by (subst s2; cbn; exact Hf).
      rewrite Hp2, Hf2 in H. change SIZEOF_chunk_header with 32 in H.
      set (hb := fm_sub (rp_offset (rp_r s)) 32 (rp_file s)) in *.
      destruct (fm_ch_complete hb) eqn:Ec; cbn [negb] in H.
      2:{ inversion H; subst s' rc. subst s2.
          split; [split; [cbn; congruence | intro Hx; exfalso; unfold rp_r_valid in Hx, Eval; cbn in Hx; rewrite Hh, Eval in Hx; discriminate]|].
          do 6 (split; [cbn; congruence|]). discriminate. }
      destruct (fm_ch_crc_ok hb) eqn:Ek; cbn [negb] in H.
      2:{ inversion H; subst s' rc. subst s2.
          split; [split; [cbn; congruence | intro Hx; exfalso; unfold rp_r_valid in Hx, Eval; cbn in Hx; rewrite Hh, Eval in Hx; discriminate]|].
          do 6 (split; [cbn; congruence|]). discriminate. }
      inversion H; subst s' rc. subst s2.
      assert (Hat : rr_hdr_at (rp_file s) (rp_offset (rp_r s)) (fm_ch_fields hb)).
      { unfold rr_hdr_at. fold hb. split; [apply rr_ch_complete_sub; exact Ec|]. split; [exact Ek|reflexivity]. }
      split; [split; [cbn; congruence | intros _; cbn [rp_io_set_r rp_file rp_r rp_r_set_hdr rp_r_set_fpos rp_r_set_offset rp_offset rp_hdr]; rewrite Hf, Hp; exact Hat]|].
      do 6 (split; [cbn; congruence|]). intros _. split; [exact Hp | exact Hat].
Qed.

Lemma rr_rd_header_valid : forall s, rp_r_valid (rp_r s) = true -> rp_raw_rd_header s = (s, 0).
Proof. intros s H. unfold rp_raw_rd_header. now rewrite H. Qed.

Lemma rr_invalidate_not_valid : forall r, rp_r_valid (rp_r_invalidate r) = false.
Proof. intro r. reflexivity. Qed.

(* the facts a successful payload read establishes, for the chunk at [off] whose header is [h] *)
Definition rr_payload_at (f : list N) (off : N) (h : fm_chunk_header) (buf_before buf_after : list N) : Prop :=
  let pl := fm_payload_length h in
  (pl = 0 -> buf_after = buf_before) /\
  (pl <> 0 ->
   let region := fm_sub (off + 32) (fm_disk_len pl) f in
   length region = N.to_nat (fm_disk_len pl) /\
   buf_after = region ++ skipn (N.to_nat (fm_disk_len pl)) buf_before /\
   crc32c (firstn (N.to_nat pl) region) = fm_dec_u32 (skipn (N.to_nat (fm_disk_len pl - 4)) region)).

(* jls_raw_rd_payload *)
Lemma rr_rd_payload_spec : forall s max s' rc, rr_inv s -> rp_raw_rd_payload s max = (s', rc) ->
  rr_inv s' /\ rp_file s' = rp_file s /\ rp_buf_len s' = rp_buf_len s /\ rp_cur s' = rp_cur s /\
  rp_flt s' = rp_flt s /\ rp_fend (rp_r s') = rp_fend (rp_r s) /\
  (rc = 0 -> exists h, rr_hdr_at (rp_file s) (rp_offset (rp_r s)) h /\
                       (rp_r_valid (rp_r s) = true -> h = rp_hdr (rp_r s)) /\
                       (fm_payload_length h <> 0 -> fm_disk_len (fm_payload_length h) <= max) /\
                       rr_payload_at (rp_file s) (rp_offset (rp_r s)) h (rp_buf s) (rp_buf s')) /\
  (rc = JLS_ERROR_TOO_BIG -> rp_buf s' = rp_buf s /\ rr_hdr_at (rp_file s) (rp_offset (rp_r s)) (rp_hdr (rp_r s')) /\
                             max < fm_disk_len (fm_payload_length (rp_hdr (rp_r s')))).
Proof.
  intros s max s' rc Hinv H. unfold rp_raw_rd_payload in H.
  assert (Hhd : (if rp_r_valid (rp_r s) then (s, 0) else rp_raw_rd_header s) = rp_raw_rd_header s).
  { destruct (rp_r_valid (rp_r s)) eqn:E; [symmetry; now apply rr_rd_header_valid | reflexivity]. }
  rewrite Hhd in H. clear Hhd.
  destruct (rp_raw_rd_header s) as [s1 rc1] eqn:E1.
  destruct (rr_rd_header_spec s s1 rc1 Hinv E1) as (Hinv1 & Hf1 & Hb1 & Hbl1 & Hc1 & Hfl1 & Hfe1 & Hok1).
  destruct (rc1 =? 0) eqn:Erc1; cbn [negb] in H.
  2:{ inversion H; subst s' rc. apply N.eqb_neq in Erc1.
      split; [exact Hinv1|]. do 5 (split; [assumption|]). split; [intro; congruence|].
      intro Hx. exfalso. clear - Hx Erc1 E1 Hinv. unfold rp_raw_rd_header in E1.
      destruct (rp_r_valid (rp_r s)); [inversion E1; subst; now apply Erc1|].
      destruct (rp_fend (rp_r s) <=? rp_fpos (rp_r s)); [inversion E1; subst; discriminate|].
      match type of E1 with (let '(_, _) := ?X in _) = _ => destruct X as [s3 b] end.
      destruct (negb (fm_ch_complete b)); [inversion E1; subst; discriminate|].
      destruct (negb (fm_ch_crc_ok b)); inversion E1; subst; [discriminate | now apply Erc1]. }
  apply N.eqb_eq in Erc1. destruct (Hok1 Erc1) as [Hoff1 Hat1].
  assert (Hval1 : rp_r_valid (rp_r s) = true -> rp_hdr (rp_r s1) = rp_hdr (rp_r s)).
  { intro Hv. rewrite (rr_rd_header_valid s Hv) in E1. inversion E1. reflexivity. }
  set (h := rp_hdr (rp_r s1)) in *. set (pl := fm_payload_length h) in *.
  destruct (pl =? 0) eqn:Epl.
  - apply N.eqb_eq in Epl. inversion H; subst s' rc.
    split; [split; [cbn; apply Hinv1 | intro Hx; discriminate Hx]|].
    do 5 (split; [cbn; assumption|]).
    split; [|discriminate].
    intros _. exists h. split; [exact Hat1|]. split; [exact Hval1|].
    split; [intro Hn; now elim Hn|].
    unfold rr_payload_at. fold pl. split; [intros _; cbn; exact Hb1 | intro Hn; now elim Hn].
  - apply N.eqb_neq in Epl.
    destruct (max <? fm_disk_len pl) eqn:Emax.
    + inversion H; subst s' rc.
      split; [exact Hinv1|]. do 5 (split; [assumption|]). split; [discriminate|].
      intros _. split; [exact Hb1 |]. split; [exact Hat1|]. apply N.ltb_lt in Emax. exact Emax.
    + apply N.ltb_ge in Emax.
      set (pos := rp_offset (rp_r s1) + SIZEOF_chunk_header) in H.
      set (s2 := if pos =? rp_fpos (rp_r s1) then s1 else rp_io_set_r s1 (rp_r_set_fpos (rp_r s1) pos)) in H.
      assert (H2 : rp_fpos (rp_r s2) = pos /\ rp_file s2 = rp_file s1 /\ rp_flen s2 = rp_flen s1 /\
                   rp_buf s2 = rp_buf s1 /\ rp_buf_len s2 = rp_buf_len s1 /\ rp_cur s2 = rp_cur s1 /\ rp_flt s2 = rp_flt s1 /\
                   rp_fend (rp_r s2) = rp_fend (rp_r s1) /\ rp_hdr (rp_r s2) = rp_hdr (rp_r s1) /\
                   rp_offset (rp_r s2) = rp_offset (rp_r s1)).
      { subst s2. destruct (pos =? rp_fpos (rp_r s1)) eqn:E.
        - apply N.eqb_eq in E. do 9 (split; [auto|]). reflexivity.
        - do 9 (split; [reflexivity|]). reflexivity. }
      destruct H2 as (Hp2 & Hf2 & Hl2 & Hb2 & Hbl2 & Hc2 & Hfl2 & Hfe2 & Hh2 & Ho2).
      destruct Hinv1 as [Hlen1 Hv1].
      assert (Hv2 : forall p b n, rr_inv (rp_io_set_buf (rp_io_set_r s2 (rp_r_set_fpos (rp_r s2) p)) b n)).
      { intros p b n. split; [cbn; congruence|]. unfold rp_r_valid.
        cbn [rp_io_set_buf rp_io_set_r rp_r rp_file rp_r_set_fpos rp_offset rp_hdr].
        rewrite Hf2, Ho2, Hh2. exact Hv1. }
      rewrite (rr_bk_fread_eq s2 (fm_disk_len pl)) in H by congruence.
      rewrite Hp2, Hf2, Hf1 in H. subst pos. rewrite Hoff1 in H. change SIZEOF_chunk_header with 32 in H.
      set (region := fm_sub (rp_offset (rp_r s) + 32) (fm_disk_len pl) (rp_file s)) in *.
      cbv zeta in H.
      match type of H with (if ?c then _ else _) = _ => destruct c eqn:Eshort end.
      * inversion H; subst s' rc.
        split; [apply Hv2|].
        do 5 (split; [cbn; congruence|]). split; discriminate.
      * cbn [rp_io_set_buf rp_io_set_r rp_buf rp_r rp_buf_len] in Eshort.
        apply N.ltb_ge in Eshort.
        assert (Hrl : length region = N.to_nat (fm_disk_len pl)).
        { pose proof (rr_sub_length_le (rp_offset (rp_r s) + 32) (fm_disk_len pl) (rp_file s)) as Hle. fold region in Hle.
          unfold rp_len in Eshort. lia. }
        match type of H with (if ?c then _ else _) = _ => destruct c eqn:Ecrc end.
        -- inversion H; subst s' rc.
           split; [apply Hv2|].
           do 5 (split; [cbn; congruence|]). split; discriminate.
        -- apply negb_false_iff, N.eqb_eq in Ecrc. inversion H; subst s' rc.
           split; [split; [cbn; congruence | intro Hx; discriminate Hx]|].
           do 5 (split; [cbn; congruence|]). split; [|discriminate].
           intros _. exists h. split; [exact Hat1|]. split; [exact Hval1|].
           split; [intros _; exact Emax|].
           unfold rr_payload_at. fold pl. split; [intro Hx; now elim Epl|]. intros _. fold region.
           split; [exact Hrl|]. split.
           ++ cbn. unfold rp_buf_put. rewrite rr_skip_eq, Hb2, Hb1. unfold rp_len. rewrite Hrl, N2Nat.id. reflexivity.
           ++ rewrite rr_take_eq, rr_skip_eq in Ecrc. exact Ecrc.
Qed.

Lemma rr_hdr_at_fun : forall f off h1 h2, rr_hdr_at f off h1 -> rr_hdr_at f off h2 -> h1 = h2.
Proof. intros f off h1 h2 (_ & _ & H1) (_ & _ & H2). congruence. Qed.

Lemma rr_inv_set_cur : forall s c, rr_inv s -> rr_inv (rp_io_set_cur s c).
Proof. intros s c H. exact H. Qed.

Lemma rr_pad_ge : forall pl, pl <> 0 -> pl + 4 <= fm_disk_len pl.
Proof. intros pl H. unfold fm_disk_len. destruct (pl =? 0) eqn:E; [apply N.eqb_eq in E; congruence|]. unfold RAW_CRC_SIZE. lia. Qed.

Lemma rr_firstn_firstn_skipn : forall (a b c : nat) (l : list N), (a <= b)%nat ->
  firstn a (firstn b (skipn c l)) = firstn a (skipn c l).
Proof. intros. rewrite firstn_firstn. now rewrite Nat.min_l. Qed.

Lemma rr_skipn_sub : forall (a b c : N) (l : list N), a <= b ->
  skipn (N.to_nat a) (fm_sub c b l) = fm_sub (c + a) (b - a) l.
Proof.
  intros a b c l H. unfold fm_sub. rewrite skipn_firstn_comm, <- skipn_add.
  f_equal; [lia|]. f_equal. lia.
Qed.

(* jls_core_rd_chunk, any return code: the file is never changed and the only fault it can raise is the
   stated modelling limit RpF_big (a payload that does not fit the initial 1 MiB buffer: the realloc path of
   the C is not modelled) *)
Lemma rr_rd_chunk_any : forall s s' rc, rr_inv s -> rp_rd_chunk s = (s', rc) ->
  rr_inv s' /\ rp_file s' = rp_file s /\ rp_fend (rp_r s') = rp_fend (rp_r s) /\
  (rp_flt s' = rp_flt s \/ (rp_flt s = 0 /\ rp_flt s' = RpF_big /\ rc = JLS_ERROR_NOT_ENOUGH_MEMORY /\
                            JLS_BUF_DEFAULT_SIZE < fm_disk_len (fm_payload_length (wm_ck_hdr (rp_cur s'))) /\
                            rr_hdr_at (rp_file s) (rp_offset (rp_r s)) (wm_ck_hdr (rp_cur s')))).
Proof.
  intros s s' rc Hinv H. unfold rp_rd_chunk in H.
  set (cur0 := {| wm_ck_offset := rp_offset (rp_r s); wm_ck_hdr := wm_hdr_set_tag (wm_ck_hdr (rp_cur s)) JLS_TAG_INVALID |}) in H.
  destruct (rp_raw_rd_header (rp_io_set_cur s cur0)) as [s1 rc1] eqn:E1.
  destruct (rr_rd_header_spec _ _ _ (rr_inv_set_cur s cur0 Hinv) E1) as (Hinv1 & Hf1 & Hb1 & Hbl1 & Hc1 & Hfl1 & Hfe1 & Hok1).
  cbn [rp_io_set_cur rp_file rp_buf rp_buf_len rp_cur rp_flt rp_r] in Hf1, Hb1, Hbl1, Hc1, Hfl1, Hfe1, Hok1.
  destruct (rc1 =? 0) eqn:Erc1; cbn [negb] in H.
  2:{ inversion H; subst s' rc. do 3 (split; [assumption|]). now left. }
  apply N.eqb_eq in Erc1. destruct (Hok1 Erc1) as [Hoff1 Hat1].
  set (s2 := rp_io_set_cur s1 {| wm_ck_offset := wm_ck_offset cur0; wm_ck_hdr := rp_hdr (rp_r s1) |}) in H.
  destruct (rp_raw_rd_payload s2 JLS_BUF_DEFAULT_SIZE) as [s3 rc2] eqn:E2.
  destruct (rr_rd_payload_spec _ _ _ _ (rr_inv_set_cur s1 _ Hinv1) E2) as (Hinv3 & Hf3 & Hbl3 & Hc3 & Hfl3 & Hfe3 & Hok3 & Hbig3).
  cbn [rp_io_set_cur rp_file rp_buf rp_buf_len rp_cur rp_flt rp_r] in Hf3, Hbl3, Hc3, Hfl3, Hfe3, Hok3, Hbig3.
  destruct (rc2 =? JLS_ERROR_TOO_BIG) eqn:Ebig.
  - apply N.eqb_eq in Ebig.
    match type of H with (if ?c then _ else _) = _ => destruct c end; inversion H; subst s' rc.
    + split; [exact Hinv3|]. split; [congruence|]. split; [congruence|]. left. congruence.
    + split; [exact Hinv3|]. split; [cbn; congruence|]. split; [cbn; congruence|].
      cbn [rp_io_fault rp_flt rp_cur]. destruct (rp_flt s3 =? 0) eqn:Ef.
      * right. apply N.eqb_eq in Ef. split; [congruence|]. split; [reflexivity|]. split; [reflexivity|].
        rewrite Hc3. cbn [wm_ck_hdr].
        destruct (Hbig3 Ebig) as (_ & Hat3 & Hlt3). rewrite Hoff1, Hf1 in Hat3.
        assert (Hx : rp_hdr (rp_r s3) = rp_hdr (rp_r s1)) by (eapply rr_hdr_at_fun; eassumption).
        rewrite <- Hx. split; [exact Hlt3|]. rewrite Hx. exact Hat1.
      * left. congruence.
  - destruct (rc2 =? 0) eqn:E0; inversion H; subst s' rc.
    + split; [split; [cbn; apply Hinv3 | cbn; apply Hinv3]|]. split; [cbn; congruence|]. split; [cbn; congruence|]. left. cbn. congruence.
    + split; [exact Hinv3|]. split; [congruence|]. split; [congruence|]. left. congruence.
Qed.

(* jls_core_rd_chunk returning 0: header CRC valid, payload CRC valid, and the payload handed to the caller
   is exactly the file's bytes [off + 32, off + 32 + payload_length) *)
Lemma rr_rd_chunk_ok : forall s s', rr_inv s -> rp_rd_chunk s = (s', 0) ->
  let off := rp_offset (rp_r s) in
  let h := wm_ck_hdr (rp_cur s') in
  let pl := fm_payload_length h in
  rp_file s' = rp_file s /\ rp_flt s' = rp_flt s /\
  wm_ck_offset (rp_cur s') = off /\
  rr_hdr_at (rp_file s) off h /\
  rp_payload s' = fm_sub (off + 32) pl (rp_file s) /\
  length (rp_payload s') = N.to_nat pl /\
  (pl <> 0 ->
   fm_disk_len pl <= JLS_BUF_DEFAULT_SIZE /\
   off + 32 + fm_disk_len pl <= N.of_nat (length (rp_file s)) /\
   crc32c (rp_payload s') = fm_dec (fm_sub (off + 32 + fm_disk_len pl - 4) 4 (rp_file s))).
Proof.
  intros s s' Hinv H off h pl. unfold rp_rd_chunk in H.
  set (cur0 := {| wm_ck_offset := rp_offset (rp_r s); wm_ck_hdr := wm_hdr_set_tag (wm_ck_hdr (rp_cur s)) JLS_TAG_INVALID |}) in H.
  destruct (rp_raw_rd_header (rp_io_set_cur s cur0)) as [s1 rc1] eqn:E1.
  destruct (rr_rd_header_spec _ _ _ (rr_inv_set_cur s cur0 Hinv) E1) as (Hinv1 & Hf1 & Hb1 & Hbl1 & Hc1 & Hfl1 & Hfe1 & Hok1).
  cbn [rp_io_set_cur rp_file rp_buf rp_buf_len rp_cur rp_flt rp_r] in Hf1, Hb1, Hbl1, Hc1, Hfl1, Hfe1, Hok1.
  destruct (rc1 =? 0) eqn:Erc1; cbn [negb] in H.
  2:{ inversion H; subst. discriminate. }
  apply N.eqb_eq in Erc1. destruct (Hok1 Erc1) as [Hoff1 Hat1].
  set (s2 := rp_io_set_cur s1 {| wm_ck_offset := wm_ck_offset cur0; wm_ck_hdr := rp_hdr (rp_r s1) |}) in H.
  destruct (rp_raw_rd_payload s2 JLS_BUF_DEFAULT_SIZE) as [s3 rc2] eqn:E2.
  destruct (rr_rd_payload_spec _ _ _ _ (rr_inv_set_cur s1 _ Hinv1) E2) as (Hinv3 & Hf3 & Hbl3 & Hc3 & Hfl3 & Hfe3 & Hok3 & Hbig3).
  cbn [rp_io_set_cur rp_file rp_buf rp_buf_len rp_cur rp_flt rp_r] in Hf3, Hbl3, Hc3, Hfl3, Hfe3, Hok3, Hbig3.
  destruct (rc2 =? JLS_ERROR_TOO_BIG) eqn:Ebig.
  { match type of H with (if ?c then _ else _) = _ => destruct c end; inversion H. }
  destruct (rc2 =? 0) eqn:E0; [|apply N.eqb_neq in E0; inversion H; subst; now elim E0].
  apply N.eqb_eq in E0. inversion H; subst s'. clear H.
  destruct (Hok3 E0) as (h' & Hat' & _ & Hmax & Hpay).
  rewrite Hoff1, Hf1 in Hat', Hpay.
  assert (Hh : h' = rp_hdr (rp_r s1)) by (eapply rr_hdr_at_fun; eassumption). subst h'.
  assert (Hcur : h = rp_hdr (rp_r s1)) by (subst h; cbn [rp_io_set_buf rp_cur]; rewrite Hc3; reflexivity).
  split; [cbn; congruence|]. split; [cbn; congruence|].
  split; [cbn [rp_io_set_buf rp_cur]; rewrite Hc3; reflexivity|].
  split; [rewrite Hcur; exact Hat1|].
  unfold rp_payload. cbn [rp_io_set_buf rp_buf rp_buf_len rp_cur]. rewrite Hc3. cbn [wm_ck_hdr].
  fold off in Hpay, Hat1. subst pl. rewrite Hcur. set (pl := fm_payload_length (rp_hdr (rp_r s1))) in *.
  destruct Hpay as [Hz Hnz]. fold pl in Hz, Hnz, Hmax.
  destruct (N.eq_dec pl 0) as [Ep|Ep].
  - rewrite Ep. rewrite rr_take_eq. unfold fm_sub. cbn [N.to_nat firstn length]. split; [reflexivity|]. split; [reflexivity|]. intro Hx; now elim Hx.
  - destruct (Hnz Ep) as (Hrl & Hbuf & Hcrc). clear Hz Hnz.
    pose proof (rr_pad_ge pl Ep) as Hge.
    set (region := fm_sub (off + 32) (fm_disk_len pl) (rp_file s)) in *.
    assert (Htake : rp_take pl (rp_buf s3) = fm_sub (off + 32) pl (rp_file s)).
    { rewrite rr_take_eq, Hbuf. rewrite firstn_app. replace (N.to_nat pl - length region)%nat with 0%nat by lia.
      cbn [firstn]. rewrite app_nil_r. unfold region, fm_sub. apply rr_firstn_firstn_skipn. lia. }
    assert (Hfull : off + 32 + fm_disk_len pl <= N.of_nat (length (rp_file s))).
    { apply rr_sub_full; [exact Hrl | lia]. }
    rewrite Htake. split; [reflexivity|]. split; [apply rr_sub_length; lia|].
    intros _. split; [now apply Hmax|]. split; [exact Hfull|].
    rewrite <- Htake, rr_take_eq, Hbuf, firstn_app. replace (N.to_nat pl - length region)%nat with 0%nat by lia.
    cbn [firstn]. rewrite app_nil_r. rewrite Hcrc. unfold fm_dec_u32.
    unfold region. rewrite rr_skipn_sub by lia. f_equal.
    replace (fm_disk_len pl - (fm_disk_len pl - 4)) with 4 by lia.
    replace (off + 32 + (fm_disk_len pl - 4)) with (off + 32 + fm_disk_len pl - 4) by lia.
    unfold fm_sub. rewrite firstn_firstn. reflexivity.
Qed.

(* ================================================================ link to the CRC algebra *)
Lemma rr_dec_le : forall l, bytes_ok l -> fm_dec l = le l.
Proof.
  induction l as [|b r IH]; intro H; [reflexivity|].
  inversion H as [|? ? Hb Hr]; subst. cbn [fm_dec le]. rewrite IH by exact Hr.
  rewrite N.shiftl_mul_pow2. change (2 ^ 8) with 256. rewrite (N.mul_comm (le r) 256).
  apply N.add_nocarry_lxor. apply N.bits_inj; intro m. rewrite N.land_spec, N.bits_0.
  destruct (N.lt_ge_cases m 8) as [Hm|Hm].
  - replace (256 * le r) with (le r * 2 ^ 8) by (change (2 ^ 8) with 256; lia).
    rewrite N.mul_pow2_bits_low by exact Hm. apply andb_false_r.
  - assert (Hbit : N.testbit b m = false).
    { destruct (N.eq_dec b 0) as [->|Hb0]; [apply N.bits_0|]. apply N.bits_above_log2.
      apply N.log2_lt_pow2; [lia|]. apply N.lt_le_trans with (2 ^ 8); [exact Hb|]. apply N.pow_le_mono_r; lia. }
    rewrite Hbit. reflexivity.
Qed.

Lemma rr_xor_bytes_app : forall a c b d, length a = length c ->
  xor_bytes (a ++ b) (c ++ d) = xor_bytes a c ++ xor_bytes b d.
Proof.
  induction a as [|x a IH]; intros [|y c] b d H; try discriminate; [reflexivity|].
  cbn [app xor_bytes]. f_equal. apply IH. now inversion H.
Qed.

Lemma rr_xor_bytes_firstn : forall n a b, firstn n (xor_bytes a b) = xor_bytes (firstn n a) (firstn n b).
Proof.
  induction n as [|n IH]; intros [|x a] [|y b]; try reflexivity.
  cbn [firstn xor_bytes]. f_equal. apply IH.
Qed.

Lemma rr_xor_bytes_skipn : forall n a b, length a = length b -> skipn n (xor_bytes a b) = xor_bytes (skipn n a) (skipn n b).
Proof.
  induction n as [|n IH]; intros [|x a] [|y b] H; try reflexivity; try discriminate.
  cbn [skipn xor_bytes]. apply IH. now inversion H.
Qed.

(* a protected region m ++ c (c = the 4 stored CRC bytes, valid) hit by an error e ++ esb of the
   guaranteed class no longer passes the check the reader makes *)
Lemma rr_crc_detect : forall m c e esb,
  bytes_ok m -> bytes_ok c -> length c = 4%nat -> fm_dec c = crc32c m ->
  length e = length m -> length esb = 4%nat -> bytes_ok e -> bytes_ok esb ->
  N.of_nat (8 * length (e ++ esb)) <= 2147483647 ->
  le (e ++ esb) <> 0 ->
  ((weight (le (e ++ esb)) <= 3)%nat \/
   (exists (v : N) (k : nat), 0 < v /\ v < 2 ^ 32 /\ (k <= 8 * length (e ++ esb))%nat /\
      le (e ++ esb) = N.shiftl v (N.of_nat k))) ->
  (fm_dec (xor_bytes c esb) =? crc32c (xor_bytes m e)) = false.
Proof.
  intros m c e esb Hm Hc Hc4 Hcrc He Hs4 Hbe Hbs Hn Hnz Hcls.
  pose proof (detects m e esb (eq_sym He) Hs4 Hbe Hbs Hn Hnz Hcls) as Hd. unfold check in Hd.
  rewrite crc32c_eq by (apply xor_bytes_ok; assumption).
  rewrite rr_dec_le by (apply xor_bytes_ok; assumption).
  rewrite le_xor_bytes by congruence.
  rewrite <- rr_dec_le by exact Hc. rewrite Hcrc, crc32c_eq by exact Hm.
  rewrite N.eqb_sym. exact Hd.
Qed.

(* the 32-byte headers (chunk header and file header have the CRC at the same place: bytes 28..31 over 0..27) *)
Lemma rr_hdr32_detect : forall hb e,
  length hb = 32%nat -> length e = 32%nat -> bytes_ok hb -> bytes_ok e ->
  fm_dec (firstn 4 (skipn 28 hb)) = crc32c (firstn 28 hb) ->
  le e <> 0 ->
  ((weight (le e) <= 3)%nat \/
   (exists (v : N) (k : nat), 0 < v /\ v < 2 ^ 32 /\ (k <= 256)%nat /\ le e = N.shiftl v (N.of_nat k))) ->
  (fm_dec (firstn 4 (skipn 28 (xor_bytes hb e))) =? crc32c (firstn 28 (xor_bytes hb e))) = false.
Proof.
  intros hb e Hl Hle Hb Hbe Hok Hnz Hcls.
  assert (Hsplit : e = firstn 28 e ++ skipn 28 e) by (symmetry; apply firstn_skipn).
  assert (Hl1 : length (firstn 28 e) = 28%nat) by (rewrite firstn_length; lia).
  assert (Hl2 : length (skipn 28 e) = 4%nat) by (rewrite skipn_length; lia).
  assert (Hl3 : length (skipn 28 hb) = 4%nat) by (rewrite skipn_length; lia).
  assert (Hlen : length (firstn 28 e ++ skipn 28 e) = 32%nat) by (rewrite <- Hsplit; exact Hle).
  rewrite rr_xor_bytes_skipn by congruence. rewrite rr_xor_bytes_firstn.
  rewrite firstn_all2 by (rewrite xor_bytes_length; lia).
  apply rr_crc_detect.
  - now apply bytes_ok_firstn.
  - now apply bytes_ok_skipn.
  - exact Hl3.
  - rewrite <- Hok. rewrite firstn_all2 by lia. reflexivity.
  - rewrite !firstn_length. lia.
  - exact Hl2.
  - now apply bytes_ok_firstn.
  - now apply bytes_ok_skipn.
  - rewrite Hlen. cbn. lia.
  - rewrite <- Hsplit. exact Hnz.
  - rewrite Hlen, <- Hsplit. exact Hcls.
Qed.

Lemma rr_ch_crc_detect : forall hb e,
  length hb = 32%nat -> length e = 32%nat -> bytes_ok hb -> bytes_ok e ->
  fm_ch_crc_ok hb = true -> le e <> 0 ->
  ((weight (le e) <= 3)%nat \/
   (exists (v : N) (k : nat), 0 < v /\ v < 2 ^ 32 /\ (k <= 256)%nat /\ le e = N.shiftl v (N.of_nat k))) ->
  fm_ch_crc_ok (xor_bytes hb e) = false.
Proof.
  intros hb e Hl Hle Hb Hbe Hok Hnz Hcls. unfold fm_ch_crc_ok, fm_u32_at, fm_dec_u32 in *.
  change (N.to_nat OFFSETOF_chunk_crc32) with 28%nat in *.
  apply N.eqb_eq in Hok. now apply rr_hdr32_detect.
Qed.

Lemma rr_fh_crc_detect : forall hb e,
  length hb = 32%nat -> length e = 32%nat -> bytes_ok hb -> bytes_ok e ->
  fm_fh_crc_ok hb = true -> le e <> 0 ->
  ((weight (le e) <= 3)%nat \/
   (exists (v : N) (k : nat), 0 < v /\ v < 2 ^ 32 /\ (k <= 256)%nat /\ le e = N.shiftl v (N.of_nat k))) ->
  fm_fh_crc_ok (xor_bytes hb e) = false.
Proof.
  intros hb e Hl Hle Hb Hbe Hok Hnz Hcls. unfold fm_fh_crc_ok, fm_u32_at, fm_dec_u32 in *.
  change (N.to_nat OFFSETOF_file_header_crc32) with 28%nat in *.
  apply N.eqb_eq in Hok. now apply rr_hdr32_detect.
Qed.
