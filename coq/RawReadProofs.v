(* C04, structural half: the reader's raw layer (RepairRaw.v: rp_read_verify, rp_raw_rd_header,
   rp_raw_rd_payload, rp_rd_chunk = jls_core_rd_chunk) only hands out bytes that passed their CRC checks,
   and - composed with the algebra of CrcAlg.v - never accepts a protected region that was hit by an error
   of the guaranteed class (at most three flipped bits, or one burst of at most 32 bits).

   Protected regions of a JLS file:
     file header     bytes [0, 32)                         CRC-32C of bytes [0, 28) stored in [28, 32)
     chunk header    bytes [off, off + 32)                 CRC-32C of [off, off + 28) stored in [off + 28, off + 32)
     payload         bytes [off + 32, off + 32 + pl) and the 4 CRC bytes at off + 32 + pl + pad
   The pad bytes (0..7 zero bytes between payload and CRC) are outside every CRC: rr_pad_irrelevant shows
   that nothing the reader returns depends on them.

   "In bounds" for the model: every read goes through rp_file_read, which returns the bytes of the file
   that exist in [off, off + n) - never anything else (rr_file_read_sub).

   Every top-level name starts with rr_.  Proofs only (plus the statement-level helper rr_inv). *)
From Coq Require Import NArith ZArith List Bool Lia Arith.
From Coq Require Import ZifyBool ZifyN ZifyNat.
From JLS Require Import Generated CrcDefs CrcProofs CrcAlg Spec Format FormatProofs WmRaw WmCore RepairRaw.
Import ListNotations.
Local Open Scope N_scope.
Ltac Zify.zify_post_hook ::= Z.div_mod_to_equations.

Local Opaque crc32c.

(* ================================================================ lists *)
Lemma rr_skip_pos_eq : forall p l, rp_skip_pos p l = skipn (Pos.to_nat p) l.
Proof.
  induction p as [q IH|q IH|]; intros [|a t].
  - cbn [rp_skip_pos]. now rewrite skipn_nil.
  - cbn [rp_skip_pos]. rewrite !IH. rewrite Pos2Nat.inj_xI. cbn [skipn].
    replace (2 * Pos.to_nat q)%nat with (Pos.to_nat q + Pos.to_nat q)%nat by lia.
    rewrite <- skipn_add. reflexivity.
  - cbn [rp_skip_pos]. now rewrite skipn_nil.
  - cbn [rp_skip_pos]. rewrite !IH. rewrite Pos2Nat.inj_xO.
    replace (2 * Pos.to_nat q)%nat with (Pos.to_nat q + Pos.to_nat q)%nat by lia.
    rewrite <- skipn_add. reflexivity.
  - reflexivity.
  - reflexivity.
Qed.

Lemma rr_skip_eq : forall n l, rp_skip n l = skipn (N.to_nat n) l.
Proof. intros [|p] l; [reflexivity|]. cbn [rp_skip N.to_nat]. apply rr_skip_pos_eq. Qed.

Lemma rr_take_eq : forall n l, rp_take n l = firstn (N.to_nat n) l.
Proof. reflexivity. Qed.

(* every read of the model = the sub-list [off, off+n) of the file: nothing outside the file is ever seen *)
Lemma rr_file_read_sub : forall f off n, rp_file_read f (rp_len f) off n = fm_sub off n f.
Proof.
  intros f off n. unfold rp_file_read, fm_sub, rp_len. rewrite rr_take_eq, rr_skip_eq.
  destruct (N.of_nat (length f) <=? off) eqn:E; [|reflexivity].
  apply N.leb_le in E. rewrite skipn_all2 by lia. now rewrite firstn_nil.
Qed.

Lemma rr_sub_length : forall off n f, off + n <= N.of_nat (length f) -> length (fm_sub off n f) = N.to_nat n.
Proof. intros off n f H. unfold fm_sub. rewrite firstn_length, skipn_length. lia. Qed.

Lemma rr_sub_length_le : forall off n f, (length (fm_sub off n f) <= N.to_nat n)%nat.
Proof. intros. unfold fm_sub. rewrite firstn_length. lia. Qed.

Lemma rr_sub_full : forall off n f, length (fm_sub off n f) = N.to_nat n -> n <> 0 -> off + n <= N.of_nat (length f).
Proof. intros off n f H Hn. unfold fm_sub in H. rewrite firstn_length, skipn_length in H. lia. Qed.

Lemma rr_bytes_ok_sub : forall off n f, bytes_ok f -> bytes_ok (fm_sub off n f).
Proof. intros. unfold fm_sub. now apply bytes_ok_firstn, bytes_ok_skipn. Qed.

(* a file whose bytes [a, a + length new) are replaced *)
Definition rr_splice (f : list N) (a : N) (new : list N) : list N :=
  firstn (N.to_nat a) f ++ new ++ skipn (N.to_nat a + length new) f.

Lemma rr_splice_length : forall f a new, a + N.of_nat (length new) <= N.of_nat (length f) ->
  length (rr_splice f a new) = length f.
Proof. intros f a new H. unfold rr_splice. rewrite !app_length, firstn_length, skipn_length. lia. Qed.

Lemma rr_splice_sub : forall f a new, a + N.of_nat (length new) <= N.of_nat (length f) ->
  fm_sub a (N.of_nat (length new)) (rr_splice f a new) = new.
Proof.
  intros f a new H. unfold fm_sub, rr_splice.
  rewrite skipn_app, firstn_length, Nat.min_l by lia.
  rewrite skipn_all2 by (rewrite firstn_length; lia). cbn [app].
  replace (N.to_nat a - N.to_nat a)%nat with 0%nat by lia. cbn [skipn].
  rewrite Nat2N.id. apply firstn_app_exact. reflexivity.
Qed.

(* bytes before the replaced range are untouched *)
Lemma rr_splice_sub_before : forall f a new off n, off + n <= a -> a <= N.of_nat (length f) ->
  fm_sub off n (rr_splice f a new) = fm_sub off n f.
Proof.
  intros f a new off n H Ha. unfold fm_sub, rr_splice.
  rewrite skipn_app, firstn_app.
  rewrite skipn_length, firstn_length, Nat.min_l by lia.
  replace (N.to_nat n - (N.to_nat a - N.to_nat off))%nat with 0%nat by lia.
  cbn [firstn]. rewrite app_nil_r.
  rewrite <- (firstn_skipn (N.to_nat a) f) at 2.
  rewrite skipn_app, firstn_app, skipn_length, firstn_length, Nat.min_l by lia.
  replace (N.to_nat n - (N.to_nat a - N.to_nat off))%nat with 0%nat by lia.
  cbn [firstn]. now rewrite app_nil_r.
Qed.

(* ================================================================ the invariant of the cached header *)
(* rp_flen is the length of the file, and a cached ("valid") chunk header is the decoding of the 32 bytes
   at rp_offset, whose CRC matched when it was read *)
Definition rr_hdr_at (f : list N) (off : N) (h : fm_chunk_header) : Prop :=
  let hb := fm_sub off 32 f in
  length hb = 32%nat /\ fm_ch_crc_ok hb = true /\ h = fm_ch_fields hb.

Definition rr_inv (s : rp_io) : Prop :=
  rp_flen s = rp_len (rp_file s) /\
  (rp_r_valid (rp_r s) = true -> rr_hdr_at (rp_file s) (rp_offset (rp_r s)) (rp_hdr (rp_r s))).

Lemma rr_inv_io0 : forall f, rr_inv (rp_io0 f).
Proof. intro f. split; [reflexivity|]. cbn. discriminate. Qed.

Lemma rr_bk_fread_eq : forall s n, rp_flen s = rp_len (rp_file s) ->
  rp_bk_fread s n =
  (rp_io_set_r s (rp_r_set_fpos (rp_r s) (rp_fpos (rp_r s) + rp_len (fm_sub (rp_fpos (rp_r s)) n (rp_file s)))),
   fm_sub (rp_fpos (rp_r s)) n (rp_file s)).
Proof. intros s n H. unfold rp_bk_fread. rewrite H, rr_file_read_sub. reflexivity. Qed.

Lemma rr_ch_complete_sub : forall off f, fm_ch_complete (fm_sub off 32 f) = true -> length (fm_sub off 32 f) = 32%nat.
Proof.
  intros off f H. unfold fm_ch_complete in H. apply fm_has_true in H.
  pose proof (rr_sub_length_le off 32 f) as H1. change (N.to_nat SIZEOF_chunk_header) with 32%nat in H.
  change (N.to_nat 32) with 32%nat in H1. lia.
Qed.

(* jls_raw_rd_header: the file, the buffer and chunk_cur are untouched, the chunk offset is kept, and rc = 0
   means: the 32 bytes at the chunk offset exist, their CRC-32C (over the first 28) equals the stored field,
   and the header handed out is their decoding *)
Lemma rr_rd_header_spec : forall s s' rc, rr_inv s -> rp_raw_rd_header s = (s', rc) ->
  rr_inv s' /\ rp_file s' = rp_file s /\ rp_buf s' = rp_buf s /\ rp_buf_len s' = rp_buf_len s /\ rp_cur s' = rp_cur s /\
  rp_flt s' = rp_flt s /\ rp_fend (rp_r s') = rp_fend (rp_r s) /\
  (rc = 0 -> rp_offset (rp_r s') = rp_offset (rp_r s) /\
             rr_hdr_at (rp_file s) (rp_offset (rp_r s)) (rp_hdr (rp_r s'))).
Proof.
  intros s s' rc [Hlen Hv] H. unfold rp_raw_rd_header in H.
  destruct (rp_r_valid (rp_r s)) eqn:Eval.
  - pose proof (Hv eq_refl) as Hat. inversion H; subst s' rc.
    split; [split; [exact Hlen | intros _; exact Hat]|].
    do 6 (split; [reflexivity|]). intros _. split; [reflexivity | exact Hat].
  - destruct (rp_fend (rp_r s) <=? rp_fpos (rp_r s)) eqn:Ee.
    + inversion H; subst s' rc.
      split; [split; [exact Hlen | rewrite Eval; discriminate]|].
      do 6 (split; [reflexivity|]). discriminate.
    + set (s1 := if rp_offset (rp_r s) =? rp_fpos (rp_r s) then s else rp_io_set_r s (rp_r_set_fpos (rp_r s) (rp_offset (rp_r s)))) in H.
      assert (H1 : rp_fpos (rp_r s1) = rp_offset (rp_r s) /\ rp_file s1 = rp_file s /\ rp_flen s1 = rp_flen s /\
                   rp_buf s1 = rp_buf s /\ rp_buf_len s1 = rp_buf_len s /\ rp_cur s1 = rp_cur s /\ rp_flt s1 = rp_flt s /\
                   rp_fend (rp_r s1) = rp_fend (rp_r s) /\ rp_hdr (rp_r s1) = rp_hdr (rp_r s)).
      { subst s1. destruct (rp_offset (rp_r s) =? rp_fpos (rp_r s)) eqn:E.
        - apply N.eqb_eq in E. do 8 (split; [auto|]). reflexivity.
        - do 8 (split; [reflexivity|]). reflexivity. }
      destruct H1 as (Hp & Hf & Hl & Hb & Hbl & Hc & Hfl & Hfe & Hh).
      set (s2 := rp_io_set_r s1 (rp_r_set_offset (rp_r s1) (rp_fpos (rp_r s1)))) in H.
      rewrite (rr_bk_fread_eq s2 SIZEOF_chunk_header) in H by (subst s2; cbn; congruence).
      assert (Hp2 : rp_fpos (rp_r s2) = rp_offset (rp_r s)) by (subst s2; cbn; exact Hp).
      assert (Hf2 : rp_file s2 = rp_file s) by (subst s2; cbn; exact Hf).
      rewrite Hp2, Hf2 in H. change SIZEOF_chunk_header with 32 in H.
      set (hb := fm_sub (rp_offset (rp_r s)) 32 (rp_file s)) in *.
      destruct (fm_ch_complete hb) eqn:Ec; cbn [negb] in H.
      2:{ inversion H; subst s' rc. subst s2.
          split; [split; [cbn; congruence | intro Hx; exfalso; unfold rp_r_valid in Hx, Eval; cbn in Hx; rewrite Hh, Eval in Hx; discriminate]|].
          do 6 (split; [cbn; congruence|]). discriminate. }
      destruct (fm_ch_crc_ok hb) eqn:Ek; cbn [negb] in H.
      2:{ inversion H; subst s' rc. subst s2.
          split; [split; [cbn; congruence | intro Hx; exfalso; unfold rp_r_valid in Hx, Eval; cbn in Hx; rewrite Hh, Eval in Hx; discriminate]|].
          do 6 (split; [cbn; congruence|]). discriminate. }
      inversion H; subst s' rc. subst s2.
      assert (Hat : rr_hdr_at (rp_file s) (rp_offset (rp_r s)) (fm_ch_fields hb)).
      { unfold rr_hdr_at. fold hb. split; [apply rr_ch_complete_sub; exact Ec|]. split; [exact Ek|reflexivity]. }
      split; [split; [cbn; congruence | intros _; cbn [rp_io_set_r rp_file rp_r rp_r_set_hdr rp_r_set_fpos rp_r_set_offset rp_offset rp_hdr]; rewrite Hf, Hp; exact Hat]|].
      do 6 (split; [cbn; congruence|]). intros _. split; [exact Hp | exact Hat].
Qed.

Lemma rr_rd_header_valid : forall s, rp_r_valid (rp_r s) = true -> rp_raw_rd_header s = (s, 0).
Proof. intros s H. unfold rp_raw_rd_header. now rewrite H. Qed.

Lemma rr_invalidate_not_valid : forall r, rp_r_valid (rp_r_invalidate r) = false.
Proof. intro r. reflexivity. Qed.

(* the facts a successful payload read establishes, for the chunk at [off] whose header is [h] *)
Definition rr_payload_at (f : list N) (off : N) (h : fm_chunk_header) (buf_before buf_after : list N) : Prop :=
  let pl := fm_payload_length h in
  (pl = 0 -> buf_after = buf_before) /\
  (pl <> 0 ->
   let region := fm_sub (off + 32) (fm_disk_len pl) f in
   length region = N.to_nat (fm_disk_len pl) /\
   buf_after = region ++ skipn (N.to_nat (fm_disk_len pl)) buf_before /\
   crc32c (firstn (N.to_nat pl) region) = fm_dec_u32 (skipn (N.to_nat (fm_disk_len pl - 4)) region)).

(* jls_raw_rd_payload *)
Lemma rr_rd_payload_spec : forall s max s' rc, rr_inv s -> rp_raw_rd_payload s max = (s', rc) ->
  rr_inv s' /\ rp_file s' = rp_file s /\ rp_buf_len s' = rp_buf_len s /\ rp_cur s' = rp_cur s /\
  rp_flt s' = rp_flt s /\ rp_fend (rp_r s') = rp_fend (rp_r s) /\
  (rc = 0 -> exists h, rr_hdr_at (rp_file s) (rp_offset (rp_r s)) h /\
                       (rp_r_valid (rp_r s) = true -> h = rp_hdr (rp_r s)) /\
                       (fm_payload_length h <> 0 -> fm_disk_len (fm_payload_length h) <= max) /\
                       rr_payload_at (rp_file s) (rp_offset (rp_r s)) h (rp_buf s) (rp_buf s')) /\
  (rc = JLS_ERROR_TOO_BIG -> rp_buf s' = rp_buf s /\ rr_hdr_at (rp_file s) (rp_offset (rp_r s)) (rp_hdr (rp_r s')) /\
                             max < fm_disk_len (fm_payload_length (rp_hdr (rp_r s')))).
Proof.
  intros s max s' rc Hinv H. unfold rp_raw_rd_payload in H.
  assert (Hhd : (if rp_r_valid (rp_r s) then (s, 0) else rp_raw_rd_header s) = rp_raw_rd_header s).
  { destruct (rp_r_valid (rp_r s)) eqn:E; [symmetry; now apply rr_rd_header_valid | reflexivity]. }
  rewrite Hhd in H. clear Hhd.
  destruct (rp_raw_rd_header s) as [s1 rc1] eqn:E1.
  destruct (rr_rd_header_spec s s1 rc1 Hinv E1) as (Hinv1 & Hf1 & Hb1 & Hbl1 & Hc1 & Hfl1 & Hfe1 & Hok1).
  destruct (rc1 =? 0) eqn:Erc1; cbn [negb] in H.
  2:{ inversion H; subst s' rc. apply N.eqb_neq in Erc1.
      split; [exact Hinv1|]. do 5 (split; [assumption|]). split; [intro; congruence|].
      intro Hx. exfalso. clear - Hx Erc1 E1 Hinv. unfold rp_raw_rd_header in E1.
      destruct (rp_r_valid (rp_r s)); [inversion E1; subst; now apply Erc1|].
      destruct (rp_fend (rp_r s) <=? rp_fpos (rp_r s)); [inversion E1; subst; discriminate|].
      match type of E1 with (let '(_, _) := ?X in _) = _ => destruct X as [s3 b] end.
      destruct (negb (fm_ch_complete b)); [inversion E1; subst; discriminate|].
      destruct (negb (fm_ch_crc_ok b)); inversion E1; subst; [discriminate | now apply Erc1]. }
  apply N.eqb_eq in Erc1. destruct (Hok1 Erc1) as [Hoff1 Hat1].
  assert (Hval1 : rp_r_valid (rp_r s) = true -> rp_hdr (rp_r s1) = rp_hdr (rp_r s)).
  { intro Hv. rewrite (rr_rd_header_valid s Hv) in E1. inversion E1. reflexivity. }
  set (h := rp_hdr (rp_r s1)) in *. set (pl := fm_payload_length h) in *.
  destruct (pl =? 0) eqn:Epl.
  - apply N.eqb_eq in Epl. inversion H; subst s' rc.
    split; [split; [cbn; apply Hinv1 | intro Hx; discriminate Hx]|].
    do 5 (split; [cbn; assumption|]).
    split; [|discriminate].
    intros _. exists h. split; [exact Hat1|]. split; [exact Hval1|].
    split; [intro Hn; now elim Hn|].
    unfold rr_payload_at. fold pl. split; [intros _; cbn; exact Hb1 | intro Hn; now elim Hn].
  - apply N.eqb_neq in Epl.
    destruct (max <? fm_disk_len pl) eqn:Emax.
    + inversion H; subst s' rc.
      split; [exact Hinv1|]. do 5 (split; [assumption|]). split; [discriminate|].
      intros _. split; [exact Hb1 |]. split; [exact Hat1|]. apply N.ltb_lt in Emax. exact Emax.
    + apply N.ltb_ge in Emax.
      set (pos := rp_offset (rp_r s1) + SIZEOF_chunk_header) in H.
      set (s2 := if pos =? rp_fpos (rp_r s1) then s1 else rp_io_set_r s1 (rp_r_set_fpos (rp_r s1) pos)) in H.
      assert (H2 : rp_fpos (rp_r s2) = pos /\ rp_file s2 = rp_file s1 /\ rp_flen s2 = rp_flen s1 /\
                   rp_buf s2 = rp_buf s1 /\ rp_buf_len s2 = rp_buf_len s1 /\ rp_cur s2 = rp_cur s1 /\ rp_flt s2 = rp_flt s1 /\
                   rp_fend (rp_r s2) = rp_fend (rp_r s1) /\ rp_hdr (rp_r s2) = rp_hdr (rp_r s1) /\
                   rp_offset (rp_r s2) = rp_offset (rp_r s1)).
      { subst s2. destruct (pos =? rp_fpos (rp_r s1)) eqn:E.
        - apply N.eqb_eq in E. do 9 (split; [auto|]). reflexivity.
        - do 9 (split; [reflexivity|]). reflexivity. }
      destruct H2 as (Hp2 & Hf2 & Hl2 & Hb2 & Hbl2 & Hc2 & Hfl2 & Hfe2 & Hh2 & Ho2).
      destruct Hinv1 as [Hlen1 Hv1].
      assert (Hv2 : forall p b n, rr_inv (rp_io_set_buf (rp_io_set_r s2 (rp_r_set_fpos (rp_r s2) p)) b n)).
      { intros p b n. split; [cbn; congruence|]. unfold rp_r_valid.
        cbn [rp_io_set_buf rp_io_set_r rp_r rp_file rp_r_set_fpos rp_offset rp_hdr].
        rewrite Hf2, Ho2, Hh2. exact Hv1. }
      rewrite (rr_bk_fread_eq s2 (fm_disk_len pl)) in H by congruence.
      rewrite Hp2, Hf2, Hf1 in H. subst pos. rewrite Hoff1 in H. change SIZEOF_chunk_header with 32 in H.
      set (region := fm_sub (rp_offset (rp_r s) + 32) (fm_disk_len pl) (rp_file s)) in *.
      cbv zeta in H.
      match type of H with (if ?c then _ else _) = _ => destruct c eqn:Eshort end.
      * inversion H; subst s' rc.
        split; [apply Hv2|].
        do 5 (split; [cbn; congruence|]). split; discriminate.
      * cbn [rp_io_set_buf rp_io_set_r rp_buf rp_r rp_buf_len] in Eshort.
        apply N.ltb_ge in Eshort.
        assert (Hrl : length region = N.to_nat (fm_disk_len pl)).
        { pose proof (rr_sub_length_le (rp_offset (rp_r s) + 32) (fm_disk_len pl) (rp_file s)) as Hle. fold region in Hle.
          unfold rp_len in Eshort. lia. }
        match type of H with (if ?c then _ else _) = _ => destruct c eqn:Ecrc end.
        -- inversion H; subst s' rc.
           split; [apply Hv2|].
           do 5 (split; [cbn; congruence|]). split; discriminate.
        -- apply negb_false_iff, N.eqb_eq in Ecrc. inversion H; subst s' rc.
           split; [split; [cbn; congruence | intro Hx; discriminate Hx]|].
           do 5 (split; [cbn; congruence|]). split; [|discriminate].
           intros _. exists h. split; [exact Hat1|]. split; [exact Hval1|].
           split; [intros _; exact Emax|].
           unfold rr_payload_at. fold pl. split; [intro Hx; now elim Epl|]. intros _. fold region.
           split; [exact Hrl|]. split.
           ++ cbn. unfold rp_buf_put. rewrite rr_skip_eq, Hb2, Hb1. unfold rp_len. rewrite Hrl, N2Nat.id. reflexivity.
           ++ rewrite rr_take_eq, rr_skip_eq in Ecrc. exact Ecrc.
Qed.

Lemma rr_hdr_at_fun : forall f off h1 h2, rr_hdr_at f off h1 -> rr_hdr_at f off h2 -> h1 = h2.
Proof. intros f off h1 h2 (_ & _ & H1) (_ & _ & H2). congruence. Qed.

Lemma rr_inv_set_cur : forall s c, rr_inv s -> rr_inv (rp_io_set_cur s c).
Proof. intros s c H. exact H. Qed.

Lemma rr_pad_ge : forall pl, pl <> 0 -> pl + 4 <= fm_disk_len pl.
Proof. intros pl H. unfold fm_disk_len. destruct (pl =? 0) eqn:E; [apply N.eqb_eq in E; congruence|]. unfold RAW_CRC_SIZE. lia. Qed.

Lemma rr_firstn_firstn_skipn : forall (a b c : nat) (l : list N), (a <= b)%nat ->
  firstn a (firstn b (skipn c l)) = firstn a (skipn c l).
Proof. intros. rewrite firstn_firstn. now rewrite Nat.min_l. Qed.

Lemma rr_skipn_sub : forall (a b c : N) (l : list N), a <= b ->
  skipn (N.to_nat a) (fm_sub c b l) = fm_sub (c + a) (b - a) l.
Proof.
  intros a b c l H. unfold fm_sub. rewrite skipn_firstn_comm, <- skipn_add.
  f_equal; [lia|]. f_equal. lia.
Qed.

(* jls_core_rd_chunk, any return code: the file is never changed and the only fault it can raise is the
   stated modelling limit RpF_big (a payload that does not fit the initial 1 MiB buffer: the realloc path of
   the C is not modelled) *)
Lemma rr_rd_chunk_any : forall s s' rc, rr_inv s -> rp_rd_chunk s = (s', rc) ->
  rr_inv s' /\ rp_file s' = rp_file s /\ rp_fend (rp_r s') = rp_fend (rp_r s) /\
  (rp_flt s' = rp_flt s \/ (rp_flt s = 0 /\ rp_flt s' = RpF_big /\ rc = JLS_ERROR_NOT_ENOUGH_MEMORY /\
                            JLS_BUF_DEFAULT_SIZE < fm_disk_len (fm_payload_length (wm_ck_hdr (rp_cur s'))) /\
                            rr_hdr_at (rp_file s) (rp_offset (rp_r s)) (wm_ck_hdr (rp_cur s')))).
Proof.
  intros s s' rc Hinv H. unfold rp_rd_chunk in H.
  set (cur0 := {| wm_ck_offset := rp_offset (rp_r s); wm_ck_hdr := wm_hdr_set_tag (wm_ck_hdr (rp_cur s)) JLS_TAG_INVALID |}) in H.
  destruct (rp_raw_rd_header (rp_io_set_cur s cur0)) as [s1 rc1] eqn:E1.
  destruct (rr_rd_header_spec _ _ _ (rr_inv_set_cur s cur0 Hinv) E1) as (Hinv1 & Hf1 & Hb1 & Hbl1 & Hc1 & Hfl1 & Hfe1 & Hok1).
  cbn [rp_io_set_cur rp_file rp_buf rp_buf_len rp_cur rp_flt rp_r] in Hf1, Hb1, Hbl1, Hc1, Hfl1, Hfe1, Hok1.
  destruct (rc1 =? 0) eqn:Erc1; cbn [negb] in H.
  2:{ inversion H; subst s' rc. do 3 (split; [assumption|]). now left. }
  apply N.eqb_eq in Erc1. destruct (Hok1 Erc1) as [Hoff1 Hat1].
  set (s2 := rp_io_set_cur s1 {| wm_ck_offset := wm_ck_offset cur0; wm_ck_hdr := rp_hdr (rp_r s1) |}) in H.
  destruct (rp_raw_rd_payload s2 JLS_BUF_DEFAULT_SIZE) as [s3 rc2] eqn:E2.
  destruct (rr_rd_payload_spec _ _ _ _ (rr_inv_set_cur s1 _ Hinv1) E2) as (Hinv3 & Hf3 & Hbl3 & Hc3 & Hfl3 & Hfe3 & Hok3 & Hbig3).
  cbn [rp_io_set_cur rp_file rp_buf rp_buf_len rp_cur rp_flt rp_r] in Hf3, Hbl3, Hc3, Hfl3, Hfe3, Hok3, Hbig3.
  destruct (rc2 =? JLS_ERROR_TOO_BIG) eqn:Ebig.
  - apply N.eqb_eq in Ebig.
    match type of H with (if ?c then _ else _) = _ => destruct c end; inversion H; subst s' rc.
    + split; [exact Hinv3|]. split; [congruence|]. split; [congruence|]. left. congruence.
    + split; [exact Hinv3|]. split; [cbn; congruence|]. split; [cbn; congruence|].
      cbn [rp_io_fault rp_flt rp_cur]. destruct (rp_flt s3 =? 0) eqn:Ef.
      * right. apply N.eqb_eq in Ef. split; [congruence|]. split; [reflexivity|]. split; [reflexivity|].
        rewrite Hc3. cbn [wm_ck_hdr].
        destruct (Hbig3 Ebig) as (_ & Hat3 & Hlt3). rewrite Hoff1, Hf1 in Hat3.
        assert (Hx : rp_hdr (rp_r s3) = rp_hdr (rp_r s1)) by (eapply rr_hdr_at_fun; eassumption).
        rewrite <- Hx. split; [exact Hlt3|]. rewrite Hx. exact Hat1.
      * left. congruence.
  - destruct (rc2 =? 0) eqn:E0; inversion H; subst s' rc.
    + split; [split; [cbn; apply Hinv3 | cbn; apply Hinv3]|]. split; [cbn; congruence|]. split; [cbn; congruence|]. left. cbn. congruence.
    + split; [exact Hinv3|]. split; [congruence|]. split; [congruence|]. left. congruence.
Qed.

(* jls_core_rd_chunk returning 0: header CRC valid, payload CRC valid, and the payload handed to the caller
   is exactly the file's bytes [off + 32, off + 32 + payload_length) *)
Lemma rr_rd_chunk_ok : forall s s', rr_inv s -> rp_rd_chunk s = (s', 0) ->
  let off := rp_offset (rp_r s) in
  let h := wm_ck_hdr (rp_cur s') in
  let pl := fm_payload_length h in
  rp_file s' = rp_file s /\ rp_flt s' = rp_flt s /\
  wm_ck_offset (rp_cur s') = off /\
  rr_hdr_at (rp_file s) off h /\
  rp_payload s' = fm_sub (off + 32) pl (rp_file s) /\
  length (rp_payload s') = N.to_nat pl /\
  (pl <> 0 ->
   fm_disk_len pl <= JLS_BUF_DEFAULT_SIZE /\
   off + 32 + fm_disk_len pl <= N.of_nat (length (rp_file s)) /\
   crc32c (rp_payload s') = fm_dec (fm_sub (off + 32 + fm_disk_len pl - 4) 4 (rp_file s))).
Proof.
  intros s s' Hinv H off h pl. unfold rp_rd_chunk in H.
  set (cur0 := {| wm_ck_offset := rp_offset (rp_r s); wm_ck_hdr := wm_hdr_set_tag (wm_ck_hdr (rp_cur s)) JLS_TAG_INVALID |}) in H.
  destruct (rp_raw_rd_header (rp_io_set_cur s cur0)) as [s1 rc1] eqn:E1.
  destruct (rr_rd_header_spec _ _ _ (rr_inv_set_cur s cur0 Hinv) E1) as (Hinv1 & Hf1 & Hb1 & Hbl1 & Hc1 & Hfl1 & Hfe1 & Hok1).
  cbn [rp_io_set_cur rp_file rp_buf rp_buf_len rp_cur rp_flt rp_r] in Hf1, Hb1, Hbl1, Hc1, Hfl1, Hfe1, Hok1.
  destruct (rc1 =? 0) eqn:Erc1; cbn [negb] in H.
  2:{ inversion H; subst. discriminate. }
  apply N.eqb_eq in Erc1. destruct (Hok1 Erc1) as [Hoff1 Hat1].
  set (s2 := rp_io_set_cur s1 {| wm_ck_offset := wm_ck_offset cur0; wm_ck_hdr := rp_hdr (rp_r s1) |}) in H.
  destruct (rp_raw_rd_payload s2 JLS_BUF_DEFAULT_SIZE) as [s3 rc2] eqn:E2.
  destruct (rr_rd_payload_spec _ _ _ _ (rr_inv_set_cur s1 _ Hinv1) E2) as (Hinv3 & Hf3 & Hbl3 & Hc3 & Hfl3 & Hfe3 & Hok3 & Hbig3).
  cbn [rp_io_set_cur rp_file rp_buf rp_buf_len rp_cur rp_flt rp_r] in Hf3, Hbl3, Hc3, Hfl3, Hfe3, Hok3, Hbig3.
  destruct (rc2 =? JLS_ERROR_TOO_BIG) eqn:Ebig.
  { match type of H with (if ?c then _ else _) = _ => destruct c end; inversion H. }
  destruct (rc2 =? 0) eqn:E0; [|apply N.eqb_neq in E0; inversion H; subst; now elim E0].
  apply N.eqb_eq in E0. inversion H; subst s'. clear H.
  destruct (Hok3 E0) as (h' & Hat' & _ & Hmax & Hpay).
  rewrite Hoff1, Hf1 in Hat', Hpay.
  assert (Hh : h' = rp_hdr (rp_r s1)) by (eapply rr_hdr_at_fun; eassumption). subst h'.
  assert (Hcur : h = rp_hdr (rp_r s1)) by (subst h; cbn [rp_io_set_buf rp_cur]; rewrite Hc3; reflexivity).
  split; [cbn; congruence|]. split; [cbn; congruence|].
  split; [cbn [rp_io_set_buf rp_cur]; rewrite Hc3; reflexivity|].
  split; [rewrite Hcur; exact Hat1|].
  unfold rp_payload. cbn [rp_io_set_buf rp_buf rp_buf_len rp_cur]. rewrite Hc3. cbn [wm_ck_hdr].
  fold off in Hpay, Hat1. subst pl. rewrite Hcur. set (pl := fm_payload_length (rp_hdr (rp_r s1))) in *.
  destruct Hpay as [Hz Hnz]. fold pl in Hz, Hnz, Hmax.
  destruct (N.eq_dec pl 0) as [Ep|Ep].
  - rewrite Ep. rewrite rr_take_eq. unfold fm_sub. cbn [N.to_nat firstn length]. split; [reflexivity|]. split; [reflexivity|]. intro Hx; now elim Hx.
  - destruct (Hnz Ep) as (Hrl & Hbuf & Hcrc). clear Hz Hnz.
    pose proof (rr_pad_ge pl Ep) as Hge.
    set (region := fm_sub (off + 32) (fm_disk_len pl) (rp_file s)) in *.
    assert (Htake : rp_take pl (rp_buf s3) = fm_sub (off + 32) pl (rp_file s)).
    { rewrite rr_take_eq, Hbuf. rewrite firstn_app. replace (N.to_nat pl - length region)%nat with 0%nat by lia.
      cbn [firstn]. rewrite app_nil_r. unfold region, fm_sub. apply rr_firstn_firstn_skipn. lia. }
    assert (Hfull : off + 32 + fm_disk_len pl <= N.of_nat (length (rp_file s))).
    { apply rr_sub_full; [exact Hrl | lia]. }
    rewrite Htake. split; [reflexivity|]. split; [apply rr_sub_length; lia|].
    intros _. split; [now apply Hmax|]. split; [exact Hfull|].
    rewrite <- Htake, rr_take_eq, Hbuf, firstn_app. replace (N.to_nat pl - length region)%nat with 0%nat by lia.
    cbn [firstn]. rewrite app_nil_r. rewrite Hcrc. unfold fm_dec_u32.
    unfold region. rewrite rr_skipn_sub by lia. f_equal.
    replace (fm_disk_len pl - (fm_disk_len pl - 4)) with 4 by lia.
    replace (off + 32 + (fm_disk_len pl - 4)) with (off + 32 + fm_disk_len pl - 4) by lia.
    unfold fm_sub. rewrite firstn_firstn. reflexivity.
Qed.

(* ================================================================ link to the CRC algebra *)
Lemma rr_dec_le : forall l, bytes_ok l -> fm_dec l = le l.
Proof.
  induction l as [|b r IH]; intro H; [reflexivity|].
  inversion H as [|? ? Hb Hr]; subst. cbn [fm_dec le]. rewrite IH by exact Hr.
  rewrite N.shiftl_mul_pow2. change (2 ^ 8) with 256. rewrite (N.mul_comm (le r) 256).
  apply N.add_nocarry_lxor. apply N.bits_inj; intro m. rewrite N.land_spec, N.bits_0.
  destruct (N.lt_ge_cases m 8) as [Hm|Hm].
  - replace (256 * le r) with (le r * 2 ^ 8) by (change (2 ^ 8) with 256; lia).
    rewrite N.mul_pow2_bits_low by exact Hm. apply andb_false_r.
  - assert (Hbit : N.testbit b m = false).
    { destruct (N.eq_dec b 0) as [->|Hb0]; [apply N.bits_0|]. apply N.bits_above_log2.
      apply N.log2_lt_pow2; [lia|]. apply N.lt_le_trans with (2 ^ 8); [exact Hb|]. apply N.pow_le_mono_r; lia. }
    rewrite Hbit. reflexivity.
Qed.

Lemma rr_xor_bytes_app : forall a c b d, length a = length c ->
  xor_bytes (a ++ b) (c ++ d) = xor_bytes a c ++ xor_bytes b d.
Proof.
  induction a as [|x a IH]; intros [|y c] b d H; try discriminate; [reflexivity|].
  cbn [app xor_bytes]. f_equal. apply IH. now inversion H.
Qed.

Lemma rr_xor_bytes_firstn : forall n a b, firstn n (xor_bytes a b) = xor_bytes (firstn n a) (firstn n b).
Proof.
  induction n as [|n IH]; intros [|x a] [|y b]; try reflexivity.
  cbn [firstn xor_bytes]. f_equal. apply IH.
Qed.

Lemma rr_xor_bytes_skipn : forall n a b, length a = length b -> skipn n (xor_bytes a b) = xor_bytes (skipn n a) (skipn n b).
Proof.
  induction n as [|n IH]; intros [|x a] [|y b] H; try reflexivity; try discriminate.
  cbn [skipn xor_bytes]. apply IH. now inversion H.
Qed.

(* a protected region m ++ c (c = the 4 stored CRC bytes, valid) hit by an error e ++ esb of the
   guaranteed class no longer passes the check the reader makes *)
Lemma rr_crc_detect : forall m c e esb,
  bytes_ok m -> bytes_ok c -> length c = 4%nat -> fm_dec c = crc32c m ->
  length e = length m -> length esb = 4%nat -> bytes_ok e -> bytes_ok esb ->
  N.of_nat (8 * length (e ++ esb)) <= 2147483647 ->
  le (e ++ esb) <> 0 ->
  ((weight (le (e ++ esb)) <= 3)%nat \/
   (exists (v : N) (k : nat), 0 < v /\ v < 2 ^ 32 /\ (k <= 8 * length (e ++ esb))%nat /\
      le (e ++ esb) = N.shiftl v (N.of_nat k))) ->
  (fm_dec (xor_bytes c esb) =? crc32c (xor_bytes m e)) = false.
Proof.
  intros m c e esb Hm Hc Hc4 Hcrc He Hs4 Hbe Hbs Hn Hnz Hcls.
  pose proof (detects m e esb (eq_sym He) Hs4 Hbe Hbs Hn Hnz Hcls) as Hd. unfold check in Hd.
  rewrite crc32c_eq by (apply xor_bytes_ok; assumption).
  rewrite rr_dec_le by (apply xor_bytes_ok; assumption).
  rewrite le_xor_bytes by congruence.
  rewrite <- rr_dec_le by exact Hc. rewrite Hcrc, crc32c_eq by exact Hm.
  rewrite N.eqb_sym. exact Hd.
Qed.

(* the 32-byte headers (chunk header and file header have the CRC at the same place: bytes 28..31 over 0..27) *)
Lemma rr_hdr32_detect : forall hb e,
  length hb = 32%nat -> length e = 32%nat -> bytes_ok hb -> bytes_ok e ->
  fm_dec (firstn 4 (skipn 28 hb)) = crc32c (firstn 28 hb) ->
  le e <> 0 ->
  ((weight (le e) <= 3)%nat \/
   (exists (v : N) (k : nat), 0 < v /\ v < 2 ^ 32 /\ (k <= 256)%nat /\ le e = N.shiftl v (N.of_nat k))) ->
  (fm_dec (firstn 4 (skipn 28 (xor_bytes hb e))) =? crc32c (firstn 28 (xor_bytes hb e))) = false.
Proof.
  intros hb e Hl Hle Hb Hbe Hok Hnz Hcls.
  assert (Hsplit : e = firstn 28 e ++ skipn 28 e) by (symmetry; apply firstn_skipn).
  assert (Hl1 : length (firstn 28 e) = 28%nat) by (rewrite firstn_length; lia).
  assert (Hl2 : length (skipn 28 e) = 4%nat) by (rewrite skipn_length; lia).
  assert (Hl3 : length (skipn 28 hb) = 4%nat) by (rewrite skipn_length; lia).
  assert (Hlen : length (firstn 28 e ++ skipn 28 e) = 32%nat) by (rewrite <- Hsplit; exact Hle).
  rewrite rr_xor_bytes_skipn by congruence. rewrite !rr_xor_bytes_firstn.
  rewrite (firstn_all2 (n := 4) (skipn 28 hb)) by lia. rewrite (firstn_all2 (n := 4) (skipn 28 e)) by lia.
  apply rr_crc_detect.
  - now apply bytes_ok_firstn.
  - now apply bytes_ok_skipn.
  - exact Hl3.
  - rewrite <- Hok. rewrite firstn_all2 by lia. reflexivity.
  - rewrite !firstn_length. lia.
  - exact Hl2.
  - now apply bytes_ok_firstn.
  - now apply bytes_ok_skipn.
  - rewrite Hlen. cbn. lia.
  - rewrite <- Hsplit. exact Hnz.
  - rewrite Hlen, <- Hsplit. exact Hcls.
Qed.

Lemma rr_ch_crc_detect : forall hb e,
  length hb = 32%nat -> length e = 32%nat -> bytes_ok hb -> bytes_ok e ->
  fm_ch_crc_ok hb = true -> le e <> 0 ->
  ((weight (le e) <= 3)%nat \/
   (exists (v : N) (k : nat), 0 < v /\ v < 2 ^ 32 /\ (k <= 256)%nat /\ le e = N.shiftl v (N.of_nat k))) ->
  fm_ch_crc_ok (xor_bytes hb e) = false.
Proof.
  intros hb e Hl Hle Hb Hbe Hok Hnz Hcls. unfold fm_ch_crc_ok, fm_u32_at, fm_dec_u32 in *.
  change (N.to_nat OFFSETOF_chunk_crc32) with 28%nat in *.
  apply N.eqb_eq in Hok. now apply rr_hdr32_detect.
Qed.

Lemma rr_fh_crc_detect : forall hb e,
  length hb = 32%nat -> length e = 32%nat -> bytes_ok hb -> bytes_ok e ->
  fm_fh_crc_ok hb = true -> le e <> 0 ->
  ((weight (le e) <= 3)%nat \/
   (exists (v : N) (k : nat), 0 < v /\ v < 2 ^ 32 /\ (k <= 256)%nat /\ le e = N.shiftl v (N.of_nat k))) ->
  fm_fh_crc_ok (xor_bytes hb e) = false.
Proof.
  intros hb e Hl Hle Hb Hbe Hok Hnz Hcls. unfold fm_fh_crc_ok, fm_u32_at, fm_dec_u32 in *.
  change (N.to_nat OFFSETOF_file_header_crc32) with 28%nat in *.
  apply N.eqb_eq in Hok. now apply rr_hdr32_detect.
Qed.

(* ================================================================ closed forms of the return codes *)
Lemma rr_rd_header_rc : forall s, rp_flen s = rp_len (rp_file s) -> rp_r_valid (rp_r s) = false ->
  snd (rp_raw_rd_header s) =
  if rp_fend (rp_r s) <=? rp_fpos (rp_r s) then JLS_ERROR_EMPTY
  else let hb := fm_sub (rp_offset (rp_r s)) 32 (rp_file s) in
       if negb (fm_ch_complete hb) then JLS_ERROR_EMPTY
       else if negb (fm_ch_crc_ok hb) then JLS_ERROR_MESSAGE_INTEGRITY else 0.
Proof.
  intros s Hlen Hv. unfold rp_raw_rd_header. rewrite Hv.
  destruct (rp_fend (rp_r s) <=? rp_fpos (rp_r s)); [reflexivity|].
  set (s1 := if rp_offset (rp_r s) =? rp_fpos (rp_r s) then s else rp_io_set_r s (rp_r_set_fpos (rp_r s) (rp_offset (rp_r s)))).
  assert (H1 : rp_fpos (rp_r s1) = rp_offset (rp_r s) /\ rp_file s1 = rp_file s /\ rp_flen s1 = rp_flen s).
  { subst s1. destruct (rp_offset (rp_r s) =? rp_fpos (rp_r s)) eqn:E.
    - apply N.eqb_eq in E. auto.
    - repeat split; reflexivity. }
  destruct H1 as (Hp & Hf & Hl).
  set (s2 := rp_io_set_r s1 (rp_r_set_offset (rp_r s1) (rp_fpos (rp_r s1)))).
  rewrite (rr_bk_fread_eq s2 SIZEOF_chunk_header) by (subst s2; cbn; congruence).
  assert (Hp2 : rp_fpos (rp_r s2) = rp_offset (rp_r s)) by (subst s2; cbn; exact Hp).
  assert (Hf2 : rp_file s2 = rp_file s) by (subst s2; cbn; exact Hf).
  rewrite Hp2, Hf2. change SIZEOF_chunk_header with 32. cbv zeta.
  destruct (negb (fm_ch_complete (fm_sub (rp_offset (rp_r s)) 32 (rp_file s)))); [reflexivity|].
  destruct (negb (fm_ch_crc_ok (fm_sub (rp_offset (rp_r s)) 32 (rp_file s)))); reflexivity.
Qed.

Lemma rr_rd_payload_closed : forall s max, rp_flen s = rp_len (rp_file s) -> rp_r_valid (rp_r s) = true ->
  let pl := fm_payload_length (rp_hdr (rp_r s)) in
  let dl := fm_disk_len pl in
  pl <> 0 ->
  snd (rp_raw_rd_payload s max) =
    (if max <? dl then JLS_ERROR_TOO_BIG
     else let region := fm_sub (rp_offset (rp_r s) + 32) dl (rp_file s) in
          if rp_len region <? dl then JLS_ERROR_IO
          else if negb (crc32c (firstn (N.to_nat pl) region) =? fm_dec (firstn 4 (skipn (N.to_nat (dl - 4)) region)))
               then JLS_ERROR_MESSAGE_INTEGRITY else 0) /\
  rp_buf (fst (rp_raw_rd_payload s max)) =
    (if max <? dl then rp_buf s
     else let region := fm_sub (rp_offset (rp_r s) + 32) dl (rp_file s) in region ++ skipn (length region) (rp_buf s)).
Proof.
  intros s max Hlen Hv pl dl Hpl. unfold rp_raw_rd_payload. rewrite Hv. cbn [N.eqb negb].
  fold pl. destruct (pl =? 0) eqn:E0; [apply N.eqb_eq in E0; congruence|]. fold dl.
  destruct (max <? dl); [split; reflexivity|].
  set (pos := rp_offset (rp_r s) + SIZEOF_chunk_header).
  set (s2 := if pos =? rp_fpos (rp_r s) then s else rp_io_set_r s (rp_r_set_fpos (rp_r s) pos)).
  assert (H2 : rp_fpos (rp_r s2) = pos /\ rp_file s2 = rp_file s /\ rp_flen s2 = rp_flen s /\ rp_buf s2 = rp_buf s).
  { subst s2. destruct (pos =? rp_fpos (rp_r s)) eqn:E.
    - apply N.eqb_eq in E. auto.
    - repeat split; reflexivity. }
  destruct H2 as (Hp2 & Hf2 & Hl2 & Hb2).
  rewrite (rr_bk_fread_eq s2 dl) by congruence. rewrite Hp2, Hf2. subst pos. change SIZEOF_chunk_header with 32.
  cbv zeta. set (region := fm_sub (rp_offset (rp_r s) + 32) dl (rp_file s)).
  cbn [rp_io_set_buf rp_io_set_r rp_buf rp_buf_len rp_r].
  assert (Hput : rp_buf_put (rp_buf s2) region = region ++ skipn (length region) (rp_buf s)).
  { unfold rp_buf_put. rewrite rr_skip_eq, Hb2. unfold rp_len. now rewrite Nat2N.id. }
  rewrite rr_take_eq, rr_skip_eq. unfold fm_dec_u32.
  destruct (rp_len region <? dl); [split; [reflexivity | cbn; exact Hput]|].
  destruct (negb (crc32c (firstn (N.to_nat pl) region) =? fm_dec (firstn 4 (skipn (N.to_nat (dl - 4)) region))));
    (split; [reflexivity | cbn; exact Hput]).
Qed.

Lemma rr_sub_app3 : forall (a : N) (pre new post : list N), length pre = N.to_nat a ->
  fm_sub a (N.of_nat (length new)) (pre ++ new ++ post) = new.
Proof.
  intros a pre new post H. unfold fm_sub. rewrite skipn_app, skipn_all2 by lia.
  replace (N.to_nat a - length pre)%nat with 0%nat by lia. cbn [app skipn].
  rewrite Nat2N.id. now apply firstn_app_exact.
Qed.

(* ================================================================ a corrupted region is never accepted *)
(* chunk header *)
Theorem rr_header_corruption_detected : forall (s t : rp_io) (e : list N),
  rp_flen s = rp_len (rp_file s) -> rp_flen t = rp_len (rp_file t) ->
  rp_r t = rp_r s -> rp_r_valid (rp_r s) = false ->
  bytes_ok (rp_file s) -> bytes_ok e -> length e = 32%nat ->
  rp_file t = firstn (N.to_nat (rp_offset (rp_r s))) (rp_file s)
              ++ xor_bytes (firstn 32 (skipn (N.to_nat (rp_offset (rp_r s))) (rp_file s))) e
              ++ skipn (N.to_nat (rp_offset (rp_r s)) + 32) (rp_file s) ->
  le e <> 0 ->
  ((weight (le e) <= 3)%nat \/
   (exists (v : N) (k : nat), 0 < v /\ v < 2 ^ 32 /\ (k <= 256)%nat /\ le e = N.shiftl v (N.of_nat k))) ->
  snd (rp_raw_rd_header s) = 0 ->
  snd (rp_raw_rd_header t) = JLS_ERROR_MESSAGE_INTEGRITY.
Proof.
  intros s t e Hls Hlt Hr Hv Hbf Hbe Hle Hft Hnz Hcls Hok.
  rewrite rr_rd_header_rc in Hok by assumption.
  rewrite rr_rd_header_rc by (try rewrite Hr; assumption). rewrite Hr.
  destruct (rp_fend (rp_r s) <=? rp_fpos (rp_r s)); [discriminate|]. cbv zeta in *.
  set (off := rp_offset (rp_r s)) in *. set (hb := fm_sub off 32 (rp_file s)) in *.
  destruct (fm_ch_complete hb) eqn:Ec; [|discriminate]. cbn [negb] in Hok.
  destruct (fm_ch_crc_ok hb) eqn:Ek; [|discriminate]. clear Hok.
  assert (Hl32 : length hb = 32%nat) by (apply rr_ch_complete_sub; exact Ec).
  assert (Hfull : off + 32 <= N.of_nat (length (rp_file s))) by (apply rr_sub_full; [exact Hl32|lia]).
  assert (Hhb' : fm_sub off 32 (rp_file t) = xor_bytes hb e).
  { assert (Hhb : firstn 32 (skipn (N.to_nat off) (rp_file s)) = hb) by reflexivity.
    rewrite Hft, Hhb.
    assert (Hxl : length (xor_bytes hb e) = 32%nat) by (rewrite xor_bytes_length; congruence).
    replace (fm_sub off 32) with (fm_sub off (N.of_nat (length (xor_bytes hb e)))) by (rewrite Hxl; reflexivity).
    apply rr_sub_app3. rewrite firstn_length. lia. }
  rewrite Hhb'.
  assert (Hc' : fm_ch_complete (xor_bytes hb e) = true).
  { unfold fm_ch_complete. apply fm_has_true. rewrite xor_bytes_length by congruence. rewrite Hl32. reflexivity. }
  rewrite Hc'. cbn [negb].
  rewrite (rr_ch_crc_detect hb e Hl32 Hle (rr_bytes_ok_sub _ _ _ Hbf) Hbe Ek Hnz Hcls). reflexivity.
Qed.

Lemma rr_sub_app5 : forall (a : N) (pre b c d post : list N), length pre = N.to_nat a ->
  fm_sub a (N.of_nat (length b + length c + length d)) (pre ++ b ++ c ++ d ++ post) = b ++ c ++ d.
Proof.
  intros a pre b c d post H.
  replace (pre ++ b ++ c ++ d ++ post) with (pre ++ (b ++ c ++ d) ++ post) by (now rewrite <- !app_assoc).
  replace (length b + length c + length d)%nat with (length (b ++ c ++ d)) by (rewrite !app_length; lia).
  now apply rr_sub_app3.
Qed.

(* the parts of an intact payload region *)
Lemma rr_region_parts : forall f p pl dl, pl + 4 <= dl -> p + dl <= N.of_nat (length f) ->
  let region := fm_sub p dl f in
  firstn (N.to_nat pl) region = fm_sub p pl f /\
  firstn 4 (skipn (N.to_nat (dl - 4)) region) = fm_sub (p + dl - 4) 4 f /\
  length (fm_sub p pl f) = N.to_nat pl /\ length (fm_sub (p + dl - 4) 4 f) = 4%nat.
Proof.
  intros f p pl dl H1 H2 region. subst region. split; [|split; [|split]].
  - unfold fm_sub. apply rr_firstn_firstn_skipn. lia.
  - rewrite rr_skipn_sub by lia. replace (dl - (dl - 4)) with 4 by lia.
    replace (p + (dl - 4)) with (p + dl - 4) by lia. unfold fm_sub. rewrite firstn_firstn. reflexivity.
  - apply rr_sub_length. lia.
  - change 4%nat with (N.to_nat 4). apply rr_sub_length. lia.
Qed.

(* payload + its CRC (the pad bytes between them may change arbitrarily as well) *)
Theorem rr_payload_corruption_detected : forall (s t : rp_io) (max : N) (e esb pad' : list N),
  rp_flen s = rp_len (rp_file s) -> rp_flen t = rp_len (rp_file t) ->
  rp_r t = rp_r s -> rp_r_valid (rp_r s) = true ->
  let pl := fm_payload_length (rp_hdr (rp_r s)) in
  let dl := fm_disk_len pl in
  let p := rp_offset (rp_r s) + 32 in
  pl <> 0 ->
  bytes_ok (rp_file s) -> bytes_ok e -> bytes_ok esb ->
  length e = N.to_nat pl -> length esb = 4%nat -> length pad' = N.to_nat (dl - pl - 4) ->
  rp_file t = firstn (N.to_nat p) (rp_file s)
              ++ xor_bytes (firstn (N.to_nat pl) (skipn (N.to_nat p) (rp_file s))) e
              ++ pad'
              ++ xor_bytes (firstn 4 (skipn (N.to_nat (p + dl - 4)) (rp_file s))) esb
              ++ skipn (N.to_nat (p + dl)) (rp_file s) ->
  N.of_nat (8 * length (e ++ esb)) <= 2147483647 ->
  le (e ++ esb) <> 0 ->
  ((weight (le (e ++ esb)) <= 3)%nat \/
   (exists (v : N) (k : nat), 0 < v /\ v < 2 ^ 32 /\ (k <= 8 * length (e ++ esb))%nat /\
      le (e ++ esb) = N.shiftl v (N.of_nat k))) ->
  snd (rp_raw_rd_payload s max) = 0 ->
  snd (rp_raw_rd_payload t max) = JLS_ERROR_MESSAGE_INTEGRITY.
Proof.
  intros s t max e esb pad' Hls Hlt Hr Hv pl dl p Hpl Hbf Hbe Hbs Hle Hl4 Hlp Hft Hn Hnz Hcls Hok.
  destruct (rr_rd_payload_closed s max Hls Hv Hpl) as [Hcs _]. fold pl dl p in Hcs.
  assert (Hvt : rp_r_valid (rp_r t) = true) by (rewrite Hr; exact Hv).
  assert (Hplt : fm_payload_length (rp_hdr (rp_r t)) <> 0) by (rewrite Hr; exact Hpl).
  destruct (rr_rd_payload_closed t max Hlt Hvt Hplt) as [Hct _]. rewrite Hr in Hct. fold pl dl p in Hct.
  destruct (max <? dl).
  { rewrite Hok in Hcs. discriminate. }
  cbv zeta in Hcs, Hct.
  rewrite Hok in Hcs. rewrite Hct. clear Hct.
  set (region := fm_sub p dl (rp_file s)) in *.
  destruct (rp_len region <? dl) eqn:Eshort; [discriminate|]. apply N.ltb_ge in Eshort.
  pose proof (rr_pad_ge pl Hpl) as Hge. fold dl in Hge.
  assert (Hrl : length region = N.to_nat dl).
  { pose proof (rr_sub_length_le p dl (rp_file s)) as Hx. fold region in Hx. unfold rp_len in Eshort. lia. }
  assert (Hfull : p + dl <= N.of_nat (length (rp_file s))) by (apply rr_sub_full; [exact Hrl|lia]).
  destruct (rr_region_parts (rp_file s) p pl dl Hge Hfull) as (Hpay & Hcrc4 & Hpayl & Hcrcl). fold region in Hpay, Hcrc4.
  rewrite Hpay, Hcrc4 in Hcs.
  destruct (crc32c (fm_sub p pl (rp_file s)) =? fm_dec (fm_sub (p + dl - 4) 4 (rp_file s))) eqn:Eok; [|discriminate].
  apply N.eqb_eq in Eok. clear Hcs.
  (* the corrupted region *)
  set (B := xor_bytes (fm_sub p pl (rp_file s)) e).
  set (D := xor_bytes (fm_sub (p + dl - 4) 4 (rp_file s)) esb).
  assert (HlB : length B = N.to_nat pl) by (subst B; rewrite xor_bytes_length; congruence).
  assert (HlD : length D = 4%nat) by (subst D; rewrite xor_bytes_length; congruence).
  assert (Hregion' : fm_sub p dl (rp_file t) = B ++ pad' ++ D).
  { rewrite Hft. fold (fm_sub p pl (rp_file s)). fold (fm_sub (p + dl - 4) 4 (rp_file s)). fold B. fold D.
    replace dl with (N.of_nat (length B + length pad' + length D)) at 1 by lia.
    apply rr_sub_app5. rewrite firstn_length. lia. }
  rewrite Hregion'.
  assert (Hrl' : rp_len (B ++ pad' ++ D) = dl) by (unfold rp_len; rewrite !app_length; lia).
  rewrite Hrl', N.ltb_irrefl.
  rewrite firstn_app_exact by exact HlB.
  replace (N.to_nat (dl - 4)) with (length (B ++ pad')) by (rewrite app_length; lia).
  rewrite app_assoc, skipn_app_exact by reflexivity. rewrite firstn_all2 by lia.
  subst B D. rewrite N.eqb_sym.
  rewrite (rr_crc_detect (fm_sub p pl (rp_file s)) (fm_sub (p + dl - 4) 4 (rp_file s)) e esb); try assumption; try reflexivity.
  - now apply rr_bytes_ok_sub.
  - now apply rr_bytes_ok_sub.
  - symmetry. exact Eok.
  - congruence.
Qed.

(* the pad bytes are outside every CRC, and nothing the reader returns depends on them: same return code,
   same payload bytes in the buffer *)
Theorem rr_pad_irrelevant : forall (s t : rp_io) (max : N) (pad' : list N),
  rp_flen s = rp_len (rp_file s) -> rp_flen t = rp_len (rp_file t) ->
  rp_r t = rp_r s -> rp_buf t = rp_buf s -> rp_r_valid (rp_r s) = true ->
  let pl := fm_payload_length (rp_hdr (rp_r s)) in
  let dl := fm_disk_len pl in
  let p := rp_offset (rp_r s) + 32 in
  pl <> 0 -> p + dl <= rp_len (rp_file s) ->
  length pad' = N.to_nat (dl - pl - 4) ->
  rp_file t = firstn (N.to_nat (p + pl)) (rp_file s) ++ pad' ++ skipn (N.to_nat (p + dl - 4)) (rp_file s) ->
  snd (rp_raw_rd_payload t max) = snd (rp_raw_rd_payload s max) /\
  firstn (N.to_nat pl) (rp_buf (fst (rp_raw_rd_payload t max))) = firstn (N.to_nat pl) (rp_buf (fst (rp_raw_rd_payload s max))).
Proof.
  intros s t max pad' Hls Hlt Hr Hb Hv pl dl p Hpl Hfull Hlp Hft.
  destruct (rr_rd_payload_closed s max Hls Hv Hpl) as [Hcs Hbs]. fold pl dl p in Hcs, Hbs.
  assert (Hvt : rp_r_valid (rp_r t) = true) by (rewrite Hr; exact Hv).
  assert (Hplt : fm_payload_length (rp_hdr (rp_r t)) <> 0) by (rewrite Hr; exact Hpl).
  destruct (rr_rd_payload_closed t max Hlt Hvt Hplt) as [Hct Hbt]. rewrite Hr in Hct, Hbt. rewrite Hb in Hbt. fold pl dl p in Hct, Hbt.
  destruct (max <? dl).
  { split; congruence. }
  cbv zeta in Hcs, Hct, Hbs, Hbt.
  rewrite Hcs, Hct, Hbs, Hbt. clear Hcs Hct Hbs Hbt.
  pose proof (rr_pad_ge pl Hpl) as Hge. fold dl in Hge. unfold rp_len in Hfull.
  set (region := fm_sub p dl (rp_file s)).
  assert (Hrl : length region = N.to_nat dl) by (apply rr_sub_length; exact Hfull).
  destruct (rr_region_parts (rp_file s) p pl dl Hge Hfull) as (Hpay & Hcrc4 & Hpayl & Hcrcl). fold region in Hpay, Hcrc4.
  set (B := fm_sub p pl (rp_file s)) in *. set (D := fm_sub (p + dl - 4) 4 (rp_file s)) in *.
  assert (Hregion' : fm_sub p dl (rp_file t) = B ++ pad' ++ D).
  { rewrite Hft.
    replace (firstn (N.to_nat (p + pl)) (rp_file s)) with (firstn (N.to_nat p) (rp_file s) ++ B).
    2:{ subst B. unfold fm_sub. replace (N.to_nat (p + pl)) with (N.to_nat p + N.to_nat pl)%nat by lia.
        symmetry. apply firstn_add_app. }
    replace (skipn (N.to_nat (p + dl - 4)) (rp_file s)) with (D ++ skipn (N.to_nat (p + dl)) (rp_file s)).
    2:{ subst D. unfold fm_sub. replace (N.to_nat (p + dl)) with (N.to_nat (p + dl - 4) + 4)%nat by lia.
        rewrite skipn_add. apply firstn_skipn. }
    rewrite <- !app_assoc.
    replace dl with (N.of_nat (length B + length pad' + length D)) at 1 by lia.
    apply rr_sub_app5. rewrite firstn_length. lia. }
  rewrite Hregion'.
  assert (Hrl' : rp_len (B ++ pad' ++ D) = dl) by (unfold rp_len; rewrite !app_length; lia).
  assert (Hrl2 : rp_len region = dl) by (unfold rp_len; lia).
  rewrite Hrl', Hrl2.
  rewrite (firstn_app_exact _ B (pad' ++ D)) by exact Hpayl.
  replace (N.to_nat (dl - 4)) with (length (B ++ pad')) at 1 by (rewrite app_length; lia).
  rewrite (app_assoc B pad' D), skipn_app_exact by reflexivity. rewrite (firstn_all2 (n := 4) D) by lia.
  rewrite Hpay, Hcrc4. split; [reflexivity|].
  rewrite <- !app_assoc, firstn_app_exact by exact Hpayl.
  rewrite firstn_app. replace (N.to_nat pl - length region)%nat with 0%nat by lia. cbn [firstn]. rewrite app_nil_r.
  symmetry. exact Hpay.
Qed.

(* ================================================================ the file header *)
(* read_verify returning 0: the 32 bytes exist, identification and version are accepted, the CRC-32C over the
   first 28 bytes equals the stored field, the length field is not 0; nothing but these bytes decides *)
Lemma rr_read_verify_ok : forall s s' ver, rp_flen s = rp_len (rp_file s) -> rp_read_verify s = (s', 0, ver) ->
  let b := fm_sub (rp_fpos (rp_r s)) 32 (rp_file s) in
  length b = 32%nat /\
  fm_u32_at 28 b = crc32c (firstn 28 b) /\
  firstn 16 b = JLS_HEADER_IDENTIFICATION /\
  fm_version_major (fm_u32_at 24 b) <= fm_version_major JLS_FORMAT_VERSION_U32 /\
  ver = fm_u32_at 24 b /\
  fm_u64_at 16 b <> 0 /\
  rp_file s' = rp_file s /\ rp_flt s' = rp_flt s /\ rp_fend (rp_r s') = rp_len (rp_file s).
Proof.
  intros s s' ver Hlen H b. unfold rp_read_verify in H.
  rewrite (rr_bk_fread_eq s SIZEOF_file_header Hlen) in H. change SIZEOF_file_header with 32 in H. fold b in H.
  cbv zeta in H. change OFFSETOF_file_header_length with 16 in H. change OFFSETOF_file_header_version with 24 in H.
  destruct (fm_u64_at 16 b =? 0) eqn:El; [inversion H|]. apply N.eqb_neq in El.
  destruct (rp_fh_ok b) eqn:Eok; [|inversion H].
  unfold rp_fh_ok in Eok. apply andb_true_iff in Eok. destruct Eok as [Eok Ever].
  apply andb_true_iff in Eok. destruct Eok as [Eok Eid]. apply andb_true_iff in Eok. destruct Eok as [Ecomp Ecrc].
  apply N.leb_le in Ever. change OFFSETOF_file_header_version with 24 in Ever.
  assert (Hl32 : length b = 32%nat).
  { unfold fm_fh_complete in Ecomp. apply fm_has_true in Ecomp. change (N.to_nat SIZEOF_file_header) with 32%nat in Ecomp.
    pose proof (rr_sub_length_le (rp_fpos (rp_r s)) 32 (rp_file s)) as Hx. fold b in Hx. change (N.to_nat 32) with 32%nat in Hx. lia. }
  assert (Hshort : (rp_len b <? 24) = false) by (apply N.ltb_ge; unfold rp_len; lia).
  rewrite Hshort in H. inversion H; subst s' ver. clear H.
  split; [exact Hl32|]. split; [apply N.eqb_eq; exact Ecrc|].
  split; [apply fm_list_eqb_eq; exact Eid|]. split; [exact Ever|]. split; [reflexivity|]. split; [exact El|].
  cbn. rewrite Hlen. repeat split; reflexivity.
Qed.

(* file header corrupted by an error of the guaranteed class: read_verify does not return 0, and the reader
   keeps fend as it was (for a freshly opened instance: 0, so that every later chunk read returns EMPTY) *)
Theorem rr_file_header_corruption_detected : forall (s t : rp_io) (e : list N),
  rp_flen s = rp_len (rp_file s) -> rp_flen t = rp_len (rp_file t) ->
  rp_r t = rp_r s -> rp_fpos (rp_r s) = 0 ->
  bytes_ok (rp_file s) -> bytes_ok e -> length e = 32%nat ->
  rp_file t = xor_bytes (firstn 32 (rp_file s)) e ++ skipn 32 (rp_file s) ->
  le e <> 0 ->
  ((weight (le e) <= 3)%nat \/
   (exists (v : N) (k : nat), 0 < v /\ v < 2 ^ 32 /\ (k <= 256)%nat /\ le e = N.shiftl v (N.of_nat k))) ->
  snd (fst (rp_read_verify s)) = 0 ->
  (snd (fst (rp_read_verify t)) = JLS_ERROR_TRUNCATED \/ snd (fst (rp_read_verify t)) = JLS_ERROR_UNSUPPORTED_FILE) /\
  snd (rp_read_verify t) = 0 /\
  rp_fend (rp_r (fst (fst (rp_read_verify t)))) = rp_fend (rp_r t).
Proof.
  intros s t e Hls Hlt Hr Hp0 Hbf Hbe Hle Hft Hnz Hcls Hok.
  destruct (rp_read_verify s) as [[s' rc] ver] eqn:Es. cbn [fst snd] in Hok. subst rc.
  destruct (rr_read_verify_ok s s' ver Hls Es) as (Hl32 & Hcrc & _). rewrite Hp0 in Hl32, Hcrc.
  set (b := fm_sub 0 32 (rp_file s)) in *.
  assert (Hb : firstn 32 (rp_file s) = b) by reflexivity.
  assert (Hxl : length (xor_bytes b e) = 32%nat) by (rewrite xor_bytes_length; congruence).
  assert (Hb' : fm_sub 0 32 (rp_file t) = xor_bytes b e).
  { rewrite Hft, Hb. unfold fm_sub. cbn [N.to_nat skipn]. apply firstn_app_exact. exact Hxl. }
  unfold rp_read_verify. rewrite (rr_bk_fread_eq t SIZEOF_file_header Hlt). change SIZEOF_file_header with 32.
  rewrite Hr, Hp0, Hb'. cbv zeta.
  assert (Hnok : rp_fh_ok (xor_bytes b e) = false).
  { unfold rp_fh_ok.
    assert (Hk : fm_fh_crc_ok (xor_bytes b e) = false).
    { apply rr_fh_crc_detect; try assumption.
      - now apply rr_bytes_ok_sub.
      - unfold fm_fh_crc_ok. apply N.eqb_eq. exact Hcrc. }
    rewrite Hk, andb_false_r. reflexivity. }
  rewrite Hnok.
  assert (Hshort : (rp_len (xor_bytes b e) <? OFFSETOF_file_header_version) = false).
  { apply N.ltb_ge. unfold rp_len. rewrite Hxl. cbv. discriminate. }
  rewrite Hshort. cbn [fst snd].
  split; [destruct (fm_u64_at OFFSETOF_file_header_length (xor_bytes b e) =? 0); [left|right]; reflexivity|].
  split; [reflexivity|]. reflexivity.
Qed.

(* ================================================================ a whole chunk read *)
Lemma rr_sub_prefix : forall (a n : N) (f post : list N), a + n <= N.of_nat (length f) ->
  fm_sub a n (firstn (N.to_nat (a + n)) f ++ post) = fm_sub a n f.
Proof.
  intros a n f post H. unfold fm_sub. rewrite skipn_app, firstn_app.
  rewrite skipn_length, !firstn_length, Nat.min_l by lia.
  replace (N.to_nat n - (N.to_nat (a + n) - N.to_nat a))%nat with 0%nat by lia. cbn [firstn]. rewrite app_nil_r.
  rewrite skipn_firstn_comm. rewrite firstn_firstn. f_equal. lia.
Qed.

(* "a corrupted chunk is never silently accepted": if jls_core_rd_chunk accepts the chunk at the current
   offset of file f, it rejects it in every file f' that differs from f only inside the chunk's header, or only
   inside its payload + CRC (+ pad), by an error of the guaranteed class *)
Theorem rr_chunk_corruption_not_accepted : forall (s t s' : rp_io),
  rr_inv s -> rr_inv t -> rp_r t = rp_r s -> bytes_ok (rp_file s) ->
  rp_rd_chunk s = (s', 0) ->
  let off := rp_offset (rp_r s) in
  let pl := fm_payload_length (wm_ck_hdr (rp_cur s')) in
  let dl := fm_disk_len pl in
  let p := off + 32 in
  ((exists e, bytes_ok e /\ length e = 32%nat /\ le e <> 0 /\
      ((weight (le e) <= 3)%nat \/
       (exists (v : N) (k : nat), 0 < v /\ v < 2 ^ 32 /\ (k <= 256)%nat /\ le e = N.shiftl v (N.of_nat k))) /\
      rp_file t = firstn (N.to_nat off) (rp_file s)
                  ++ xor_bytes (firstn 32 (skipn (N.to_nat off) (rp_file s))) e
                  ++ skipn (N.to_nat off + 32) (rp_file s))
   \/
   (exists e esb pad', pl <> 0 /\ bytes_ok e /\ bytes_ok esb /\
      length e = N.to_nat pl /\ length esb = 4%nat /\ length pad' = N.to_nat (dl - pl - 4) /\
      N.of_nat (8 * length (e ++ esb)) <= 2147483647 /\ le (e ++ esb) <> 0 /\
      ((weight (le (e ++ esb)) <= 3)%nat \/
       (exists (v : N) (k : nat), 0 < v /\ v < 2 ^ 32 /\ (k <= 8 * length (e ++ esb))%nat /\
          le (e ++ esb) = N.shiftl v (N.of_nat k))) /\
      rp_file t = firstn (N.to_nat p) (rp_file s)
                  ++ xor_bytes (firstn (N.to_nat pl) (skipn (N.to_nat p) (rp_file s))) e
                  ++ pad'
                  ++ xor_bytes (firstn 4 (skipn (N.to_nat (p + dl - 4)) (rp_file s))) esb
                  ++ skipn (N.to_nat (p + dl)) (rp_file s))) ->
  snd (rp_rd_chunk t) <> 0.
Proof.
  intros s t s' His Hit Hr Hbf Hs off pl dl p Hcor Hacc.
  destruct (rp_rd_chunk t) as [t' rc'] eqn:Et. cbn [snd] in Hacc. subst rc'.
  pose proof (rr_rd_chunk_ok s s' His Hs) as Ks. pose proof (rr_rd_chunk_ok t t' Hit Et) as Kt.
  cbv zeta in Ks, Kt. rewrite Hr in Kt. fold off in Ks, Kt. fold pl in Ks.
  destruct Ks as (_ & _ & _ & Hats & Hpays & Hpls & Hcs).
  destruct Kt as (_ & _ & _ & Hatt & Hpayt & Hplt & Hct).
  destruct Hats as (Hl32 & Hks & Hhs). destruct Hatt as (Hl32t & Hkt & Hht).
  set (hb := fm_sub off 32 (rp_file s)) in *.
  assert (Hfull : off + 32 <= N.of_nat (length (rp_file s))) by (apply rr_sub_full; [exact Hl32|lia]).
  destruct Hcor as [(e & Hbe & Hle & Hnz & Hcls & Hft) | (e & esb & pad' & Hpl & Hbe & Hbs & Hle & Hl4 & Hlp & Hn & Hnz & Hcls & Hft)].
  - (* header *)
    assert (Hhb : firstn 32 (skipn (N.to_nat off) (rp_file s)) = hb) by reflexivity.
    assert (Hxl : length (xor_bytes hb e) = 32%nat) by (rewrite xor_bytes_length; congruence).
    assert (Hhb' : fm_sub off 32 (rp_file t) = xor_bytes hb e).
    { rewrite Hft, Hhb.
      replace (fm_sub off 32) with (fm_sub off (N.of_nat (length (xor_bytes hb e)))) by (rewrite Hxl; reflexivity).
      apply rr_sub_app3. rewrite firstn_length. lia. }
    rewrite Hhb' in Hkt.
    rewrite (rr_ch_crc_detect hb e Hl32 Hle (rr_bytes_ok_sub _ _ _ Hbf) Hbe Hks Hnz Hcls) in Hkt. discriminate.
  - (* payload *)
    destruct (Hcs Hpl) as (_ & Hfulls & Hcrcs). fold dl p in Hfulls, Hcrcs. rewrite Hpays in Hcrcs. fold p in Hcrcs.
    pose proof (rr_pad_ge pl Hpl) as Hge. fold dl in Hge.
    fold (fm_sub p pl (rp_file s)) in Hft. fold (fm_sub (p + dl - 4) 4 (rp_file s)) in Hft.
    set (B := xor_bytes (fm_sub p pl (rp_file s)) e) in *.
    set (D := xor_bytes (fm_sub (p + dl - 4) 4 (rp_file s)) esb) in *.
    destruct (rr_region_parts (rp_file s) p pl dl Hge Hfulls) as (_ & _ & Hpayl & Hcrcl).
    assert (HlB : length B = N.to_nat pl) by (subst B; rewrite xor_bytes_length; congruence).
    assert (HlD : length D = 4%nat) by (subst D; rewrite xor_bytes_length; congruence).
    (* same header bytes, hence same header *)
    assert (Hhbt : fm_sub off 32 (rp_file t) = hb).
    { rewrite Hft. subst p. apply rr_sub_prefix. exact Hfull. }
    assert (Hhdr : wm_ck_hdr (rp_cur t') = wm_ck_hdr (rp_cur s')) by (rewrite Hht, Hhs, Hhbt; reflexivity).
    rewrite Hhdr in Hpayt, Hplt, Hct. fold pl in Hpayt, Hplt, Hct.
    destruct (Hct Hpl) as (_ & _ & Hcrct). fold dl p in Hcrct. rewrite Hpayt in Hcrct. fold p in Hcrct.
    assert (HB : fm_sub p pl (rp_file t) = B).
    { rewrite Hft. replace pl with (N.of_nat (length B)) at 1 by lia. apply rr_sub_app3. rewrite firstn_length. lia. }
    assert (HD : fm_sub (p + dl - 4) 4 (rp_file t) = D).
    { rewrite Hft. rewrite !app_assoc. rewrite <- (app_assoc _ D).
      replace 4 with (N.of_nat (length D)) at 2 by lia. apply rr_sub_app3.
      rewrite !app_length, firstn_length. lia. }
    rewrite HB, HD in Hcrct.
    pose proof (rr_crc_detect (fm_sub p pl (rp_file s)) (fm_sub (p + dl - 4) 4 (rp_file s)) e esb) as Hdet.
    fold B D in Hdet. rewrite <- Hcrct, N.eqb_refl in Hdet.
    assert (Hx : true = false); [|discriminate].
    apply Hdet; try assumption.
    + now apply rr_bytes_ok_sub.
    + now apply rr_bytes_ok_sub.
    + symmetry. exact Hcrcs.
    + congruence.
Qed.

(* ================================================================ C10 (c): the raw read layer on ARBITRARY bytes and states *)
(* every read of the model returns bytes of the file at the requested position, or nothing *)
Lemma rr_file_read_in_bounds : forall f flen off n,
  rp_file_read f flen off n = [] \/ rp_file_read f flen off n = fm_sub off n f.
Proof.
  intros f flen off n. unfold rp_file_read. destruct (flen <=? off); [now left|right].
  unfold fm_sub. now rewrite rr_take_eq, rr_skip_eq.
Qed.

Lemma rr_bk_fread_frame : forall s n, rp_flt (fst (rp_bk_fread s n)) = rp_flt s /\ rp_file (fst (rp_bk_fread s n)) = rp_file s.
Proof. intros. split; reflexivity. Qed.

(* jls_raw_rd_header never leaves the model's domain and never touches the file, whatever the state and the bytes *)
Lemma rr_rd_header_no_fault : forall s,
  rp_flt (fst (rp_raw_rd_header s)) = rp_flt s /\ rp_file (fst (rp_raw_rd_header s)) = rp_file s /\
  rp_flen (fst (rp_raw_rd_header s)) = rp_flen s.
Proof.
  intro s. unfold rp_raw_rd_header.
  destruct (rp_r_valid (rp_r s)); [repeat split|].
  destruct (rp_fend (rp_r s) <=? rp_fpos (rp_r s)); [repeat split|].
  unfold rp_bk_fread.
  destruct (rp_offset (rp_r s) =? rp_fpos (rp_r s)); cbv zeta; cbn [rp_io_set_r rp_r rp_file rp_flen];
    match goal with |- context [fm_ch_complete ?b] => destruct (fm_ch_complete b); cbn [negb]; [destruct (fm_ch_crc_ok b); cbn [negb]|] end;
    repeat split.
Qed.

Lemma rr_rd_payload_no_fault : forall s max,
  rp_flt (fst (rp_raw_rd_payload s max)) = rp_flt s /\ rp_file (fst (rp_raw_rd_payload s max)) = rp_file s /\
  rp_flen (fst (rp_raw_rd_payload s max)) = rp_flen s.
Proof.
  intros s max. unfold rp_raw_rd_payload.
  assert (Hhd : (if rp_r_valid (rp_r s) then (s, 0) else rp_raw_rd_header s) = rp_raw_rd_header s).
  { destruct (rp_r_valid (rp_r s)) eqn:E; [symmetry; now apply rr_rd_header_valid | reflexivity]. }
  rewrite Hhd. destruct (rr_rd_header_no_fault s) as (H1 & H2 & H3).
  destruct (rp_raw_rd_header s) as [s1 rc1]. cbn [fst] in H1, H2, H3.
  destruct (negb (rc1 =? 0)); [cbn [fst]; auto|].
  destruct (fm_payload_length (rp_hdr (rp_r s1)) =? 0); [cbn; auto|].
  destruct (max <? fm_disk_len (fm_payload_length (rp_hdr (rp_r s1)))); [cbn [fst]; auto|].
  unfold rp_bk_fread. cbv zeta.
  destruct (rp_offset (rp_r s1) + SIZEOF_chunk_header =? rp_fpos (rp_r s1));
    cbn [rp_io_set_r rp_io_set_buf rp_r rp_file rp_flen rp_buf rp_buf_len rp_r_set_fpos rp_fpos];
    match goal with |- context [if ?c then (_, JLS_ERROR_IO) else _] => destruct c end;
    try (match goal with |- context [if negb ?c then _ else _] => destruct c; cbn [negb] end);
    cbn; auto.
Qed.

(* jls_core_rd_chunk: the only fault is the stated modelling limit RpF_big, raised exactly when a CRC-valid
   header announces a payload whose on-disk size exceeds the initial 1 MiB buffer but not the file length
   (the C takes the jls_buf_realloc path, which is not modelled) *)
Lemma rr_rd_chunk_no_fault : forall s,
  rp_file (fst (rp_rd_chunk s)) = rp_file s /\ rp_flen (fst (rp_rd_chunk s)) = rp_flen s /\
  (rp_flt (fst (rp_rd_chunk s)) = rp_flt s \/
   (rp_flt s = 0 /\ rp_flt (fst (rp_rd_chunk s)) = RpF_big /\ snd (rp_rd_chunk s) = JLS_ERROR_NOT_ENOUGH_MEMORY)).
Proof.
  intro s. unfold rp_rd_chunk.
  set (cur0 := {| wm_ck_offset := rp_offset (rp_r s); wm_ck_hdr := wm_hdr_set_tag (wm_ck_hdr (rp_cur s)) JLS_TAG_INVALID |}).
  destruct (rr_rd_header_no_fault (rp_io_set_cur s cur0)) as (H1 & H2 & H3).
  destruct (rp_raw_rd_header (rp_io_set_cur s cur0)) as [s1 rc1]. cbn [fst rp_io_set_cur rp_flt rp_file rp_flen] in H1, H2, H3.
  destruct (negb (rc1 =? 0)); [cbn [fst]; auto|].
  set (s2 := rp_io_set_cur s1 {| wm_ck_offset := wm_ck_offset cur0; wm_ck_hdr := rp_hdr (rp_r s1) |}).
  destruct (rr_rd_payload_no_fault s2 JLS_BUF_DEFAULT_SIZE) as (K1 & K2 & K3).
  destruct (rp_raw_rd_payload s2 JLS_BUF_DEFAULT_SIZE) as [s3 rc2]. cbn [fst] in K1, K2, K3.
  subst s2. cbn [rp_io_set_cur rp_flt rp_file rp_flen] in K1, K2, K3.
  destruct (rc2 =? JLS_ERROR_TOO_BIG).
  - match goal with |- context [if ?c then (s3, JLS_ERROR_IO) else _] => destruct c end.
    + cbn [fst snd]. split; [congruence|]. split; [congruence|]. left. congruence.
    + cbn [fst snd rp_io_fault rp_file rp_flen rp_flt]. split; [congruence|]. split; [congruence|].
      destruct (rp_flt s3 =? 0) eqn:E.
      * right. apply N.eqb_eq in E. split; [congruence|]. split; reflexivity.
      * left. congruence.
  - destruct (rc2 =? 0); cbn [fst snd rp_io_set_buf rp_file rp_flen rp_flt]; (split; [congruence|]; split; [congruence|]; left; congruence).
Qed.

(* read_verify: the only fault is RpF_short (stated modelling limit: fewer than 24 bytes could be read, the C
   then tests a length field it never initialised) *)
Lemma rr_read_verify_no_fault : forall s,
  rp_file (fst (fst (rp_read_verify s))) = rp_file s /\
  (rp_flt (fst (fst (rp_read_verify s))) = rp_flt s \/
   (rp_flt s = 0 /\ rp_flt (fst (fst (rp_read_verify s))) = RpF_short /\
    rp_len (rp_file_read (rp_file s) (rp_flen s) (rp_fpos (rp_r s)) 32) < 24)).
Proof.
  intro s. unfold rp_read_verify, rp_bk_fread. change SIZEOF_file_header with 32.
  set (b := rp_file_read (rp_file s) (rp_flen s) (rp_fpos (rp_r s)) 32). cbv zeta.
  change OFFSETOF_file_header_version with 24.
  destruct (rp_len b <? 24) eqn:E; destruct (rp_fh_ok b); cbn [fst snd rp_io_fault rp_io_set_r rp_file rp_flt];
    (split; [reflexivity|]); try (left; reflexivity);
    (destruct (rp_flt s =? 0) eqn:E0; [right; apply N.eqb_eq in E0; apply N.ltb_lt in E; auto | left; reflexivity]).
Qed.

(* ================================================================ examples: the hypotheses are satisfiable *)
Definition rr_ex_hdr : fm_chunk_header :=
  {| fm_item_next := 0; fm_item_prev := 0; fm_tag := JLS_TAG_USER_DATA; fm_rsv0 := 0; fm_chunk_meta := 0x1005;
     fm_payload_length := 5; fm_payload_prev_length := 0 |}.
Definition rr_ex_file : list N :=
  fm_encode_file_header {| fm_fh_length := 80; fm_fh_version := JLS_FORMAT_VERSION_U32 |}
  ++ fm_encode_chunk rr_ex_hdr [1; 2; 3; 4; 5].
(* the reader positioned at the chunk, nothing cached *)
Definition rr_ex_io (f : list N) : rp_io :=
  rp_io_set_r (rp_io0 f) {| rp_fpos := 32; rp_fend := 80; rp_offset := 32; rp_hdr := wm_hdr0; rp_last_pl := 0 |}.
(* the same with the chunk header cached (as after jls_raw_rd_header) *)
Definition rr_ex_io_hdr (f : list N) : rp_io :=
  rp_io_set_r (rp_io0 f) {| rp_fpos := 64; rp_fend := 80; rp_offset := 32; rp_hdr := rr_ex_hdr; rp_last_pl := 0 |}.
Definition rr_ex_e32 : list N := [0; 0; 0; 0; 0; 0; 0; 0; 0; 0; 0; 0; 0; 0; 0; 0; 0; 0; 0; 0; 64; 0; 0; 0; 0; 0; 0; 0; 0; 0; 0; 0].

Example rr_ex_file_length : length rr_ex_file = 80%nat /\ bytes_ok rr_ex_file.
Proof. split; [vm_compute; reflexivity | apply bytes_ok_dec; vm_compute; reflexivity]. Qed.

Example rr_ex_chunk_accepted :
  rr_inv (rr_ex_io rr_ex_file) /\
  snd (rp_rd_chunk (rr_ex_io rr_ex_file)) = 0 /\
  rp_payload (fst (rp_rd_chunk (rr_ex_io rr_ex_file))) = [1; 2; 3; 4; 5] /\
  wm_ck_hdr (rp_cur (fst (rp_rd_chunk (rr_ex_io rr_ex_file)))) = rr_ex_hdr.
Proof.
  split; [split; [reflexivity | cbn; discriminate]|].
  vm_compute. repeat split.
Qed.

(* one flipped bit in the payload_length field of the chunk header *)
Example rr_ex_header_corruption :
  let s := rr_ex_io rr_ex_file in
  let f' := firstn 32 rr_ex_file ++ xor_bytes (firstn 32 (skipn 32 rr_ex_file)) rr_ex_e32 ++ skipn 64 rr_ex_file in
  let t := rr_ex_io f' in
  rr_inv s /\ rr_inv t /\ rp_r t = rp_r s /\ rp_r_valid (rp_r s) = false /\ bytes_ok rr_ex_e32 /\ length rr_ex_e32 = 32%nat /\
  le rr_ex_e32 <> 0 /\ (weight (le rr_ex_e32) <= 3)%nat /\
  snd (rp_raw_rd_header s) = 0 /\
  snd (rp_raw_rd_header t) = JLS_ERROR_MESSAGE_INTEGRITY /\ snd (rp_rd_chunk t) = JLS_ERROR_MESSAGE_INTEGRITY.
Proof.
  cbv zeta.
  split; [split; [reflexivity | cbn; discriminate]|].
  split; [split; [vm_compute; reflexivity | cbn; discriminate]|].
  split; [reflexivity|]. split; [reflexivity|].
  split; [apply bytes_ok_dec; vm_compute; reflexivity|].
  split; [reflexivity|]. split; [vm_compute; discriminate|]. split; [vm_compute; lia|].
  vm_compute. repeat split.
Qed.

(* a 32-bit burst straddling the last payload byte and nothing else / two flipped bits in payload and stored CRC,
   with changed pad bytes *)
Example rr_ex_payload_corruption :
  let s := rr_ex_io_hdr rr_ex_file in
  let e := [0; 0; 0; 0; 128] in let esb := [0; 0; 1; 0] in let pad' := [9; 9; 9; 9; 9; 9; 9] in
  let f' := firstn 64 rr_ex_file ++ xor_bytes (firstn 5 (skipn 64 rr_ex_file)) e ++ pad'
            ++ xor_bytes (firstn 4 (skipn 76 rr_ex_file)) esb ++ skipn 80 rr_ex_file in
  let t := rr_ex_io_hdr f' in
  rp_flen s = rp_len (rp_file s) /\ rp_flen t = rp_len (rp_file t) /\ rp_r t = rp_r s /\ rp_r_valid (rp_r s) = true /\
  fm_payload_length (rp_hdr (rp_r s)) = 5 /\ fm_disk_len 5 = 16 /\ rp_offset (rp_r s) + 32 = 64 /\
  bytes_ok e /\ bytes_ok esb /\ le (e ++ esb) <> 0 /\ (weight (le (e ++ esb)) <= 3)%nat /\
  snd (rp_raw_rd_payload s JLS_BUF_DEFAULT_SIZE) = 0 /\
  snd (rp_raw_rd_payload t JLS_BUF_DEFAULT_SIZE) = JLS_ERROR_MESSAGE_INTEGRITY.
Proof.
  cbv zeta.
  split; [reflexivity|]. split; [vm_compute; reflexivity|]. split; [reflexivity|]. split; [reflexivity|].
  split; [reflexivity|]. split; [reflexivity|]. split; [reflexivity|].
  split; [apply bytes_ok_dec; vm_compute; reflexivity|]. split; [apply bytes_ok_dec; vm_compute; reflexivity|].
  split; [vm_compute; discriminate|]. split; [vm_compute; lia|].
  vm_compute. repeat split.
Qed.

(* only the pad bytes differ: accepted, same payload *)
Example rr_ex_pad_change :
  let s := rr_ex_io_hdr rr_ex_file in
  let f' := firstn 69 rr_ex_file ++ [9; 9; 9; 9; 9; 9; 9] ++ skipn 76 rr_ex_file in
  let t := rr_ex_io_hdr f' in
  snd (rp_raw_rd_payload t JLS_BUF_DEFAULT_SIZE) = 0 /\
  firstn 5 (rp_buf (fst (rp_raw_rd_payload t JLS_BUF_DEFAULT_SIZE))) = [1; 2; 3; 4; 5].
Proof. vm_compute. repeat split. Qed.

(* file header: open accepts the file; one flipped bit in the version field is rejected *)
Example rr_ex_file_header :
  let s := rp_io0 rr_ex_file in
  let f' := xor_bytes (firstn 32 rr_ex_file) rr_ex_e32 ++ skipn 32 rr_ex_file in
  let t := rp_io0 f' in
  rp_flen s = rp_len (rp_file s) /\ rp_flen t = rp_len (rp_file t) /\ rp_r t = rp_r s /\ rp_fpos (rp_r s) = 0 /\
  snd (fst (rp_read_verify s)) = 0 /\ snd (rp_raw_open s false) = 0 /\
  snd (fst (rp_read_verify t)) = JLS_ERROR_UNSUPPORTED_FILE /\ snd (rp_raw_open t false) = JLS_ERROR_UNSUPPORTED_FILE.
Proof.
  cbv zeta. split; [reflexivity|]. split; [vm_compute; reflexivity|]. split; [reflexivity|]. split; [reflexivity|].
  vm_compute. repeat split.
Qed.

(* ================================================================ the invariant is established and kept *)
Lemma rr_inv_chunk_seek : forall s o, rr_inv s -> rr_inv (fst (rp_chunk_seek s o)).
Proof.
  intros s o [Hl _]. unfold rp_chunk_seek, rp_bk_fseek.
  destruct (o =? 0); [split; [exact Hl | intro H; discriminate H]|].
  cbn [rp_io_set_r rp_r]. destruct (rp_two63 <=? o); (split; [exact Hl | intro H; discriminate H]).
Qed.

Lemma rr_inv_seek_end : forall s, rr_inv s -> rr_inv (rp_seek_end s).
Proof. intros s [Hl _]. split; [exact Hl | intro H; discriminate H]. Qed.

Lemma rr_inv_raw_open : forall f append, rr_inv (fst (rp_raw_open (rp_io0 f) append)).
Proof.
  intros f append. unfold rp_raw_open.
  destruct (rp_read_verify (rp_io_set_r (rp_io0 f) rp_raw0)) as [[s1 rc] ver] eqn:E.
  assert (H : rr_inv s1).
  { unfold rp_read_verify, rp_bk_fread in E. cbv zeta in E.
    match type of E with context [rp_fh_ok ?b] => destruct (rp_fh_ok b) end;
      match type of E with context [if ?c then rp_io_fault _ _ else _] => destruct c end;
      inversion E; subst s1; (split; [reflexivity | intro H; discriminate H]). }
  match goal with |- context [if ?c then _ else _] => destruct c end; exact H.
Qed.

Lemma rr_inv_rd_header : forall s, rr_inv s -> rr_inv (fst (rp_raw_rd_header s)).
Proof. intros s H. destruct (rp_raw_rd_header s) as [s' rc] eqn:E. exact (proj1 (rr_rd_header_spec s s' rc H E)). Qed.
Lemma rr_inv_rd_payload : forall s max, rr_inv s -> rr_inv (fst (rp_raw_rd_payload s max)).
Proof. intros s max H. destruct (rp_raw_rd_payload s max) as [s' rc] eqn:E. exact (proj1 (rr_rd_payload_spec s max s' rc H E)). Qed.
Lemma rr_inv_rd_chunk : forall s, rr_inv s -> rr_inv (fst (rp_rd_chunk s)).
Proof. intros s H. destruct (rp_rd_chunk s) as [s' rc] eqn:E. exact (proj1 (rr_rd_chunk_any s s' rc H E)). Qed.

(* ================================================================ final forms for Properties_C04_struct.v *)
Lemma rr_hdr_at_decode : forall f off h, rr_hdr_at f off h ->
  length (fm_sub off 32 f) = 32%nat /\ fm_decode_chunk_header (fm_sub off 32 f) = Some h.
Proof.
  intros f off h (Hl & Hk & Hh). split; [exact Hl|]. unfold fm_decode_chunk_header.
  assert (Hc : fm_ch_complete (fm_sub off 32 f) = true) by (unfold fm_ch_complete; apply fm_has_true; rewrite Hl; reflexivity).
  rewrite Hc, Hk, Hh. reflexivity.
Qed.

Lemma rr_C04_rd_chunk : forall s s',
  rp_flen s = rp_len (rp_file s) ->
  (rp_r_valid (rp_r s) = true ->
     length (fm_sub (rp_offset (rp_r s)) 32 (rp_file s)) = 32%nat /\
     fm_ch_crc_ok (fm_sub (rp_offset (rp_r s)) 32 (rp_file s)) = true /\
     rp_hdr (rp_r s) = fm_ch_fields (fm_sub (rp_offset (rp_r s)) 32 (rp_file s))) ->
  rp_rd_chunk s = (s', 0) ->
  let f := rp_file s in
  let off := rp_offset (rp_r s) in
  let h := wm_ck_hdr (rp_cur s') in
  let pl := fm_payload_length h in
  rp_file s' = f /\ rp_flt s' = rp_flt s /\ wm_ck_offset (rp_cur s') = off /\
  length (fm_sub off 32 f) = 32%nat /\
  fm_decode_chunk_header (fm_sub off 32 f) = Some h /\
  fm_u32_at 28 (fm_sub off 32 f) = crc32c (firstn 28 (fm_sub off 32 f)) /\
  rp_payload s' = fm_sub (off + 32) pl f /\
  length (rp_payload s') = N.to_nat pl /\
  (pl <> 0 ->
     fm_disk_len pl <= JLS_BUF_DEFAULT_SIZE /\
     off + 32 + fm_disk_len pl <= N.of_nat (length f) /\
     crc32c (rp_payload s') = fm_dec (fm_sub (off + 32 + fm_disk_len pl - 4) 4 f)) /\
  (bytes_ok f ->
     fm_u32_at 28 (fm_sub off 32 f) = crc_spec (firstn 28 (fm_sub off 32 f)) /\
     (pl <> 0 -> crc_spec (rp_payload s') = fm_dec (fm_sub (off + 32 + fm_disk_len pl - 4) 4 f))).
Proof.
  intros s s' Hl Hv H f off h pl.
  assert (Hinv : rr_inv s) by (split; [exact Hl | exact Hv]).
  destruct (rr_rd_chunk_ok s s' Hinv H) as (H1 & H2 & H3 & H4 & H5 & H6 & H7).
  fold f off in H1, H3, H4, H5, H7. fold h in H4. fold pl in H5, H6, H7.
  destruct (rr_hdr_at_decode _ _ _ H4) as [Hl32 Hdec]. destruct H4 as (_ & Hk & _).
  assert (Hcrc : fm_u32_at 28 (fm_sub off 32 f) = crc32c (firstn 28 (fm_sub off 32 f))) by (apply N.eqb_eq; exact Hk).
  do 3 (split; [assumption|]). split; [exact Hl32|]. split; [exact Hdec|]. split; [exact Hcrc|].
  split; [exact H5|]. split; [exact H6|]. split; [exact H7|].
  intro Hb. split.
  - rewrite Hcrc. apply crc32c_eq. apply bytes_ok_firstn. now apply rr_bytes_ok_sub.
  - intro Hpl. destruct (H7 Hpl) as (_ & _ & Hc).
    change (crc32c (rp_payload s') = fm_dec (fm_sub (off + 32 + fm_disk_len pl - 4) 4 f)) in Hc. rewrite <- Hc. symmetry. apply crc32c_eq. rewrite H5. now apply rr_bytes_ok_sub.
Qed.

Lemma rr_C04_read_verify : forall s s' ver,
  rp_flen s = rp_len (rp_file s) -> rp_read_verify s = (s', 0, ver) ->
  let b := fm_sub (rp_fpos (rp_r s)) 32 (rp_file s) in
  length b = 32%nat /\
  fm_u32_at 28 b = crc32c (firstn 28 b) /\
  (bytes_ok (rp_file s) -> fm_u32_at 28 b = crc_spec (firstn 28 b)) /\
  firstn 16 b = JLS_HEADER_IDENTIFICATION /\
  fm_version_major (fm_u32_at 24 b) <= fm_version_major JLS_FORMAT_VERSION_U32 /\
  ver = fm_u32_at 24 b /\
  fm_u64_at 16 b <> 0 /\
  rp_file s' = rp_file s /\ rp_flt s' = rp_flt s /\ rp_fend (rp_r s') = rp_len (rp_file s).
Proof.
  intros s s' ver Hl H b. destruct (rr_read_verify_ok s s' ver Hl H) as (H1 & H2 & H3). fold b in H1, H2, H3.
  split; [exact H1|]. split; [exact H2|]. split; [|exact H3].
  intro Hb. rewrite H2. apply crc32c_eq. apply bytes_ok_firstn. now apply rr_bytes_ok_sub.
Qed.

(* expanded-invariant version of rr_chunk_corruption_not_accepted *)
Lemma rr_inv_expand : forall s,
  rp_flen s = rp_len (rp_file s) ->
  (rp_r_valid (rp_r s) = true ->
     length (fm_sub (rp_offset (rp_r s)) 32 (rp_file s)) = 32%nat /\
     fm_ch_crc_ok (fm_sub (rp_offset (rp_r s)) 32 (rp_file s)) = true /\
     rp_hdr (rp_r s) = fm_ch_fields (fm_sub (rp_offset (rp_r s)) 32 (rp_file s))) ->
  rr_inv s.
Proof. intros s H1 H2. split; assumption. Qed.

Lemma rr_C04_chunk_corruption : forall (s t s' : rp_io),
  rp_flen s = rp_len (rp_file s) ->
  (rp_r_valid (rp_r s) = true ->
     length (fm_sub (rp_offset (rp_r s)) 32 (rp_file s)) = 32%nat /\
     fm_ch_crc_ok (fm_sub (rp_offset (rp_r s)) 32 (rp_file s)) = true /\
     rp_hdr (rp_r s) = fm_ch_fields (fm_sub (rp_offset (rp_r s)) 32 (rp_file s))) ->
  rp_flen t = rp_len (rp_file t) ->
  (rp_r_valid (rp_r t) = true ->
     length (fm_sub (rp_offset (rp_r t)) 32 (rp_file t)) = 32%nat /\
     fm_ch_crc_ok (fm_sub (rp_offset (rp_r t)) 32 (rp_file t)) = true /\
     rp_hdr (rp_r t) = fm_ch_fields (fm_sub (rp_offset (rp_r t)) 32 (rp_file t))) ->
  rp_r t = rp_r s -> bytes_ok (rp_file s) ->
  rp_rd_chunk s = (s', 0) ->
  let off := rp_offset (rp_r s) in
  let pl := fm_payload_length (wm_ck_hdr (rp_cur s')) in
  let dl := fm_disk_len pl in
  let p := off + 32 in
  ((exists e, bytes_ok e /\ length e = 32%nat /\ le e <> 0 /\
      ((weight (le e) <= 3)%nat \/
       (exists (v : N) (k : nat), 0 < v /\ v < 2 ^ 32 /\ (k <= 256)%nat /\ le e = N.shiftl v (N.of_nat k))) /\
      rp_file t = firstn (N.to_nat off) (rp_file s)
                  ++ xor_bytes (firstn 32 (skipn (N.to_nat off) (rp_file s))) e
                  ++ skipn (N.to_nat off + 32) (rp_file s))
   \/
   (exists e esb pad', pl <> 0 /\ bytes_ok e /\ bytes_ok esb /\
      length e = N.to_nat pl /\ length esb = 4%nat /\ length pad' = N.to_nat (dl - pl - 4) /\
      N.of_nat (8 * length (e ++ esb)) <= 2147483647 /\ le (e ++ esb) <> 0 /\
      ((weight (le (e ++ esb)) <= 3)%nat \/
       (exists (v : N) (k : nat), 0 < v /\ v < 2 ^ 32 /\ (k <= 8 * length (e ++ esb))%nat /\
          le (e ++ esb) = N.shiftl v (N.of_nat k))) /\
      rp_file t = firstn (N.to_nat p) (rp_file s)
                  ++ xor_bytes (firstn (N.to_nat pl) (skipn (N.to_nat p) (rp_file s))) e
                  ++ pad'
                  ++ xor_bytes (firstn 4 (skipn (N.to_nat (p + dl - 4)) (rp_file s))) esb
                  ++ skipn (N.to_nat (p + dl)) (rp_file s))) ->
  snd (rp_rd_chunk t) <> 0.
Proof.
  intros s t s' H1 H2 H3 H4. apply rr_chunk_corruption_not_accepted; apply rr_inv_expand; assumption.
Qed.

Lemma rr_C04_invariant :
  let P := fun s : rp_io =>
    rp_flen s = rp_len (rp_file s) /\
    (rp_r_valid (rp_r s) = true ->
       length (fm_sub (rp_offset (rp_r s)) 32 (rp_file s)) = 32%nat /\
       fm_ch_crc_ok (fm_sub (rp_offset (rp_r s)) 32 (rp_file s)) = true /\
       rp_hdr (rp_r s) = fm_ch_fields (fm_sub (rp_offset (rp_r s)) 32 (rp_file s))) in
  (forall f append, P (fst (rp_raw_open (rp_io0 f) append))) /\
  (forall s, P s -> P (fst (rp_raw_rd_header s))) /\
  (forall s max, P s -> P (fst (rp_raw_rd_payload s max))) /\
  (forall s, P s -> P (fst (rp_rd_chunk s))) /\
  (forall s o, P s -> P (fst (rp_chunk_seek s o))) /\
  (forall s, P s -> P (rp_seek_end s)).
Proof.
  cbv zeta. split; [exact rr_inv_raw_open|]. split; [exact rr_inv_rd_header|]. split; [exact rr_inv_rd_payload|].
  split; [exact rr_inv_rd_chunk|]. split; [exact rr_inv_chunk_seek | exact rr_inv_seek_end].
Qed.

(* ================================================================ the precise code of a rejected chunk read *)
(* jls_raw_rd_header depends on the file only through the 32 bytes at the chunk offset *)
Lemma rr_rd_header_same_bytes : forall s t,
  rp_flen s = rp_len (rp_file s) -> rp_flen t = rp_len (rp_file t) -> rp_r t = rp_r s ->
  fm_sub (rp_offset (rp_r s)) 32 (rp_file t) = fm_sub (rp_offset (rp_r s)) 32 (rp_file s) ->
  snd (rp_raw_rd_header t) = snd (rp_raw_rd_header s) /\
  rp_r (fst (rp_raw_rd_header t)) = rp_r (fst (rp_raw_rd_header s)) /\
  rp_file (fst (rp_raw_rd_header t)) = rp_file t /\ rp_flen (fst (rp_raw_rd_header t)) = rp_flen t /\
  rp_file (fst (rp_raw_rd_header s)) = rp_file s /\ rp_flen (fst (rp_raw_rd_header s)) = rp_flen s.
Proof.
  intros s t Hls Hlt Hr Hb. unfold rp_raw_rd_header. rewrite Hr.
  destruct (rp_r_valid (rp_r s)); [cbn [fst snd]; rewrite Hr; repeat split|].
  destruct (rp_fend (rp_r s) <=? rp_fpos (rp_r s)); [cbn [fst snd]; rewrite Hr; repeat split|].
  destruct (rp_offset (rp_r s) =? rp_fpos (rp_r s)) eqn:E.
  - apply N.eqb_eq in E.
    rewrite (rr_bk_fread_eq (rp_io_set_r s _) SIZEOF_chunk_header) by exact Hls.
    rewrite (rr_bk_fread_eq (rp_io_set_r t _) SIZEOF_chunk_header) by exact Hlt.
    cbn [rp_io_set_r rp_r rp_file rp_r_set_offset rp_fpos]. rewrite Hr, <- E. change SIZEOF_chunk_header with 32. rewrite Hb.
    destruct (negb (fm_ch_complete (fm_sub (rp_offset (rp_r s)) 32 (rp_file s)))); [cbn; repeat split|].
    destruct (negb (fm_ch_crc_ok (fm_sub (rp_offset (rp_r s)) 32 (rp_file s)))); cbn; repeat split.
  - rewrite (rr_bk_fread_eq (rp_io_set_r (rp_io_set_r s _) _) SIZEOF_chunk_header) by exact Hls.
    rewrite (rr_bk_fread_eq (rp_io_set_r (rp_io_set_r t _) _) SIZEOF_chunk_header) by exact Hlt.
    cbn [rp_io_set_r rp_r rp_file rp_r_set_offset rp_r_set_fpos rp_fpos]. change SIZEOF_chunk_header with 32. rewrite Hb.
    destruct (negb (fm_ch_complete (fm_sub (rp_offset (rp_r s)) 32 (rp_file s)))); [cbn; repeat split|].
    destruct (negb (fm_ch_crc_ok (fm_sub (rp_offset (rp_r s)) 32 (rp_file s)))); cbn; repeat split.
Qed.

Lemma rr_rd_chunk_hdr_rc : forall s,
  let s0 := rp_io_set_cur s {| wm_ck_offset := rp_offset (rp_r s); wm_ck_hdr := wm_hdr_set_tag (wm_ck_hdr (rp_cur s)) JLS_TAG_INVALID |} in
  (snd (rp_raw_rd_header s0) <> 0 -> snd (rp_rd_chunk s) = snd (rp_raw_rd_header s0)) /\
  (snd (rp_rd_chunk s) = 0 -> snd (rp_raw_rd_header s0) = 0).
Proof.
  intro s. cbv zeta. unfold rp_rd_chunk.
  destruct (rp_raw_rd_header (rp_io_set_cur s _)) as [s1 rc1]. cbn [snd].
  destruct (rc1 =? 0) eqn:E; cbn [negb].
  - apply N.eqb_eq in E. split; [intro H; now elim H | intros _; exact E].
  - apply N.eqb_neq in E. cbn [snd]. split; [reflexivity | intro H; now elim E].
Qed.

Theorem rr_chunk_header_corruption_code : forall (s t s' : rp_io) (e : list N),
  rr_inv s -> rr_inv t -> rp_r t = rp_r s -> bytes_ok (rp_file s) ->
  rp_rd_chunk s = (s', 0) ->
  bytes_ok e -> length e = 32%nat -> le e <> 0 ->
  ((weight (le e) <= 3)%nat \/
   (exists (v : N) (k : nat), 0 < v /\ v < 2 ^ 32 /\ (k <= 256)%nat /\ le e = N.shiftl v (N.of_nat k))) ->
  rp_file t = firstn (N.to_nat (rp_offset (rp_r s))) (rp_file s)
              ++ xor_bytes (firstn 32 (skipn (N.to_nat (rp_offset (rp_r s))) (rp_file s))) e
              ++ skipn (N.to_nat (rp_offset (rp_r s)) + 32) (rp_file s) ->
  snd (rp_rd_chunk t) = JLS_ERROR_MESSAGE_INTEGRITY.
Proof.
  intros s t s' e His Hit Hr Hbf Hs Hbe Hle Hnz Hcls Hft.
  destruct (rp_r_valid (rp_r s)) eqn:Ev.
  - (* a cached header would have to be CRC-valid in both files *)
    exfalso. assert (Hne : snd (rp_rd_chunk t) <> 0).
    { apply (rr_chunk_corruption_not_accepted s t s' His Hit Hr Hbf Hs). left. exists e. repeat split; assumption. }
    destruct His as [_ Hvs]. destruct Hit as [_ Hvt]. rewrite Hr in Hvt.
    destruct (Hvs Ev) as (Hl32 & Hks & _). destruct (Hvt Ev) as (_ & Hkt & _).
    set (off := rp_offset (rp_r s)) in *. set (hb := fm_sub off 32 (rp_file s)) in *.
    assert (Hfull : off + 32 <= N.of_nat (length (rp_file s))) by (apply rr_sub_full; [exact Hl32|lia]).
    assert (Hhb : firstn 32 (skipn (N.to_nat off) (rp_file s)) = hb) by reflexivity.
    assert (Hxl : length (xor_bytes hb e) = 32%nat) by (rewrite xor_bytes_length; congruence).
    assert (Hhb' : fm_sub off 32 (rp_file t) = xor_bytes hb e).
    { rewrite Hft, Hhb.
      replace (fm_sub off 32) with (fm_sub off (N.of_nat (length (xor_bytes hb e)))) by (rewrite Hxl; reflexivity).
      apply rr_sub_app3. rewrite firstn_length. lia. }
    rewrite Hhb' in Hkt.
    rewrite (rr_ch_crc_detect hb e Hl32 Hle (rr_bytes_ok_sub _ _ _ Hbf) Hbe Hks Hnz Hcls) in Hkt. discriminate.
  - destruct (rr_rd_chunk_hdr_rc s) as [_ Hs0]. destruct (rr_rd_chunk_hdr_rc t) as [Ht0 _]. cbv zeta in Hs0, Ht0.
    rewrite Hs in Hs0. specialize (Hs0 eq_refl).
    set (cs := {| wm_ck_offset := rp_offset (rp_r s); wm_ck_hdr := wm_hdr_set_tag (wm_ck_hdr (rp_cur s)) JLS_TAG_INVALID |}) in *.
    set (ct := {| wm_ck_offset := rp_offset (rp_r t); wm_ck_hdr := wm_hdr_set_tag (wm_ck_hdr (rp_cur t)) JLS_TAG_INVALID |}) in *.
    assert (Hd : snd (rp_raw_rd_header (rp_io_set_cur t ct)) = JLS_ERROR_MESSAGE_INTEGRITY).
    { apply (rr_header_corruption_detected (rp_io_set_cur s cs) (rp_io_set_cur t ct) e); try assumption.
      - apply His. - apply Hit. }
    rewrite Ht0; [exact Hd | rewrite Hd; discriminate].
Qed.

Theorem rr_chunk_payload_corruption_code : forall (s t s' : rp_io) (e esb pad' : list N),
  rr_inv s -> rr_inv t -> rp_r t = rp_r s -> bytes_ok (rp_file s) ->
  rp_rd_chunk s = (s', 0) ->
  let off := rp_offset (rp_r s) in
  let pl := fm_payload_length (wm_ck_hdr (rp_cur s')) in
  let dl := fm_disk_len pl in
  let p := off + 32 in
  fm_tag (wm_ck_hdr (rp_cur s')) <> JLS_TAG_INVALID -> pl <> 0 ->
  bytes_ok e -> bytes_ok esb ->
  length e = N.to_nat pl -> length esb = 4%nat -> length pad' = N.to_nat (dl - pl - 4) ->
  N.of_nat (8 * length (e ++ esb)) <= 2147483647 -> le (e ++ esb) <> 0 ->
  ((weight (le (e ++ esb)) <= 3)%nat \/
   (exists (v : N) (k : nat), 0 < v /\ v < 2 ^ 32 /\ (k <= 8 * length (e ++ esb))%nat /\
      le (e ++ esb) = N.shiftl v (N.of_nat k))) ->
  rp_file t = firstn (N.to_nat p) (rp_file s)
              ++ xor_bytes (firstn (N.to_nat pl) (skipn (N.to_nat p) (rp_file s))) e
              ++ pad'
              ++ xor_bytes (firstn 4 (skipn (N.to_nat (p + dl - 4)) (rp_file s))) esb
              ++ skipn (N.to_nat (p + dl)) (rp_file s) ->
  snd (rp_rd_chunk t) = JLS_ERROR_MESSAGE_INTEGRITY.
Proof.
  intros s t s' e esb pad' His Hit Hr Hbf Hs off pl dl p Htag Hpl Hbe Hbs Hle Hl4 Hlp Hn Hnz Hcls Hft.
  pose proof (rr_rd_chunk_ok s s' His Hs) as Ks. cbv zeta in Ks. fold off pl in Ks.
  destruct Ks as (_ & _ & _ & (Hl32 & _ & _) & _ & _ & _).
  assert (Hfull : off + 32 <= N.of_nat (length (rp_file s))) by (apply rr_sub_full; [exact Hl32|lia]).
  assert (Hhbt : fm_sub off 32 (rp_file t) = fm_sub off 32 (rp_file s)).
  { rewrite Hft. subst p. apply rr_sub_prefix. exact Hfull. }
  unfold rp_rd_chunk in Hs |- *. rewrite Hr.
  set (cs := {| wm_ck_offset := rp_offset (rp_r s); wm_ck_hdr := wm_hdr_set_tag (wm_ck_hdr (rp_cur s)) JLS_TAG_INVALID |}) in *.
  set (ct := {| wm_ck_offset := rp_offset (rp_r s); wm_ck_hdr := wm_hdr_set_tag (wm_ck_hdr (rp_cur t)) JLS_TAG_INVALID |}).
  destruct (rr_rd_header_same_bytes (rp_io_set_cur s cs) (rp_io_set_cur t ct) (proj1 His) (proj1 Hit) Hr Hhbt) as (E1 & E2 & E3 & E4 & E5 & E6).
  destruct (rp_raw_rd_header (rp_io_set_cur s cs)) as [s1 rc1] eqn:Es1.
  destruct (rp_raw_rd_header (rp_io_set_cur t ct)) as [t1 rc1'] eqn:Et1.
  cbn [fst snd rp_io_set_cur rp_file rp_flen] in E1, E2, E3, E4, E5, E6. subst rc1'.
  destruct (rr_rd_header_spec _ _ _ (rr_inv_set_cur s cs His) Es1) as (_ & _ & _ & _ & _ & _ & _ & Hok1).
  destruct (rc1 =? 0) eqn:Erc1; cbn [negb] in Hs |- *; [|inversion Hs; subst; discriminate].
  apply N.eqb_eq in Erc1. destruct (Hok1 Erc1) as [Hoff1 _]. cbn [rp_io_set_cur rp_r] in Hoff1.
  set (s2 := rp_io_set_cur s1 {| wm_ck_offset := wm_ck_offset cs; wm_ck_hdr := rp_hdr (rp_r s1) |}) in *.
  set (t2 := rp_io_set_cur t1 {| wm_ck_offset := wm_ck_offset ct; wm_ck_hdr := rp_hdr (rp_r t1) |}).
  destruct (rp_raw_rd_payload s2 JLS_BUF_DEFAULT_SIZE) as [s3 rc2] eqn:Es3.
  assert (Hrc2 : rc2 = 0 /\ wm_ck_hdr (rp_cur s') = rp_hdr (rp_r s1)).
  { assert (Hinv2 : rr_inv s2).
    { apply rr_inv_set_cur. exact (proj1 (rr_rd_header_spec _ _ _ (rr_inv_set_cur s cs His) Es1)). }
    destruct (rr_rd_payload_spec _ _ _ _ Hinv2 Es3) as (_ & _ & _ & Hc3 & _).
    destruct (rc2 =? JLS_ERROR_TOO_BIG).
    - match type of Hs with (if ?c then _ else _) = _ => destruct c end; inversion Hs.
    - destruct (rc2 =? 0) eqn:E0.
      + apply N.eqb_eq in E0. inversion Hs; subst s'. split; [exact E0|].
        cbn [rp_io_set_buf rp_cur]. rewrite Hc3. reflexivity.
      + apply N.eqb_neq in E0. inversion Hs; subst. now elim E0. }
  destruct Hrc2 as [Hrc2 Hhdr]. subst rc2.
  assert (Hd : snd (rp_raw_rd_payload t2 JLS_BUF_DEFAULT_SIZE) = JLS_ERROR_MESSAGE_INTEGRITY).
  { assert (Hv2 : rp_r_valid (rp_r s2) = true).
    { unfold rp_r_valid. cbn [s2 rp_io_set_cur rp_r]. rewrite <- Hhdr. apply negb_true_iff. apply N.eqb_neq. exact Htag. }
    assert (Hpl2 : fm_payload_length (rp_hdr (rp_r s2)) = pl) by (cbn [s2 rp_io_set_cur rp_r]; rewrite <- Hhdr; reflexivity).
    assert (Hoff2 : rp_offset (rp_r s2) = off) by (cbn [s2 rp_io_set_cur rp_r]; exact Hoff1).
    apply (rr_payload_corruption_detected s2 t2 JLS_BUF_DEFAULT_SIZE e esb pad').
    - cbn [s2 rp_io_set_cur rp_flen rp_file]. rewrite E5, E6. apply His.
    - cbn [t2 rp_io_set_cur rp_flen rp_file]. rewrite E3, E4. apply Hit.
    - cbn [s2 t2 rp_io_set_cur rp_r]. exact E2.
    - exact Hv2.
    - rewrite Hpl2. exact Hpl.
    - cbn [s2 rp_io_set_cur rp_file]. rewrite E5. exact Hbf.
    - exact Hbe.
    - exact Hbs.
    - rewrite Hpl2. exact Hle.
    - exact Hl4.
    - rewrite Hpl2. exact Hlp.
    - rewrite Hpl2, Hoff2. cbn [s2 t2 rp_io_set_cur rp_file]. rewrite E3, E5. exact Hft.
    - exact Hn.
    - exact Hnz.
    - exact Hcls.
    - rewrite Es3. reflexivity. }
  destruct (rp_raw_rd_payload t2 JLS_BUF_DEFAULT_SIZE) as [t3 rc2'] eqn:Et3. cbn [snd] in Hd. subst rc2'.
  reflexivity.
Qed.

(* expanded-invariant forms *)
Lemma rr_C04_chunk_header_code : forall (s t s' : rp_io) (e : list N),
  rp_flen s = rp_len (rp_file s) ->
  (rp_r_valid (rp_r s) = true ->
     length (fm_sub (rp_offset (rp_r s)) 32 (rp_file s)) = 32%nat /\
     fm_ch_crc_ok (fm_sub (rp_offset (rp_r s)) 32 (rp_file s)) = true /\
     rp_hdr (rp_r s) = fm_ch_fields (fm_sub (rp_offset (rp_r s)) 32 (rp_file s))) ->
  rp_flen t = rp_len (rp_file t) ->
  (rp_r_valid (rp_r t) = true ->
     length (fm_sub (rp_offset (rp_r t)) 32 (rp_file t)) = 32%nat /\
     fm_ch_crc_ok (fm_sub (rp_offset (rp_r t)) 32 (rp_file t)) = true /\
     rp_hdr (rp_r t) = fm_ch_fields (fm_sub (rp_offset (rp_r t)) 32 (rp_file t))) ->
  rp_r t = rp_r s -> bytes_ok (rp_file s) ->
  rp_rd_chunk s = (s', 0) ->
  bytes_ok e -> length e = 32%nat -> le e <> 0 ->
  ((weight (le e) <= 3)%nat \/
   (exists (v : N) (k : nat), 0 < v /\ v < 2 ^ 32 /\ (k <= 256)%nat /\ le e = N.shiftl v (N.of_nat k))) ->
  rp_file t = firstn (N.to_nat (rp_offset (rp_r s))) (rp_file s)
              ++ xor_bytes (firstn 32 (skipn (N.to_nat (rp_offset (rp_r s))) (rp_file s))) e
              ++ skipn (N.to_nat (rp_offset (rp_r s)) + 32) (rp_file s) ->
  snd (rp_rd_chunk t) = JLS_ERROR_MESSAGE_INTEGRITY.
Proof.
  intros s t s' e H1 H2 H3 H4. apply rr_chunk_header_corruption_code; apply rr_inv_expand; assumption.
Qed.

Lemma rr_C04_chunk_payload_code : forall (s t s' : rp_io) (e esb pad' : list N),
  rp_flen s = rp_len (rp_file s) ->
  (rp_r_valid (rp_r s) = true ->
     length (fm_sub (rp_offset (rp_r s)) 32 (rp_file s)) = 32%nat /\
     fm_ch_crc_ok (fm_sub (rp_offset (rp_r s)) 32 (rp_file s)) = true /\
     rp_hdr (rp_r s) = fm_ch_fields (fm_sub (rp_offset (rp_r s)) 32 (rp_file s))) ->
  rp_flen t = rp_len (rp_file t) ->
  (rp_r_valid (rp_r t) = true ->
     length (fm_sub (rp_offset (rp_r t)) 32 (rp_file t)) = 32%nat /\
     fm_ch_crc_ok (fm_sub (rp_offset (rp_r t)) 32 (rp_file t)) = true /\
     rp_hdr (rp_r t) = fm_ch_fields (fm_sub (rp_offset (rp_r t)) 32 (rp_file t))) ->
  rp_r t = rp_r s -> bytes_ok (rp_file s) ->
  rp_rd_chunk s = (s', 0) ->
  let off := rp_offset (rp_r s) in
  let pl := fm_payload_length (wm_ck_hdr (rp_cur s')) in
  let dl := fm_disk_len pl in
  let p := off + 32 in
  fm_tag (wm_ck_hdr (rp_cur s')) <> JLS_TAG_INVALID -> pl <> 0 ->
  bytes_ok e -> bytes_ok esb ->
  length e = N.to_nat pl -> length esb = 4%nat -> length pad' = N.to_nat (dl - pl - 4) ->
  N.of_nat (8 * length (e ++ esb)) <= 2147483647 -> le (e ++ esb) <> 0 ->
  ((weight (le (e ++ esb)) <= 3)%nat \/
   (exists (v : N) (k : nat), 0 < v /\ v < 2 ^ 32 /\ (k <= 8 * length (e ++ esb))%nat /\
      le (e ++ esb) = N.shiftl v (N.of_nat k))) ->
  rp_file t = firstn (N.to_nat p) (rp_file s)
              ++ xor_bytes (firstn (N.to_nat pl) (skipn (N.to_nat p) (rp_file s))) e
              ++ pad'
              ++ xor_bytes (firstn 4 (skipn (N.to_nat (p + dl - 4)) (rp_file s))) esb
              ++ skipn (N.to_nat (p + dl)) (rp_file s) ->
  snd (rp_rd_chunk t) = JLS_ERROR_MESSAGE_INTEGRITY.
Proof.
  intros s t s' e esb pad' H1 H2 H3 H4. apply rr_chunk_payload_corruption_code; apply rr_inv_expand; assumption.
Qed.
