(* C17: jls_copy as a transformation of writer programs.  Definitions only (proofs: CopyProofs.v .. CopyProofs6.v,
   statements: Properties_C17.v).

   jls_copy (src/copy.c) opens a fresh writer, walks the chunks of the original in file order and re-issues one writer
   call per SOURCE_DEF / SIGNAL_DEF (ids other than 0) / FSR DATA / ANNOTATION DATA / UTC DATA / USER_DATA (storage type
   other than INVALID) chunk; every other chunk (track DEF / HEAD / INDEX / SUMMARY, END) is skipped.  Relative to the
   accepted calls of the original program this is the relation [cp_reissue] below; [cp_prog] is an executable instance
   (read the content, re-issue it) and [cp_reissue_b] an executable sufficient check.  Everything is stated against
   Spec.spec_of; "reads back the same" is equality of [cp_obs], which is built from the reader functions of Spec.v.
   The theorems hold for ALL programs, without any well-formedness guard (CopyProofs4.cp_reissue_preserves,
   cp_reissue_ok, CopyProofs5.cp_prog_reissue).

   Tie to the C (tools/props/C17.py): (1) the reader's dump of the real copy is compared with the extracted spec_of of the
   original program; (2) for programs whose sample data can be written as script ops, the file jls_copy produces is
   byte-identical to the file the C writer produces from the calls rebuilt from the original's chunks in file order, and
   the extracted Spec accepts those calls and reads them back as the original (an instance of cp_reissue).

   Outside these definitions (recorded separately):
   - FSR blocks omitted by the writer (jls_wr_fsr_omit_data, or automatically for constant blocks of <= 8-bit types) have
     no DATA chunk, so jls_copy does not re-issue them: they come back as gap fill, or the signal is shorter when the
     last block was omitted (known finding K-C17-copy-omitted-blocks).  Spec has no omission (WOmit never changes the
     content), so the original's Spec content is the un-omitted stream; the effect of leaving blocks out is stated with
     [cp_drop] (CopyProofs6.cp_dropped_block_refuted, cp_dropped_last_block_refuted): clause (ii) of cp_reissue is the
     guard that fails;
   - an unclosed original: its readable content is spec_of of the calls whose chunks reached the file (C03/C19); the
     theorems apply to that program;
   - 32-bit wrap when the stored (already aligned) definition is aligned again: Spec.sp_align has no overflow
     (CopyProofs.cp_align_idem); the current C has none either (fix 591c3d3; C16 model: CopyProofs6.cp_realign_current),
     the code before the fix did (cp_realign_old_refuted). *)
From Coq Require Import NArith ZArith List Bool.
From JLS Require Import Generated Spec.
Import ListNotations.
Local Open Scope N_scope.

(* ---- acceptance ---- *)
Definition cp_flags (p : list wop) : list bool := snd (run_spec content0 p).
Definition cp_ok (p : list wop) : Prop := forallb (fun b => b) (cp_flags p) = true.     (* every call returns 0 *)

(* the accepted calls of a program, in order *)
Fixpoint cp_acc (c : content) (p : list wop) : list wop :=
  match p with
  | [] => []
  | o :: r => if snd (wstep c o) then o :: cp_acc (fst (wstep c o)) r else cp_acc (fst (wstep c o)) r
  end.
Definition cp_accepted (p : list wop) : list wop := cp_acc content0 p.

(* ---- the tracks of a program: definitions, per signal FSR / annotation / UTC / omit calls, user data ---- *)
Definition cp_srcs (p : list wop) : list srcdef := flat_map (fun o => match o with WSrc d => [d] | _ => [] end) p.
Definition cp_sigs (p : list wop) : list sigdef := flat_map (fun o => match o with WSig d => [d] | _ => [] end) p.
Definition cp_fsr (i : N) (p : list wop) : list (Z * list N) :=
  flat_map (fun o => match o with WFsr j sid smp => if j =? i then [(sid, smp)] else [] | _ => [] end) p.
Definition cp_annos (i : N) (p : list wop) : list anno :=
  flat_map (fun o => match o with WAnno j a => if j =? i then [a] else [] | _ => [] end) p.
Definition cp_utcs (i : N) (p : list wop) : list (Z * Z) :=
  flat_map (fun o => match o with WUtc j sid utc => if j =? i then [(sid, utc)] else [] | _ => [] end) p.
Definition cp_omits (i : N) (p : list wop) : list N :=
  flat_map (fun o => match o with WOmit j en => if j =? i then [en] else [] | _ => [] end) p.
Definition cp_uds (p : list wop) : list udata := flat_map (fun o => match o with WUd u => [u] | _ => [] end) p.

(* ---- the content as a function of the tracks (theorem: spec_of p = cp_denote p when every call is accepted) ---- *)
Definition cp_fsr_apply (s : sigstate) (b : Z * list N) : sigstate := fsr_write s (fst b) (snd b).
Definition cp_track_state (p : list wop) (d : sigdef) : sigstate :=
  let s := fold_left cp_fsr_apply (cp_fsr (sg_id d) p) (new_sig d) in
  {| ss_def := d; ss_first := ss_first s; ss_samples := ss_samples s;
     ss_annos := cp_annos (sg_id d) p; ss_utcs := cp_utcs (sg_id d) p |}.
Definition cp_defs (p : list wop) : list sigdef := signal0 :: map sp_align (cp_sigs p).
Definition cp_ud_store (u : udata) : list udata :=
  if ud_stype u =? 0 then []
  else [{| ud_meta := N.land (ud_meta u) 4095; ud_stype := ud_stype u; ud_data := ud_data u |}].
Definition cp_denote (p : list wop) : content :=
  {| c_sources := source0 :: cp_srcs p;
     c_signals := map (cp_track_state p) (cp_defs p);
     c_udata := flat_map cp_ud_store (cp_uds p) |}.

(* ---- definitions before use: a signal definition after its source, every data call after its signal ---- *)
Definition cp_mem (i : N) (l : list N) : bool := existsb (N.eqb i) l.
Definition cp_dbu_at (pre : list wop) (o : wop) : bool :=
  match o with
  | WSig d => cp_mem (sg_src d) (0 :: map so_id (cp_srcs pre))
  | WFsr i _ _ | WOmit i _ | WAnno i _ | WUtc i _ _ => cp_mem i (0 :: map sg_id (cp_sigs pre))
  | _ => true
  end.
Fixpoint cp_dbu_from (pre q : list wop) : bool :=
  match q with [] => true | o :: r => cp_dbu_at pre o && cp_dbu_from (pre ++ [o]) r end.
Definition cp_dbu (q : list wop) : bool := cp_dbu_from [] q.

(* ---- acceptance of a call as a check against the calls accepted before it
        (theorem cp_step: wstep (cp_denote pre) o = (cp_denote (pre ++ [o]), true) exactly when cp_wf_at pre o) ---- *)
Definition cp_find_def (pre : list wop) (i : N) : option sigdef := find (fun d => sg_id d =? i) (cp_defs pre).
Definition cp_is_fsr (pre : list wop) (i : N) : bool :=
  match cp_find_def pre i with Some d => sg_type d =? JLS_SIGNAL_TYPE_FSR | None => false end.
Definition cp_wf_at (pre : list wop) (o : wop) : bool :=
  match o with
  | WSrc d =>
    (so_id d <? JLS_SOURCE_COUNT) && negb (cp_mem (so_id d) (0 :: map so_id (cp_srcs pre)))
    && str_fits (so_name d) && str_fits (so_vendor d) && str_fits (so_model d) && str_fits (so_version d) && str_fits (so_serial d)
  | WSig d =>
    (sg_id d <? JLS_SIGNAL_COUNT) && (sg_src d <? JLS_SOURCE_COUNT)
    && cp_mem (sg_src d) (0 :: map so_id (cp_srcs pre))
    && negb (cp_mem (sg_id d) (0 :: map sg_id (cp_sigs pre)))
    && ((sg_type d =? JLS_SIGNAL_TYPE_FSR) || (sg_type d =? JLS_SIGNAL_TYPE_VSR))
    && dt_valid (sg_dtype d)
    && ((sg_type d =? JLS_SIGNAL_TYPE_VSR) || negb (sg_rate d =? 0))
    && str_fits (sg_name d) && str_fits (sg_units d)
  | WFsr i _ _ | WOmit i _ | WUtc i _ _ => cp_is_fsr pre i
  | WAnno i a =>
    match cp_find_def pre i with Some _ => stype_ok_anno (an_stype a) && (an_type a <? 256) | None => false end
  | WUd u => stype_ok_ud (ud_stype u)
  | WFlush => true
  end.
Fixpoint cp_wf_from (pre q : list wop) : bool :=
  match q with [] => true | o :: r => cp_wf_at pre o && cp_wf_from (pre ++ [o]) r end.
Definition cp_wf (q : list wop) : bool := cp_wf_from [] q.          (* theorem: cp_ok q <-> cp_wf q = true *)

(* ---- what the reader can see ---- *)
(* a definition string reads back as its bytes: a NULL argument and an empty string are the same to a reader *)
Definition cp_norm_str (s : strv) : strv := SBytes (str_read s).
Definition cp_norm_src (d : srcdef) : srcdef :=
  {| so_id := so_id d; so_name := cp_norm_str (so_name d); so_vendor := cp_norm_str (so_vendor d);
     so_model := cp_norm_str (so_model d); so_version := cp_norm_str (so_version d); so_serial := cp_norm_str (so_serial d) |}.
Definition cp_norm_sig (d : sigdef) : sigdef :=
  {| sg_id := sg_id d; sg_src := sg_src d; sg_type := sg_type d; sg_dtype := sg_dtype d; sg_rate := sg_rate d;
     sg_spd := sg_spd d; sg_sdf := sg_sdf d; sg_eps := sg_eps d; sg_sumdf := sg_sumdf d; sg_adf := sg_adf d; sg_udf := sg_udf d;
     sg_name := cp_norm_str (sg_name d); sg_units := cp_norm_str (sg_units d) |}.

Definition cp_sigobs : Type := sigdef * Z * N * list N * list anno * list (Z * Z).
Definition cp_sig_obs (s : sigstate) : cp_sigobs :=
  (cp_norm_sig (ss_def s), rd_offset s, rd_length s, ss_samples s, ss_annos s, ss_utcs s).
Definition cp_obs (c : content) : list srcdef * list cp_sigobs * list udata :=
  (map cp_norm_src (rd_sources c), map cp_sig_obs (rd_signals c), c_udata c).

(* the reader's answers computed from an observation alone (lemma: they are Spec's answers) *)
Definition cp_o_def (o : cp_sigobs) : sigdef := let '(d, _, _, _, _, _) := o in d.
Definition cp_o_samples (o : cp_sigobs) : list N := let '(_, _, _, x, _, _) := o in x.
Definition cp_o_annos (o : cp_sigobs) : list anno := let '(_, _, _, _, x, _) := o in x.
Definition cp_o_utcs (o : cp_sigobs) : list (Z * Z) := let '(_, _, _, _, _, x) := o in x.
Definition cp_o_length (o : cp_sigobs) : N := let '(_, _, n, _, _, _) := o in n.
Definition cp_o_offset (o : cp_sigobs) : Z := let '(_, f, _, _, _, _) := o in f.
Definition cp_o_window (o : cp_sigobs) (start count : N) : option (list N) :=
  if (start + count <=? cp_o_length o)
  then Some (pack (dt_bits (sg_dtype (cp_o_def o))) (firstn (N.to_nat count) (skipn (N.to_nat start) (cp_o_samples o))))
  else None.
Definition cp_o_anno_seek (o : cp_sigobs) (t : Z) : nat * nat :=
  let hi := first_ge t (cp_o_annos o) 0 in (Nat.pred hi, hi).
Definition cp_o_utc_from (o : cp_sigobs) (sid : Z) : list (Z * Z) := filter (fun p => (fst p >=? sid)%Z) (cp_o_utcs o).
Definition cp_o_stats (dec : list N -> list Z) (o : cp_sigobs) (start incr count : nat) : list (Z * Z * Z * Z) :=
  stats_windows (dec (cp_o_samples o)) start incr count.

(* ---- the calls jls_copy makes, relative to the original program ---- *)
(* contiguous non-empty blocks starting at id f whose concatenation is the stream *)
Inductive cp_contig : Z -> list (Z * list N) -> list N -> Prop :=
| cp_contig_nil : forall f, cp_contig f [] []
| cp_contig_cons : forall f smp r rest, smp <> [] ->
    cp_contig (f + Z.of_nat (length smp)) r rest -> cp_contig f ((f, smp) :: r) (smp ++ rest).

Definition cp_copy_op (o : wop) : bool := match o with WOmit _ _ | WFlush => false | _ => true end.

Definition cp_reissue (p q : list wop) : Prop :=
  let a := cp_accepted p in                                           (* (iv) rejected calls do not reappear *)
  forallb cp_copy_op q = true /\                                      (* jls_copy never omits or flushes *)
  map cp_norm_src (cp_srcs q) = map cp_norm_src (cp_srcs a) /\        (* (i) sources, original order, strings as read *)
  map cp_norm_sig (cp_sigs q) = map cp_norm_sig (map sp_align (cp_sigs a)) /\   (* (v) the stored, aligned definitions *)
  (forall i, cp_annos i q = cp_annos i a) /\                          (* (i) per signal, original order *)
  (forall i, cp_utcs i q = cp_utcs i a) /\
  cp_uds q = flat_map cp_ud_store (cp_uds a) /\                       (* stored items: type INVALID dropped, meta masked *)
  (forall i, match find_sig (spec_of p) i with                        (* (ii) the final stream, re-chunked *)
             | Some s => match ss_first s with
                         | Some f => cp_contig f (cp_fsr i q) (ss_samples s)
                         | None => cp_fsr i q = []
                         end
             | None => cp_fsr i q = []
             end) /\
  cp_dbu q = true.                                                    (* (iii) any interleaving with definitions first *)

(* ---- an executable instance: read the content, re-issue it ---- *)
Definition cp_bsize (bs : N) (l : list N) : nat := Nat.max 1 (N.to_nat (N.min bs (N.of_nat (length l)))).
Fixpoint cp_chunks (fuel : nat) (bs : N) (f : Z) (l : list N) : list (Z * list N) :=
  match fuel with
  | O => []
  | S fu =>
    match l with
    | [] => []
    | _ => let k := cp_bsize bs l in
           (f, firstn k l) :: cp_chunks fu bs (f + Z.of_nat (length (firstn k l)))%Z (skipn k l)
    end
  end.
Definition cp_sig_ops (bs : sigdef -> N) (s : sigstate) : list wop :=
  let i := sg_id (ss_def s) in
  match ss_first s with
  | Some f => map (fun b => WFsr i (fst b) (snd b)) (cp_chunks (length (ss_samples s)) (bs (ss_def s)) f (ss_samples s))
  | None => []
  end ++ map (WAnno i) (ss_annos s) ++ map (fun u => WUtc i (fst u) (snd u)) (ss_utcs s).
(* definitions in original order, then user data, then signal by signal: blocks, annotations, UTC entries *)
Definition cp_prog_of (bs : sigdef -> N) (c : content) : list wop :=
  map WSrc (tl (c_sources c)) ++ map (fun s => WSig (ss_def s)) (tl (c_signals c)) ++ map WUd (c_udata c)
  ++ flat_map (cp_sig_ops bs) (c_signals c).
Definition cp_prog_with (bs : sigdef -> N) (p : list wop) : list wop := cp_prog_of bs (spec_of p).
Definition cp_prog (p : list wop) : list wop := cp_prog_with sg_spd p.    (* blocks of samples_per_data *)

(* ---- an executable (sufficient) check of [cp_reissue]  (theorem cp_reissue_b_sound) ---- *)
Definition cp_strv_eq_dec (x y : strv) : {x = y} + {x <> y}.
Proof. decide equality; apply (list_eq_dec N.eq_dec). Defined.
Definition cp_srcdef_eq_dec (x y : srcdef) : {x = y} + {x <> y}.
Proof. decide equality; try apply cp_strv_eq_dec; apply N.eq_dec. Defined.
Definition cp_sigdef_eq_dec (x y : sigdef) : {x = y} + {x <> y}.
Proof. decide equality; try apply cp_strv_eq_dec; apply N.eq_dec. Defined.
Definition cp_anno_eq_dec (x y : anno) : {x = y} + {x <> y}.
Proof. decide equality; try apply (list_eq_dec N.eq_dec); try apply N.eq_dec; apply Z.eq_dec. Defined.
Definition cp_udata_eq_dec (x y : udata) : {x = y} + {x <> y}.
Proof. decide equality; try apply (list_eq_dec N.eq_dec); apply N.eq_dec. Defined.
Definition cp_zz_eq_dec (x y : Z * Z) : {x = y} + {x <> y}.
Proof. decide equality; apply Z.eq_dec. Defined.
Definition cp_eqb {A : Type} (dec : forall x y : A, {x = y} + {x <> y}) (l1 l2 : list A) : bool :=
  if list_eq_dec dec l1 l2 then true else false.

Fixpoint cp_contig_b (f : Z) (bl : list (Z * list N)) (strm : list N) : bool :=
  match bl with
  | [] => match strm with [] => true | _ => false end
  | (g, smp) :: r =>
    (if Z.eq_dec g f then true else false)
    && (match smp with [] => false | _ => true end)
    && cp_eqb N.eq_dec (firstn (length smp) strm) smp
    && cp_contig_b (f + Z.of_nat (length smp)) r (skipn (length smp) strm)
  end.

(* the signal ids the data calls of a program mention *)
Definition cp_data_ids (p : list wop) : list N :=
  flat_map (fun o => match o with WFsr j _ _ | WOmit j _ | WAnno j _ | WUtc j _ _ => [j] | _ => [] end) p.

Definition cp_reissue_b (p q : list wop) : bool :=
  let a := cp_accepted p in
  let c := spec_of p in
  let ids := map (fun s => sg_id (ss_def s)) (c_signals c) ++ cp_data_ids q ++ cp_data_ids a in
  forallb cp_copy_op q
  && cp_eqb cp_srcdef_eq_dec (map cp_norm_src (cp_srcs q)) (map cp_norm_src (cp_srcs a))
  && cp_eqb cp_sigdef_eq_dec (map cp_norm_sig (cp_sigs q)) (map cp_norm_sig (map sp_align (cp_sigs a)))
  && forallb (fun i => cp_eqb cp_anno_eq_dec (cp_annos i q) (cp_annos i a)) ids
  && forallb (fun i => cp_eqb cp_zz_eq_dec (cp_utcs i q) (cp_utcs i a)) ids
  && cp_eqb cp_udata_eq_dec (cp_uds q) (flat_map cp_ud_store (cp_uds a))
  && forallb (fun i => match find_sig c i with
                       | Some s => match ss_first s with
                                   | Some f => cp_contig_b f (cp_fsr i q) (ss_samples s)
                                   | None => match cp_fsr i q with [] => true | _ => false end
                                   end
                       | None => match cp_fsr i q with [] => true | _ => false end
                       end) ids
  && cp_dbu q.

(* ---- a copy that leaves blocks out (what jls_copy does with the blocks the ORIGINAL writer omitted:
        they exist as summaries only, there is no DATA chunk to re-issue) ---- *)
Definition cp_drop (keep : N -> Z -> bool) (q : list wop) : list wop :=
  filter (fun o => match o with WFsr i sid _ => keep i sid | _ => true end) q.

(* ---- concrete programs for the Examples ---- *)
Definition cp_ex_s1 : srcdef :=
  {| so_id := 1; so_name := SBytes [97;98]; so_vendor := SNull; so_model := SBytes []; so_version := SBytes [49]; so_serial := SNull |}.
Definition cp_ex_s2 : srcdef :=
  {| so_id := 7; so_name := SNull; so_vendor := SBytes [118]; so_model := SNull; so_version := SNull; so_serial := SBytes [50] |}.
Definition cp_ex_g1 : sigdef :=
  {| sg_id := 3; sg_src := 7; sg_type := JLS_SIGNAL_TYPE_FSR; sg_dtype := JLS_DATATYPE_U8; sg_rate := 1000;
     sg_spd := 60; sg_sdf := 20; sg_eps := 15; sg_sumdf := 0; sg_adf := 0; sg_udf := 3; sg_name := SBytes [120]; sg_units := SNull |}.
Definition cp_ex_g2 : sigdef :=
  {| sg_id := 2; sg_src := 1; sg_type := JLS_SIGNAL_TYPE_FSR; sg_dtype := JLS_DATATYPE_F32; sg_rate := 48000;
     sg_spd := 100; sg_sdf := 11; sg_eps := 100; sg_sumdf := 10; sg_adf := 10; sg_udf := 10; sg_name := SNull; sg_units := SBytes [86] |}.
Definition cp_ex_an1 : anno := {| an_ts := 6; an_y := 1065353216; an_type := 1; an_group := 2; an_stype := 2; an_data := [104;105] |}.
Definition cp_ex_an2 : anno := {| an_ts := 6; an_y := 0; an_type := 0; an_group := 0; an_stype := 1; an_data := [] |}.
Definition cp_ex_anbad : anno := {| an_ts := 6; an_y := 0; an_type := 0; an_group := 0; an_stype := 0; an_data := [] |}.
(* 2 sources, 2 FSR signals (u8, f32), a gap (ids 8..11 of signal 3), overlapping writes, annotations (also on signal 0),
   UTC entries, user data (one of storage type INVALID, one with meta above 12 bits), omit / flush calls, and SIX rejected
   calls: data on the undefined signal 9, a repeated signal definition, an annotation with storage type 0, FSR data on
   the VSR signal 0, a repeated source definition *)
Definition cp_ex_p : list wop :=
  [WSrc cp_ex_s1; WUd {| ud_meta := 70000; ud_stype := 1; ud_data := [1;2;3] |}; WSrc cp_ex_s2; WSig cp_ex_g1; WFsr 3 5 [1;2;3];
   WAnno 3 cp_ex_an1; WSig cp_ex_g2; WFsr 2 (-3) [10;11]; WFsr 3 12 [4;5]; WUtc 3 5 1000; WFsr 9 0 [1]; WAnno 0 cp_ex_an2;
   WFsr 3 11 [7;8;9;10;11]; WUd {| ud_meta := 1; ud_stype := 0; ud_data := [9] |}; WOmit 3 1; WFsr 2 2 [12]; WFlush;
   WSig cp_ex_g1; WAnno 2 cp_ex_anbad; WUtc 2 0 5; WUtc 3 9 2000; WAnno 3 cp_ex_an2;
   WUd {| ud_meta := 1; ud_stype := 3; ud_data := [123;125] |}; WFsr 0 0 [1]; WSrc cp_ex_s1].
(* a re-issue written by hand, in an order and with blocks that differ from cp_prog's: strings as read, aligned
   definitions, data interleaved in "file order" *)
Definition cp_ex_q : list wop :=
  [WSrc {| so_id := 1; so_name := SBytes [97;98]; so_vendor := SBytes []; so_model := SBytes []; so_version := SBytes [49]; so_serial := SBytes [] |};
   WUd {| ud_meta := 368; ud_stype := 1; ud_data := [1;2;3] |};
   WSrc {| so_id := 7; so_name := SBytes []; so_vendor := SBytes [118]; so_model := SBytes []; so_version := SBytes []; so_serial := SBytes [50] |};
   WSig {| sg_id := 3; sg_src := 7; sg_type := 0; sg_dtype := JLS_DATATYPE_U8; sg_rate := 1000;
           sg_spd := 64; sg_sdf := 32; sg_eps := 20; sg_sumdf := 20; sg_adf := 100; sg_udf := 10; sg_name := SBytes [120]; sg_units := SBytes [] |};
   WAnno 3 cp_ex_an1;
   WSig {| sg_id := 2; sg_src := 1; sg_type := 0; sg_dtype := JLS_DATATYPE_F32; sg_rate := 48000;
           sg_spd := 80; sg_sdf := 16; sg_eps := 100; sg_sumdf := 10; sg_adf := 10; sg_udf := 10; sg_name := SBytes []; sg_units := SBytes [86] |};
   WUtc 3 5 1000; WAnno 0 cp_ex_an2; WFsr 3 5 [1;2;3;0]; WUtc 2 0 5; WFsr 3 9 [0;0;0;4;5;10];
   WUtc 3 9 2000; WAnno 3 cp_ex_an2; WUd {| ud_meta := 1; ud_stype := 3; ud_data := [123;125] |};
   WFsr 2 (-3) [10;11;2143289344]; WFsr 3 15 [11]; WFsr 2 0 [2143289344;2143289344;12]].
