(* C19 - repair converges; a good file is never modified by opening it.
   Model: coq/RepairRaw.v + coq/RepairModel.v, `rp_open summ1 summN f` = jls_rd_open on the file with bytes f
   (byte-exact correspondence with the C: tools/props/RP.py).  summ1 / summN are the floating-point summary
   oracles: every theorem holds for ALL oracles.  The model opens with mode "r" (rp_raw_open _ false: the state
   has no write operation at all, events can only be produced through rp_commit, which the read side never
   calls) unless the last valid chunk is not END; rp_did = the repair branch (mode "a") was entered.
   Only `exact` + Print Assumptions here; proofs in RepairProofs.v / RepairProofs2.v / RepairProofs3.v. *)
From Coq Require Import NArith List Bool.
From JLS Require Import Generated CrcDefs Format WmRaw WmCore WmFsr WmProofs RepairRaw RepairModel
  RepairProofs RepairProofs2 RepairProofs3 RepairProofsData.
Import ListNotations.
Local Open Scope N_scope.

(* part 1a: an open that does not enter the repair branch performs no backend write / truncate / sync and
   leaves every byte of the file as it is - for EVERY byte string f *)
Theorem C19_open_without_repair_is_read_only :
  forall (summ1 : N -> list N -> wm_sentry) (summN : bool -> list wm_sentry -> wm_sentry) (f : list N),
  rp_did (rp_open summ1 summN f) = false ->
  rp_events (rp_open summ1 summN f) = [] /\ rp_after (rp_open summ1 summN f) = f.
Proof. exact rpp_open_not_did. Qed.
Print Assumptions C19_open_without_repair_is_read_only.

(* part 1b: a file (any length < 2^63) whose last 32 bytes are a CRC-valid END chunk header with an empty
   payload at an 8-aligned offset - whatever the rest of the file holds - never enters the repair branch *)
Theorem C19_closed_file_never_modified :
  forall (summ1 : N -> list N -> wm_sentry) (summN : bool -> list wm_sentry -> wm_sentry) (f : list N),
  64 <= rp_len f -> rp_len f < 9223372036854775808 -> rp_len f mod 8 = 0 ->
  fm_ch_crc_ok (rp_skip (rp_len f - 32) f) = true ->
  fm_tag (fm_ch_fields (rp_skip (rp_len f - 32) f)) = JLS_TAG_END ->
  fm_payload_length (fm_ch_fields (rp_skip (rp_len f - 32) f)) = 0 ->
  rp_did (rp_open summ1 summN f) = false /\ rp_events (rp_open summ1 summN f) = [] /\ rp_after (rp_open summ1 summN f) = f.
Proof. exact rpp_closed_quiet. Qed.
Print Assumptions C19_closed_file_never_modified.

(* the same with the hypothesis as the boolean predicate of the model *)
Theorem C19_ends_with_end_never_modified :
  forall (summ1 : N -> list N -> wm_sentry) (summN : bool -> list wm_sentry -> wm_sentry) (f : list N),
  rp_ends_with_end f = true ->
  rp_did (rp_open summ1 summN f) = false /\ rp_events (rp_open summ1 summN f) = [] /\ rp_after (rp_open summ1 summN f) = f.
Proof. exact rpp_ends_with_end_quiet. Qed.
Print Assumptions C19_ends_with_end_never_modified.

(* the hypothesis is satisfiable: the 832 bytes of a real file written by `jls_wr_open; jls_wr_close` *)
Example C19_closed_file_example : rp_ends_with_end rpp_closed_file = true.
Proof. exact rpp_closed_file_ends_with_end. Qed.
Example C19_closed_file_opens :
  let r := rp_open wm_zero_summ1 wm_zero_summN rpp_closed_file in
  rp_rc r = 0 /\ rp_fault r = 0 /\ rp_did r = false /\ rp_events r = [].
Proof. exact rpp_closed_file_opens. Qed.

(* the model is coherent: for EVERY byte string the file after the open is the given file with the open's
   backend events applied in order (rp_apply_log takes the newest event first) *)
Theorem C19_file_after_is_file_plus_events :
  forall (summ1 : N -> list N -> wm_sentry) (summN : bool -> list wm_sentry -> wm_sentry) (f : list N),
  (rp_after (rp_open summ1 summN f), rp_len (rp_after (rp_open summ1 summN f)))
  = rp_apply_log (f, rp_len f) (rev (rp_events (rp_open summ1 summN f))).
Proof. exact rpp_open_coherent. Qed.
Print Assumptions C19_file_after_is_file_plus_events.

(* part 2 (convergence): if the open repaired the file and returned 0, the file afterwards is 32 bytes longer
   than it was when the END chunk was appended (rp_end_off), ends with a CRC-valid END chunk header, starts with
   the file header carrying exactly its length, and opening it AGAIN does not enter the repair branch: no
   events, the same bytes.  For EVERY byte string f; the three side conditions say that the file before the END
   chunk was at least a file header long, 8-aligned and < 2^63 - 32 bytes (alignment cannot be derived for
   arbitrary corrupt byte strings: a CRC-valid chunk can sit at an odd offset; the correspondence driver checks
   them on every image) *)
Theorem C19_repair_converges :
  forall (summ1 : N -> list N -> wm_sentry) (summN : bool -> list wm_sentry -> wm_sentry) (f : list N),
  let r := rp_open summ1 summN f in
  rp_rc r = 0 -> rp_did r = true ->
  32 <= rp_end_off r -> rp_end_off r mod 8 = 0 -> rp_end_off r + 32 < rp_two63 ->
  rp_len (rp_after r) = rp_end_off r + 32 /\ rp_ends_with_end (rp_after r) = true /\
  rp_take 32 (rp_after r) = wm_file_header_bytes (rp_len (rp_after r)) /\
  let r2 := rp_open summ1 summN (rp_after r) in
  rp_did r2 = false /\ rp_events r2 = [] /\ rp_after r2 = rp_after r.
Proof. exact rpp_repair_converges. Qed.
Print Assumptions C19_repair_converges.

(* the hypotheses are satisfiable: a real crash image (952 bytes, the writer stopped between two writes) *)
Example C19_repair_converges_example :
  let r := rp_open wm_zero_summ1 wm_zero_summN rpp_crash_image in
  rp_rc r = 0 /\ rp_fault r = 0 /\ rp_did r = true /\ rp_end_off r = 952 /\
  32 <= rp_end_off r /\ rp_end_off r mod 8 = 0 /\ rp_end_off r + 32 < rp_two63 /\
  length (rp_events r) = 10%nat /\ rp_len (rp_after r) = 984.
Proof. exact rpp_crash_image_repaired. Qed.
