(* C06, message format of the threaded writer ("every accepted call is applied ... with exactly the bytes given").
   Model: TwrMsg.v (struct msg_header_s as laid out on x86-64, the producers jls_twr_user_data / jls_twr_fsr /
   jls_twr_fsr_f32 / jls_twr_fsr_omit_data / jls_twr_annotation / jls_twr_utc / jls_twr_flush / jls_twr_close with
   msg_send_inner, and the dispatch of jls_twr_run); proofs: TwrMsgProofs.v.
   tm_encode tbl c : the bytes the producer copies into the ring-buffer slot for the API call c (tbl: the
                     fsr_entry_size_bits table as the producer reads it), or the rejection code, or a fault;
   tm_decode m     : the synchronous-writer call jls_twr_run makes for the message m;
   tm_norm tbl c   : "the same call" = the call with its data argument cut to what the callee reads:
                     STRING/JSON: bytes up to and including the first NUL, size strlen+1 (data_size ignored);
                     other storage: the first data_size bytes; FSR: the first ceil(count*bits/8) bytes.  Nothing else.
   tm_call_ok      : arguments are values of their C types (enum arguments storage_type / annotation_type: their
                     uint32 value, unconstrained), caller buffers < 4 GiB.  Nothing about the enum range or the FSR
                     payload length: since the repair of K-C06-fsr-len-trunc / K-C06-enum-trunc the producers reject
                     such calls (C06_msg_out_of_range_rejected), so every ACCEPTED call is in range
                     (C06_msg_accepted_in_range) and round trip / in bounds hold for every accepted call.
   All theorems are for ALL calls / tables / programs / schedules.  Padding bytes are modelled as zero although gcc
   leaves them uninitialised in the fsr / utc / annotation headers: C06_msg_padding_irrelevant shows the consumer's
   call does not depend on them.  Not covered: the unlocked read of the table by jls_twr_fsr (the table value is a
   parameter of every sending call). *)
From Coq Require Import NArith ZArith List Bool.
From JLS Require Import Generated Spec MrbModel TwrModel TwrProofs TwrMsg TwrMsgProofs.
From JLS Require ComposeGuards WriterModel WmWriteOnce WriteOnce.
Import ListNotations.
Local Open Scope N_scope.

(* round trip: the writer thread hands the synchronous writer the same call, normalised *)
Theorem C06_msg_roundtrip :
  forall (tbl : N -> N) (c : tm_call) (m : msg),
  tm_call_ok tbl c -> tm_encode tbl c = TmMsg m -> tm_decode m = Some (tm_norm tbl c).
Proof. exact tm_roundtrip. Qed.
Print Assumptions C06_msg_roundtrip.

(* length: header size + payload size (tm_psize: strlen+1 / data_size / ceil(count*bits/8) / 0), below 2^32 *)
Theorem C06_msg_length :
  forall (tbl : N -> N) (c : tm_call) (m : msg),
  tm_call_ok tbl c -> tm_encode tbl c = TmMsg m ->
  len m = SIZEOF_msg_header + tm_psize tbl c /\ len m < 4294967296.
Proof. exact tm_length. Qed.
Print Assumptions C06_msg_length.

(* in bounds: the message holds a whole header; the data pointer handed on is the rest of the message (size = its
   length); what the callee reads through it (strlen+1 bytes for STRING/JSON: a NUL is inside; `size` bytes otherwise;
   ceil(count * bits / 8) bytes for FSR) lies inside the message *)
Theorem C06_msg_in_bounds :
  forall (tbl : N -> N) (c : tm_call) (m : msg),
  tm_call_ok tbl c -> tm_encode tbl c = TmMsg m ->
  SIZEOF_msg_header <= len m /\
  exists w, tm_decode m = Some w /\ tm_wcall_inb tbl w = true /\
    match w with
    | TmWUser _ _ data size | TmWAnn _ _ _ _ _ _ data size => data = skipn 40 m /\ size = len data
    | TmWFsr _ _ data _ => data = skipn 40 m
    | _ => True
    end.
Proof. exact tm_in_bounds. Qed.
Print Assumptions C06_msg_in_bounds.

(* injectivity modulo normalisation: two accepted calls with the same message are the same call (whatever the
   tables); conversely the message is determined by the normal form *)
Theorem C06_msg_injective :
  forall (tbl1 tbl2 : N -> N) (c1 c2 : tm_call) (m : msg),
  tm_call_ok tbl1 c1 -> tm_call_ok tbl2 c2 ->
  tm_encode tbl1 c1 = TmMsg m -> tm_encode tbl2 c2 = TmMsg m -> tm_norm tbl1 c1 = tm_norm tbl2 c2.
Proof. exact tm_injective. Qed.
Print Assumptions C06_msg_injective.

Theorem C06_msg_norm_determines_msg :
  forall (tbl : N -> N) (c1 c2 : tm_call) (m1 m2 : msg),
  tm_call_ok tbl c1 -> tm_call_ok tbl c2 ->
  tm_encode tbl c1 = TmMsg m1 -> tm_encode tbl c2 = TmMsg m2 -> tm_norm tbl c1 = tm_norm tbl c2 -> m1 = m2.
Proof. exact tm_norm_determines_msg. Qed.
Print Assumptions C06_msg_norm_determines_msg.

(* padding: gcc leaves bytes 1..7, 10..15 (and 28..31 of fsr, 27 of annotation) of the fsr / utc / annotation headers
   uninitialised; whatever they contain, the writer thread makes the same call as for the zero-padded message *)
Theorem C06_msg_padding_irrelevant :
  forall (pa pb pc pd p : list N) (sig : N) (sid utc ts : Z) (count y atype group stype : N),
  length pa = 7%nat -> length pb = 6%nat -> length pc = 4%nat -> length pd = 1%nat ->
  tm_decode (([3] ++ pa ++ tw_le 2 sig ++ pb ++ tw_le 8 (tm_u64 sid) ++ tw_le 4 count ++ pc ++ tw_le 8 0) ++ p)
    = tm_decode (tm_hdr_fsr sig sid count ++ p) /\
  tm_decode (([6] ++ pa ++ tw_le 2 sig ++ pb ++ tw_le 8 (tm_u64 sid) ++ tw_le 8 (tm_u64 utc) ++ tw_le 8 0) ++ p)
    = tm_decode (tm_hdr_utc sig sid utc ++ p) /\
  tm_decode (([5] ++ pa ++ tw_le 2 sig ++ pb ++ tw_le 8 (tm_u64 ts) ++ tw_le 1 atype ++ tw_le 1 stype ++ tw_le 1 group
               ++ pd ++ tw_le 4 y ++ tw_le 8 0) ++ p)
    = tm_decode (tm_hdr_ann sig ts y atype group stype ++ p).
Proof. exact tm_padding_irrelevant. Qed.
Print Assumptions C06_msg_padding_irrelevant.

(* the two former truncation defects (K-C06-fsr-len-trunc, K-C06-enum-trunc) are repaired by rejection before
   queueing.  Every call with an enum argument above 255 and every FSR call on a defined signal whose payload does
   not fit a uint32 message beside the header returns JLS_ERROR_PARAMETER_INVALID (nothing is queued: TmRej) *)
Theorem C06_msg_out_of_range_rejected :
  forall (tbl : N -> N),
  (forall meta stype data size, 255 < stype -> tm_encode tbl (TmUser meta stype data size) = TmRej JLS_ERROR_PARAMETER_INVALID) /\
  (forall sig ts y atype group stype data size, 255 < stype \/ 255 < atype ->
     tm_encode tbl (TmAnn sig ts y atype group stype data size) = TmRej JLS_ERROR_PARAMETER_INVALID) /\
  (forall sig sid data count, sig < JLS_SIGNAL_COUNT -> tbl sig <> 0 ->
     4294967295 - SIZEOF_msg_header < (count * tbl sig + 7) / 8 ->
     tm_encode tbl (TmFsr sig sid data count) = TmRej JLS_ERROR_PARAMETER_INVALID).
Proof. exact tm_out_of_range_rejected. Qed.
Print Assumptions C06_msg_out_of_range_rejected.

(* conversely an accepted call is in range, whatever its arguments (no hypothesis) *)
Theorem C06_msg_accepted_in_range :
  forall (tbl : N -> N) (c : tm_call) (m : msg), tm_encode tbl c = TmMsg m ->
  match c with
  | TmUser _ stype _ _ => stype < 256
  | TmAnn _ _ _ atype _ stype _ _ => stype < 256 /\ atype < 256
  | TmFsr sig _ _ count => (count * tbl sig + 7) / 8 <= 4294967255
  | _ => True
  end.
Proof. exact tm_accept_facts. Qed.
Print Assumptions C06_msg_accepted_in_range.

(* the former witnesses: (1) jls_twr_fsr(signal 1 with 64-bit samples, 2^29 samples = 2^32 bytes) used to queue a 40-byte
   message with sample_count = 2^29 and no payload; it satisfies tm_call_ok and is now rejected *)
Theorem C06_msg_fsr_length_overflow_rejected :
  tm_call_ok tm_trunc_tbl tm_trunc_call /\
  tm_encode tm_trunc_tbl tm_trunc_call = TmRej JLS_ERROR_PARAMETER_INVALID.
Proof. exact tm_trunc_rejected. Qed.
Print Assumptions C06_msg_fsr_length_overflow_rejected.

(* (2) jls_twr_annotation with storage_type 258 (not STRING as an int, 2 = STRING as a uint8) used to be queued as
   binary data and arrive as a STRING without NUL; it satisfies tm_call_ok and is now rejected *)
Theorem C06_msg_enum_out_of_range_rejected :
  tm_call_ok tm_ex_tbl tm_enum_call /\
  tm_encode tm_ex_tbl tm_enum_call = TmRej JLS_ERROR_PARAMETER_INVALID.
Proof. exact tm_enum_rejected. Qed.
Print Assumptions C06_msg_enum_out_of_range_rejected.

(* the FLUSH and CLOSE messages of the protocol model (TwrModel.tw_flush_msg / tw_close_msg) are the encodings *)
Theorem C06_msg_flush_is_protocol_msg :
  forall (tbl : N -> N) (id : N), tm_encode tbl (TmFlush id) = TmMsg (tw_flush_msg id).
Proof. exact tm_flush_is_tw. Qed.
Print Assumptions C06_msg_flush_is_protocol_msg.
Theorem C06_msg_close_is_protocol_msg :
  forall (tbl : N -> N), tm_encode tbl TmClose = TmMsg tw_close_msg.
Proof. exact tm_close_is_tw. Qed.
Print Assumptions C06_msg_close_is_protocol_msg.

(* composition with the protocol theorems (C06_file_refines_sync), for every schedule of every program of API calls
   (tm_compile: a sending call becomes TwCSend with the bytes of tm_encode; a call rejected before queueing makes no
   protocol step), any capacity 48..2^31, drop flag on/off, repaired close or not:
   when jls_twr_close has returned, the operations the writer thread handed to the synchronous writer are, in
   order, the accepted messages in queue order (tw_accepted: msg_mutex acquisition order, tagged with producer and
   call index), and every accepted message m of producer i decodes to a call w that is
     - tm_norm of a sending call of producer i's program whose encoding is exactly m, or
     - the flush of a jls_twr_flush of producer i (ticket id), or the quit of its jls_twr_close. *)
Theorem C06_msg_applied_calls_are_accepted_calls :
  forall (fx : bool) (cap : N) (cprogs : list (list tm_pcall)) (s : tw_state),
  (forall cs tbl c, In cs cprogs -> In (TmPCall tbl c) cs -> tm_call_ok tbl c) ->
  tw_wf cap (map tm_compile cprogs) -> tw_wf_close (map tm_compile cprogs) ->
  tw_reach fx cap (map tm_compile cprogs) s -> In TwAEnd (tw_applied s) ->
  exists l, tw_applied s = l ++ [TwAEnd] /\ ~ In TwAEnd l /\
    tw_msgs_of l = map snd (tw_accepted s) /\
    exists ws, Forall2 (fun e w => tm_decode (snd e) = Some w /\
                                   exists cs, nth_error cprogs (fst (fst e)) = Some cs /\
                                     ((exists tbl c, In (TmPCall tbl c) cs /\ tm_kind c <> None /\
                                                     tm_encode tbl c = TmMsg (snd e) /\ w = tm_norm tbl c) \/
                                      (exists id, In TmPFlush cs /\ tm_encode (fun _ => 0) (TmFlush id) = TmMsg (snd e) /\
                                                  w = TmWFlush (id mod 18446744073709551616)) \/
                                      (In TmPClose cs /\ tm_encode (fun _ => 0) TmClose = TmMsg (snd e) /\ w = TmWQuit)))
                       (tw_accepted s) ws.
Proof. exact tm_applied_calls. Qed.
Print Assumptions C06_msg_applied_calls_are_accepted_calls.

(* one call, any schedule (C06_rejected_leaves_no_trace + round trip): a sending call whose message is the encoding of
   the API call c and that returned 0 has exactly one entry in the accepted list, with exactly the bytes of tm_encode,
   which the writer thread decodes to c normalised; a call that returned JLS_ERROR_BUSY has none *)
Theorem C06_msg_returned_call_queued_once :
  forall (fx : bool) (cap : N) (progs : list (list tw_call)) (s : tw_state) (i idx : nat) (k : tw_mkind) (body : list N)
         (rc : option N) (tbl : N -> N) (c : tm_call),
  tw_wf cap progs -> tw_wf_close progs -> tw_reach fx cap progs s ->
  In (TwEvRet (TwTProd i) idx (TwCSend k body) rc) (tw_trace s) ->
  tm_call_ok tbl c -> tm_encode tbl c = TmMsg (tw_user_msg k body) ->
  (rc = Some 0 /\ exists m, tw_msgs_with_id i idx (tw_accepted s) = [m] /\ tm_encode tbl c = TmMsg m /\
                            tm_decode m = Some (tm_norm tbl c)) \/
  (rc = Some tw_EBUSY /\ tw_msgs_with_id i idx (tw_accepted s) = []).
Proof. exact tm_returned_call. Qed.
Print Assumptions C06_msg_returned_call_queued_once.

(* at any reachable state (not only after close): every accepted message is such an encoding *)
Theorem C06_msg_accepted_is_encoding :
  forall (fx : bool) (cap : N) (cprogs : list (list tm_pcall)) (s : tw_state) (i idx : nat) (m : msg),
  (forall cs tbl c, In cs cprogs -> In (TmPCall tbl c) cs -> tm_call_ok tbl c) ->
  tw_reach fx cap (map tm_compile cprogs) s -> In (i, idx, m) (tw_accepted s) ->
  exists w, tm_decode m = Some w /\ exists cs, nth_error cprogs i = Some cs /\ tm_origin cs m w.
Proof. exact tm_accepted_origin. Qed.
Print Assumptions C06_msg_accepted_is_encoding.

(* the reading `dec` that Properties_compose.compose_C14_threaded_writer quantifies over, instantiated:
   dec := tm_dec tbl defs (TwrMsg.v).  Without definitions in the list, the writer calls cmp_twr_calls computes
   are the decoded messages read as Spec operations (tm_wop: FSR samples = the count w-bit fields of the payload) *)
Theorem C06_msg_dec_for_compose :
  forall (tbl : N -> N) (l : list tw_aop), (forall i d, ~ In (TwADef i d) l) ->
  ComposeGuards.cmp_twr_calls (tm_dec tbl (fun _ => None)) l =
  flat_map (fun m => match tm_decode m with
                     | Some w => match tm_wop tbl w with Some o => [o] | None => [] end
                     | None => [] end) (tw_msgs_of l).
Proof. exact tm_dec_msgs. Qed.
Print Assumptions C06_msg_dec_for_compose.

(* compose_C14_threaded_writer instantiated with dec := tm_dec tbl defs (any table, any reading of the opaque
   definition numbers): the byte-exact writer model run over the calls the writer thread decodes from the accepted
   messages has no fault and its backend log passes the write-once checker, every prefix included.  What does NOT fit:
   the protocol model keeps definitions as opaque numbers (TwCDef d), so WSrc / WSig are supplied by `defs`; the FSR
   samples are read with ONE table `tbl` for the whole run (tm_wop), while a producer may see the table change. *)
Theorem C06_msg_write_once :
  forall (fx : bool) (cap : N) (cprogs : list (list tm_pcall)) (s : tw_state) (tbl : N -> N) (defs : N -> option wop),
  tw_wf cap (map tm_compile cprogs) -> tw_wf_close (map tm_compile cprogs) ->
  tw_reach fx cap (map tm_compile cprogs) s -> In TwAEnd (tw_applied s) ->
  exists l, tw_applied s = l ++ [TwAEnd] /\ ~ In TwAEnd l /\ tw_msgs_of l = tw_acc_msgs s /\
    forall summ1 summN (lo : Z),
      let p := ComposeGuards.cmp_twr_calls (tm_dec tbl defs) l in
      let st := fst (WriterModel.wm_run_full summ1 summN p) in
      N.of_nat (length p) < 1000000000000000 ->
      (forall sig sid samples, In (WFsr sig sid samples) p ->
         (lo <= sid /\ sid + Z.of_nat (length samples) < lo + 1000000000000000)%Z) ->
      WmWriteOnce.wmw_bounded (WriterModel.wm_st_log st) ->
      WriterModel.wm_st_fault st = false /\
      WriteOnce.wo_check_log (WmWriteOnce.wmw_evs (WriterModel.wm_st_log st)) = true /\
      forall k, WriteOnce.wo_check_log (firstn k (WmWriteOnce.wmw_evs (WriterModel.wm_st_log st))) = true.
Proof. exact tm_write_once. Qed.
Print Assumptions C06_msg_write_once.

(* "the same call" has the same EFFECT: for an accepted call, the Spec operation read from the normalised call the
   writer thread makes (tm_wop (tm_norm c)) and the Spec operation of the same arguments given to the synchronous API
   directly (tm_wop_direct c: whole caller buffer for strings, first data_size bytes otherwise, whole sample buffer)
   take the byte-exact synchronous writer model from any state to the same state with the same return code *)
Theorem C06_msg_same_effect_as_direct_call :
  forall (tbl : N -> N) (c : tm_call) (m : msg) (o1 o2 : wop) summ1 summN (st : WriterModel.wm_state),
  tm_encode tbl c = TmMsg m -> tm_wop tbl (tm_norm tbl c) = Some o1 -> tm_wop_direct tbl c = Some o2 ->
  WriterModel.wm_step_rc summ1 summN st o1 = WriterModel.wm_step_rc summ1 summN st o2.
Proof. exact tm_same_effect. Qed.
Print Assumptions C06_msg_same_effect_as_direct_call.

(* Spec operations through the queue: the API call for a Spec operation o (tm_call_of_wop: samples packed with
   Spec.pack, strings NUL-terminated), once accepted, is decoded by the writer thread to the normalised call, whose Spec
   reading o' has exactly the effect of o on the byte-exact synchronous writer model (same next state, same return
   code, from any state).  Guard: FSR samples are w-bit patterns (w = the table entry), as Spec.WFsr says. *)
Theorem C06_msg_spec_op_roundtrip :
  forall (tbl : N -> N) (id : N) (o : wop) (c : tm_call) (m : msg),
  tm_call_of_wop tbl id o = Some c -> tm_call_ok tbl c -> tm_encode tbl c = TmMsg m ->
  (forall sig sid samples, o = WFsr sig sid samples -> Forall (fun x => x < 2 ^ tbl sig) samples) ->
  exists w o', tm_decode m = Some w /\ w = tm_norm tbl c /\ tm_wop tbl w = Some o' /\
    forall summ1 summN (st : WriterModel.wm_state),
      WriterModel.wm_step_rc summ1 summN st o' = WriterModel.wm_step_rc summ1 summN st o.
Proof. exact tm_wop_roundtrip. Qed.
Print Assumptions C06_msg_spec_op_roundtrip.

Example C06_msg_example_spec_ops :
  forallb tm_ex_wop_check tm_ex_wops = true /\
  Forall (fun o => exists c, tm_call_of_wop tm_ex_tbl 1 o = Some c /\ tm_call_ok tm_ex_tbl c /\
                   (forall sig sid samples, o = WFsr sig sid samples -> Forall (fun x => x < 2 ^ tm_ex_tbl sig) samples)) tm_ex_wops.
Proof. exact tm_ex_wops_ok. Qed.
Print Assumptions C06_msg_example_spec_ops.

(* the reading of FSR payloads used by tm_wop inverts Spec.pack (samples modulo 2^w), for every width *)
Theorem C06_msg_unpack_inverts_pack :
  forall (w : N) (l : list N), tm_unpack w (N.of_nat (length l)) (pack w l) = map (fun s => s mod 2 ^ w) l.
Proof. exact tm_unpack_pack. Qed.
Print Assumptions C06_msg_unpack_inverts_pack.

(* the hypotheses are satisfiable *)
Example C06_msg_example_calls :
  Forall (tm_call_ok tm_ex_tbl) tm_ex_calls /\
  forallb (fun c => match tm_encode tm_ex_tbl c with TmMsg _ => true | _ => false end) tm_ex_calls = true /\
  map (fun c => match tm_encode tm_ex_tbl c with TmMsg m => len m | _ => 0 end) tm_ex_calls = [43; 43; 48; 42; 40; 42; 40; 40; 40].
Proof. exact tm_ex_ok. Qed.
Print Assumptions C06_msg_example_calls.

Example C06_msg_example_run : exists s,
  (forall cs tbl c, In cs tm_run_prog -> In (TmPCall tbl c) cs -> tm_call_ok tbl c) /\
  tw_wf 128 (map tm_compile tm_run_prog) /\ tw_wf_close (map tm_compile tm_run_prog) /\
  tw_reach false 128 (map tm_compile tm_run_prog) s /\ In TwAEnd (tw_applied s) /\
  length (tw_accepted s) = 5%nat.
Proof. exact tm_ex_run. Qed.
Print Assumptions C06_msg_example_run.
