(* Proofs about the model of REPAIR-ON-OPEN, part 2: the repair branch keeps the file coherent with the events
   (rpp_coh: the file of the state = the original file with the log applied, its recorded length = its length),
   through jls_track_repair_pointers, jls_core_repair_fsr and the exits.  Lemma names start with rpp_. *)
From Coq Require Import NArith ZArith List Bool Lia.
From Coq Require Import ZifyBool ZifyN ZifyNat.
From JLS Require Import Generated CrcDefs Spec Format FormatProofs WmRaw WmCore WmFsr WriterModel RepairRaw RepairModel RepairProofs.
Import ListNotations.
Local Open Scope N_scope.
Ltac Zify.zify_post_hook ::= Z.div_mod_to_equations.

Lemma rpp_wpres_io' : forall w w0 s', rpp_wpres w w0 -> rpp_frame (rp_w_io w0) s' -> rpp_wpres w (rp_w_set_io w0 s').
Proof. intros w w0 s' H F. eapply rpp_wpres_trans; [exact H | apply rpp_wpres_io; exact F]. Qed.

Lemma rpp_buf_u32_frame : forall s off, rpp_frame s (fst (rp_buf_u32 s off)).
Proof. intros s off. unfold rp_buf_u32. pose proof (rpp_buf_sub_frame s off 4) as F. destruct (rp_buf_sub s off 4). exact F. Qed.
Lemma rpp_buf_u64_frame : forall s off, rpp_frame s (fst (rp_buf_u64 s off)).
Proof. intros s off. unfold rp_buf_u64. pose proof (rpp_buf_sub_frame s off 8) as F. destruct (rp_buf_sub s off 8). exact F. Qed.

Lemma rpp_first_level_frame : forall k s t ch, rpp_frame s (fst (fst (rp_first_level k s t ch))).
Proof.
  induction k as [| k IH]; intros s t ch; cbn [rp_first_level]; [apply rpp_frame_refl |].
  destruct (wm_get_off (wm_tk_offsets t) (N.of_nat (S k)) =? 0); [apply IH |].
  destruct (rp_chunk_seek s (wm_get_off (wm_tk_offsets t) (N.of_nat (S k)))) as [s1 rc] eqn:E.
  pose proof (rpp_chunk_seek_frame s (wm_get_off (wm_tk_offsets t) (N.of_nat (S k)))) as F. rewrite E in F. cbn [fst] in F.
  destruct (rc =? 0); [exact F |]. eapply rpp_frame_trans; [exact F | apply IH].
Qed.

(* ---------------- track.c ---------------- *)
Lemma rpp_ptr_descend_pres : forall w t level offset idx sum desc,
  rpp_wpres w (fst (fst (rp_ptr_descend w t level offset idx sum desc))).
Proof.
  intros. unfold rp_ptr_descend.
  match goal with |- context [if ?b then _ else _] => destruct b end; cbn [fst].
  - eapply rpp_wpres_trans; apply rpp_wpres_update_chunk_header.
  - apply rpp_wpres_refl.
Qed.

Lemma rpp_seek_rd_frame : forall s o,
  rpp_frame s (fst (let '(s1, rc1) := rp_chunk_seek s o in if rc1 =? 0 then rp_rd_chunk s1 else (s1, rc1))).
Proof.
  intros s o. pose proof (rpp_chunk_seek_frame s o) as F. destruct (rp_chunk_seek s o) as [s1 rc1]. cbn [fst] in F.
  destruct (rc1 =? 0); [| exact F]. eapply rpp_frame_trans; [exact F | apply rpp_rd_chunk_frame].
Qed.

Lemma rpp_ptr_levels_pres : forall fuel w t level offset idx sum desc,
  rpp_wpres w (fst (fst (fst (rp_ptr_levels fuel w t level offset idx sum desc)))).
Proof.
  induction fuel as [| fu IH]; intros w t level offset idx sum desc; cbn [rp_ptr_levels]; [apply rpp_wpres_fault |].
  destruct (level =? 0); [apply rpp_wpres_refl |].
  pose proof (rpp_seek_rd_frame (rp_w_io w) offset) as F2.
  destruct (rp_chunk_seek (rp_w_io w) offset) as [s1 rc1].
  destruct (if rc1 =? 0 then rp_rd_chunk s1 else (s1, rc1)) as [s2 rc2]. cbn [fst] in F2.
  destruct (negb (rc2 =? 0)).
  { pose proof (rpp_ptr_descend_pres (rp_w_set_io w s2) t level offset idx sum desc) as D.
    destruct (rp_ptr_descend (rp_w_set_io w s2) t level offset idx sum desc) as [[w1 t1] offset1]. cbn [fst] in D.
    eapply rpp_wpres_trans; [| apply IH]. eapply rpp_wpres_trans; [apply rpp_wpres_io; exact F2 | exact D]. }
  pose proof (rpp_buf_u32_frame s2 OFFSETOF_payload_entry_count) as F3.
  destruct (rp_buf_u32 s2 OFFSETOF_payload_entry_count) as [s3 ec]. cbn [fst] in F3.
  set (p4 := if ec =? 0 then (s3, 0)
             else if wm_tk_type t =? JLS_TRACK_TYPE_FSR then rp_buf_u64 s3 (SIZEOF_payload_header + 8 * (ec - 1))
             else rp_buf_u64 s3 (SIZEOF_payload_header + SIZEOF_index_entry * (ec - 1) + 8)).
  assert (F4 : rpp_frame s3 (fst p4)).
  { unfold p4. destruct (ec =? 0); [apply rpp_frame_refl |].
    destruct (wm_tk_type t =? JLS_TRACK_TYPE_FSR); apply rpp_buf_u64_frame. }
  destruct p4 as [s4 dnext]. cbn [fst] in F4.
  pose proof (rpp_rd_chunk_frame s4) as F5. destruct (rp_rd_chunk s4) as [s5 rc3]. cbn [fst] in F5.
  assert (G5 : rpp_frame (rp_w_io w) s5).
  { eapply rpp_frame_trans; [exact F2 |]. eapply rpp_frame_trans; [exact F3 |]. eapply rpp_frame_trans; [exact F4 | exact F5]. }
  destruct (negb (rc3 =? 0)).
  { pose proof (rpp_ptr_descend_pres (rp_w_set_io w s5) t level offset idx sum desc) as D.
    destruct (rp_ptr_descend (rp_w_set_io w s5) t level offset idx sum desc) as [[w1 t1] offset1]. cbn [fst] in D.
    eapply rpp_wpres_trans; [| apply IH]. eapply rpp_wpres_trans; [apply rpp_wpres_io; exact G5 | exact D]. }
  destruct (fm_item_next (wm_ck_hdr (rp_cur s2)) =? 0).
  { match goal with |- context [rp_ptr_descend ?a ?b ?c ?d ?e ?f ?g] =>
      pose proof (rpp_ptr_descend_pres a b c d e f g) as D; destruct (rp_ptr_descend a b c d e f g) as [[w2 t2] offset2] end.
    cbn [fst] in D. eapply rpp_wpres_trans; [| apply IH]. eapply rpp_wpres_trans; [apply rpp_wpres_io; exact G5 | exact D]. }
  eapply rpp_wpres_trans; [apply rpp_wpres_io; exact G5 | apply IH].
Qed.

Lemma rpp_ptr_data_pres : forall fuel w offset data sum, rpp_wpres w (rp_ptr_data fuel w offset data sum).
Proof.
  induction fuel as [| fu IH]; intros w offset data sum; cbn [rp_ptr_data]; [apply rpp_wpres_fault |].
  destruct (offset =? 0); [apply rpp_wpres_refl |].
  pose proof (rpp_seek_rd_frame (rp_w_io w) offset) as F2.
  destruct (rp_chunk_seek (rp_w_io w) offset) as [s1 rc1].
  destruct (if rc1 =? 0 then rp_rd_chunk s1 else (s1, rc1)) as [s2 rc2]. cbn [fst] in F2.
  destruct (negb (rc2 =? 0)).
  - destruct (wm_ck_offset data =? 0); [apply rpp_wpres_io; exact F2 |].
    eapply rpp_wpres_trans; [apply rpp_wpres_io; exact F2 | apply rpp_wpres_update_chunk_header].
  - eapply rpp_wpres_trans; [apply rpp_wpres_io; exact F2 | apply IH].
Qed.

Lemma rpp_track_wr_head_pres : forall w id t, rpp_wpres w (fst (rp_track_wr_head w id t)).
Proof.
  intros w id t. unfold rp_track_wr_head.
  destruct (wm_track_wr_head (rp_wm_base w (wm_ck_offset (wm_tk_head t))) id t) as [b1 t1]. cbn [fst]. apply rpp_wpres_commit.
Qed.

Lemma rpp_repair_pointers_pres : forall w id t, rpp_wpres w (fst (rp_repair_pointers w id t)).
Proof.
  intros w id t. unfold rp_repair_pointers.
  pose proof (rpp_first_level_frame rp_top_level (rp_w_io w) t true) as F1.
  destruct (rp_first_level rp_top_level (rp_w_io w) t true) as [[s1 t1] level]. cbn [fst] in F1.
  match goal with |- context [rp_ptr_levels ?a ?b ?c ?d ?e ?f ?g ?h] =>
    pose proof (rpp_ptr_levels_pres a b c d e f g h) as P2; destruct (rp_ptr_levels a b c d e f g h) as [[[w2 t2] offset2] sum2] end.
  cbn [fst] in P2.
  eapply rpp_wpres_trans; [apply rpp_wpres_io; exact F1 |].
  eapply rpp_wpres_trans; [exact P2 |].
  eapply rpp_wpres_trans; [apply rpp_ptr_data_pres | apply rpp_track_wr_head_pres].
Qed.

Lemma rpp_fold_left_pres : forall (A : Type) (g : rp_w -> A -> rp_w) (l : list A) (w : rp_w),
  (forall w0 a, rpp_wpres w0 (g w0 a)) -> rpp_wpres w (fold_left g l w).
Proof.
  intros A g l. induction l as [| a l IH]; intros w H; cbn [fold_left]; [apply rpp_wpres_refl |].
  eapply rpp_wpres_trans; [apply H | apply IH; exact H].
Qed.

Lemma rpp_repair_tracks_pres : forall w id, rpp_wpres w (rp_repair_tracks w id).
Proof.
  intros w id. unfold rp_repair_tracks. apply rpp_fold_left_pres. intros w0 ty.
  destruct (rp_sg_track (rp_get_sig (rp_c w0) id) ty) as [has t]. destruct has; [| apply rpp_wpres_refl].
  pose proof (rpp_repair_pointers_pres w0 id t) as P. destruct (rp_repair_pointers w0 id t) as [w1 t1]. cbn [fst] in P.
  eapply rpp_wpres_trans; [exact P |]. apply rpp_wpres_c. rewrite rpp_put_sig_io. apply rpp_frame_refl.
Qed.
Lemma rpp_repair_all_pointers_pres : forall w, rpp_wpres w (rp_repair_all_pointers w).
Proof.
  intros w. unfold rp_repair_all_pointers. apply rpp_fold_left_pres. intros w0 id.
  destruct (rp_sg_sigid (rp_get_sig (rp_c w0) id) =? id); [apply rpp_repair_tracks_pres | apply rpp_wpres_refl].
Qed.

(* ---------------- core.c: jls_core_repair_fsr ---------------- *)
Section FSR.
Variable summ1 : N -> list N -> wm_sentry.
Variable summN : bool -> list wm_sentry -> wm_sentry.

Lemma rpp_unfx_pres : forall w x, rpp_wpres w (fst (fst (rp_unfx w x))).
Proof. intros. unfold rp_unfx. cbn [fst]. apply rpp_wpres_commit. Qed.

Lemma rpp_fsr_summaryN_pres : forall d w t f level pos, rpp_wpres w (fst (fst (rp_fsr_summaryN summN d w t f level pos))).
Proof.
  intros. unfold rp_fsr_summaryN.
  destruct (JLS_SUMMARY_LEVEL_COUNT <=? level); [apply rpp_wpres_fault |].
  destruct (wm_f_get_level f (level - 1)) as [src |]; [| apply rpp_wpres_fault].
  match goal with |- context [wm_f_get_level ?a level] => destruct (wm_f_get_level a level) as [up |] end; [| apply rpp_wpres_refl].
  destruct (sg_eps d <=? wm_fl_nsum up); [apply rpp_unfx_pres | apply rpp_wpres_refl].
Qed.

Lemma rpp_fsr_levels_pres : forall fuel d w t f level offset skip,
  rpp_wpres w (fst (fst (fst (fst (fst (rp_fsr_levels summN fuel d w t f level offset skip)))))).
Proof.
  induction fuel as [| fu IH]; intros d w t f level offset skip; cbn [rp_fsr_levels]; [apply rpp_wpres_fault |].
  destruct (level =? 0); [apply rpp_wpres_refl |].
  destruct (wm_f_get_level f level) as [lv |]; [| apply rpp_wpres_fault].
  pose proof (rpp_rd_chunk_frame (rp_w_io w)) as F1. destruct (rp_rd_chunk (rp_w_io w)) as [s1 rc1]. cbn [fst] in F1.
  destruct (negb (rc1 =? 0)); [apply rpp_wpres_io; exact F1 |].
  match goal with |- context [if ?b then (rp_w_set_io w s1, t, f, offset, skip, 0) else _] => destruct b end; [apply rpp_wpres_io; exact F1 |].
  destruct (rp_lvl_load_index lv (rp_payload s1) (fm_payload_length (wm_ck_hdr (rp_cur s1)))) as [[[lv1 esb] complete] repr].
  set (s1a := if rp_index_sz d level <? fm_payload_length (wm_ck_hdr (rp_cur s1)) then rp_io_fault s1 RpF_heap
              else if negb repr then rp_io_fault s1 RpF_fmt else s1).
  assert (F1a : rpp_frame s1 s1a).
  { unfold s1a. destruct (rp_index_sz d level <? fm_payload_length (wm_ck_hdr (rp_cur s1))); [apply rpp_io_fault_frame |].
    destruct (negb repr); [apply rpp_io_fault_frame | apply rpp_frame_refl]. }
  pose proof (rpp_rd_chunk_frame s1a) as F2. destruct (rp_rd_chunk s1a) as [s2 rc2]. cbn [fst] in F2.
  assert (G2 : rpp_frame (rp_w_io w) s2).
  { eapply rpp_frame_trans; [exact F1 |]. eapply rpp_frame_trans; [exact F1a | exact F2]. }
  destruct (negb (rc2 =? 0)).
  { apply rpp_wpres_io. destruct complete; [exact G2 |]. eapply rpp_frame_trans; [exact G2 | apply rpp_io_fault_frame]. }
  match goal with |- context [if ?b || ?c then _ else _] => destruct (b || c) end.
  { apply rpp_wpres_io. destruct complete; [exact G2 |]. eapply rpp_frame_trans; [exact G2 | apply rpp_io_fault_frame]. }
  destruct (rp_lvl_load_summary (sg_dtype d) lv1 (rp_payload s2) (fm_payload_length (wm_ck_hdr (rp_cur s2)))) as [lv2 repr2].
  set (s2a := if rp_summary_sz d <? fm_payload_length (wm_ck_hdr (rp_cur s2)) then rp_io_fault s2 RpF_heap
              else if negb repr2 then rp_io_fault s2 RpF_fmt else s2).
  assert (F2a : rpp_frame s2 s2a).
  { unfold s2a. destruct (rp_summary_sz d <? fm_payload_length (wm_ck_hdr (rp_cur s2))); [apply rpp_io_fault_frame |].
    destruct (negb repr2); [apply rpp_io_fault_frame | apply rpp_frame_refl]. }
  assert (G2a : rpp_frame (rp_w_io w) s2a) by (eapply rpp_frame_trans; eauto).
  destruct (negb (esb =? 64)); [apply rpp_wpres_io; exact G2a |].
  destruct (negb complete); [apply rpp_wpres_io; exact G2a |].
  set (w3 := rp_w_set_io (rp_w_set_io w s2a) (rp_seek_end s2a)).
  assert (P3 : rpp_wpres w w3).
  { unfold w3. apply rpp_wpres_io'; [apply rpp_wpres_io; exact G2a | apply rpp_seek_end_frame]. }
  match goal with |- context [if skip then ?a else ?b] => set (p4 := if skip then a else b) end.
  assert (P4 : rpp_wpres w (fst (fst p4))).
  { unfold p4. destruct skip; [exact P3 |]. eapply rpp_wpres_trans; [exact P3 | apply rpp_fsr_summaryN_pres]. }
  destruct p4 as [[w4 t4] f4]. cbn [fst] in P4.
  match goal with |- context [if ?b then _ else _] => destruct b end.
  { pose proof (rpp_chunk_seek_frame (rp_w_io w4) (fm_item_next (wm_ck_hdr (rp_cur s1)))) as F5.
    destruct (rp_chunk_seek (rp_w_io w4) (fm_item_next (wm_ck_hdr (rp_cur s1)))) as [s5 rc5]. cbn [fst] in F5.
    eapply rpp_wpres_trans; [| apply IH]. apply rpp_wpres_io'; [exact P4 | exact F5]. }
  destruct (wm_f_get_level f4 level) as [lv4 |]; [| eapply rpp_wpres_trans; [exact P4 | apply rpp_wpres_fault]].
  destruct (wm_fl_nidx lv4 =? 0); [exact P4 |].
  pose proof (rpp_chunk_seek_frame (rp_w_io w4) (hd 0 (wm_fl_idx lv4))) as F6.
  destruct (rp_chunk_seek (rp_w_io w4) (hd 0 (wm_fl_idx lv4))) as [s6 rc6]. cbn [fst] in F6.
  destruct (negb (rc6 =? 0)); [apply rpp_wpres_io'; [exact P4 | exact F6] |].
  eapply rpp_wpres_trans; [| apply IH]. apply rpp_wpres_io'; [exact P4 | exact F6].
Qed.

Lemma rpp_fsr_data_pres : forall fuel d w t f offset skip,
  rpp_wpres w (fst (fst (rp_fsr_data summ1 summN fuel d w t f offset skip))).
Proof.
  induction fuel as [| fu IH]; intros d w t f offset skip; cbn [rp_fsr_data]; [apply rpp_wpres_fault |].
  destruct (offset =? 0); [apply rpp_wpres_refl |].
  pose proof (rpp_seek_rd_frame (rp_w_io w) offset) as F2.
  destruct (rp_chunk_seek (rp_w_io w) offset) as [s1 rc1].
  destruct (if rc1 =? 0 then rp_rd_chunk s1 else (s1, rc1)) as [s2 rc2]. cbn [fst] in F2.
  destruct (negb (rc2 =? 0)); [apply rpp_wpres_io; exact F2 |].
  match goal with |- context [if ?b then (rp_w_set_io w s2, t, f) else _] => destruct b end; [apply rpp_wpres_io; exact F2 |].
  set (w1e := rp_w_set_io (rp_w_set_io w s2) (rp_seek_end (rp_w_io (rp_w_set_io w s2)))).
  assert (P1 : rpp_wpres w w1e).
  { unfold w1e. apply rpp_wpres_io'; [apply rpp_wpres_io; exact F2 | apply rpp_seek_end_frame]. }
  destruct skip; [eapply rpp_wpres_trans; [exact P1 | apply IH] |].
  match goal with |- context [rp_unfx ?a ?b] =>
    pose proof (rpp_unfx_pres a b) as U; destruct (rp_unfx a b) as [[w3 t3] f3]; assert (P2 : rpp_wpres w a) end.
  { match goal with |- context [if ?b then _ else _] => destruct b end;
      [eapply rpp_wpres_trans; [exact P1 | apply rpp_wpres_fault] |].
    match goal with |- context [if ?b then _ else _] => destruct b end;
      [eapply rpp_wpres_trans; [exact P1 | apply rpp_wpres_fault] | exact P1]. }
  cbn [fst] in U.
  eapply rpp_wpres_trans; [| apply IH].
  eapply rpp_wpres_trans; [exact P2 |]. eapply rpp_wpres_trans; [exact U |].
  match goal with |- context [if ?b then _ else _] => destruct b end; [apply rpp_wpres_uninit | apply rpp_wpres_refl].
Qed.

Lemma rpp_repair_fsr_pres : forall w id, rpp_wpres w (fst (rp_repair_fsr summ1 summN w id)).
Proof.
  intros w id. unfold rp_repair_fsr.
  match goal with |- context [negb (?x =? 0)] => destruct (negb (x =? 0)); [apply rpp_wpres_refl |] end.
  destruct (rp_sg_track (rp_get_sig (rp_c w) id) JLS_TRACK_TYPE_FSR) as [has t].
  match goal with |- context [rp_first_level rp_top_level (rp_w_io ?a) t false] => set (w0 := a) end.
  assert (P0 : rpp_wpres w w0).
  { unfold w0. match goal with |- context [if ?b then _ else _] => destruct b end; [apply rpp_wpres_fault | apply rpp_wpres_refl]. }
  pose proof (rpp_first_level_frame rp_top_level (rp_w_io w0) t false) as F1.
  destruct (rp_first_level rp_top_level (rp_w_io w0) t false) as [[s1 t1] level]. cbn [fst] in F1.
  match goal with |- context [rp_fsr_levels summN ?a ?b ?c ?d ?e ?f ?g ?h] =>
    pose proof (rpp_fsr_levels_pres a b c d e f g h) as P2;
    destruct (rp_fsr_levels summN a b c d e f g h) as [[[[[w2 t2] f2] offset2] skip2] rc2] end.
  cbn [fst] in P2.
  assert (Q2 : rpp_wpres w w2).
  { eapply rpp_wpres_trans; [| exact P2]. apply rpp_wpres_io'; [exact P0 | exact F1]. }
  assert (PUT : forall w' t' f', rpp_wpres w w' ->
            rpp_wpres w (rp_w_set_c w' (rp_put_sig (rp_c w') id
              (rp_sg_set_fsr (rp_sg_set_tk (rp_get_sig (rp_c w') id)
                 (wm_upd (N.to_nat JLS_TRACK_TYPE_FSR) (true, t') (rp_sg_tk (rp_get_sig (rp_c w') id)))) f')))).
  { intros w' t' f' H. eapply rpp_wpres_trans; [exact H |]. apply rpp_wpres_c. rewrite rpp_put_sig_io. apply rpp_frame_refl. }
  destruct (negb (rc2 =? 0)); cbn [fst]; [apply PUT; exact Q2 |].
  match goal with |- context [rp_fsr_data summ1 summN ?a ?b ?c ?d ?e ?f ?g] =>
    pose proof (rpp_fsr_data_pres a b c d e f g) as P3;
    destruct (rp_fsr_data summ1 summN a b c d e f g) as [[w3 t3] f3] end.
  cbn [fst] in P3.
  match goal with |- context [rp_unfx ?a ?b] =>
    pose proof (rpp_unfx_pres a b) as U; destruct (rp_unfx a b) as [[w5 t5] f5] end.
  cbn [fst] in U. cbn [fst]. apply PUT.
  eapply rpp_wpres_trans; [exact Q2 |]. eapply rpp_wpres_trans; [exact P3 |].
  eapply rpp_wpres_trans; [| exact U]. apply rpp_wpres_io. apply rpp_seek_end_frame.
Qed.

Lemma rpp_repair_fsr_all_pres : forall ids w, rpp_wpres w (fst (rp_repair_fsr_all summ1 summN ids w)).
Proof.
  induction ids as [| id rest IH]; intros w; cbn [rp_repair_fsr_all]; [apply rpp_wpres_refl |].
  match goal with |- context [if ?b then _ else _] => destruct b end; [| apply IH].
  pose proof (rpp_repair_fsr_pres w id) as P. destruct (rp_repair_fsr summ1 summN w id) as [w1 rc]. cbn [fst] in P.
  destruct (rc =? 0); [eapply rpp_wpres_trans; [exact P | apply IH] | exact P].
Qed.

Lemma rpp_exit_fsr_pres : forall w id, rpp_wpres w (rp_exit_fsr summ1 summN w id).
Proof.
  intros w id. unfold rp_exit_fsr.
  destruct (rp_sg_fsr (rp_get_sig (rp_c w) id)) as [f |]; [| apply rpp_wpres_refl].
  destruct (rp_sg_track (rp_get_sig (rp_c w) id) JLS_TRACK_TYPE_FSR) as [has t].
  match goal with |- context [rp_unfx ?a ?b] =>
    pose proof (rpp_unfx_pres a b) as U; destruct (rp_unfx a b) as [[w1a t1] f1] end.
  cbn [fst] in U.
  match goal with |- context [rp_put_sig (rp_c ?x)] => set (w1 := x) end.
  assert (P1 : rpp_wpres w w1).
  { unfold w1. match goal with |- context [if ?b then _ else _] => destruct b end;
      [eapply rpp_wpres_trans; [exact U | apply rpp_wpres_uninit] | exact U]. }
  eapply rpp_wpres_trans; [exact P1 |]. apply rpp_wpres_c. rewrite rpp_put_sig_io. apply rpp_frame_refl.
Qed.
End FSR.

(* ---------------- reader.c: the repair branch ---------------- *)
Section REPAIR.
Variable summ1 : N -> list N -> wm_sentry.
Variable summN : bool -> list wm_sentry -> wm_sentry.

Lemma rpp_negb_eqb_true : forall a, negb (a =? 0) = true -> a <> 0.
Proof. intros a H. apply negb_true_iff in H. now apply N.eqb_neq in H. Qed.

(* the leaves of rp_repair: an early failure without close, an error exit through jls_rd_close, or the end *)
Lemma rpp_repair_leaves : forall (P : rp_result -> Prop) c,
  (forall w rc, rpp_wpres (rp_w0 c) w -> rc <> 0 -> P (rp_res rc w true)) ->
  (forall w rc, rpp_wpres (rp_w0 c) w -> rc <> 0 -> P (rp_exit summ1 summN w rc)) ->
  (forall w9, rpp_wpres (rp_w0 c) w9 -> P (rp_repair_end w9)) ->
  P (rp_repair summ1 summN c).
Proof.
  intros P c L1 L2 L3. unfold rp_repair.
  pose proof (rpp_raw_open_file (rp_io_ c) true) as O. cbv zeta in O.
  destruct (rp_raw_open (rp_io_ c) true) as [s1 rc1]. cbn [fst] in O. destruct O as (O1 & O2 & _).
  assert (P1 : rpp_wpres (rp_w0 c) (rp_w_set_io (rp_w0 c) s1)) by (apply rpp_wpres_same; [exact O1 | exact O2 | reflexivity]).
  destruct (negb (rc1 =? 0) && negb (rc1 =? JLS_ERROR_TRUNCATED)) eqn:E1.
  { apply L1; [exact P1 |]. apply andb_true_iff in E1. destruct E1 as [E1 _]. now apply rpp_negb_eqb_true. }
  pose proof (rpp_chunk_seek_frame s1 (rp_offset (rp_r (rp_io_ c)))) as F2.
  destruct (rp_chunk_seek s1 (rp_offset (rp_r (rp_io_ c)))) as [s2 rc2]. cbn [fst] in F2.
  destruct (negb (rc2 =? 0)) eqn:E2.
  { apply L2; [| now apply rpp_negb_eqb_true]. eapply rpp_wpres_trans; [exact P1 |]. apply (rpp_wpres_io (rp_w_set_io (rp_w0 c) s1)). exact F2. }
  pose proof (rpp_rd_chunk_frame s2) as F3. destruct (rp_rd_chunk s2) as [s3 rc3]. cbn [fst] in F3.
  assert (P3 : rpp_wpres (rp_w0 c) (rp_w_set_io (rp_w_set_io (rp_w0 c) s1) s3)).
  { eapply rpp_wpres_trans; [exact P1 |]. apply (rpp_wpres_io (rp_w_set_io (rp_w0 c) s1)). eapply rpp_frame_trans; eauto. }
  destruct (negb (rc3 =? 0)) eqn:E3; [apply L2; [exact P3 | now apply rpp_negb_eqb_true] |].
  set (w4 := rp_bk_truncate (rp_w_set_io (rp_w_set_io (rp_w0 c) s1) s3)).
  assert (P4 : rpp_wpres (rp_w0 c) w4) by (eapply rpp_wpres_trans; [exact P3 | apply rpp_wpres_truncate]).
  pose proof (rpp_chunk_seek_frame (rp_w_io w4) (rp_offset (rp_r (rp_io_ c)))) as F5.
  destruct (rp_chunk_seek (rp_w_io w4) (rp_offset (rp_r (rp_io_ c)))) as [s5 rc5]. cbn [fst] in F5.
  assert (P5 : rpp_wpres (rp_w0 c) (rp_w_set_io w4 s5)) by (apply rpp_wpres_io'; assumption).
  destruct (negb (rc5 =? 0)) eqn:E5; [apply L2; [exact P5 | now apply rpp_negb_eqb_true] |].
  destruct (wm_raw_wr (wm_b_raw (rp_wm_base (rp_w_set_io w4 s5) 0)) (wm_ck_hdr (rp_cur s5)) (rp_payload s5)) as [r6 h6].
  match goal with |- context [rp_repair_all_pointers ?a] => set (w6a := a) end.
  assert (P6 : rpp_wpres (rp_w0 c) w6a).
  { unfold w6a. apply rpp_wpres_io'; [eapply rpp_wpres_trans; [exact P5 | apply rpp_wpres_commit] |]. repeat split. }
  assert (P7 : rpp_wpres (rp_w0 c) (rp_repair_all_pointers w6a)) by (eapply rpp_wpres_trans; [exact P6 | apply rpp_repair_all_pointers_pres]).
  pose proof (rpp_scan_fsr_sample_id_frame (rp_c (rp_repair_all_pointers w6a))) as F8.
  destruct (rp_scan_fsr_sample_id (rp_c (rp_repair_all_pointers w6a))) as [c8 rc8]. cbn [fst] in F8.
  assert (P8 : rpp_wpres (rp_w0 c) (rp_w_set_c (rp_repair_all_pointers w6a) c8)).
  { eapply rpp_wpres_trans; [exact P7 | apply rpp_wpres_c; exact F8]. }
  destruct (negb (rc8 =? 0)) eqn:E8; [apply L2; [exact P8 | now apply rpp_negb_eqb_true] |].
  pose proof (rpp_repair_fsr_all_pres summ1 summN rp_signal_ids (rp_w_set_c (rp_repair_all_pointers w6a) c8)) as F9.
  destruct (rp_repair_fsr_all summ1 summN rp_signal_ids (rp_w_set_c (rp_repair_all_pointers w6a) c8)) as [w9 rc9]. cbn [fst] in F9.
  assert (P9 : rpp_wpres (rp_w0 c) w9) by (eapply rpp_wpres_trans; eauto).
  destruct (negb (rc9 =? 0)) eqn:E9; [apply L2; [exact P9 | now apply rpp_negb_eqb_true] | apply L3; exact P9].
Qed.

(* coherence of a result: the file afterwards is the given file with the events applied, oldest first *)
Definition rpp_res_coh (f : list N) (r : rp_result) : Prop :=
  (rp_after r, rp_len (rp_after r)) = rp_apply_log (f, rp_len f) (rev (rp_events r)).
Lemma rpp_rev_wm_rev : forall (A : Type) (l : list A), rev (wm_rev l) = l.
Proof. intros. unfold wm_rev. rewrite <- rev_alt. apply rev_involutive. Qed.
Lemma rpp_coh_w0 : forall f c, rp_file (rp_io_ c) = f -> rp_flen (rp_io_ c) = rp_len f -> rpp_coh f (rp_w0 c).
Proof.
  intros f c H1 H2. unfold rpp_coh. change (rp_w_io (rp_w0 c)) with (rp_io_ c). change (rp_log (rp_w0 c)) with (@nil wm_entry).
  rewrite H1, H2. split; reflexivity.
Qed.
Lemma rpp_res_coh_of : forall f w rc did e, rpp_coh f w -> rpp_res_coh f (rp_res_end rc w did e).
Proof.
  intros f w rc did e (H1 & H2). unfold rpp_res_coh, rp_res_end. cbn [rp_after rp_events].
  rewrite rpp_rev_wm_rev, <- H2, H1. reflexivity.
Qed.
Lemma rpp_exit_coh : forall f w rc, rpp_coh f w -> rpp_res_coh f (rp_exit summ1 summN w rc).
Proof.
  intros f w rc H. unfold rp_exit, rp_res. apply rpp_res_coh_of.
  eapply (rpp_wpres_with_raw _ _). eapply rpp_fold_left_pres; [| exact H]. intros; apply rpp_exit_fsr_pres.
Qed.
Lemma rpp_finish_coh : forall f w did e, rpp_coh f w -> rpp_res_coh f (rp_finish w did e).
Proof.
  intros f w did e H. unfold rp_finish.
  pose proof (rpp_scan_fsr_sample_id_frame (rp_c w)) as F. destruct (rp_scan_fsr_sample_id (rp_c w)) as [c1 rc]. cbn [fst] in F.
  apply rpp_res_coh_of. eapply rpp_wpres_c; [exact F | exact H].
Qed.

Lemma rpp_set_io_log : forall w s, rp_log (rp_w_set_io w s) = rp_log w.
Proof. reflexivity. Qed.
(* rp_repair_end = the state change rp_end_state, then reads only *)
Lemma rpp_repair_end_eq : forall w9,
  let w10 := rp_end_state w9 in
  let e := rp_flen (rp_w_io w9) in
  exists w11, rp_file (rp_w_io w11) = rp_file (rp_w_io w10) /\ rp_flen (rp_w_io w11) = rp_flen (rp_w_io w10) /\
              rp_log w11 = rp_log w10 /\
              (rp_repair_end w9 = rp_finish w11 true e \/ exists rc, rc <> 0 /\ rp_repair_end w9 = rp_res_end rc w11 true e).
Proof.
  intros w9. cbv zeta. unfold rp_repair_end.
  change (rp_offset (rp_r (rp_w_io (rp_end_seek w9)))) with (rp_flen (rp_w_io w9)).
  pose proof (rpp_raw_open_file (rp_w_io (rp_end_state w9)) false) as O. cbv zeta in O.
  destruct (rp_raw_open (rp_w_io (rp_end_state w9)) false) as [s11 rc11]. cbn [fst] in O. destruct O as (O1 & O2 & _).
  exists (rp_w_set_io (rp_end_state w9) s11).
  split; [exact O1 |]. split; [exact O2 |]. split; [apply rpp_set_io_log |].
  destruct (negb (rc11 =? 0)) eqn:E11; [right; exists rc11; split; [now apply rpp_negb_eqb_true | reflexivity] | left; reflexivity].
Qed.
Lemma rpp_end_state_pres : forall w9, rpp_wpres w9 (rp_end_state w9).
Proof.
  intros w9. unfold rp_end_state, rp_raw_close. cbv zeta.
  eapply rpp_wpres_trans; [| apply rpp_wpres_with_raw]. eapply rpp_wpres_trans; [| apply rpp_wpres_commit].
  eapply rpp_wpres_trans; [apply (rpp_wpres_io w9); apply rpp_seek_end_frame |]. fold (rp_end_seek w9).
  destruct (rp_w_inplace (rp_end_seek w9)); [apply rpp_wpres_uninit | apply rpp_wpres_refl].
Qed.
Lemma rpp_repair_end_coh : forall f w9, rpp_coh f w9 -> rpp_res_coh f (rp_repair_end w9).
Proof.
  intros f w9 H. destruct (rpp_repair_end_eq w9) as (w11 & A & B & C & D).
  assert (H11 : rpp_coh f w11).
  { eapply rpp_wpres_same; [exact A | exact B | exact C |]. apply rpp_end_state_pres. exact H. }
  destruct D as [D | (rc & _ & D)]; rewrite D; [apply rpp_finish_coh | apply rpp_res_coh_of]; exact H11.
Qed.

(* THE MODEL IS COHERENT: for every byte string, the file the open leaves is the given file with the open's
   backend events applied in order *)
Theorem rpp_open_coherent : forall f, rpp_res_coh f (rp_open summ1 summN f).
Proof.
  intros f. unfold rp_open. pose proof (rpp_scan_cases f) as S.
  destruct (rp_scan f) as [[c rc] | c].
  - destruct S as (S1 & S2). unfold rp_res. apply rpp_res_coh_of. apply rpp_coh_w0; assumption.
  - destruct S as (c3 & _ & (I1 & I2 & _) & E & Hf).
    assert (Hn : rp_flen (rp_io_ c) = rp_len f).
    { pose proof (rpp_rd_chunk_end_frame (rp_io_ c3)) as F. rewrite E in F. cbn [fst] in F. destruct F as (_ & F2 & _). congruence. }
    assert (C0 : rpp_coh f (rp_w0 c)) by (apply rpp_coh_w0; assumption).
    destruct (fm_tag (wm_ck_hdr (rp_cur (rp_io_ c))) =? JLS_TAG_END).
    + apply rpp_finish_coh. exact C0.
    + apply rpp_repair_leaves.
      * intros w rc Hw _. apply rpp_res_coh_of. apply Hw. exact C0.
      * intros w rc Hw _. apply rpp_exit_coh. apply Hw. exact C0.
      * intros w9 Hw. apply rpp_repair_end_coh. apply Hw. exact C0.
Qed.
End REPAIR.

(* ---------------- the END chunk and the file header of a successful repair ---------------- *)
Lemma rpp_end_header_ok_r : forall h r, fm_tag h = JLS_TAG_END -> fm_payload_length h = 0 ->
  let b := fm_encode_chunk_header h ++ r in
  fm_ch_crc_ok b = true /\ fm_tag (fm_ch_fields b) = JLS_TAG_END /\ fm_payload_length (fm_ch_fields b) = 0.
Proof.
  intros h r Ht Hl. cbv zeta.
  unfold fm_encode_chunk_header, fm_chunk_header_body. rewrite <- app_assoc.
  set (c := crc32c _).
  edestruct (fm_ch_fields_app (fm_enc_u64 (fm_item_next h)) (fm_enc_u64 (fm_item_prev h)) (fm_enc_u8 (fm_tag h))
               (fm_enc_u8 (fm_rsv0 h)) (fm_enc_u16 (fm_chunk_meta h)) (fm_enc_u32 (fm_payload_length h))
               (fm_enc_u32 (fm_payload_prev_length h)) (fm_enc_u32 c) r) as (Hf & Hb & Hc & Hk);
    try apply fm_enc_length.
  unfold fm_ch_crc_ok. rewrite Hb, Hc, Hf. cbn [fm_tag fm_payload_length].
  unfold fm_enc_u32 at 1. rewrite (fm_dec_enc 4 c) by (subst c; apply fm_crc32c_lt).
  subst c. rewrite N.eqb_refl. rewrite Ht, Hl. repeat split; reflexivity.
Qed.
Lemma rpp_end_header_ok : forall h, fm_tag h = JLS_TAG_END -> fm_payload_length h = 0 ->
  let b := fm_encode_chunk_header h in
  rp_len b = 32 /\ fm_ch_crc_ok b = true /\ fm_tag (fm_ch_fields b) = JLS_TAG_END /\ fm_payload_length (fm_ch_fields b) = 0.
Proof.
  intros h Ht Hl. cbv zeta.
  split; [unfold rp_len; now rewrite fm_encode_chunk_header_length |].
  pose proof (rpp_end_header_ok_r h [] Ht Hl) as H. cbv zeta in H. rewrite app_nil_r in H. exact H.
Qed.

Lemma rpp_wr_end_log : forall r sh gh uh,
  wm_rlog r = [] -> wm_offset r = wm_fpos r -> wm_fault r = false ->
  exists h, wm_rlog (wm_b_raw (wm_core_wr_end
                  {| wm_b_raw := r; wm_b_source_head := sh; wm_b_signal_head := gh; wm_b_ud_head := uh |}))
               = [WmWrite (wm_fpos r) (fm_encode_chunk_header h)]
            /\ fm_tag h = JLS_TAG_END /\ fm_payload_length h = 0.
Proof.
  intros r sh gh uh Hl Ho Hf.
  unfold wm_core_wr_end, wm_raw_wr, wm_raw_wr_header. cbn [wm_b_raw].
  rewrite Ho, N.eqb_refl.
  set (h1 := if wm_fend r <=? wm_fpos r then wm_hdr_set_ppl (wm_mk_hdr 0 JLS_TAG_END 0 0) (wm_last_pl r) else wm_mk_hdr 0 JLS_TAG_END 0 0).
  assert (T1 : fm_tag h1 = JLS_TAG_END) by (unfold h1; destruct (wm_fend r <=? wm_fpos r); reflexivity).
  assert (L1 : fm_payload_length h1 = 0) by (unfold h1; destruct (wm_fend r <=? wm_fpos r); reflexivity).
  cbv zeta. rewrite L1.
  unfold wm_raw_wr_payload, wm_raw_rd_header.
  assert (V : forall x, wm_hdr_valid (wm_set_hdr x h1) = true).
  { intros x. unfold wm_hdr_valid. cbn [wm_hdr wm_set_hdr]. rewrite T1. reflexivity. }
  rewrite V. cbn [wm_fault wm_set_hdr wm_disk_put wm_bk_fwrite]. rewrite Hf. cbn [N.eqb].
  exists h1. split; [| split; [exact T1 | exact L1]].
  match goal with |- context [if ?b then _ else _] => destruct b end; cbn; rewrite Hl; reflexivity.
Qed.

Lemma rpp_raw_close_file : forall w, rp_flen (rp_w_io w) = rp_len (rp_file (rp_w_io w)) -> 32 <= rp_flen (rp_w_io w) ->
  rp_file (rp_w_io (rp_raw_close w)) = wm_file_header_bytes (rp_flen (rp_w_io w)) ++ rp_skip 32 (rp_file (rp_w_io w)).
Proof.
  intros w Hc H32. unfold rp_raw_close, rp_with_raw, rp_commit.
  set (r := wm_b_raw (rp_wm_base w 0)). assert (Hl : wm_rlog r = []) by reflexivity.
  assert (L : wm_rlog (wm_b_raw (wm_b_set_raw (rp_wm_base w 0) (rp_wm_wr_file_header (rp_flen (rp_w_io w)) r)))
              = [WmWrite 0 (wm_file_header_bytes (rp_flen (rp_w_io w)))]).
  { unfold rp_wm_wr_file_header. cbv zeta. cbn [wm_b_raw wm_b_set_raw].
    destruct (wm_fpos r =? 0); reflexivity. }
  rewrite L. cbn [rp_apply_log fold_right rp_apply fst snd].
  assert (F32 : rp_len (wm_file_header_bytes (rp_flen (rp_w_io w))) = 32).
  { unfold wm_file_header_bytes, rp_len. now rewrite fm_encode_file_header_length. }
  unfold rp_apply_write. cbv zeta. rewrite F32.
  replace (rp_flen (rp_w_io w) <=? 0) with false by (symmetry; apply N.leb_gt; lia).
  cbn [fst rp_file rp_w_io rp_c rp_io_]. unfold rp_take. cbn [N.to_nat firstn app]. reflexivity.
Qed.

(* the file after rp_end_state: the file header rewritten with the new length, the END header appended *)
Lemma rpp_end_state_file : forall w9, rp_flen (rp_w_io w9) = rp_len (rp_file (rp_w_io w9)) -> 32 <= rp_flen (rp_w_io w9) ->
  exists h, fm_tag h = JLS_TAG_END /\ fm_payload_length h = 0 /\
    rp_file (rp_w_io (rp_end_state w9)) =
      wm_file_header_bytes (rp_flen (rp_w_io w9) + 32) ++ rp_skip 32 (rp_file (rp_w_io w9)) ++ fm_encode_chunk_header h.
Proof.
  intros w9 Hc H32. unfold rp_end_state. cbv zeta.
  set (w9a := if rp_w_inplace (rp_end_seek w9) then rp_w_set_uninit (rp_end_seek w9) else rp_end_seek w9).
  assert (A1 : rp_w_io w9a = rp_seek_end (rp_w_io w9)) by (unfold w9a; destruct (rp_w_inplace (rp_end_seek w9)); reflexivity).
  assert (A2 : rp_c w9a = rp_rd_set_io (rp_c w9) (rp_seek_end (rp_w_io w9))) by (unfold w9a; destruct (rp_w_inplace (rp_end_seek w9)); reflexivity).
  set (w10a := rp_commit w9a (wm_core_wr_end (rp_wm_base w9a 0))).
  set (f9 := rp_file (rp_w_io w9)) in *. set (n9 := rp_flen (rp_w_io w9)) in *.
  assert (W : exists h, fm_tag h = JLS_TAG_END /\ fm_payload_length h = 0 /\
                        rp_file (rp_w_io w10a) = f9 ++ fm_encode_chunk_header h /\ rp_flen (rp_w_io w10a) = n9 + 32).
  { unfold w10a, rp_wm_base. rewrite A2. cbn [rp_io_ rp_rd_set_io rp_src_head rp_sig_head rp_ud_head].
    set (r9 := rp_wm_raw _ _).
    destruct (rpp_wr_end_log r9 (rp_src_head (rp_c w9)) (rp_sig_head (rp_c w9)) (rp_ud_head (rp_c w9))) as (h & Hlog & Ht & Hl);
      try reflexivity.
    exists h. split; [exact Ht |]. split; [exact Hl |].
    unfold rp_commit. rewrite Hlog.
    assert (P : wm_fpos r9 = n9) by reflexivity. rewrite P.
    rewrite A1. cbn [rp_file rp_flen rp_seek_end rp_io_set_r].
    cbn [rp_apply_log fold_right rp_apply fst snd]. fold f9 n9.
    destruct (rpp_end_header_ok h Ht Hl) as (B32 & _).
    assert (W1 : rp_apply_write f9 n9 n9 (fm_encode_chunk_header h) = (f9 ++ fm_encode_chunk_header h, n9 + 32)).
    { unfold rp_apply_write. cbv zeta. rewrite N.leb_refl, N.sub_diag, B32. reflexivity. }
    rewrite W1. split; reflexivity. }
  destruct W as (h & Ht & Hl & Wf & Wn). exists h. split; [exact Ht |]. split; [exact Hl |].
  destruct (rpp_end_header_ok h Ht Hl) as (B32 & _).
  rewrite rpp_raw_close_file.
  - rewrite Wf, Wn. f_equal. rewrite !rpp_skip_eq, skipn_app.
    replace (N.to_nat 32 - length f9)%nat with 0%nat by (unfold rp_len in Hc; lia). reflexivity.
  - rewrite Wf, Wn, rpp_len_app, B32. lia.
  - lia.
Qed.

Section CONVERGE.
Variable summ1 : N -> list N -> wm_sentry.
Variable summN : bool -> list wm_sentry -> wm_sentry.

Lemma rpp_finish_fields : forall w d e,
  rp_end_off (rp_finish w d e) = e /\ rp_after (rp_finish w d e) = rp_file (rp_w_io w) /\ rp_did (rp_finish w d e) = d.
Proof.
  intros w d e. unfold rp_finish.
  pose proof (rpp_scan_fsr_sample_id_frame (rp_c w)) as F. destruct (rp_scan_fsr_sample_id (rp_c w)) as [c1 rc]. cbn [fst] in F.
  destruct F as (F1 & _). repeat split. exact F1.
Qed.

(* the result of a successful repair, in terms of the state w9 before the END chunk *)
Lemma rpp_repair_end_success : forall w9,
  rp_flen (rp_w_io w9) = rp_len (rp_file (rp_w_io w9)) ->
  let r := rp_repair_end w9 in
  rp_rc r = 0 -> 32 <= rp_end_off r -> rp_end_off r mod 8 = 0 -> rp_end_off r + 32 < rp_two63 ->
  rp_end_off r = rp_flen (rp_w_io w9) /\ rp_len (rp_after r) = rp_end_off r + 32 /\ rp_ends_with_end (rp_after r) = true /\
  rp_take 32 (rp_after r) = wm_file_header_bytes (rp_len (rp_after r)).
Proof.
  intros w9 Hc. cbv zeta. destruct (rpp_repair_end_eq w9) as (w11 & A & _ & _ & D). cbv zeta in D.
  destruct D as [D | (rc & Hrc & D)]; rewrite D; [| intros H; exfalso; apply Hrc; exact H].
  destruct (rpp_finish_fields w11 true (rp_flen (rp_w_io w9))) as (E1 & E2 & _). rewrite E1, E2, A.
  intros _ H32 H8 H63.
  destruct (rpp_end_state_file w9 Hc H32) as (h & Ht & Hl & Hfile). rewrite Hfile.
  set (f9 := rp_file (rp_w_io w9)) in *. set (n9 := rp_flen (rp_w_io w9)) in *.
  destruct (rpp_end_header_ok h Ht Hl) as (B32 & Bc & Bt & Bl).
  set (fe := n9 + 32).
  assert (F32 : rp_len (wm_file_header_bytes fe) = 32).
  { unfold wm_file_header_bytes, rp_len. now rewrite fm_encode_file_header_length. }
  assert (LEN : rp_len (wm_file_header_bytes fe ++ rp_skip 32 f9 ++ fm_encode_chunk_header h) = n9 + 32).
  { rewrite !rpp_len_app, rpp_len_skip, F32, B32. lia. }
  split; [reflexivity |]. split; [exact LEN |]. split.
  - unfold rp_ends_with_end. cbv zeta. rewrite LEN. unfold SIZEOF_chunk_header.
    replace (n9 + 32 - 32) with (rp_len (wm_file_header_bytes fe ++ rp_skip 32 f9)) by (rewrite rpp_len_app, rpp_len_skip, F32; lia).
    rewrite app_assoc, rpp_skip_app_exact. rewrite Bc, Bt, Bl.
    replace (64 <=? n9 + 32) with true by (symmetry; apply N.leb_le; lia).
    replace (n9 + 32 <? rp_two63) with true by (symmetry; apply N.ltb_lt; exact H63).
    replace ((n9 + 32) mod 8 =? 0) with true by (symmetry; apply N.eqb_eq; lia).
    reflexivity.
  - rewrite LEN. fold fe. unfold rp_take. apply firstn_app_exact. unfold rp_len in F32. lia.
Qed.

(* C19 part 2: after a successful repairing open the file ends with a CRC-valid END chunk header at its very
   end and a second open does not enter the repair branch: no events, same file.  The three conditions on
   rp_end_off (the length of the file before the END chunk was appended) hold for every file the writer can have
   left; they are needed because the theorem is about EVERY byte string *)
Theorem rpp_repair_converges : forall f,
  let r := rp_open summ1 summN f in
  rp_rc r = 0 -> rp_did r = true ->
  32 <= rp_end_off r -> rp_end_off r mod 8 = 0 -> rp_end_off r + 32 < rp_two63 ->
  rp_len (rp_after r) = rp_end_off r + 32 /\ rp_ends_with_end (rp_after r) = true /\
  rp_take 32 (rp_after r) = wm_file_header_bytes (rp_len (rp_after r)) /\
  let r2 := rp_open summ1 summN (rp_after r) in
  rp_did r2 = false /\ rp_events r2 = [] /\ rp_after r2 = rp_after r.
Proof.
  intros f. cbv zeta.
  set (Q := fun r : rp_result => rp_rc r = 0 -> 32 <= rp_end_off r -> rp_end_off r mod 8 = 0 -> rp_end_off r + 32 < rp_two63 ->
              rp_len (rp_after r) = rp_end_off r + 32 /\ rp_ends_with_end (rp_after r) = true /\
              rp_take 32 (rp_after r) = wm_file_header_bytes (rp_len (rp_after r)) /\
              rp_did (rp_open summ1 summN (rp_after r)) = false /\ rp_events (rp_open summ1 summN (rp_after r)) = [] /\
              rp_after (rp_open summ1 summN (rp_after r)) = rp_after r).
  assert (G : rp_did (rp_open summ1 summN f) = true -> Q (rp_open summ1 summN f)).
  { unfold rp_open. pose proof (rpp_scan_cases f) as S.
    destruct (rp_scan f) as [[c rc] | c]; [intros D; discriminate D |].
    destruct S as (c3 & _ & (I1 & I2 & _) & E & Hf).
    assert (Hn : rp_flen (rp_io_ c) = rp_len f).
    { pose proof (rpp_rd_chunk_end_frame (rp_io_ c3)) as F. rewrite E in F. cbn [fst] in F. destruct F as (_ & F2 & _). congruence. }
    assert (C0 : rpp_coh f (rp_w0 c)) by (apply rpp_coh_w0; assumption).
    destruct (fm_tag (wm_ck_hdr (rp_cur (rp_io_ c))) =? JLS_TAG_END).
    { intros D. destruct (rpp_finish_fields (rp_w0 c) false 0) as (_ & _ & D'). rewrite D' in D. discriminate D. }
    intros _. apply rpp_repair_leaves.
    - intros w rc _ Hrc H. exfalso. apply Hrc. exact H.
    - intros w rc _ Hrc H. exfalso. apply Hrc. exact H.
    - intros w9 Hw. destruct (Hw f C0) as (Hc & _). unfold Q. intros R0 H32 H8 H63.
      destruct (rpp_repair_end_success w9 Hc R0 H32 H8 H63) as (_ & L & EE & FH).
      split; [exact L |]. split; [exact EE |]. split; [exact FH |].
      apply rpp_ends_with_end_quiet. exact EE. }
  intros R0 D H32 H8 H63. destruct (G D R0 H32 H8 H63) as (A & B & C & D2 & E2 & F2).
  repeat split; assumption.
Qed.
End CONVERGE.
