(* WHAT THE REPAIR-ON-OPEN WRITES, part 7: what the scan phase of jls_rd_open leaves in the signal tables
   (jls_core_scan_signals: handle_signal_def, handle_track_head): every registered TRACK_*_HEAD chunk stands in the
   file with chunk kind HEAD and a 128-byte payload at a non-zero offset; nothing else of a track is set.
   Every top-level name starts with sc_. *)
From Coq Require Import NArith ZArith List Bool Lia Arith.
From Coq Require Import ZifyBool ZifyN ZifyNat.
From JLS Require Import Generated CrcDefs Spec Format FormatProofs WriteOnce WriteOnceProofs WmRaw WmCore WmFsr WriterModel WmProofs
  WmWriteOnce RepairRaw RawReadProofs RepairModel RepairProofs RepairProofs2 RepairProofs3
  RepairWo RepairWo2 RepairWo3 RepairWo4 RepairWo5.
Import ListNotations.
Local Open Scope N_scope.
Ltac Zify.zify_post_hook ::= Z.div_mod_to_equations.

Local Opaque crc32c.

Definition sc_lists0 (t : wm_track) : Prop :=
  wm_tk_index_head t = repeat wm_chunk0 wm_level_count /\ wm_tk_summary_head t = repeat wm_chunk0 wm_level_count.
Definition sc_trk (f : list N) (x : bool * wm_track) : Prop :=
  (fst x = true ->
     wm_ck_offset (wm_tk_head (snd x)) <> 0 /\
     (exists h0, rw_hdr_at f (wm_ck_offset (wm_tk_head (snd x))) = Some h0 /\
                 fm_tag_chunk_kind (fm_tag h0) = JLS_TRACK_CHUNK_HEAD /\ fm_payload_length h0 = SIZEOF_track_head) /\
     length (wm_tk_offsets (snd x)) = 16%nat) /\
  (fst x = false -> snd x = wm_track0 0) /\ sc_lists0 (snd x).
Definition sc_sig (f : list N) (g : rp_sig) : Prop :=
  Forall (sc_trk f) (rp_sg_tk g) /\ rp_sg_fsr g = None /\
  wm_tk_type (snd (rp_sg_track g JLS_TRACK_TYPE_FSR)) = JLS_TRACK_TYPE_FSR.
Definition sc_sigs (f : list N) (l : list rp_sig) : Prop := Forall (sc_sig f) l.

Lemma sc_trk_default : forall f, sc_trk f (false, wm_track0 0).
Proof. intros f. split; [intros X; discriminate X |]. split; [reflexivity | split; reflexivity]. Qed.
Lemma sc_sig_default : forall f id, sc_sig f (rp_sig0 id).
Proof.
  intros f id. split; [| split; reflexivity]. cbn [rp_sig0 rp_sg_tk]. unfold rp_tracks0.
  repeat (apply Forall_cons; [apply sc_trk_default |]). apply Forall_nil.
Qed.
Lemma sc_sigs_init : forall f s, sc_sigs f (rp_sigs (rp_rd0 s)).
Proof.
  intros f s. unfold sc_sigs, rp_rd0. cbn [rp_sigs]. apply Forall_forall. intros g Hg. apply in_map_iff in Hg.
  destruct Hg as (id & Hid & _). rewrite <- Hid. apply sc_sig_default.
Qed.
Lemma sc_sigs_get : forall f c id, sc_sigs f (rp_sigs c) -> sc_sig f (rp_get_sig c id).
Proof.
  intros f c id H. unfold rp_get_sig. destruct (nth_in_or_default (N.to_nat id) (rp_sigs c) (rp_sig0 id)) as [Hin | Hd].
  - unfold sc_sigs in H. rewrite Forall_forall in H. apply H. exact Hin.
  - rewrite Hd. apply sc_sig_default.
Qed.
Lemma sc_sig_track : forall f g ty, sc_sig f g -> sc_trk f (rp_sg_track g ty).
Proof.
  intros f g ty (A & _). unfold rp_sg_track. destruct (nth_in_or_default (N.to_nat ty) (rp_sg_tk g) (false, wm_track0 0)) as [Hin | Hd].
  - rewrite Forall_forall in A. apply A. exact Hin.
  - rewrite Hd. apply sc_trk_default.
Qed.

(* jls_core_rd_chunk returning 0 leaves buf->length = payload_length of the chunk *)
Lemma sc_rd_chunk_buf_len : forall s s', rp_rd_chunk s = (s', 0) -> rp_buf_len s' = fm_payload_length (wm_ck_hdr (rp_cur s')).
Proof.
  intros s s' H. unfold rp_rd_chunk in H.
  destruct (rp_raw_rd_header _) as [s1 rc1]. destruct (rc1 =? 0) eqn:E1; cbn [negb] in H; [| inversion H; subst; rewrite N.eqb_refl in E1; discriminate E1].
  destruct (rp_raw_rd_payload _ _) as [s3 rc2].
  destruct (rc2 =? JLS_ERROR_TOO_BIG).
  { destruct (rp_fend (rp_r s3) <? _); inversion H. }
  destruct (rc2 =? 0) eqn:E; [| inversion H; subst; rewrite N.eqb_refl in E; discriminate].
  inversion H; subst s'. reflexivity.
Qed.

Lemma sc_dec_u64s_length : forall k l, length (rp_dec_u64s k l) = k.
Proof. induction k as [| k IH]; intros l; cbn [rp_dec_u64s length]; [reflexivity | now rewrite IH]. Qed.

Lemma sc_handle_signal_def : forall f c, sc_sigs f (rp_sigs c) -> sc_sigs f (rp_sigs (rp_handle_signal_def c)).
Proof.
  intros f c H. unfold rp_handle_signal_def.
  destruct (JLS_SIGNAL_COUNT <=? fm_chunk_meta (wm_ck_hdr (rp_cur (rp_io_ c)))); [exact H |].
  unfold rp_put_sig. cbn [rp_sigs rp_rd_set_sigs]. apply wmw_Forall_upd; [exact H |].
  pose proof (sc_sigs_get f c (fm_chunk_meta (wm_ck_hdr (rp_cur (rp_io_ c)))) H) as (A & B & C).
  split; [exact A |]. split; [exact B | exact C].
Qed.

Lemma sc_handle_track_head : forall f c,
  sc_sigs f (rp_sigs c) ->
  wm_ck_offset (rp_cur (rp_io_ c)) <> 0 ->
  rw_hdr_at f (wm_ck_offset (rp_cur (rp_io_ c))) = Some (wm_ck_hdr (rp_cur (rp_io_ c))) ->
  fm_tag_chunk_kind (fm_tag (wm_ck_hdr (rp_cur (rp_io_ c)))) = JLS_TRACK_CHUNK_HEAD ->
  rp_buf_len (rp_io_ c) = fm_payload_length (wm_ck_hdr (rp_cur (rp_io_ c))) ->
  sc_sigs f (rp_sigs (rp_handle_track_head c)).
Proof.
  intros f c H Ho Hh Hk Hb. unfold rp_handle_track_head.
  match goal with |- context [negb (?x =? 0)] => destruct (negb (x =? 0)); [exact H |] end.
  destruct (negb (rp_buf_len (rp_io_ c) =? SIZEOF_track_head)) eqn:El; [exact H |].
  apply negb_false_iff in El. apply N.eqb_eq in El.
  set (id := N.land (fm_chunk_meta (wm_ck_hdr (rp_cur (rp_io_ c)))) CORE_SIGNAL_MASK).
  set (tt := fm_tag_track_type (fm_tag (wm_ck_hdr (rp_cur (rp_io_ c))))).
  pose proof (sc_sigs_get f c id H) as Gs. pose proof (sc_sig_track f _ tt Gs) as Tk.
  destruct (rp_sg_track (rp_get_sig c id) tt) as [has0 t] eqn:Et.
  unfold rp_put_sig. cbn [rp_sigs rp_rd_set_sigs]. apply wmw_Forall_upd; [exact H |].
  destruct Gs as (A & B & C). destruct Tk as (_ & _ & L0). cbn [snd] in L0.
  split; [| split; [exact B |]].
  - cbn [rp_sg_set_tk rp_sg_tk]. apply wmw_Forall_upd; [exact A |].
    split; [intros _; cbn [snd wm_tk_head wm_tk_offsets] |].
    + split; [exact Ho |]. split; [| apply sc_dec_u64s_length].
      eexists. split; [exact Hh |]. split; [exact Hk |]. rewrite <- Hb. exact El.
    + split; [intros X; discriminate X |]. exact L0.
  - unfold rp_sg_track in *. cbn [rp_sg_set_tk rp_sg_tk].
    match goal with |- context [wm_upd ?n ?x ?l] =>
      destruct (ry_nth_upd_cases _ n (N.to_nat JLS_TRACK_TYPE_FSR) x (false, wm_track0 0) l) as [[E1 E2] | E1] end; rewrite E1; [| exact C].
    cbn [snd wm_tk_type]. change (N.to_nat JLS_TRACK_TYPE_FSR) with 0%nat in E2. unfold JLS_TRACK_TYPE_FSR. lia.
Qed.

(* jls_core_scan_signals *)
Lemma sc_scan_signals_loop : forall f fuel c,
  rp_file (rp_io_ c) = f -> rp_flen (rp_io_ c) = rp_len f -> rp_r_valid (rp_r (rp_io_ c)) = false ->
  rp_offset (rp_r (rp_io_ c)) <> 0 -> sc_sigs f (rp_sigs c) ->
  sc_sigs f (rp_sigs (fst (rp_scan_signals_loop fuel c))).
Proof.
  intros f. induction fuel as [| fu IH]; intros c Hf Hn Hv Ho H; cbn [rp_scan_signals_loop]; [exact H |].
  destruct (rp_rd_chunk (rp_io_ c)) as [s1 rc] eqn:E1.
  destruct (rc =? 0) eqn:Erc; cbn [negb]; [| exact H].
  apply N.eqb_eq in Erc. subst rc.
  assert (Hi : rr_inv (rp_io_ c)).
  { split; [rewrite Hn, Hf; reflexivity | intros X; rewrite Hv in X; discriminate X]. }
  destruct (ry_rd_chunk_ok _ _ Hi E1) as (K1 & K2 & _). rewrite Hf in K2.
  pose proof (sc_rd_chunk_buf_len _ _ E1) as K3.
  pose proof (rpp_rd_chunk_frame (rp_io_ c)) as (F1 & F2 & _). rewrite E1 in F1, F2. cbn [fst] in F1, F2.
  set (c1 := rp_rd_set_io c s1).
  set (c2 := if fm_tag (wm_ck_hdr (rp_cur s1)) =? JLS_TAG_SIGNAL_DEF then rp_handle_signal_def c1
             else if N.land (fm_tag (wm_ck_hdr (rp_cur s1))) 7 =? JLS_TRACK_CHUNK_DEF then c1
             else if N.land (fm_tag (wm_ck_hdr (rp_cur s1))) 7 =? JLS_TRACK_CHUNK_HEAD then rp_handle_track_head c1
             else c1).
  assert (H2 : rp_io_ c2 = s1).
  { unfold c2. destruct (fm_tag (wm_ck_hdr (rp_cur s1)) =? JLS_TAG_SIGNAL_DEF); [now rewrite rpp_handle_signal_def_io |].
    destruct (N.land (fm_tag (wm_ck_hdr (rp_cur s1))) 7 =? JLS_TRACK_CHUNK_DEF); [reflexivity |].
    destruct (N.land (fm_tag (wm_ck_hdr (rp_cur s1))) 7 =? JLS_TRACK_CHUNK_HEAD); [now rewrite rpp_handle_track_head_io | reflexivity]. }
  assert (S2 : sc_sigs f (rp_sigs c2)).
  { unfold c2. destruct (fm_tag (wm_ck_hdr (rp_cur s1)) =? JLS_TAG_SIGNAL_DEF); [apply sc_handle_signal_def; exact H |].
    destruct (N.land (fm_tag (wm_ck_hdr (rp_cur s1))) 7 =? JLS_TRACK_CHUNK_DEF); [exact H |].
    destruct (N.land (fm_tag (wm_ck_hdr (rp_cur s1))) 7 =? JLS_TRACK_CHUNK_HEAD) eqn:Ek; [| exact H].
    apply N.eqb_eq in Ek. apply sc_handle_track_head; cbn [c1 rp_io_ rp_rd_set_io rp_sigs].
    - exact H.
    - rewrite K1. exact Ho.
    - rewrite K1. exact K2.
    - exact Ek.
    - exact K3. }
  destruct (fm_item_next (wm_ck_hdr (rp_cur s1)) =? 0); [exact S2 |].
  destruct (rp_chunk_seek (rp_io_ c2) (fm_item_next (wm_ck_hdr (rp_cur s1)))) as [s2 rc3] eqn:E3.
  destruct (rc3 =? 0) eqn:Erc3; cbn [negb fst]; [| exact S2].
  apply N.eqb_eq in Erc3. subst rc3. destruct (rpp_chunk_seek_ok _ _ _ E3) as (A1 & A2 & A3 & A4 & _).
  apply IH; cbn [rp_io_ rp_rd_set_io rp_sigs].
  - rewrite A3, H2. congruence.
  - rewrite A4, H2. congruence.
  - exact A2.
  - rewrite A1. unfold rp_chunk_seek in E3. destruct (fm_item_next (wm_ck_hdr (rp_cur s1)) =? 0) eqn:Z; [inversion E3 | apply N.eqb_neq in Z; exact Z].
  - exact S2.
Qed.

Lemma sc_scan_initial_loop_sigs : forall fuel c found, rp_sigs (fst (rp_scan_initial_loop fuel c found)) = rp_sigs c.
Proof.
  induction fuel as [| fu IH]; intros c found; cbn [rp_scan_initial_loop]; [reflexivity |].
  destruct (found =? 7); [reflexivity |].
  destruct (rp_rd_chunk (rp_io_ c)) as [s1 rc].
  destruct (rc =? JLS_ERROR_EMPTY); [reflexivity |]. destruct (negb (rc =? 0)); [reflexivity |].
  repeat match goal with |- context [if ?b then _ else _] => destruct b end; rewrite IH; reflexivity.
Qed.
Lemma sc_scan_sources_sigs : forall c, rp_sigs (fst (rp_scan_sources c)) = rp_sigs c.
Proof.
  intros c. unfold rp_scan_sources. destruct (rp_chunk_seek _ _) as [s1 rc]. destruct (negb (rc =? 0)); [reflexivity |].
  destruct (rp_scan_sources_loop _ _). reflexivity.
Qed.

(* the tables after the whole scan phase *)
Theorem sc_scan : forall f c, rp_scan f = inr c -> sc_sigs f (rp_sigs c).
Proof.
  intros f c H. unfold rp_scan in H.
  pose proof (rpp_raw_open_file (rp_io0 f) false) as O. cbv zeta in O.
  destruct (rp_raw_open (rp_io0 f) false) as [s1 rc]. cbn [fst] in O. simpl in O.
  assert (I0 : rpp_scan_inv f (rp_rd0 s1)) by exact O.
  destruct (negb (rc =? 0) && negb (rc =? JLS_ERROR_TRUNCATED)); [discriminate H |].
  pose proof (rpp_scan_initial_frame (rp_rd0 s1)) as F1.
  pose proof (sc_scan_initial_loop_sigs (rp_chunk_fuel (rp_io_ (rp_rd0 s1))) (rp_rd0 s1) 0) as G1. fold (rp_scan_initial (rp_rd0 s1)) in G1.
  destruct (rp_scan_initial (rp_rd0 s1)) as [c1 rc1]. cbn [fst] in F1, G1.
  pose proof (rpp_scan_inv_frame _ _ _ I0 F1) as I1.
  destruct (negb (rc1 =? 0)); [discriminate H |].
  pose proof (rpp_scan_sources_frame c1) as F2. pose proof (sc_scan_sources_sigs c1) as G2.
  destruct (rp_scan_sources c1) as [c2 rc2]. cbn [fst] in F2, G2.
  pose proof (rpp_scan_inv_frame _ _ _ I1 F2) as I2.
  destruct (negb (rc2 =? 0)); [discriminate H |].
  assert (S2 : sc_sigs f (rp_sigs c2)) by (rewrite G2, G1; apply sc_sigs_init).
  assert (S3 : sc_sigs f (rp_sigs (fst (rp_scan_signals c2)))).
  { unfold rp_scan_signals.
    destruct (rp_chunk_seek (rp_io_ c2) (wm_ck_offset (rp_sig_head c2))) as [s3 rc3] eqn:E3.
    destruct (rc3 =? 0) eqn:Erc3; cbn [negb fst]; [| exact S2].
    apply N.eqb_eq in Erc3. subst rc3. destruct (rpp_chunk_seek_ok _ _ _ E3) as (A1 & A2 & A3 & A4 & _).
    destruct I2 as (J1 & J2 & _).
    apply sc_scan_signals_loop; cbn [rp_io_ rp_rd_set_io rp_sigs]; try congruence.
    rewrite A1. unfold rp_chunk_seek in E3. destruct (wm_ck_offset (rp_sig_head c2) =? 0) eqn:Z; [inversion E3 | apply N.eqb_neq in Z; exact Z]. }
  destruct (rp_scan_signals c2) as [c3 rc3]. cbn [fst] in S3.
  destruct (negb (rc3 =? 0)); [discriminate H |].
  destruct (rp_rd_chunk_end (rp_io_ c3)) as [s4 rc4].
  destruct (negb (rc4 =? 0)); [discriminate H |]. inversion H; subst c. exact S3.
Qed.
