(* WHAT THE REPAIR-ON-OPEN WRITES, part 6: jls_core_repair_fsr (core.c) for every FSR signal.
   Every top-level name starts with rz_. *)
From Coq Require Import NArith ZArith List Bool Lia Arith.
From Coq Require Import ZifyBool ZifyN ZifyNat.
From JLS Require Import Generated CrcDefs Spec Format FormatProofs WriteOnce WriteOnceProofs WmRaw WmCore WmFsr WriterModel WmProofs
  WmWriteOnce WmWriteOnce2 RepairRaw RawReadProofs RepairModel RepairProofs RepairProofs2 RepairProofs3
  RepairWo RepairWo2 RepairWo3 RepairWo4 RepairWo5.
Import ListNotations.
Local Open Scope N_scope.
Ltac Zify.zify_post_hook ::= Z.div_mod_to_equations.

Local Opaque crc32c.

(* ================================================================ the sample buffer stays unallocated *)
Section RZ_ALLOC.
Variable summ1 : N -> list N -> wm_sentry.
Variable summN : bool -> list wm_sentry -> wm_sentry.
Lemma rz_alloc_level_alloc : forall fs level, wm_f_alloc (wm_fsr_level_alloc fs level) = wm_f_alloc fs.
Proof. intros fs level. unfold wm_fsr_level_alloc. destruct (wm_f_get_level fs level); reflexivity. Qed.
Lemma rz_alloc_summaryN_add : forall d level p src es fs, wm_f_alloc (wm_fsr_summaryN_add summN d level p src es fs) = wm_f_alloc fs.
Proof.
  intros. unfold wm_fsr_summaryN_add. cbv zeta.
  destruct (wm_f_get_level (wm_fsr_level_alloc fs level) level); cbn [wm_f_alloc wm_f_set_level]; apply rz_alloc_level_alloc.
Qed.
Lemma rz_alloc_wr_summary : forall fuel d level x, wm_f_alloc (wm_fx_fsr (wm_fsr_wr_summary summN fuel d level x)) = wm_f_alloc (wm_fx_fsr x).
Proof.
  induction fuel as [| fu IH]; intros d level x; cbn [wm_fsr_wr_summary]; [reflexivity |].
  destruct (wm_f_get_level (wm_fx_fsr x) level) as [lv |]; [| reflexivity].
  match goal with |- context [if ?c then x else _] => destruct c end; [reflexivity |].
  cbv zeta.
  match goal with |- context [if wm_fl_nidx lv =? 0 then ?a else ?b] => destruct (if wm_fl_nidx lv =? 0 then a else b) as [b1 t1] end.
  match goal with |- context [wm_core_wr_summary ?a ?b ?c ?e ?g ?h] => destruct (wm_core_wr_summary a b c e g h) as [b2 t2] end.
  destruct (JLS_SUMMARY_LEVEL_COUNT <=? level + 1); [reflexivity |].
  match goal with |- wm_f_alloc (wm_fx_fsr (match wm_f_get_level (wm_fx_fsr ?x4) level with Some _ => _ | None => _ end)) = _ =>
    assert (H4 : wm_f_alloc (wm_fx_fsr x4) = wm_f_alloc (wm_fx_fsr x)) end.
  { match goal with |- context [match ?g with Some _ => _ | None => _ end] => destruct g as [up |] end;
      [match goal with |- context [if ?c then _ else _] => destruct c end |];
      try rewrite IH; cbn [wm_fx_fsr]; apply rz_alloc_summaryN_add. }
  match goal with |- context [match ?g with Some lv4 => _ | None => _ end] => destruct g end; [| exact H4].
  cbn [wm_fx_fsr wm_fx_set_fsr wm_f_alloc wm_f_set_level]. exact H4.
Qed.
Lemma rz_alloc_summary1 : forall d p samples x, wm_f_alloc (wm_fx_fsr (wm_fsr_summary1 summ1 summN d p samples x)) = wm_f_alloc (wm_fx_fsr x).
Proof.
  intros. unfold wm_fsr_summary1. cbv zeta.
  destruct (wm_f_get_level (wm_fsr_level_alloc (wm_fx_fsr x) 1) 1); [| reflexivity].
  match goal with |- context [if ?c then _ else _] => destruct c end; try rewrite rz_alloc_wr_summary;
    cbn [wm_fx_fsr wm_fx_set_fsr wm_f_alloc wm_f_set_level]; apply rz_alloc_level_alloc.
Qed.
End RZ_ALLOC.

(* the raw stands at the end of the file with no current chunk *)
Definition rz_at_end (s : rp_io) : Prop :=
  rp_fpos (rp_r s) = rp_flen s /\ rp_offset (rp_r s) = rp_flen s /\ fm_tag (rp_hdr (rp_r s)) = JLS_TAG_INVALID.
Lemma rz_at_end_seek_end : forall s, rz_at_end (rp_seek_end s).
Proof. intros s. repeat split. Qed.

Section RZ.
Variable f : list N.
Variable pos : N.
Let T := rw_T f pos.
Variable summ1 : N -> list N -> wm_sentry.
Variable summN : bool -> list wm_sentry -> wm_sentry.

(* a writer-model function run from the end of the file, its result taken back *)
Lemma rz_unfx : forall w st t fs x',
  ry_acc f pos w st -> rz_at_end (rp_w_io w) -> rx_tk f pos st t -> rx_fxstep f pos st (rp_fx w t fs) x' ->
  rp_flt (rp_w_io (rp_commit w (wm_fx_base x'))) = 0 ->
  exists st', ry_acc f pos (rp_commit w (wm_fx_base x')) st' /\ rx_tk f pos st' (wm_fx_tk x') /\ rx_mono st st'.
Proof.
  intros w st t fs x' H (E1 & E2 & E3) Ht [_ S] Hflt.
  destruct (ry_commit_flt _ _ Hflt) as (_ & Hwf).
  pose proof (ry_bridge f pos w st (wm_ck_offset (wm_tk_head t)) H E1 E2 E3) as Br.
  destruct (S st Br Ht Hwf) as (st' & Hr' & Ht' & M).
  exists st'. split; [apply (ry_commit_rx f pos w _ st st' H Hr') |]. split; [exact Ht' | exact M].
Qed.
Lemma rz_wstep_commit : forall w b, ry_wstep w (rp_commit w b).
Proof. intros w b. split; [apply ry_commit_sigs | intros X; exact (proj1 (ry_commit_flt _ _ X))]. Qed.

(* jls_core_fsr_summaryN *)
Lemma rz_fsr_summaryN : forall d w t fs level p,
  let res := rp_fsr_summaryN summN d w t fs level p in
  ry_wstep w (fst (fst res)) /\ (wm_f_alloc fs = false -> wm_f_alloc (snd res) = false) /\
  forall st, ry_acc f pos w st -> rx_tk f pos st t -> rz_at_end (rp_w_io w) -> rp_flt (rp_w_io (fst (fst res))) = 0 ->
    exists st', ry_acc f pos (fst (fst res)) st' /\ rx_tk f pos st' (snd (fst res)) /\ rx_mono st st'.
Proof.
  intros d w t fs level p. cbv zeta. unfold rp_fsr_summaryN.
  assert (FLT : forall c, c <> 0 ->
    ry_wstep w (rp_w_fault w c) /\ (wm_f_alloc fs = false -> wm_f_alloc fs = false) /\
    forall st, ry_acc f pos w st -> rx_tk f pos st t -> rz_at_end (rp_w_io w) -> rp_flt (rp_w_io (rp_w_fault w c)) = 0 ->
      exists st', ry_acc f pos (rp_w_fault w c) st' /\ rx_tk f pos st' t /\ rx_mono st st').
  { intros c Hc. split; [apply ry_wstep_fault |]. split; [auto |]. intros st _ _ _ Hflt. exfalso. revert Hflt. apply ry_fault_flt. exact Hc. }
  destruct (JLS_SUMMARY_LEVEL_COUNT <=? level); [cbn [fst snd]; apply FLT; discriminate |].
  destruct (wm_f_get_level fs (level - 1)) as [src |]; [| cbn [fst snd]; apply FLT; discriminate].
  set (f1 := wm_fsr_summaryN_add summN d level p src (wm_rev (wm_fl_sum src)) fs).
  assert (A1 : wm_f_alloc f1 = wm_f_alloc fs) by apply rz_alloc_summaryN_add.
  assert (SAME : ry_wstep w w /\ (wm_f_alloc fs = false -> wm_f_alloc f1 = false) /\
    forall st, ry_acc f pos w st -> rx_tk f pos st t -> rz_at_end (rp_w_io w) -> rp_flt (rp_w_io w) = 0 ->
      exists st', ry_acc f pos w st' /\ rx_tk f pos st' t /\ rx_mono st st').
  { split; [apply ry_wstep_refl |]. split; [intros X; rewrite A1; exact X |]. intros st H Ht _ _. exists st.
    split; [exact H |]. split; [exact Ht | apply rx_mono_refl]. }
  destruct (wm_f_get_level f1 level) as [up |]; [| cbn [fst snd]; exact SAME].
  destruct (sg_eps d <=? wm_fl_nsum up); [| cbn [fst snd]; exact SAME].
  unfold rp_unfx. cbn [fst snd].
  split; [apply rz_wstep_commit |]. split; [intros X; rewrite rz_alloc_wr_summary; cbn [wm_fx_fsr rp_fx]; rewrite A1; exact X |].
  intros st H Ht He Hflt.
  exact (rz_unfx w st t f1 _ H He Ht (rx_fsr_wr_summary f pos summ1 summN wm_level_count st d level (rp_fx w t f1)) Hflt).
Qed.

Lemma rz_tk_set_idx : forall st t level c, rx_tk f pos st t -> rw_ck (rw_hist st) (rw_n st) c -> rx_tk f pos st (rp_tk_set_idx t level c).
Proof.
  intros st t level c (A & B & C & D & E & F & G) Hc. unfold rx_tk, rp_tk_set_idx.
  cbn [wm_tk_head wm_tk_offsets wm_tk_type wm_tk_index_head wm_tk_summary_head wm_tk_set_index_head].
  repeat (split; [assumption |]). split; [apply wmw_Forall_upd; assumption | assumption].
Qed.
Lemma rz_tk_set_sum : forall st t level c, rx_tk f pos st t -> rw_ck (rw_hist st) (rw_n st) c -> rx_tk f pos st (rp_tk_set_sum t level c).
Proof.
  intros st t level c (A & B & C & D & E & F & G) Hc. unfold rx_tk, rp_tk_set_sum.
  cbn [wm_tk_head wm_tk_offsets wm_tk_type wm_tk_index_head wm_tk_summary_head wm_tk_set_summary_head].
  repeat (split; [assumption |]). apply wmw_Forall_upd; assumption.
Qed.

(* the "while (level > 0)" loop of jls_core_repair_fsr *)
Lemma rz_fsr_levels : forall fuel d w t fs level offset skip,
  let res := rp_fsr_levels summN fuel d w t fs level offset skip in
  ry_wstep w (fst (fst (fst (fst (fst res))))) /\
  (wm_f_alloc fs = false -> wm_f_alloc (snd (fst (fst (fst res)))) = false) /\
  (snd res = 0 \/ snd res = JLS_ERROR_PARAMETER_INVALID \/ snd res = JLS_ERROR_NOT_SUPPORTED) /\
  forall st, ry_acc f pos w st -> rx_tk f pos st t -> rp_flt (rp_w_io (fst (fst (fst (fst (fst res)))))) = 0 ->
    exists st', ry_acc f pos (fst (fst (fst (fst (fst res))))) st' /\ rx_tk f pos st' (snd (fst (fst (fst (fst res))))) /\ rx_mono st st'.
Proof.
  induction fuel as [| fu IH]; intros d w t fs level offset skip; cbv zeta; cbn [rp_fsr_levels].
  { cbn [fst snd]. split; [apply ry_wstep_fault |]. split; [auto |]. split; [left; reflexivity |].
    intros st _ _ Hflt. exfalso. revert Hflt. apply ry_fault_flt. discriminate. }
  (* leaves *)
  assert (LEAF : forall s' (t0 : wm_track) (f0 : wm_fsr) (o0 : N) (k0 : bool) rc,
            ry_rd (rp_w_io w) s' -> (wm_f_alloc fs = false -> wm_f_alloc f0 = false) ->
            (rc = 0 \/ rc = JLS_ERROR_PARAMETER_INVALID \/ rc = JLS_ERROR_NOT_SUPPORTED) ->
            (forall st, ry_acc f pos w st -> rx_tk f pos st t -> rx_tk f pos st t0) ->
            let res := (rp_w_set_io w s', t0, f0, o0, k0, rc) in
            ry_wstep w (fst (fst (fst (fst (fst res))))) /\
            (wm_f_alloc fs = false -> wm_f_alloc (snd (fst (fst (fst res)))) = false) /\
            (snd res = 0 \/ snd res = JLS_ERROR_PARAMETER_INVALID \/ snd res = JLS_ERROR_NOT_SUPPORTED) /\
            forall st, ry_acc f pos w st -> rx_tk f pos st t -> rp_flt (rp_w_io (fst (fst (fst (fst (fst res)))))) = 0 ->
              exists st', ry_acc f pos (fst (fst (fst (fst (fst res))))) st' /\ rx_tk f pos st' (snd (fst (fst (fst (fst res))))) /\ rx_mono st st').
  { intros s' t0 f0 o0 k0 rc Rd Ha Hrc Htk. cbv zeta. cbn [fst snd].
    split; [apply ry_wstep_io; exact Rd |]. split; [exact Ha |]. split; [exact Hrc |].
    intros st H Ht _. exists st. split; [apply (ry_acc_rd f pos _ _ _ H Rd) |]. split; [apply Htk; assumption | apply rx_mono_refl]. }
  destruct (level =? 0).
  { apply (LEAF (rp_w_io w) t fs offset skip 0); [apply ry_rd_refl | auto | left; reflexivity | auto]. }
  destruct (wm_f_get_level fs level) as [lv |].
  2:{ cbn [fst snd]. split; [apply ry_wstep_fault |]. split; [auto |]. split; [left; reflexivity |].
      intros st _ _ Hflt. exfalso. revert Hflt. apply ry_fault_flt. discriminate. }
  pose proof (ry_rd_rd_chunk (rp_w_io w)) as R1. destruct (rp_rd_chunk (rp_w_io w)) as [s1 rc1] eqn:E1. cbn [fst] in R1.
  destruct (rc1 =? 0) eqn:Erc1; cbn [negb].
  2:{ apply LEAF; [exact R1 | auto | left; reflexivity | auto]. }
  apply N.eqb_eq in Erc1. subst rc1.
  match goal with |- context [if ?b then (rp_w_set_io w s1, t, fs, offset, skip, 0) else _] => destruct b end.
  { apply LEAF; [exact R1 | auto | left; reflexivity | auto]. }
  destruct (rp_lvl_load_index lv (rp_payload s1) (fm_payload_length (wm_ck_hdr (rp_cur s1)))) as [[[lv1 esb] complete] repr].
  set (s1a := if rp_index_sz d level <? fm_payload_length (wm_ck_hdr (rp_cur s1)) then rp_io_fault s1 RpF_heap
              else if negb repr then rp_io_fault s1 RpF_fmt else s1).
  assert (R1a : ry_rd s1 s1a).
  { unfold s1a. destruct (rp_index_sz d level <? fm_payload_length (wm_ck_hdr (rp_cur s1))); [apply ry_rd_io_fault |].
    destruct (negb repr); [apply ry_rd_io_fault | apply ry_rd_refl]. }
  assert (G1a : ry_rd (rp_w_io w) s1a) by exact (ry_rd_trans _ _ _ R1 R1a).
  pose proof (ry_rd_rd_chunk s1a) as R2. destruct (rp_rd_chunk s1a) as [s2 rc2] eqn:E2. cbn [fst] in R2.
  assert (G2 : ry_rd (rp_w_io w) s2) by exact (ry_rd_trans _ _ _ G1a R2).
  set (f1 := rp_fsr_set_level fs level lv1).
  assert (A1 : wm_f_alloc f1 = wm_f_alloc fs) by reflexivity.
  assert (G2c : ry_rd (rp_w_io w) (if complete then s2 else rp_io_fault s2 RpF_buf)).
  { destruct complete; [exact G2 | eapply ry_rd_trans; [exact G2 | apply ry_rd_io_fault]]. }
  destruct (rc2 =? 0) eqn:Erc2; cbn [negb].
  2:{ apply LEAF; [exact G2c | rewrite A1; auto | left; reflexivity | auto]. }
  apply N.eqb_eq in Erc2. subst rc2.
  match goal with |- context [if ?b || ?c then _ else _] => destruct (b || c) end.
  { apply LEAF; [exact G2c | rewrite A1; auto | left; reflexivity | auto]. }
  destruct (rp_lvl_load_summary (sg_dtype d) lv1 (rp_payload s2) (fm_payload_length (wm_ck_hdr (rp_cur s2)))) as [lv2 repr2].
  set (s2a := if rp_summary_sz d <? fm_payload_length (wm_ck_hdr (rp_cur s2)) then rp_io_fault s2 RpF_heap
              else if negb repr2 then rp_io_fault s2 RpF_fmt else s2).
  assert (R2a : ry_rd s2 s2a).
  { unfold s2a. destruct (rp_summary_sz d <? fm_payload_length (wm_ck_hdr (rp_cur s2))); [apply ry_rd_io_fault |].
    destruct (negb repr2); [apply ry_rd_io_fault | apply ry_rd_refl]. }
  assert (G2a : ry_rd (rp_w_io w) s2a) by exact (ry_rd_trans _ _ _ G2 R2a).
  set (t1 := rp_tk_set_sum (rp_tk_set_idx t level (rp_cur s1)) level (rp_cur s2)).
  assert (TK1 : forall st, ry_acc f pos w st -> rx_tk f pos st t -> rx_tk f pos st t1).
  { intros st H Ht. unfold t1.
    destruct (ry_rd_chunk_ck f pos w st (rp_w_io w) s1 H (ry_rd_refl _) E1) as (C1 & _).
    destruct (ry_rd_chunk_ck f pos w st s1a s2 H G1a E2) as (C2 & _).
    apply rz_tk_set_sum; [apply rz_tk_set_idx; assumption | exact C2]. }
  set (f2 := rp_fsr_set_level f1 level lv2).
  assert (A2 : wm_f_alloc f2 = wm_f_alloc fs) by reflexivity.
  destruct (negb (esb =? 64)).
  { apply LEAF; [exact G2a | rewrite A2; auto | right; left; reflexivity | exact TK1]. }
  destruct (negb complete).
  { apply LEAF; [exact G2a | rewrite A2; auto | right; left; reflexivity | exact TK1]. }
  set (w3 := rp_w_set_io (rp_w_set_io w s2a) (rp_seek_end s2a)).
  assert (G3 : ry_rd (rp_w_io w) (rp_seek_end s2a)) by (eapply ry_rd_trans; [exact G2a | apply ry_rd_seek_end]).
  assert (W3 : ry_wstep w w3) by (unfold w3; split; [reflexivity | apply G3]).
  assert (ACC3 : forall st, ry_acc f pos w st -> ry_acc f pos w3 st).
  { intros st H. pose proof (ry_acc_rd f pos _ _ _ H G3) as X. exact X. }
  (* the summary of the level above *)
  match goal with |- context [if skip then ?a else ?b] => set (p4 := if skip then a else b) end.
  assert (P4 : ry_wstep w (fst (fst p4)) /\ (wm_f_alloc fs = false -> wm_f_alloc (snd p4) = false) /\
               forall st, ry_acc f pos w st -> rx_tk f pos st t -> rp_flt (rp_w_io (fst (fst p4))) = 0 ->
                 exists st', ry_acc f pos (fst (fst p4)) st' /\ rx_tk f pos st' (snd (fst p4)) /\ rx_mono st st').
  { unfold p4. destruct skip.
    - cbn [fst snd]. split; [exact W3 |]. split; [rewrite A2; auto |]. intros st H Ht _. exists st.
      split; [apply ACC3; exact H |]. split; [apply TK1; assumption | apply rx_mono_refl].
    - pose proof (rz_fsr_summaryN d w3 t1 f2 (level + 1) offset) as (SW & SA & SS). cbv zeta in SW, SA, SS.
      split; [eapply ry_wstep_trans; eauto |]. split; [intros X; apply SA; rewrite A2; exact X |].
      intros st H Ht Hflt. apply (SS st (ACC3 st H) (TK1 st H Ht)); [apply rz_at_end_seek_end | exact Hflt]. }
  destruct p4 as [[w4 t4] f4]. cbn [fst snd] in P4. destruct P4 as (W4 & A4 & S4).
  (* continue: a step of the walk with the new state *)
  assert (CONT : forall s' level' offset' skip', ry_rd (rp_w_io w4) s' ->
            forall f5, (wm_f_alloc fs = false -> wm_f_alloc f5 = false) ->
            let res := rp_fsr_levels summN fu d (rp_w_set_io w4 s') t4 f5 level' offset' skip' in
            ry_wstep w (fst (fst (fst (fst (fst res))))) /\
            (wm_f_alloc fs = false -> wm_f_alloc (snd (fst (fst (fst res)))) = false) /\
            (snd res = 0 \/ snd res = JLS_ERROR_PARAMETER_INVALID \/ snd res = JLS_ERROR_NOT_SUPPORTED) /\
            forall st, ry_acc f pos w st -> rx_tk f pos st t -> rp_flt (rp_w_io (fst (fst (fst (fst (fst res)))))) = 0 ->
              exists st', ry_acc f pos (fst (fst (fst (fst (fst res))))) st' /\ rx_tk f pos st' (snd (fst (fst (fst (fst res))))) /\ rx_mono st st').
  { intros s' level' offset' skip' Rd f5 A5. cbv zeta.
    pose proof (IH d (rp_w_set_io w4 s') t4 f5 level' offset' skip') as R. cbv zeta in R. destruct R as (RW & RA & RC & RS).
    split; [eapply ry_wstep_trans; [exact W4 |]; eapply ry_wstep_trans; [apply ry_wstep_io; exact Rd | exact RW] |].
    split; [intros X; apply RA; apply A5; exact X |]. split; [exact RC |].
    intros st H Ht Hflt.
    assert (Hf4 : rp_flt (rp_w_io w4) = 0) by (apply (proj2 (ry_wstep_io w4 s' Rd)); apply (proj2 RW); exact Hflt).
    destruct (S4 st H Ht Hf4) as (st4 & H4 & T4 & M4).
    destruct (RS st4 (ry_acc_rd f pos _ _ _ H4 Rd) T4 Hflt) as (st5 & H5 & T5 & M5).
    exists st5. split; [exact H5 |]. split; [exact T5 | eapply rx_mono_trans; eauto]. }
  assert (LEAF4 : forall s' (o0 : N) (k0 : bool) rc f5,
            ry_rd (rp_w_io w4) s' -> (wm_f_alloc fs = false -> wm_f_alloc f5 = false) ->
            (rc = 0 \/ rc = JLS_ERROR_PARAMETER_INVALID \/ rc = JLS_ERROR_NOT_SUPPORTED) ->
            let res := (rp_w_set_io w4 s', t4, f5, o0, k0, rc) in
            ry_wstep w (fst (fst (fst (fst (fst res))))) /\
            (wm_f_alloc fs = false -> wm_f_alloc (snd (fst (fst (fst res)))) = false) /\
            (snd res = 0 \/ snd res = JLS_ERROR_PARAMETER_INVALID \/ snd res = JLS_ERROR_NOT_SUPPORTED) /\
            forall st, ry_acc f pos w st -> rx_tk f pos st t -> rp_flt (rp_w_io (fst (fst (fst (fst (fst res)))))) = 0 ->
              exists st', ry_acc f pos (fst (fst (fst (fst (fst res))))) st' /\ rx_tk f pos st' (snd (fst (fst (fst (fst res))))) /\ rx_mono st st').
  { intros s' o0 k0 rc f5 Rd A5 Hrc. cbv zeta. cbn [fst snd].
    split; [eapply ry_wstep_trans; [exact W4 | apply ry_wstep_io; exact Rd] |]. split; [exact A5 |]. split; [exact Hrc |].
    intros st H Ht Hflt.
    assert (Hf4 : rp_flt (rp_w_io w4) = 0) by (apply (proj2 (ry_wstep_io w4 s' Rd)); exact Hflt).
    destruct (S4 st H Ht Hf4) as (st4 & H4 & T4 & M4).
    exists st4. split; [apply (ry_acc_rd f pos _ _ _ H4 Rd) |]. split; [exact T4 | exact M4]. }
  match goal with |- context [if ?b then _ else _] => destruct b end.
  { pose proof (ry_rd_chunk_seek (rp_w_io w4) (fm_item_next (wm_ck_hdr (rp_cur s1)))) as R5.
    destruct (rp_chunk_seek (rp_w_io w4) (fm_item_next (wm_ck_hdr (rp_cur s1)))) as [s5 rc5]. cbn [fst] in R5.
    apply CONT; [exact R5 | exact A4]. }
  destruct (wm_f_get_level f4 level) as [lv4 |].
  2:{ cbn [fst snd]. split; [eapply ry_wstep_trans; [exact W4 | apply ry_wstep_fault] |]. split; [exact A4 |]. split; [left; reflexivity |].
      intros st _ _ Hflt. exfalso. revert Hflt. apply ry_fault_flt. discriminate. }
  destruct (wm_fl_nidx lv4 =? 0).
  { pose proof (LEAF4 (rp_w_io w4) offset true JLS_ERROR_NOT_SUPPORTED f4 (ry_rd_refl _) A4 (or_intror (or_intror eq_refl))) as L.
    cbv zeta in L. replace (rp_w_set_io w4 (rp_w_io w4)) with w4 in L by (destruct w4 as [[? ? ? ? ?] ? ?]; reflexivity). exact L. }
  pose proof (ry_rd_chunk_seek (rp_w_io w4) (hd 0 (wm_fl_idx lv4))) as R6.
  destruct (rp_chunk_seek (rp_w_io w4) (hd 0 (wm_fl_idx lv4))) as [s6 rc6]. cbn [fst] in R6.
  set (f5 := rp_fsr_set_level f4 level (wm_fl_reset lv4)).
  assert (A5 : wm_f_alloc fs = false -> wm_f_alloc f5 = false) by (intros X; unfold f5; cbn; apply A4; exact X).
  destruct (negb (rc6 =? 0)).
  { apply LEAF4; [exact R6 | exact A5 | left; reflexivity]. }
  apply CONT; [exact R6 |].
  destruct (0 <? level - 1); [intros X; rewrite rz_alloc_level_alloc; apply A5; exact X | exact A5].
Qed.

Lemma rz_at_end_fault : forall w c, rz_at_end (rp_w_io w) -> rz_at_end (rp_w_io (rp_w_fault w c)).
Proof. intros w c H. exact H. Qed.

(* "update level 0 (data)" of jls_core_repair_fsr *)
Lemma rz_fsr_data : forall fuel d w t fs offset skip,
  let res := rp_fsr_data summ1 summN fuel d w t fs offset skip in
  ry_wstep w (fst (fst res)) /\ (wm_f_alloc fs = false -> wm_f_alloc (snd res) = false) /\
  forall st, ry_acc f pos w st -> rx_tk f pos st t -> rp_flt (rp_w_io (fst (fst res))) = 0 ->
    exists st', ry_acc f pos (fst (fst res)) st' /\ rx_tk f pos st' (snd (fst res)) /\ rx_mono st st'.
Proof.
  induction fuel as [| fu IH]; intros d w t fs offset skip; cbv zeta; cbn [rp_fsr_data].
  { cbn [fst snd]. split; [apply ry_wstep_fault |]. split; [auto |].
    intros st _ _ Hflt. exfalso. revert Hflt. apply ry_fault_flt. discriminate. }
  assert (LEAF : forall s', ry_rd (rp_w_io w) s' ->
            ry_wstep w (rp_w_set_io w s') /\ (wm_f_alloc fs = false -> wm_f_alloc fs = false) /\
            forall st, ry_acc f pos w st -> rx_tk f pos st t -> rp_flt (rp_w_io (rp_w_set_io w s')) = 0 ->
              exists st', ry_acc f pos (rp_w_set_io w s') st' /\ rx_tk f pos st' t /\ rx_mono st st').
  { intros s' Rd. split; [apply ry_wstep_io; exact Rd |]. split; [auto |]. intros st H Ht _. exists st.
    split; [apply (ry_acc_rd f pos _ _ _ H Rd) |]. split; [exact Ht | apply rx_mono_refl]. }
  destruct (offset =? 0).
  { cbn [fst snd]. pose proof (LEAF (rp_w_io w) (ry_rd_refl _)) as L.
    replace (rp_w_set_io w (rp_w_io w)) with w in L by (destruct w as [[? ? ? ? ?] ? ?]; reflexivity). exact L. }
  pose proof (ry_rd_seek_rd (rp_w_io w) offset) as R2.
  destruct (rp_chunk_seek (rp_w_io w) offset) as [s1 rc1].
  destruct (if rc1 =? 0 then rp_rd_chunk s1 else (s1, rc1)) as [s2 rc2]. cbn [fst] in R2.
  destruct (negb (rc2 =? 0)); [cbn [fst snd]; apply LEAF; exact R2 |].
  match goal with |- context [if ?b then (rp_w_set_io w s2, t, fs) else _] => destruct b end; [cbn [fst snd]; apply LEAF; exact R2 |].
  set (f1 := wm_f_set_block fs false (fm_i64_at 0 (rp_payload s2)) (fm_u32_at OFFSETOF_payload_entry_count (rp_payload s2)) []).
  assert (A1 : wm_f_alloc f1 = false) by reflexivity.
  set (w1e := rp_w_set_io (rp_w_set_io w s2) (rp_seek_end (rp_w_io (rp_w_set_io w s2)))).
  assert (G1 : ry_rd (rp_w_io w) (rp_seek_end s2)) by (eapply ry_rd_trans; [exact R2 | apply ry_rd_seek_end]).
  assert (W1 : ry_wstep w w1e) by (unfold w1e; split; [reflexivity | apply G1]).
  assert (ACC1 : forall st, ry_acc f pos w st -> ry_acc f pos w1e st).
  { intros st H. pose proof (ry_acc_rd f pos _ _ _ H G1) as X. exact X. }
  destruct skip.
  { pose proof (IH d w1e t f1 (fm_item_next (wm_ck_hdr (rp_cur s2))) false) as R. cbv zeta in R. destruct R as (RW & RA & RS).
    split; [eapply ry_wstep_trans; eauto |]. split; [intros _; apply RA; exact A1 |].
    intros st H Ht Hflt. apply (RS st (ACC1 st H) Ht Hflt). }
  match goal with |- context [rp_unfx ?a ?b] => set (w2 := a); set (x2 := b) end.
  assert (W2 : ry_wstep w1e w2).
  { unfold w2. match goal with |- context [if ?b then _ else _] => destruct b end; [apply ry_wstep_fault |].
    match goal with |- context [if ?b then _ else _] => destruct b end; [apply ry_wstep_fault | apply ry_wstep_refl]. }
  assert (ACC2 : forall st, ry_acc f pos w1e st -> ry_acc f pos w2 st /\ rz_at_end (rp_w_io w2)).
  { intros st H. unfold w2.
    assert (E : rz_at_end (rp_w_io w1e)) by apply rz_at_end_seek_end.
    match goal with |- context [if ?b then _ else _] => destruct b end.
    { split; [apply (ry_acc_rd f pos _ _ _ H (ry_rd_io_fault _ _)) | exact E]. }
    match goal with |- context [if ?b then _ else _] => destruct b end.
    { split; [apply (ry_acc_rd f pos _ _ _ H (ry_rd_io_fault _ _)) | exact E]. }
    split; [exact H | exact E]. }
  unfold rp_unfx.
  set (w3 := rp_commit w2 (wm_fx_base x2)).
  set (w3a := if rp_w_inplace w2 && negb (Nat.eqb (length (rp_log w3)) (length (rp_log w2))) then rp_w_set_uninit w3 else w3).
  assert (W3a : ry_wstep w3 w3a) by (unfold w3a; destruct (_ && _); [split; [reflexivity | auto] | apply ry_wstep_refl]).
  pose proof (IH d w3a (wm_fx_tk x2) (wm_fx_fsr x2) (fm_item_next (wm_ck_hdr (rp_cur s2))) false) as R. cbv zeta in R.
  destruct R as (RW & RA & RS).
  assert (W13 : ry_wstep w w3a).
  { eapply ry_wstep_trans; [exact W1 |]. eapply ry_wstep_trans; [exact W2 |]. eapply ry_wstep_trans; [apply rz_wstep_commit | exact W3a]. }
  split; [eapply ry_wstep_trans; eauto |].
  split; [intros _; apply RA; unfold x2; rewrite rz_alloc_summary1; exact A1 |].
  intros st H Ht Hflt.
  assert (Hf3 : rp_flt (rp_w_io w3) = 0) by (apply (proj2 W3a); apply (proj2 RW); exact Hflt).
  destruct (ACC2 st (ACC1 st H)) as (H2 & E2).
  destruct (rz_unfx w2 st t f1 x2 H2 E2 Ht (rx_fsr_summary1 f pos summ1 summN st d offset _ (rp_fx w2 t f1)) Hf3) as (st3 & H3 & T3 & M3).
  assert (H3a : ry_acc f pos w3a st3) by (unfold w3a; destruct (_ && _); [apply ry_acc_uninit |]; exact H3).
  destruct (RS st3 H3a T3 Hflt) as (st4 & H4 & T4 & M4).
  exists st4. split; [exact H4 |]. split; [exact T4 | eapply rx_mono_trans; eauto].
Qed.

(* ---------------------------------------------------------------- the tables during the FSR phase *)
Definition rz_ftrk (st : rw_st) (t : wm_track) : Prop := t = wm_track0 0 \/ rx_tk f pos st t.
Definition rz_fsig (st : rw_st) (g : rp_sig) : Prop := rz_ftrk st (snd (rp_sg_track g JLS_TRACK_TYPE_FSR)) /\ rp_sg_fsr g = None.
Definition rz_fsigs (st : rw_st) (c : rp_rd) : Prop := Forall (rz_fsig st) (rp_sigs c).
Lemma rz_ftrk_mono : forall st st' t, rx_mono st st' -> rz_ftrk st t -> rz_ftrk st' t.
Proof. intros st st' t M [H | H]; [left; exact H | right; eapply rx_tk_mono; eauto]. Qed.
Lemma rz_fsigs_mono : forall st st' c, rx_mono st st' -> rz_fsigs st c -> rz_fsigs st' c.
Proof.
  intros st st' c M H. eapply Forall_impl; [| exact H]. intros g (A & B). split; [eapply rz_ftrk_mono; eauto | exact B].
Qed.
Lemma rz_fsigs_get : forall st c id, rz_fsigs st c -> rz_fsig st (rp_get_sig c id).
Proof.
  intros st c id H. unfold rp_get_sig. destruct (nth_in_or_default (N.to_nat id) (rp_sigs c) (rp_sig0 id)) as [Hin | Hd].
  - unfold rz_fsigs in H. rewrite Forall_forall in H. apply H. exact Hin.
  - rewrite Hd. split; [left; reflexivity | reflexivity].
Qed.
Lemma rz_fsigs_of_sigs : forall st c, ry_sigs f pos st c -> rz_fsigs st c.
Proof.
  intros st c H. eapply Forall_impl; [| exact H]. intros g Hg. pose proof (ry_sig_track f pos st g JLS_TRACK_TYPE_FSR Hg) as (A & B & C).
  destruct Hg as (_ & G2 & G3). split; [| exact G2].
  destruct (rp_sg_track g JLS_TRACK_TYPE_FSR) as [has t]. cbn [fst snd] in *. destruct has; [right | left; apply B; reflexivity].
  destruct (A eq_refl) as (A1 & A2 & A3 & A4). destruct C as (C1 & C2).
  unfold rx_tk. repeat (split; [assumption |]).
  split; (eapply Forall_impl; [| eassumption]); intros c0 Hc; apply ry_cell_ck; exact Hc.
Qed.

Lemma rz_first_level_track0 : forall k s ch, rp_first_level k s (wm_track0 0) ch = (s, wm_track0 0, 0).
Proof.
  induction k as [| k IH]; intros s ch; cbn [rp_first_level]; [reflexivity |].
  replace (wm_get_off (wm_tk_offsets (wm_track0 0)) (N.of_nat (S k)) =? 0) with true; [apply IH |].
  symmetry. apply N.eqb_eq. unfold wm_get_off. cbn [wm_track0 wm_tk_offsets]. apply nth_repeat.
Qed.
Lemma rz_first_level_tk : forall k s t st, rx_tk f pos st t -> rx_tk f pos st (snd (fst (rp_first_level k s t false))).
Proof.
  induction k as [| k IH]; intros s t st H; cbn [rp_first_level]; [exact H |].
  destruct (wm_get_off (wm_tk_offsets t) (N.of_nat (S k)) =? 0); [apply IH; exact H |].
  destruct (rp_chunk_seek s (wm_get_off (wm_tk_offsets t) (N.of_nat (S k)))) as [s1 rc].
  destruct (rc =? 0); [exact H |]. apply IH.
  destruct H as (A & B & C & D & E & F & G). unfold rx_tk, rp_tk_set_off.
  cbn [wm_tk_head wm_tk_offsets wm_tk_type wm_tk_index_head wm_tk_summary_head wm_tk_set_offsets].
  repeat (split; [assumption || (rewrite wmw_upd_length; assumption) |]). assumption.
Qed.

(* jls_fsr_close of a track_fsr that was only opened: nothing *)
Lemma rz_close_open : forall d x, wm_fx_fsr x = wm_fsr_open -> wm_fsr_close summ1 summN d x = x.
Proof.
  intros d x H. unfold wm_fsr_close. cbv zeta. rewrite H. cbn [wm_f_alloc wm_fsr_open].
  generalize wm_fsr_close_levels. intro l. induction l as [| lv l IH]; cbn [fold_left]; [reflexivity |].
  replace (wm_fsr_summary_close summN d x lv) with x; [exact IH |].
  unfold wm_fsr_summary_close. rewrite H. unfold wm_f_get_level. cbn [wm_f_levels wm_fsr_open]. rewrite nth_repeat. reflexivity.
Qed.

Definition rz_put (id : N) (w' : rp_w) (t' : wm_track) (f' : option wm_fsr) : rp_w :=
  let g' := rp_get_sig (rp_c w') id in
  rp_w_set_c w' (rp_put_sig (rp_c w') id
    (rp_sg_set_fsr (rp_sg_set_tk g' (wm_upd (N.to_nat JLS_TRACK_TYPE_FSR) (true, t') (rp_sg_tk g'))) f')).
Lemma rz_put_io : forall id w' t' f', rp_w_io (rz_put id w' t' f') = rp_w_io w'.
Proof. reflexivity. Qed.
Lemma rz_put_ok : forall id w' t' st', ry_acc f pos w' st' -> rz_fsigs st' (rp_c w') -> rz_ftrk st' t' ->
  ry_acc f pos (rz_put id w' t' None) st' /\ rz_fsigs st' (rp_c (rz_put id w' t' None)).
Proof.
  intros id w' t' st' H S Ht. split; [apply ry_acc_set_c; [exact H | reflexivity] |].
  unfold rz_put. cbv zeta. cbn [rp_c rp_w_set_c]. unfold rz_fsigs, rp_put_sig. cbn [rp_sigs rp_rd_set_sigs].
  apply wmw_Forall_upd; [exact S |].
  pose proof (rz_fsigs_get st' _ id S) as (G1 & G2).
  split; [| reflexivity].
  unfold rp_sg_track in *. cbn [rp_sg_set_fsr rp_sg_set_tk rp_sg_tk].
  destruct (ry_nth_upd_cases _ (N.to_nat JLS_TRACK_TYPE_FSR) (N.to_nat JLS_TRACK_TYPE_FSR) (true, t') (false, wm_track0 0) (rp_sg_tk (rp_get_sig (rp_c w') id)))
    as [[E1 _] | E1]; rewrite E1; [exact Ht | exact G1].
Qed.

Lemma rz_sigs_eq : forall st c c', rp_sigs c' = rp_sigs c -> rz_fsigs st c -> rz_fsigs st c'.
Proof. intros st c c' E H. unfold rz_fsigs. rewrite E. exact H. Qed.

(* jls_core_repair_fsr *)
Lemma rz_repair_fsr : forall w id,
  let res := rp_repair_fsr summ1 summN w id in
  (rp_flt (rp_w_io (fst res)) = 0 -> rp_flt (rp_w_io w) = 0) /\
  forall st, ry_acc f pos w st -> rz_fsigs st (rp_c w) -> rp_flt (rp_w_io (fst res)) = 0 ->
    (snd res = JLS_ERROR_PARAMETER_INVALID \/ snd res = JLS_ERROR_NOT_SUPPORTED) \/
    exists st', ry_acc f pos (fst res) st' /\ rz_fsigs st' (rp_c (fst res)) /\ rx_mono st st'.
Proof.
  intros w id. cbv zeta. unfold rp_repair_fsr.
  destruct (negb (rp_signal_validate_typed (rp_c w) id JLS_SIGNAL_TYPE_FSR =? 0)).
  { cbn [fst snd]. split; [auto |]. intros st H S _. right. exists st. split; [exact H |]. split; [exact S | apply rx_mono_refl]. }
  set (g := rp_get_sig (rp_c w) id). set (d := rp_sg_d g).
  destruct (rp_sg_track g JLS_TRACK_TYPE_FSR) as [has t] eqn:Et.
  match goal with |- context [rp_first_level rp_top_level (rp_w_io ?a) t false] => set (w0 := a) end.
  assert (R0 : ry_rd (rp_w_io w) (rp_w_io w0)).
  { unfold w0. match goal with |- context [if ?b then _ else _] => destruct b end; [apply ry_rd_io_fault | apply ry_rd_refl]. }
  assert (S0 : rp_sigs (rp_c w0) = rp_sigs (rp_c w)).
  { unfold w0. match goal with |- context [if ?b then _ else _] => destruct b end; reflexivity. }
  assert (ACC0 : forall st, ry_acc f pos w st -> ry_acc f pos w0 st).
  { intros st H. unfold w0. match goal with |- context [if ?b then _ else _] => destruct b end; [| exact H].
    apply (ry_acc_rd f pos _ _ _ H (ry_rd_io_fault _ _)). }
  pose proof (ry_rd_first_level rp_top_level (rp_w_io w0) t false) as R1.
  pose proof (fun st => rz_first_level_tk rp_top_level (rp_w_io w0) t st) as TK1.
  pose proof (rz_first_level_track0 rp_top_level (rp_w_io w0) false) as Z1.
  destruct (rp_first_level rp_top_level (rp_w_io w0) t false) as [[s1 t1] level] eqn:E1. cbn [fst snd] in R1, TK1.
  set (w1 := rp_w_set_io w0 s1).
  assert (G1 : ry_rd (rp_w_io w) s1) by exact (ry_rd_trans _ _ _ R0 R1).
  set (f0 := if 0 <? level then wm_fsr_level_alloc wm_fsr_open level else wm_fsr_open).
  assert (A0 : wm_f_alloc f0 = false) by (unfold f0; destruct (0 <? level); [rewrite rz_alloc_level_alloc |]; reflexivity).
  pose proof (rz_fsr_levels (rp_chain_fuel s1 + 16) d w1 t1 f0 level (wm_get_off (wm_tk_offsets t1) level) false) as L2. cbv zeta in L2.
  destruct (rp_fsr_levels summN (rp_chain_fuel s1 + 16) d w1 t1 f0 level (wm_get_off (wm_tk_offsets t1) level) false)
    as [[[[[w2 t2] f2] offset2] skip2] rc2] eqn:E2.
  cbn [fst snd] in L2. destruct L2 as (W2 & A2 & RC2 & S2).
  fold (rz_put id w2 t2 (Some f2)).
  destruct (negb (rc2 =? 0)) eqn:Erc2.
  { cbn [fst snd]. rewrite rz_put_io. split; [intros X; apply R0; apply (proj2 (ry_wstep_io w0 s1 R1)); apply (proj2 W2); exact X |].
    intros st _ _ _. left. apply negb_true_iff in Erc2. apply N.eqb_neq in Erc2. destruct RC2 as [X | X]; [contradiction | exact X]. }
  pose proof (rz_fsr_data (rp_chain_fuel s1) d w2 t2 f2 offset2 skip2) as L3. cbv zeta in L3.
  destruct (rp_fsr_data summ1 summN (rp_chain_fuel s1) d w2 t2 f2 offset2 skip2) as [[w3 t3] f3] eqn:E3.
  cbn [fst snd] in L3. destruct L3 as (W3 & A3 & S3).
  set (w4 := rp_w_set_io w3 (rp_seek_end (rp_w_io w3))).
  unfold rp_unfx. set (x5 := wm_fsr_close summ1 summN d (rp_fx w4 t3 f3)).
  fold (rz_put id (rp_commit w4 (wm_fx_base x5)) (wm_fx_tk x5) None). cbn [fst snd]. rewrite rz_put_io.
  assert (FL : rp_flt (rp_w_io (rp_commit w4 (wm_fx_base x5))) = 0 -> rp_flt (rp_w_io w3) = 0 /\ rp_flt (rp_w_io w2) = 0 /\ rp_flt (rp_w_io w) = 0).
  { intros X. destruct (ry_commit_flt _ _ X) as (X4 & _). change (rp_flt (rp_w_io w4)) with (rp_flt (rp_w_io w3)) in X4.
    split; [exact X4 |]. pose proof (proj2 W3 X4) as X2. split; [exact X2 |].
    apply R0. apply (proj2 (ry_wstep_io w0 s1 R1)). apply (proj2 W2). exact X2. }
  split; [intros X; apply FL; exact X |].
  intros st H S Hflt. right. destruct (FL Hflt) as (Hf3 & Hf2 & _).
  assert (H1 : ry_acc f pos w1 st) by (unfold w1; apply (ry_acc_rd f pos _ _ _ (ACC0 st H) R1)).
  assert (S4eq : rp_sigs (rp_c (rp_commit w4 (wm_fx_base x5))) = rp_sigs (rp_c w)).
  { rewrite ry_commit_sigs. change (rp_sigs (rp_c w4)) with (rp_sigs (rp_c w3)). rewrite (proj1 W3), (proj1 W2). exact S0. }
  pose proof (rz_fsigs_get st _ id S) as (Gt & _). fold g in Gt. rewrite Et in Gt. cbn [snd] in Gt.
  destruct Gt as [Gt | Gt].
  - (* no FSR track head: nothing is walked, nothing is written *)
    subst t. rewrite Z1 in E1. inversion E1; subst s1 t1 level. clear E1.
    assert (Ef0 : f0 = wm_fsr_open) by reflexivity.
    assert (E2' : (w2, t2, f2, offset2, skip2, rc2) = (w1, wm_track0 0, f0, 0, false, 0)).
    { rewrite <- E2. unfold rp_chain_fuel. cbn [Nat.add rp_fsr_levels N.eqb]. reflexivity. }
    inversion E2'; subst w2 t2 f2 offset2 skip2 rc2. clear E2'.
    assert (E3' : (w3, t3, f3) = (w1, wm_track0 0, f0)).
    { rewrite <- E3. unfold rp_chain_fuel. cbn [rp_fsr_data N.eqb]. reflexivity. }
    inversion E3'; subst w3 t3 f3. clear E3'.
    assert (Ex5 : x5 = rp_fx w4 (wm_track0 0) f0) by (unfold x5; apply rz_close_open; exact Ef0).
    rewrite Ex5 in *. cbn [wm_fx_base wm_fx_tk rp_fx] in *.
    assert (H4 : ry_acc f pos w4 st) by (unfold w4; apply (ry_acc_rd f pos _ _ _ H1 (ry_rd_seek_end _))).
    assert (H5 : ry_acc f pos (rp_commit w4 (rp_wm_base w4 (wm_ck_offset (wm_tk_head (wm_track0 0))))) st).
    { pose proof H4 as (B1 & B2 & B3 & B4 & B5 & B6 & B7 & B8 & B9).
      apply (ry_commit f pos w4 _ st st H4); [now left | exact B2 | exact B6 | reflexivity | exact B7 | exact B8]. }
    destruct (rz_put_ok id _ (wm_track0 0) st H5 (rz_sigs_eq st _ _ S4eq S) (or_introl eq_refl)) as (P1 & P2).
    exists st. split; [exact P1 |]. split; [exact P2 | apply rx_mono_refl].
  - pose proof (TK1 st Gt) as T1.
    destruct (S2 st H1 T1 Hf2) as (st2 & H2 & T2 & M2).
    destruct (S3 st2 H2 T2 Hf3) as (st3 & H3 & T3 & M3).
    assert (H4 : ry_acc f pos w4 st3) by (unfold w4; apply (ry_acc_rd f pos _ _ _ H3 (ry_rd_seek_end _))).
    assert (A3' : wm_f_alloc f3 = false) by (apply A3; apply A2; exact A0).
    destruct (rz_unfx w4 st3 t3 f3 x5 H4 (rz_at_end_seek_end _) T3 (rx_fsr_close f pos summ1 summN st3 d (rp_fx w4 t3 f3) A3') Hflt)
      as (st5 & H5 & T5 & M5).
    assert (M : rx_mono st st5) by (eapply rx_mono_trans; [exact M2 |]; eapply rx_mono_trans; eauto).
    destruct (rz_put_ok id _ (wm_fx_tk x5) st5 H5 (rz_sigs_eq st5 _ _ S4eq (rz_fsigs_mono _ _ _ M S)) (or_intror T5)) as (P1 & P2).
    exists st5. split; [exact P1 |]. split; [exact P2 | exact M].
Qed.

Lemma rz_repair_fsr_all : forall ids w,
  let res := rp_repair_fsr_all summ1 summN ids w in
  (rp_flt (rp_w_io (fst res)) = 0 -> rp_flt (rp_w_io w) = 0) /\
  forall st, ry_acc f pos w st -> rz_fsigs st (rp_c w) -> rp_flt (rp_w_io (fst res)) = 0 ->
    (snd res = JLS_ERROR_PARAMETER_INVALID \/ snd res = JLS_ERROR_NOT_SUPPORTED) \/
    exists st', ry_acc f pos (fst res) st' /\ rz_fsigs st' (rp_c (fst res)) /\ rx_mono st st'.
Proof.
  induction ids as [| id rest IH]; intros w; cbv zeta; cbn [rp_repair_fsr_all].
  { cbn [fst snd]. split; [auto |]. intros st H S _. right. exists st. split; [exact H |]. split; [exact S | apply rx_mono_refl]. }
  match goal with |- context [if ?b then _ else _] => destruct b end; [| apply IH].
  pose proof (rz_repair_fsr w id) as R. cbv zeta in R. destruct (rp_repair_fsr summ1 summN w id) as [w1 rc]. cbn [fst snd] in R.
  destruct R as (F1 & S1).
  destruct (rc =? 0) eqn:Erc.
  - pose proof (IH w1) as R2. cbv zeta in R2. destruct R2 as (F2 & S2). split; [auto |].
    intros st H S Hflt. destruct (S1 st H S (F2 Hflt)) as [[X | X] | (st1 & H1 & G1 & M1)];
      [apply N.eqb_eq in Erc; rewrite Erc in X; discriminate X | apply N.eqb_eq in Erc; rewrite Erc in X; discriminate X |].
    destruct (S2 st1 H1 G1 Hflt) as [X | (st2 & H2 & G2 & M2)]; [left; exact X | right].
    exists st2. split; [exact H2 |]. split; [exact G2 | eapply rx_mono_trans; eauto].
  - cbn [fst snd]. split; [exact F1 |]. exact S1.
Qed.

End RZ.
