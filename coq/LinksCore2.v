(* ITEM_NEXT LINK INVARIANT of the writer model, part 2: track.c / core.c steps (jls_track_wr_head, jls_track_update,
   jls_core_wr_summary / _index / _data) as [lk_tstep]s, and the base steps of writer.c's definition lists.
   Mirrors WmWriteOnce.v (wmw_track_wr_head_step .. wmw_core_wr_data_step) and the head of WmWriteOnce3.v; the wmw_ lemma
   gives the checker state, the exact lemmas of LinksCore.v give the definition-list part.
   Every top-level name starts with lk_. *)
From Coq Require Import NArith ZArith List Bool Lia Arith.
From Coq Require Import ZifyBool ZifyN ZifyNat.
From JLS Require Import Generated CrcDefs Spec Format FormatProofs WriteOnce WriteOnceProofs
                        WmRaw WmCore WmTs WmFsr WriterModel WmProofs WmWriteOnce WmWriteOnce2 WmWriteOnce3 LinksCore.
Import ListNotations.
Local Open Scope N_scope.
Ltac Zify.zify_post_hook ::= Z.div_mod_to_equations.
Local Opaque crc32c.

Lemma lk_key_track_tag : forall ty k, ty < 4 -> k <= 4 -> lk_key (fm_track_tag ty k) = if k <=? 1 then 2 else 0.
Proof.
  intros ty k Hty Hk.
  assert (A : ty = 0 \/ ty = 1 \/ ty = 2 \/ ty = 3) by lia.
  assert (B : k = 0 \/ k = 1 \/ k = 2 \/ k = 3 \/ k = 4) by lia.
  destruct A as [-> | [-> | [-> | ->]]]; destruct B as [-> | [-> | [-> | [-> | ->]]]]; reflexivity.
Qed.

Lemma lk_track_set_data_head : forall E id ty t c, lk_track E id ty t -> wmw_ref E c -> lk_slot c -> lk_track E id ty (wm_tk_set_data_head t c).
Proof.
  intros E id ty t c [Ht (K1 & K2 & K3)] Hc Hs. split; [apply wmw_track_set_data_head; assumption|].
  unfold lk_tki. cbn [wm_tk_set_data_head wm_tk_data_head wm_tk_index_head wm_tk_summary_head]. auto.
Qed.
Lemma lk_track_set_index_head : forall E id ty t l, lk_track E id ty t -> Forall (wmw_ref E) l -> Forall lk_slot l ->
  lk_track E id ty (wm_tk_set_index_head t l).
Proof.
  intros E id ty t l [Ht (K1 & K2 & K3)] Hc Hs. split; [apply wmw_track_set_index_head; assumption|].
  unfold lk_tki. cbn [wm_tk_set_index_head wm_tk_data_head wm_tk_index_head wm_tk_summary_head]. auto.
Qed.
Lemma lk_track_set_summary_head : forall E id ty t l, lk_track E id ty t -> Forall (wmw_ref E) l -> Forall lk_slot l ->
  lk_track E id ty (wm_tk_set_summary_head t l).
Proof.
  intros E id ty t l [Ht (K1 & K2 & K3)] Hc Hs. split; [apply wmw_track_set_summary_head; assumption|].
  unfold lk_tki. cbn [wm_tk_set_summary_head wm_tk_data_head wm_tk_index_head wm_tk_summary_head]. auto.
Qed.

(* jls_track_wr_head with the (possibly updated) table [offs'] *)
Lemma lk_track_wr_head_step : forall id ty b t offs' b' t',
  wm_track_wr_head b id (wm_tk_set_offsets t offs') = (b', t') ->
  wmw_ble b b' /\
  forall s, lk_binv b s -> lk_track (wo_exts s) id ty t -> length offs' = 16%nat ->
    Forall2 (wmw_ent (wo_exts s)) (wm_tk_offsets t) offs' -> wmw_bgood b' ->
    exists s', lk_binv b' s' /\ lk_track (wo_exts s') id ty t' /\
               wmw_fr (wmw_headopt t') (wo_exts s) (wo_exts s') /\
               (wmw_head_off t <> 0 -> wmw_head_off t' = wmw_head_off t).
Proof.
  intros id ty b t offs' b' t' Heq.
  destruct (wmw_track_wr_head_step id ty b t offs' b' t' Heq) as [L S]. split; [exact L|].
  intros s [Hb Hdl] [Ht Hk] Lo HF Hg.
  destruct (S s Hb Ht Lo HF Hg) as (s' & Hb' & Ht' & Hfr & Hst).
  exists s'. split; [|split; [|split; [exact Hfr|exact Hst]]].
  - split; [exact Hb'|].
    pose proof (proj1 Hb) as Hsim. pose proof (proj1 Hb') as Hsim'.
    pose proof Hb as (_ & R1 & R2 & R3).
    pose proof Ht as (T1 & T2 & T3 & T4 & T5 & T6 & T7 & T8).
    unfold wm_track_wr_head in Heq. cbv zeta in Heq.
    cbn [wm_tk_head wm_tk_offsets wm_tk_set_offsets wm_tk_type] in Heq.
    destruct (wm_ck_offset (wm_tk_head t) =? 0) eqn:E0.
    + destruct (wm_raw_wr _ _ _) as [r1 h1] eqn:E1. destruct (wm_update_item_head _ _ _) as [r2 sh] eqn:E2.
      inversion Heq; subst b' t'. clear Heq.
      unfold wmw_bgood in Hg. cbn [wm_b_raw wm_b_set_signal_head wm_b_set_raw] in Hg, Hsim'.
      destruct (wmw_track_tag_ok ty JLS_TRACK_CHUNK_HEAD T2 ltac:(discriminate)) as [G0 G1].
      rewrite T1 in E1.
      destruct (lk_append_exact _ _ _ _ _ _ _ _ _ _ s s' E1 E2 Hsim R2 G0 G1 ltac:(lia) Hg Hsim')
        as (upd & Hp & Ht1 & Hn1 & Ha0 & Hna & Hc & U0 & U1).
      rewrite Hp, Hc. apply lk_dl_append_sig; auto.
      rewrite Ht1. rewrite (lk_key_track_tag ty JLS_TRACK_CHUNK_HEAD T2); [reflexivity|discriminate].
    + inversion Heq; subst b' t'. clear Heq.
      unfold wmw_bgood in Hg. cbn [wm_b_raw wm_b_set_raw] in Hg, Hsim'.
      apply N.eqb_neq in E0. destruct (T8 E0) as (x & Hfx & X1 & X2 & X3 & X4).
      assert (Hhead : fm_is_head_tag (fm_tag (wo_e_hdr x)) = true) by (rewrite X1; apply wmw_head_tag_is_head; exact T2).
      destruct (lk_sim_tbl_exact _ _ _ _ _ _ Hsim Hfx Hhead X3 X4 T4 Lo HF Hg) as (s'' & Hsim'' & Hex).
      assert (Es : s' = s'') by (eapply lk_sim_det; eauto). subst s''.
      rewrite Hex, (lk_pairs_tbl _ _ _ _ Hfx). apply lk_dl_set_raw. exact Hdl.
  - split; [exact Ht'|].
    destruct Hk as (K1 & K2 & K3).
    unfold wm_track_wr_head in Heq. cbv zeta in Heq.
    cbn [wm_tk_head wm_tk_offsets wm_tk_set_offsets wm_tk_type] in Heq.
    destruct (wm_ck_offset (wm_tk_head t) =? 0).
    + destruct (wm_raw_wr _ _ _) as [r1 h1]. destruct (wm_update_item_head _ _ _) as [r2 sh].
      inversion Heq; subst b' t'. unfold lk_tki. cbn. auto.
    + inversion Heq; subst b' t'. unfold lk_tki. cbn. auto.
Qed.

(* jls_track_update *)
Lemma lk_track_update_step : forall id ty b t level pos b' t',
  wm_track_update b id t level pos = (b', t') ->
  wmw_ble b b' /\
  forall s, lk_binv b s -> lk_track (wo_exts s) id ty t -> pos < fm_two64 -> wo_is_start pos (wo_exts s) = true -> wmw_bgood b' ->
    exists s', lk_binv b' s' /\ lk_track (wo_exts s') id ty t' /\
               wmw_fr (wmw_headopt t') (wo_exts s) (wo_exts s') /\
               (wmw_head_off t <> 0 -> wmw_head_off t' = wmw_head_off t).
Proof.
  intros id ty b t level pos b' t' Heq. unfold wm_track_update in Heq.
  destruct (wm_get_off (wm_tk_offsets t) level =? 0) eqn:E0.
  - destruct (lk_track_wr_head_step id ty _ _ _ _ _ Heq) as [L S]. split; [exact L|].
    intros s Hb Ht Hp Hs Hg. apply N.eqb_eq in E0.
    apply (S s Hb Ht); [rewrite wmw_upd_length; apply (proj1 Ht)| |exact Hg].
    apply wmw_ent_upd; auto.
  - inversion Heq; subst. destruct (lk_tstep_refl id ty b' t') as [L S]. split; [exact L|].
    intros s Hb Ht _ _ Hg. exact (S s Hb Ht Hg).
Qed.

(* jls_core_wr_summary *)
Lemma lk_core_wr_summary_step : forall id ty b t level payload plen b' t',
  wm_core_wr_summary b id t level payload plen = (b', t') -> lk_tstep id ty b t b' t'.
Proof.
  intros id ty b t level payload plen b' t' Heq. unfold wm_core_wr_summary in Heq. cbv zeta in Heq.
  destruct (wm_raw_wr _ _ _) as [r1 h1] eqn:E1. destruct (wm_update_item_head _ _ _) as [r2 nh] eqn:E2.
  inversion Heq; subst b' t'. clear Heq.
  destruct (lk_base_append_nd _ _ _ _ _ _ _ _ _ _ E1 E2) as [L S]. split; [exact L|].
  intros s Hb Ht Hg. pose proof (proj1 Ht) as (T1 & T2 & T3 & T4 & T5 & T6 & T7 & T8). pose proof (proj2 Ht) as (K1 & K2 & K3).
  destruct (wmw_track_tag_ok ty JLS_TRACK_CHUNK_SUMMARY T2 ltac:(reflexivity)) as [G0 G1]. rewrite T1 in S.
  destruct (S s Hb (wmw_Forall_get _ _ level T7) (lk_Forall_get _ level K3)
              (lk_key_track_tag ty JLS_TRACK_CHUNK_SUMMARY T2 ltac:(reflexivity)) G0 G1 (wmw_meta_lt _ _) Hg)
    as (s' & Hb' & Hfr & Hrc & Hsl & _).
  pose proof (lk_track_fr_none _ _ _ _ _ Hfr Ht) as Ht'.
  pose proof (proj1 Ht') as (_ & _ & _ & _ & _ & _ & T7' & _).
  exists s'. split; [exact Hb'|]. split.
  - apply lk_track_set_summary_head; [exact Ht'|apply wmw_Forall_upd; assumption|apply wmw_Forall_upd; assumption].
  - split; [apply wmw_fr_weaken; exact Hfr|auto].
Qed.

(* jls_core_wr_index *)
Lemma lk_core_wr_index_step : forall id ty b t level payload plen b' t',
  wm_core_wr_index b id t level payload plen = (b', t') -> lk_tstep id ty b t b' t'.
Proof.
  intros id ty b t level payload plen b' t' Heq. unfold wm_core_wr_index in Heq. cbv zeta in Heq.
  destruct (wm_raw_wr _ _ _) as [r1 h1] eqn:E1. destruct (wm_update_item_head _ _ _) as [r2 nh] eqn:E2.
  destruct (lk_base_append_nd _ _ _ _ _ _ _ _ _ _ E1 E2) as [L S].
  destruct (lk_track_update_step id ty _ _ _ _ _ _ Heq) as [L2 S2].
  split; [eapply wmw_le_trans; eauto|].
  intros s Hb Ht Hg. pose proof (proj1 Ht) as (T1 & T2 & T3 & T4 & T5 & T6 & T7 & T8). pose proof (proj2 Ht) as (K1 & K2 & K3).
  destruct (wmw_track_tag_ok ty JLS_TRACK_CHUNK_INDEX T2 ltac:(discriminate)) as [G0 G1]. rewrite T1 in S.
  assert (Hg1 : wmw_good r2) by (eapply wmw_good_le; [exact L2|exact Hg]).
  destruct (S s Hb (wmw_Forall_get _ _ level T6) (lk_Forall_get _ level K2)
              (lk_key_track_tag ty JLS_TRACK_CHUNK_INDEX T2 ltac:(discriminate)) G0 G1 (wmw_meta_lt _ _) Hg1)
    as (s1 & Hb1 & Hfr & Hrc & Hsl & Hoc & Hc64 & Hst).
  pose proof (lk_track_fr_none _ _ _ _ _ Hfr Ht) as Ht1.
  pose proof (proj1 Ht1) as (_ & _ & _ & _ & _ & T6' & _ & _).
  assert (Ht1' : lk_track (wo_exts s1) id ty (wm_tk_set_index_head t (wm_upd (N.to_nat level) nh (wm_tk_index_head t)))).
  { apply lk_track_set_index_head; [exact Ht1|apply wmw_Forall_upd; assumption|apply wmw_Forall_upd; assumption]. }
  rewrite <- Hoc in S2.
  destruct (S2 s1 Hb1 Ht1' Hc64 Hst Hg) as (s2 & Hb2 & Ht2 & Hfr2 & Hst2).
  exists s2. split; [exact Hb2|]. split; [exact Ht2|]. split.
  - eapply wmw_fr_trans; [apply wmw_fr_weaken; exact Hfr|exact Hfr2].
  - exact Hst2.
Qed.

(* jls_core_wr_data *)
Lemma lk_core_wr_data_step : forall id ty b t payload plen b' t',
  wm_core_wr_data b id t payload plen = (b', t') -> lk_tstep id ty b t b' t'.
Proof.
  intros id ty b t payload plen b' t' Heq. unfold wm_core_wr_data in Heq. cbv zeta in Heq.
  destruct (wm_raw_wr _ _ _) as [r1 h1] eqn:E1. destruct (wm_update_item_head _ _ _) as [r2 dh] eqn:E2.
  destruct (lk_base_append_nd _ _ _ _ _ _ _ _ _ _ E1 E2) as [L S].
  cbn [wm_tk_offsets wm_tk_set_data_head] in Heq.
  destruct (wm_get_off (wm_tk_offsets t) 0 =? 0) eqn:E0.
  - change (wm_tk_set_offsets (wm_tk_set_data_head t dh) (wm_upd 0 (wm_raw_chunk_tell (wm_b_raw b)) (wm_tk_offsets t)))
      with (wm_tk_set_offsets (wm_tk_set_data_head t dh) (wm_upd 0 (wm_raw_chunk_tell (wm_b_raw b)) (wm_tk_offsets (wm_tk_set_data_head t dh)))) in Heq.
    destruct (lk_track_wr_head_step id ty _ _ _ _ _ Heq) as [L2 S2].
    split; [eapply wmw_le_trans; eauto|].
    intros s Hb Ht Hg. pose proof (proj1 Ht) as (T1 & T2 & T3 & T4 & T5 & T6 & T7 & T8). pose proof (proj2 Ht) as (K1 & K2 & K3).
    destruct (wmw_track_tag_ok ty JLS_TRACK_CHUNK_DATA T2 ltac:(discriminate)) as [G0 G1]. rewrite T1 in S.
    assert (Hg1 : wmw_good r2) by (eapply wmw_good_le; [exact L2|exact Hg]).
    destruct (S s Hb T5 K1 (lk_key_track_tag ty JLS_TRACK_CHUNK_DATA T2 ltac:(discriminate)) G0 G1 (wmw_meta_lt _ _) Hg1)
      as (s1 & Hb1 & Hfr & Hrc & Hsl & Hoc & Hc64 & Hst).
    pose proof (lk_track_fr_none _ _ _ _ _ Hfr Ht) as Ht1.
    pose proof (lk_track_set_data_head _ _ _ _ _ Ht1 Hrc Hsl) as Ht1'.
    rewrite <- Hoc in S2. apply N.eqb_eq in E0.
    destruct (S2 s1 Hb1 Ht1') as (s2 & Hb2 & Ht2 & Hfr2 & Hst2);
      [cbn [wm_tk_offsets wm_tk_set_data_head]; rewrite wmw_upd_length; exact T4
      |cbn [wm_tk_offsets wm_tk_set_data_head]; apply wmw_ent_upd; auto|exact Hg|].
    exists s2. split; [exact Hb2|]. split; [exact Ht2|]. split.
    + eapply wmw_fr_trans; [apply wmw_fr_weaken; exact Hfr|exact Hfr2].
    + exact Hst2.
  - inversion Heq; subst b' t'. clear Heq. split; [exact L|].
    intros s Hb Ht Hg. pose proof (proj1 Ht) as (T1 & T2 & T3 & T4 & T5 & T6 & T7 & T8). pose proof (proj2 Ht) as (K1 & K2 & K3).
    destruct (wmw_track_tag_ok ty JLS_TRACK_CHUNK_DATA T2 ltac:(discriminate)) as [G0 G1]. rewrite T1 in S.
    destruct (S s Hb T5 K1 (lk_key_track_tag ty JLS_TRACK_CHUNK_DATA T2 ltac:(discriminate)) G0 G1 (wmw_meta_lt _ _) Hg)
      as (s1 & Hb1 & Hfr & Hrc & Hsl & _).
    pose proof (lk_track_fr_none _ _ _ _ _ Hfr Ht) as Ht1.
    exists s1. split; [exact Hb1|]. split; [apply lk_track_set_data_head; auto|].
    split; [apply wmw_fr_weaken; exact Hfr|auto].
Qed.
