(* END TO END, layers 1 and 2 for the byte-exact writer model: for EVERY program (no class restriction), with
   f = the bytes of the file after jls_wr_open; p; jls_wr_close (wo_file_after of the complete backend log):
     - every chunk of the chunk view rf_chunks stands in f, complete (CRC-valid header, payload bytes, valid payload CRC),
       the chunks lie back to back from offset 32 to the end of f;
     - f starts with the file header of length |f| and ends with the END chunk (the last chunk of the chunk view);
     - the payload of every TRACK_*_HEAD chunk of f is the head_offsets[] table the writer model holds in memory for that
       track when it closes (wm_head_payload of wm_tk_offsets).
   Guards: the model did not leave its domain (wm_st_fault = false; Properties_C10), bounded log (Properties_C14_writer). *)
From Coq Require Import NArith ZArith List Bool Lia Arith.
From Coq Require Import ZifyBool ZifyN ZifyNat.
From JLS Require Import Generated CrcDefs CrcProofs Spec Format FormatProofs WriteOnce WriteOnceProofs WmRaw WmCore WmTs WmFsr WriterModel
  WmProofs WmWriteOnce WmWriteOnce2 WmWriteOnce3 RefineLog E2eLog E2eNoTrunc.
Import ListNotations.
Local Open Scope N_scope.
Ltac Zify.zify_post_hook ::= Z.div_mod_to_equations.

Local Opaque crc32c.


(* jls_wr_open; p; the per-signal part of jls_wr_close (before the END chunk) *)
Definition e2_pre_end (summ1 : N -> list N -> wm_sentry) (summN : bool -> list wm_sentry -> wm_sentry) (p : list wop) : wm_state :=
  fold_left (wm_close_signal summ1 summN) wm_signal_ids (fst (wm_steps summ1 summN wm_api_open p [])).

Lemma e2_pre_end_reach : forall summ1 summN p, wmw_ststep wm_state0 (e2_pre_end summ1 summN p).
Proof.
  intros summ1 summN p. unfold e2_pre_end.
  eapply wmw_ststep_trans; [apply wmw_api_open_step|].
  eapply wmw_ststep_trans; [apply (wmw_steps_step summ1 summN p wm_api_open [])|].
  generalize (fst (wm_steps summ1 summN wm_api_open p [])). generalize wm_signal_ids.
  induction l as [|id l IH]; intro st0; cbn [fold_left]; [apply wmw_ststep_refl|].
  eapply wmw_ststep_trans; [apply wmw_close_signal_step|apply IH].
Qed.

Definition e2_end_hdr (lpl : N) : fm_chunk_header := wm_hdr_set_ppl (wm_mk_hdr 0 JLS_TAG_END 0 0) lpl.

(* jls_core_wr_end + jls_raw_close from any reachable state st1 *)
Definition e2_close_tail (st1 : wm_state) : wm_state :=
  wm_st_set_base st1 (wm_b_set_raw (wm_core_wr_end (wm_st_base st1)) (wm_raw_close (wm_b_raw (wm_core_wr_end (wm_st_base st1))))).

Lemma e2_tail_fault : forall st1, wm_st_fault (e2_close_tail st1) = wm_fault (wm_raw_close (wm_b_raw (wm_core_wr_end (wm_st_base st1)))).
Proof. intro. reflexivity. Qed.
Lemma e2_tail_log : forall st1, wm_st_log (e2_close_tail st1) = wm_rlog (wm_raw_close (wm_b_raw (wm_core_wr_end (wm_st_base st1)))).
Proof. intro. reflexivity. Qed.

Lemma e2_wr_end_eq : forall b1, wm_fault (wm_b_raw b1) = false ->
  wm_b_raw b1 = wm_mk_raw (wm_fend (wm_b_raw b1)) (wm_fend (wm_b_raw b1)) (wm_fend (wm_b_raw b1)) (wm_hdr (wm_b_raw b1)) (wm_last_pl (wm_b_raw b1))
                          (wm_disk (wm_b_raw b1)) (wm_rlog (wm_b_raw b1)) false ->
  wm_b_raw (wm_core_wr_end b1) =
  wm_mk_raw (wm_fend (wm_b_raw b1) + 32) (wm_fend (wm_b_raw b1) + 32) (wm_fend (wm_b_raw b1) + 32)
            (wm_hdr_set_tag (e2_end_hdr (wm_last_pl (wm_b_raw b1))) JLS_TAG_INVALID) 0
            ((wm_fend (wm_b_raw b1), e2_end_hdr (wm_last_pl (wm_b_raw b1))) :: wm_disk (wm_b_raw b1))
            (WmWrite (wm_fend (wm_b_raw b1)) (fm_encode_chunk_header (e2_end_hdr (wm_last_pl (wm_b_raw b1)))) :: wm_rlog (wm_b_raw b1)) false.
Proof.
  intros b1 Hf Emk. unfold wm_core_wr_end. generalize dependent (wm_b_raw b1). intros r1 Hf Emk. rewrite Emk at 1.
  rewrite (wmw_raw_wr_eq (wm_fend r1) (wm_hdr r1) (wm_last_pl r1) (wm_disk r1) (wm_rlog r1) (wm_mk_hdr 0 JLS_TAG_END 0 0) []) by discriminate.
  reflexivity.
Qed.

Lemma e2_close_shape : forall st1, wmw_ststep wm_state0 st1 ->
  wm_st_fault (e2_close_tail st1) = false -> wmw_bounded (wm_st_log (e2_close_tail st1)) ->
  exists s1, wmw_stinv st1 s1 /\
    wm_st_log (e2_close_tail st1) =
      WmWrite 0 (wm_file_header_bytes (wm_fend (wm_b_raw (wm_st_base st1)) + 32))
      :: WmWrite (wm_fend (wm_b_raw (wm_st_base st1))) (fm_encode_chunk_header (e2_end_hdr (wm_last_pl (wm_b_raw (wm_st_base st1)))))
      :: wm_st_log st1 /\
    wm_st_fault st1 = false.
Proof.
  intros st1 Hreach Hf Hb. rewrite e2_tail_fault in Hf. rewrite e2_tail_log in Hb |- *.
  assert (HgF : wmw_good (wm_raw_close (wm_b_raw (wm_core_wr_end (wm_st_base st1))))) by (split; [exact Hf|exact Hb]).
  pose proof (wmw_good_close _ HgF) as HgE.
  assert (Hg1 : wmw_good (wm_b_raw (wm_st_base st1))) by (eapply wmw_good_le; [apply (proj1 (wmw_core_wr_end_bstep (wm_st_base st1)))|exact HgE]).
  destruct (wmw_reach_accepted st1 Hreach (proj1 Hg1) (proj2 Hg1)) as (s1 & Hinv).
  exists s1. split; [exact Hinv|].
  pose proof Hinv as ((Hsim & _) & _).
  pose proof Hsim as (_ & _ & _ & _ & _ & _ & H32 & _).
  pose proof (wmw_sim_mk _ _ Hsim) as Emk. rewrite (proj1 Hg1) in Emk.
  split; [|exact (proj1 Hg1)].
  unfold wm_st_log.
  rewrite (e2_wr_end_eq (wm_st_base st1) (proj1 Hg1) Emk). rewrite wmw_raw_close_eq by lia. reflexivity.
Qed.

Lemma e2_run_full_tail : forall summ1 summN p, fst (wm_run_full summ1 summN p) = e2_close_tail (e2_pre_end summ1 summN p).
Proof.
  intros summ1 summN p. unfold wm_run_full, e2_pre_end, e2_close_tail. destruct (wm_steps summ1 summN wm_api_open p []) as [st rcs]. reflexivity.
Qed.

Lemma e2_pre_end_trunc_first : forall summ1 summN p, e2_trunc_first (wm_st_log (e2_pre_end summ1 summN p)).
Proof.
  intros summ1 summN p. apply e2_sle_trunc_first. unfold e2_pre_end.
  eapply e2_sle_trans; [apply e2_sle_open|]. eapply e2_sle_trans; [apply (e2_sle_steps summ1 summN p wm_api_open [])|].
  generalize (fst (wm_steps summ1 summN wm_api_open p [])). generalize wm_signal_ids.
  induction l as [|id l IH]; intro st0; cbn [fold_left]; [apply e2_sle_refl|].
  eapply e2_sle_trans; [apply e2_sle_close_signal|apply IH].
Qed.

(* ---------------------------------------------------------------- the final file *)
Definition e2_file (summ1 : N -> list N -> wm_sentry) (summN : bool -> list wm_sentry -> wm_sentry) (p : list wop) : list N := wo_file_after (wmw_evs (wm_st_log (fst (wm_run_full summ1 summN p)))).

Lemma e2_fin_J : forall pre, wmw_ststep wm_state0 pre -> e2_trunc_first (wm_st_log (wmw_fin pre)) ->
  wm_st_fault (wmw_fin pre) = false -> wmw_bounded (wm_st_log (wmw_fin pre)) ->
  exists s sF,
    wmw_stinv pre s /\
    wo_run false wo_st0 0 (wmw_evs (wm_st_log (wmw_fin pre))) = inl sF /\
    wo_exts sF = wo_exts s /\ wo_pending sF = WoIdle /\ wo_len sF = rf_len (wo_file_after (wmw_evs (wm_st_log (wmw_fin pre)))) /\
    32 <= wo_len sF /\ wo_len sF < fm_two64 /\
    e2_J sF (rf_scan (wm_st_log (wmw_fin pre))) (wo_file_after (wmw_evs (wm_st_log (wmw_fin pre)))).
Proof.
  intros pre Hreach Htr Hf' Hb'.
  destruct (wmw_fin_accepted pre Hreach Hf' Hb') as (s & sF & Hinv & Hrun & Hstep).
  pose proof Hinv as ((Hsim & _) & _).
  pose proof Hsim as (_ & _ & _ & Hlen & _ & Hpend & H32 & H64 & _).
  rewrite (wmw_step_fh s (wm_fend (wm_b_raw (wm_st_base pre))) Hlen ltac:(lia) H64 Hpend) in Hstep.
  generalize dependent (wm_st_log (wmw_fin pre)). intros logF Htr Hb' Hrun.
  set (a := wm_fend (wm_b_raw (wm_st_base pre))) in *. clearbody a.
  assert (HsF : sF = wo_set s a WoIdle 0 0 0 1 (wo_exts s)) by congruence.
  exists s, sF. split; [exact Hinv|]. split; [exact Hrun|].
  pose proof (e2_log_J logF sF Hrun Htr) as HJ.
  pose proof (wi_len _ _ (j_wo _ _ _ HJ)) as Hl.
  rewrite HsF in Hl |- *. cbn [wo_set wo_exts wo_pending wo_len] in *.
  split; [reflexivity|]. split; [reflexivity|]. split; [exact Hl|]. split; [exact H32|]. split; [exact H64|]. rewrite <- HsF. exact HJ.
Qed.

Theorem e2_final : forall summ1 summN p,
  let stF := fst (wm_run_full summ1 summN p) in
  wm_st_fault stF = false -> wmw_bounded (wm_st_log stF) ->
  exists pre s sF,
    stF = wmw_fin pre /\ wmw_stinv pre s /\
    wo_run false wo_st0 0 (wmw_evs (wm_st_log stF)) = inl sF /\
    wo_exts sF = wo_exts s /\ wo_pending sF = WoIdle /\ wo_len sF = rf_len (e2_file summ1 summN p) /\ 32 <= wo_len sF /\ wo_len sF < fm_two64 /\
    e2_J sF (rf_scan (wm_st_log stF)) (e2_file summ1 summN p).
Proof.
  intros summ1 summN p stF Hf Hb. destruct (wmw_run_pre summ1 summN p) as [Hreach Heq].
  pose proof (e2_run_trunc_first summ1 summN p) as Htr. unfold e2_file. subst stF.
  generalize dependent (wmw_close_pre summ1 summN (fst (wm_steps summ1 summN wm_api_open p []))). intros pre Hreach Heq.
  generalize dependent (fst (wm_run_full summ1 summN p)). intros stF Hf Hb Htr Heq. subst stF.
  destruct (e2_fin_J pre Hreach Htr Hf Hb) as (s & sF & H).
  exists pre, s, sF. split; [reflexivity|exact H].
Qed.

(* ---------------------------------------------------------------- the file header *)
Lemma e2_evs_cons_file : forall e l, wo_file_after (wmw_evs (e :: l)) = wo_apply (wo_file_after (wmw_evs l)) (wmw_to_wo e).
Proof. intros e l. rewrite wmw_evs_cons. unfold wo_file_after. rewrite fold_left_app. reflexivity. Qed.

Lemma e2_fin_file_header : forall pre s, wmw_stinv pre s ->
  let f := wo_file_after (wmw_evs (wm_st_log (wmw_fin pre))) in
  fm_sub 0 32 f = wm_file_header_bytes (rf_len f) /\ rf_len f = wm_fend (wm_b_raw (wm_st_base pre)).
Proof.
  intros pre s Hinv f. subst f.
  pose proof Hinv as ((Hsim & _) & _). pose proof Hsim as (Hrun & _ & _ & Hlen & _ & _ & H32 & _).
  pose proof (wi_len _ _ (wo_run_tracks_chunks _ _ _ Hrun)) as Hl0.
  unfold wmw_fin, wm_st_log. cbn [wm_st_set_base wm_st_base wm_b_set_raw wm_b_raw].
  destruct (wmw_close_log (wm_b_raw (wm_st_base pre))) as [L _]. rewrite L. rewrite e2_evs_cons_file. cbn [wmw_to_wo wo_apply].
  set (f0 := wo_file_after (wmw_evs (wm_rlog (wm_b_raw (wm_st_base pre))))) in *.
  set (a := wm_fend (wm_b_raw (wm_st_base pre))) in *.
  assert (Hfl : rf_len (wm_file_header_bytes a) = 32) by (unfold rf_len, wm_file_header_bytes; rewrite fm_encode_file_header_length; reflexivity).
  assert (Hw : 0 + rf_len (wm_file_header_bytes a) <= rf_len f0) by (rewrite Hfl; unfold rf_len; lia).
  rewrite e2_write_inpl by exact Hw.
  assert (Hl' : rf_len (e2_inpl f0 0 (wm_file_header_bytes a)) = a) by (unfold rf_len; rewrite e2_inpl_length by exact Hw; lia).
  rewrite Hl'. split; [|reflexivity].
  rewrite <- Hfl at 1. apply e2_sub_inpl_at. exact Hw.
Qed.

(* ---------------------------------------------------------------- the END chunk *)
Lemma e2_end_hdr_fields : forall lpl, lpl < 4294967296 ->
  let b := fm_encode_chunk_header (e2_end_hdr lpl) in
  length b = 32%nat /\ fm_tag (fm_ch_fields b) = JLS_TAG_END /\ fm_chunk_meta (fm_ch_fields b) = 0 /\ fm_payload_length (fm_ch_fields b) = 0.
Proof.
  intros lpl Hl b. subst b. split; [apply fm_encode_chunk_header_length|].
  destruct (rf_fields_enc (e2_end_hdr lpl)) as (A & B & C); [reflexivity|reflexivity|reflexivity|].
  cbv zeta in A, B, C. rewrite A, B, C. repeat split.
Qed.

(* the chunk view of the complete log = the chunk view before jls_core_wr_end, then the END chunk *)
Theorem e2_close_tail_chunks : forall st1, wmw_ststep wm_state0 st1 -> e2_trunc_first (wm_st_log st1) ->
  wm_st_fault (e2_close_tail st1) = false -> wmw_bounded (wm_st_log (e2_close_tail st1)) ->
  rf_chunks (wm_st_log (e2_close_tail st1)) =
  rf_chunks (wm_st_log st1) ++ [{| rc_off := wm_fend (wm_b_raw (wm_st_base st1)); rc_tag := JLS_TAG_END; rc_meta := 0; rc_pay := [] |}].
Proof.
  intros st1 Hreach Htr Hf Hb.
  destruct (e2_close_shape st1 Hreach Hf Hb) as (s1 & Hinv & Hlog & Hf1).
  pose proof Hinv as ((Hsim & _) & _). pose proof Hsim as (Hrun & _ & _ & Hlen & _ & Hpend & H32 & _ & Hlpl & _).
  pose proof (e2_log_J _ _ Hrun Htr) as J. fold (wm_st_log st1) in J.
  assert (Hpn : rp_pend (rf_scan (wm_st_log st1)) = None).
  { eapply e2_pend_none; [exact J|]. intros h Hh. rewrite Hpend in Hh. discriminate. }
  pose proof (j_end _ _ _ J) as Hend. rewrite Hlen in Hend.
  set (a := wm_fend (wm_b_raw (wm_st_base st1))) in *.
  destruct (e2_end_hdr_fields (wm_last_pl (wm_b_raw (wm_st_base st1))) Hlpl) as (Hb32 & Ht & Hm & Hp). cbv zeta in Hb32, Ht, Hm, Hp.
  unfold rf_chunks. rewrite Hlog. rewrite 2 rf_scan_cons.
  rewrite (rf_step_hdr _ a _ Hpn Hend ltac:(lia) Hb32). cbv zeta. rewrite Hp, Ht, Hm. cbn [N.eqb].
  rewrite rf_step_skip; [|reflexivity|left; cbn [rp_end]; lia].
  cbn [rp_out rev]. reflexivity.
Qed.

(* ---------------------------------------------------------------- TRACK_*_HEAD tables *)
(* the head table of a track the writer holds, in the file *)
Lemma e2_track_head : forall s q f id ty t, e2_J s q f -> wo_pending s = WoIdle ->
  wmw_track (wo_exts s) id ty t -> wmw_head_off t <> 0 ->
  exists h, e2_chunk_at f (wmw_head_off t) h (wm_head_payload (wm_tk_offsets t)) /\
            fm_tag h = fm_track_tag ty JLS_TRACK_CHUNK_HEAD /\ fm_chunk_meta h = id.
Proof.
  intros s q f id ty t J Hidle (_ & Hty & _ & _ & _ & _ & _ & Hh) H0.
  destruct (Hh H0) as (x & Hf & T1 & T2 & T3 & T4).
  destruct (wo_find_some _ _ _ Hf) as [Hx Hxo].
  assert (Ehd : fm_is_head_tag (fm_tag (wo_e_hdr x)) = true) by (rewrite T1; apply wmw_head_tag_is_head; exact Hty).
  pose proof (e2_J_head s q f x J Hidle Hx Ehd) as C. rewrite Hxo, T4 in C.
  exists (wo_e_hdr x). split; [exact C|]. split; assumption.
Qed.

(* ---------------------------------------------------------------- summary: the file of a program *)
(* what layers 1 and 2 say about a file f and a chunk list cs *)
Definition e2_chunk_ok (f : list N) (c : rf_chunk) : Prop :=
  exists h p, e2_chunk_at f (rc_off c) h p /\ fm_tag h = rc_tag c /\ fm_chunk_meta h = rc_meta c /\
              rf_len p = rf_len (rc_pay c) /\ (fm_is_head_tag (rc_tag c) = false -> p = rc_pay c).

Definition e2_wf_file (f : list N) (cs : list rf_chunk) : Prop :=
  fm_sub 0 32 f = wm_file_header_bytes (rf_len f) /\ 64 <= rf_len f /\ rf_len f < fm_two64 /\
  e2_layout cs 32 (rf_len f) /\ Forall (e2_chunk_ok f) cs /\
  exists cs0, cs = cs0 ++ [{| rc_off := rf_len f - 32; rc_tag := JLS_TAG_END; rc_meta := 0; rc_pay := [] |}].

Definition e2_pre_close (st1 : wm_state) : wm_state := wm_st_set_base st1 (wm_core_wr_end (wm_st_base st1)).
Lemma e2_close_tail_fin : forall st1, e2_close_tail st1 = wmw_fin (e2_pre_close st1).
Proof. intro. reflexivity. Qed.
Lemma e2_pre_close_reach : forall st1, wmw_ststep wm_state0 st1 -> wmw_ststep wm_state0 (e2_pre_close st1).
Proof.
  intros st1 H. eapply wmw_ststep_trans; [exact H|]. apply wmw_ststep_bstep; [reflexivity|]. apply wmw_core_wr_end_bstep.
Qed.

Lemma e2_model_file_gen : forall st1, wmw_ststep wm_state0 st1 ->
  e2_trunc_first (wm_st_log st1) -> e2_trunc_first (wm_st_log (e2_close_tail st1)) ->
  wm_st_fault (e2_close_tail st1) = false -> wmw_bounded (wm_st_log (e2_close_tail st1)) ->
  let f := wo_file_after (wmw_evs (wm_st_log (e2_close_tail st1))) in
  e2_wf_file f (rf_chunks (wm_st_log (e2_close_tail st1))) /\
  (exists cs0, rf_chunks (wm_st_log (e2_close_tail st1)) = rf_chunks (wm_st_log st1) ++ cs0 /\ length cs0 = 1%nat) /\
  forall g ty, In g (wm_st_sigs st1) -> ty < 4 -> wmw_head_off (wmw_tk g ty) <> 0 ->
    exists h, e2_chunk_at f (wmw_head_off (wmw_tk g ty)) h (wm_head_payload (wm_tk_offsets (wmw_tk g ty))) /\
              fm_tag h = fm_track_tag ty JLS_TRACK_CHUNK_HEAD /\ fm_chunk_meta h = wm_sig_id g.
Proof.
  intros st1 Hreach Htr1 HtrF Hf Hb f.
  pose proof (e2_close_tail_chunks st1 Hreach Htr1 Hf Hb) as Hcs.
  destruct (e2_close_shape st1 Hreach Hf Hb) as (s1 & Hinv1 & _ & _).
  pose proof Hinv1 as ((Hsim1 & _) & _). pose proof Hsim1 as (_ & _ & _ & _ & _ & _ & H321 & _).
  assert (Hsg : wm_st_sigs (e2_pre_close st1) = wm_st_sigs st1) by reflexivity.
  pose proof (e2_close_tail_fin st1) as Efin.
  pose proof (e2_pre_close_reach st1 Hreach) as HreachP.
  generalize dependent (e2_pre_close st1). intros pre Hsg Efin HreachP.
  subst f. generalize dependent (e2_close_tail st1). intros stF HtrF Hf Hb Hcs Efin. subst stF.
  destruct (e2_fin_J pre HreachP HtrF Hf Hb) as (s & sF & Hinv & Hrun & Hex & Hidle & Hlen & H32 & H64 & J).
  pose proof (e2_fin_file_header pre s Hinv) as (Hfh & Hfl).
  set (f := wo_file_after (wmw_evs (wm_st_log (wmw_fin pre)))) in *.
  pose proof (e2_J_layout _ _ _ J Hidle ltac:(lia)) as Hlay. fold (rf_chunks (wm_st_log (wmw_fin pre))) in Hlay.
  assert (Hall : Forall (e2_chunk_ok f) (rf_chunks (wm_st_log (wmw_fin pre)))).
  { apply Forall_forall. intros c Hc. unfold rf_chunks in Hc. apply in_rev in Hc.
    destruct (e2_J_chunk _ _ _ c J Hidle Hc) as (x & _ & _ & _ & T1 & T2 & T3).
    destruct (fm_is_head_tag (rc_tag c)) eqn:Eh.
    - destruct T3 as (C & L). exists (wo_e_hdr x), (wo_e_table x).
      split; [exact C|]. split; [exact T1|]. split; [exact T2|]. split; [exact L|]. intro K. rewrite Eh in K. discriminate K.
    - exists (wo_e_hdr x), (rc_pay c). split; [exact T3|]. split; [exact T1|]. split; [exact T2|]. split; reflexivity. }
  assert (Hoff : wm_fend (wm_b_raw (wm_st_base st1)) = rf_len f - 32 /\ 64 <= rf_len f).
  { rewrite Hcs in Hlay. clear - Hlay H321.
    assert (G : forall l a z c, e2_layout (l ++ [c]) a z -> z = rc_off c + fm_chunk_size (rf_len (rc_pay c))).
    { induction l as [|x l IH]; intros a z c H; cbn [app] in H; inversion H; subst.
      - match goal with K : e2_layout [] _ _ |- _ => inversion K; subst end. reflexivity.
      - eapply IH; eassumption. }
    apply G in Hlay. cbn [rc_off rc_pay] in Hlay. change (fm_chunk_size (rf_len [])) with 32 in Hlay. lia. }
  destruct Hoff as (Hoff & H64').
  split.
  { unfold e2_wf_file. split; [exact Hfh|]. split; [exact H64'|]. split; [rewrite <- Hlen; exact H64|]. split; [exact Hlay|]. split; [exact Hall|].
    eexists. rewrite Hcs, Hoff. reflexivity. }
  split; [eexists; split; [exact Hcs|reflexivity]|].
  intros g ty Hg Hty H0.
  destruct Hinv as (_ & Hsigs). rewrite <- Hsg in Hg.
  rewrite Forall_forall in Hsigs. pose proof (Hsigs g Hg ty Hty) as Htk. rewrite <- Hex in Htk.
  exact (e2_track_head _ _ _ _ _ _ J Hidle Htk H0).
Qed.

Theorem e2_model_file : forall summ1 summN p,
  let stF := fst (wm_run_full summ1 summN p) in
  wm_st_fault stF = false -> wmw_bounded (wm_st_log stF) ->
  let f := e2_file summ1 summN p in
  e2_wf_file f (rf_chunks (wm_st_log stF)) /\
  (exists cs0, rf_chunks (wm_st_log stF) = rf_chunks (wm_st_log (e2_pre_end summ1 summN p)) ++ cs0 /\ length cs0 = 1%nat) /\
  forall g ty, In g (wm_st_sigs (e2_pre_end summ1 summN p)) -> ty < 4 -> wmw_head_off (wmw_tk g ty) <> 0 ->
    exists h, e2_chunk_at f (wmw_head_off (wmw_tk g ty)) h (wm_head_payload (wm_tk_offsets (wmw_tk g ty))) /\
              fm_tag h = fm_track_tag ty JLS_TRACK_CHUNK_HEAD /\ fm_chunk_meta h = wm_sig_id g.
Proof.
  intros summ1 summN p stF Hf Hb f. subst f stF. unfold e2_file.
  pose proof (e2_run_trunc_first summ1 summN p) as HtrF.
  rewrite (e2_run_full_tail summ1 summN p) in *.
  pose proof (e2_pre_end_reach summ1 summN p) as Hreach. pose proof (e2_pre_end_trunc_first summ1 summN p) as Htr1.
  generalize dependent (e2_pre_end summ1 summN p). intros st1 Hf Hb HtrF Hreach Htr1.
  exact (e2_model_file_gen st1 Hreach Htr1 HtrF Hf Hb).
Qed.
