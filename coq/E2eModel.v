(* END TO END, layers 1 and 2 for the byte-exact writer model: for EVERY program (no class restriction), with
   f = the bytes of the file after jls_wr_open; p; jls_wr_close (wo_file_after of the complete backend log):
     - every chunk of the chunk view rf_chunks stands in f, complete (CRC-valid header, payload bytes, valid payload CRC),
       the chunks lie back to back from offset 32 to the end of f;
     - f starts with the file header of length |f| and ends with the END chunk (the last chunk of the chunk view);
     - the payload of every TRACK_*_HEAD chunk of f is the head_offsets[] table the writer model holds in memory for that
       track when it closes (wm_head_payload of wm_tk_offsets).
   Guards: the model did not leave its domain (wm_st_fault = false; Properties_C10), bounded log (Properties_C14_writer). *)
From Coq Require Import NArith ZArith List Bool Lia Arith.
From Coq Require Import ZifyBool ZifyN ZifyNat.
From JLS Require Import Generated CrcDefs CrcProofs Spec Format FormatProofs WriteOnce WriteOnceProofs WmRaw WmCore WmTs WmFsr WriterModel
  WmProofs WmWriteOnce WmWriteOnce2 WmWriteOnce3 RefineLog E2eLog E2eNoTrunc.
Import ListNotations.
Local Open Scope N_scope.
Ltac Zify.zify_post_hook ::= Z.div_mod_to_equations.

Local Opaque crc32c.

Section E2M.
Variable summ1 : N -> list N -> wm_sentry.
Variable summN : bool -> list wm_sentry -> wm_sentry.

(* jls_wr_open; p; the per-signal part of jls_wr_close (before the END chunk) *)
Definition e2_pre_end (p : list wop) : wm_state :=
  fold_left (wm_close_signal summ1 summN) wm_signal_ids (fst (wm_steps summ1 summN wm_api_open p [])).

Lemma e2_pre_end_reach : forall p, wmw_ststep wm_state0 (e2_pre_end p).
Proof.
  intro p. unfold e2_pre_end.
  eapply wmw_ststep_trans; [apply wmw_api_open_step|].
  eapply wmw_ststep_trans; [apply (wmw_steps_step summ1 summN p wm_api_open [])|].
  generalize (fst (wm_steps summ1 summN wm_api_open p [])). generalize wm_signal_ids.
  induction l as [|id l IH]; intro st0; cbn [fold_left]; [apply wmw_ststep_refl|].
  eapply wmw_ststep_trans; [apply wmw_close_signal_step|apply IH].
Qed.

Definition e2_end_hdr (lpl : N) : fm_chunk_header := wm_hdr_set_ppl (wm_mk_hdr 0 JLS_TAG_END 0 0) lpl.

(* jls_core_wr_end + jls_raw_close from any reachable state st1 *)
Definition e2_close_tail (st1 : wm_state) : wm_state :=
  wm_st_set_base st1 (wm_b_set_raw (wm_core_wr_end (wm_st_base st1)) (wm_raw_close (wm_b_raw (wm_core_wr_end (wm_st_base st1))))).

Lemma e2_close_shape : forall st1, wmw_ststep wm_state0 st1 ->
  wm_st_fault (e2_close_tail st1) = false -> wmw_bounded (wm_st_log (e2_close_tail st1)) ->
  exists s1, wmw_stinv st1 s1 /\
    wm_st_log (e2_close_tail st1) =
      WmWrite 0 (wm_file_header_bytes (wm_fend (wm_b_raw (wm_st_base st1)) + 32))
      :: WmWrite (wm_fend (wm_b_raw (wm_st_base st1))) (fm_encode_chunk_header (e2_end_hdr (wm_last_pl (wm_b_raw (wm_st_base st1)))))
      :: wm_st_log st1 /\
    wm_st_fault st1 = false.
Proof.
  intros st1 Hreach Hf Hb. unfold e2_close_tail, wm_st_fault, wm_st_log in *.
  cbn [wm_st_set_base wm_st_base wm_b_set_raw wm_b_raw] in *.
  set (b1 := wm_st_base st1) in *. set (r1 := wm_b_raw b1) in *.
  assert (HgF : wmw_good (wm_raw_close (wm_b_raw (wm_core_wr_end b1)))) by (split; assumption).
  pose proof (wmw_good_close _ HgF) as HgE.
  assert (Hg1 : wmw_good r1) by (eapply wmw_good_le; [apply (proj1 (wmw_core_wr_end_bstep b1))|exact HgE]).
  destruct (wmw_reach_accepted st1 Hreach (proj1 Hg1) (proj2 Hg1)) as (s1 & Hinv).
  exists s1. split; [exact Hinv|].
  pose proof Hinv as ((Hsim & _) & _). fold b1 r1 in Hsim.
  pose proof Hsim as (_ & _ & _ & _ & _ & _ & H32 & _).
  pose proof (wmw_sim_mk _ _ Hsim) as Emk. rewrite (proj1 Hg1) in Emk.
  assert (Eend : wm_b_raw (wm_core_wr_end b1) =
                 wm_mk_raw (wm_fend r1 + 32) (wm_fend r1 + 32) (wm_fend r1 + 32) (wm_hdr_set_tag (e2_end_hdr (wm_last_pl r1)) JLS_TAG_INVALID) 0
                           ((wm_fend r1, e2_end_hdr (wm_last_pl r1)) :: wm_disk r1)
                           (WmWrite (wm_fend r1) (fm_encode_chunk_header (e2_end_hdr (wm_last_pl r1))) :: wm_rlog r1) false).
  { unfold wm_core_wr_end. fold r1. rewrite Emk at 1.
    rewrite (wmw_raw_wr_eq (wm_fend r1) (wm_hdr r1) (wm_last_pl r1) (wm_disk r1) (wm_rlog r1) (wm_mk_hdr 0 JLS_TAG_END 0 0) []) by discriminate.
    reflexivity. }
  split; [|exact (proj1 Hg1)].
  rewrite Eend. rewrite wmw_raw_close_eq by lia. reflexivity.
Qed.

Lemma e2_run_full_tail : forall p, fst (wm_run_full summ1 summN p) = e2_close_tail (e2_pre_end p).
Proof.
  intro p. unfold wm_run_full, e2_pre_end, e2_close_tail. destruct (wm_steps summ1 summN wm_api_open p []) as [st rcs]. reflexivity.
Qed.
End E2M.
