(* END TO END: the lifting of the FSR refinement to whole programs (RefineProg.rp_prog_fsr_partial, same program class)
   REDONE WITH THE HEAD OFFSETS: besides the chunk relation, the signal's record in the state before the END chunk holds an FSR
   track whose head_offsets[] are PyramidModel's head table under the ordinal -> offset map, and whose TRACK_FSR_HEAD chunk
   exists.  (Properties_compose notes that refine_prog_fsr_partial drops them.)  Reuses the invariants and step lemmas of
   RefineProg; only the close phase is redone. *)
From Coq Require Import NArith ZArith List Bool Lia.
From Coq Require Import ZifyBool ZifyN ZifyNat.
From JLS Require Import Generated CrcDefs Spec Format FormatProofs WmRaw WmCore WmTs WmFsr WriterModel WmProofs PyramidModel DefsModel
  RefineLog RefineFsr RefinePyr RefinePyr2 RefineDefs RefineProg E2eModel.
Import ListNotations.
Local Open Scope N_scope.

Section E2P.
Variable summ1 : N -> list N -> wm_sentry.
Variable summN : bool -> list wm_sentry -> wm_sentry.
Variable d : sigdef.
Variable pos0 : Z.
Hypothesis Hpos0 : (0 < pos0)%Z.
Let pd := rf_pd d.
Let w := dt_bits (sg_dtype d).
Let sid := sg_id d.
Hypothesis Hsid : sg_id d < 256.
Hypothesis Hty : sg_type d = JLS_SIGNAL_TYPE_FSR.
Hypothesis Hg_idx : forall L, (8 * py_cap pd L + 16 < 4294967296)%Z.
Hypothesis Hg_sum : (32 * py_eps pd + 16 < 4294967296)%Z.
Hypothesis Hspd : 0 < sg_spd d.
Hypothesis Hw : w < 8 \/ w mod 8 = 0.
Hypothesis Hg_data : 16 + (sg_spd d * w + 7) / 8 < 4294967296.
Hypothesis Hfill : 0 < wm_fill_buf_samples (sg_dtype d).

(* jls_fsr_close of the target, with the track's invariant *)
Lemma e2_FInv_close : forall T0 BLKS stf x,
  rp_FInv d pos0 T0 BLKS stf x [] ->
  let x' := wm_fsr_close summ1 summN d x in
  exists cs new,
    Forall2 (rf_chunk_rel d pos0 T0 (map rc_off cs) BLKS) cs (pw_disk stf) /\
    filter (rf_mine d) (rf_out x') = rev cs /\ rp_delta d x x' new /\ rf_bok (wm_fx_base x') /\
    rf_tok (wm_b_raw (wm_fx_base x')) (wm_fx_tk x') /\
    (forall L, (L < 16)%nat ->
       wm_get_off (wm_tk_offsets (wm_fx_tk x')) (N.of_nat L) = rf_psi (map rc_off cs) pos0 (py_head_get stf L)).
Proof.
  intros T0 BLKS stf x [Hpre|Hpost] x'.
  - destruct Hpre as (Hal & Hfr & Hts & Hom & Hfil & Ht0 & Hbl & stm & Hpy & Hcl).
    assert (Hdl0 : rf_dl x 0 [] x) by (split; [apply rf_ext_refl|split; [apply Nat.le_refl|reflexivity]]).
    cbn [rf_t0] in Ht0. subst T0.
    destruct (rf_sim_run summ1 summN d pos0 x 0 Hpos0 Hsid Hg_idx Hg_sum Hspd Hw Hg_data Hfill [] x stm stf Hfr Hal Hts Hom Hdl0 Hpy Hcl)
      as (cs & HR & HF & Ho & (He & _ & Hd)).
    cbn [fold_left] in HR, HF, Ho, He, Hd. cbn [skipn] in Hd. fold x' in HR, HF, Ho, He, Hd.
    exists cs, (rev cs). rewrite Hbl in HF. rewrite Hfil, app_nil_r in Ho.
    split; [exact HF|]. split; [exact Ho|].
    split; [split; [exact He|split; [exact Hd|apply Forall_rev; eapply rp_Forall2_mine; [lia|exact HF]]]|].
    split; [exact (R_bok _ _ _ _ _ _ HR)|]. split; [exact (R_tok _ _ _ _ _ _ HR)|]. intros L HL. apply (R_heads _ _ _ _ _ _ HR). exact HL.
  - destruct Hpost as (cs & blks & st & s & stm & HI & Hbl & Hpy & Hcl).
    destruct (rf_sim_fsr_close summ1 summN d pos0 x (length cs) Hpos0 Hsid Hg_idx Hg_sum Hspd Hw Hg_data Hfill T0 [] cs blks x st s stm stf HI Hpy Hcl)
      as (cs' & HR & HF & Ho & (He & _ & Hd)).
    fold x' in HR, HF, Ho, He, Hd. rewrite Hbl in HF.
    rewrite skipn_app, skipn_all, Nat.sub_diag in Hd. cbn [skipn app] in Hd. rewrite app_nil_r in Ho.
    exists (cs ++ cs'), (rev cs').
    split; [exact HF|]. split; [exact Ho|].
    split; [split; [exact He|split; [exact Hd|eapply rp_app_inv_mine; eapply rp_Forall2_mine; [lia|exact HF]]]|].
    split; [exact (R_bok _ _ _ _ _ _ HR)|]. split; [exact (R_tok _ _ _ _ _ _ HR)|]. intros L HL. apply (R_heads _ _ _ _ _ _ HR). exact HL.
Qed.

(* closing the target: the resulting record keeps the FSR track of jls_fsr_close *)
Lemma e2_close_target_eq : forall st s f x', wm_find_sig st sid = Some s -> wm_sg_fsr s = Some f -> wm_sg_def s = d -> rp_idle_ts s ->
  wm_fsr_close summ1 summN d (rp_fx st s f) = x' ->
  exists s3, wm_close_signal summ1 summN st sid = wm_put_sig st (wm_fx_base x') s3 /\ wm_sig_id s3 = sid /\ rp_idle s3 /\
             wm_sg_tk_fsr s3 = wm_fx_tk x'.
Proof.
  intros st s f x' Hfind Hfsr Hdef (Ia & Iu) Hx'. unfold wm_close_signal. fold sid. rewrite Hfind, Hfsr, Hdef.
  change {| wm_fx_base := wm_st_base st; wm_fx_tk := wm_sg_tk_fsr s; wm_fx_fsr := f |} with (rp_fx st s f). rewrite Hx'. clear Hx'.
  set (s1 := wm_sg_set_fsr s (wm_fx_tk x') None).
  assert (Ean : wm_sg_anno s1 = wm_sg_anno s) by reflexivity. assert (Eut : wm_sg_utc s1 = wm_sg_utc s) by reflexivity.
  assert (Eid1 : wm_sig_id s1 = sid) by exact (proj1 (rp_find_id st sid s Hfind)).
  assert (E2 : exists s2, (match wm_sg_anno s1 with
                           | None => (wm_fx_base x', s1)
                           | Some ts => let x := wm_ts_close sid {| wm_tx_base := wm_fx_base x'; wm_tx_tk := wm_sg_tk_anno s1; wm_tx_ts := ts |} in
                                        (wm_tx_base x, wm_sg_set_anno s1 (wm_tx_tk x) None) end) = (wm_fx_base x', s2) /\
                          wm_sig_id s2 = sid /\ wm_sg_utc s2 = wm_sg_utc s /\ wm_sg_fsr s2 = None /\ wm_sg_tk_fsr s2 = wm_fx_tk x' /\
                          (match wm_sg_anno s2 with None => True | Some ts => wm_ts_levels ts = repeat None 16 end)).
  { rewrite Ean. destruct (wm_sg_anno s) as [ts|] eqn:Ea.
    - rewrite rp_ts_close_idle by exact Ia. cbn [wm_tx_base wm_tx_tk]. eexists. split; [reflexivity|]. split; [exact Eid1|]. repeat split.
    - exists s1. split; [reflexivity|]. split; [exact Eid1|]. split; [reflexivity|]. split; [reflexivity|]. split; [reflexivity|]. rewrite Ean. exact I. }
  cbv zeta in E2. destruct E2 as (s2 & -> & Eid2 & Eut2 & Efs2 & Etk2 & Ia2).
  assert (E3 : exists s3, (match wm_sg_utc s2 with
                           | None => (wm_fx_base x', s2)
                           | Some ts => let x := wm_ts_close sid {| wm_tx_base := wm_fx_base x'; wm_tx_tk := wm_sg_tk_utc s2; wm_tx_ts := ts |} in
                                        (wm_tx_base x, wm_sg_set_utc s2 (wm_tx_tk x) None) end) = (wm_fx_base x', s3) /\
                          wm_sig_id s3 = sid /\ rp_idle s3 /\ wm_sg_tk_fsr s3 = wm_fx_tk x').
  { rewrite Eut2. destruct (wm_sg_utc s) as [ts|] eqn:Eu.
    - rewrite rp_ts_close_idle by exact Iu. cbn [wm_tx_base wm_tx_tk]. eexists. split; [reflexivity|]. split; [exact Eid2|]. split; [|exact Etk2].
      unfold rp_idle. cbn [wm_sg_set_utc wm_sg_fsr wm_sg_anno wm_sg_utc]. rewrite Efs2. split; [exact I|]. split; [exact Ia2|exact I].
    - exists s2. split; [reflexivity|]. split; [exact Eid2|]. split; [|exact Etk2]. unfold rp_idle. rewrite Efs2, Eut2. split; [exact I|]. split; [exact Ia2|exact I]. }
  cbv zeta in E3. destruct E3 as (s3 & -> & Eid3 & Hi3 & Etk3).
  exists s3. split; [reflexivity|]. split; [exact Eid3|]. split; [exact Hi3|exact Etk3].
Qed.

(* closing a signal that never received data: nothing is written, its FSR track is kept *)
Lemma e2_close_signal_idle : forall st id s, wm_find_sig st id = Some s -> rp_idle s ->
  exists s3, wm_close_signal summ1 summN st id = wm_put_sig st (wm_st_base st) s3 /\ wm_sig_id s3 = wm_sig_id s /\ rp_idle s3 /\
             wm_sg_tk_fsr s3 = wm_sg_tk_fsr s.
Proof.
  intros st id s Hf (I1 & I2 & I3). unfold wm_close_signal. rewrite Hf.
  set (r1 := match wm_sg_fsr s with
             | None => (wm_st_base st, s)
             | Some f => let x := wm_fsr_close summ1 summN (wm_sg_def s) {| wm_fx_base := wm_st_base st; wm_fx_tk := wm_sg_tk_fsr s; wm_fx_fsr := f |} in
                         (wm_fx_base x, wm_sg_set_fsr s (wm_fx_tk x) None) end).
  assert (E1 : exists s1, r1 = (wm_st_base st, s1) /\ wm_sig_id s1 = wm_sig_id s /\ wm_sg_anno s1 = wm_sg_anno s /\ wm_sg_utc s1 = wm_sg_utc s /\
                          wm_sg_tk_fsr s1 = wm_sg_tk_fsr s /\
                          (match wm_sg_fsr s1 with None => True | Some f => wm_f_alloc f = false /\ wm_f_levels f = repeat None 16 end)).
  { subst r1. destruct (wm_sg_fsr s) as [f|] eqn:Ef.
    - destruct I1 as (Ia & Il). rewrite rp_fsr_close_idle by assumption. cbn [wm_fx_base wm_fx_tk]. eexists. split; [reflexivity|]. repeat split.
    - exists s. rewrite Ef. repeat split. }
  destruct E1 as (s1 & -> & Eid1 & Ean1 & Eut1 & Etk1 & If1).
  set (r2 := match wm_sg_anno s1 with
             | None => (wm_st_base st, s1)
             | Some ts => let x := wm_ts_close id {| wm_tx_base := wm_st_base st; wm_tx_tk := wm_sg_tk_anno s1; wm_tx_ts := ts |} in
                          (wm_tx_base x, wm_sg_set_anno s1 (wm_tx_tk x) None) end).
  assert (E2 : exists s2, r2 = (wm_st_base st, s2) /\ wm_sig_id s2 = wm_sig_id s /\ wm_sg_utc s2 = wm_sg_utc s /\ wm_sg_fsr s2 = wm_sg_fsr s1 /\
                          wm_sg_tk_fsr s2 = wm_sg_tk_fsr s /\
                          (match wm_sg_anno s2 with None => True | Some ts => wm_ts_levels ts = repeat None 16 end)).
  { subst r2. rewrite Ean1. destruct (wm_sg_anno s) as [ts|] eqn:Ea.
    - rewrite rp_ts_close_idle by exact I2. cbn [wm_tx_base wm_tx_tk]. eexists. split; [reflexivity|]. repeat split; assumption.
    - exists s1. rewrite Ean1. repeat split; assumption. }
  destruct E2 as (s2 & -> & Eid2 & Eut2 & Efs2 & Etk2 & Ia2).
  set (r3 := match wm_sg_utc s2 with
             | None => (wm_st_base st, s2)
             | Some ts => let x := wm_ts_close id {| wm_tx_base := wm_st_base st; wm_tx_tk := wm_sg_tk_utc s2; wm_tx_ts := ts |} in
                          (wm_tx_base x, wm_sg_set_utc s2 (wm_tx_tk x) None) end).
  assert (E3 : exists s3, r3 = (wm_st_base st, s3) /\ wm_sig_id s3 = wm_sig_id s /\ rp_idle s3 /\ wm_sg_tk_fsr s3 = wm_sg_tk_fsr s).
  { subst r3. rewrite Eut2. destruct (wm_sg_utc s) as [ts|] eqn:Eu.
    - rewrite rp_ts_close_idle by exact I3. cbn [wm_tx_base wm_tx_tk]. eexists. split; [reflexivity|]. split; [exact Eid2|]. split; [|exact Etk2].
      unfold rp_idle. cbn [wm_sg_set_utc wm_sg_fsr wm_sg_anno wm_sg_utc]. rewrite Efs2. split; [exact If1|]. split; [exact Ia2|exact I].
    - exists s2. split; [reflexivity|]. split; [exact Eid2|]. split; [|exact Etk2]. unfold rp_idle. rewrite Efs2, Eut2. split; [exact If1|]. split; [exact Ia2|exact I]. }
  destruct E3 as (s3 & -> & Eid3 & Hi3 & Etk3). exists s3. split; [reflexivity|]. split; [exact Eid3|]. split; assumption.
Qed.

(* the close phase: the target closed *)
Definition e2_done (T0 : Z) (BLKS : list (list N)) (stf : py_wr) (st : wm_state) : Prop :=
  rf_bok (wm_st_base st) /\ Forall rp_idle (wm_st_sigs st) /\
  exists cs s3, Forall2 (rf_chunk_rel d pos0 T0 (map rc_off cs) BLKS) cs (pw_disk stf) /\
                filter (rf_mine d) (rp_bout (wm_st_base st)) = rev cs /\
                wm_find_sig st sid = Some s3 /\ wm_ck_offset (wm_tk_head (wm_sg_tk_fsr s3)) <> 0 /\
                (forall L, (L < 16)%nat ->
                   wm_get_off (wm_tk_offsets (wm_sg_tk_fsr s3)) (N.of_nat L) = rf_psi (map rc_off cs) pos0 (py_head_get stf L)).

Lemma e2_close_target : forall T0 BLKS stf st, rp_G1c d pos0 T0 BLKS stf st -> e2_done T0 BLKS stf (wm_close_signal summ1 summN st sid).
Proof.
  intros T0 BLKS stf st (Hoth & s & f & Hfind & Hdef & Hfsr & Hits & HF).
  destruct (e2_close_target_eq st s f _ Hfind Hfsr Hdef Hits eq_refl) as (s3 & Est & Eid3 & Hi3 & Etk3).
  rewrite Est. clear Est.
  pose proof (e2_FInv_close T0 BLKS stf (rp_fx st s f) HF) as P.
  revert P Etk3. generalize (wm_fsr_close summ1 summN d (rp_fx st s f)). intros X P Etk3. cbv zeta in P.
  destruct P as (cs & new & HF2 & Hfil & _ & Hbok & Htok & Hheads).
  split; [exact Hbok|]. split.
  - unfold wm_put_sig. cbn [wm_st_sigs]. apply Forall_forall. intros y Hy. apply in_map_iff in Hy. destruct Hy as (y0 & <- & Hy0).
    rewrite Forall_forall in Hoth. destruct (N.eqb_spec (wm_sig_id y0) (wm_sig_id s3)) as [E|E]; [exact Hi3|].
    destruct (Hoth y0 Hy0) as [E'|Hi]; [rewrite Eid3 in E; contradiction|exact Hi].
  - exists cs, s3. split; [exact HF2|]. split; [exact Hfil|].
    split. { rewrite <- Eid3. apply rp_find_put_same. exists s. rewrite Eid3. exact Hfind. }
    rewrite Etk3. split; [|exact Hheads]. destruct Htok as (_ & _ & _ & _ & _ & Hh & _). exact Hh.
Qed.

Lemma e2_close_done : forall T0 BLKS stf st id, e2_done T0 BLKS stf st -> e2_done T0 BLKS stf (wm_close_signal summ1 summN st id).
Proof.
  intros T0 BLKS stf st id (Hb & Hidle & cs & s3 & HF & Hfil & Hfind & Hh & Hheads).
  destruct (wm_find_sig st id) as [s|] eqn:Ef.
  - destruct (rp_find_id st id s Ef) as (Eid & Hin). rewrite Forall_forall in Hidle.
    destruct (e2_close_signal_idle st id s Ef (Hidle s Hin)) as (s' & -> & Eid' & Hi' & Etk').
    split; [exact Hb|]. split.
    + unfold wm_put_sig. cbn [wm_st_sigs]. apply Forall_forall. intros y Hy. apply in_map_iff in Hy. destruct Hy as (y0 & <- & Hy0).
      destruct (wm_sig_id y0 =? wm_sig_id s'); [exact Hi'|apply Hidle; exact Hy0].
    + destruct (N.eq_dec id sid) as [->|Hne].
      * rewrite Hfind in Ef. injection Ef as <-.
        exists cs, s'. split; [exact HF|]. split; [exact Hfil|].
        split. { rewrite <- Eid at 1. rewrite <- Eid'. apply rp_find_put_same. exists s3. rewrite Eid', Eid. exact Hfind. }
        rewrite Etk'. split; assumption.
      * exists cs, s3. split; [exact HF|]. split; [exact Hfil|].
        split; [rewrite rp_find_put_other by congruence; exact Hfind|]. split; assumption.
  - rewrite (rp_close_none summ1 summN st id Ef). split; [exact Hb|]. split; [exact Hidle|]. exists cs, s3. repeat split; assumption.
Qed.

Lemma e2_close_fold : forall T0 BLKS stf l st,
  (rp_G1c d pos0 T0 BLKS stf st \/ e2_done T0 BLKS stf st) ->
  let st' := fold_left (wm_close_signal summ1 summN) l st in
  (rp_G1c d pos0 T0 BLKS stf st' \/ e2_done T0 BLKS stf st') /\ (In sid l -> e2_done T0 BLKS stf st').
Proof.
  intros T0 BLKS stf l. induction l as [|id l IH]; intros st H st'; [split; [exact H|intros []]|].
  subst st'. cbn [fold_left].
  assert (H1 : rp_G1c d pos0 T0 BLKS stf (wm_close_signal summ1 summN st id) \/ e2_done T0 BLKS stf (wm_close_signal summ1 summN st id)).
  { destruct H as [HG|HD]; [|right; apply e2_close_done; exact HD].
    destruct (N.eq_dec id sid) as [->|Hne]; [right; apply e2_close_target; exact HG|left].
    apply (rp_close_other summ1 summN d pos0); assumption. }
  destruct (IH _ H1) as (A & B). split; [exact A|].
  intros [E|Hin]; [|apply B; exact Hin]. subst id.
  assert (Hd : e2_done T0 BLKS stf (wm_close_signal summ1 summN st sid)).
  { destruct H as [HG|HD]; [apply e2_close_target; exact HG|apply e2_close_done; exact HD]. }
  clear - Hd. revert Hd. generalize (wm_close_signal summ1 summN st sid). induction l as [|i l IHl]; intros s0 Hd; [exact Hd|].
  cbn [fold_left]. apply IHl. apply e2_close_done. exact Hd.
Qed.
End E2P.

(* ------------------------------------------------------------------ the program-level statement *)
Theorem e2_prog_fsr_heads : forall summ1 summN d0 d pos0 p1 p2 stf,
  (0 < pos0)%Z -> sg_id d < 256 -> sg_id d <> 0 -> sg_type d = JLS_SIGNAL_TYPE_FSR -> 0 < sg_spd d ->
  (dt_bits (sg_dtype d) < 8 \/ dt_bits (sg_dtype d) mod 8 = 0) ->
  0 < wm_fill_buf_samples (sg_dtype d) ->
  32 * sg_eps d + 16 < 4294967296 -> 8 * sg_sumdf d + 16 < 4294967296 ->
  16 + (sg_spd d * dt_bits (sg_dtype d) + 7) / 8 < 4294967296 ->
  let sid := sg_id d in
  let p := p1 ++ WSig d0 :: p2 in
  Forall (rp_ok sid) p ->
  Forall (fun o => match o with WSig d' => sg_id d' <> sid | _ => True end) p1 ->
  snd (wm_api_signal_def (fst (wm_steps summ1 summN wm_api_open p1 [])) d0) = 0 -> wm_sig_align d0 = Some d ->
  let ops := rp_proj sid p2 in
  py_srun (rf_pd d) (dt_bits (sg_dtype d) <=? 8) (rf_t0 ops) pos0 (rf_script d rf_bs0 ops) = PyOk stf ->
  let st1 := e2_pre_end summ1 summN p in
  exists cs s3, filter (rf_mine d) (rf_chunks (wm_st_log st1)) = cs /\
    Forall2 (rf_chunk_rel d pos0 (rf_t0 ops) (map rc_off cs) (rf_blocks d rf_bs0 ops)) cs (pw_disk stf) /\
    In s3 (wm_st_sigs st1) /\ wm_sig_id s3 = sid /\ wm_ck_offset (wm_tk_head (wm_sg_tk_fsr s3)) <> 0 /\
    (forall L, (L < 16)%nat ->
       wm_get_off (wm_tk_offsets (wm_sg_tk_fsr s3)) (N.of_nat L) = rf_psi (map rc_off cs) pos0 (py_head_get stf L)).
Proof.
  intros summ1 summN d0 d pos0 p1 p2 stf Hpos0 Hsid Hne Hty Hspd Hw Hfill Hg1 Hg2 Hg3.
  cbv zeta. intros Hok Hns Hrc Hal Hpy.
  apply Forall_app in Hok. destruct Hok as (Hok1 & Hok2). inversion Hok2 as [|? ? Hokd Hok2']; subst.
  pose proof (rp_G0_steps summ1 summN d p1 wm_api_open (rp_G0_open d Hne) Hok1 Hns) as HG0.
  rewrite <- (rp_steps_fold summ1 summN p1 wm_api_open []) in HG0.
  assert (Hg_idx := rf_guard_idx d ltac:(lia) Hg2).
  assert (Hg_sum : (32 * py_eps (rf_pd d) + 16 < 4294967296)%Z) by (unfold rf_pd; cbn [py_eps]; lia).
  unfold py_srun, py_run in Hpy. destruct (py_div_ok (rf_pd d)); [|discriminate]. unfold py_bind in Hpy.
  destruct (py_do_all (rf_pd d) (py_plan (dt_bits (sg_dtype d) <=? 8) (py_sdf (rf_pd d)) 0 (rf_script d rf_bs0 (rp_proj (sg_id d) p2))) (py_init (rf_t0 (rp_proj (sg_id d) p2)) pos0)) as [stm|e] eqn:Edo; [|discriminate].
  pose proof (rp_G0_define d pos0 Hty _ d0 _ stm stf HG0 Hrc Hal Edo Hpy) as HG1.
  pose proof (rp_G1_steps summ1 summN d pos0 Hpos0 Hsid Hty Hg_idx Hg_sum Hspd Hw Hg3 Hfill p2 _ _ _ _ HG1 Hok2') as HG1e.
  pose proof (rp_G1_G1c d pos0 _ _ _ _ HG1e) as HGc.
  destruct (e2_close_fold summ1 summN d pos0 Hpos0 Hsid Hty Hg_idx Hg_sum Hspd Hw Hg3 Hfill _ _ _ wm_signal_ids _ (or_introl HGc)) as (_ & Hd).
  specialize (Hd (rp_in_signal_ids _ Hsid)). destruct Hd as (Hb & _ & cs & s3 & HF & Hfil & Hfind & Hh & Hheads).
  assert (Est : e2_pre_end summ1 summN (p1 ++ WSig d0 :: p2) =
                fold_left (wm_close_signal summ1 summN) wm_signal_ids
                  (fold_left (fun st o => fst (wm_step_rc summ1 summN st o)) p2 (fst (wm_api_signal_def (fst (wm_steps summ1 summN wm_api_open p1 [])) d0)))).
  { unfold e2_pre_end. rewrite (rp_steps_fold summ1 summN (p1 ++ WSig d0 :: p2) wm_api_open []). rewrite fold_left_app. cbn [fold_left].
    rewrite rp_steps_fold. reflexivity. }
  rewrite Est.
  match goal with |- context [fold_left (wm_close_signal summ1 summN) wm_signal_ids ?X] => generalize dependent (fold_left (wm_close_signal summ1 summN) wm_signal_ids X) end.
  intros stc Hb Hfil Hfind.
  exists cs, s3. split.
  { unfold rf_chunks, wm_st_log. rewrite rp_filter_rev. fold (rp_bout (wm_st_base stc)). rewrite Hfil. apply rev_involutive. }
  split; [exact HF|]. destruct (rp_find_id stc (sg_id d) s3 Hfind) as (Eid & Hin).
  split; [exact Hin|]. split; [exact Eid|]. split; [exact Hh|exact Hheads].
Qed.
