(* C06: the threaded writer applies accepted calls exactly once, in order, on any schedule.
   Model: TwrModel.v (small-step interleaving semantics of /repo/src/threaded_writer.c over
   backend_posix.c and the concrete ring buffer MrbModel.v); proofs: TwrProofs.v.
   Every theorem is for ALL schedules (tw_reach: any sequence of thread steps and time ticks), all
   program sets that are well formed (tw_wf: queue capacity 48 .. 2^31; tw_wf_close: jls_twr_close is the last call of
   producer 0 and occurs nowhere else), any number of producers, drop-on-overflow on or off, and both
   protocol variants (fx = false: as in /repo; fx = true: repaired close).
   Partial: the C memory model.  The unlocked reads of flush_processed_id / quit / flags are atomic in
   the model; the real code is tied to the model by replaying every harness run (tools/props/C06.py). *)
From Coq Require Import NArith List Bool.
From JLS Require Import MrbModel TwrModel TwrProofs.
Import ListNotations.
Local Open Scope N_scope.

(* mutual exclusion: for msg_mutex (0), process_mutex (1) and the event mutex (2) at most one thread is
   between its lock and its unlock (the queue is only touched in the step that takes msg_mutex, the
   writer only in the step that takes process_mutex or after the join: by construction of tw_step) *)
Theorem C06_mutex_excl :
  forall (fx : bool) (cap : N) (progs : list (list tw_call)) (s : tw_state) (m : N) (t1 t2 : tw_tid),
  tw_reach fx cap progs s -> tw_in_crit s m t1 = true -> tw_in_crit s m t2 = true -> t1 = t2.
Proof. exact tw_mutex_excl. Qed.
Print Assumptions C06_mutex_excl.

(* fifo_inv: (messages handed to the writer) ++ (messages still in the queue, minus the one already
   dispatched but not yet popped) = (messages accepted, in msg_mutex acquisition order): nothing accepted
   is lost, duplicated, reordered or torn (the consumer reads the bytes from ring memory when it
   processes); no queue access leaves the buffer (no fault) and the ring invariant of C08 holds *)
Theorem C06_fifo_inv :
  forall (fx : bool) (cap : N) (progs : list (list tw_call)) (s : tw_state),
  tw_wf cap progs -> tw_reach fx cap progs s ->
  tw_fault s = None /\ MInv (tw_q s) /\ tw_processed s ++ tw_unprocessed s = tw_acc_msgs s.
Proof. exact tw_fifo_inv. Qed.
Print Assumptions C06_fifo_inv.

(* file_refines_sync: when jls_twr_close has called jls_wr_close (AEnd), the operations that were handed
   to the synchronous writer are exactly the accepted messages in acceptance order (definitions
   interleaved at their process-lock positions) followed by the close, nothing after it; the file is the
   fold of the synchronous writer over that list, for any writer function *)
Theorem C06_file_refines_sync :
  forall (fx : bool) (cap : N) (progs : list (list tw_call)) (s : tw_state),
  tw_wf cap progs -> tw_wf_close progs -> tw_reach fx cap progs s -> In TwAEnd (tw_applied s) ->
  tw_cpc s = TwCDone /\ tw_final s = true /\ mrb_abs (tw_q s) = [] /\ tw_held s = None /\
  tw_msgs_of (tw_applied s) = tw_acc_msgs s /\
  exists l, tw_applied s = l ++ [TwAEnd] /\ ~ In TwAEnd l.
Proof. exact tw_close_post. Qed.
Print Assumptions C06_file_refines_sync.

(* rejected_leaves_no_trace: a send call (user_data / fsr / omit / annotation / utc; index idx of producer i) that
   returned an error has no message in the accepted list - hence, by fifo_inv, none in the queue and none
   handed to the writer; a call that returned 0 has exactly one accepted message, with exactly its bytes.
   0 and JLS_ERROR_BUSY are the only return codes of these calls. *)
Theorem C06_rejected_leaves_no_trace :
  forall (fx : bool) (cap : N) (progs : list (list tw_call)) (s : tw_state) (i idx : nat)
         (k : tw_mkind) (body : list N) (rc : option N),
  tw_wf cap progs -> tw_wf_close progs -> tw_reach fx cap progs s ->
  In (TwEvRet (TwTProd i) idx (TwCSend k body) rc) (tw_trace s) ->
  (rc = Some 0 /\ tw_msgs_with_id i idx (tw_accepted s) = [tw_user_msg k body]) \/
  (rc = Some tw_EBUSY /\ tw_msgs_with_id i idx (tw_accepted s) = []).
Proof. exact tw_rejected_leaves_no_trace. Qed.
Print Assumptions C06_rejected_leaves_no_trace.

Example C06_rejected_hyps :
  exists (s : tw_state) (i idx : nat) (k : tw_mkind) (body : list N),
  tw_wf 128 tw_ex_prog /\ tw_wf_close tw_ex_prog /\ tw_reach false 128 tw_ex_prog s /\
  In (TwEvRet (TwTProd i) idx (TwCSend k body) (Some 0)) (tw_trace s).
Proof. exact tw_ex_ret. Qed.
Print Assumptions C06_rejected_hyps.

(* the hypotheses are satisfiable: a complete run of two producers (flush, user data, close | omit) *)
Example C06_example_run :
  forall fx : bool, exists s : tw_state,
  tw_wf 128 tw_ex_prog /\ tw_wf_close tw_ex_prog /\ tw_reach fx 128 tw_ex_prog s /\
  In TwAEnd (tw_applied s) /\ tw_final s = true.
Proof. exact tw_ex_run. Qed.
Print Assumptions C06_example_run.
