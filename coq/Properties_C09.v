(* C09: gaps read back as fill values, overlapping writes keep the first-written samples.
   The meaning of gaps and overlaps is fixed by Spec.fsr_write; the theorems below state it in the property's own
   words (any data type, any gap or overlap length, any position, any sequence of calls by composition).  That the
   implementation's writer (jls_wr_fsr_data: gap branch with the fill buffer, overlap branch with ffwd) and reader
   realise exactly this stream is Properties_C01_bits.C01_pack_roundtrip, which quantifies over ANY list of calls
   (consecutive, with gaps, with overlaps) and states `blocks = bits of Spec.ss_samples` and `read = Spec.rd_window`;
   the clause "summaries treat gap samples of float signals as absent" is in Properties_C09_summ.v (when present).
   Only `exact` + Print Assumptions here. *)
From Coq Require Import NArith ZArith List Bool.
From JLS Require Import Generated Spec SpecProofs.
Import ListNotations.
Local Open Scope Z_scope.

(* what was accepted before is never changed by any later write (first-written samples are kept) *)
Theorem C09_overlap_keeps_first : forall s f sid samples,
  ss_first s = Some f ->
  firstn (length (ss_samples s)) (ss_samples (fsr_write s sid samples)) = ss_samples s.
Proof. exact sp_fsr_write_prefix. Qed.
Print Assumptions C09_overlap_keeps_first.

(* a write that starts before the next expected id appends only the part beyond what is already there *)
Theorem C09_overlap_appends_rest : forall s f sid samples,
  ss_first s = Some f -> samples <> [] -> sid < f + Z.of_nat (length (ss_samples s)) ->
  ss_samples (fsr_write s sid samples)
  = ss_samples s ++ skipn (Z.to_nat (f + Z.of_nat (length (ss_samples s)) - sid)) samples.
Proof. exact sp_fsr_write_overlap. Qed.
Print Assumptions C09_overlap_appends_rest.

(* a write that starts after the next expected id: skipped ids = fill value, then the new samples *)
Theorem C09_gap_stream : forall s f sid samples,
  ss_first s = Some f -> samples <> [] -> f + Z.of_nat (length (ss_samples s)) <= sid ->
  ss_samples (fsr_write s sid samples)
  = ss_samples s ++ repeat (fill_value (sg_dtype (ss_def s))) (Z.to_nat (sid - (f + Z.of_nat (length (ss_samples s))))) ++ samples.
Proof. exact sp_fsr_write_gap. Qed.
Print Assumptions C09_gap_stream.

Theorem C09_gap_reads_fill : forall s f sid samples k,
  ss_first s = Some f -> samples <> [] -> f + Z.of_nat (length (ss_samples s)) <= sid ->
  (length (ss_samples s) <= k < length (ss_samples s) + Z.to_nat (sid - (f + Z.of_nat (length (ss_samples s)))))%nat ->
  nth_error (ss_samples (fsr_write s sid samples)) k = Some (fill_value (sg_dtype (ss_def s))).
Proof. exact sp_gap_reads_fill. Qed.
Print Assumptions C09_gap_reads_fill.

(* the fill value is NaN (quiet, positive: the C NAN macro) for floats and zero for integers *)
Theorem C09_fill_value : forall dt,
  fill_value dt = (if dt_is_float dt then (if (dt_bits dt =? 32)%N then 0x7FC00000%N else 0x7FF8000000000000%N) else 0%N).
Proof. exact sp_fill_value_is. Qed.
Print Assumptions C09_fill_value.

(* every other sample reads back exactly: the new samples sit at their own ids (gap case and overlap case) *)
Theorem C09_gap_new_samples_exact : forall s f sid samples k,
  ss_first s = Some f -> samples <> [] -> f + Z.of_nat (length (ss_samples s)) <= sid -> (k < length samples)%nat ->
  nth_error (ss_samples (fsr_write s sid samples)) (Z.to_nat (sid - f) + k) = nth_error samples k.
Proof. exact sp_gap_reads_new. Qed.
Print Assumptions C09_gap_new_samples_exact.

Theorem C09_overlap_new_samples_exact : forall s f sid samples k,
  ss_first s = Some f -> samples <> [] -> sid < f + Z.of_nat (length (ss_samples s)) -> f <= sid ->
  (Z.to_nat (f + Z.of_nat (length (ss_samples s)) - sid) <= k < length samples)%nat ->
  nth_error (ss_samples (fsr_write s sid samples)) (Z.to_nat (sid - f) + k) = nth_error samples k.
Proof. exact sp_overlap_reads_new. Qed.
Print Assumptions C09_overlap_new_samples_exact.

(* the signal length is last id + 1 - first id *)
Theorem C09_length : forall s f sid samples,
  ss_first s = Some f -> samples <> [] ->
  Z.of_nat (length (ss_samples (fsr_write s sid samples)))
  = Z.max (Z.of_nat (length (ss_samples s))) (sid + Z.of_nat (length samples) - f).
Proof. exact sp_fsr_write_length. Qed.
Print Assumptions C09_length.

(* non-vacuity: a u8 stream 1,2,3 at ids 10..12, then 9,9 at ids 15..16 (gap of two), then 7,7,7,7 at 14..17 (overlap) *)
Example C09_example :
  let d := {| sg_id := 1; sg_src := 0; sg_type := 0; sg_dtype := JLS_DATATYPE_U8; sg_rate := 1; sg_spd := 32; sg_sdf := 32;
              sg_eps := 10; sg_sumdf := 10; sg_adf := 10; sg_udf := 10; sg_name := SNull; sg_units := SNull |}%N in
  let s1 := fsr_write (new_sig d) 10 [1; 2; 3]%N in
  let s2 := fsr_write s1 15 [9; 9]%N in
  let s3 := fsr_write s2 14 [7; 7; 7; 7]%N in
  ss_first s3 = Some 10 /\ ss_samples s3 = [1; 2; 3; 0; 0; 9; 9; 7]%N.
Proof. vm_compute. split; reflexivity. Qed.
