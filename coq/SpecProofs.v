(* Lemmas about the abstract specification itself (coq/Spec.v): the stream semantics of gaps and overlaps (C09). *)
From Coq Require Import NArith ZArith List Bool Lia.
From JLS Require Import Generated Spec.
Import ListNotations.
Local Open Scope Z_scope.

Definition sp_next (s : sigstate) (f : Z) : Z := f + Z.of_nat (length (ss_samples s)).

Lemma sp_nth_error_skipn : forall (A : Type) (l : list A) n k, nth_error (skipn n l) k = nth_error l (n + k).
Proof. induction l as [|a l IH]; intros [|n] k; cbn; try reflexivity; [destruct k; reflexivity | apply IH]. Qed.

Lemma sp_fsr_write_first_kept : forall s f sid samples,
  ss_first s = Some f -> ss_first (fsr_write s sid samples) = Some f.
Proof.
  intros s f sid samples Hf. unfold fsr_write. destruct samples as [|x xs]; [exact Hf|].
  rewrite Hf. reflexivity.
Qed.

Lemma sp_fsr_write_first_set : forall s sid samples,
  ss_first s = None -> samples <> [] ->
  ss_first (fsr_write s sid samples) = Some sid /\ ss_samples (fsr_write s sid samples) = samples.
Proof.
  intros s sid samples Hf Hne. unfold fsr_write. destruct samples as [|x xs]; [congruence|].
  rewrite Hf. split; reflexivity.
Qed.

(* what is already accepted is never changed: the old stream is a prefix of the new one *)
Lemma sp_fsr_write_prefix : forall s f sid samples,
  ss_first s = Some f ->
  firstn (length (ss_samples s)) (ss_samples (fsr_write s sid samples)) = ss_samples s.
Proof.
  intros s f sid samples Hf. unfold fsr_write. destruct samples as [|x xs].
  - apply firstn_all.
  - rewrite Hf. cbn [ss_samples].
    destruct (sid >=? f + Z.of_nat (length (ss_samples s))); cbn [ss_samples];
      rewrite firstn_app, firstn_all, Nat.sub_diag; cbn [firstn]; apply app_nil_r.
Qed.

(* a write after the next expected id: the skipped ids read back as the fill value, then the new samples *)
Lemma sp_fsr_write_gap : forall s f sid samples,
  ss_first s = Some f -> samples <> [] -> sp_next s f <= sid ->
  ss_samples (fsr_write s sid samples)
  = ss_samples s ++ repeat (fill_value (sg_dtype (ss_def s))) (Z.to_nat (sid - sp_next s f)) ++ samples.
Proof.
  intros s f sid samples Hf Hne Hge. unfold fsr_write, sp_next in *. destruct samples as [|x xs]; [congruence|].
  rewrite Hf. destruct (sid >=? f + Z.of_nat (length (ss_samples s))) eqn:E; [reflexivity|lia].
Qed.

(* a write before the next expected id: only the part beyond what was accepted is appended *)
Lemma sp_fsr_write_overlap : forall s f sid samples,
  ss_first s = Some f -> samples <> [] -> sid < sp_next s f ->
  ss_samples (fsr_write s sid samples) = ss_samples s ++ skipn (Z.to_nat (sp_next s f - sid)) samples.
Proof.
  intros s f sid samples Hf Hne Hlt. unfold fsr_write, sp_next in *. destruct samples as [|x xs]; [congruence|].
  rewrite Hf. destruct (sid >=? f + Z.of_nat (length (ss_samples s))) eqn:E; [lia|reflexivity].
Qed.

(* the signal length is (largest id written + 1) - first id *)
Lemma sp_fsr_write_length : forall s f sid samples,
  ss_first s = Some f -> samples <> [] ->
  Z.of_nat (length (ss_samples (fsr_write s sid samples)))
  = Z.max (Z.of_nat (length (ss_samples s))) (sid + Z.of_nat (length samples) - f).
Proof.
  intros s f sid samples Hf Hne.
  destruct (Z_lt_le_dec sid (sp_next s f)) as [Hlt|Hge].
  - rewrite (sp_fsr_write_overlap s f sid samples Hf Hne Hlt). unfold sp_next in *.
    rewrite app_length, skipn_length. lia.
  - rewrite (sp_fsr_write_gap s f sid samples Hf Hne Hge). unfold sp_next in *.
    rewrite !app_length, repeat_length. lia.
Qed.

(* reading a gap position returns the fill value *)
Lemma sp_gap_reads_fill : forall s f sid samples k,
  ss_first s = Some f -> samples <> [] -> sp_next s f <= sid ->
  (length (ss_samples s) <= k < length (ss_samples s) + Z.to_nat (sid - sp_next s f))%nat ->
  nth_error (ss_samples (fsr_write s sid samples)) k = Some (fill_value (sg_dtype (ss_def s))).
Proof.
  intros s f sid samples k Hf Hne Hge Hk.
  rewrite (sp_fsr_write_gap s f sid samples Hf Hne Hge).
  rewrite nth_error_app2 by lia. rewrite nth_error_app1 by (rewrite repeat_length; lia).
  apply nth_error_repeat. lia.
Qed.

(* the new samples land at their own ids *)
Lemma sp_gap_reads_new : forall s f sid samples k,
  ss_first s = Some f -> samples <> [] -> sp_next s f <= sid ->
  (k < length samples)%nat ->
  nth_error (ss_samples (fsr_write s sid samples)) (Z.to_nat (sid - f) + k) = nth_error samples k.
Proof.
  intros s f sid samples k Hf Hne Hge Hk.
  rewrite (sp_fsr_write_gap s f sid samples Hf Hne Hge). unfold sp_next in *.
  rewrite nth_error_app2 by lia. rewrite nth_error_app2 by (rewrite repeat_length; lia).
  rewrite repeat_length. f_equal. lia.
Qed.

Lemma sp_overlap_reads_new : forall s f sid samples k,
  ss_first s = Some f -> samples <> [] -> sid < sp_next s f -> f <= sid ->
  (Z.to_nat (sp_next s f - sid) <= k < length samples)%nat ->
  nth_error (ss_samples (fsr_write s sid samples)) (Z.to_nat (sid - f) + k) = nth_error samples k.
Proof.
  intros s f sid samples k Hf Hne Hlt Hfs Hk.
  rewrite (sp_fsr_write_overlap s f sid samples Hf Hne Hlt). unfold sp_next in *.
  rewrite nth_error_app2 by lia.
  rewrite sp_nth_error_skipn. f_equal. lia.
Qed.

Lemma sp_fill_value_is : forall dt,
  fill_value dt = (if dt_is_float dt then (if (dt_bits dt =? 32)%N then 0x7FC00000%N else 0x7FF8000000000000%N) else 0%N).
Proof. reflexivity. Qed.
