(* Byte-faithful model of the synchronous writer, layer 3a: /repo/src/wr_ts.c, the index/summary pyramid
   of the timestamp-indexed tracks (ANNOTATION, UTC).

     struct jls_core_ts_s      wm_ts      decimate_factor + index[16]/summary[16] (a level is allocated or not:
                                          index_alloc and summary_alloc are always called together)
     alloc                     wm_ts_alloc
     commit                    wm_ts_commit  (recursion upward: fuel 16, exhausted = fault)
     jls_wr_ts_anno / _utc     wm_ts_add (common body) with wm_anno_summary_entry / wm_utc_summary_entry
     jls_wr_ts_close           wm_ts_close

   Pending entries of a level are kept most-recent-FIRST with explicit counts; summary entries are their
   16 encoded bytes.  Out of domain (fault): decimate_factor <= 1 (the C would overflow the malloc'ed arrays
   - 0 - or fail in alloc(16) and then overflow - 1 -; unreachable since jls_core_signal_def_align clamps the
   annotation/utc decimate factors to >= 10), and commit(15, NORMAL) (alloc(16) fails; needs 10^15 records).
   Definitions only. *)
From Coq Require Import NArith ZArith List Bool.
From JLS Require Import Generated CrcDefs Format WmRaw WmCore.
Import ListNotations.
Local Open Scope N_scope.

Record wm_ts_level := {
  wm_tl_nidx : N; wm_tl_idx : list (Z * N);          (* index->entries: (timestamp, offset), newest first *)
  wm_tl_nsum : N; wm_tl_sum : list (list N) }.       (* summary entries (16 bytes each), newest first *)
Definition wm_ts_level0 : wm_ts_level := {| wm_tl_nidx := 0; wm_tl_idx := []; wm_tl_nsum := 0; wm_tl_sum := [] |}.

Record wm_ts := { wm_ts_dec : N; wm_ts_levels : list (option wm_ts_level) }.
(* jls_wr_ts_open *)
Definition wm_ts_open (decimate_factor : N) : wm_ts :=
  {| wm_ts_dec := decimate_factor; wm_ts_levels := repeat None wm_level_count |}.

Definition wm_ts_get (s : wm_ts) (level : N) : option wm_ts_level := nth (N.to_nat level) (wm_ts_levels s) None.
Definition wm_ts_set (s : wm_ts) (level : N) (v : option wm_ts_level) : wm_ts :=
  {| wm_ts_dec := wm_ts_dec s; wm_ts_levels := wm_upd (N.to_nat level) v (wm_ts_levels s) |}.
(* alloc(level): index_alloc + summary_alloc; nothing when already allocated (callers guarantee 1 <= level < 16) *)
Definition wm_ts_alloc (s : wm_ts) (level : N) : wm_ts :=
  match wm_ts_get s level with Some _ => s | None => wm_ts_set s level (Some wm_ts_level0) end.

Definition wm_tl_push_idx (l : wm_ts_level) (e : Z * N) : wm_ts_level :=
  {| wm_tl_nidx := wm_tl_nidx l + 1; wm_tl_idx := e :: wm_tl_idx l; wm_tl_nsum := wm_tl_nsum l; wm_tl_sum := wm_tl_sum l |}.
Definition wm_tl_push_sum (l : wm_ts_level) (e : list N) : wm_ts_level :=
  {| wm_tl_nidx := wm_tl_nidx l; wm_tl_idx := wm_tl_idx l; wm_tl_nsum := wm_tl_nsum l + 1; wm_tl_sum := e :: wm_tl_sum l |}.

Record wm_tx := { wm_tx_base : wm_base; wm_tx_tk : wm_track; wm_tx_ts : wm_ts }.
Definition wm_tx_fault (x : wm_tx) : wm_tx :=
  {| wm_tx_base := wm_b_fault (wm_tx_base x); wm_tx_tk := wm_tx_tk x; wm_tx_ts := wm_tx_ts x |}.
Definition wm_tx_set_ts (x : wm_tx) (s : wm_ts) : wm_tx :=
  {| wm_tx_base := wm_tx_base x; wm_tx_tk := wm_tx_tk x; wm_tx_ts := s |}.

Definition wm_index_entry_bytes (e : Z * N) : list N := fm_enc_i64 (fst e) ++ fm_enc_u64 (snd e).
Definition wm_ts_entry_bits : N := 8 * SIZEOF_index_entry.      (* 128, also for both summary entry types *)

(* INDEX payload of a ts track: header (timestamp of entry 0) + entries *)
Definition wm_ts_index_payload (ts0 : Z) (n : N) (entries : list (Z * N)) : list N :=
  wm_payload_header ts0 n wm_ts_entry_bits ++ flat_map wm_index_entry_bytes entries.
Definition wm_ts_summary_payload (ts0 : Z) (n : N) (entries : list (list N)) : list N :=
  wm_payload_header ts0 n wm_ts_entry_bits ++ concat entries.

Definition wm_zero16 : list N := repeat 0 16.

Fixpoint wm_ts_commit (fuel : nat) (signal_id : N) (close : bool) (level : N) (x : wm_tx) : wm_tx :=
  match fuel with
  | O => wm_tx_fault x
  | S f =>
    match wm_ts_get (wm_tx_ts x) level with
    | None => x
    | Some lv =>
      if wm_tl_nidx lv =? 0 then x
      else if negb close && (JLS_SUMMARY_LEVEL_COUNT <=? level + 1) then wm_tx_fault x     (* alloc(16): PARAMETER_INVALID *)
      else
        let s1 := if close then wm_tx_ts x else wm_ts_alloc (wm_tx_ts x) (level + 1) in
        let idx := wm_rev (wm_tl_idx lv) in
        let sums := wm_rev (wm_tl_sum lv) in
        let ts0 := fst (hd (0%Z, 0) idx) in
        let offset := wm_raw_chunk_tell (wm_b_raw (wm_tx_base x)) in
        (* write index *)
        let '(b1, t1) := wm_core_wr_index (wm_tx_base x) signal_id (wm_tx_tk x) level
                           (wm_ts_index_payload ts0 (wm_tl_nidx lv) idx)
                           (SIZEOF_payload_header + SIZEOF_index_entry * wm_tl_nidx lv) in
        (* add to the upper level: index entry always (if the level exists), summary entry 0 only in NORMAL mode *)
        let s2 := match wm_ts_get s1 (level + 1) with
                  | None => s1
                  | Some up =>
                    let up1 := wm_tl_push_idx up (ts0, offset) in
                    let up2 := if close then up1 else wm_tl_push_sum up1 (hd wm_zero16 sums) in
                    wm_ts_set s1 (level + 1) (Some up2)
                  end in
        (* write summary *)
        let '(b2, t2) := wm_core_wr_summary b1 signal_id t1 level
                           (wm_ts_summary_payload ts0 (wm_tl_nsum lv) sums)
                           (SIZEOF_payload_header + 16 * wm_tl_nsum lv) in
        let x2 := {| wm_tx_base := b2; wm_tx_tk := t2; wm_tx_ts := s2 |} in
        (* when up is full, commit it *)
        let x3 := match wm_ts_get s2 (level + 1) with
                  | Some up => if wm_ts_dec s2 <=? wm_tl_nidx up then wm_ts_commit f signal_id close (level + 1) x2 else x2
                  | None => x2
                  end in
        (* reset our entry counts *)
        wm_tx_set_ts x3 (wm_ts_set (wm_tx_ts x3) level (Some wm_ts_level0))
    end
  end.

Definition wm_anno_summary_entry (timestamp : Z) (annotation_type group_id y : N) : list N :=
  fm_enc_i64 timestamp ++ fm_enc_u8 annotation_type ++ fm_enc_u8 group_id ++ [0; 0] ++ fm_enc_u32 y.
Definition wm_utc_summary_entry (sample_id utc : Z) : list N := fm_enc_i64 sample_id ++ fm_enc_i64 utc.

(* jls_wr_ts_anno / jls_wr_ts_utc: one index entry and one summary entry at level 1, commit when full *)
Definition wm_ts_add (signal_id : N) (x : wm_tx) (timestamp : Z) (offset : N) (summary_entry : list N) : wm_tx :=
  let s := wm_tx_ts x in
  if wm_ts_dec s <=? 1 then wm_tx_fault x
  else
    let s1 := wm_ts_alloc s 1 in
    match wm_ts_get s1 1 with
    | None => wm_tx_fault x
    | Some lv =>
      let lv1 := wm_tl_push_sum (wm_tl_push_idx lv (timestamp, offset)) summary_entry in
      let x1 := wm_tx_set_ts x (wm_ts_set s1 1 (Some lv1)) in
      if wm_ts_dec s <=? wm_tl_nidx lv1 then wm_ts_commit wm_level_count signal_id false 1 x1 else x1
    end.

(* jls_wr_ts_close: commit(level, CLOSE) for levels 1..15 in order *)
Definition wm_close_levels : list N := [1; 2; 3; 4; 5; 6; 7; 8; 9; 10; 11; 12; 13; 14; 15].
Definition wm_ts_close (signal_id : N) (x : wm_tx) : wm_tx :=
  fold_left (fun x level => wm_ts_commit wm_level_count signal_id true level x) wm_close_levels x.
