(* C17, part 5: the executable re-issue [cp_prog] satisfies the relation [cp_reissue] for every program,
   whatever block size it uses; so the relation is satisfiable and [cp_prog] preserves the observation. *)
From Coq Require Import NArith ZArith List Bool Lia ZifyBool ZifyN ZifyNat.
From JLS Require Import Generated Spec SpecProofs CopyModel CopyProofs CopyProofs2 CopyProofs3 CopyProofs4.
Import ListNotations.
Local Open Scope N_scope.

(* ------------------------------------------------------------------ *)
(* generic                                                              *)

Lemma cp_fm_nil : forall (A B : Type) (f : A -> list B) l, (forall x, In x l -> f x = []) -> flat_map f l = [].
Proof.
  intros A B f l. induction l as [|x r IH]; intros H; [reflexivity|].
  cbn [flat_map]. rewrite (H x (or_introl eq_refl)). cbn [app]. apply IH. intros y Hy. apply H. right. exact Hy.
Qed.

Lemma cp_fm_map_single : forall (A B : Type) (f : B -> list A) (g : A -> B) l,
  (forall x, f (g x) = [x]) -> flat_map f (map g l) = l.
Proof.
  intros A B f g l H. induction l as [|x r IH]; [reflexivity|]. cbn [map flat_map]. rewrite H, IH. reflexivity.
Qed.

Lemma cp_fm_map_nil : forall (A B C : Type) (f : B -> list C) (g : A -> B) l,
  (forall x, f (g x) = []) -> flat_map f (map g l) = [].
Proof.
  intros A B C f g l H. induction l as [|x r IH]; [reflexivity|]. cbn [map flat_map]. rewrite H, IH. reflexivity.
Qed.

Lemma cp_fm_fm : forall (A B C : Type) (f : B -> list C) (g : A -> list B) l,
  flat_map f (flat_map g l) = flat_map (fun x => flat_map f (g x)) l.
Proof.
  intros A B C f g l. induction l as [|x r IH]; [reflexivity|]. cbn [flat_map]. rewrite flat_map_app, IH. reflexivity.
Qed.

Lemma cp_fm_select : forall (A B : Type) (key : A -> N) (h : A -> list B) i l,
  NoDup (map key l) ->
  flat_map (fun s => if key s =? i then h s else []) l
  = match find (fun s => key s =? i) l with Some s => h s | None => [] end.
Proof.
  intros A B key h i l. induction l as [|x r IH]; intros ND; [reflexivity|].
  cbn [map] in ND. inversion ND as [|k r' Hnot ND']; subst.
  cbn [flat_map find]. destruct (key x =? i) eqn:E.
  - apply N.eqb_eq in E. rewrite cp_fm_nil; [apply app_nil_r|].
    intros y Hy. destruct (key y =? i) eqn:E2; [|reflexivity].
    apply N.eqb_eq in E2. exfalso. apply Hnot. rewrite E, <- E2. apply in_map. exact Hy.
  - cbn [app]. apply IH. exact ND'.
Qed.

(* ------------------------------------------------------------------ *)
(* re-chunking a stream                                                 *)

Lemma cp_chunks_contig : forall fuel bs f l, (length l <= fuel)%nat -> cp_contig f (cp_chunks fuel bs f l) l.
Proof.
  induction fuel as [|fu IH]; intros bs f l Hl.
  - destruct l; [constructor|cbn in Hl; lia].
  - destruct l as [|x r]; [constructor|].
    cbn [cp_chunks]. set (l := x :: r) in *. set (k := cp_bsize bs l).
    assert (Hk : (1 <= k)%nat) by (unfold k, cp_bsize; lia).
    assert (C : cp_contig f ((f, firstn k l) :: cp_chunks fu bs (f + Z.of_nat (length (firstn k l)))%Z (skipn k l))
                          (firstn k l ++ skipn k l)).
    { constructor.
      - destruct k as [|k']; [lia|]. unfold l. cbn [firstn]. discriminate.
      - apply IH. rewrite skipn_length. unfold l in *. cbn [length] in *. lia. }
    rewrite firstn_skipn in C. exact C.
Qed.

(* ------------------------------------------------------------------ *)
(* the tracks of the executable re-issue                                *)

Definition cp_blocks (bs : sigdef -> N) (s : sigstate) : list (Z * list N) :=
  match ss_first s with
  | Some f => cp_chunks (length (ss_samples s)) (bs (ss_def s)) f (ss_samples s)
  | None => []
  end.

Lemma cp_sig_ops_eq : forall bs s,
  cp_sig_ops bs s
  = map (fun b => WFsr (sg_id (ss_def s)) (fst b) (snd b)) (cp_blocks bs s)
    ++ map (WAnno (sg_id (ss_def s))) (ss_annos s) ++ map (fun u => WUtc (sg_id (ss_def s)) (fst u) (snd u)) (ss_utcs s).
Proof. intros bs s. unfold cp_sig_ops, cp_blocks. destruct (ss_first s); reflexivity. Qed.

Lemma cp_sig_ops_fsr : forall bs s i,
  cp_fsr i (cp_sig_ops bs s) = if sg_id (ss_def s) =? i then cp_blocks bs s else [].
Proof.
  intros bs s i. rewrite cp_sig_ops_eq, !cp_fsr_app. unfold cp_fsr.
  rewrite (cp_fm_map_nil _ _ _ _ (WAnno (sg_id (ss_def s)))) by reflexivity.
  rewrite (cp_fm_map_nil _ _ _ _ (fun u => WUtc (sg_id (ss_def s)) (fst u) (snd u))) by reflexivity.
  rewrite !app_nil_r. destruct (sg_id (ss_def s) =? i) eqn:E.
  - apply cp_fm_map_single. intros [sid smp]. cbn [fst snd]. rewrite E. reflexivity.
  - apply cp_fm_map_nil. intros b. rewrite E. reflexivity.
Qed.

Lemma cp_sig_ops_annos : forall bs s i,
  cp_annos i (cp_sig_ops bs s) = if sg_id (ss_def s) =? i then ss_annos s else [].
Proof.
  intros bs s i. rewrite cp_sig_ops_eq, !cp_annos_app. unfold cp_annos.
  rewrite (cp_fm_map_nil _ _ _ _ (fun b => WFsr (sg_id (ss_def s)) (fst b) (snd b))) by reflexivity.
  rewrite (cp_fm_map_nil _ _ _ _ (fun u => WUtc (sg_id (ss_def s)) (fst u) (snd u))) by reflexivity.
  rewrite app_nil_r. cbn [app]. destruct (sg_id (ss_def s) =? i) eqn:E.
  - apply cp_fm_map_single. intros a. rewrite E. reflexivity.
  - apply cp_fm_map_nil. intros b. rewrite E. reflexivity.
Qed.

Lemma cp_sig_ops_utcs : forall bs s i,
  cp_utcs i (cp_sig_ops bs s) = if sg_id (ss_def s) =? i then ss_utcs s else [].
Proof.
  intros bs s i. rewrite cp_sig_ops_eq, !cp_utcs_app. unfold cp_utcs.
  rewrite (cp_fm_map_nil _ _ _ _ (fun b => WFsr (sg_id (ss_def s)) (fst b) (snd b))) by reflexivity.
  rewrite (cp_fm_map_nil _ _ _ _ (WAnno (sg_id (ss_def s)))) by reflexivity.
  cbn [app]. destruct (sg_id (ss_def s) =? i) eqn:E.
  - apply cp_fm_map_single. intros [sid utc]. cbn [fst snd]. rewrite E. reflexivity.
  - apply cp_fm_map_nil. intros b. rewrite E. reflexivity.
Qed.

Lemma cp_sig_ops_kind : forall bs s o, In o (cp_sig_ops bs s) ->
  match o with
  | WFsr j _ _ | WAnno j _ | WUtc j _ _ => j = sg_id (ss_def s)
  | _ => False
  end.
Proof.
  intros bs s o H. rewrite cp_sig_ops_eq in H.
  apply in_app_or in H. destruct H as [H|H]; [|apply in_app_or in H; destruct H as [H|H]];
    apply in_map_iff in H; destruct H as (x & <- & _); reflexivity.
Qed.

Section Prog.
Variable bs : sigdef -> N.
Variable p : list wop.
Let a := cp_accepted p.
Let A := map WSrc (cp_srcs a).
Let B := map WSig (map sp_align (cp_sigs a)).
Let C := map WUd (flat_map cp_ud_store (cp_uds a)).
Let L := map (cp_track_state a) (cp_defs a).
Let D := flat_map (cp_sig_ops bs) L.

Lemma cp_prog_shape : cp_prog_with bs p = A ++ B ++ C ++ D.
Proof.
  unfold cp_prog_with, cp_prog_of. rewrite (cp_spec_accepted p). fold a.
  cbn [cp_denote c_sources c_signals c_udata tl]. unfold cp_defs at 1. cbn [map tl].
  rewrite (map_map (cp_track_state a)). reflexivity.
Qed.

Lemma cp_D_kind : forall o, In o D ->
  match o with
  | WFsr j _ _ | WAnno j _ | WUtc j _ _ => In j (map sg_id (cp_defs a))
  | _ => False
  end.
Proof.
  intros o H. unfold D in H. apply in_flat_map in H. destruct H as (s & Hs & Ho).
  apply cp_sig_ops_kind in Ho. unfold L in Hs. apply in_map_iff in Hs. destruct Hs as (d & <- & Hd).
  rewrite cp_track_def in Ho. destruct o; try exact Ho; subst sig; apply in_map; exact Hd.
Qed.

Lemma cp_L_nodup : NoDup (map (fun s => sg_id (ss_def s)) L).
Proof.
  unfold L. rewrite map_map. cbn [cp_track_state ss_def].
  destruct (cp_accepted_inv p) as [ND _]. exact ND.
Qed.

Lemma cp_L_find : forall i,
  find (fun s => sg_id (ss_def s) =? i) L = option_map (cp_track_state a) (cp_find_def a i).
Proof. intros i. unfold L, cp_find_def. apply cp_find_map. reflexivity. Qed.

Lemma cp_prog_srcs : cp_srcs (A ++ B ++ C ++ D) = cp_srcs a.
Proof.
  rewrite !cp_srcs_app. unfold cp_srcs at 1 2 3 4.
  unfold A. rewrite cp_fm_map_single by reflexivity.
  unfold B. rewrite map_map. rewrite cp_fm_map_nil by reflexivity.
  unfold C. rewrite cp_fm_map_nil by reflexivity.
  rewrite (cp_fm_nil _ _ _ D); [rewrite !app_nil_r; reflexivity|].
  intros o Ho. apply cp_D_kind in Ho. destruct o; try reflexivity; contradiction.
Qed.

Lemma cp_prog_sigs : cp_sigs (A ++ B ++ C ++ D) = map sp_align (cp_sigs a).
Proof.
  rewrite !cp_sigs_app. unfold cp_sigs at 1 2 3 4.
  unfold A. rewrite cp_fm_map_nil by reflexivity.
  unfold B. rewrite cp_fm_map_single by reflexivity.
  unfold C. rewrite cp_fm_map_nil by reflexivity.
  rewrite (cp_fm_nil _ _ _ D); [rewrite !app_nil_r; reflexivity|].
  intros o Ho. apply cp_D_kind in Ho. destruct o; try reflexivity; contradiction.
Qed.

Lemma cp_prog_uds : cp_uds (A ++ B ++ C ++ D) = flat_map cp_ud_store (cp_uds a).
Proof.
  rewrite !cp_uds_app. unfold cp_uds at 1 2 3 4.
  unfold A. rewrite cp_fm_map_nil by reflexivity.
  unfold B. rewrite map_map. rewrite cp_fm_map_nil by reflexivity.
  unfold C. rewrite cp_fm_map_single by reflexivity.
  rewrite (cp_fm_nil _ _ _ D); [rewrite !app_nil_r; reflexivity|].
  intros o Ho. apply cp_D_kind in Ho. destruct o; try reflexivity; contradiction.
Qed.

Lemma cp_prog_fsr : forall i,
  cp_fsr i (A ++ B ++ C ++ D)
  = match cp_find_def a i with Some d => cp_blocks bs (cp_track_state a d) | None => [] end.
Proof.
  intros i. rewrite !cp_fsr_app. unfold cp_fsr at 1 2 3.
  unfold A. rewrite cp_fm_map_nil by reflexivity.
  unfold B. rewrite map_map. rewrite cp_fm_map_nil by reflexivity.
  unfold C. rewrite cp_fm_map_nil by reflexivity.
  cbn [app]. unfold D, cp_fsr. rewrite cp_fm_fm.
  rewrite (flat_map_ext _ _ (fun s => cp_sig_ops_fsr bs s i)).
  rewrite (cp_fm_select _ _ (fun s => sg_id (ss_def s)) (cp_blocks bs) i L cp_L_nodup).
  rewrite cp_L_find. destruct (cp_find_def a i); reflexivity.
Qed.

Lemma cp_prog_annos : forall i, cp_annos i (A ++ B ++ C ++ D) = cp_annos i a.
Proof.
  intros i. rewrite !cp_annos_app. unfold cp_annos at 1 2 3.
  unfold A. rewrite cp_fm_map_nil by reflexivity.
  unfold B. rewrite map_map. rewrite cp_fm_map_nil by reflexivity.
  unfold C. rewrite cp_fm_map_nil by reflexivity.
  cbn [app]. unfold D. unfold cp_annos at 1. rewrite cp_fm_fm.
  rewrite (flat_map_ext _ _ (fun s => cp_sig_ops_annos bs s i)).
  rewrite (cp_fm_select _ _ (fun s => sg_id (ss_def s)) ss_annos i L cp_L_nodup).
  rewrite cp_L_find. destruct (cp_find_def a i) as [d|] eqn:F; cbn [option_map].
  - apply cp_find_def_in in F. destruct F as [_ <-]. reflexivity.
  - destruct (cp_accepted_inv p) as [_ Hun]. fold a in Hun.
    destruct (Hun i) as (_ & H & _); [|symmetry; exact H].
    intros Hin. apply cp_find_def_ids in Hin. destruct Hin as (d & Hd). congruence.
Qed.

Lemma cp_prog_utcs : forall i, cp_utcs i (A ++ B ++ C ++ D) = cp_utcs i a.
Proof.
  intros i. rewrite !cp_utcs_app. unfold cp_utcs at 1 2 3.
  unfold A. rewrite cp_fm_map_nil by reflexivity.
  unfold B. rewrite map_map. rewrite cp_fm_map_nil by reflexivity.
  unfold C. rewrite cp_fm_map_nil by reflexivity.
  cbn [app]. unfold D. unfold cp_utcs at 1. rewrite cp_fm_fm.
  rewrite (flat_map_ext _ _ (fun s => cp_sig_ops_utcs bs s i)).
  rewrite (cp_fm_select _ _ (fun s => sg_id (ss_def s)) ss_utcs i L cp_L_nodup).
  rewrite cp_L_find. destruct (cp_find_def a i) as [d|] eqn:F; cbn [option_map].
  - apply cp_find_def_in in F. destruct F as [_ <-]. reflexivity.
  - destruct (cp_accepted_inv p) as [_ Hun]. fold a in Hun.
    destruct (Hun i) as (_ & _ & H); [|symmetry; exact H].
    intros Hin. apply cp_find_def_ids in Hin. destruct Hin as (d & Hd). congruence.
Qed.

(* definitions before use *)
Lemma cp_dbu_from_app : forall x y pre, cp_dbu_from pre (x ++ y) = cp_dbu_from pre x && cp_dbu_from (pre ++ x) y.
Proof.
  induction x as [|o r IH]; intros y pre; cbn [app cp_dbu_from].
  - rewrite app_nil_r. reflexivity.
  - rewrite IH, <- app_assoc, andb_assoc. reflexivity.
Qed.

Lemma cp_dbu_at_mono : forall pre x o, cp_dbu_at pre o = true -> cp_dbu_at (pre ++ x) o = true.
Proof.
  intros pre x o H. destruct o; try exact H; cbn [cp_dbu_at] in *; apply cp_mem_in in H; apply cp_mem_in;
    (destruct H as [H|H]; [left; exact H|right]);
    rewrite ?cp_srcs_app, ?cp_sigs_app, map_app; apply in_or_app; left; exact H.
Qed.

Lemma cp_dbu_from_all : forall y pre, (forall o, In o y -> cp_dbu_at pre o = true) -> cp_dbu_from pre y = true.
Proof.
  induction y as [|o r IH]; intros pre H; [reflexivity|]. cbn [cp_dbu_from].
  rewrite (H o (or_introl eq_refl)). cbn [andb]. apply IH. intros o' Ho'.
  apply cp_dbu_at_mono. apply H. right. exact Ho'.
Qed.

Lemma cp_prog_dbu : cp_dbu (A ++ B ++ C ++ D) = true.
Proof.
  unfold cp_dbu. rewrite !cp_dbu_from_app. cbn [app]. rewrite !andb_true_iff. repeat split.
  - apply cp_dbu_from_all. intros o Ho. unfold A in Ho. apply in_map_iff in Ho. destruct Ho as (d & <- & _). reflexivity.
  - apply cp_dbu_from_all. intros o Ho. unfold B in Ho. apply in_map_iff in Ho. destruct Ho as (d' & <- & Hd').
    apply in_map_iff in Hd'. destruct Hd' as (d & <- & Hd). cbn [cp_dbu_at].
    change (sg_src (sp_align d)) with (sg_src d). apply cp_mem_in.
    assert (E : cp_srcs A = cp_srcs a) by (unfold A, cp_srcs; apply cp_fm_map_single; reflexivity).
    rewrite E. apply cp_sig_src_defined; [apply cp_accepted_wf|exact Hd].
  - apply cp_dbu_from_all. intros o Ho. unfold C in Ho. apply in_map_iff in Ho. destruct Ho as (d & <- & _). reflexivity.
  - apply cp_dbu_from_all. intros o Ho. apply cp_D_kind in Ho.
    assert (E : map sg_id (cp_sigs ((A ++ B) ++ C)) = map sg_id (cp_sigs a)).
    { rewrite !cp_sigs_app. unfold cp_sigs at 1 2 3.
      unfold A. rewrite cp_fm_map_nil by reflexivity.
      unfold B. rewrite cp_fm_map_single by reflexivity.
      unfold C. rewrite cp_fm_map_nil by reflexivity.
      rewrite app_nil_r. cbn [app]. rewrite map_map. reflexivity. }
    rewrite cp_defs_ids in Ho.
    destruct o; try contradiction; cbn [cp_dbu_at]; apply cp_mem_in; rewrite E; exact Ho.
Qed.

Lemma cp_prog_noop : forallb cp_copy_op (A ++ B ++ C ++ D) = true.
Proof.
  apply forallb_forall. intros o Ho.
  apply in_app_or in Ho. destruct Ho as [Ho|Ho]; [unfold A in Ho; apply in_map_iff in Ho; destruct Ho as (x & <- & _); reflexivity|].
  apply in_app_or in Ho. destruct Ho as [Ho|Ho]; [unfold B in Ho; apply in_map_iff in Ho; destruct Ho as (x & <- & _); reflexivity|].
  apply in_app_or in Ho. destruct Ho as [Ho|Ho]; [unfold C in Ho; apply in_map_iff in Ho; destruct Ho as (x & <- & _); reflexivity|].
  apply cp_D_kind in Ho. destruct o; try reflexivity; contradiction.
Qed.

Theorem cp_prog_with_reissue_sec : cp_reissue p (cp_prog_with bs p).
Proof.
  rewrite cp_prog_shape. unfold cp_reissue. fold a.
  split; [apply cp_prog_noop|].
  split; [rewrite cp_prog_srcs; reflexivity|].
  split; [rewrite cp_prog_sigs; reflexivity|].
  split; [apply cp_prog_annos|].
  split; [apply cp_prog_utcs|].
  split; [apply cp_prog_uds|].
  split; [|apply cp_prog_dbu].
  intros i. rewrite cp_prog_fsr. rewrite (cp_spec_accepted p). fold a. rewrite cp_find_sig_denote.
  destruct (cp_find_def a i) as [d|]; cbn [option_map]; [|reflexivity].
  unfold cp_blocks. destruct (ss_first (cp_track_state a d)) as [f|]; [|reflexivity].
  apply cp_chunks_contig. apply Nat.le_refl.
Qed.

End Prog.

Theorem cp_prog_with_reissue : forall bs p, cp_reissue p (cp_prog_with bs p).
Proof. intros bs p. apply cp_prog_with_reissue_sec. Qed.

Theorem cp_prog_reissue : forall p, cp_reissue p (cp_prog p).
Proof. intros p. apply cp_prog_with_reissue. Qed.

Theorem cp_prog_preserves : forall p, cp_obs (spec_of (cp_prog p)) = cp_obs (spec_of p).
Proof. intros p. apply cp_reissue_preserves, cp_prog_reissue. Qed.

Theorem cp_prog_ok : forall p, cp_ok (cp_prog p).
Proof. intros p. apply (cp_reissue_ok p), cp_prog_reissue. Qed.
