(* C03 layer 1 beyond clean crash points: a TORN write.  The file after the first k backend calls and the first j bytes
   of write k+1.  Checker level (any accepted log whose written values are bytes), then the writer model.

     wmw_region                 the five classes of accepted writes as byte regions (file header / append / 32-byte
                                header of a tracked chunk / 128-byte table of a tracked HEAD chunk / its pad + CRC)
     wmw_decode_canonical       a CRC-valid header made of bytes IS the encoding of its fields
     wmw_torn_write             for every accepted write, every j: in the torn image every tracked (= completed) chunk
                                keeps bytes 8..27 of its header (item_prev, tag, rsv0, chunk_meta, payload_length,
                                payload_prev_length); keeps its whole header unless it is the chunk being re-linked;
                                keeps payload, pad and payload CRC unless it is a TRACK_*_HEAD chunk; the file does not
                                shrink.  Hence: a torn append leaves every completed chunk intact, a torn in-place
                                header write only touches item_next / crc32 bytes of ONE header, a torn head-table
                                update only touches the payload / pad / CRC of ONE TRACK_*_HEAD chunk.
     wmw_crash_torn             the same for every program of the writer model
     wmw_torn_link / wmw_crash_torn_link
                                a torn in-place header write differs from the file before it at most in the 8 bytes of
                                item_next and the 4 bytes of crc32 of that one header
     wmw_fh_stable / wmw_crash_file_header(_open) / wmw_crash_torn_file_header
                                the model writes at offset 0 only in jls_wr_open and as the last write of jls_wr_close
                                (wmw_le of WmWriteOnce.v carries this); accepted writes elsewhere start at >= 32; so the
                                first 32 bytes are the open-time file header (length 0) at every crash point in between
   Guard in addition to those of WmWriteOnce3.v: every value written is a byte (< 256) - the model's byte lists are
   lists of N; stated on the log.
   Every top-level name starts with wmw_. *)
From Coq Require Import NArith ZArith List Bool Lia Arith.
From Coq Require Import ZifyBool ZifyN ZifyNat.
From JLS Require Import Generated CrcDefs Spec Format FormatProofs WriteOnce WriteOnceProofs
                        WmRaw WmCore WmTs WmFsr WriterModel WmProofs WmWriteOnce WmWriteOnce2 WmWriteOnce3 WmWriteOnce4.
Import ListNotations.
Local Open Scope N_scope.
Ltac Zify.zify_post_hook ::= Z.div_mod_to_equations.

Local Opaque crc32c.

(* ================================================================ bytes *)
Lemma wmw_enc_dec : forall l, bytes_ok l -> fm_enc (length l) (fm_dec l) = l.
Proof.
  induction l as [|b l IH]; intro H; [reflexivity|].
  inversion H as [|? ? Hb Hl]; subst. cbn [length fm_enc fm_dec].
  assert (E1 : (b + 256 * fm_dec l) mod 256 = b) by lia.
  assert (E2 : (b + 256 * fm_dec l) / 256 = fm_dec l) by lia.
  rewrite E1, E2, (IH Hl). reflexivity.
Qed.
Lemma wmw_enc_dec_n : forall n l, length l = n -> bytes_ok l -> fm_enc n (fm_dec l) = l.
Proof. intros n l <- H. now apply wmw_enc_dec. Qed.

Lemma wmw_bytes_firstn : forall n l, bytes_ok l -> bytes_ok (firstn n l).
Proof.
  intros n l H. unfold bytes_ok in *. rewrite Forall_forall in *. intros x Hx. apply H.
  rewrite <- (firstn_skipn n l). apply in_or_app. now left.
Qed.
Lemma wmw_bytes_skipn : forall n l, bytes_ok l -> bytes_ok (skipn n l).
Proof.
  intros n l H. unfold bytes_ok in *. rewrite Forall_forall in *. intros x Hx. apply H.
  rewrite <- (firstn_skipn n l). apply in_or_app. now right.
Qed.
Lemma wmw_bytes_app : forall a b, bytes_ok a -> bytes_ok b -> bytes_ok (a ++ b).
Proof. intros a b Ha Hb. unfold bytes_ok in *. apply Forall_app. now split. Qed.
Lemma wmw_bytes_zeros : forall n, bytes_ok (repeat 0 n).
Proof. intro n. unfold bytes_ok. apply Forall_forall. intros x Hx. apply repeat_spec in Hx. subst x. reflexivity. Qed.

(* a CRC-valid chunk header made of bytes is the encoding of its fields *)
Lemma wmw_decode_canonical : forall l h, bytes_ok l -> fm_decode_chunk_header l = Some h ->
  firstn 32 l = fm_encode_chunk_header h.
Proof.
  intros l h Hb Hd. destruct (fm_decode_chunk_header_some _ _ Hd) as (Hlen & Hh & Hcrc).
  do 32 (destruct l as [|? l]; [cbn [length] in Hlen; lia|]).
  subst h. unfold fm_encode_chunk_header, fm_chunk_header_body, fm_ch_fields.
  cbn [fm_item_next fm_item_prev fm_tag fm_rsv0 fm_chunk_meta fm_payload_length fm_payload_prev_length].
  unfold fm_u64_at, fm_u32_at, fm_u16_at, fm_u8_at, fm_dec_u64, fm_dec_u32, fm_dec_u16, fm_dec_u8,
         OFFSETOF_chunk_item_next, OFFSETOF_chunk_item_prev, OFFSETOF_chunk_tag, OFFSETOF_chunk_rsv0, OFFSETOF_chunk_meta,
         OFFSETOF_chunk_payload_length, OFFSETOF_chunk_payload_prev_length, OFFSETOF_chunk_crc32 in *.
  change (N.to_nat 0) with 0%nat. change (N.to_nat 8) with 8%nat. change (N.to_nat 16) with 16%nat.
  change (N.to_nat 17) with 17%nat. change (N.to_nat 18) with 18%nat. change (N.to_nat 20) with 20%nat.
  change (N.to_nat 24) with 24%nat. change (N.to_nat 28) with 28%nat in Hcrc.
  cbn [skipn firstn] in Hcrc |- *.
  unfold fm_enc_u64, fm_enc_u32, fm_enc_u16, fm_enc_u8.
  unfold bytes_ok in Hb.
  repeat match goal with H : Forall _ (_ :: _) |- _ => inversion H; clear H; subst end.
  rewrite !wmw_enc_dec_n by (try reflexivity; repeat constructor; assumption).
  cbn [app]. rewrite <- Hcrc. rewrite wmw_enc_dec_n by (try reflexivity; repeat constructor; assumption).
  reflexivity.
Qed.

(* bytes 8..27 of an encoded header depend only on the fields other than item_next *)
Definition wmw_hdr_rest (h : fm_chunk_header) : list N :=
  fm_enc_u64 (fm_item_prev h) ++ fm_enc_u8 (fm_tag h) ++ fm_enc_u8 (fm_rsv0 h)
  ++ fm_enc_u16 (fm_chunk_meta h) ++ fm_enc_u32 (fm_payload_length h) ++ fm_enc_u32 (fm_payload_prev_length h).

Lemma wmw_encode_rest : forall h k, (8 <= k < 28)%nat ->
  nth k (fm_encode_chunk_header h) 0 = nth (k - 8) (wmw_hdr_rest h) 0.
Proof.
  intros h k Hk. unfold fm_encode_chunk_header, fm_chunk_header_body. cbv zeta. fold (wmw_hdr_rest h).
  assert (L1 : length (fm_enc_u64 (fm_item_next h)) = 8%nat) by apply fm_enc_length.
  assert (L2 : length (wmw_hdr_rest h) = 20%nat).
  { unfold wmw_hdr_rest, fm_enc_u64, fm_enc_u32, fm_enc_u16, fm_enc_u8. rewrite !app_length, !fm_enc_length. reflexivity. }
  rewrite app_nth1 by (rewrite app_length; lia). rewrite app_nth2 by lia. rewrite L1. reflexivity.
Qed.

Lemma wmw_rest_same : forall h h', wo_same_fields false h h' -> wmw_hdr_rest h' = wmw_hdr_rest h.
Proof.
  intros h h' (A & B & C & D & E & F). unfold wmw_hdr_rest. rewrite A, B, C, D, E, (F eq_refl). reflexivity.
Qed.

(* the file after a log of byte writes is made of bytes *)
Definition wmw_ev_bytes (e : wo_ev) : Prop := match e with WoWrite _ b => bytes_ok b | _ => True end.

Lemma wmw_apply_bytes : forall f e, bytes_ok f -> wmw_ev_bytes e -> bytes_ok (wo_apply f e).
Proof.
  intros f e Hf He. destruct e as [off b|len|]; cbn [wo_apply wmw_ev_bytes] in *.
  - unfold wo_apply_write. apply wmw_bytes_app; [apply wmw_bytes_firstn; exact Hf|].
    apply wmw_bytes_app; [apply wmw_bytes_zeros|]. apply wmw_bytes_app; [exact He|apply wmw_bytes_skipn; exact Hf].
  - apply wmw_bytes_app; [apply wmw_bytes_firstn; exact Hf|apply wmw_bytes_zeros].
  - exact Hf.
Qed.
Lemma wmw_file_bytes : forall l, Forall wmw_ev_bytes l -> bytes_ok (wo_file_after l).
Proof.
  intros l H. unfold wo_file_after.
  assert (G : forall l f, bytes_ok f -> Forall wmw_ev_bytes l -> bytes_ok (fold_left wo_apply l f)).
  { clear. induction l as [|e l IH]; intros f Hf Hl; [exact Hf|]. inversion Hl; subst. cbn [fold_left].
    apply IH; [apply wmw_apply_bytes; assumption|assumption]. }
  apply G; [constructor|exact H].
Qed.

(* ================================================================ the classes of accepted writes as regions *)
Inductive wmw_region (lenient : bool) (s : wo_st) (off : N) (b : list N) : Prop :=
| WmwR_fh : off = 0 -> wo_len s <> 0 -> length b = 32%nat -> wmw_region lenient s off b
| WmwR_app : off = wo_len s -> wmw_region lenient s off b
| WmwR_link : forall x h', wo_len s <> 0 -> wo_find off (wo_exts s) = Some x -> length b = 32%nat ->
    fm_decode_chunk_header b = Some h' -> wo_hdr_diff lenient (wo_e_hdr x) h' = None -> wmw_region lenient s off b
| WmwR_tbl : forall x, wo_len s <> 0 -> 32 <= off -> wo_find (off - 32) (wo_exts s) = Some x ->
    fm_is_head_tag (fm_tag (wo_e_hdr x)) = true -> fm_payload_length (wo_e_hdr x) = 128 -> length b = 128%nat ->
    wmw_region lenient s off b
| WmwR_tblft : forall o h p, wo_len s <> 0 -> wo_pending s = WoTbl o h p -> off = o + 32 + fm_payload_length h ->
    N.of_nat (length b) = fm_pad_len (fm_payload_length h) + 4 -> wmw_region lenient s off b.

Lemma wmw_step_region : forall lenient s off b s', wo_step lenient s (WoWrite off b) = inl s' -> wmw_region lenient s off b.
Proof.
  intros lenient s off b s' H. cbn [wo_step] in H. unfold wo_step_write in H. cbv zeta in H.
  destruct (off =? 0) eqn:E0.
  - apply N.eqb_eq in E0. destruct (fm_decode_file_header b); [|discriminate].
    destruct (N.of_nat (length b) =? SIZEOF_file_header) eqn:El; cbn [negb] in H; [|discriminate].
    apply N.eqb_eq in El. unfold SIZEOF_file_header in El.
    destruct (wo_is_idle (wo_pending s)); cbn [negb] in H; [|discriminate].
    destruct (wo_len s =? 0) eqn:E1.
    + apply N.eqb_eq in E1. apply WmwR_app. congruence.
    + apply N.eqb_neq in E1. apply WmwR_fh; [exact E0|exact E1|lia].
  - destruct (wo_len s =? 0) eqn:E1; [discriminate|]. apply N.eqb_neq in E1.
    assert (K : forall pend, wo_pending s = pend -> (forall o h p, pend <> WoTbl o h p) ->
              (if wo_len s <? off then inr WoR_hole else
               if off =? wo_len s then
                 match pend with
                 | WoIdle =>
                   match fm_decode_chunk_header b with
                   | None => inr WoR_append_header_bad
                   | Some h =>
                     if negb (N.of_nat (length b) =? SIZEOF_chunk_header) then inr WoR_append_header_bad else
                     if fm_payload_length h =? 0 then inl (wo_complete s h [] (wo_len s + N.of_nat (length b)))
                     else inl (wo_set s (wo_len s + N.of_nat (length b)) (WoHdr h) 0 0 0 0 (wo_exts s))
                   end
                 | WoHdr h =>
                   if N.of_nat (length b) =? fm_payload_length h then inl (wo_set s (wo_len s + N.of_nat (length b)) (WoPay h b) 0 0 0 0 (wo_exts s))
                   else inr WoR_append_payload_length
                 | WoPay h p =>
                   if wo_footer_ok h p b then inl (wo_complete s h p (wo_len s + N.of_nat (length b))) else inr WoR_append_footer_bad
                 | WoTbl _ _ _ => inr WoR_tbl_footer
                 end
               else
                 if negb (wo_is_idle pend) then inr WoR_rewrite_while_appending else
                 match wo_find off (wo_exts s) with
                 | Some x =>
                   match fm_decode_chunk_header b with
                   | None => inr WoR_hdr_rewrite_bad
                   | Some h' =>
                     if negb (N.of_nat (length b) =? SIZEOF_chunk_header) then inr WoR_hdr_rewrite_bad else
                     match wo_hdr_diff lenient (wo_e_hdr x) h' with
                     | Some r => inr r
                     | None =>
                       inl (wo_set s (wo_len s) WoIdle 0 1 0 0
                              (wo_update {| wo_e_off := off; wo_e_hdr := h'; wo_e_table := wo_e_table x |} (wo_exts s)))
                     end
                   end
                 | None =>
                   if off <? SIZEOF_chunk_header then inr WoR_rewrite_elsewhere else
                   match wo_find (off - SIZEOF_chunk_header) (wo_exts s) with
                   | None => inr WoR_rewrite_elsewhere
                   | Some x =>
                     let h := wo_e_hdr x in
                     if negb (fm_is_head_tag (fm_tag h)) then inr WoR_tbl_not_head else
                     if negb ((fm_payload_length h =? SIZEOF_track_head) && (N.of_nat (length b) =? SIZEOF_track_head)) then inr WoR_tbl_length else
                     match wo_tbl_check (wo_exts s) (N.to_nat JLS_SUMMARY_LEVEL_COUNT) 0 (wo_e_table x) b with
                     | Some r => inr r
                     | None =>
                       inl (wo_set s (wo_len s) (WoTbl (wo_e_off x) h b) 0 0 0 0
                              (wo_update {| wo_e_off := wo_e_off x; wo_e_hdr := h; wo_e_table := b |} (wo_exts s)))
                     end
                   end
                 end) = inl s' -> wmw_region lenient s off b).
    { intros pend Hp Hnt K. destruct (wo_len s <? off); [discriminate|].
      destruct (off =? wo_len s) eqn:E2; [apply N.eqb_eq in E2; apply WmwR_app; exact E2|].
      destruct (wo_is_idle pend); cbn [negb] in K; [|discriminate].
      destruct (wo_find off (wo_exts s)) as [x|] eqn:Ef.
      - destruct (fm_decode_chunk_header b) as [h'|] eqn:Ed; [|discriminate].
        destruct (N.of_nat (length b) =? SIZEOF_chunk_header) eqn:El; cbn [negb] in K; [|discriminate].
        apply N.eqb_eq in El. unfold SIZEOF_chunk_header in El.
        destruct (wo_hdr_diff lenient (wo_e_hdr x) h') eqn:Eh; [discriminate|].
        eapply WmwR_link; eauto. lia.
      - destruct (off <? SIZEOF_chunk_header) eqn:E3; [discriminate|]. apply N.ltb_ge in E3. unfold SIZEOF_chunk_header in *.
        destruct (wo_find (off - 32) (wo_exts s)) as [x|] eqn:Ef2; [|discriminate]. cbv zeta in K.
        destruct (fm_is_head_tag (fm_tag (wo_e_hdr x))) eqn:Eh; cbn [negb] in K; [|discriminate].
        destruct ((fm_payload_length (wo_e_hdr x) =? SIZEOF_track_head) && (N.of_nat (length b) =? SIZEOF_track_head)) eqn:Ea;
          cbn [negb] in K; [|discriminate].
        apply andb_true_iff in Ea. destruct Ea as [Ea1 Ea2]. apply N.eqb_eq in Ea1, Ea2. unfold SIZEOF_track_head in *.
        eapply WmwR_tbl; eauto. lia. }
    destruct (wo_pending s) as [|h0|h0 p0|o0 h0 p0] eqn:Ep.
    + apply (K WoIdle eq_refl); [discriminate|exact H].
    + apply (K (WoHdr h0) eq_refl); [discriminate|exact H].
    + apply (K (WoPay h0 p0) eq_refl); [discriminate|exact H].
    + destruct ((off =? o0 + SIZEOF_chunk_header + fm_payload_length h0) && wo_footer_ok h0 p0 b) eqn:Ec; [|discriminate].
      apply andb_true_iff in Ec. destruct Ec as [Ec1 Ec2]. apply N.eqb_eq in Ec1. unfold SIZEOF_chunk_header in Ec1.
      eapply WmwR_tblft; [exact E1|exact Ep|exact Ec1|eapply wo_footer_len; exact Ec2].
Qed.

(* ================================================================ a partial write *)
Lemma wmw_partial_append : forall f off c, N.to_nat off = length f ->
  (length f <= length (wo_apply_write f off c))%nat /\
  forall i, (i < length f)%nat -> nth i (wo_apply_write f off c) 0 = nth i f 0.
Proof.
  intros f off c H. rewrite wo_write_append by exact H. split; [rewrite app_length; lia|].
  intros i Hi. apply wo_append_nth. exact Hi.
Qed.

Lemma wmw_partial_inplace : forall f off b j, (N.to_nat off + length b <= length f)%nat ->
  let f' := wo_apply_write f off (firstn j b) in
  length f' = length f /\
  (forall i, (i < N.to_nat off \/ N.to_nat off + length b <= i)%nat -> nth i f' 0 = nth i f 0) /\
  (forall i, (N.to_nat off <= i < N.to_nat off + length b)%nat -> nth i f' 0 = nth i f 0 \/ nth i f' 0 = nth (i - N.to_nat off) b 0).
Proof.
  intros f off b j H f'. subst f'.
  assert (Hc : (length (firstn j b) <= length b)%nat) by (rewrite firstn_length; lia).
  rewrite wo_write_inplace by lia. split; [apply wo_inplace_length; lia|]. split.
  - intros i Hi. apply wo_inplace_nth; lia.
  - intros i Hi. destruct (Nat.lt_ge_cases i (N.to_nat off + length (firstn j b))) as [Hlt|Hge].
    + right. assert (Hl : length (firstn (N.to_nat off) f) = N.to_nat off) by (rewrite firstn_length; lia).
      rewrite app_nth2 by lia. rewrite Hl. rewrite app_nth1 by lia.
      rewrite firstn_length in Hlt. apply wo_nth_firstn. lia.
    + left. apply wo_inplace_nth; lia.
Qed.

(* ================================================================ the torn-write theorem, checker level *)
Theorem wmw_torn_write : forall s f off b s' j,
  wo_inv s f -> bytes_ok f -> bytes_ok b -> wo_step false s (WoWrite off b) = inl s' ->
  let f' := wo_apply_write f off (firstn j b) in
  (length f <= length f')%nat /\
  forall o h, In (o, h) (wo_pairs (wo_exts s)) ->
    (forall i, o + 8 <= i -> i < o + 28 -> nth (N.to_nat i) f' 0 = nth (N.to_nat i) f 0) /\
    (off <> o -> forall i, o <= i -> i < o + 32 -> nth (N.to_nat i) f' 0 = nth (N.to_nat i) f 0) /\
    (fm_is_head_tag (fm_tag h) = false ->
       forall i, o + 32 <= i -> i < o + fm_chunk_size (fm_payload_length h) -> nth (N.to_nat i) f' 0 = nth (N.to_nat i) f 0).
Proof.
  intros s f off b s' j I Hbf Hbb Hstep f'.
  pose proof (wmw_step_region _ _ _ _ _ Hstep) as R.
  pose proof (wi_len _ _ I) as Hlen.
  (* facts about tracked chunks *)
  assert (Htr : forall o h, In (o, h) (wo_pairs (wo_exts s)) ->
            wo_len s <> 0 /\ 32 <= o /\ o + wo_size h <= N.of_nat (length f) /\ 32 <= wo_size h /\
            fm_decode_chunk_header (skipn (N.to_nat o) f) = Some h).
  { intros o h Hin.
    assert (Hne : wo_len s <> 0).
    { intro E. destruct (wi_empty _ _ I E) as [Hx _]. rewrite Hx in Hin. destruct Hin. }
    destruct (wo_chunks_bounds _ _ _ (wi_chain _ _ I Hne)) as [_ Hb].
    destruct (Hb _ _ Hin) as (A & B & C & D). pose proof (wo_size_ge h). repeat split; try assumption; lia. }
  assert (Hdis : forall o1 h1 o2 h2, In (o1, h1) (wo_pairs (wo_exts s)) -> In (o2, h2) (wo_pairs (wo_exts s)) ->
            (o1 = o2 /\ h1 = h2) \/ o1 + wo_size h1 <= o2 \/ o2 + wo_size h2 <= o1).
  { intros o1 h1 o2 h2 H1 H2. destruct (Htr _ _ H1) as (Hne & _).
    exact (wo_chunks_disjoint _ _ _ (wi_chain _ _ I Hne) _ _ _ _ H1 H2). }
  assert (Hfind : forall a x, wo_find a (wo_exts s) = Some x -> In (a, wo_e_hdr x) (wo_pairs (wo_exts s))).
  { intros a x Hf. destruct (wo_find_some _ _ _ Hf) as [Hi Ho]. rewrite <- Ho. now apply wo_pairs_in. }
  (* an in-place write inside [lo, hi) of the file, disjoint from the ranges asked about *)
  assert (Hin_place : forall lo hi, lo <= off -> off + N.of_nat (length b) <= hi -> hi <= N.of_nat (length f) ->
            length f' = length f /\
            forall i, (i < lo \/ hi <= i) -> nth (N.to_nat i) f' 0 = nth (N.to_nat i) f 0).
  { intros lo hi H1 H2 H3. destruct (wmw_partial_inplace f off b j ltac:(lia)) as (A & B & _). fold f' in A, B.
    split; [exact A|]. intros i Hi. apply B. lia. }
  destruct R as [E0 Hne Hl|Ea|x h' Hne Hf Hl Hd Hdiff|x Hne H32 Hf Hhead Hpl Hl|o0 h0 p0 Hne Hp Eo Hl].
  - (* file header: bytes 0..31 *)
    subst off. destruct (N.eq_dec (N.of_nat (length f)) 0) as [Ez|Enz]; [lia|].
    assert (H32 : 32 <= N.of_nat (length f)).
    { pose proof (wi_chain _ _ I Hne) as Hc. destruct (wo_chunks_bounds _ _ _ Hc) as [A _].
      pose proof (wi_pend _ _ I Hne) as Hp. unfold wo_pend_ok in Hp. destruct (wo_pending s); lia. }
    destruct (Hin_place 0 32 ltac:(lia) ltac:(lia) H32) as [A B].
    split; [lia|]. intros o h Hin. destruct (Htr _ _ Hin) as (_ & T1 & T2 & T3 & _). unfold wo_size in *.
    split; [|split]; intros; apply B; lia.
  - (* append *)
    subst off. destruct (wmw_partial_append f (wo_len s) (firstn j b) ltac:(lia)) as [A B]. fold f' in A, B.
    split; [exact A|]. intros o h Hin. destruct (Htr _ _ Hin) as (_ & T1 & T2 & T3 & _). unfold wo_size in *.
    split; [|split]; intros; apply B; lia.
  - (* header of the tracked chunk at off *)
    pose proof (Hfind _ _ Hf) as Hinx. destruct (Htr _ _ Hinx) as (_ & X1 & X2 & X3 & Xd).
    destruct (Hin_place off (off + 32) ltac:(lia) ltac:(lia) ltac:(lia)) as [A B].
    split; [lia|]. intros o h Hin. destruct (Htr _ _ Hin) as (_ & T1 & T2 & T3 & Td). unfold wo_size in *.
    destruct (Hdis _ _ _ _ Hinx Hin) as [[Eo Eh]|Hd2].
    + subst o h. split; [|split].
      * intros i Hi1 Hi2.
        destruct (wmw_partial_inplace f off b j ltac:(lia)) as (_ & _ & C). fold f' in C.
        destruct (C (N.to_nat i) ltac:(lia)) as [Hs|Hn]; [exact Hs|]. rewrite Hn.
        pose proof (wmw_decode_canonical _ _ Hbb Hd) as Cb. rewrite firstn_all2 in Cb by lia.
        pose proof (wmw_decode_canonical _ _ (wmw_bytes_skipn (N.to_nat off) f Hbf) Xd) as Cf.
        assert (Hk : (8 <= N.to_nat i - N.to_nat off < 28)%nat) by lia.
        rewrite Cb, (wmw_encode_rest h' _ Hk), (wmw_rest_same _ _ (wo_hdr_diff_none _ _ _ Hdiff)).
        rewrite <- (wmw_encode_rest (wo_e_hdr x) _ Hk), <- Cf.
        rewrite wo_nth_firstn by lia. rewrite wo_nth_skipn. f_equal. lia.
      * intros Hne2. exfalso. apply Hne2. reflexivity.
      * intros _ i Hi1 Hi2. apply B. lia.
    + split; [|split]; intros; apply B; lia.
  - (* the table of the tracked HEAD chunk at off - 32 *)
    pose proof (Hfind _ _ Hf) as Hinx. destruct (Htr _ _ Hinx) as (_ & X1 & X2 & X3 & Xd).
    assert (Hsz : wo_size (wo_e_hdr x) = 168) by (unfold wo_size; rewrite Hpl; reflexivity). rewrite Hsz in X2.
    destruct (Hin_place off (off + 128) ltac:(lia) ltac:(lia) ltac:(lia)) as [A B].
    split; [lia|]. intros o h Hin. destruct (Htr _ _ Hin) as (_ & T1 & T2 & T3 & Td). unfold wo_size in *.
    destruct (Hdis _ _ _ _ Hinx Hin) as [[Eo Eh]|Hd2].
    + subst o h. split; [|split].
      * intros; apply B; lia.
      * intros _ i Hi1 Hi2. apply B. lia.
      * intro Hh. rewrite Hhead in Hh. discriminate.
    + rewrite Hsz in Hd2. split; [|split]; intros; apply B; lia.
  - (* pad + CRC of the HEAD chunk whose table was just rewritten *)
    pose proof (wi_pend _ _ I Hne) as Hpd. unfold wo_pend_ok in Hpd. rewrite Hp in Hpd.
    destruct Hpd as (_ & Hinx & Hpl & Hhead). destruct (Htr _ _ Hinx) as (_ & X1 & X2 & X3 & Xd).
    assert (Hsz : wo_size h0 = 168) by (unfold wo_size; rewrite Hpl; reflexivity). rewrite Hsz in X2.
    rewrite Hpl in Eo, Hl. change (fm_pad_len SIZEOF_track_head + 4) with 8 in Hl. unfold SIZEOF_track_head in Eo.
    destruct (Hin_place off (off + 8) ltac:(lia) ltac:(lia) ltac:(lia)) as [A B].
    split; [lia|]. intros o h Hin. destruct (Htr _ _ Hin) as (_ & T1 & T2 & T3 & Td). unfold wo_size in *.
    destruct (Hdis _ _ _ _ Hinx Hin) as [[Eo2 Eh]|Hd2].
    + subst o h. split; [|split].
      * intros; apply B; lia.
      * intros _ i Hi1 Hi2. apply B. lia.
      * intro Hh. rewrite Hhead in Hh. discriminate.
    + rewrite Hsz in Hd2. split; [|split]; intros; apply B; lia.
Qed.

(* ================================================================ which completed chunks survive a torn write as a CHAIN *)
(* the chain below (and including) a completed chunk *)
Lemma wmw_chain_suffix : forall f l e, wo_chunks f l e -> forall o h, In (o, h) l ->
  exists l', wo_chunks f ((o, h) :: l') (o + wo_size h) /\ forall o2 h2, In (o2, h2) ((o, h) :: l') -> o2 <= o /\ In (o2, h2) l.
Proof.
  intros f l e H. induction H as [|r o1 h1 Hr IH Hd Hb]; intros o h Hin; [destruct Hin|].
  destruct Hin as [E|Hin].
  - inversion E; subst. exists r. split; [constructor; assumption|].
    intros o2 h2 [E2|H2]; [inversion E2; subst; split; [lia|now left]|].
    destruct (wo_chunks_bounds _ _ _ Hr) as [_ Hbd]. destruct (Hbd _ _ H2) as (_ & B & _).
    pose proof (wo_size_ge h2). split; [lia|now right].
  - destruct (IH _ _ Hin) as (l' & Hc & Hle). exists l'. split; [exact Hc|].
    intros o2 h2 H2. destruct (Hle _ _ H2) as [A B]. split; [exact A|now right].
Qed.

(* completed chunks whose headers (and all headers before them) are byte-identical in f' are completed chunks of f' *)
Lemma wmw_completed_preserved : forall f f' o h, wo_completed f o h -> (length f <= length f')%nat ->
  (forall o2 h2, wo_completed f o2 h2 -> o2 <= o ->
     forall i, o2 <= i -> i < o2 + 32 -> nth (N.to_nat i) f' 0 = nth (N.to_nat i) f 0) ->
  wo_completed f' o h.
Proof.
  intros f f' o h (l & e & Hl & Hin) Hlen Hsame.
  destruct (wmw_chain_suffix _ _ _ Hl _ _ Hin) as (l' & Hc & Hle).
  exists ((o, h) :: l'), (o + wo_size h). split; [|now left].
  eapply wo_chunks_preserved; [exact Hc|exact Hlen|].
  intros o2 h2 H2. destruct (Hle _ _ H2) as [A B].
  destruct (wo_chunks_bounds _ _ _ Hl) as [_ Hbd]. destruct (Hbd _ _ B) as (B1 & B2 & B3 & B4).
  pose proof (wo_size_ge h2) as Hs.
  rewrite <- B4. apply wo_decode_unchanged; [|lia|lia].
  intros i Hi. replace i with (N.to_nat (N.of_nat i)) by lia.
  apply (Hsame o2 h2); [exists l, e; split; assumption|exact A|lia|lia].
Qed.

Theorem wmw_torn_write_chain : forall s f off b s' j,
  wo_inv s f -> bytes_ok f -> bytes_ok b -> wo_step false s (WoWrite off b) = inl s' ->
  let f' := wo_apply_write f off (firstn j b) in
  forall o h, wo_completed f o h ->
    (* every completed chunk strictly before the write position is still a completed chunk; if the write is not the
       re-link of a completed chunk's header (append, head table, file header), ALL completed chunks are *)
    (o < off \/ (forall h0, ~ wo_completed f off h0)) -> wo_completed f' o h.
Proof.
  intros s f off b s' j I Hbf Hbb Hstep f' o h Hc Hcase.
  destruct (wmw_torn_write s f off b s' j I Hbf Hbb Hstep) as [Hlen Hall]. fold f' in Hlen, Hall.
  apply (wmw_completed_preserved f f' o h Hc Hlen).
  intros o2 h2 Hc2 Hle i Hi1 Hi2.
  destruct (wo_inv_completed _ _ _ _ I Hc2) as [_ Hin2].
  destruct (Hall _ _ Hin2) as (_ & H2 & _). apply H2; [|exact Hi1|exact Hi2].
  intro E. subst o2. destruct Hcase as [Hlt|Hno]; [lia|]. exact (Hno h2 Hc2).
Qed.

(* a torn re-link: when the write position is the offset of a completed chunk, the torn image has the same length and
   differs from the file before the write at most in the 8 bytes of that header's item_next and the 4 bytes of its crc32 *)
Theorem wmw_torn_link : forall s f off b s' j h0,
  wo_inv s f -> bytes_ok f -> bytes_ok b -> wo_step false s (WoWrite off b) = inl s' -> wo_completed f off h0 ->
  let f' := wo_apply_write f off (firstn j b) in
  length f' = length f /\
  forall i, nth (N.to_nat i) f' 0 <> nth (N.to_nat i) f 0 -> (off <= i /\ i < off + 8) \/ (off + 28 <= i /\ i < off + 32).
Proof.
  intros s f off b s' j h0 I Hbf Hbb Hstep Hc f'.
  destruct (wo_inv_completed _ _ _ _ I Hc) as [Hne Hin].
  destruct (wmw_torn_write s f off b s' j I Hbf Hbb Hstep) as [_ Hall]. fold f' in Hall.
  destruct (Hall _ _ Hin) as (Hmid & _ & _).
  pose proof (wi_len _ _ I) as Hlen.
  pose proof (wi_chain _ _ I Hne) as Hch.
  destruct (wo_chunks_bounds _ _ _ Hch) as [_ Hbd]. destruct (Hbd _ _ Hin) as (B1 & B2 & B3 & B4).
  pose proof (wo_size_ge h0) as Hs0.
  assert (Hfind : forall a x, wo_find a (wo_exts s) = Some x -> In (a, wo_e_hdr x) (wo_pairs (wo_exts s))).
  { intros a x Hf. destruct (wo_find_some _ _ _ Hf) as [Hi Ho]. rewrite <- Ho. now apply wo_pairs_in. }
  assert (Hl32 : length b = 32%nat).
  { destruct (wmw_step_region _ _ _ _ _ Hstep) as [E0 _ Hl|Ea|x h' _ Hf Hl Hd Hdiff|x _ H32 Hf Hhead Hpl Hl|o1 h1 p1 _ Hp Eo Hl].
    - lia.
    - lia.
    - exact Hl.
    - exfalso. pose proof (Hfind _ _ Hf) as Hinx.
      assert (Hsz : wo_size (wo_e_hdr x) = 168) by (unfold wo_size; rewrite Hpl; reflexivity).
      destruct (wo_chunks_disjoint _ _ _ Hch _ _ _ _ Hinx Hin) as [[A _]|[A|A]]; rewrite ?Hsz in A; lia.
    - exfalso. pose proof (wi_pend _ _ I Hne) as Hpd. unfold wo_pend_ok in Hpd. rewrite Hp in Hpd.
      destruct Hpd as (_ & Hinx & Hpl & _).
      assert (Hsz : wo_size h1 = 168) by (unfold wo_size; rewrite Hpl; reflexivity).
      rewrite Hpl in Eo. unfold SIZEOF_track_head in Eo.
      destruct (wo_chunks_disjoint _ _ _ Hch _ _ _ _ Hinx Hin) as [[A _]|[A|A]]; rewrite ?Hsz in A; lia. }
  destruct (wmw_partial_inplace f off b j ltac:(lia)) as (A & B & _). fold f' in A, B.
  split; [exact A|]. intros i Hdiff.
  destruct (N.lt_ge_cases i off) as [H1|H1]; [exfalso; apply Hdiff; apply B; lia|].
  destruct (N.lt_ge_cases i (off + 32)) as [H2|H2]; [|exfalso; apply Hdiff; apply B; lia].
  destruct (N.lt_ge_cases i (off + 8)) as [H3|H3]; [left; lia|].
  destruct (N.lt_ge_cases i (off + 28)) as [H4|H4]; [|right; lia].
  exfalso. apply Hdiff. apply Hmid; assumption.
Qed.

(* ================================================================ the writer model *)
Definition wmw_log_bytes (l : wm_log) : Prop := forall off b, In (WmWrite off b) l -> bytes_ok b.
Definition wmw_log_bytes_b (l : wm_log) : bool :=
  forallb (fun e => match e with WmWrite _ b => forallb (fun x => x <? 256) b | _ => true end) l.
Lemma wmw_log_bytes_b_sound : forall l, wmw_log_bytes_b l = true -> wmw_log_bytes l.
Proof.
  intros l H off b Hin. unfold wmw_log_bytes_b in H. rewrite forallb_forall in H. specialize (H _ Hin). cbv beta iota in H.
  rewrite forallb_forall in H. unfold bytes_ok. apply Forall_forall. intros x Hx. apply N.ltb_lt. apply H. exact Hx.
Qed.

Lemma wmw_evs_bytes : forall l, wmw_log_bytes l -> Forall wmw_ev_bytes (wmw_evs l).
Proof.
  intros l H. unfold wmw_evs. apply Forall_forall. intros e He. apply in_map_iff in He. destruct He as (x & <- & Hx).
  apply in_rev in Hx. destruct x as [off b| |]; cbn [wmw_to_wo wmw_ev_bytes]; auto. eapply H; eauto.
Qed.

Lemma wmw_firstn_snoc : forall (A : Type) (l : list A) k x, nth_error l k = Some x -> firstn (S k) l = firstn k l ++ [x].
Proof.
  intros A l. induction l as [|y l IH]; intros k x H; destruct k; cbn in *; try discriminate.
  - inversion H. reflexivity.
  - f_equal. apply IH. exact H.
Qed.
Lemma wmw_Forall_firstn : forall (A : Type) (P : A -> Prop) k l, Forall P l -> Forall P (firstn k l).
Proof.
  intros A P k l H. rewrite Forall_forall in *. intros x Hx. apply H. rewrite <- (firstn_skipn k l). apply in_or_app. now left.
Qed.

(* the state of the checker at a crash point k whose next call is the write (off, b) *)
Lemma wmw_crash_point : forall l, wo_check_log l = true -> Forall wmw_ev_bytes l ->
  forall k off b, nth_error l k = Some (WoWrite off b) ->
    exists s s', wo_inv s (wo_file_after (firstn k l)) /\ bytes_ok (wo_file_after (firstn k l)) /\ bytes_ok b /\
                 wo_step false s (WoWrite off b) = inl s'.
Proof.
  intros l Hacc Hby k off b Hk.
  pose proof (wmw_check_log_prefix (firstn (S k) l) (skipn (S k) l)) as Hp. rewrite firstn_skipn in Hp. specialize (Hp Hacc).
  rewrite (wmw_firstn_snoc _ _ _ _ Hk) in Hp. unfold wo_check_log, wo_check_log_gen in Hp.
  destruct (wo_run false wo_st0 0 (firstn k l ++ [WoWrite off b])) as [s'|] eqn:E; [|discriminate].
  destruct (wmw_run_snoc_inv _ _ _ _ _ _ E) as (s & E1 & E2).
  exists s, s'. split; [eapply wo_run_tracks_chunks; exact E1|]. split; [apply wmw_file_bytes; apply wmw_Forall_firstn; exact Hby|].
  split; [|exact E2].
  rewrite Forall_forall in Hby. apply nth_error_In in Hk. exact (Hby _ Hk).
Qed.

Theorem wmw_crash_torn : forall summ1 summN p,
  let st := fst (wm_run_full summ1 summN p) in
  wm_st_fault st = false -> wmw_bounded (wm_st_log st) -> wmw_log_bytes (wm_st_log st) ->
  forall k off b, nth_error (wmw_evs (wm_st_log st)) k = Some (WoWrite off b) ->
  forall j,
    let f := wo_file_after (firstn k (wmw_evs (wm_st_log st))) in
    let f' := wo_apply_write f off (firstn j b) in
    (length f <= length f')%nat /\
    forall o h, wo_completed f o h ->
      (forall i, o + 8 <= i -> i < o + 28 -> nth (N.to_nat i) f' 0 = nth (N.to_nat i) f 0) /\
      (off <> o -> forall i, o <= i -> i < o + 32 -> nth (N.to_nat i) f' 0 = nth (N.to_nat i) f 0) /\
      (fm_is_head_tag (fm_tag h) = false ->
         forall i, o + 32 <= i -> i < o + fm_chunk_size (fm_payload_length h) -> nth (N.to_nat i) f' 0 = nth (N.to_nat i) f 0) /\
      ((o < off \/ forall h0, ~ wo_completed f off h0) -> wo_completed f' o h).
Proof.
  intros summ1 summN p st Hf Hb Hby k off b Hk j f f'.
  destruct (wmw_crash_point _ (wmw_run_accepted summ1 summN p Hf Hb) (wmw_evs_bytes _ Hby) k off b Hk)
    as (s & s' & I & Hbf & Hbb & Hstep). fold f in I, Hbf.
  destruct (wmw_torn_write s f off b s' j I Hbf Hbb Hstep) as [Hlen Hall]. fold f' in Hlen, Hall.
  split; [exact Hlen|]. intros o h Hc. destruct (wo_inv_completed _ _ _ _ I Hc) as [_ Hin].
  destruct (Hall _ _ Hin) as (A & B & C). split; [exact A|]. split; [exact B|]. split; [exact C|].
  intro Hcase. exact (wmw_torn_write_chain s f off b s' j I Hbf Hbb Hstep o h Hc Hcase).
Qed.

Theorem wmw_crash_torn_link : forall summ1 summN p,
  let st := fst (wm_run_full summ1 summN p) in
  wm_st_fault st = false -> wmw_bounded (wm_st_log st) -> wmw_log_bytes (wm_st_log st) ->
  forall k off b, nth_error (wmw_evs (wm_st_log st)) k = Some (WoWrite off b) ->
  forall j,
    let f := wo_file_after (firstn k (wmw_evs (wm_st_log st))) in
    let f' := wo_apply_write f off (firstn j b) in
    forall h0, wo_completed f off h0 ->
      length f' = length f /\
      forall i, nth (N.to_nat i) f' 0 <> nth (N.to_nat i) f 0 -> (off <= i /\ i < off + 8) \/ (off + 28 <= i /\ i < off + 32).
Proof.
  intros summ1 summN p st Hf Hb Hby k off b Hk j f f' h0 Hc.
  destruct (wmw_crash_point _ (wmw_run_accepted summ1 summN p Hf Hb) (wmw_evs_bytes _ Hby) k off b Hk)
    as (s & s' & I & Hbf & Hbb & Hstep). fold f in I, Hbf.
  exact (wmw_torn_link s f off b s' j h0 I Hbf Hbb Hstep Hc).
Qed.

(* the example program of WmWriteOnce4.v writes bytes only *)
Lemma wmw_ex_bytes : wmw_log_bytes (wm_st_log (fst (wm_run_full wm_zero_summ1 wm_zero_summN wmw_ex_prog))).
Proof. apply wmw_log_bytes_b_sound. vm_compute. reflexivity. Qed.

(* ================================================================ non-vacuity *)
Lemma wmw_found_completed : forall l s o x, wo_run false wo_st0 0 l = inl s -> wo_find o (wo_exts s) = Some x ->
  wo_completed (wo_file_after l) o (wo_e_hdr x).
Proof.
  intros l s o x Hrun Hf. pose proof (wo_run_tracks_chunks _ _ _ Hrun) as I.
  destruct (wo_find_some _ _ _ Hf) as [Hin Ho].
  assert (Hp : In (o, wo_e_hdr x) (wo_pairs (wo_exts s))) by (rewrite <- Ho; now apply wo_pairs_in).
  assert (Hne : wo_len s <> 0).
  { intro E. destruct (wi_empty _ _ I E) as [Hx _]. rewrite Hx in Hin. destruct Hin. }
  exists (wo_pairs (wo_exts s)), (wo_end s). split; [exact (wi_chain _ _ I Hne)|exact Hp].
Qed.

(* jls_wr_open; jls_wr_close: backend call number 10 (counted from 0) rewrites the header of the SIGNAL_DEF chunk at
   offset 208 (to link the TRACK_VSR_DEF chunk at 400), a completed chunk of the file after calls 0..9 *)
Example wmw_ex_torn_link_point :
  let st := fst (wm_run_full wm_zero_summ1 wm_zero_summN []) in
  let evs := wmw_evs (wm_st_log st) in
  wm_st_fault st = false /\ wmw_bounded (wm_st_log st) /\ wmw_log_bytes (wm_st_log st) /\
  exists b h0, nth_error evs 10 = Some (WoWrite 208 b) /\ length b = 32%nat /\
               wo_completed (wo_file_after (firstn 10 evs)) 208 h0 /\ fm_tag h0 = JLS_TAG_SIGNAL_DEF /\ fm_item_next h0 = 0.
Proof.
  cbv zeta. split; [vm_compute; reflexivity|]. split; [apply wmw_bounded_b_sound; vm_compute; reflexivity|].
  split; [apply wmw_log_bytes_b_sound; vm_compute; reflexivity|].
  set (evs := wmw_evs (wm_st_log (fst (wm_run_full wm_zero_summ1 wm_zero_summN [])))).
  destruct (wo_run false wo_st0 0 (firstn 10 evs)) as [s|e] eqn:E; [|exfalso; revert E; vm_compute; discriminate].
  destruct (wo_find 208 (wo_exts s)) as [x|] eqn:Ex.
  - pose proof (wmw_found_completed _ _ _ _ E Ex) as Hc.
    eexists. exists (wo_e_hdr x). split; [vm_compute; reflexivity|]. split; [reflexivity|]. split; [exact Hc|].
    revert Ex. revert E. vm_compute. intro E. inversion E; subst s. vm_compute. intro Ex. inversion Ex; subst x. split; reflexivity.
  - exfalso. revert Ex. revert E. vm_compute. intro E. inversion E; subst s. vm_compute. discriminate.
Qed.

(* ================================================================ the file header at every crash point *)
Lemma wmw_inv_len32 : forall s f, wo_inv s f -> wo_len s <> 0 -> 32 <= N.of_nat (length f).
Proof.
  intros s f I Hne. pose proof (wi_len _ _ I) as Hlen. pose proof (wi_chain _ _ I Hne) as Hc.
  destruct (wo_chunks_bounds _ _ _ Hc) as [A _]. pose proof (wi_pend _ _ I Hne) as Hp.
  unfold wo_pend_ok in Hp. destruct (wo_pending s); lia.
Qed.

(* an accepted write that is not at offset 0, complete or torn, leaves the first 32 bytes alone *)
Lemma wmw_step_keeps_fh : forall s f off b s' j,
  wo_inv s f -> wo_len s <> 0 -> wo_step false s (WoWrite off b) = inl s' -> off <> 0 ->
  firstn 32 (wo_apply_write f off (firstn j b)) = firstn 32 f.
Proof.
  intros s f off b s' j I Hne Hstep Hoff.
  pose proof (wmw_inv_len32 _ _ I Hne) as H32. pose proof (wi_len _ _ I) as Hlen.
  set (f' := wo_apply_write f off (firstn j b)).
  assert (K : (length f <= length f')%nat /\ forall i, (i < 32)%nat -> nth i f' 0 = nth i f 0).
  { assert (Hfind : forall a x, wo_find a (wo_exts s) = Some x -> In (a, wo_e_hdr x) (wo_pairs (wo_exts s))).
    { intros a x Hf. destruct (wo_find_some _ _ _ Hf) as [Hi Ho]. rewrite <- Ho. now apply wo_pairs_in. }
    destruct (wo_chunks_bounds _ _ _ (wi_chain _ _ I Hne)) as [_ Hbd].
    assert (Hin_place : 32 <= off -> off + N.of_nat (length b) <= N.of_nat (length f) ->
              (length f <= length f')%nat /\ forall i, (i < 32)%nat -> nth i f' 0 = nth i f 0).
    { intros H1 H2. destruct (wmw_partial_inplace f off b j ltac:(lia)) as (A & B & _). fold f' in A, B.
      split; [lia|]. intros i Hi. apply B. lia. }
    destruct (wmw_step_region _ _ _ _ _ Hstep) as [E0 _ Hl|Ea|x h' _ Hf Hl Hd Hdiff|x _ H32' Hf Hhead Hpl Hl|o1 h1 p1 _ Hp Eo Hl].
    - contradiction.
    - destruct (wmw_partial_append f off (firstn j b) ltac:(lia)) as [A B]. fold f' in A, B.
      split; [exact A|]. intros i Hi. apply B. lia.
    - destruct (Hbd _ _ (Hfind _ _ Hf)) as (B1 & B2 & B3 & _). pose proof (wo_size_ge (wo_e_hdr x)). apply Hin_place; lia.
    - destruct (Hbd _ _ (Hfind _ _ Hf)) as (B1 & B2 & B3 & _).
      assert (Hsz : wo_size (wo_e_hdr x) = 168) by (unfold wo_size; rewrite Hpl; reflexivity). apply Hin_place; lia.
    - pose proof (wi_pend _ _ I Hne) as Hpd. unfold wo_pend_ok in Hpd. rewrite Hp in Hpd. destruct Hpd as (_ & Hinx & Hpl & _).
      destruct (Hbd _ _ Hinx) as (B1 & B2 & B3 & _).
      assert (Hsz : wo_size h1 = 168) by (unfold wo_size; rewrite Hpl; reflexivity).
      rewrite Hpl in Eo, Hl. change (fm_pad_len SIZEOF_track_head + 4) with 8 in Hl. unfold SIZEOF_track_head in Eo.
      apply Hin_place; lia. }
  destruct K as [K1 K2].
  pose proof (wo_window_eq f' f 0 32) as W. cbn [skipn] in W. apply W; [intros i Hi; apply K2; lia|lia|lia].
Qed.

Definition wmw_nz_evs (l : list wo_ev) : Prop := forall b, ~ In (WoWrite 0 b) l.

Lemma wmw_fh_stable_run : forall rest s f i s', wo_inv s f -> wo_len s <> 0 -> wmw_nz_evs rest ->
  wo_run false s i rest = inl s' ->
  forall k, firstn 32 (fold_left wo_apply (firstn k rest) f) = firstn 32 f.
Proof.
  induction rest as [|e rest IH]; intros s f i s' I Hne Hnz Hrun k; [destruct k; reflexivity|].
  destruct k as [|k]; [reflexivity|]. rewrite firstn_cons. cbn [fold_left].
  cbn [wo_run] in Hrun. destruct (wo_step false s e) as [s1|] eqn:Es; [|discriminate].
  destruct (wo_step_sound _ _ _ _ _ I Es) as [I1 [Hlen _]].
  assert (Hne1 : wo_len s1 <> 0).
  { pose proof (wi_len _ _ I) as L0. pose proof (wi_len _ _ I1) as L1. lia. }
  assert (Hnz1 : wmw_nz_evs rest) by (intros b Hb; apply (Hnz b); now right).
  rewrite (IH s1 (wo_apply f e) (i + 1) s' I1 Hne1 Hnz1 Hrun k).
  destruct e as [off b|n|]; cbn [wo_apply].
  - assert (Hoff : off <> 0) by (intro E; subst off; apply (Hnz b); now left).
    pose proof (wmw_step_keeps_fh s f off b s1 (length b) I Hne Es Hoff) as H. rewrite firstn_all in H. exact H.
  - cbn [wo_step] in Es. destruct (n =? wo_len s) eqn:En; [|discriminate]. apply N.eqb_eq in En.
    pose proof (wi_len _ _ I) as L0. replace (N.to_nat n) with (length f) by lia.
    rewrite firstn_all, Nat.sub_diag. cbn [repeat]. rewrite app_nil_r. reflexivity.
  - reflexivity.
Qed.

Theorem wmw_fh_stable : forall b0 rest, wo_check_log (WoTrunc 0 :: WoWrite 0 b0 :: rest) = true -> wmw_nz_evs rest ->
  forall k, (2 <= k)%nat -> firstn 32 (wo_file_after (firstn k (WoTrunc 0 :: WoWrite 0 b0 :: rest))) = b0.
Proof.
  intros b0 rest Hacc Hnz k Hk. destruct k as [|[|k]]; try lia. rewrite !firstn_cons.
  unfold wo_check_log, wo_check_log_gen in Hacc.
  destruct (wo_run false wo_st0 0 (WoTrunc 0 :: WoWrite 0 b0 :: rest)) as [s'|] eqn:E; [|discriminate].
  cbn [wo_run] in E. change (wo_step false wo_st0 (WoTrunc 0)) with (@inl wo_st wo_reason wo_st0) in E. cbv beta iota in E.
  destruct (wo_step false wo_st0 (WoWrite 0 b0)) as [s1|] eqn:E1; [|discriminate].
  assert (R2 : wo_run false wo_st0 0 [WoTrunc 0; WoWrite 0 b0] = inl s1).
  { cbn [wo_run]. change (wo_step false wo_st0 (WoTrunc 0)) with (@inl wo_st wo_reason wo_st0). cbv beta iota. rewrite E1. reflexivity. }
  pose proof (wo_run_tracks_chunks _ _ _ R2) as I1.
  assert (F2 : wo_file_after [WoTrunc 0; WoWrite 0 b0] = b0).
  { unfold wo_file_after. cbn [fold_left wo_apply]. change (N.to_nat 0) with 0%nat. cbn [firstn Nat.sub repeat app length].
    unfold wo_apply_write. change (N.to_nat 0) with 0%nat. cbn [firstn Nat.sub repeat app length Nat.add].
    rewrite skipn_nil, app_nil_r. reflexivity. }
  rewrite F2 in I1.
  assert (L32 : length b0 = 32%nat).
  { cbn [wo_step] in E1. unfold wo_step_write in E1. cbv zeta in E1. rewrite N.eqb_refl in E1.
    destruct (fm_decode_file_header b0); [|discriminate].
    destruct (N.of_nat (length b0) =? SIZEOF_file_header) eqn:El; cbn [negb] in E1; [|discriminate].
    apply N.eqb_eq in El. unfold SIZEOF_file_header in El. lia. }
  assert (Hne1 : wo_len s1 <> 0) by (pose proof (wi_len _ _ I1); lia).
  unfold wo_file_after. cbn [fold_left].
  change (wo_apply (wo_apply [] (WoTrunc 0)) (WoWrite 0 b0)) with (wo_file_after [WoTrunc 0; WoWrite 0 b0]).
  rewrite F2. rewrite (wmw_fh_stable_run rest s1 b0 (0 + 1 + 1) s' I1 Hne1 Hnz E k).
  rewrite <- L32. apply firstn_all.
Qed.

(* the model: every reachable state (jls_wr_open; calls ...; possibly jls_wr_close up to its last write) *)
Lemma wmw_nz_evs_of : forall l, wmw_nz l -> wmw_nz_evs (map wmw_to_wo (rev l)).
Proof.
  intros l H b Hin. apply in_map_iff in Hin. destruct Hin as (e & He & Hin). apply in_rev in Hin.
  destruct e as [off b'| |]; cbn [wmw_to_wo] in He; try discriminate. inversion He; subst. exact (H b Hin).
Qed.

Definition wmw_fh0 : fm_file_header := {| fm_fh_length := 0; fm_fh_version := JLS_FORMAT_VERSION_U32 |}.

Lemma wmw_fh_decode : forall f, firstn 32 f = wm_file_header_bytes 0 -> fm_decode_file_header f = Some wmw_fh0.
Proof.
  intros f H. rewrite <- (firstn_skipn 32 f), H. unfold wm_file_header_bytes. apply fm_file_header_roundtrip; reflexivity.
Qed.

Lemma wmw_reach_fh : forall st, wmw_ststep wm_state0 st -> wm_st_fault st = false -> wmw_bounded (wm_st_log st) ->
  forall k, (2 <= k)%nat -> firstn 32 (wo_file_after (firstn k (wmw_evs (wm_st_log st)))) = wm_file_header_bytes 0.
Proof.
  intros st Hreach Hf Hb k Hk.
  destruct (wmw_reach_accepted st Hreach Hf Hb) as (s & Hinv). pose proof (wmw_stinv_run _ _ Hinv) as Hrun.
  destruct (wmw_reach_log_shape st Hreach Hf) as (l & Hl & Hnz).
  assert (Hev : wmw_evs (wm_st_log st) = WoTrunc 0 :: WoWrite 0 (wm_file_header_bytes 0) :: map wmw_to_wo (rev l)).
  { unfold wmw_evs. rewrite Hl, rev_app_distr. reflexivity. }
  rewrite Hev in Hrun |- *. apply wmw_fh_stable; [|apply wmw_nz_evs_of; exact Hnz|exact Hk].
  unfold wo_check_log, wo_check_log_gen. rewrite Hrun. reflexivity.
Qed.

Theorem wmw_crash_file_header_open : forall summ1 summN p,
  let st := fst (wm_steps summ1 summN wm_api_open p []) in
  wm_st_fault st = false -> wmw_bounded (wm_st_log st) ->
  forall k, (2 <= k)%nat ->
    let f := wo_file_after (firstn k (wmw_evs (wm_st_log st))) in
    firstn 32 f = wm_file_header_bytes 0 /\ fm_decode_file_header f = Some wmw_fh0.
Proof.
  intros summ1 summN p st Hf Hb k Hk f.
  assert (H : firstn 32 f = wm_file_header_bytes 0).
  { apply wmw_reach_fh; try assumption.
    eapply wmw_ststep_trans; [apply wmw_api_open_step|apply wmw_steps_step]. }
  split; [exact H|apply wmw_fh_decode; exact H].
Qed.

Lemma wmw_fin_fh : forall pre, wmw_ststep wm_state0 pre ->
  wm_st_fault (wmw_fin pre) = false -> wmw_bounded (wm_st_log (wmw_fin pre)) ->
  forall k, (2 <= k < length (wmw_evs (wm_st_log (wmw_fin pre))))%nat ->
    firstn 32 (wo_file_after (firstn k (wmw_evs (wm_st_log (wmw_fin pre))))) = wm_file_header_bytes 0 /\
    fm_decode_file_header (wo_file_after (firstn k (wmw_evs (wm_st_log (wmw_fin pre))))) = Some wmw_fh0.
Proof.
  intros pre Hreach Hf Hb k Hk.
  destruct (wmw_close_log (wm_b_raw (wm_st_base pre))) as [Lc Fc].
  assert (Hev : wmw_evs (wm_st_log (wmw_fin pre)) =
                wmw_evs (wm_st_log pre) ++ [WoWrite 0 (wm_file_header_bytes (wm_fend (wm_b_raw (wm_st_base pre))))]).
  { unfold wmw_fin, wm_st_log. cbn [wm_st_base wm_st_set_base wm_b_raw wm_b_set_raw]. rewrite Lc, wmw_evs_cons. reflexivity. }
  assert (G : wm_st_fault pre = false /\ wmw_bounded (wm_st_log pre)).
  { unfold wmw_fin, wm_st_fault, wm_st_log in *. cbn [wm_st_base wm_st_set_base wm_b_raw wm_b_set_raw] in *.
    apply wmw_good_close. split; assumption. }
  destruct G as [G1 G2].
  rewrite Hev in Hk |- *. rewrite app_length in Hk. cbn [length] in Hk.
  rewrite firstn_app. replace (k - length (wmw_evs (wm_st_log pre)))%nat with 0%nat by lia.
  rewrite firstn_O, app_nil_r.
  assert (H : firstn 32 (wo_file_after (firstn k (wmw_evs (wm_st_log pre)))) = wm_file_header_bytes 0).
  { apply wmw_reach_fh; [exact Hreach|exact G1|exact G2|lia]. }
  split; [exact H|apply wmw_fh_decode; exact H].
Qed.

Theorem wmw_crash_file_header : forall summ1 summN p,
  let st := fst (wm_run_full summ1 summN p) in
  wm_st_fault st = false -> wmw_bounded (wm_st_log st) ->
  forall k, (2 <= k < length (wmw_evs (wm_st_log st)))%nat ->
    let f := wo_file_after (firstn k (wmw_evs (wm_st_log st))) in
    firstn 32 f = wm_file_header_bytes 0 /\ fm_decode_file_header f = Some wmw_fh0.
Proof.
  intros summ1 summN p. cbv zeta. destruct (wmw_run_pre summ1 summN p) as [Hreach Heq]. rewrite Heq.
  apply wmw_fin_fh. exact Hreach.
Qed.

(* torn writes: unless write k+1 is the final file-header write itself (offset 0), the first 32 bytes of the image (k, j)
   are those of the image (k, 0) *)
Theorem wmw_crash_torn_file_header : forall summ1 summN p,
  let st := fst (wm_run_full summ1 summN p) in
  wm_st_fault st = false -> wmw_bounded (wm_st_log st) ->
  forall k off b, nth_error (wmw_evs (wm_st_log st)) k = Some (WoWrite off b) -> (2 <= k)%nat -> off <> 0 ->
  forall j,
    let f := wo_file_after (firstn k (wmw_evs (wm_st_log st))) in
    firstn 32 (wo_apply_write f off (firstn j b)) = firstn 32 f.
Proof.
  intros summ1 summN p. cbv zeta. intros Hf Hb k off b Hk H2 Hoff j.
  set (evs := wmw_evs (wm_st_log (fst (wm_run_full summ1 summN p)))) in *.
  pose proof (wmw_run_accepted summ1 summN p Hf Hb) as Hacc. cbv zeta in Hacc. fold evs in Hacc.
  pose proof (wmw_check_log_prefix (firstn (S k) evs) (skipn (S k) evs)) as Hp.
  rewrite firstn_skipn in Hp. specialize (Hp Hacc). rewrite (wmw_firstn_snoc _ _ _ _ Hk) in Hp.
  unfold wo_check_log, wo_check_log_gen in Hp.
  destruct (wo_run false wo_st0 0 (firstn k evs ++ [WoWrite off b])) as [s'|] eqn:E; [|discriminate].
  destruct (wmw_run_snoc_inv _ _ _ _ _ _ E) as (s & E1 & E2).
  pose proof (wo_run_tracks_chunks _ _ _ E1) as I.
  apply (wmw_step_keeps_fh s _ off b s' j I); [|exact E2|exact Hoff].
  (* the file is not empty after two calls *)
  pose proof (wi_len _ _ I) as Hlen. intro E0.
  assert (Hnth : nth_error evs k <> None) by (rewrite Hk; discriminate).
  apply nth_error_Some in Hnth.
  destruct (wmw_crash_file_header summ1 summN p Hf Hb k (conj H2 Hnth)) as [Hfh _]. cbv zeta in Hfh. fold evs in Hfh.
  assert (Hl0 : length (wo_file_after (firstn k evs)) = 0%nat) by lia. apply length_zero_iff_nil in Hl0. rewrite Hl0 in Hfh.
  rewrite firstn_nil in Hfh. apply (f_equal (@length N)) in Hfh. unfold wm_file_header_bytes in Hfh.
  rewrite fm_encode_file_header_length in Hfh. discriminate.
Qed.

Lemma wmw_steps_log_shape : forall summ1 summN p,
  let st := fst (wm_steps summ1 summN wm_api_open p []) in
  wm_st_fault st = false ->
  exists l, wm_st_log st = l ++ [WmWrite 0 (wm_file_header_bytes 0); WmTrunc 0] /\ wmw_nz l.
Proof.
  intros summ1 summN p st Hf. apply wmw_reach_log_shape; [|exact Hf].
  eapply wmw_ststep_trans; [apply wmw_api_open_step|apply wmw_steps_step].
Qed.
