(* COMPOSITION, part 2 (C01 / C05 / C03, FSR): the byte-exact writer model's log, the index pyramid and the reader's
   seek arithmetic, chained.  No new model: glue lemmas between
     RefineProg.rp_prog_fsr_partial      (log of wm_run_full: the FSR chunks of one signal = PyramidModel's disk under rf_psi)
     PyramidProofs.pyr_pyramid_inv / pyr_seek_correct / pyr_length_general / pyr_length_correct
     RefineBits2.rb_blocks_stream        (the blocks of the DATA chunks = Spec's stream cut at samples_per_data)
     RefineBits.rb_pack_eq, FsrPackProofs.rd_blocks_spec_lemma   (wm_pack = Spec.pack; the block copy loop of the reader)
   What has to be bridged: the theorems of PyramidProofs are stated for op lists of the shape
   pre ++ PyBlk n req :: post (full blocks, then the last block, then skips); the refinement theorems produce
   py_plan of the script rf_script derived from the calls.  cmp_plan_* show that the second is an instance of the first. *)
From Coq Require Import NArith ZArith List Bool Lia Arith.
From Coq Require Import ZifyBool ZifyN ZifyNat.
From JLS Require Import Generated CrcDefs Spec Format WmRaw WmCore WmTs WmFsr WriterModel WmProofs
  BitCopyModel BitCopyProofs FsrPackModel FsrPackProofs PyramidModel PyramidProofs
  RefineLog RefineFsr RefinePyr RefinePyr2 RefineBits RefineBits2 RefineProg.
Import ListNotations.
Local Open Scope N_scope.

(* ================================================================ list helpers *)
Lemma cmp_Forall2_in_r : forall (A B : Type) (R : A -> B -> Prop) l1 l2 b,
  Forall2 R l1 l2 -> In b l2 -> exists a, In a l1 /\ R a b.
Proof.
  intros A B R l1 l2 b H. induction H as [|x y l1 l2 Hxy Hr IH]; intros Hin; [destruct Hin|].
  destruct Hin as [<-|Hin]; [exists x; split; [left; reflexivity|exact Hxy]|].
  destruct (IH Hin) as (a & Ha & Hab). exists a. split; [right; exact Ha|exact Hab].
Qed.

Lemma cmp_Forall2_in_l : forall (A B : Type) (R : A -> B -> Prop) l1 l2 a,
  Forall2 R l1 l2 -> In a l1 -> exists b, In b l2 /\ R a b.
Proof.
  intros A B R l1 l2 a H. induction H as [|x y l1 l2 Hxy Hr IH]; intros Hin; [destruct Hin|].
  destruct Hin as [<-|Hin]; [exists y; split; [left; reflexivity|exact Hxy]|].
  destruct (IH Hin) as (b & Hb & Hab). exists b. split; [right; exact Hb|exact Hab].
Qed.

Lemma cmp_Forall2_nth : forall (A B : Type) (R : A -> B -> Prop) l1 l2 k b,
  Forall2 R l1 l2 -> nth_error l2 k = Some b -> exists a, nth_error l1 k = Some a /\ R a b.
Proof.
  intros A B R l1 l2 k b H. revert k. induction H as [|x y l1 l2 Hxy Hr IH]; intros k Hk; [destruct k; discriminate Hk|].
  destruct k as [|k]; [injection Hk as <-; exists x; split; [reflexivity|exact Hxy]|]. exact (IH k Hk).
Qed.

Lemma cmp_Forall2_length : forall (A B : Type) (R : A -> B -> Prop) l1 l2, Forall2 R l1 l2 -> length l1 = length l2.
Proof. intros A B R l1 l2 H. induction H as [|x y l1 l2 _ _ IH]; [reflexivity|]. cbn [length]. rewrite IH. reflexivity. Qed.

Lemma cmp_filter_in : forall (A : Type) (f : A -> bool) l x, In x (filter f l) -> In x l.
Proof. intros A f l x H. apply filter_In in H. exact (proj1 H). Qed.

(* blocks of equal length c, then block b: the window [off, off+len) of b inside the concatenation *)
Lemma cmp_concat_window : forall (A : Type) (l1 : list (list A)) b l2 c off len,
  Forall (fun x => length x = c) l1 -> (off + len <= length b)%nat ->
  firstn len (skipn (length l1 * c + off) (concat (l1 ++ b :: l2))) = firstn len (skipn off b).
Proof.
  intros A l1 b l2 c off len Hf Hb. induction Hf as [|x l1 Hx Hf IH].
  - cbn [app concat length Nat.mul Nat.add]. rewrite skipn_app.
    replace (off - length b)%nat with 0%nat by lia. cbn [skipn]. rewrite firstn_app.
    replace (len - length (skipn off b))%nat with 0%nat by (rewrite skipn_length; lia). cbn [firstn]. apply app_nil_r.
  - cbn [app concat length]. rewrite skipn_app.
    replace (S (length l1) * c + off)%nat with (length x + (length l1 * c + off))%nat by lia.
    rewrite skipn_all2 by lia. cbn [app]. replace (length x + (length l1 * c + off) - length x)%nat with (length l1 * c + off)%nat by lia.
    exact IH.
Qed.

Lemma cmp_concat_len : forall (A : Type) c (bl : list (list A)), Forall (fun b => length b = c) bl -> length (concat bl) = (length bl * c)%nat.
Proof. intros A c bl H. induction H as [|b bl Hb Hbl IH]; [reflexivity|]. cbn [concat length]. rewrite app_length, IH, Hb. lia. Qed.

Lemma cmp_nth_error_split3 : forall (A : Type) (l : list A) k x, nth_error l k = Some x ->
  l = firstn k l ++ x :: skipn (S k) l /\ length (firstn k l) = k.
Proof.
  intros A l k x H. destruct (nth_error_split l k H) as (l1 & l2 & E & Hl). subst l. subst k.
  rewrite firstn_app, Nat.sub_diag, firstn_all. cbn [firstn]. rewrite app_nil_r.
  replace (S (length l1)) with (length l1 + 1)%nat by lia. rewrite skipn_app, skipn_all2 by lia.
  replace (length l1 + 1 - length l1)%nat with 1%nat by lia. cbn [app skipn]. split; reflexivity.
Qed.

(* ================================================================ the plan of a call sequence is a list of blocks *)
Definition cmp_is_blk (o : py_op) : Prop := match o with PyBlk _ _ => True | PySkip _ => False end.
Definition cmp_op_size (o : py_op) : Z := match o with PyBlk n _ => n | PySkip _ => 0%Z end.

Lemma cmp_bs_data_full : forall d s sid samples, 0 < sg_spd d ->
  Forall (fun b => length b = N.to_nat (sg_spd d)) (snd (rf_bs_data d s sid samples)).
Proof.
  intros d s sid samples Hspd. destruct samples as [|s0 sm] eqn:E; [constructor|]. rewrite <- E.
  rewrite (rf_bs_data_ne d s sid samples) by (rewrite E; discriminate). cbv zeta.
  match goal with |- context [rf_cut (S (length ?a)) ?n ?a] =>
    pose proof (rf_cut_spec (S (length a)) n a ltac:(lia) ltac:(lia)) as Hc; destruct (rf_cut (S (length a)) n a) as [bl r] end.
  cbn [snd]. exact (proj2 (proj2 Hc)).
Qed.

Lemma cmp_plan_blocks_app : forall small sdf w bl rest reg, Forall (fun b : list N => b <> []) bl ->
  exists reg' reqs, length reqs = length bl /\
    py_plan small sdf reg (map (rf_sblk w) bl ++ rest) =
    map (fun br => PyBlk (Z.of_nat (length (fst br))) (snd br)) (combine bl reqs) ++ py_plan small sdf reg' rest.
Proof.
  intros small sdf w bl rest. induction bl as [|b bl IH]; intros reg Hne.
  - exists reg, []. split; reflexivity.
  - inversion Hne as [|? ? Hb Hne']; subst. cbn [map app py_plan rf_sblk].
    destruct (Z.eqb_spec (Z.of_nat (length b)) 0) as [E0|_]; [destruct b; [congruence|cbn in E0; lia]|].
    destruct (IH (py_reg_shift reg) Hne') as (reg' & reqs & Hl & Hp).
    eexists reg', (_ :: reqs). split; [cbn [length]; rewrite Hl; reflexivity|].
    cbn [combine map fst snd app]. f_equal. exact Hp.
Qed.

Lemma cmp_plan_shape : forall d small sdf ops s reg, 0 < sg_spd d ->
  Forall cmp_is_blk (py_plan small sdf reg (rf_script d s ops)) /\
  map cmp_op_size (py_plan small sdf reg (rf_script d s ops)) = map (fun b => Z.of_nat (length b)) (rf_blocks d s ops).
Proof.
  intros d small sdf ops. induction ops as [|o ops IH]; intros s reg Hspd.
  - cbn [rf_script rf_blocks]. destruct (bs_alloc s); [|split; [constructor|reflexivity]].
    cbn [py_plan rf_sblk]. destruct (bs_pend s) as [|p0 pr]; [cbn; split; [constructor|reflexivity]|].
    destruct (Z.eqb_spec (Z.of_nat (length (p0 :: pr))) 0) as [E0|_]; [cbn in E0; lia|].
    split; [repeat constructor|reflexivity].
  - destruct o as [sid samples|en].
    + cbn [rf_script rf_blocks]. pose proof (cmp_bs_data_full d s sid samples Hspd) as Hfull.
      destruct (rf_bs_data d s sid samples) as [s1 bl]. cbn [snd] in Hfull.
      assert (Hne : Forall (fun b : list N => b <> []) bl).
      { eapply Forall_impl; [|exact Hfull]. intros b Hb Eb. subst b. cbn in Hb. lia. }
      destruct (cmp_plan_blocks_app small sdf (dt_bits (sg_dtype d)) bl (rf_script d s1 ops) reg Hne) as (reg' & reqs & Hl & Hp).
      rewrite Hp. destruct (IH s1 reg' Hspd) as (A & B). split.
      * apply Forall_app. split; [|exact A]. apply Forall_forall. intros o Ho. apply in_map_iff in Ho. destruct Ho as (br & <- & _). exact I.
      * rewrite !map_app, B. f_equal. rewrite map_map. cbn [cmp_op_size].
        clear - Hl. revert reqs Hl. induction bl as [|b bl IHb]; intros reqs Hl; [reflexivity|].
        destruct reqs as [|r reqs]; [discriminate Hl|]. cbn [combine map fst]. f_equal. apply IHb. cbn [length] in Hl. lia.
    + cbn [rf_script rf_blocks py_plan]. apply IH. exact Hspd.
Qed.

(* a list of blocks whose sizes have the writer's shape (all full but the last) is  pre ++ [last block] *)
Lemma cmp_plan_split : forall spd plan (sizes : list nat),
  Forall cmp_is_blk plan -> map cmp_op_size plan = map Z.of_nat sizes -> rb_nshape spd sizes -> sizes <> [] ->
  exists pre n req, plan = pre ++ [PyBlk n req] /\
    Forall (fun o => match o with PyBlk m _ => m = Z.of_nat spd | PySkip k => (0 <= k)%Z end) pre /\
    (1 <= n <= Z.of_nat spd)%Z /\ length pre = pred (length sizes).
Proof.
  intros spd plan sizes Hblk Hsz Hsh Hne.
  assert (Hlen : length plan = length sizes) by (apply (f_equal (@length Z)) in Hsz; rewrite !map_length in Hsz; exact Hsz).
  destruct (exists_last (l := plan)) as (pre & o & E).
  { intro E. subst plan. destruct sizes; [congruence|discriminate Hlen]. }
  subst plan. apply Forall_app in Hblk. destruct Hblk as (Hpre & Ho). inversion Ho as [|? ? Ho1 _]; subst.
  destruct o as [n req|k]; [|destruct Ho1]. exists pre, n, req. split; [reflexivity|].
  rewrite app_length in Hlen. cbn [length] in Hlen.
  assert (Hnth : forall k o, nth_error (pre ++ [PyBlk n req]) k = Some o ->
                   exists c, nth_error sizes k = Some c /\ cmp_op_size o = Z.of_nat c).
  { intros k o Hk. pose proof (map_nth_error cmp_op_size k _ Hk) as H1. rewrite Hsz in H1.
    rewrite nth_error_map in H1. destruct (nth_error sizes k) as [c|]; [|discriminate H1]. injection H1 as H1. exists c. split; [reflexivity|lia]. }
  split; [|split].
  - apply Forall_forall. intros o Hin. apply In_nth_error in Hin. destruct Hin as (k & Hk).
    assert (Hklt : (k < length pre)%nat) by (apply nth_error_Some; congruence).
    destruct (Hnth k o ltac:(rewrite nth_error_app1 by exact Hklt; exact Hk)) as (c & Hc & Hsize).
    destruct (Hsh k c Hc) as (_ & Hfull). specialize (Hfull ltac:(lia)).
    rewrite Forall_forall in Hpre. pose proof (Hpre o (nth_error_In _ _ Hk)) as Hb. destruct o as [m r|kk]; [|destruct Hb].
    cbn [cmp_op_size] in Hsize. lia.
  - destruct (Hnth (length pre) (PyBlk n req) ltac:(rewrite nth_error_app2 by lia; rewrite Nat.sub_diag; reflexivity)) as (c & Hc & Hsize).
    destruct (Hsh _ c Hc) as (Hrange & _). cbn [cmp_op_size] in Hsize. lia.
  - lia.
Qed.

(* the specification-level view py_blocks of a list of blocks: sizes, total *)
Lemma cmp_py_blocks_sizes : forall plan started, Forall cmp_is_blk plan ->
  map fst (py_blocks_from started plan) = map cmp_op_size plan.
Proof.
  induction plan as [|o plan IH]; intros started H; [reflexivity|]. inversion H as [|? ? Ho Hr]; subst.
  destruct o as [n req|k]; [|destruct Ho]. cbn [py_blocks_from map fst cmp_op_size]. f_equal. apply IH. exact Hr.
Qed.

Lemma cmp_py_total_sum : forall blks, py_total blks = fold_right Z.add 0%Z (map fst blks).
Proof. induction blks as [|b blks IH]; [reflexivity|]. unfold py_total in *. cbn [fold_right map]. rewrite IH. reflexivity. Qed.

Lemma cmp_sum_lengths : forall (bl : list (list N)),
  fold_right Z.add 0%Z (map (fun b => Z.of_nat (length b)) bl) = Z.of_nat (length (concat bl)).
Proof. induction bl as [|b bl IH]; [reflexivity|]. cbn [map fold_right concat]. rewrite app_length, IH. lia. Qed.

(* requests of omission in the plan: for <= 8-bit types only blocks that are a whole number of summary entries *)
Lemma cmp_plan_small_req : forall sdf s reg,
  Forall (fun o => match o with PyBlk n req => req = true -> (n mod sdf = 0)%Z | PySkip _ => True end) (py_plan true sdf reg s).
Proof.
  intros sdf s. induction s as [|o s IH]; intros reg; [constructor|]. destruct o as [en|n c|k]; cbn [py_plan].
  - apply IH.
  - destruct (n =? 0)%Z; [apply IH|]. constructor; [|apply IH]. intro Hreq. apply andb_true_iff in Hreq. destruct Hreq as (_ & Hm).
    apply Z.eqb_eq in Hm. exact Hm.
  - constructor; [exact I|apply IH].
Qed.

(* no omission requested (every jls_wr_fsr_omit_data call disables) and a type wider than 8 bits: no request at all *)
Definition cmp_no_omit (ops : list rf_op) : Prop := Forall (fun o => match o with RfOmit en => en = 0 | RfData _ _ => True end) ops.

Lemma cmp_script_no_omit : forall d ops s, cmp_no_omit ops ->
  Forall (fun o => match o with PsOmit en => en = false | _ => True end) (rf_script d s ops).
Proof.
  intros d ops. induction ops as [|o ops IH]; intros s H.
  - cbn [rf_script]. destruct (bs_alloc s); repeat constructor.
  - inversion H as [|? ? Ho Hr]; subst. destruct o as [sid samples|en]; cbn [rf_script].
    + destruct (rf_bs_data d s sid samples) as [s1 bl]. apply Forall_app. split; [|apply IH; exact Hr].
      apply Forall_forall. intros x Hx. apply in_map_iff in Hx. destruct Hx as (b & <- & _). exact I.
    + subst en. constructor; [reflexivity|apply IH; exact Hr].
Qed.

Lemma cmp_plan_big_noreq : forall sdf s,
  Forall (fun o => match o with PsOmit en => en = false | _ => True end) s ->
  Forall (fun o => match o with PyBlk n req => req = false | PySkip _ => True end) (py_plan false sdf 0 s).
Proof.
  intros sdf s H. induction H as [|o s Ho Hs IH]; [constructor|]. destruct o as [en|n c|k]; cbn [py_plan].
  - subst en. exact IH.
  - destruct (n =? 0)%Z; [exact IH|]. constructor; [reflexivity|exact IH].
  - constructor; [exact I|exact IH].
Qed.

Lemma cmp_py_blocks_noreq : forall plan started,
  Forall (fun o => match o with PyBlk n req => req = false | PySkip _ => True end) plan ->
  Forall (fun b => snd b = false) (py_blocks_from started plan).
Proof.
  induction plan as [|o plan IH]; intros started H; [constructor|]. inversion H as [|? ? Ho Hr]; subst.
  destruct o as [n req|k]; cbn [py_blocks_from]; [|apply IH; exact Hr]. subst req. constructor; [reflexivity|apply IH; exact Hr].
Qed.

(* ================================================================ the chunk view of a log: offsets are not 0 *)
Lemma cmp_scan_off_nz : forall log,
  Forall (fun c => rc_off c <> 0) (rp_out (rf_scan log)) /\
  (forall o tag meta, rp_pend (rf_scan log) = Some (o, tag, meta) -> o <> 0).
Proof.
  induction log as [|e log IH]; [split; [constructor|intros o tag meta H; discriminate H]|].
  destruct IH as (IH1 & IH2). rewrite rf_scan_cons. set (s := rf_scan log) in *. unfold rf_step.
  destruct e as [off b|n|]; cbn [rp_out rp_pend].
  - destruct (rp_pend s) as [[[o tag] meta]|] eqn:Ep.
    + destruct (off =? o + 32); cbn [rp_out rp_pend]; (split; [|intros ? ? ? H; discriminate H]); [|exact IH1].
      constructor; [cbn [rc_off]; eapply IH2; reflexivity|exact IH1].
    + destruct ((off =? rp_end s) && negb (off =? 0) && (rf_len b =? 32)) eqn:Ec; cbn [rp_out rp_pend]; [|split; [exact IH1|intros ? ? ? H; discriminate H]].
      apply andb_true_iff in Ec. destruct Ec as (Ec & _). apply andb_true_iff in Ec. destruct Ec as (_ & Ec).
      apply negb_true_iff in Ec. apply N.eqb_neq in Ec.
      destruct (fm_payload_length (fm_ch_fields b) =? 0); cbn [rp_out rp_pend].
      * split; [constructor; [exact Ec|exact IH1]|intros ? ? ? H; discriminate H].
      * split; [exact IH1|]. intros o tag meta H. injection H as <- _ _. exact Ec.
  - split; [exact IH1|intros ? ? ? H; discriminate H].
  - split; [exact IH1|exact IH2].
Qed.

Lemma cmp_chunks_off_nz : forall log c, In c (rf_chunks log) -> rc_off c <> 0.
Proof.
  intros log c H. unfold rf_chunks in H. apply in_rev in H.
  pose proof (proj1 (cmp_scan_off_nz log)) as HF. rewrite Forall_forall in HF. exact (HF c H).
Qed.

(* ================================================================ one block: the reader's copy loop and Spec.rd_window *)
Lemma cmp_rd_one_block : forall w ts (blk : list N) start len,
  0 < w -> (0 <= start)%Z -> (0 < len)%Z -> (start + len <= Z.of_nat (length blk))%Z ->
  fp_rd_blocks w ts [(ts, N.of_nat (length blk), pack w blk)] start len (repeat 0 (N.to_nat ((Z.to_N len * w + 7) / 8))) =
  RD_ok (pack w (firstn (Z.to_nat len) (skipn (Z.to_nat start) blk))).
Proof.
  intros w ts blk start len Hw Hs Hl Hb.
  destruct (pack_spec w blk) as (pad & Hpad & Hbits & Hok).
  destruct (rd_blocks_spec_lemma w (N.of_nat (length blk)) ts [(ts, N.of_nat (length blk), pack w blk)] blk start len
              (repeat 0 (N.to_nat ((Z.to_N len * w + 7) / 8))) Hw ltac:(lia)) as (out & Hrd & _ & _ & _ & Hout).
  - intros k ts' cnt p Hk. destruct k as [|k]; [|destruct k; discriminate Hk]. injection Hk as <- <- <-.
    split; [lia|]. split; [lia|]. split; [cbn [length]; lia|]. split; [apply pack_length|exact Hok].
  - cbn [flat_map]. rewrite app_nil_r, Hbits. fold (sbits w blk).
    replace (N.to_nat (N.of_nat (length blk) * w)) with (length (sbits w blk) + 0)%nat by (rewrite sbits_length; lia).
    rewrite firstn_app_2. cbn [firstn]. apply app_nil_r.
  - exact Hs.
  - exact Hl.
  - exact Hb.
  - rewrite repeat_length. pose proof (N.div_mod (Z.to_N len * w + 7) 8 ltac:(discriminate)) as Hdm.
    pose proof (N.mod_lt (Z.to_N len * w + 7) 8 ltac:(discriminate)). lia.
  - rewrite Hrd. f_equal. apply Hout. reflexivity.
Qed.

Lemma cmp_block_window : forall spd (BLKS : list (list N)) i blk off len,
  rb_shape spd BLKS -> nth_error BLKS i = Some blk -> (off + len <= length blk)%nat ->
  firstn len (skipn (i * spd + off) (concat BLKS)) = firstn len (skipn off blk) /\
  (i * spd + length blk <= length (concat BLKS))%nat.
Proof.
  intros spd BLKS i blk off len Hsh Hi Hb.
  destruct (cmp_nth_error_split3 _ BLKS i blk Hi) as (E & Hl).
  assert (Hfull : Forall (fun x : list N => length x = spd) (firstn i BLKS)).
  { apply Forall_forall. intros x Hx. apply In_nth_error in Hx. destruct Hx as (k & Hk).
    assert (Hklt : (k < i)%nat) by (rewrite <- Hl; apply nth_error_Some; congruence).
    assert (Hk' : nth_error BLKS k = Some x).
    { rewrite E, nth_error_app1 by (rewrite Hl; exact Hklt). exact Hk. }
    destruct (Hsh k x Hk') as (_ & Hf). apply Hf.
    assert (i < length BLKS)%nat by (apply nth_error_Some; congruence). lia. }
  split.
  - rewrite E at 1. rewrite <- Hl at 1. apply cmp_concat_window; assumption.
  - rewrite E, concat_app, app_length, (cmp_concat_len _ spd _ Hfull), Hl. cbn [concat]. rewrite app_length. lia.
Qed.

Lemma cmp_data_payload_skip : forall ts n w (blk : list N), (w < 8 \/ w mod 8 = 0) ->
  skipn 16 (wm_fsr_data_payload ts n w (wm_pack w blk)) = pack w blk.
Proof.
  intros ts n w blk Hw. unfold wm_fsr_data_payload. rewrite skipn_app, rf_payload_header_len, Nat.sub_diag.
  rewrite skipn_all2 by (rewrite rf_payload_header_len; lia). cbn [skipn app]. apply rb_pack_eq. exact Hw.
Qed.

(* chunk_meta: the level field *)
Lemma cmp_meta_level : forall s L, s < 4096 -> L < 16 -> N.shiftr (wm_meta s L) 12 = L.
Proof.
  intros s L Hs HL. unfold wm_meta.
  replace s with (N.land s 4095) at 1 by (change 4095 with (N.ones 12); rewrite N.land_ones; apply N.mod_small; exact Hs).
  rewrite JLS.RefineDefs.rd_ud_meta.
  replace (N.land s 4095) with s by (change 4095 with (N.ones 12); rewrite N.land_ones; symmetry; apply N.mod_small; exact Hs).
  rewrite N.mod_small by lia. rewrite N.shiftr_div_pow2. change (2 ^ 12) with 4096.
  replace (s + 4096 * L) with (s + L * 4096) by lia. rewrite N.div_add by discriminate. rewrite N.div_small by exact Hs. reflexivity.
Qed.

(* ================================================================ the chain: log chunks <-> abstract disk <-> reader *)
Section CMP_CHAIN.
Variable d : sigdef.
Variable pos0 t0 : Z.
Variable cs : list rf_chunk.
Variable BLKS : list (list N).
Variable stf : py_wr.
Variables (pre : list py_op) (n : Z) (req : bool).

Let pd := rf_pd d.
Let w := dt_bits (sg_dtype d).
Let sid := sg_id d.
Let disk := pw_disk stf.
Let heads := pw_heads stf.
Let plan := pre ++ [PyBlk n req].
Let offs := map rc_off cs.

Hypothesis Hcons : py_consistent pd.
Hypothesis Hpos0 : (0 < pos0)%Z.
Hypothesis Hpre : Forall (fun o => match o with PyBlk m _ => m = py_spd pd | PySkip k => (0 <= k)%Z end) pre.
Hypothesis Hn : (1 <= n <= py_spd pd)%Z.
Hypothesis Hrun : py_run pd t0 pos0 plan = PyOk stf.
Hypothesis HF2 : Forall2 (rf_chunk_rel d pos0 t0 offs BLKS) cs disk.
Hypothesis Hnz : Forall (fun c => rc_off c <> 0) cs.
Hypothesis Hsid4096 : sg_id d < 4096.

Let Hpost : Forall (fun o => match o with PyBlk _ _ => False | PySkip k => (0 <= k)%Z end) (@nil py_op) := Forall_nil _.

Lemma cmp_offs_nz : Forall (fun o => o <> 0) offs.
Proof. subst offs. apply Forall_forall. intros o Ho. apply in_map_iff in Ho. destruct Ho as (c & <- & Hc). rewrite Forall_forall in Hnz. exact (Hnz c Hc). Qed.

Lemma cmp_tags_ne : JLS_TAG_TRACK_FSR_DATA <> JLS_TAG_TRACK_FSR_INDEX /\ JLS_TAG_TRACK_FSR_SUMMARY <> JLS_TAG_TRACK_FSR_INDEX /\
                    JLS_TAG_TRACK_FSR_DATA <> JLS_TAG_TRACK_FSR_SUMMARY.
Proof. repeat split; discriminate. Qed.

(* a chunk of the abstract disk has its chunk in the log *)
Lemma cmp_log_chunk_of : forall pc, In pc disk -> exists c, In c cs /\ rf_chunk_rel d pos0 t0 offs BLKS c pc.
Proof. intros pc Hpc. exact (cmp_Forall2_in_r _ _ _ _ _ pc HF2 Hpc). Qed.

(* ---- INDEX chunks of the log: every entry is 0 (omitted block, level 1 only) or the offset of a chunk of the log
        with the expected tag, signal, level - 1 and payload-header timestamp ---- *)
Lemma cmp_index_targets_core : forall c, In c cs -> rc_tag c = JLS_TAG_TRACK_FSR_INDEX ->
  exists L ts ents, (1 <= L <= 14)%nat /\ rc_meta c = wm_meta sid (N.of_nat L) /\
    rc_pay c = wm_fsr_index_payload ts (N.of_nat (length ents)) ents /\ ents <> [] /\
    (Z.of_nat (length ents) <= py_cap pd L)%Z /\
    forall k o, nth_error ents k = Some o ->
      (o = 0 -> L = 1%nat) /\
      (o <> 0 -> exists c', In c' cs /\ rc_off c' = o /\
         match L with
         | 1%nat => rc_tag c' = JLS_TAG_TRACK_FSR_DATA /\ rc_meta c' = wm_meta sid 0 /\
                    exists blk, In blk BLKS /\
                      rc_pay c' = wm_fsr_data_payload (ts + Z.of_nat k * py_spd pd) (N.of_nat (length blk)) w (wm_pack w blk)
         | _ => rc_tag c' = JLS_TAG_TRACK_FSR_INDEX /\ rc_meta c' = wm_meta sid (N.of_nat (pred L)) /\
                exists ents', rc_pay c' = wm_fsr_index_payload (ts + Z.of_nat k * py_step pd L) (N.of_nat (length ents')) ents'
         end).
Proof.
  intros c Hc Htag.
  destruct (cmp_Forall2_in_l _ _ _ _ _ c HF2 Hc) as (pc & Hpc & (Hoff & Hval & Hk)).
  destruct cmp_tags_ne as (T1 & T2 & T3).
  destruct (pc_kind pc) as [|L|L] eqn:Ek; [destruct Hk as (Ht & _); congruence| |destruct Hk as (Ht & _); congruence].
  destruct Hk as (_ & Hmeta & Hpay & Hvalid).
  pose proof (pyr_pyramid_inv pd t0 pos0 pre n req [] stf Hcons Hpos0 Hpre Hpost Hn Hrun) as Hinv. cbv beta zeta in Hinv.
  destruct Hinv as (Ha & _ & (T & top & HT & _ & _ & _ & Habove & _)).
  pose (idx := fun L => filter (fun c => py_kind_eqb (pc_kind c) (PyIndex L)) (pw_disk stf)).
  assert (Hin : In pc (idx L)).
  { apply filter_In. split; [exact Hpc|]. rewrite Ek. apply py_kind_eqb_refl. }
  destruct (In_nth_error _ _ Hin) as (j & Hj).
  destruct (Ha L j pc Hj) as (HL1 & Hts & Hcnt & Hrange & _ & Hent).
  assert (HLT : (L <= T)%nat).
  { destruct (Nat.le_gt_cases L T) as [|Hgt]; [assumption|]. destruct (Habove L Hgt) as (E & _). unfold idx in Hin. rewrite E in Hin. destruct Hin. }
  exists L, (pc_ts pc), (map (rf_psi offs pos0) (pc_entries pc)).
  split; [lia|]. split; [exact Hmeta|].
  split. { rewrite Hpay, map_length. replace (Z.to_N (pc_count pc)) with (N.of_nat (length (pc_entries pc))) by lia. reflexivity. }
  split. { destruct (pc_entries pc); [cbn in Hcnt; lia|discriminate]. }
  split; [rewrite map_length; lia|].
  intros k o Ho. rewrite nth_error_map in Ho. destruct (nth_error (pc_entries pc) k) as [oa|] eqn:Eoa; [|discriminate Ho].
  injection Ho as <-.
  assert (Hva : rf_pvalid (length offs) pos0 oa) by (rewrite Forall_forall in Hvalid; apply Hvalid; eapply nth_error_In; eauto).
  pose proof (rf_psi_zero offs pos0 oa cmp_offs_nz Hva) as Hz.
  specialize (Hent k oa Eoa).
  split.
  - intro E0. apply Hz in E0. subst oa. destruct L as [|[|L']]; [lia|reflexivity|].
    destruct Hent as (t & Ht & Hto & _). apply nth_error_In in Ht. apply filter_In in Ht. destruct Ht as (Ht & _).
    destruct (cmp_log_chunk_of t Ht) as (c'' & Hc'' & (Hoff'' & _)). rewrite Hto in Hoff''. unfold rf_psi in Hoff''. cbn in Hoff''.
    rewrite Forall_forall in Hnz. exfalso. exact (Hnz c'' Hc'' Hoff'').
  - intro Hne. assert (Hoane : oa <> 0%Z) by (intro E; apply Hne; apply Hz; exact E).
    destruct L as [|[|L']]; [lia| |].
    + destruct Hent as (m & om & _ & Hom). destruct om; [congruence|].
      destruct Hom as (t & Ht & Hto & Htk & Htts & Htc).
      destruct (cmp_log_chunk_of t Ht) as (c' & Hc' & (Hoff' & _ & Hk')). rewrite Htk in Hk'.
      destruct Hk' as (Htag' & Hmeta' & blk & Hblk & Hlen & Hpay').
      exists c'. split; [exact Hc'|]. split; [rewrite Hoff', Hto; reflexivity|].
      split; [exact Htag'|]. split; [exact Hmeta'|]. exists blk. split; [eapply nth_error_In; exact Hblk|].
      rewrite Hpay', Htts, py_step_1. replace (Z.to_N (pc_count t)) with (N.of_nat (length blk)) by lia. reflexivity.
    + destruct Hent as (t & Ht & Hto & Htts). apply nth_error_In in Ht. apply filter_In in Ht. destruct Ht as (Ht & Htk).
      apply py_kind_eqb_eq in Htk. cbn [pred] in Htk.
      destruct (cmp_log_chunk_of t Ht) as (c' & Hc' & (Hoff' & _ & Hk')). rewrite Htk in Hk'.
      destruct Hk' as (Htag' & Hmeta' & Hpay' & _).
      exists c'. split; [exact Hc'|]. split; [rewrite Hoff', Hto; reflexivity|].
      split; [exact Htag'|]. split; [exact Hmeta'|].
      exists (map (rf_psi offs pos0) (pc_entries t)). rewrite Hpay', Htts, map_length. f_equal.
      assert (Hint : In t (idx (S L'))) by (apply filter_In; split; [exact Ht|rewrite Htk; apply py_kind_eqb_refl]).
      destruct (In_nth_error _ _ Hint) as (j' & Hj'). destruct (Ha _ j' t Hj') as (_ & _ & Hcnt' & _).
      lia.
Qed.

(* ---- the head table of PyramidModel: there is a top level T; head[L] = 0 above it and no INDEX chunk of such a level is
        in the log; for 1 <= L <= T head[L] denotes the FIRST INDEX chunk of level L of the log, whose payload timestamp
        is the first sample id; head[0] denotes the DATA chunk of block 0 ---- *)
Lemma cmp_heads_core :
  exists T, (1 <= T <= 14)%nat /\
    (forall L, (T < L)%nat -> py_head_get stf L = 0%Z /\
       ((L < 16)%nat -> forall c, In c cs -> rc_tag c = JLS_TAG_TRACK_FSR_INDEX -> rc_meta c <> wm_meta sid (N.of_nat L))) /\
    (forall L, (1 <= L <= T)%nat ->
       exists j c ents, nth_error cs j = Some c /\ rc_off c = rf_psi offs pos0 (py_head_get stf L) /\
         rc_tag c = JLS_TAG_TRACK_FSR_INDEX /\ rc_meta c = wm_meta sid (N.of_nat L) /\
         rc_pay c = wm_fsr_index_payload t0 (N.of_nat (length ents)) ents /\
         forall j' c', (j' < j)%nat -> nth_error cs j' = Some c' ->
           ~ (rc_tag c' = JLS_TAG_TRACK_FSR_INDEX /\ rc_meta c' = wm_meta sid (N.of_nat L))) /\
    (exists c blk, In c cs /\ rc_off c = rf_psi offs pos0 (py_head_get stf 0) /\ rc_tag c = JLS_TAG_TRACK_FSR_DATA /\
       rc_meta c = wm_meta sid 0 /\ nth_error BLKS 0 = Some blk /\
       rc_pay c = wm_fsr_data_payload t0 (N.of_nat (length blk)) w (wm_pack w blk)).
Proof.
  pose proof (pyr_pyramid_inv pd t0 pos0 pre n req [] stf Hcons Hpos0 Hpre Hpost Hn Hrun) as Hinv. cbv beta zeta in Hinv.
  destruct Hinv as (Ha & _ & (T & top & HT & _ & _ & _ & Habove & Hfirst & _)).
  destruct cmp_tags_ne as (T1 & T2 & T3).
  pose (idx := fun L => filter (fun c => py_kind_eqb (pc_kind c) (PyIndex L)) (pw_disk stf)).
  assert (Hlev : forall pc L, In pc disk -> pc_kind pc = PyIndex L -> (1 <= L <= T)%nat).
  { intros pc L Hpc Ek. assert (Hin : In pc (idx L)) by (apply filter_In; split; [exact Hpc|rewrite Ek; apply py_kind_eqb_refl]).
    destruct (In_nth_error _ _ Hin) as (j & Hj). destruct (Ha L j pc Hj) as (HL1 & _). split; [exact HL1|].
    destruct (Nat.le_gt_cases L T) as [|Hgt]; [assumption|]. destruct (Habove L Hgt) as (E & _). unfold idx in Hin. rewrite E in Hin. destruct Hin. }
  assert (Hmeta_inj : forall L1 L2, (L1 < 16)%nat -> (L2 < 16)%nat -> wm_meta sid (N.of_nat L1) = wm_meta sid (N.of_nat L2) -> L1 = L2).
  { intros L1 L2 H1 H2 E. apply (f_equal (fun m => N.shiftr m 12)) in E.
    rewrite !cmp_meta_level in E by (try exact Hsid4096; lia). lia. }
  exists T. split; [exact HT|]. split; [|split].
  - intros L HL. destruct (Habove L HL) as (E & Hh). split; [exact Hh|].
    intros HL16 c Hc Htag Hmeta. destruct (cmp_Forall2_in_l _ _ _ _ _ c HF2 Hc) as (pc & Hpc & (_ & _ & Hk)).
    destruct (pc_kind pc) as [|L'|L'] eqn:Ek; [destruct Hk as (Ht & _); congruence| |destruct Hk as (Ht & _); congruence].
    destruct Hk as (_ & Hm & _). pose proof (Hlev pc L' Hpc Ek) as HL'.
    rewrite Hm in Hmeta. apply Hmeta_inj in Hmeta; lia.
  - intros L HL. destruct (Hfirst L HL) as (f & Hf & Hh).
    assert (Hpos : exists j, nth_error disk j = Some f /\ forall j' x, (j' < j)%nat -> nth_error disk j' = Some x -> pc_kind x <> PyIndex L).
    { clear - Hf. subst disk. revert Hf. generalize (pw_disk stf). induction l as [|a l IH]; intros Hf; [discriminate Hf|].
      cbn [filter] in Hf. destruct (py_kind_eqb (pc_kind a) (PyIndex L)) eqn:Ea.
      - injection Hf as <-. exists 0%nat. split; [reflexivity|]. intros j' x Hj'. lia.
      - destruct (IH Hf) as (j & Hj & Hbefore). exists (S j). split; [exact Hj|]. intros j' x Hj' Hx.
        destruct j' as [|j']; [injection Hx as <-; intro E; rewrite E, py_kind_eqb_refl in Ea; discriminate Ea|].
        apply (Hbefore j' x); [lia|exact Hx]. }
    destruct Hpos as (j & Hj & Hbefore).
    destruct (cmp_Forall2_nth _ _ _ _ _ j f HF2 Hj) as (c & Hc & (Hoff & _ & Hk)).
    assert (Hfk : pc_kind f = PyIndex L).
    { apply nth_error_In in Hf. apply filter_In in Hf. destruct Hf as (_ & Hf). apply py_kind_eqb_eq in Hf. exact Hf. }
    rewrite Hfk in Hk. destruct Hk as (Htag & Hmeta & Hpay & _).
    destruct (Ha L 0%nat f Hf) as (_ & Hts & Hcnt & _).
    exists j, c, (map (rf_psi offs pos0) (pc_entries f)).
    split; [exact Hc|]. split; [unfold py_head_get; rewrite Hoff, Hh; reflexivity|]. split; [exact Htag|]. split; [exact Hmeta|].
    split. { rewrite Hpay, map_length. replace (Z.to_N (pc_count f)) with (N.of_nat (length (pc_entries f))) by lia.
             replace (pc_ts f) with t0 by lia. reflexivity. }
    intros j' c' Hj' Hc' (Htag' & Hmeta').
    assert (Hlen : length cs = length disk) by (eapply cmp_Forall2_length; exact HF2).
    destruct (nth_error disk j') as [pc'|] eqn:Epc'.
    2:{ apply nth_error_None in Epc'. assert (j < length disk)%nat by (apply nth_error_Some; congruence). lia. }
    destruct (cmp_Forall2_nth _ _ _ _ _ j' pc' HF2 Epc') as (c'' & Hc'' & (_ & _ & Hk')). rewrite Hc' in Hc''. injection Hc'' as <-.
    specialize (Hbefore j' pc' Hj' Epc').
    destruct (pc_kind pc') as [|L'|L'] eqn:Ek'; [destruct Hk' as (Ht & _); congruence| |destruct Hk' as (Ht & _); congruence].
    destruct Hk' as (_ & Hm' & _). rewrite Hm' in Hmeta'.
    pose proof (Hlev pc' L' (nth_error_In _ _ Epc') Ek') as HL'.
    apply Hmeta_inj in Hmeta'; [|lia|lia]. subst L'. apply Hbefore. reflexivity.
  - destruct (run_Fin pd t0 pos0 pre n req [] stf Hcons Hpos0 Hpre Hpost Hn Hrun) as (T' & (_ & (D1 & D2 & _) & _)).
    destruct (Hfirst 1%nat ltac:(lia)) as (f & Hf & _).
    destruct (Ha 1%nat 0%nat f Hf) as (_ & Hts & Hcnt & Hrange & _ & Hent).
    destruct (pc_entries f) as [|e0 er] eqn:Ee; [cbn in Hcnt; lia|].
    destruct (Hent 0%nat e0 eq_refl) as (m & om & Hb0 & Hom). cbn [Nat.mul Nat.add] in Hb0.
    rewrite (D1 m om Hb0) in Hom. destruct Hom as (t & Ht & Hto & Htk & Htts & Htc).
    assert (Hh0 : py_head_get stf 0 = e0).
    { rewrite D2. unfold ents, idxs. fold disk.
      change (filter (fun c => py_kind_eqb (pc_kind c) (PyIndex 1)) disk) with (idx 1%nat).
      unfold idx. cbv beta.
      destruct (filter (fun c : py_chunk => py_kind_eqb (pc_kind c) (PyIndex 1)) (pw_disk stf)) as [|f' r] eqn:Ei; [discriminate Hf|].
      cbn [nth_error] in Hf. injection Hf as ->. cbn [map concat]. rewrite Ee. reflexivity. }
    destruct (cmp_log_chunk_of t Ht) as (c & Hc & (Hoff & _ & Hk)). rewrite Htk in Hk. destruct Hk as (Htag & Hmeta & blk & Hblk & Hlen & Hpay).
    exists c, blk. split; [exact Hc|]. split; [rewrite Hoff, Hto, Hh0; reflexivity|]. split; [exact Htag|]. split; [exact Hmeta|].
    assert (Etts : pc_ts t = t0) by lia.
    split. { rewrite Etts, Z.sub_diag in Hblk. cbn in Hblk. exact Hblk. }
    rewrite Hpay, Etts. replace (Z.to_N (pc_count t)) with (N.of_nat (length blk)) by lia. reflexivity.
Qed.

(* ---- every INDEX chunk is followed, in the list cs, by the SUMMARY chunk of its level with the same payload timestamp ---- *)
Lemma cmp_adjacent_core : forall i c, nth_error cs i = Some c -> rc_tag c = JLS_TAG_TRACK_FSR_INDEX ->
  exists s ts ni ents ns entries, nth_error cs (S i) = Some s /\
    rc_tag s = JLS_TAG_TRACK_FSR_SUMMARY /\ rc_meta s = rc_meta c /\
    rc_pay c = wm_fsr_index_payload ts ni ents /\
    rc_pay s = wm_fsr_summary_payload (sg_dtype d) ts ns entries.
Proof.
  intros i c Hi Htag.
  assert (Hlen : length cs = length disk) by (eapply cmp_Forall2_length; exact HF2).
  destruct (nth_error disk i) as [pc|] eqn:Epc.
  2:{ apply nth_error_None in Epc. assert (i < length cs)%nat by (apply nth_error_Some; congruence). lia. }
  destruct (cmp_Forall2_nth _ _ _ _ _ i pc HF2 Epc) as (c0 & Hc0 & (_ & _ & Hk)). rewrite Hi in Hc0. injection Hc0 as <-.
  destruct cmp_tags_ne as (T1 & T2 & T3).
  destruct (pc_kind pc) as [|L|L] eqn:Ek; [destruct Hk as (Ht & _); congruence| |destruct Hk as (Ht & _); congruence].
  destruct Hk as (_ & Hmeta & Hpay & _).
  pose proof (pyr_pyramid_inv pd t0 pos0 pre n req [] stf Hcons Hpos0 Hpre Hpost Hn Hrun) as Hinv. cbv beta zeta in Hinv.
  destruct Hinv as (_ & Hb & _). destruct (Hb i pc L Epc Ek) as (ps & Hps & Hks & Htss).
  destruct (cmp_Forall2_nth _ _ _ _ _ (S i) ps HF2 Hps) as (s & Hs & (_ & _ & Hk')). rewrite Hks in Hk'.
  destruct Hk' as (Htag' & Hmeta' & entries & _ & Hpay').
  exists s, (pc_ts pc), (Z.to_N (pc_count pc)), (map (rf_psi offs pos0) (pc_entries pc)), (Z.to_N (pc_count ps)), entries.
  split; [exact Hs|]. split; [exact Htag'|]. split; [rewrite Hmeta, Hmeta'; reflexivity|]. split; [exact Hpay|].
  rewrite Hpay', Htss. reflexivity.
Qed.

(* ---- the reader: seek to level 1, then the block ---- *)
Lemma cmp_seek_core : forall sig cache starts x,
  (0 <= sig < 256)%Z -> (cc_meta cache <> 4096 + sig \/ cc_off cache = 0)%Z ->
  (0 <= x < py_total (py_blocks plan))%Z ->
  let i := Z.to_nat (x / py_spd pd) in
  let r := fst (py_rd_data0 pd disk heads sig (py_reads pd disk heads sig cache starts) (t0 + x)) in
  (exists c1 ci, py_fsr_seek pd disk heads 1 (t0 + x) = PyOk (pc_off c1) /\ In c1 disk /\ pc_kind c1 = PyIndex 1 /\
     (pc_ts c1 <= t0 + x < pc_ts c1 + pc_count c1 * py_spd pd)%Z /\
     In ci cs /\ rc_off ci = rf_psi offs pos0 (pc_off c1) /\ rc_tag ci = JLS_TAG_TRACK_FSR_INDEX /\ rc_meta ci = wm_meta sid 1 /\
     rc_pay ci = wm_fsr_index_payload (pc_ts c1) (Z.to_N (pc_count c1)) (map (rf_psi offs pos0) (pc_entries c1))) /\
  exists m om, nth_error (py_blocks plan) i = Some (m, om) /\ (0 <= x - Z.of_nat i * py_spd pd < m)%Z /\
    if (om : bool) then r = PyOk (PyOmitted (t0 + Z.of_nat i * py_spd pd) (py_sdf pd * (m / py_sdf pd)))
    else exists cd c blk, r = PyOk (PyStored cd) /\ In cd disk /\ pc_kind cd = PyData /\
           pc_ts cd = (t0 + Z.of_nat i * py_spd pd)%Z /\ pc_count cd = m /\
           In c cs /\ rc_off c = rf_psi offs pos0 (pc_off cd) /\ rc_tag c = JLS_TAG_TRACK_FSR_DATA /\ rc_meta c = wm_meta sid 0 /\
           nth_error BLKS i = Some blk /\ Z.of_nat (length blk) = m /\
           rc_pay c = wm_fsr_data_payload (pc_ts cd) (N.of_nat (length blk)) w (wm_pack w blk).
Proof.
  intros sig cache starts x Hsig Hcache Hx i r.
  destruct (pyr_seek_correct pd t0 pos0 pre n req [] stf sig cache starts x Hcons Hpos0 Hpre Hpost Hn Hrun Hsig Hcache Hx)
    as ((c1 & Hseek & Hc1 & Hk1 & Hr1) & (m & om & Hblk & Hoff & Hres)).
  split.
  - destruct (cmp_log_chunk_of c1 Hc1) as (ci & Hci & (Ho & _ & Hk)). rewrite Hk1 in Hk. destruct Hk as (Ht & Hm & Hp & _).
    exists c1, ci. repeat (split; [assumption|]). exact Hp.
  - exists m, om. split; [exact Hblk|]. split; [exact Hoff|]. fold i in Hres. fold r in Hres.
    destruct om; [exact Hres|].
    destruct Hres as (cd & Hr & Hcd & Hkd & Htsd & Hcnt).
    destruct (cmp_log_chunk_of cd Hcd) as (c & Hc & (Ho & _ & Hk)). rewrite Hkd in Hk.
    destruct Hk as (Ht & Hm & blk & Hnth & Hlen & Hp).
    exists cd, c, blk. repeat (split; [assumption|]).
    assert (Hspd : (0 < py_spd pd)%Z) by (destruct Hcons as (_ & H & _); exact H).
    split. { rewrite Htsd in Hnth. replace (t0 + Z.of_nat i * py_spd pd - t0)%Z with (Z.of_nat i * py_spd pd)%Z in Hnth by lia.
             rewrite Z.div_mul, Nat2Z.id in Hnth by lia. exact Hnth. }
    split; [lia|]. rewrite Hp. replace (Z.to_N (pc_count cd)) with (N.of_nat (length blk)) by lia. reflexivity.
Qed.

End CMP_CHAIN.
