(* C10, part 3: the fixed-sample-rate track (WmFsr.v) never faults.

   Structural invariant of the FSR writer state (sf_fsr_ok): 16 level slots, explicit counts = list lengths,
   the block holds count = length buf < samples_per_data samples.
   Quantitative invariant: weight  Wf = count + sum_{L>=1} nsum_L * sdf * sumdf^(L-1)  ("samples represented by
   what is still pending").  Accepting n samples adds n; flushing a block or a summary level never increases
   it.  The faults of this layer (self->level[16]; wr_summary(15)) need a summary entry at level 15, i.e.
   Wf >= sdf * sumdf^14 (sf_lim).
   Every top-level name starts with sf_. *)
From Coq Require Import NArith ZArith List Bool Lia Arith.
From Coq Require Import ZifyBool ZifyN ZifyNat.
From JLS Require Import Generated CrcDefs Spec Format FormatProofs WmRaw WmCore WmFsr WmProofs SafeProofs SafeProofs2.
Import ListNotations.
Local Open Scope N_scope.
Ltac Zify.zify_post_hook ::= Z.div_mod_to_equations.

Local Opaque crc32c.

(* ================================================================ packing: payload lengths *)
Lemma sf_pack_sub_length : forall w l acc nbits, w < 8 -> nbits < 8 ->
  N.of_nat (length (wm_pack_sub w l acc nbits)) = (nbits + w * N.of_nat (length l) + 7) / 8.
Proof.
  intros w l. induction l as [|s r IH]; intros acc nbits Hw Hn.
  - cbn [wm_pack_sub length]. destruct (nbits =? 0) eqn:E.
    + apply N.eqb_eq in E. subst. cbn [length]. lia.
    + apply N.eqb_neq in E. cbn [length]. lia.
  - cbn [wm_pack_sub]. destruct (8 <=? nbits + w) eqn:E.
    + apply N.leb_le in E. cbn [length]. rewrite Nat2N.inj_succ, IH by lia. cbn [length]. lia.
    + apply N.leb_gt in E. rewrite IH by lia. cbn [length]. lia.
Qed.

Lemma sf_flat_map_enc_length : forall k l, length (flat_map (fm_enc k) l) = (k * length l)%nat.
Proof.
  intros k l. induction l as [|x l IH]; [cbn; lia|]. cbn [flat_map]. rewrite app_length, IH, fm_enc_length. cbn [length]. lia.
Qed.

Definition sf_wok (w : N) : Prop := 0 < w /\ (w < 8 \/ w mod 8 = 0) /\ w <= 64.

Lemma sf_pack_length : forall w l, sf_wok w -> (N.of_nat (length l) * w + 7) / 8 <= N.of_nat (length (wm_pack w l)).
Proof.
  intros w l (H0 & Hw & _). unfold wm_pack. destruct (w <? 8) eqn:E.
  - apply N.ltb_lt in E. rewrite sf_pack_sub_length by lia. apply N.eq_le_incl. f_equal. lia.
  - apply N.ltb_ge in E. destruct Hw as [Hw|Hw]; [lia|].
    rewrite sf_flat_map_enc_length. rewrite Nat2N.inj_mul, N2Nat.id.
    set (n := N.of_nat (length l)). set (q := w / 8).
    assert (Hq : w = 8 * q) by (subst q; apply N.div_exact; [discriminate | exact Hw]).
    rewrite Hq. replace (n * (8 * q) + 7) with ((n * q) * 8 + 7) by lia.
    rewrite N.div_add_l by discriminate. change (7 / 8) with 0. lia.
Qed.

(* ================================================================ invariants *)
Definition sf_fl_ok (lv : wm_flevel) : Prop :=
  wm_fl_nidx lv = N.of_nat (length (wm_fl_idx lv)) /\ wm_fl_nsum lv = N.of_nat (length (wm_fl_sum lv)).
Definition sf_flo_ok (o : option wm_flevel) : Prop := match o with Some lv => sf_fl_ok lv | None => True end.

(* the level array *)
Definition sf_flv_ok (f : wm_fsr) : Prop := length (wm_f_levels f) = 16%nat /\ Forall sf_flo_ok (wm_f_levels f).

Definition sf_def_ok (d : sigdef) : Prop :=
  10 <= sg_sdf d /\ 10 <= sg_sumdf d /\ 1 <= sg_spd d /\ 10 <= sg_adf d /\ 10 <= sg_udf d /\ sf_wok (dt_bits (sg_dtype d)).

Definition sf_f_e (o : option wm_flevel) : N := match o with Some lv => wm_fl_nsum lv | None => 0 end.
(* weight of the levels >= L (L >= 1): an entry of level L stands for sdf * sumdf^(L-1) samples *)
Definition sf_f_w (d : sigdef) (f : wm_fsr) (L : nat) : N :=
  sf_lw sf_f_e (sg_sumdf d) (sg_sdf d * sg_sumdf d ^ N.of_nat (pred L)) (skipn L (wm_f_levels f)).
Definition sf_lim (d : sigdef) : N := sg_sdf d * sg_sumdf d ^ 14.

Lemma sf_f_w_step : forall d f L, (1 <= L)%nat -> (L < length (wm_f_levels f))%nat ->
  sf_f_w d f L = sf_f_e (nth L (wm_f_levels f) None) * (sg_sdf d * sg_sumdf d ^ N.of_nat (pred L)) + sf_f_w d f (S L).
Proof.
  intros d f L H1 H. unfold sf_f_w. rewrite (sf_skipn_nth _ L None) by exact H. cbn [sf_lw]. f_equal. f_equal.
  cbn [pred]. replace (N.of_nat L) with (N.succ (N.of_nat (pred L))) by lia. rewrite N.pow_succ_r'. lia.
Qed.

Lemma sf_f_w_end : forall d f L, (length (wm_f_levels f) <= L)%nat -> sf_f_w d f L = 0.
Proof. intros d f L H. unfold sf_f_w. rewrite skipn_all2 by exact H. reflexivity. Qed.

(* the weight of the levels >= L is part of the weight of the levels >= K for K <= L *)
Lemma sf_f_w_mono : forall d f K L, (1 <= K)%nat -> (K <= L)%nat -> sf_f_w d f L <= sf_f_w d f K.
Proof.
  intros d f K L HK HKL. induction HKL as [|L HKL IH]; [apply N.le_refl|].
  destruct (Nat.lt_ge_cases L (length (wm_f_levels f))) as [Hlt|Hge].
  - rewrite (sf_f_w_step d f L) in IH by lia. lia.
  - rewrite sf_f_w_end by lia. apply N.le_0_l.
Qed.

(* frame: same levels below L and no more weight from L on  ==>  no more weight from K <= L on *)
Lemma sf_f_w_frame : forall d f f' K L, (1 <= K)%nat -> (K <= L)%nat ->
  length (wm_f_levels f') = length (wm_f_levels f) ->
  firstn L (wm_f_levels f') = firstn L (wm_f_levels f) -> sf_f_w d f' L <= sf_f_w d f L ->
  sf_f_w d f' K <= sf_f_w d f K.
Proof.
  intros d f f' K L HK HKL Hlen Hfn Hw. revert Hw. revert HK.
  induction HKL as [|L HKL IH]; intros HK Hw; [exact Hw|].
  apply IH; [| exact HK |].
  - apply (f_equal (firstn L)) in Hfn. rewrite !firstn_firstn, Nat.min_l in Hfn by lia. exact Hfn.
  - destruct (Nat.lt_ge_cases L (length (wm_f_levels f))) as [Hlt|Hge].
    + rewrite (sf_f_w_step d f L), (sf_f_w_step d f' L) by lia.
      rewrite (sf_firstn_nth_eq _ L (S L) None _ _ Hfn) by lia. lia.
    + rewrite (sf_f_w_end d f' L), (sf_f_w_end d f L) by lia. apply N.le_refl.
Qed.

Lemma sf_f_get_nth : forall f level, wm_f_get_level f level = nth (N.to_nat level) (wm_f_levels f) None.
Proof. reflexivity. Qed.

Lemma sf_f_get_ok : forall f level lv, sf_flv_ok f -> wm_f_get_level f level = Some lv -> sf_fl_ok lv.
Proof.
  intros f level lv (_ & Hf) Hg. unfold wm_f_get_level in Hg.
  destruct (nth_in_or_default (N.to_nat level) (wm_f_levels f) None) as [Hin|Heq]; [|congruence].
  rewrite Forall_forall in Hf. specialize (Hf _ Hin). rewrite Hg in Hf. exact Hf.
Qed.

Lemma sf_f_set_ok : forall f level o, sf_flv_ok f -> sf_flo_ok o -> sf_flv_ok (wm_f_set_level f level o).
Proof.
  intros f level o (H1 & H2) Ho. unfold sf_flv_ok, wm_f_set_level. cbn [wm_f_levels].
  split; [rewrite sf_upd_length; exact H1 | apply sf_Forall_upd; assumption].
Qed.

(* fields other than the levels *)
Definition sf_f_same_block (f f' : wm_fsr) : Prop :=
  wm_f_alloc f' = wm_f_alloc f /\ wm_f_sid0 f' = wm_f_sid0 f /\ wm_f_ts f' = wm_f_ts f /\ wm_f_count f' = wm_f_count f /\
  wm_f_buf f' = wm_f_buf f /\ wm_f_omit f' = wm_f_omit f.
Lemma sf_same_block_refl : forall f, sf_f_same_block f f.
Proof. intro f. repeat split. Qed.
Lemma sf_same_block_trans : forall a b c, sf_f_same_block a b -> sf_f_same_block b c -> sf_f_same_block a c.
Proof. intros a b c (A1 & A2 & A3 & A4 & A5 & A6) (B1 & B2 & B3 & B4 & B5 & B6). repeat split; congruence. Qed.
Lemma sf_same_block_set_level : forall f level o, sf_f_same_block f (wm_f_set_level f level o).
Proof. intros. repeat split. Qed.

Lemma sf_f_w_set_lt : forall d f n o L, (N.to_nat n < L)%nat -> sf_f_w d (wm_f_set_level f n o) L = sf_f_w d f L.
Proof. intros d f n o L H. unfold sf_f_w, wm_f_set_level. cbn [wm_f_levels]. rewrite sf_skipn_upd_lt by exact H. reflexivity. Qed.
Lemma sf_f_w_set_eq : forall d f n o, 1 <= n -> (N.to_nat n < length (wm_f_levels f))%nat ->
  sf_f_w d (wm_f_set_level f n o) (N.to_nat n) =
  sf_f_e o * (sg_sdf d * sg_sumdf d ^ (n - 1)) + sf_f_w d f (S (N.to_nat n)).
Proof.
  intros d f n o H1 H. rewrite sf_f_w_step by (try (unfold wm_f_set_level; cbn [wm_f_levels]; rewrite sf_upd_length); lia).
  rewrite sf_f_w_set_lt by lia. unfold wm_f_set_level at 1. cbn [wm_f_levels].
  rewrite sf_nth_upd_same by exact H. f_equal. f_equal. f_equal. lia.
Qed.

Lemma sf_level_alloc_ok : forall f level, sf_flv_ok f -> sf_flv_ok (wm_fsr_level_alloc f level).
Proof.
  intros f level H. unfold wm_fsr_level_alloc. destruct (wm_f_get_level f level); [exact H|].
  apply sf_f_set_ok; [exact H|]. cbn. split; reflexivity.
Qed.
Lemma sf_level_alloc_get : forall f level, sf_flv_ok f -> level < 16 -> exists lv, wm_f_get_level (wm_fsr_level_alloc f level) level = Some lv.
Proof.
  intros f level (Hl & _) Hlv. unfold wm_fsr_level_alloc. destruct (wm_f_get_level f level) as [lv|] eqn:E.
  - exists lv. exact E.
  - eexists. unfold wm_f_get_level, wm_f_set_level. cbn [wm_f_levels]. apply sf_nth_upd_same. lia.
Qed.
Lemma sf_level_alloc_same : forall f level, sf_f_same_block f (wm_fsr_level_alloc f level).
Proof. intros. unfold wm_fsr_level_alloc. destruct (wm_f_get_level f level); [apply sf_same_block_refl | apply sf_same_block_set_level]. Qed.
Lemma sf_level_alloc_w : forall d f level L, sf_f_w d (wm_fsr_level_alloc f level) L = sf_f_w d f L.
Proof.
  intros d f level L. unfold wm_fsr_level_alloc. destruct (wm_f_get_level f level) as [up|] eqn:E; [reflexivity|].
  unfold sf_f_w, wm_f_set_level. cbn [wm_f_levels]. generalize (sg_sdf d * sg_sumdf d ^ N.of_nat (pred L)).
  unfold wm_f_get_level in E. revert E. generalize (N.to_nat level). generalize (wm_f_levels f). generalize (sg_sumdf d). clear.
  intros k l n E m. revert n L m E.
  induction l as [|a l IH]; intros n L m E; [destruct n; reflexivity|].
  destruct n as [|n]; destruct L as [|L]; cbn [wm_upd skipn sf_lw nth] in *.
  - subst a. reflexivity.
  - reflexivity.
  - f_equal. apply (IH n 0%nat). exact E.
  - apply IH. exact E.
Qed.
Lemma sf_level_alloc_firstn : forall f level L, (L <= N.to_nat level)%nat ->
  firstn L (wm_f_levels (wm_fsr_level_alloc f level)) = firstn L (wm_f_levels f).
Proof.
  intros f level L H. unfold wm_fsr_level_alloc. destruct (wm_f_get_level f level); [reflexivity|].
  unfold wm_f_set_level. cbn [wm_f_levels]. apply sf_firstn_upd. exact H.
Qed.

(* ---- payload lengths ---- *)
Lemma sf_fsr_index_payload_len : forall its lv, sf_fl_ok lv ->
  SIZEOF_payload_header + 8 * wm_fl_nidx lv <= N.of_nat (length (wm_fsr_index_payload its (wm_fl_nidx lv) (wm_rev (wm_fl_idx lv)))).
Proof.
  intros its lv (H1 & _). unfold wm_fsr_index_payload. rewrite app_length, sf_payload_header_length.
  assert (Hg : forall l, length (flat_map fm_enc_u64 l) = (8 * length l)%nat).
  { induction l as [|x l IH]; [reflexivity|]. cbn [flat_map]. rewrite app_length, IH. unfold fm_enc_u64. rewrite fm_enc_length. cbn [length]. lia. }
  rewrite Hg, sf_rev_length, H1. unfold SIZEOF_payload_header. lia.
Qed.

Lemma sf_sentry_bytes_length : forall is64 e, length (wm_sentry_bytes is64 e) = if is64 then 32%nat else 16%nat.
Proof.
  intros is64 [[[m s] mn] mx]. unfold wm_sentry_bytes. rewrite !app_length, !fm_enc_length. destruct is64; reflexivity.
Qed.
Lemma sf_fsr_summary_payload_len : forall dt sts lv, sf_fl_ok lv ->
  SIZEOF_payload_header + (wm_fl_nsum lv * wm_summary_entry_bits dt) / 8 <=
  N.of_nat (length (wm_fsr_summary_payload dt sts (wm_fl_nsum lv) (wm_rev (wm_fl_sum lv)))).
Proof.
  intros dt sts lv (_ & H2). unfold wm_fsr_summary_payload. rewrite app_length, sf_payload_header_length.
  assert (Hg : forall l, length (flat_map (wm_sentry_bytes (wm_summary_is64 dt)) l) = ((if wm_summary_is64 dt then 32 else 16) * length l)%nat).
  { induction l as [|x l IH]; [cbn; lia|]. cbn [flat_map]. rewrite app_length, IH, sf_sentry_bytes_length. cbn [length].
    destruct (wm_summary_is64 dt); lia. }
  rewrite Hg, sf_rev_length. unfold wm_summary_entry_bits, JLS_SUMMARY_FSR_COUNT, SIZEOF_payload_header. rewrite H2.
  set (n := N.of_nat (length (wm_fl_sum lv))). destruct (wm_summary_is64 dt); lia.
Qed.

Lemma sf_groups_length : forall (A : Type) n k (l : list A), length (wm_groups n k l) = n.
Proof. intros A n k. induction n as [|n IH]; intro l; [reflexivity|]. cbn [wm_groups length]. now rewrite IH. Qed.

Section SF_FSR.
Variable summ1 : N -> list N -> wm_sentry.
Variable summN : bool -> list wm_sentry -> wm_sentry.

Definition sf_fx_ok (x : wm_fx) : Prop :=
  sf_base_ok (wm_fx_base x) /\ sf_tk (sf_bdisk (wm_fx_base x)) (wm_fx_tk x) /\ sf_flv_ok (wm_fx_fsr x) /\
  wm_get_off (wm_tk_offsets (wm_fx_tk x)) 15 = 0.

Lemma sf_fsr_wr_summary_S : forall fu d level x,
  wm_fsr_wr_summary summN (S fu) d level x =
    match wm_f_get_level (wm_fx_fsr x) level with
    | None => wm_fx_fault x
    | Some lv =>
      if (wm_fl_nsum lv =? 0)
         && ((wm_fl_nidx lv =? 0) || ((1 <? level) && (wm_get_off (wm_tk_offsets (wm_fx_tk x)) level =? 0)))
      then x
      else
        let sid := sg_id d in
        let pos_next := wm_raw_chunk_tell (wm_b_raw (wm_fx_base x)) in
        let '(b1, t1) :=
          if wm_fl_nidx lv =? 0 then (wm_fx_base x, wm_fx_tk x)
          else wm_core_wr_index (wm_fx_base x) sid (wm_fx_tk x) level
                 (wm_fsr_index_payload (wm_fl_its lv) (wm_fl_nidx lv) (wm_rev (wm_fl_idx lv)))
                 (SIZEOF_payload_header + 8 * wm_fl_nidx lv) in
        let entries := wm_rev (wm_fl_sum lv) in
        let payload_len := SIZEOF_payload_header + (wm_fl_nsum lv * wm_summary_entry_bits (sg_dtype d)) / 8 in
        let '(b2, t2) := wm_core_wr_summary b1 sid t1 level
                           (wm_fsr_summary_payload (sg_dtype d) (wm_fl_sts lv) (wm_fl_nsum lv) entries) payload_len in
        if JLS_SUMMARY_LEVEL_COUNT <=? level + 1
        then wm_fx_fault {| wm_fx_base := b2; wm_fx_tk := t2; wm_fx_fsr := wm_fx_fsr x |}
        else
          let f3 := wm_fsr_summaryN_add summN d (level + 1) pos_next lv entries (wm_fx_fsr x) in
          let x3 := {| wm_fx_base := b2; wm_fx_tk := t2; wm_fx_fsr := f3 |} in
          let x4 := match wm_f_get_level f3 (level + 1) with
                    | Some up => if sg_eps d <=? wm_fl_nsum up then wm_fsr_wr_summary summN fu d (level + 1) x3 else x3
                    | None => x3
                    end in
          match wm_f_get_level (wm_fx_fsr x4) level with
          | Some lv4 => wm_fx_set_fsr x4 (wm_f_set_level (wm_fx_fsr x4) level (Some (wm_fl_reset lv4)))
          | None => x4
          end
    end.
Proof. reflexivity. Qed.

(* jls_core_fsr_summaryN up to its flush test *)
Lemma sf_summaryN_add_spec : forall d L pos src entries f,
  sf_flv_ok f -> 1 <= L -> L + 1 <= 15 -> 1 <= sg_sumdf d ->
  let f3 := wm_fsr_summaryN_add summN d (L + 1) pos src entries f in
  sf_flv_ok f3 /\ sf_f_same_block f f3 /\
  firstn (S (N.to_nat L)) (wm_f_levels f3) = firstn (S (N.to_nat L)) (wm_f_levels f) /\
  (exists up, wm_f_get_level f3 (L + 1) = Some up) /\
  sf_f_w d f3 (S (N.to_nat L)) <= wm_fl_nsum src * (sg_sdf d * sg_sumdf d ^ (L - 1)) + sf_f_w d f (S (N.to_nat L)).
Proof.
  intros d L pos src entries f Hf HL1 HL15 Hk. cbv zeta. unfold wm_fsr_summaryN_add.
  pose proof (sf_level_alloc_ok f (L + 1) Hf) as Hf1.
  destruct (sf_level_alloc_get f (L + 1) Hf) as [dst Hdst]; [lia|]. rewrite Hdst.
  pose proof (sf_f_get_ok _ _ _ Hf1 Hdst) as (D1 & D2).
  assert (HL1n : N.to_nat (L + 1) = S (N.to_nat L)) by lia.
  assert (Hlen1 : length (wm_f_levels (wm_fsr_level_alloc f (L + 1))) = 16%nat) by apply Hf1.
  set (n := wm_fl_nsum src / sg_sumdf d).
  set (new := map (summN (wm_summary_is64 (sg_dtype d))) (wm_groups (N.to_nat n) (N.to_nat (sg_sumdf d)) entries)).
  assert (Hnew : N.of_nat (length new) = n) by (subst new; rewrite map_length, sf_groups_length; lia).
  set (dst1 := wm_fl_feed dst (wm_fl_its src) (wm_fl_sts src) pos new).
  assert (Hd1 : sf_fl_ok dst1 /\ wm_fl_nsum dst1 = wm_fl_nsum dst + n).
  { unfold dst1, wm_fl_feed, sf_fl_ok. cbn [wm_fl_nidx wm_fl_idx wm_fl_nsum wm_fl_sum length].
    rewrite rev_append_rev, app_length, rev_length. split; [split; lia | lia]. }
  destruct Hd1 as [Hd1ok Hd1n].
  split; [apply sf_f_set_ok; assumption|].
  split; [eapply sf_same_block_trans; [apply sf_level_alloc_same | apply sf_same_block_set_level]|].
  split; [unfold wm_f_set_level; cbn [wm_f_levels]; rewrite sf_firstn_upd by lia; apply sf_level_alloc_firstn; lia|].
  split; [eexists; unfold wm_f_get_level, wm_f_set_level; cbn [wm_f_levels]; apply sf_nth_upd_same; lia|].
  rewrite <- HL1n. rewrite sf_f_w_set_eq by lia. rewrite HL1n. cbn [sf_f_e]. rewrite Hd1n.
  rewrite <- (sf_level_alloc_w d f (L + 1) (S (N.to_nat L))).
  rewrite (sf_f_w_step d (wm_fsr_level_alloc f (L + 1)) (S (N.to_nat L))) by lia.
  rewrite <- HL1n, <- sf_f_get_nth, Hdst. cbn [sf_f_e]. rewrite HL1n. cbn [pred]. rewrite N2Nat.id.
  replace (L + 1 - 1) with L by lia.
  assert (Hpow : sg_sumdf d ^ L = sg_sumdf d * sg_sumdf d ^ (L - 1)).
  { replace L with (N.succ (L - 1)) at 1 by lia. apply N.pow_succ_r'. }
  rewrite Hpow.
  set (P := sg_sumdf d ^ (L - 1)) in *. set (S0 := sg_sdf d) in *. set (k := sg_sumdf d) in *.
  assert (Hn2 : n * k <= wm_fl_nsum src).
  { subst n. rewrite N.mul_comm. apply N.mul_div_le. lia. }
  assert (n * (S0 * (k * P)) <= wm_fl_nsum src * (S0 * P)).
  { replace (n * (S0 * (k * P))) with ((n * k) * (S0 * P)) by lia. apply N.mul_le_mono_r. exact Hn2. }
  lia.
Qed.

Lemma sf_lim_pos : forall d, sf_def_ok d -> 0 < sf_lim d.
Proof.
  intros d (H1 & H2 & _). unfold sf_lim. apply N.mul_pos_pos; [lia|]. apply N.neq_0_lt_0. apply N.pow_nonzero. lia.
Qed.

Lemma sf_fsr_wr_summary_spec : forall fuel d L x,
  sf_fx_ok x -> sf_def_ok d -> 1 <= L <= 15 -> (16 <= fuel + N.to_nat L)%nat ->
  (exists lv, wm_f_get_level (wm_fx_fsr x) L = Some lv) ->
  sf_f_w d (wm_fx_fsr x) (N.to_nat L) < sf_lim d ->
  let x' := wm_fsr_wr_summary summN fuel d L x in
  sf_fx_ok x' /\ sf_bext (wm_fx_base x) (wm_fx_base x') /\ sf_f_same_block (wm_fx_fsr x) (wm_fx_fsr x') /\
  firstn (N.to_nat L) (wm_f_levels (wm_fx_fsr x')) = firstn (N.to_nat L) (wm_f_levels (wm_fx_fsr x)) /\
  sf_f_w d (wm_fx_fsr x') (N.to_nat L) <= sf_f_w d (wm_fx_fsr x) (N.to_nat L).
Proof.
  induction fuel as [|fu IH]; intros d L x Hx Hd HL Hfuel [lv Eg] Hw; [lia|].
  cbv zeta. rewrite sf_fsr_wr_summary_S, Eg.
  assert (Htriv : sf_fx_ok x /\ sf_bext (wm_fx_base x) (wm_fx_base x) /\ sf_f_same_block (wm_fx_fsr x) (wm_fx_fsr x) /\
                  firstn (N.to_nat L) (wm_f_levels (wm_fx_fsr x)) = firstn (N.to_nat L) (wm_f_levels (wm_fx_fsr x)) /\
                  sf_f_w d (wm_fx_fsr x) (N.to_nat L) <= sf_f_w d (wm_fx_fsr x) (N.to_nat L)).
  { split; [exact Hx|]. split; [apply sf_bext_refl|]. split; [apply sf_same_block_refl|]. split; [reflexivity | apply N.le_refl]. }
  match goal with |- context [if ?c then x else _] => destruct c eqn:Eexit end; [exact Htriv|]. clear Htriv.
  destruct Hx as (Hb & Htk & Hf & Hoff15). pose proof Hf as (Hlen & Hfa).
  pose proof (sf_f_get_ok _ _ _ Hf Eg) as Hlv.
  pose proof Hd as (Hsdf & Hsumdf & _).
  assert (Hstep : sf_f_w d (wm_fx_fsr x) (N.to_nat L) =
                  wm_fl_nsum lv * (sg_sdf d * sg_sumdf d ^ (L - 1)) + sf_f_w d (wm_fx_fsr x) (S (N.to_nat L))).
  { rewrite sf_f_w_step by lia. rewrite <- sf_f_get_nth, Eg. cbn [sf_f_e]. f_equal. f_equal. f_equal. lia. }
  assert (HL15 : L + 1 <= 15).
  { destruct (N.le_gt_cases (L + 1) 15) as [Hle|Hgt]; [exact Hle|]. exfalso. assert (L = 15) by lia. subst L.
    assert (Hns : wm_fl_nsum lv = 0).
    { rewrite Hstep in Hw. unfold sf_lim in Hw. change (15 - 1) with 14 in Hw.
      destruct (N.eq_dec (wm_fl_nsum lv) 0) as [Hz|Hnz]; [exact Hz|]. exfalso.
      pose proof (sf_lim_pos d Hd) as Hp. unfold sf_lim in Hp. nia. }
    rewrite Hns, Hoff15 in Eexit. cbn in Eexit. rewrite orb_true_r in Eexit. discriminate. }
  cbv zeta.
  (* index (when it has entries) *)
  set (bt1 := if wm_fl_nidx lv =? 0 then (wm_fx_base x, wm_fx_tk x)
              else wm_core_wr_index (wm_fx_base x) (sg_id d) (wm_fx_tk x) L
                     (wm_fsr_index_payload (wm_fl_its lv) (wm_fl_nidx lv) (wm_rev (wm_fl_idx lv)))
                     (SIZEOF_payload_header + 8 * wm_fl_nidx lv)).
  assert (H1 : sf_base_ok (fst bt1) /\ sf_bext (wm_fx_base x) (fst bt1) /\ sf_tk (sf_bdisk (fst bt1)) (snd bt1) /\
               wm_get_off (wm_tk_offsets (snd bt1)) 15 = 0).
  { subst bt1. destruct (wm_fl_nidx lv =? 0).
    - cbn [fst snd]. split; [exact Hb|]. split; [apply sf_bext_refl|]. split; [exact Htk | exact Hoff15].
    - destruct (wm_core_wr_index (wm_fx_base x) (sg_id d) (wm_fx_tk x) L _ _) as [b1 t1] eqn:Ei.
      destruct (sf_core_wr_index _ _ _ _ _ _ _ _ Hb Htk (sf_fsr_index_payload_len _ lv Hlv) Ei) as (K1 & K2 & K3 & K4 & _).
      cbn [fst snd]. split; [exact K1|]. split; [exact K2|]. split; [exact K3|]. rewrite K4 by lia. exact Hoff15. }
  destruct bt1 as [b1 t1]. cbn [fst snd] in H1. destruct H1 as (Hb1 & He1 & Ht1 & Hoff1).
  destruct (wm_core_wr_summary b1 (sg_id d) t1 L _ _) as [b2 t2] eqn:Es.
  destruct (sf_core_wr_summary _ _ _ _ _ _ _ _ Hb1 Ht1 (sf_fsr_summary_payload_len (sg_dtype d) (wm_fl_sts lv) lv Hlv) Es) as (Hb2 & He2 & Ht2 & Hoffs2 & _).
  assert (Hoff2 : wm_get_off (wm_tk_offsets t2) 15 = 0) by (rewrite Hoffs2; exact Hoff1).
  assert (E16 : (JLS_SUMMARY_LEVEL_COUNT <=? L + 1) = false) by (apply N.leb_gt; unfold JLS_SUMMARY_LEVEL_COUNT; lia).
  rewrite E16.
  set (pos_next := wm_raw_chunk_tell (wm_b_raw (wm_fx_base x))).
  set (entries := wm_rev (wm_fl_sum lv)).
  destruct (sf_summaryN_add_spec d L pos_next lv entries (wm_fx_fsr x) Hf (proj1 HL) HL15 ltac:(lia)) as (Hf3 & Hsb3 & Hfn3 & [up Hup] & Hw3).
  cbv zeta in Hf3, Hsb3, Hfn3, Hup, Hw3.
  set (f3 := wm_fsr_summaryN_add summN d (L + 1) pos_next lv entries (wm_fx_fsr x)) in *.
  set (x3 := {| wm_fx_base := b2; wm_fx_tk := t2; wm_fx_fsr := f3 |}).
  assert (Hx3 : sf_fx_ok x3) by (split; [exact Hb2|]; split; [exact Ht2|]; split; [exact Hf3 | exact Hoff2]).
  assert (HL1n : N.to_nat (L + 1) = S (N.to_nat L)) by lia.
  assert (Hw3' : sf_f_w d f3 (S (N.to_nat L)) <= sf_f_w d (wm_fx_fsr x) (N.to_nat L)) by (rewrite Hstep; exact Hw3).
  rewrite Hup.
  set (x4 := if sg_eps d <=? wm_fl_nsum up then wm_fsr_wr_summary summN fu d (L + 1) x3 else x3).
  assert (H4 : sf_fx_ok x4 /\ sf_bext b2 (wm_fx_base x4) /\ sf_f_same_block f3 (wm_fx_fsr x4) /\
               firstn (S (N.to_nat L)) (wm_f_levels (wm_fx_fsr x4)) = firstn (S (N.to_nat L)) (wm_f_levels f3) /\
               sf_f_w d (wm_fx_fsr x4) (S (N.to_nat L)) <= sf_f_w d f3 (S (N.to_nat L))).
  { subst x4. destruct (sg_eps d <=? wm_fl_nsum up).
    - assert (Hpre : sf_f_w d (wm_fx_fsr x3) (N.to_nat (L + 1)) < sf_lim d) by (rewrite HL1n; cbn [x3 wm_fx_fsr]; lia).
      destruct (IH d (L + 1) x3 Hx3 Hd ltac:(lia) ltac:(lia) (ex_intro _ up Hup) Hpre) as (K1 & K2 & K3 & K4 & K5).
      cbv zeta in K1, K2, K3, K4, K5. rewrite HL1n in K4, K5. cbn [x3 wm_fx_base wm_fx_fsr] in K2, K3, K4, K5.
      split; [exact K1|]. split; [exact K2|]. split; [exact K3|]. split; [exact K4 | exact K5].
    - split; [exact Hx3|]. split; [apply sf_bext_refl|]. split; [apply sf_same_block_refl|]. split; [reflexivity | apply N.le_refl]. }
  destruct H4 as (Hx4 & He4 & Hsb4 & Hfn4 & Hw4). destruct Hx4 as (Hb4 & Ht4 & Hf4 & Hoff4).
  assert (Hlen4 : length (wm_f_levels (wm_fx_fsr x4)) = 16%nat) by apply Hf4.
  assert (Hext4 : sf_bext (wm_fx_base x) (wm_fx_base x4)).
  { eapply sf_bext_trans; [exact He1|]. eapply sf_bext_trans; [exact He2 | exact He4]. }
  assert (Hfn04 : firstn (N.to_nat L) (wm_f_levels (wm_fx_fsr x4)) = firstn (N.to_nat L) (wm_f_levels (wm_fx_fsr x))).
  { assert (Hx : firstn (S (N.to_nat L)) (wm_f_levels (wm_fx_fsr x4)) = firstn (S (N.to_nat L)) (wm_f_levels (wm_fx_fsr x))) by congruence.
    apply (f_equal (firstn (N.to_nat L))) in Hx. rewrite !firstn_firstn, Nat.min_l in Hx by lia. exact Hx. }
  destruct (wm_f_get_level (wm_fx_fsr x4) L) as [lv4|] eqn:Eg4.
  - split; [|split; [|split; [|split]]].
    + unfold sf_fx_ok, wm_fx_set_fsr. cbn [wm_fx_base wm_fx_tk wm_fx_fsr].
      split; [exact Hb4|]. split; [exact Ht4|]. split; [|exact Hoff4].
      apply sf_f_set_ok; [exact Hf4|]. cbn. split; reflexivity.
    + exact Hext4.
    + unfold wm_fx_set_fsr. cbn [wm_fx_fsr].
      eapply sf_same_block_trans; [exact Hsb3|]. eapply sf_same_block_trans; [exact Hsb4 | apply sf_same_block_set_level].
    + unfold wm_fx_set_fsr, wm_f_set_level. cbn [wm_fx_fsr wm_f_levels]. rewrite sf_firstn_upd by lia. exact Hfn04.
    + unfold wm_fx_set_fsr. cbn [wm_fx_fsr]. rewrite sf_f_w_set_eq by lia. cbn [sf_f_e wm_fl_reset wm_fl_nsum]. lia.
  - (* the level vanished: impossible, but harmless *)
    exfalso. rewrite sf_f_get_nth in Eg4, Eg.
    rewrite (sf_firstn_nth_eq _ (N.to_nat L) (S (N.to_nat L)) None _ (wm_f_levels (wm_fx_fsr x))) in Eg4 by (try congruence; lia).
    congruence.
Qed.

(* jls_core_fsr_summary1 *)
Lemma sf_fsr_summary1_spec : forall d pos samples x,
  sf_fx_ok x -> sf_def_ok d ->
  wm_f_count (wm_fx_fsr x) + sf_f_w d (wm_fx_fsr x) 1 < sf_lim d ->
  let x' := wm_fsr_summary1 summ1 summN d pos samples x in
  sf_fx_ok x' /\ sf_bext (wm_fx_base x) (wm_fx_base x') /\ sf_f_same_block (wm_fx_fsr x) (wm_fx_fsr x') /\
  sf_f_w d (wm_fx_fsr x') 1 <= wm_f_count (wm_fx_fsr x) + sf_f_w d (wm_fx_fsr x) 1.
Proof.
  intros d pos samples x Hx Hd Hw. cbv zeta. unfold wm_fsr_summary1.
  destruct Hx as (Hb & Htk & Hf & Hoff15). pose proof Hd as (Hsdf & Hsumdf & _).
  set (f := wm_fx_fsr x) in *.
  pose proof (sf_level_alloc_ok f 1 Hf) as Hf1.
  destruct (sf_level_alloc_get f 1 Hf) as [dst Hdst]; [lia|]. rewrite Hdst.
  pose proof (sf_f_get_ok _ _ _ Hf1 Hdst) as (D1 & D2).
  assert (Hlen1 : length (wm_f_levels (wm_fsr_level_alloc f 1)) = 16%nat) by apply Hf1.
  set (n := wm_f_count f / sg_sdf d).
  set (new := map (summ1 (sg_dtype d)) (wm_groups (N.to_nat n) (N.to_nat (sg_sdf d)) samples)).
  assert (Hnew : N.of_nat (length new) = n) by (subst new; rewrite map_length, sf_groups_length; lia).
  set (dst1 := wm_fl_feed dst (wm_f_ts f) (wm_f_ts f) pos new).
  assert (Hd1 : sf_fl_ok dst1 /\ wm_fl_nsum dst1 = wm_fl_nsum dst + n).
  { unfold dst1, wm_fl_feed, sf_fl_ok. cbn [wm_fl_nidx wm_fl_idx wm_fl_nsum wm_fl_sum length].
    rewrite rev_append_rev, app_length, rev_length. split; [split; lia | lia]. }
  destruct Hd1 as [Hd1ok Hd1n].
  set (f2 := wm_f_set_level (wm_fsr_level_alloc f 1) 1 (Some dst1)).
  assert (Hf2 : sf_flv_ok f2) by (apply sf_f_set_ok; assumption).
  assert (Hsb2 : sf_f_same_block f f2) by (eapply sf_same_block_trans; [apply sf_level_alloc_same | apply sf_same_block_set_level]).
  assert (Hw2 : sf_f_w d f2 1 <= wm_f_count f + sf_f_w d f 1).
  { subst f2. change 1%nat with (N.to_nat 1). rewrite sf_f_w_set_eq by (rewrite ?Hlen1; cbn; lia).
    cbn [sf_f_e]. rewrite Hd1n. change (1 - 1) with 0. rewrite N.pow_0_r, N.mul_1_r.
    rewrite <- (sf_level_alloc_w d f 1 (N.to_nat 1)).
    rewrite (sf_f_w_step d (wm_fsr_level_alloc f 1) (N.to_nat 1)) by (rewrite ?Hlen1; cbn; lia).
    rewrite <- sf_f_get_nth, Hdst. cbn [sf_f_e]. change (N.of_nat (pred (N.to_nat 1))) with 0. rewrite N.pow_0_r, N.mul_1_r.
    assert (Hn2 : n * sg_sdf d <= wm_f_count f) by (subst n; rewrite N.mul_comm; apply N.mul_div_le; lia).
    lia. }
  set (x1 := wm_fx_set_fsr x f2).
  assert (Hx1 : sf_fx_ok x1) by (split; [exact Hb|]; split; [exact Htk|]; split; [exact Hf2 | exact Hoff15]).
  assert (Hg2 : wm_f_get_level f2 1 = Some dst1).
  { subst f2. unfold wm_f_get_level, wm_f_set_level. cbn [wm_f_levels]. apply sf_nth_upd_same. rewrite Hlen1. cbn. lia. }
  destruct (sg_eps d <=? wm_fl_nsum dst1).
  - assert (Hpre : sf_f_w d (wm_fx_fsr x1) (N.to_nat 1) < sf_lim d) by (cbn [x1 wm_fx_set_fsr wm_fx_fsr]; change (N.to_nat 1) with 1%nat; lia).
    assert (Hfuel : (16 <= wm_level_count + N.to_nat 1)%nat) by (unfold wm_level_count, JLS_SUMMARY_LEVEL_COUNT; lia).
    destruct (sf_fsr_wr_summary_spec wm_level_count d 1 x1 Hx1 Hd ltac:(lia) Hfuel (ex_intro _ dst1 Hg2) Hpre) as (K1 & K2 & K3 & _ & K5).
    cbv zeta in K1, K2, K3, K5. cbn [x1 wm_fx_set_fsr wm_fx_base wm_fx_fsr] in K2, K3, K5. change (N.to_nat 1) with 1%nat in K5.
    split; [exact K1|]. split; [exact K2|]. split; [eapply sf_same_block_trans; eassumption|]. lia.
  - split; [exact Hx1|]. split; [apply sf_bext_refl|]. split; [exact Hsb2 | exact Hw2].
Qed.

(* wr_data: flush the block *)
Lemma sf_wr_data_tail : forall d x x1 pos1 samples om,
  sf_fx_ok x1 -> sf_def_ok d -> sf_bext (wm_fx_base x) (wm_fx_base x1) -> wm_fx_fsr x1 = wm_fx_fsr x ->
  wm_f_count (wm_fx_fsr x) + sf_f_w d (wm_fx_fsr x) 1 < sf_lim d ->
  let x2 := wm_fsr_summary1 summ1 summN d pos1 samples x1 in
  let f2 := wm_fx_fsr x2 in
  let x' := wm_fx_set_fsr x2 (wm_f_set_omit (wm_f_set_block f2 (wm_f_alloc f2) (wm_f_ts f2 + Z.of_N (sg_spd d))%Z 0 []) om) in
  sf_fx_ok x' /\ sf_bext (wm_fx_base x) (wm_fx_base x') /\
  sf_f_w d (wm_fx_fsr x') 1 <= wm_f_count (wm_fx_fsr x) + sf_f_w d (wm_fx_fsr x) 1 /\
  wm_f_alloc (wm_fx_fsr x') = wm_f_alloc (wm_fx_fsr x) /\ wm_f_sid0 (wm_fx_fsr x') = wm_f_sid0 (wm_fx_fsr x) /\
  wm_f_count (wm_fx_fsr x') = 0 /\ wm_f_buf (wm_fx_fsr x') = [] /\
  wm_f_ts (wm_fx_fsr x') = (wm_f_ts (wm_fx_fsr x) + Z.of_N (sg_spd d))%Z.
Proof.
  intros d x x1 pos1 samples om Hx1 Hd He1 Hf1 Hw.
  assert (Hpre : wm_f_count (wm_fx_fsr x1) + sf_f_w d (wm_fx_fsr x1) 1 < sf_lim d) by (rewrite Hf1; exact Hw).
  destruct (sf_fsr_summary1_spec d pos1 samples x1 Hx1 Hd Hpre) as (K1 & K2 & K3 & K4).
  cbv zeta in K1, K2, K3, K4. rewrite Hf1 in K3, K4. cbv zeta.
  set (x2 := wm_fsr_summary1 summ1 summN d pos1 samples x1) in *.
  destruct K1 as (Hb2 & Ht2 & Hf2 & Hoff2). destruct K3 as (S1 & S2 & S3 & S4 & S5 & S6).
  split; [|split; [|split; [|split; [|split; [|split; [|split]]]]]].
  - unfold sf_fx_ok, wm_fx_set_fsr. cbn [wm_fx_base wm_fx_tk wm_fx_fsr]. split; [exact Hb2|]. split; [exact Ht2|]. split; [|exact Hoff2].
    exact Hf2.
  - unfold wm_fx_set_fsr. cbn [wm_fx_base]. eapply sf_bext_trans; eassumption.
  - unfold wm_fx_set_fsr. cbn [wm_fx_fsr]. exact K4.
  - unfold wm_fx_set_fsr. cbn [wm_fx_fsr wm_f_set_omit wm_f_set_block wm_f_alloc]. exact S1.
  - unfold wm_fx_set_fsr. cbn [wm_fx_fsr wm_f_set_omit wm_f_set_block wm_f_sid0]. exact S2.
  - reflexivity.
  - reflexivity.
  - unfold wm_fx_set_fsr. cbn [wm_fx_fsr wm_f_set_omit wm_f_set_block wm_f_ts]. rewrite S3. reflexivity.
Qed.

Lemma sf_fsr_wr_data_spec : forall d x,
  sf_fx_ok x -> sf_def_ok d -> wm_f_count (wm_fx_fsr x) = N.of_nat (length (wm_f_buf (wm_fx_fsr x))) ->
  wm_f_count (wm_fx_fsr x) + sf_f_w d (wm_fx_fsr x) 1 < sf_lim d ->
  let x' := wm_fsr_wr_data summ1 summN d x in
  sf_fx_ok x' /\ sf_bext (wm_fx_base x) (wm_fx_base x') /\
  sf_f_w d (wm_fx_fsr x') 1 <= wm_f_count (wm_fx_fsr x) + sf_f_w d (wm_fx_fsr x) 1 /\
  wm_f_alloc (wm_fx_fsr x') = wm_f_alloc (wm_fx_fsr x) /\ wm_f_sid0 (wm_fx_fsr x') = wm_f_sid0 (wm_fx_fsr x) /\
  wm_f_count (wm_fx_fsr x') = 0 /\ wm_f_buf (wm_fx_fsr x') = [] /\
  (wm_f_count (wm_fx_fsr x) = 0 -> x' = x) /\
  (wm_f_count (wm_fx_fsr x) <> 0 -> wm_f_ts (wm_fx_fsr x') = (wm_f_ts (wm_fx_fsr x) + Z.of_N (sg_spd d))%Z).
Proof.
  intros d x Hx Hd Hcnt Hw. cbv zeta. unfold wm_fsr_wr_data. cbv zeta.
  destruct (wm_f_count (wm_fx_fsr x) =? 0) eqn:E0.
  { apply N.eqb_eq in E0. split; [exact Hx|]. split; [apply sf_bext_refl|]. split; [lia|]. split; [reflexivity|]. split; [reflexivity|].
    split; [exact E0|]. split; [|split; [reflexivity | intro Hn; now elim Hn]].
    rewrite E0 in Hcnt. destruct (wm_f_buf (wm_fx_fsr x)); [reflexivity | cbn in Hcnt; lia]. }
  apply N.eqb_neq in E0.
  assert (Hgoal : forall x1 pos1 om, sf_fx_ok x1 -> sf_bext (wm_fx_base x) (wm_fx_base x1) -> wm_fx_fsr x1 = wm_fx_fsr x ->
    let x2 := wm_fsr_summary1 summ1 summN d pos1 (wm_rev (wm_f_buf (wm_fx_fsr x))) x1 in
    let f2 := wm_fx_fsr x2 in
    let x' := wm_fx_set_fsr x2 (wm_f_set_omit (wm_f_set_block f2 (wm_f_alloc f2) (wm_f_ts f2 + Z.of_N (sg_spd d))%Z 0 []) om) in
    sf_fx_ok x' /\ sf_bext (wm_fx_base x) (wm_fx_base x') /\
    sf_f_w d (wm_fx_fsr x') 1 <= wm_f_count (wm_fx_fsr x) + sf_f_w d (wm_fx_fsr x) 1 /\
    wm_f_alloc (wm_fx_fsr x') = wm_f_alloc (wm_fx_fsr x) /\ wm_f_sid0 (wm_fx_fsr x') = wm_f_sid0 (wm_fx_fsr x) /\
    wm_f_count (wm_fx_fsr x') = 0 /\ wm_f_buf (wm_fx_fsr x') = [] /\
    (wm_f_count (wm_fx_fsr x) = 0 -> x' = x) /\
    (wm_f_count (wm_fx_fsr x) <> 0 -> wm_f_ts (wm_fx_fsr x') = (wm_f_ts (wm_fx_fsr x) + Z.of_N (sg_spd d))%Z)).
  { intros x1 pos1 om Hx1 He1 Hf1.
    destruct (sf_wr_data_tail d x x1 pos1 (wm_rev (wm_f_buf (wm_fx_fsr x))) om Hx1 Hd He1 Hf1 Hw) as (T1 & T2 & T3 & T4 & T5 & T6 & T7 & T8).
    cbv zeta in *. do 7 (split; [assumption|]). split; [intro Hz; now elim E0 | intros _; exact T8]. }
  match goal with |- context [if ?c then (x, 0) else _] => destruct c end.
  - apply (Hgoal x 0); [exact Hx | apply sf_bext_refl | reflexivity].
  - destruct Hx as (Hb & Htk & Hf & Hoff15).
    set (w := dt_bits (sg_dtype d)) in *. set (f := wm_fx_fsr x) in *.
    set (samples := wm_rev (wm_f_buf f)) in *. set (data := wm_pack w samples) in *.
    destruct (wm_core_wr_data (wm_fx_base x) (sg_id d) (wm_fx_tk x) _ _) as [b1 t1] eqn:Ed.
    assert (Hlen : SIZEOF_payload_header + (wm_f_count f * w + 7) / 8 <=
                   N.of_nat (length (wm_fsr_data_payload (wm_f_ts f) (wm_f_count f) w data))).
    { unfold wm_fsr_data_payload. rewrite app_length, sf_payload_header_length.
      pose proof (sf_pack_length w samples (proj2 (proj2 (proj2 (proj2 (proj2 Hd)))))) as Hp. fold data in Hp.
      assert (Hs : N.of_nat (length samples) = wm_f_count f) by (subst samples; rewrite sf_rev_length; lia).
      rewrite Hs in Hp. unfold SIZEOF_payload_header. lia. }
    destruct (sf_core_wr_data _ _ _ _ _ _ _ Hb Htk Hlen Ed) as (K1 & K2 & K3 & K4 & _).
    apply (Hgoal {| wm_fx_base := b1; wm_fx_tk := t1; wm_fx_fsr := f |}); [|exact K2 | reflexivity].
    split; [exact K1|]. split; [exact K3|]. split; [exact Hf|]. cbn [wm_fx_tk]. rewrite K4 by lia. exact Hoff15.
Qed.

(* ================================================================ wr_data_inner *)
Definition sf_blk_ok (d : sigdef) (f : wm_fsr) : Prop :=
  wm_f_count f = N.of_nat (length (wm_f_buf f)) /\ wm_f_count f < sg_spd d.
Definition sf_Wf (d : sigdef) (f : wm_fsr) : N := wm_f_count f + sf_f_w d f 1.
Definition sf_pos (f : wm_fsr) : Z := (wm_f_ts f + Z.of_N (wm_f_count f))%Z.

Lemma sf_fsr_wr_inner_S : forall fu d x data data_length,
  wm_fsr_wr_inner summ1 summN (S fu) d x data data_length =
    if data_length =? 0 then x
    else
      let f := wm_fx_fsr x in
      let room := sg_spd d - wm_f_count f in
      let length := if data_length <? room then data_length else room in
      let take := firstn (N.to_nat length) data in
      let f1 := wm_f_set_block f (wm_f_alloc f) (wm_f_ts f) (wm_f_count f + length) (rev_append take (wm_f_buf f)) in
      let x1 := wm_fx_set_fsr x f1 in
      let x2 := if sg_spd d <=? wm_f_count f1 then wm_fsr_wr_data summ1 summN d x1 else x1 in
      wm_fsr_wr_inner summ1 summN fu d x2 (skipn (N.to_nat length) data) (data_length - length).
Proof. reflexivity. Qed.

Lemma sf_fsr_wr_inner_spec : forall fuel d x data dl,
  sf_fx_ok x -> sf_def_ok d -> sf_blk_ok d (wm_fx_fsr x) -> dl <= N.of_nat (length data) -> (N.to_nat dl < fuel)%nat ->
  sf_Wf d (wm_fx_fsr x) + dl < sf_lim d ->
  let x' := wm_fsr_wr_inner summ1 summN fuel d x data dl in
  sf_fx_ok x' /\ sf_bext (wm_fx_base x) (wm_fx_base x') /\ sf_blk_ok d (wm_fx_fsr x') /\
  sf_Wf d (wm_fx_fsr x') <= sf_Wf d (wm_fx_fsr x) + dl /\
  sf_pos (wm_fx_fsr x') = (sf_pos (wm_fx_fsr x) + Z.of_N dl)%Z /\
  wm_f_alloc (wm_fx_fsr x') = wm_f_alloc (wm_fx_fsr x) /\ wm_f_sid0 (wm_fx_fsr x') = wm_f_sid0 (wm_fx_fsr x).
Proof.
  induction fuel as [|fu IH]; intros d x data dl Hx Hd Hblk Hdl Hfuel Hw; [lia|].
  cbv zeta. rewrite sf_fsr_wr_inner_S.
  destruct (dl =? 0) eqn:E0.
  { apply N.eqb_eq in E0. subst dl. split; [exact Hx|]. split; [apply sf_bext_refl|]. split; [exact Hblk|].
    split; [lia|]. split; [lia|]. split; reflexivity. }
  apply N.eqb_neq in E0. cbv zeta.
  set (f := wm_fx_fsr x) in *. destruct Hblk as [Hcnt Hlt].
  set (room := sg_spd d - wm_f_count f).
  set (len := if dl <? room then dl else room).
  assert (Hlen : 1 <= len /\ len <= dl /\ len <= room).
  { subst len. destruct (dl <? room) eqn:E; [apply N.ltb_lt in E | apply N.ltb_ge in E]; subst room; lia. }
  destruct Hlen as (Hl1 & Hl2 & Hl3).
  set (take := firstn (N.to_nat len) data).
  assert (Htake : length take = N.to_nat len) by (subst take; rewrite firstn_length; lia).
  set (f1 := wm_f_set_block f (wm_f_alloc f) (wm_f_ts f) (wm_f_count f + len) (rev_append take (wm_f_buf f))).
  set (x1 := wm_fx_set_fsr x f1).
  destruct Hx as (Hb & Htk & Hf & Hoff15).
  assert (Hx1 : sf_fx_ok x1) by (split; [exact Hb|]; split; [exact Htk|]; split; [exact Hf | exact Hoff15]).
  assert (Hcnt1 : wm_f_count f1 = N.of_nat (length (wm_f_buf f1))).
  { subst f1. cbn [wm_f_set_block wm_f_count wm_f_buf]. rewrite rev_append_rev, app_length, rev_length. lia. }
  assert (Hw1 : sf_f_w d f1 1 = sf_f_w d f 1) by reflexivity.
  assert (Hc1 : wm_f_count f1 = wm_f_count f + len) by reflexivity.
  set (x2 := if sg_spd d <=? wm_f_count f1 then wm_fsr_wr_data summ1 summN d x1 else x1).
  assert (H2 : sf_fx_ok x2 /\ sf_bext (wm_fx_base x) (wm_fx_base x2) /\ sf_blk_ok d (wm_fx_fsr x2) /\
               sf_Wf d (wm_fx_fsr x2) <= sf_Wf d f + len /\ sf_pos (wm_fx_fsr x2) = (sf_pos f + Z.of_N len)%Z /\
               wm_f_alloc (wm_fx_fsr x2) = wm_f_alloc f /\ wm_f_sid0 (wm_fx_fsr x2) = wm_f_sid0 f).
  { subst x2. destruct (sg_spd d <=? wm_f_count f1) eqn:Efull.
    - apply N.leb_le in Efull.
      assert (Hpre : wm_f_count (wm_fx_fsr x1) + sf_f_w d (wm_fx_fsr x1) 1 < sf_lim d).
      { cbn [x1 wm_fx_set_fsr wm_fx_fsr]. rewrite Hc1, Hw1. unfold sf_Wf in Hw. lia. }
      destruct (sf_fsr_wr_data_spec d x1 Hx1 Hd Hcnt1 Hpre) as (K1 & K2 & K3 & K4 & K5 & K6 & K7 & _ & K9).
      cbv zeta in K1, K2, K3, K4, K5, K6, K7, K9. cbn [x1 wm_fx_set_fsr wm_fx_base wm_fx_fsr] in K2, K3, K4, K5, K9.
      split; [exact K1|]. split; [exact K2|]. split; [split; [rewrite K6, K7; reflexivity | rewrite K6; lia]|].
      split; [unfold sf_Wf; rewrite K6; rewrite Hc1, Hw1 in K3; lia|].
      split; [|split; [exact K4 | exact K5]].
      unfold sf_pos. rewrite K6, K9 by lia. cbn [f1 wm_f_set_block wm_f_ts]. lia.
    - apply N.leb_gt in Efull. split; [exact Hx1|]. split; [apply sf_bext_refl|].
      split; [split; [exact Hcnt1 | exact Efull]|].
      split; [unfold sf_Wf; cbn [x1 wm_fx_set_fsr wm_fx_fsr]; rewrite Hc1, Hw1; lia|].
      split; [unfold sf_pos; cbn [x1 wm_fx_set_fsr wm_fx_fsr f1 wm_f_set_block wm_f_ts wm_f_count]; lia|]. split; reflexivity. }
  destruct H2 as (Hx2 & He2 & Hblk2 & Hw2 & Hp2 & Ha2 & Hs2).
  assert (Hdl' : dl - len <= N.of_nat (length (skipn (N.to_nat len) data))) by (rewrite skipn_length; lia).
  destruct (IH d x2 (skipn (N.to_nat len) data) (dl - len) Hx2 Hd Hblk2 Hdl' ltac:(lia) ltac:(lia)) as (K1 & K2 & K3 & K4 & K5 & K6 & K7).
  cbv zeta in K1, K2, K3, K4, K5, K6, K7.
  split; [exact K1|]. split; [eapply sf_bext_trans; eassumption|]. split; [exact K3|]. split; [lia|].
  split; [rewrite K5, Hp2; lia|]. split; congruence.
Qed.

(* ================================================================ the gap-fill loop *)
Lemma sf_fsr_gap_loop_S : forall fu d x skip buf_sz,
  wm_fsr_gap_loop summ1 summN (S fu) d x skip buf_sz =
    if skip =? 0 then x
    else
      let n := if skip <? buf_sz then skip else buf_sz in
      let fill := repeat (wm_fill_sample (sg_dtype d)) (N.to_nat n) in
      let x1 := wm_fsr_wr_inner summ1 summN (S (N.to_nat n)) d x fill n in
      wm_fsr_gap_loop summ1 summN fu d x1 (skip - n) n.
Proof. reflexivity. Qed.

Lemma sf_fsr_gap_loop_spec : forall fuel d x skip bsz,
  sf_fx_ok x -> sf_def_ok d -> sf_blk_ok d (wm_fx_fsr x) -> 0 < bsz ->
  (skip = 0 \/ (N.to_nat (skip / bsz) < fuel)%nat) ->
  sf_Wf d (wm_fx_fsr x) + skip < sf_lim d ->
  let x' := wm_fsr_gap_loop summ1 summN fuel d x skip bsz in
  sf_fx_ok x' /\ sf_bext (wm_fx_base x) (wm_fx_base x') /\ sf_blk_ok d (wm_fx_fsr x') /\
  sf_Wf d (wm_fx_fsr x') <= sf_Wf d (wm_fx_fsr x) + skip /\
  sf_pos (wm_fx_fsr x') = (sf_pos (wm_fx_fsr x) + Z.of_N skip)%Z /\
  wm_f_alloc (wm_fx_fsr x') = wm_f_alloc (wm_fx_fsr x) /\ wm_f_sid0 (wm_fx_fsr x') = wm_f_sid0 (wm_fx_fsr x).
Proof.
  induction fuel as [|fu IH]; intros d x skip bsz Hx Hd Hblk Hbsz Hfuel Hw.
  { destruct Hfuel as [Hz|Hf]; [|exfalso; exact (Nat.nlt_0_r _ Hf)]. subst skip. cbn [wm_fsr_gap_loop N.eqb].
    split; [exact Hx|]. split; [apply sf_bext_refl|]. split; [exact Hblk|]. split; [lia|]. split; [lia|]. split; reflexivity. }
  cbv zeta. rewrite sf_fsr_gap_loop_S.
  destruct (skip =? 0) eqn:E0.
  { apply N.eqb_eq in E0. subst skip. split; [exact Hx|]. split; [apply sf_bext_refl|]. split; [exact Hblk|].
    split; [lia|]. split; [lia|]. split; reflexivity. }
  apply N.eqb_neq in E0. cbv zeta. destruct Hfuel as [Hz|Hfuel]; [congruence|].
  set (n := if skip <? bsz then skip else bsz).
  assert (Hn : 1 <= n /\ n <= skip /\ (skip < bsz -> n = skip) /\ (bsz <= skip -> n = bsz)).
  { subst n. destruct (skip <? bsz) eqn:E; [apply N.ltb_lt in E | apply N.ltb_ge in E]; lia. }
  destruct Hn as (Hn1 & Hn2 & Hn3 & Hn4).
  set (fill := repeat (wm_fill_sample (sg_dtype d)) (N.to_nat n)).
  assert (Hfill : n <= N.of_nat (length fill)) by (subst fill; rewrite repeat_length; lia).
  destruct (sf_fsr_wr_inner_spec (S (N.to_nat n)) d x fill n Hx Hd Hblk Hfill ltac:(lia) ltac:(lia)) as (K1 & K2 & K3 & K4 & K5 & K6 & K7).
  cbv zeta in K1, K2, K3, K4, K5, K6, K7.
  set (x1 := wm_fsr_wr_inner summ1 summN (S (N.to_nat n)) d x fill n) in *.
  assert (Hfuel' : skip - n = 0 \/ (N.to_nat ((skip - n) / n) < fu)%nat).
  { destruct (N.lt_ge_cases skip bsz) as [Hlt|Hge].
    - left. rewrite (Hn3 Hlt). lia.
    - right. rewrite (Hn4 Hge).
      assert (Hdiv : skip / bsz = (skip - bsz) / bsz + 1).
      { replace skip with ((skip - bsz) + 1 * bsz) at 1 by lia. apply N.div_add. lia. }
      revert Hfuel. rewrite Hdiv. generalize ((skip - bsz) / bsz). intros q Hq. lia. }
  destruct (IH d x1 (skip - n) n K1 Hd K3 ltac:(lia) Hfuel' ltac:(lia)) as (J1 & J2 & J3 & J4 & J5 & J6 & J7).
  cbv zeta in J1, J2, J3, J4, J5, J6, J7.
  split; [exact J1|]. split; [eapply sf_bext_trans; eassumption|]. split; [exact J3|]. split; [lia|].
  split; [rewrite J5, K5; lia|]. split; congruence.
Qed.

Lemma sf_fill_buf_pos : forall dt, sf_wok (dt_bits dt) -> 0 < wm_fill_buf_samples dt.
Proof.
  intros dt (H0 & _ & H64). unfold wm_fill_buf_samples.
  destruct (dt =? JLS_DATATYPE_F32); [reflexivity|]. destruct (dt =? JLS_DATATYPE_F64); [reflexivity|].
  apply N.div_str_pos. lia.
Qed.

(* ================================================================ jls_wr_fsr_data *)
Definition sf_fsr_inv (d : sigdef) (f : wm_fsr) : Prop :=
  sf_flv_ok f /\
  (wm_f_alloc f = true -> sf_blk_ok d f /\ (Z.of_N (sf_Wf d f) <= sf_pos f - wm_f_sid0 f)%Z) /\
  (wm_f_alloc f = false -> sf_f_w d f 1 = 0).

Lemma sf_fsr_data_spec : forall d x sid samples lo hi,
  sf_fx_ok x -> sf_def_ok d -> sf_fsr_inv d (wm_fx_fsr x) ->
  (wm_f_alloc (wm_fx_fsr x) = true -> (lo <= wm_f_sid0 (wm_fx_fsr x) /\ sf_pos (wm_fx_fsr x) <= hi)%Z) ->
  (lo <= sid)%Z -> (sid + Z.of_nat (length samples) <= hi)%Z -> (hi - lo < Z.of_N (sf_lim d))%Z ->
  let x' := wm_fsr_data summ1 summN d x sid samples in
  sf_fx_ok x' /\ sf_bext (wm_fx_base x) (wm_fx_base x') /\ sf_fsr_inv d (wm_fx_fsr x') /\
  (wm_f_alloc (wm_fx_fsr x') = true -> (lo <= wm_f_sid0 (wm_fx_fsr x') /\ sf_pos (wm_fx_fsr x') <= hi)%Z) /\
  (wm_f_alloc (wm_fx_fsr x) = true -> wm_f_alloc (wm_fx_fsr x') = true).
Proof.
  intros d x sid samples lo hi Hx Hd Hinv Hwin Hlo Hhi Hlim. cbv zeta. unfold wm_fsr_data.
  destruct (N.of_nat (length samples) =? 0) eqn:E0.
  { split; [exact Hx|]. split; [apply sf_bext_refl|]. split; [exact Hinv|]. split; [exact Hwin | auto]. }
  apply N.eqb_neq in E0. cbv zeta.
  set (f := wm_fx_fsr x) in *. destruct Hinv as (Hflv & Hal & Hnal).
  set (f1 := if wm_f_alloc f then f else wm_f_set_sid0 (wm_f_set_block f true sid 0 []) sid).
  pose proof Hd as (Hsdf & Hsumdf & Hspd & _).
  assert (H1 : sf_flv_ok f1 /\ wm_f_alloc f1 = true /\ sf_blk_ok d f1 /\ (Z.of_N (sf_Wf d f1) <= sf_pos f1 - wm_f_sid0 f1)%Z /\
               (lo <= wm_f_sid0 f1)%Z /\ (sf_pos f1 <= hi)%Z).
  { subst f1. destruct (wm_f_alloc f) eqn:Ea.
    - destruct (Hal eq_refl) as [B1 B2]. destruct (Hwin eq_refl) as [W1 W2].
      split; [exact Hflv|]. split; [exact Ea|]. split; [exact B1|]. split; [exact B2|]. split; assumption.
    - specialize (Hnal eq_refl).
      split; [exact Hflv|]. split; [reflexivity|].
      split; [split; [reflexivity | cbn [wm_f_set_sid0 wm_f_set_block wm_f_count]; lia]|].
      unfold sf_Wf, sf_pos. cbn [wm_f_set_sid0 wm_f_set_block wm_f_count wm_f_ts wm_f_sid0].
      change (sf_f_w d (wm_f_set_sid0 (wm_f_set_block f true sid 0 []) sid) 1) with (sf_f_w d f 1). rewrite Hnal.
      split; [lia|]. split; lia. }
  destruct H1 as (Hflv1 & Ha1 & Hblk1 & Hq1 & Hlo1 & Hhi1).
  set (x1 := wm_fx_set_fsr x f1).
  destruct Hx as (Hb & Htk & _ & Hoff15).
  assert (Hx1 : sf_fx_ok x1) by (split; [exact Hb|]; split; [exact Htk|]; split; [exact Hflv1 | exact Hoff15]).
  set (dl := N.of_nat (length samples)) in *.
  set (nxt := (wm_f_ts f1 + Z.of_N (wm_f_count f1))%Z).
  assert (Hnxt : nxt = sf_pos f1) by reflexivity.
  assert (Hhi' : (sid + Z.of_N dl <= hi)%Z) by (subst dl; lia).
  (* common final step *)
  assert (Hfin : forall y, sf_fx_ok y -> sf_bext (wm_fx_base x) (wm_fx_base y) -> sf_blk_ok d (wm_fx_fsr y) ->
            wm_f_alloc (wm_fx_fsr y) = true -> wm_f_sid0 (wm_fx_fsr y) = wm_f_sid0 f1 ->
            (Z.of_N (sf_Wf d (wm_fx_fsr y)) <= sf_pos (wm_fx_fsr y) - wm_f_sid0 f1)%Z -> (sf_pos (wm_fx_fsr y) <= hi)%Z ->
            sf_fx_ok y /\ sf_bext (wm_fx_base x) (wm_fx_base y) /\ sf_fsr_inv d (wm_fx_fsr y) /\
            (wm_f_alloc (wm_fx_fsr y) = true -> (lo <= wm_f_sid0 (wm_fx_fsr y) /\ sf_pos (wm_fx_fsr y) <= hi)%Z) /\
            (wm_f_alloc f = true -> wm_f_alloc (wm_fx_fsr y) = true)).
  { intros y Y1 Y2 Y3 Y4 Y5 Y6 Y7. split; [exact Y1|]. split; [exact Y2|].
    split; [split; [apply Y1|]; split; [intros _; split; [exact Y3 | rewrite Y5; exact Y6] | intro Hc; congruence]|].
    split; [intros _; rewrite Y5; split; assumption | intros _; exact Y4]. }
  destruct (sid =? nxt)%Z eqn:Eeq.
  - (* contiguous *)
    apply Z.eqb_eq in Eeq.
    destruct (sf_fsr_wr_inner_spec (S (length samples)) d x1 samples dl Hx1 Hd Hblk1 ltac:(subst dl; lia) ltac:(subst dl; lia)) as (K1 & K2 & K3 & K4 & K5 & K6 & K7).
    { cbn [x1 wm_fx_set_fsr wm_fx_fsr]. lia. }
    cbv zeta in K1, K2, K3, K4, K5, K6, K7. cbn [x1 wm_fx_set_fsr wm_fx_base wm_fx_fsr] in K2, K4, K5, K6, K7.
    apply Hfin; try assumption; try congruence; lia.
  - apply Z.eqb_neq in Eeq. destruct (sid <? nxt)%Z eqn:Elt.
    + apply Z.ltb_lt in Elt. destruct (sid + Z.of_N dl <=? nxt)%Z eqn:Edup.
      * (* all duplicates *)
        apply (Hfin x1); try assumption; try reflexivity. apply sf_bext_refl.
      * apply Z.leb_gt in Edup.
        set (ffwd := Z.to_N (nxt - sid)).
        destruct (sf_fsr_wr_inner_spec (S (length samples)) d x1 (skipn (N.to_nat ffwd) samples) (dl - ffwd) Hx1 Hd Hblk1) as (K1 & K2 & K3 & K4 & K5 & K6 & K7).
        { rewrite skipn_length. subst dl ffwd. lia. }
        { subst dl. lia. }
        { cbn [x1 wm_fx_set_fsr wm_fx_fsr]. subst ffwd. lia. }
        cbv zeta in K1, K2, K3, K4, K5, K6, K7. cbn [x1 wm_fx_set_fsr wm_fx_base wm_fx_fsr] in K2, K4, K5, K6, K7.
        apply Hfin; try assumption; try congruence; subst ffwd; lia.
    + (* gap *)
      apply Z.ltb_ge in Elt.
      set (skip := Z.to_N (sid - nxt)).
      set (bsz := wm_fill_buf_samples (sg_dtype d)).
      assert (Hbsz : 0 < bsz) by (apply sf_fill_buf_pos; apply Hd).
      destruct (sf_fsr_gap_loop_spec (S (N.to_nat (skip / bsz))) d x1 skip bsz Hx1 Hd Hblk1 Hbsz (or_intror (Nat.lt_succ_diag_r _))) as (G1 & G2 & G3 & G4 & G5 & G6 & G7).
      { cbn [x1 wm_fx_set_fsr wm_fx_fsr]. subst skip. lia. }
      cbv zeta in G1, G2, G3, G4, G5, G6, G7. cbn [x1 wm_fx_set_fsr wm_fx_base wm_fx_fsr] in G2, G4, G5, G6, G7.
      set (x2 := wm_fsr_gap_loop summ1 summN (S (N.to_nat (skip / bsz))) d x1 skip bsz) in *.
      destruct (sf_fsr_wr_inner_spec (S (length samples)) d x2 samples dl G1 Hd G3 ltac:(subst dl; lia) ltac:(subst dl; lia)) as (K1 & K2 & K3 & K4 & K5 & K6 & K7).
      { subst skip. lia. }
      cbv zeta in K1, K2, K3, K4, K5, K6, K7.
      apply Hfin; try assumption; try congruence.
      * eapply sf_bext_trans; eassumption.
      * subst skip. lia.
      * subst skip. lia.
Qed.

(* ================================================================ jls_fsr_close *)
Lemma sf_fsr_summary_close_gen : forall fuel d x L lv,
  sf_fx_ok x -> sf_def_ok d -> 1 <= L <= 15 -> sf_f_w d (wm_fx_fsr x) 1 < sf_lim d ->
  (16 <= fuel + N.to_nat L)%nat -> wm_f_get_level (wm_fx_fsr x) L = Some lv ->
  forall x1, x1 = wm_fsr_wr_summary summN fuel d L x ->
  let x' := wm_fx_set_fsr x1 (wm_f_set_level (wm_fx_fsr x1) L None) in
  sf_fx_ok x' /\ sf_bext (wm_fx_base x) (wm_fx_base x') /\ sf_f_w d (wm_fx_fsr x') 1 <= sf_f_w d (wm_fx_fsr x) 1.
Proof.
  intros fuel d x L lv Hx Hd HL Hw Hfuel Eg x1 Ex1.
  assert (HwL : sf_f_w d (wm_fx_fsr x) (N.to_nat L) < sf_lim d).
  { eapply N.le_lt_trans; [apply (sf_f_w_mono d (wm_fx_fsr x) 1 (N.to_nat L)); lia | exact Hw]. }
  destruct (sf_fsr_wr_summary_spec fuel d L x Hx Hd HL Hfuel (ex_intro _ lv Eg) HwL) as (K1 & K2 & K3 & K4 & K5).
  cbv zeta in K1, K2, K3, K4, K5. rewrite <- Ex1 in K1, K2, K3, K4, K5. clear Ex1.
  destruct K1 as (Hb1 & Ht1 & Hf1 & Hoff1). pose proof Hf1 as (Hlen1 & _).
  assert (Hlen0 : length (wm_f_levels (wm_fx_fsr x)) = 16%nat) by apply Hx.
  assert (Hw1 : sf_f_w d (wm_fx_fsr x1) 1 <= sf_f_w d (wm_fx_fsr x) 1).
  { apply (sf_f_w_frame d (wm_fx_fsr x) (wm_fx_fsr x1) 1 (N.to_nat L)); try lia; assumption. }
  cbv zeta. split; [|split].
  - unfold sf_fx_ok, wm_fx_set_fsr. cbn [wm_fx_base wm_fx_tk wm_fx_fsr].
    split; [exact Hb1|]. split; [exact Ht1|]. split; [|exact Hoff1]. apply sf_f_set_ok; [exact Hf1 | exact I].
  - exact K2.
  - unfold wm_fx_set_fsr. cbn [wm_fx_fsr].
    eapply N.le_trans; [|exact Hw1].
    apply (sf_f_w_frame d (wm_fx_fsr x1) (wm_f_set_level (wm_fx_fsr x1) L None) 1 (N.to_nat L)); try lia.
    + unfold wm_f_set_level. cbn [wm_f_levels]. apply sf_upd_length.
    + unfold wm_f_set_level. cbn [wm_f_levels]. apply sf_firstn_upd. lia.
    + rewrite sf_f_w_set_eq by lia. cbn [sf_f_e]. rewrite (sf_f_w_step d (wm_fx_fsr x1) (N.to_nat L)) by lia. lia.
Qed.

Lemma sf_fsr_summary_close_spec : forall d x L,
  sf_fx_ok x -> sf_def_ok d -> 1 <= L <= 15 -> sf_f_w d (wm_fx_fsr x) 1 < sf_lim d ->
  let x' := wm_fsr_summary_close summN d x L in
  sf_fx_ok x' /\ sf_bext (wm_fx_base x) (wm_fx_base x') /\ sf_f_w d (wm_fx_fsr x') 1 <= sf_f_w d (wm_fx_fsr x) 1.
Proof.
  intros d x L Hx Hd HL Hw. cbv zeta. unfold wm_fsr_summary_close.
  destruct (wm_f_get_level (wm_fx_fsr x) L) as [lv|] eqn:Eg.
  2:{ split; [exact Hx|]. split; [apply sf_bext_refl | apply N.le_refl]. }
  assert (Hfuel : (16 <= wm_level_count + N.to_nat L)%nat) by (unfold wm_level_count, JLS_SUMMARY_LEVEL_COUNT; lia).
  exact (sf_fsr_summary_close_gen wm_level_count d x L lv Hx Hd HL Hw Hfuel Eg _ eq_refl).
Qed.

Lemma sf_fsr_close_levels_range : Forall (fun L => 1 <= L <= 15) wm_fsr_close_levels.
Proof. unfold wm_fsr_close_levels. repeat (constructor; [lia|]). constructor. Qed.

Lemma sf_fsr_close_spec : forall d x,
  sf_fx_ok x -> sf_def_ok d -> sf_f_w d (wm_fx_fsr x) 1 < sf_lim d ->
  (wm_f_alloc (wm_fx_fsr x) = true ->
     wm_f_count (wm_fx_fsr x) = N.of_nat (length (wm_f_buf (wm_fx_fsr x))) /\ sf_Wf d (wm_fx_fsr x) < sf_lim d) ->
  let x' := wm_fsr_close summ1 summN d x in
  sf_fx_ok x' /\ sf_bext (wm_fx_base x) (wm_fx_base x').
Proof.
  intros d x Hx Hd Hw1 Hal. cbv zeta. unfold wm_fsr_close.
  set (x1 := if wm_f_alloc (wm_fx_fsr x)
             then (let y := wm_fsr_wr_data summ1 summN d x in
                   let f := wm_fx_fsr y in
                   wm_fx_set_fsr y (wm_f_set_block f false (wm_f_ts f) (wm_f_count f) (wm_f_buf f)))
             else x).
  assert (H1 : (sf_fx_ok x1 /\ sf_f_w d (wm_fx_fsr x1) 1 < sf_lim d) /\ sf_bext (wm_fx_base x) (wm_fx_base x1)).
  { subst x1. destruct (wm_f_alloc (wm_fx_fsr x)) eqn:Ea.
    - destruct (Hal eq_refl) as [Hcnt Hw].
      destruct (sf_fsr_wr_data_spec d x Hx Hd Hcnt Hw) as (K1 & K2 & K3 & _).
      cbv zeta in K1, K2, K3 |- *. set (y := wm_fsr_wr_data summ1 summN d x) in *.
      destruct K1 as (Hb & Ht & Hf & Ho).
      split; [split|].
      + unfold sf_fx_ok, wm_fx_set_fsr. cbn [wm_fx_base wm_fx_tk wm_fx_fsr]. split; [exact Hb|]. split; [exact Ht|]. split; [exact Hf | exact Ho].
      + unfold wm_fx_set_fsr. cbn [wm_fx_fsr].
        change (sf_f_w d (wm_f_set_block (wm_fx_fsr y) false (wm_f_ts (wm_fx_fsr y)) (wm_f_count (wm_fx_fsr y)) (wm_f_buf (wm_fx_fsr y))) 1)
          with (sf_f_w d (wm_fx_fsr y) 1). unfold sf_Wf in Hw. lia.
      + exact K2.
    - split; [split; [exact Hx | exact Hw1] | apply sf_bext_refl]. }
  destruct H1 as [H1 He1].
  destruct (sf_fold_inv wm_fx N (fun y => sf_fx_ok y /\ sf_f_w d (wm_fx_fsr y) 1 < sf_lim d)
              (fun a b => sf_bext (wm_fx_base a) (wm_fx_base b)) (fun L => 1 <= L <= 15)
              (wm_fsr_summary_close summN d)) with (ls := wm_fsr_close_levels) (x0 := x1) as [[J1 _] J2].
  - intro a. apply sf_bext_refl.
  - intros a b c. apply sf_bext_trans.
  - intros y L [Hy Hwy] HL. destruct (sf_fsr_summary_close_spec d y L Hy Hd HL Hwy) as (K1 & K2 & K3).
    cbv zeta in K1, K2, K3. split; [split; [exact K1 | lia] | exact K2].
  - exact H1.
  - exact sf_fsr_close_levels_range.
  - split; [exact J1 | eapply sf_bext_trans; eassumption].
Qed.

End SF_FSR.
