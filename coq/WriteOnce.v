(* The write-once discipline of a JLS file under construction, as a checker over the log of
   backend writes (offset, bytes), truncations and syncs.  [wo_check_log] replays the log and
   accepts a write iff it is
     (1) an append at exactly the current end of file that continues the chunk structure
         (32-byte CRC-valid chunk header; then the payload; then zero pad + payload CRC),
     (2) a 32-byte rewrite of the header of a completed chunk that changes nothing but
         item_next (and the header CRC) and is CRC-valid,
     (3) a rewrite of the 128-byte table of a completed TRACK_*_HEAD chunk in which every entry keeps
         its value or goes from 0 to the offset of a completed chunk, followed by the zero pad +
         CRC of that same chunk,
     (4) the 32-byte file header at offset 0 (first write: length 0; later: length = file size).
   The checker keeps no copy of the file: only the extents/headers of the completed chunks,
   the tables of HEAD chunks and the chunk being appended.  Definitions only; the soundness theorem is in
   WriteOnceProofs.v.  Every top-level name starts with wo_ / Wo. *)
From Coq Require Import NArith ZArith List Bool.
From JLS Require Import Generated CrcDefs Format.
Import ListNotations.
Local Open Scope N_scope.

Inductive wo_ev :=
| WoWrite (off : N) (bytes : list N)
| WoTrunc (len : N)                 (* ftruncate / O_TRUNC *)
| WoSync.

(* ---------------------------------------------------------------- meaning of a log *)
(* a write may start beyond the end of file: the hole reads as zeros *)
Definition wo_apply_write (f : list N) (off : N) (b : list N) : list N :=
  let o := N.to_nat off in
  firstn o f ++ repeat 0 (o - length f) ++ b ++ skipn (o + length b) f.
Definition wo_apply (f : list N) (e : wo_ev) : list N :=
  match e with
  | WoWrite off b => wo_apply_write f off b
  | WoTrunc len => firstn (N.to_nat len) f ++ repeat 0 (N.to_nat len - length f)
  | WoSync => f
  end.
Definition wo_file_after (l : list wo_ev) : list N := fold_left wo_apply l [].

(* ---------------------------------------------------------------- checker state *)
Record wo_ext := {
  wo_e_off : N;                     (* start of the chunk header *)
  wo_e_hdr : fm_chunk_header;       (* its current header *)
  wo_e_table : list N }.            (* current payload of a HEAD chunk ([] for the others) *)

Inductive wo_pend :=
| WoIdle
| WoHdr (h : fm_chunk_header)                        (* header appended, payload expected *)
| WoPay (h : fm_chunk_header) (p : list N)           (* payload appended, pad + CRC expected *)
| WoTbl (o : N) (h : fm_chunk_header) (p : list N).  (* table of the HEAD chunk at o rewritten with p, pad + CRC expected *)

Record wo_st := {
  wo_len : N;                       (* file length *)
  wo_end : N;                       (* end of the completed chunks = start of the chunk being appended *)
  wo_exts : list wo_ext;            (* completed chunks, most recent first *)
  wo_pending : wo_pend;
  wo_n_app : N; wo_n_link : N; wo_n_tbl : N; wo_n_fh : N }.   (* accepted writes per class *)

Definition wo_st0 : wo_st :=
  {| wo_len := 0; wo_end := 0; wo_exts := []; wo_pending := WoIdle; wo_n_app := 0; wo_n_link := 0; wo_n_tbl := 0; wo_n_fh := 0 |}.

Inductive wo_reason :=
| WoR_truncate                       (* the file would shrink or grow by truncation *)
| WoR_before_file_header             (* data before the file header was written *)
| WoR_file_header_bad                (* write at offset 0 that is not a CRC-valid 32-byte file header *)
| WoR_file_header_length             (* file header whose length field is not 0 (first) / the file size (later) *)
| WoR_file_header_pending            (* file header rewritten in the middle of a chunk *)
| WoR_append_header_bad              (* appended bytes are not a CRC-valid 32-byte chunk header *)
| WoR_append_payload_length          (* appended payload does not have the announced length *)
| WoR_append_footer_bad              (* appended pad + CRC wrong (length, non-zero pad, CRC) *)
| WoR_hole                           (* write beyond the end of file *)
| WoR_rewrite_elsewhere              (* in-place write that is neither a chunk header nor a head table *)
| WoR_rewrite_while_appending        (* in-place write between the parts of an append *)
| WoR_hdr_rewrite_bad                (* header rewrite that is not a CRC-valid 32-byte header *)
| WoR_hdr_rewrite_changes (field : N) (tag : N)   (* field: 1 item_prev 2 tag 3 rsv0 4 chunk_meta 5 payload_length *)
| WoR_hdr_rewrite_ppl (tag : N)      (* header rewrite changes payload_prev_length *)
| WoR_tbl_not_head                   (* payload rewrite of a chunk that is not a TRACK_*_HEAD chunk *)
| WoR_tbl_length
| WoR_tbl_entry (k : N)              (* entry k changed from non-zero, or to something that is not a completed chunk *)
| WoR_tbl_footer.                    (* the write after a table rewrite is not that chunk's pad + CRC *)

Fixpoint wo_find (o : N) (l : list wo_ext) : option wo_ext :=
  match l with
  | [] => None
  | x :: r => if wo_e_off x =? o then Some x else wo_find o r
  end.
Fixpoint wo_update (y : wo_ext) (l : list wo_ext) : list wo_ext :=
  match l with
  | [] => []
  | x :: r => if wo_e_off x =? wo_e_off y then y :: r else x :: wo_update y r
  end.
Definition wo_is_start (o : N) (l : list wo_ext) : bool := match wo_find o l with Some _ => true | None => false end.

Definition wo_footer_ok (h : fm_chunk_header) (p b : list N) : bool :=
  let pad := fm_pad_len (fm_payload_length h) in
  (N.of_nat (length b) =? pad + RAW_CRC_SIZE) && fm_all_zero (firstn (N.to_nat pad) b) &&
  (fm_dec_u32 (skipn (N.to_nat pad) b) =? crc32c p).

(* which field of a rewritten header differs from the header it replaces (lenient: ignore payload_prev_length) *)
Definition wo_hdr_diff (lenient : bool) (h h' : fm_chunk_header) : option wo_reason :=
  if negb (fm_item_prev h' =? fm_item_prev h) then Some (WoR_hdr_rewrite_changes 1 (fm_tag h)) else
  if negb (fm_tag h' =? fm_tag h) then Some (WoR_hdr_rewrite_changes 2 (fm_tag h)) else
  if negb (fm_rsv0 h' =? fm_rsv0 h) then Some (WoR_hdr_rewrite_changes 3 (fm_tag h)) else
  if negb (fm_chunk_meta h' =? fm_chunk_meta h) then Some (WoR_hdr_rewrite_changes 4 (fm_tag h)) else
  if negb (fm_payload_length h' =? fm_payload_length h) then Some (WoR_hdr_rewrite_changes 5 (fm_tag h)) else
  if negb lenient && negb (fm_payload_prev_length h' =? fm_payload_prev_length h) then Some (WoR_hdr_rewrite_ppl (fm_tag h)) else
  None.

(* entries k, k+1, ... of the old and new table *)
Fixpoint wo_tbl_check (exts : list wo_ext) (n : nat) (k : N) (old new : list N) : option wo_reason :=
  match n with
  | O => None
  | S n' =>
    let a := fm_dec_u64 old in
    let b := fm_dec_u64 new in
    if (b =? a) || ((a =? 0) && wo_is_start b exts)
    then wo_tbl_check exts n' (k + 1) (skipn 8 old) (skipn 8 new)
    else Some (WoR_tbl_entry k)
  end.

Definition wo_complete (s : wo_st) (h : fm_chunk_header) (p : list N) (len' : N) : wo_st :=
  {| wo_len := len'; wo_end := len';
     wo_exts := {| wo_e_off := wo_end s; wo_e_hdr := h; wo_e_table := if fm_is_head_tag (fm_tag h) then p else [] |} :: wo_exts s;
     wo_pending := WoIdle; wo_n_app := wo_n_app s + 1; wo_n_link := wo_n_link s; wo_n_tbl := wo_n_tbl s; wo_n_fh := wo_n_fh s |}.
Definition wo_set (s : wo_st) (len' : N) (pend : wo_pend) (da dl dt df : N) (exts : list wo_ext) : wo_st :=
  {| wo_len := len'; wo_end := wo_end s; wo_exts := exts; wo_pending := pend;
     wo_n_app := wo_n_app s + da; wo_n_link := wo_n_link s + dl; wo_n_tbl := wo_n_tbl s + dt; wo_n_fh := wo_n_fh s + df |}.

Definition wo_is_idle (p : wo_pend) : bool := match p with WoIdle => true | _ => false end.

Definition wo_step_write (lenient : bool) (s : wo_st) (off : N) (b : list N) : wo_st + wo_reason :=
  let n := N.of_nat (length b) in
  if off =? 0 then
    (* ---- (4) file header ---- *)
    match fm_decode_file_header b with
    | None => inr WoR_file_header_bad
    | Some fh =>
      if negb (n =? SIZEOF_file_header) then inr WoR_file_header_bad else
      if negb (wo_is_idle (wo_pending s)) then inr WoR_file_header_pending else
      if wo_len s =? 0 then
        (if fm_fh_length fh =? 0
         then inl {| wo_len := n; wo_end := n; wo_exts := []; wo_pending := WoIdle;
                     wo_n_app := wo_n_app s; wo_n_link := wo_n_link s; wo_n_tbl := wo_n_tbl s; wo_n_fh := wo_n_fh s + 1 |}
         else inr WoR_file_header_length)
      else
        (if fm_fh_length fh =? wo_len s then inl (wo_set s (wo_len s) WoIdle 0 0 0 1 (wo_exts s)) else inr WoR_file_header_length)
    end
  else if wo_len s =? 0 then inr WoR_before_file_header
  else
    match wo_pending s with
    | WoTbl o h p =>
      (* ---- (3b) pad + CRC of the head chunk whose table was just rewritten ---- *)
      if (off =? o + SIZEOF_chunk_header + fm_payload_length h) && wo_footer_ok h p b
      then inl (wo_set s (wo_len s) WoIdle 0 0 1 0 (wo_exts s))
      else inr WoR_tbl_footer
    | pend =>
      if wo_len s <? off then inr WoR_hole else
      if off =? wo_len s then
        (* ---- (1) append ---- *)
        match pend with
        | WoIdle =>
          match fm_decode_chunk_header b with
          | None => inr WoR_append_header_bad
          | Some h =>
            if negb (n =? SIZEOF_chunk_header) then inr WoR_append_header_bad else
            if fm_payload_length h =? 0 then inl (wo_complete s h [] (wo_len s + n))
            else inl (wo_set s (wo_len s + n) (WoHdr h) 0 0 0 0 (wo_exts s))
          end
        | WoHdr h =>
          if n =? fm_payload_length h then inl (wo_set s (wo_len s + n) (WoPay h b) 0 0 0 0 (wo_exts s))
          else inr WoR_append_payload_length
        | WoPay h p =>
          if wo_footer_ok h p b then inl (wo_complete s h p (wo_len s + n)) else inr WoR_append_footer_bad
        | WoTbl _ _ _ => inr WoR_tbl_footer
        end
      else
        (* ---- in place ---- *)
        if negb (wo_is_idle pend) then inr WoR_rewrite_while_appending else
        match wo_find off (wo_exts s) with
        | Some x =>
          (* ---- (2) header link ---- *)
          match fm_decode_chunk_header b with
          | None => inr WoR_hdr_rewrite_bad
          | Some h' =>
            if negb (n =? SIZEOF_chunk_header) then inr WoR_hdr_rewrite_bad else
            match wo_hdr_diff lenient (wo_e_hdr x) h' with
            | Some r => inr r
            | None =>
              inl (wo_set s (wo_len s) WoIdle 0 1 0 0
                     (wo_update {| wo_e_off := off; wo_e_hdr := h'; wo_e_table := wo_e_table x |} (wo_exts s)))
            end
          end
        | None =>
          if off <? SIZEOF_chunk_header then inr WoR_rewrite_elsewhere else
          match wo_find (off - SIZEOF_chunk_header) (wo_exts s) with
          | None => inr WoR_rewrite_elsewhere
          | Some x =>
            (* ---- (3a) head table ---- *)
            let h := wo_e_hdr x in
            if negb (fm_is_head_tag (fm_tag h)) then inr WoR_tbl_not_head else
            if negb ((fm_payload_length h =? SIZEOF_track_head) && (n =? SIZEOF_track_head)) then inr WoR_tbl_length else
            match wo_tbl_check (wo_exts s) (N.to_nat JLS_SUMMARY_LEVEL_COUNT) 0 (wo_e_table x) b with
            | Some r => inr r
            | None =>
              inl (wo_set s (wo_len s) (WoTbl (wo_e_off x) h b) 0 0 0 0
                     (wo_update {| wo_e_off := wo_e_off x; wo_e_hdr := h; wo_e_table := b |} (wo_exts s)))
            end
          end
        end
    end.

Definition wo_step (lenient : bool) (s : wo_st) (e : wo_ev) : wo_st + wo_reason :=
  match e with
  | WoSync => inl s
  | WoTrunc n => if n =? wo_len s then inl s else inr WoR_truncate
  | WoWrite off b => wo_step_write lenient s off b
  end.

(* replay: the final state, or the index of the first rejected entry and why *)
Fixpoint wo_run (lenient : bool) (s : wo_st) (idx : N) (l : list wo_ev) : wo_st + (N * wo_reason) :=
  match l with
  | [] => inl s
  | e :: r =>
    match wo_step lenient s e with
    | inl s' => wo_run lenient s' (idx + 1) r
    | inr why => inr (idx, why)
    end
  end.

Definition wo_check_log_gen (lenient : bool) (l : list wo_ev) : bool :=
  match wo_run lenient wo_st0 0 l with inl _ => true | inr _ => false end.
(* strict: exactly the discipline described above *)
Definition wo_check_log (l : list wo_ev) : bool := wo_check_log_gen false l.
(* a header rewrite may also change payload_prev_length (everything else is checked) *)
Definition wo_check_log_lenient (l : list wo_ev) : bool := wo_check_log_gen true l.
